(** * AuthHistEmit (helper of AuthHist, C10): the CLOSED CLASS of messages that the six contracts
    can emit.
    - [emit_wasm_ok wm]: white-list of the wasm payloads any handler can emit: hub
      BondRewards / UpdateGlobalIndex / CheckSlashing / RedelegateProxy / SwapHook / Receive, reward
      IncreaseBalance / DecreaseBalance, dispatcher SwapToRewardDenom / DispatchRewards, cw20
      Mint / Burn / Send, swap-stub messages and opaque (airdrop) payloads;
      [emit_ok m]: [m] is a bank / staking / distribution message or a wasm message with such a payload;
    - [hub_execute_emitok], [reward_execute_emitok], [disp_execute_emitok], [reg_execute_emitok],
      [bsei_execute_emitok], [stsei_execute_emitok]: every message emitted by a successful handler of
      any of the six contracts is in the class (proof scripts follow Proofs/TokenTxNoUpd.v);
    - [call_emits_emitok], [step_msg_emits_emitok]: hence every message emitted while executing any
      message is in the class.  In particular NO contract ever emits SetOwner / Accept / UpdateConfig /
      UpdateParams / any other owner-only message / cw20 UpdateMinter: such a message can only ever
      be the ROOT message of a transaction. *)
From Krp Require Import Tactics Prelude Fixed FMap Types Env Registry Cw20 Reward Dispatcher Hub Exec
     ExecP Hist Inv HubFrame HubAdmin MirrorWire.
Open Scope N_scope.

Definition emit_wasm_ok (wm : wasm_msg) : bool :=
  match wm with
  | WHub HBondRewards | WHub (HUpdateGlobal _) | WHub HCheckSlashing | WHub (HRedelProxy _ _)
  | WHub (HSwapHook _ _) | WHub (HReceive _ _ _) => true
  | WReward (RInc _ _) | WReward (RDec _ _) => true
  | WDisp (DSwap _ _) | WDisp DDispatch => true
  | WCw20 (CMint _ _) | WCw20 (CBurn _) | WCw20 (CSend _ _ _) => true
  | WSwap _ => true
  | WOpaque => true
  | _ => false
  end.

Definition emit_ok (m : cmsg) : bool :=
  match m with MWasm _ wm _ => emit_wasm_ok wm | _ => true end.

Definition emitok (m : cmsg) : Prop := emit_ok m = true.
Definition emitok_s (sm : addr * cmsg) : Prop := emitok (snd sm).

Ltac emitok_list :=
  repeat first [ apply Forall_nil
               | apply Forall_cons; [reflexivity|]
               | apply Forall_app; split ].

(** ** every handler emits only white-listed messages *)

Lemma delegate_msgs_emitok vals xs d : Forall emitok (delegate_msgs vals xs d).
Proof.
  unfold delegate_msgs. apply Forall_flat_map_all. intros p.
  destruct (snd p =? 0); emitok_list.
Qed.

Lemma pick_validator_emitok w self h claim out :
  pick_validator w self h claim = Some out -> Forall emitok out.
Proof.
  unfold pick_validator. intros H. bind_inv H as ys Hys. inversion H; subst.
  apply Forall_flat_map_all. intros p. destruct (snd p =? 0); emitok_list.
Qed.

Lemma maybe_undelegate_emitok w self h h' out :
  maybe_undelegate w self h = Some (h', out) -> Forall emitok out.
Proof.
  unfold maybe_undelegate. intros H. bind_inv H as p Hp.
  destruct (hp_epoch (h_params h) <? p); [|inversion H; subst; constructor].
  unfold process_undelegations in H.
  bind_inv H as a1 E1. bind_inv H as a2 E2. bind_inv H as a3 E3. bind_inv H as a4 E4.
  bind_inv H as a5 E5. bind_inv H as a6 E6. bind_inv H as a7 E7. inversion H; subst.
  eapply pick_validator_emitok; eauto.
Qed.

Lemma execute_bond_emitok w h self sender funds k h' out :
  execute_bond w h self sender funds k = Some (h', out) -> Forall emitok out.
Proof.
  unfold execute_bond. intros H.
  bind_inv H as dispaddr Hd. check_inv H as Hauth. check_inv H as Hlen.
  bind_inv H as pay Hpay. bind_inv H as h1 Hh1.
  bind_inv H as mint Hmint. bind_inv H as supply Hsupply. bind_inv H as s' Hs'.
  bind_inv H as vals Hvals.
  destruct vals as [|v0 vr]; [discriminate|].
  bind_inv H as r Hr.
  destruct k.
  - bind_inv H as tok Htok. inversion H; subst. apply Forall_app. split; [apply delegate_msgs_emitok|emitok_list].
  - bind_inv H as tok Htok. inversion H; subst. apply Forall_app. split; [apply delegate_msgs_emitok|emitok_list].
  - inversion H; subst. apply delegate_msgs_emitok.
Qed.

Lemma execute_unbond_emitok w h self amount user h' out :
  execute_unbond w h self amount user = Some (h', out) -> Forall emitok out.
Proof.
  unfold execute_unbond. intros H.
  bind_inv H as h1 Hh1. bind_inv H as supply Hs. bind_inv H as awf Hawf. bind_inv H as reqb Hreqb.
  bind_inv H as h2 Hh2. bind_inv H as supply' Hs'. bind_inv H as ber Hber.
  bind_inv H as r Hr. destruct r as [h4 msgs]. apply maybe_undelegate_emitok in Hr.
  bind_inv H as tok Htok. inversion H; subst. apply Forall_app. split; [exact Hr|emitok_list].
Qed.

Lemma execute_unbond_stsei_emitok w h self amount user h' out :
  execute_unbond_stsei w h self amount user = Some (h', out) -> Forall emitok out.
Proof.
  unfold execute_unbond_stsei. intros H.
  bind_inv H as h1 Hh1. bind_inv H as reqst Hreq. bind_inv H as h2 Hh2.
  bind_inv H as r Hr. destruct r as [h4 msgs]. apply maybe_undelegate_emitok in Hr.
  bind_inv H as tok Htok. inversion H; subst. apply Forall_app. split; [exact Hr|emitok_list].
Qed.

Lemma convert_stsei_bsei_emitok w h self amount user h' out :
  convert_stsei_bsei w h self amount user = Some (h', out) -> Forall emitok out.
Proof.
  unfold convert_stsei_bsei. intros H.
  bind_inv H as h1 Hh1.
  bind_inv H as a1 E1. bind_inv H as a2 E2. bind_inv H as a3 E3. bind_inv H as a4 E4.
  bind_inv H as a5 E5. bind_inv H as a6 E6. bind_inv H as a7 E7. bind_inv H as a8 E8.
  bind_inv H as a9 E9. bind_inv H as a10 E10. bind_inv H as a11 E11. bind_inv H as a12 E12.
  bind_inv H as a13 E13. inversion H; subst. emitok_list.
Qed.

Lemma convert_bsei_stsei_emitok w h self amount user h' out :
  convert_bsei_stsei w h self amount user = Some (h', out) -> Forall emitok out.
Proof.
  unfold convert_bsei_stsei. intros H.
  bind_inv H as h1 Hh1.
  bind_inv H as a1 E1. bind_inv H as a2 E2. bind_inv H as a3 E3. bind_inv H as a4 E4.
  bind_inv H as a5 E5. bind_inv H as a6 E6. bind_inv H as a7 E7. bind_inv H as a8 E8.
  bind_inv H as a9 E9. bind_inv H as a10 E10. bind_inv H as a11 E11. bind_inv H as a12 E12.
  bind_inv H as a13 E13. inversion H; subst. emitok_list.
Qed.

Lemma receive_cw20_emitok w h self sender user amount hk h' out :
  receive_cw20 w h self sender user amount hk = Some (h', out) -> Forall emitok out.
Proof.
  unfold receive_cw20. intros H. bind_inv H as b Hb. bind_inv H as st Hst.
  destruct hk; [| |discriminate].
  - destruct (sender =? b); [eapply execute_unbond_emitok; eauto|].
    destruct (sender =? st); [eapply execute_unbond_stsei_emitok; eauto|discriminate].
  - destruct (sender =? b); [eapply convert_bsei_stsei_emitok; eauto|].
    destruct (sender =? st); [eapply convert_stsei_bsei_emitok; eauto|discriminate].
Qed.

Lemma execute_update_global_emitok w h self sender n h' out :
  execute_update_global w h self sender n = Some (h', out) -> Forall emitok out.
Proof.
  unfold execute_update_global. intros H. check_inv H as Hauth.
  bind_inv H as d Hd. bind_inv H as hooks Hhooks. inversion H; subst.
  apply Forall_app. split; [|apply Forall_app; split].
  - destruct (n =? 0); [inversion Hhooks; subst; constructor|].
    bind_inv Hhooks as reg Hreg. inversion Hhooks; subst. apply Forall_repeat. reflexivity.
  - apply Forall_map_all. intros x. reflexivity.
  - emitok_list.
Qed.

Lemma execute_withdraw_emitok w h self sender h' out :
  execute_withdraw w h self sender = Some (h', out) -> Forall emitok out.
Proof.
  unfold execute_withdraw. intros H.
  bind_inv H as historical Hh. bind_inv H as h1 Hh1.
  bind_inv H as fa Hfa. destruct fa as [amount batches]. check_inv H as Hnz.
  bind_inv H as prev Hprev. inversion H; subst. emitok_list.
Qed.


Lemma hub_execute_emitok w h self sender funds m h' out :
  hub_execute w h self sender funds m = Some (h', out) -> Forall emitok out.
Proof.
  unfold hub_execute. intros H.
  destruct m.
  - check_inv H as Hp. eapply execute_bond_emitok; eauto.
  - check_inv H as Hp. eapply execute_bond_emitok; eauto.
  - check_inv H as Hp. eapply execute_bond_emitok; eauto.
  - check_inv H as Hp. eapply execute_update_global_emitok; eauto.
  - check_inv H as Hp. eapply execute_withdraw_emitok; eauto.
  - check_inv H as Hp. bind_inv H as h1 Hh1. inversion H; subst. constructor.
  - apply update_params_spec in H. destruct H as (_ & _ & _ & -> & _). constructor.
  - check_inv H as Hp. apply execute_update_config_out in H. subst out.
    destruct disp; emitok_list.
  - check_inv H as Hp. check_inv H as Hs. inversion H; subst. constructor.
  - check_inv H as Hp. check_inv H as Hs. inversion H; subst. constructor.
  - check_inv H as Hp. bind_inv H as reg Hreg. check_inv H as Hs. inversion H; subst.
    apply Forall_map_all. intros x. reflexivity.
  - check_inv H as Hp. check_inv H as Hs. bind_inv H as t Ht. check_inv H as Hb. inversion H; subst.
    emitok_list.
  - check_inv H as Hp. bind_inv H as reg Hreg. check_inv H as Hs. inversion H; subst. emitok_list.
  - destruct (paused h); [|discriminate]. inversion H; subst. constructor.
  - check_inv H as Hp. eapply receive_cw20_emitok; eauto.
Qed.

(** reward contract *)
Lemma reward_execute_emitok w r self sender m r' out :
  reward_execute w r self sender m = Some (r', out) -> Forall emitok out.
Proof.
  intros H. destruct m; cbn [reward_execute] in H.
  - bind_inv H as all Hall. bind_inv H as rewards Hrw. bind_inv H as whole Hwh.
    bind_inv H as decimals Hdec. check_inv H as Hnz. bind_inv H as prev Hprev.
    inversion H; subst. emitok_list.
  - check_inv H as Hs. inversion H; subst. constructor.
  - check_inv H as Hs. inversion H; subst. constructor.
  - check_inv H as Hs. inversion H; subst. constructor.
  - bind_inv H as dp Hdp. check_inv H as Hs. inversion H; subst.
    apply Forall_flat_map_all. intros c.
    destruct (existsb (N.eqb (fst c)) (rw_denoms r') && negb (snd c =? 0)); emitok_list.
  - bind_inv H as dp Hdp. check_inv H as Hs.
    destruct (rw_total r =? 0); [inversion H; subst; constructor|].
    bind_inv H as claimed Hc. bind_inv H as q Hq. bind_inv H as gi Hgi. inversion H; subst. constructor.
  - bind_inv H as tok Htok. check_inv H as Hs. bind_inv H as rewards Hrw. bind_inv H as pend Hpend.
    bind_inv H as b Hb. bind_inv H as tot Htot. inversion H; subst. constructor.
  - bind_inv H as tok Htok. check_inv H as Hs. check_inv H as Hle.
    bind_inv H as rewards Hrw. bind_inv H as pend Hpend.
    bind_inv H as b Hb. bind_inv H as tot Htot. inversion H; subst. constructor.
  - check_inv H as Hs. inversion H; subst. constructor.
Qed.

(** dispatcher *)
Lemma convert_loop_emitok w dp : forall coins tsei tusd msgs r,
  Forall emitok msgs -> convert_loop w dp coins tsei tusd msgs = Some r -> Forall emitok (snd r).
Proof.
  induction coins as [|c cs IH]; intros tsei tusd msgs r Hm H; cbn [convert_loop] in H.
  - inversion H; subst. exact Hm.
  - destruct (negb (existsb (N.eqb (fst c)) (dp_denoms dp))); [eapply IH; eauto|].
    destruct (fst c =? dp_std dp); [bind_inv H as t Ht; eapply IH; eauto|].
    destruct (fst c =? dp_bd dp); [bind_inv H as t Ht; eapply IH; eauto|].
    destruct (negb (snd c =? 0)); [|eapply IH; eauto].
    check_inv H as Hsw. bind_inv H as ret Hret. bind_inv H as t Ht.
    eapply IH; [|exact H]. apply Forall_app. split; [exact Hm|]. unfold m_swap. emitok_list.
Qed.

Lemma disp_execute_emitok w dp self sender m dp' out :
  disp_execute w dp self sender m = Some (dp', out) -> Forall emitok out.
Proof.
  intros H. destruct m; cbn [disp_execute] in H.
  - check_inv H as Hs. bind_inv H as r Hr. destruct r as [[tsei tusd] msgs].
    apply convert_loop_emitok in Hr; [|constructor]. cbn [snd] in Hr.
    check_inv H as Hor. bind_inv H as s2u Hs2u. bind_inv H as u2s Hu2s. bind_inv H as info Hinfo.
    destruct info as [[od oa] ask]. inversion H; subst.
    destruct (oa =? 0); [exact Hr|]. apply Forall_app. split; [exact Hr|]. unfold m_swap. emitok_list.
  - check_inv H as Hs. bind_inv H as m1 Hm1. bind_inv H as m2 Hm2. inversion H; subst.
    apply Forall_app. split; [|apply Forall_app; split].
    + destruct (bal (w_env w) self (dp_bd dp') =? 0); [inversion Hm1; subst; constructor|].
      bind_inv Hm1 as k Hk. bind_inv Hm1 as rest Hrest. inversion Hm1; subst. emitok_list.
    + destruct (bal (w_env w) self (dp_std dp') =? 0); [inversion Hm2; subst; constructor|].
      bind_inv Hm2 as k Hk. bind_inv Hm2 as rebond Hre. inversion Hm2; subst.
      destruct (rebond =? 0); emitok_list.
    + emitok_list.
  - check_inv H as Hs. check_inv H as Hstd. check_inv H as Hrate. inversion H; subst. constructor.
  - check_inv H as Hs. inversion H; subst. constructor.
  - check_inv H as Hs. inversion H; subst. constructor.
  - check_inv H as Hs. inversion H; subst. constructor.
  - check_inv H as Hs. inversion H; subst. constructor.
  - check_inv H as Hs. inversion H; subst. constructor.
Qed.

(** registry *)
Lemma reg_redelegate_msgs_emitok w g v out : reg_redelegate_msgs w g v = Some out -> Forall emitok out.
Proof.
  unfold reg_redelegate_msgs. intros H.
  destruct (delegation (w_env w) (rg_hub g) v) as [amount|]; [|inversion H; subst; constructor].
  destruct ((if can_redelegate (w_env w) v then amount else 0) <? amount);
    [inversion H; subst; constructor|].
  bind_inv H as r Hr. inversion H; subst. emitok_list.
Qed.

Lemma reg_execute_emitok w g sender m g' out :
  reg_execute w g sender m = Some (g', out) -> Forall emitok out.
Proof.
  intros H. destruct m; cbn [reg_execute] in H.
  - check_inv H as Hs. inversion H; subst. constructor.
  - check_inv H as Hs. cbn [rg_vals set_rg_vals] in H.
    destruct (remove_val v (rg_vals g)) as [|x l]; [discriminate|].
    bind_inv H as msgs Hm. inversion H; subst. eapply reg_redelegate_msgs_emitok; eauto.
  - check_inv H as Hs. inversion H; subst. constructor.
  - check_inv H as Hs. bind_inv H as msgs Hm. inversion H; subst. eapply reg_redelegate_msgs_emitok; eauto.
  - check_inv H as Hs. inversion H; subst. constructor.
  - check_inv H as Hs. inversion H; subst. constructor.
Qed.

(** tokens: the exact shape of what the bSei token emits *)

Lemma bsei_execute_emitok w t sender m t' out :
  bsei_execute w t sender m = Some (t', out) -> Forall emitok out.
Proof.
  intros H. apply bsei_execute_out in H.
  destruct m; try (subst out; constructor); try contradiction;
    destruct H as (rc & _ & ->); unfold m_dec, m_inc, m_receive, m_check_slashing; emitok_list.
Qed.

Lemma stsei_execute_emitok w t sender m t' out :
  stsei_execute w t sender m = Some (t', out) -> Forall emitok out.
Proof.
  intros H. unfold stsei_execute in H. destruct m.
  - check_inv H as Hz. bind_inv H as t1 Hm. inversion H; subst. constructor.
  - check_inv H as Hs. check_inv H as Hz. bind_inv H as t1 Hb. inversion H; subst.
    unfold m_check_slashing. emitok_list.
  - bind_inv H as t1 Hm. inversion H; subst. constructor.
  - check_inv H as Hz. bind_inv H as t1 Hm. inversion H; subst. unfold m_receive. emitok_list.
  - bind_inv H as t1 Ha. inversion H; subst. constructor.
  - bind_inv H as t1 Ha. inversion H; subst. constructor.
  - bind_inv H as t1 Hd. bind_inv H as t2 Hm. inversion H; subst. constructor.
  - bind_inv H as t1 Hd. bind_inv H as t2 Hb. inversion H; subst. unfold m_check_slashing. emitok_list.
  - bind_inv H as t1 Hd. bind_inv H as t2 Hm. inversion H; subst. unfold m_receive. emitok_list.
  - destruct (tk_minter t) as [[mn cap]|]; [|discriminate]. check_inv H as Hs.
    inversion H; subst. constructor.
Qed.

(** every message emitted by any contract is white-listed *)
Lemma call_emits_emitok w sender target m funds w' out :
  call w sender target m funds = Some (w', out) -> Forall emitok out.
Proof.
  intros H. apply call_inv in H.
  destruct H as [h hm h' _ _ _ He _ | r rm r' _ _ _ He _ | d dm d' _ _ _ He _
                | g gm g' _ _ _ He _ | t cm t' _ _ _ He _ | t cm t' _ _ _ He _
                | sm e' _ _ _ _ -> | _ _ ->]; try constructor.
  - eapply hub_execute_emitok; eauto.
  - eapply reward_execute_emitok; eauto.
  - eapply disp_execute_emitok; eauto.
  - eapply reg_execute_emitok; eauto.
  - eapply bsei_execute_emitok; eauto.
  - eapply stsei_execute_emitok; eauto.
Qed.

Lemma step_msg_emits_emitok w s m w' out :
  step_msg w s m = Some (w', out) -> Forall emitok_s out.
Proof.
  intros H. apply step_msg_inv in H.
  destruct H as [e' _ -> _ | to wm funds e1 o _ _ Hc ->]; [constructor|].
  assert (Hp : Forall emitok o).
  { destruct Hc as [h hm h' _ _ _ He _ | r rm r' _ _ _ He _ | d dm d' _ _ _ He _
                   | g gm g' _ _ _ He _ | t cm t' _ _ _ He _ | t cm t' _ _ _ He _
                   | sm e' _ _ _ _ -> | _ _ ->]; try constructor.
    - eapply hub_execute_emitok; eauto.
    - eapply reward_execute_emitok; eauto.
    - eapply disp_execute_emitok; eauto.
    - eapply reg_execute_emitok; eauto.
    - eapply bsei_execute_emitok; eauto.
    - eapply stsei_execute_emitok; eauto. }
  apply Forall_map. exact Hp.
Qed.

