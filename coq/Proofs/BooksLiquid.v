(** * BooksLiquid: C02 (d) at transaction level — what can change the hub's liquid usei balance.

    Envelope clause used (E4): the hub's underlying coin is the staking coin usei.
    - [tx_liquid_ge]       : a successful transaction that does not execute the hub's
                             WithdrawUnbonded never lowers the hub's usei balance — bonding,
                             re-bonding, converting, index updates, slashing checks, validator
                             removal, token operations and reward claims cannot consume the coins
                             reserved for unbonders (the payment of a bond arrives with the message
                             and exactly the payment leaves as Delegate messages);
    - [tx_liquid_eq]       : if moreover nobody gifts usei to the hub during the transaction
                             (syntactic condition [no_gift] on the executed messages) and staking
                             rewards are not paid to the hub, the balance is exactly unchanged;
    - [bond_tx_liquid_unchanged] : Bond / BondForStSei / BondRewards transactions satisfy those
                             conditions: the hub's usei balance is exactly the same before and after. *)
From Krp Require Import Tactics Prelude Fixed FMap Types Env Registry Cw20 Reward Dispatcher Hub Exec
     ExecP Hist Inv RegistryP HubFrame HubAdmin BooksEnv BooksHub BooksP.
Open Scope N_scope.

(** ** generic lifting with a side condition on the executed messages, and trace closure *)
Lemma run_preserves_stack_if (J : world -> list (addr * cmsg) -> Prop) (Q : addr * cmsg -> Prop) :
  (forall w s m rest w' out,
      Q (s, m) -> J w ((s, m) :: rest) -> step_msg w s m = Some (w', out) -> J w' (out ++ rest)) ->
  forall fuel w stack tr w' tr',
    run fuel w stack tr = Some (w', tr') ->
    exists ex, tr' = tr ++ ex /\ (Forall Q ex -> J w stack -> J w' []).
Proof.
  intros Hstep. induction fuel as [|f IH]; intros w stack tr w' tr' H.
  - destruct stack as [|[s m] rest]; cbn [run] in H; [|discriminate]. inversion H; subst.
    exists []. rewrite app_nil_r. auto.
  - destruct stack as [|[s m] rest]; cbn [run] in H.
    + inversion H; subst. exists []. rewrite app_nil_r. auto.
    + bind_inv H as r Hr. destruct r as [w1 out]. cbn [fst snd] in H.
      destruct (IH _ _ _ _ _ H) as (ex1 & -> & I1).
      exists ((s, m) :: ex1). rewrite <- app_assoc. split; [reflexivity|].
      intros HQ HJ. inversion HQ; subst. apply I1; [assumption|]. eapply Hstep; eauto.
Qed.

Lemma run_trace_closed (P : addr * cmsg -> Prop) :
  (forall w s m w' out, P (s, m) -> step_msg w s m = Some (w', out) -> Forall P out) ->
  forall fuel w stack tr w' tr',
    run fuel w stack tr = Some (w', tr') -> Forall P stack -> Forall P tr -> Forall P tr'.
Proof.
  intros Hstep. induction fuel as [|f IH]; intros w stack tr w' tr' H Hs Ht.
  - destruct stack as [|[s m] rest]; cbn [run] in H; [|discriminate]. inversion H; subst. exact Ht.
  - destruct stack as [|[s m] rest]; cbn [run] in H; [inversion H; subst; exact Ht|].
    bind_inv H as r Hr. destruct r as [w1 out]. cbn [fst snd] in H. inversion Hs; subst.
    eapply IH; [exact H| |].
    + apply Forall_app. split; [eapply Hstep; eauto|assumption].
    + apply Forall_app. split; [assumption|constructor; [assumption|constructor]].
Qed.

(** ** bank-only views of the staking operations (no well-formedness needed) *)
Lemma do_undelegate_bank e x v c e' :
  do_undelegate e x v c = Some e' ->
  (forall a d, bal e a d <= bal e' a d) /\ (forall a d, a <> withdraw_addr e x -> bal e' a d = bal e a d) /\
  e_wdaddr e' = e_wdaddr e.
Proof.
  unfold do_undelegate. intros H. check_inv H as Hc.
  destruct (delegation e x v) as [cur|]; [|discriminate]. check_inv H as Hle.
  destruct (payout_spec e x v) as ((_ & _ & _ & _ & S5 & _) & A & B). inversion H; subst e'.
  splits; [intros a d; apply B | intros a d Hne; apply A; exact Hne | exact S5].
Qed.

Lemma do_redelegate_bank e x src dst c e' :
  do_redelegate e x src dst c = Some e' ->
  (forall a d, bal e a d <= bal e' a d) /\ (forall a d, a <> withdraw_addr e x -> bal e' a d = bal e a d) /\
  e_wdaddr e' = e_wdaddr e.
Proof.
  unfold do_redelegate. intros H. check_inv H as Hc. check_inv H as Hcan.
  destruct (delegation e x src) as [cur|]; [|discriminate]. check_inv H as Hle.
  destruct (is_val dst); [|discriminate].
  destruct (payout_spec e x src) as (S1 & A1 & B1).
  destruct (payout_if_entry_spec (payout e x src) x dst) as (S2 & A2 & B2).
  rewrite (withdraw_addr_static _ _ x S1) in A2.
  pose proof (env_static_trans _ _ _ S1 S2) as (_ & _ & _ & _ & S5 & _).
  inversion H; subst e'. splits.
  - intros a d. eapply N.le_trans; [apply B1|apply B2].
  - intros a d Hne. unfold bal at 1. cbn [e_bank set_del].
    fold (bal (payout_if_entry (payout e x src) x dst) a d). rewrite A2 by exact Hne. apply A1. exact Hne.
  - exact S5.
Qed.

Lemma do_delegate_bank e x v c e' :
  do_delegate e x v c = Some e' ->
  (forall a d, (a, d) <> (x, usei) -> bal e a d <= bal e' a d) /\
  (forall a d, a <> x -> a <> withdraw_addr e x -> bal e' a d = bal e a d) /\
  (withdraw_addr e x <> x -> bal e' x usei = bal e x usei - snd c) /\
  snd c <= bal e x usei /\ e_wdaddr e' = e_wdaddr e.
Proof.
  intros H. apply do_delegate_spec in H.
  destruct H as (_ & _ & _ & A & _ & _ & _ & _ & _ & W & _ & _ & _ & B & C & D & _). auto.
Qed.

(** ** messages the hub account may have pending: no funds attached, no bank send *)
Definition hub_plain (sm : addr * cmsg) : Prop :=
  fst sm = A_hub -> match snd sm with MWasm _ _ f => f = [] | MBank _ _ => False | _ => True end.

Definition not_withdraw (sm : addr * cmsg) : Prop := forall f, snd sm <> MWasm A_hub (WHub HWithdraw) f.

Lemma hub_plain_nonhub out : Forall (fun sm : addr * cmsg => fst sm <> A_hub) out -> Forall hub_plain out.
Proof. intros H. eapply Forall_impl; [|exact H]. intros sm Hne E. contradiction. Qed.

Lemma hub_plain_emits hm o : hm <> HWithdraw -> Forall (hub_emit_ok hm) o ->
  Forall hub_plain (map (fun x => (A_hub, x)) o).
Proof.
  intros Hnw H. apply Forall_forall. intros sm Hi. apply in_map_iff in Hi. destruct Hi as (m & <- & Hm).
  pose proof (proj1 (Forall_forall _ _) H m Hm) as Ho. intros _. cbn [snd].
  destruct m; cbn [hub_emit_ok] in Ho; auto.
Qed.

Lemma send_coins_hub_ge e s to funds e1 d :
  send_coins e s to funds = Some e1 -> (s = A_hub -> funds = []) -> bal e A_hub d <= bal e1 A_hub d.
Proof.
  intros H Hp. pose proof (send_coins_bal _ _ _ _ _ H A_hub d) as E.
  destruct (A_hub =? s) eqn:Es.
  - apply N.eqb_eq in Es. rewrite (Hp (eq_sym Es)) in *. unfold coin_amt in E. cbn [map sumN] in E.
    destruct (A_hub =? to); lia.
  - destruct (A_hub =? to); lia.
Qed.

(** ** lower bound: the balance always covers the start balance plus the pending hub Delegates *)
Definition LiqS (B0 : N) (w : world) (stk : list (addr * cmsg)) : Prop :=
  Forall hub_plain stk /\
  (forall h, w_hub w = Some h -> hp_underlying (h_params h) = usei) /\
  B0 + pD stk <= bal (w_env w) A_hub usei.

Lemma hub_d_nondelegate s m : (forall v c, m <> MDelegate v c) -> hub_d (s, m) = 0.
Proof.
  intros H. unfold hub_d. cbn [fst snd]. destruct (s =? A_hub); [|reflexivity].
  destruct m; try reflexivity. exfalso. eapply H. reflexivity.
Qed.

Lemma is_bond_dec hm : {hm = HBond \/ hm = HBondSt \/ hm = HBondRewards} +
                       {~ (hm = HBond \/ hm = HBondSt \/ hm = HBondRewards)}.
Proof. destruct hm; try (right; intros [E|[E|E]]; discriminate E); left; auto. Qed.

Lemma step_msg_liq B0 w s m rest w' out :
  not_withdraw (s, m) -> LiqS B0 w ((s, m) :: rest) -> step_msg w s m = Some (w', out) ->
  LiqS B0 w' (out ++ rest).
Proof.
  intros Hnw (Hpl & Hu & Hb) H. inversion Hpl as [|? ? Hhead Hrest]; subst.
  destruct (pDU_cons s m rest) as [ED _]. rewrite ED in Hb. clear ED.
  unfold LiqS. rewrite pD_app. unfold hub_plain in Hhead. cbn [fst snd] in Hhead.
  destruct m; cbn [step_msg] in H.
  - (* MWasm *)
    rewrite hub_d_nondelegate in Hb by (intros; discriminate).
    bind_inv H as e1 Hsend. bind_inv H as r Hc. destruct r as [w2 o]. inversion H; subst w' out. clear H.
    pose proof (send_coins_hub_ge _ _ _ _ _ usei Hsend Hhead) as Hge1.
    apply call_inv in Hc.
    destruct Hc as [h hm h' -> -> Hw He -> | r rm r' -> _ Hw He -> | d dm d' -> -> Hw He ->
                   | g gm g' -> -> Hw He -> | t cm t' -> -> Hw He -> | t cm t' -> -> Hw He ->
                   | sm e' -> -> He -> -> | -> -> ->];
      cbn [w_env w_hub set_hub set_reward set_disp set_reg set_bsei set_stsei set_env] in *.
    + (* the hub *)
      assert (Hnw' : hm <> HWithdraw) by (intros ->; eapply Hnw; reflexivity).
      pose proof (hub_execute_emits _ _ _ _ _ _ _ _ He) as Hem.
      pose proof (hub_execute_underlying _ _ _ _ _ _ _ _ He) as Hu'.
      pose proof (hub_execute_dsum _ _ _ _ _ _ _ _ He) as (Db & Dn).
      split; [apply Forall_app; split; [apply (hub_plain_emits hm); assumption|exact Hrest]|].
      split; [intros h0 E; inversion E; subst h0; rewrite Hu'; apply Hu; exact Hw|].
      rewrite pD_hub. destruct (is_bond_dec hm) as [Hbd|Hbd].
      * destruct (Db Hbd) as (pay & Hf & Hden & Hd). rewrite (Hu h Hw) in Hden.
        assert (Hs : s <> A_hub) by (intros E; rewrite (Hhead E) in Hf; discriminate).
        pose proof (send_coins_bal _ _ _ _ _ Hsend A_hub usei) as E.
        assert (E1 : (A_hub =? s) = false) by (apply N.eqb_neq; congruence).
        rewrite E1, N.eqb_refl, Hf in E. unfold coin_amt in E. cbn [map sumN] in E.
        rewrite Hden, N.eqb_refl in E. lia.
      * rewrite (Dn Hbd). lia.
    + split; [apply Forall_app; split; [apply hub_plain_nonhub, Forall_map_fst_ne; neq_addr|exact Hrest]|].
      split; [exact Hu|]. destruct (pDU_nonhub _ (Forall_map_fst_ne A_reward o ltac:(neq_addr))) as [-> _]. lia.
    + split; [apply Forall_app; split; [apply hub_plain_nonhub, Forall_map_fst_ne; neq_addr|exact Hrest]|].
      split; [exact Hu|]. destruct (pDU_nonhub _ (Forall_map_fst_ne A_disp o ltac:(neq_addr))) as [-> _]. lia.
    + split; [apply Forall_app; split; [apply hub_plain_nonhub, Forall_map_fst_ne; neq_addr|exact Hrest]|].
      split; [exact Hu|]. destruct (pDU_nonhub _ (Forall_map_fst_ne A_reg o ltac:(neq_addr))) as [-> _]. lia.
    + split; [apply Forall_app; split; [apply hub_plain_nonhub, Forall_map_fst_ne; neq_addr|exact Hrest]|].
      split; [exact Hu|]. destruct (pDU_nonhub _ (Forall_map_fst_ne A_bsei o ltac:(neq_addr))) as [-> _]. lia.
    + split; [apply Forall_app; split; [apply hub_plain_nonhub, Forall_map_fst_ne; neq_addr|exact Hrest]|].
      split; [exact Hu|]. destruct (pDU_nonhub _ (Forall_map_fst_ne A_stsei o ltac:(neq_addr))) as [-> _]. lia.
    + cbn [map app]. split; [exact Hrest|]. split; [exact Hu|].
      pose proof (swap_execute_bal _ _ _ _ He A_hub usei). cbn [pD map sumN]. lia.
    + cbn [map app]. split; [exact Hrest|]. split; [exact Hu|]. cbn [pD map sumN]. lia.
  - (* MBank *)
    rewrite hub_d_nondelegate in Hb by (intros; discriminate).
    bind_inv H as e1 He1. inversion H; subst w' out. clear H. cbn [app w_env w_hub set_env].
    split; [exact Hrest|]. split; [exact Hu|].
    assert (Hs : s <> A_hub) by (intros E; apply (Hhead E)).
    unfold bank_send in He1. destruct coins as [|c0 cr]; [discriminate|].
    pose proof (send_coins_bal _ _ _ _ _ He1 A_hub usei) as E.
    assert (E1 : (A_hub =? s) = false) by (apply N.eqb_neq; congruence). rewrite E1 in E.
    cbn [pD map sumN]. destruct (A_hub =? to); lia.
  - (* MDelegate *)
    bind_inv H as e1 He1. inversion H; subst w' out. clear H. cbn [app w_env w_hub set_env].
    split; [exact Hrest|]. split; [exact Hu|]. cbn [pD map sumN].
    unfold hub_d in Hb. cbn [fst snd dmsg_amt] in Hb.
    destruct (s =? A_hub) eqn:Es.
    + apply N.eqb_eq in Es. subst s. pose proof (do_delegate_bal_ge _ _ _ _ _ He1). lia.
    + apply N.eqb_neq in Es. apply do_delegate_bank in He1. destruct He1 as (A & _).
      assert (Hne : (A_hub, usei) <> (s, usei)) by congruence. specialize (A _ _ Hne). lia.
  - rewrite hub_d_nondelegate in Hb by (intros; discriminate).
    bind_inv H as e1 He1. inversion H; subst w' out. clear H. cbn [app w_env w_hub set_env].
    split; [exact Hrest|]. split; [exact Hu|]. cbn [pD map sumN].
    apply do_undelegate_bank in He1. destruct He1 as (A & _). specialize (A A_hub usei). lia.
  - rewrite hub_d_nondelegate in Hb by (intros; discriminate).
    bind_inv H as e1 He1. inversion H; subst w' out. clear H. cbn [app w_env w_hub set_env].
    split; [exact Hrest|]. split; [exact Hu|]. cbn [pD map sumN].
    apply do_redelegate_bank in He1. destruct He1 as (A & _). specialize (A A_hub usei). lia.
  - rewrite hub_d_nondelegate in Hb by (intros; discriminate).
    bind_inv H as e1 He1. inversion H; subst w' out. clear H. cbn [app w_env w_hub set_env].
    split; [exact Hrest|]. split; [exact Hu|]. cbn [pD map sumN].
    apply do_withdraw_reward_bal in He1. destruct He1 as (A & _). specialize (A A_hub usei). lia.
  - rewrite hub_d_nondelegate in Hb by (intros; discriminate).
    inversion H; subst w' out. clear H. cbn [app w_env w_hub set_env].
    split; [exact Hrest|]. split; [exact Hu|]. cbn [pD map sumN].
    unfold bal, do_set_withdraw_addr in *. cbn [e_bank set_wdaddr]. lia.
Qed.

(** C02 (d): no transaction other than WithdrawUnbonded lowers the hub's liquid balance *)
Theorem tx_liquid_ge w sender target m funds w' tr :
  (forall h, w_hub w = Some h -> hp_underlying (h_params h) = usei) ->
  (sender = A_hub -> funds = []) ->
  run tx_fuel w [(sender, MWasm target m funds)] [] = Some (w', tr) ->
  Forall not_withdraw tr ->
  bal (w_env w) A_hub usei <= bal (w_env w') A_hub usei.
Proof.
  intros Hu Hs H Hnw.
  destruct (run_preserves_stack_if (LiqS (bal (w_env w) A_hub usei)) not_withdraw
              (fun w s m rest w' out Q J S => step_msg_liq _ w s m rest w' out Q J S)
              _ _ _ _ _ _ H) as (ex & E & I1).
  cbn [app] in E. subst ex.
  assert (L : LiqS (bal (w_env w) A_hub usei) w' []).
  { apply I1; [exact Hnw|]. split; [|split; [exact Hu|]].
    - constructor; [|constructor]. intros E. cbn [fst snd] in *. apply Hs. exact E.
    - unfold pD, hub_d. cbn [map sumN fst snd dmsg_amt]. destruct (sender =? A_hub); lia. }
  destruct L as (_ & _ & L). unfold pD in L. cbn [map sumN] in L. lia.
Qed.

(** ** exact form: nothing but bond payments reaches the hub, nothing but Delegates leaves it *)
Definition NoRewardsToHub (e : env) : Prop := forall x, withdraw_addr e x <> A_hub.

Lemma NoRewardsToHub_same e e' : e_wdaddr e' = e_wdaddr e -> NoRewardsToHub e -> NoRewardsToHub e'.
Proof. intros E H x. unfold withdraw_addr. rewrite E. apply H. Qed.

Definition is_bond_msg (hm : hub_msg) : Prop := hm = HBond \/ hm = HBondSt \/ hm = HBondRewards.

(** the executed message does not hand usei to the hub other than as the payment of a bond, and
    does not redirect staking rewards to the hub *)
Definition no_gift (sm : addr * cmsg) : Prop :=
  match snd sm with
  | MWasm to wm funds =>
      (to = A_hub -> coin_amt usei funds = 0 \/ exists hm, wm = WHub hm /\ is_bond_msg hm) /\
      (to = A_swap ->
         match wm with
         | WSwap (SSwapDenom _ target rc) =>
             (match rc with Some x => x | None => fst sm end, target) <> (A_hub, usei)
         | _ => True
         end)
  | MBank to cs => to = A_hub -> coin_amt usei cs = 0
  | MSetWithdrawAddr a => a <> A_hub
  | _ => True
  end.

Definition LiqEq (B0 : N) (w : world) (stk : list (addr * cmsg)) : Prop :=
  Forall hub_plain stk /\
  (forall h, w_hub w = Some h -> hp_underlying (h_params h) = usei) /\
  NoRewardsToHub (w_env w) /\
  bal (w_env w) A_hub usei = B0 + pD stk.

Lemma send_coins_hub_eq e s to funds e1 :
  send_coins e s to funds = Some e1 -> (s = A_hub -> funds = []) ->
  bal e1 A_hub usei = bal e A_hub usei + (if A_hub =? to then coin_amt usei funds else 0).
Proof.
  intros H Hp. pose proof (send_coins_bal _ _ _ _ _ H A_hub usei) as E.
  destruct (A_hub =? s) eqn:Es; [|lia].
  apply N.eqb_eq in Es. rewrite (Hp (eq_sym Es)) in *. unfold coin_amt in *. cbn [map sumN] in *.
  destruct (A_hub =? to); lia.
Qed.

Lemma step_msg_liq_eq B0 w s m rest w' out :
  not_withdraw (s, m) /\ no_gift (s, m) ->
  LiqEq B0 w ((s, m) :: rest) -> step_msg w s m = Some (w', out) -> LiqEq B0 w' (out ++ rest).
Proof.
  intros [Hnw Hng] (Hpl & Hu & Hnr & Hb) H. inversion Hpl as [|? ? Hhead Hrest]; subst.
  destruct (pDU_cons s m rest) as [ED _]. rewrite ED in Hb. clear ED.
  unfold LiqEq. rewrite pD_app. unfold hub_plain in Hhead. cbn [fst snd] in Hhead.
  unfold no_gift in Hng. cbn [fst snd] in Hng.
  destruct m; cbn [step_msg] in H.
  - (* MWasm *)
    rewrite hub_d_nondelegate in Hb by (intros; discriminate).
    destruct Hng as [Hg1 Hg2].
    bind_inv H as e1 Hsend. bind_inv H as r Hc. destruct r as [w2 o]. inversion H; subst w' out. clear H.
    pose proof (send_coins_hub_eq _ _ _ _ _ Hsend Hhead) as Heq1.
    pose proof (send_coins_static _ _ _ _ _ Hsend) as (_ & _ & _ & _ & Hwd1 & _).
    assert (Hnr1 : NoRewardsToHub e1) by (eapply NoRewardsToHub_same; eauto).
    apply call_inv in Hc.
    destruct Hc as [h hm h' -> -> Hw He -> | r rm r' -> _ Hw He -> | d dm d' -> -> Hw He ->
                   | g gm g' -> -> Hw He -> | t cm t' -> -> Hw He -> | t cm t' -> -> Hw He ->
                   | sm e' -> -> He -> -> | -> -> ->];
      cbn [w_env w_hub set_hub set_reward set_disp set_reg set_bsei set_stsei set_env] in *.
    + (* the hub *)
      assert (Hnw' : hm <> HWithdraw) by (intros ->; eapply Hnw; reflexivity).
      pose proof (hub_execute_emits _ _ _ _ _ _ _ _ He) as Hem.
      pose proof (hub_execute_underlying _ _ _ _ _ _ _ _ He) as Hu'.
      pose proof (hub_execute_dsum _ _ _ _ _ _ _ _ He) as (Db & Dn).
      split; [apply Forall_app; split; [apply (hub_plain_emits hm); assumption|exact Hrest]|].
      split; [intros h0 E; inversion E; subst h0; rewrite Hu'; apply Hu; exact Hw|].
      split; [exact Hnr1|].
      rewrite pD_hub. rewrite N.eqb_refl in Heq1. destruct (is_bond_dec hm) as [Hbd|Hbd].
      * destruct (Db Hbd) as (pay & Hf & Hden & Hd). rewrite (Hu h Hw) in Hden.
        rewrite Hf in Heq1. unfold coin_amt in Heq1. cbn [map sumN] in Heq1.
        rewrite Hden, N.eqb_refl in Heq1. lia.
      * rewrite (Dn Hbd). destruct (Hg1 eq_refl) as [Z|(hm0 & E & Hb0)]; [lia|].
        inversion E; subst hm0. contradiction.
    + assert (E : (A_hub =? A_reward) = false) by reflexivity. rewrite E in Heq1.
      split; [apply Forall_app; split; [apply hub_plain_nonhub, Forall_map_fst_ne; neq_addr|exact Hrest]|].
      split; [exact Hu|]. split; [exact Hnr1|].
      destruct (pDU_nonhub _ (Forall_map_fst_ne A_reward o ltac:(neq_addr))) as [-> _]. lia.
    + assert (E : (A_hub =? A_disp) = false) by reflexivity. rewrite E in Heq1.
      split; [apply Forall_app; split; [apply hub_plain_nonhub, Forall_map_fst_ne; neq_addr|exact Hrest]|].
      split; [exact Hu|]. split; [exact Hnr1|].
      destruct (pDU_nonhub _ (Forall_map_fst_ne A_disp o ltac:(neq_addr))) as [-> _]. lia.
    + assert (E : (A_hub =? A_reg) = false) by reflexivity. rewrite E in Heq1.
      split; [apply Forall_app; split; [apply hub_plain_nonhub, Forall_map_fst_ne; neq_addr|exact Hrest]|].
      split; [exact Hu|]. split; [exact Hnr1|].
      destruct (pDU_nonhub _ (Forall_map_fst_ne A_reg o ltac:(neq_addr))) as [-> _]. lia.
    + assert (E : (A_hub =? A_bsei) = false) by reflexivity. rewrite E in Heq1.
      split; [apply Forall_app; split; [apply hub_plain_nonhub, Forall_map_fst_ne; neq_addr|exact Hrest]|].
      split; [exact Hu|]. split; [exact Hnr1|].
      destruct (pDU_nonhub _ (Forall_map_fst_ne A_bsei o ltac:(neq_addr))) as [-> _]. lia.
    + assert (E : (A_hub =? A_stsei) = false) by reflexivity. rewrite E in Heq1.
      split; [apply Forall_app; split; [apply hub_plain_nonhub, Forall_map_fst_ne; neq_addr|exact Hrest]|].
      split; [exact Hu|]. split; [exact Hnr1|].
      destruct (pDU_nonhub _ (Forall_map_fst_ne A_stsei o ltac:(neq_addr))) as [-> _]. lia.
    + (* swap stub *)
      assert (E : (A_hub =? A_swap) = false) by reflexivity. rewrite E in Heq1.
      destruct sm as [from target rc]. specialize (Hg2 eq_refl). cbn iota in Hg2.
      pose proof (swap_execute_static _ _ _ _ He) as (_ & _ & _ & _ & Hwd2 & _).
      cbn [map app]. split; [exact Hrest|]. split; [exact Hu|].
      split; [eapply NoRewardsToHub_same; eauto|].
      rewrite (swap_execute_bal_other _ _ _ _ _ _ A_hub usei He) by (intros X; apply Hg2; congruence).
      cbn [pD map sumN]. lia.
    + assert (E : (A_hub =? A_airdrop) = false) by reflexivity. rewrite E in Heq1.
      cbn [map app]. split; [exact Hrest|]. split; [exact Hu|]. split; [exact Hnr1|].
      cbn [pD map sumN]. lia.
  - (* MBank *)
    rewrite hub_d_nondelegate in Hb by (intros; discriminate).
    bind_inv H as e1 He1. inversion H; subst w' out. clear H. cbn [app w_env w_hub set_env].
    assert (Hs : s <> A_hub) by (intros E; apply (Hhead E)).
    unfold bank_send in He1. destruct coins as [|c0 cr]; [discriminate|].
    pose proof (send_coins_static _ _ _ _ _ He1) as (_ & _ & _ & _ & Hwd1 & _).
    pose proof (send_coins_hub_eq _ _ _ _ _ He1 ltac:(intros; contradiction)) as Heq1.
    split; [exact Hrest|]. split; [exact Hu|]. split; [eapply NoRewardsToHub_same; eauto|].
    cbn [pD map sumN]. destruct (A_hub =? to) eqn:Et; [|lia].
    apply N.eqb_eq in Et. rewrite (Hng (eq_sym Et)) in Heq1. lia.
  - (* MDelegate *)
    bind_inv H as e1 He1. inversion H; subst w' out. clear H. cbn [app w_env w_hub set_env].
    apply do_delegate_bank in He1. destruct He1 as (_ & A & B & C & Hwd1).
    split; [exact Hrest|]. split; [exact Hu|]. split; [eapply NoRewardsToHub_same; eauto|].
    cbn [pD map sumN]. unfold hub_d in Hb. cbn [fst snd dmsg_amt] in Hb.
    destruct (s =? A_hub) eqn:Es.
    + apply N.eqb_eq in Es. subst s. rewrite B by apply Hnr. lia.
    + apply N.eqb_neq in Es. rewrite A; [lia|congruence|]. intros E. apply (Hnr s). congruence.
  - rewrite hub_d_nondelegate in Hb by (intros; discriminate).
    bind_inv H as e1 He1. inversion H; subst w' out. clear H. cbn [app w_env w_hub set_env].
    apply do_undelegate_bank in He1. destruct He1 as (_ & A & Hwd1).
    split; [exact Hrest|]. split; [exact Hu|]. split; [eapply NoRewardsToHub_same; eauto|].
    cbn [pD map sumN]. rewrite A; [lia|]. intros E. apply (Hnr s). congruence.
  - rewrite hub_d_nondelegate in Hb by (intros; discriminate).
    bind_inv H as e1 He1. inversion H; subst w' out. clear H. cbn [app w_env w_hub set_env].
    apply do_redelegate_bank in He1. destruct He1 as (_ & A & Hwd1).
    split; [exact Hrest|]. split; [exact Hu|]. split; [eapply NoRewardsToHub_same; eauto|].
    cbn [pD map sumN]. rewrite A; [lia|]. intros E. apply (Hnr s). congruence.
  - rewrite hub_d_nondelegate in Hb by (intros; discriminate).
    bind_inv H as e1 He1. inversion H; subst w' out. clear H. cbn [app w_env w_hub set_env].
    pose proof (do_withdraw_reward_static _ _ _ _ He1) as (_ & _ & _ & _ & Hwd1 & _).
    apply do_withdraw_reward_bal in He1. destruct He1 as (_ & A).
    split; [exact Hrest|]. split; [exact Hu|]. split; [eapply NoRewardsToHub_same; eauto|].
    cbn [pD map sumN]. rewrite A; [lia|]. intros E. apply (Hnr s). congruence.
  - rewrite hub_d_nondelegate in Hb by (intros; discriminate).
    inversion H; subst w' out. clear H. cbn [app w_env w_hub set_env].
    split; [exact Hrest|]. split; [exact Hu|]. split.
    + intros x. unfold withdraw_addr, do_set_withdraw_addr. cbn [e_wdaddr set_wdaddr].
      destruct (N.eq_dec x s) as [->|Hne].
      * rewrite (get_set_same eqbA N.eqb_eq). exact Hng.
      * rewrite (get_set_other eqbA N.eqb_eq) by exact Hne. apply Hnr.
    + cbn [pD map sumN]. unfold bal, do_set_withdraw_addr in *. cbn [e_bank set_wdaddr]. lia.
Qed.

(** C02 (d), exact: absent gifts and WithdrawUnbonded the hub's liquid balance is unchanged *)
Theorem tx_liquid_eq w sender target m funds w' tr :
  (forall h, w_hub w = Some h -> hp_underlying (h_params h) = usei) ->
  NoRewardsToHub (w_env w) ->
  (sender = A_hub -> funds = []) ->
  run tx_fuel w [(sender, MWasm target m funds)] [] = Some (w', tr) ->
  Forall (fun sm => not_withdraw sm /\ no_gift sm) tr ->
  bal (w_env w') A_hub usei = bal (w_env w) A_hub usei.
Proof.
  intros Hu Hnr Hs H Hq.
  destruct (run_preserves_stack_if (LiqEq (bal (w_env w) A_hub usei))
              (fun sm => not_withdraw sm /\ no_gift sm)
              (fun w s m rest w' out Q J S => step_msg_liq_eq _ w s m rest w' out Q J S)
              _ _ _ _ _ _ H) as (ex & E & I1).
  cbn [app] in E. subst ex.
  assert (L : LiqEq (bal (w_env w) A_hub usei) w' []).
  { apply I1; [exact Hq|]. split; [|split; [exact Hu|split; [exact Hnr|]]].
    - constructor; [|constructor]. intros E. cbn [fst snd] in *. apply Hs. exact E.
    - unfold pD, hub_d. cbn [map sumN fst snd dmsg_amt]. destruct (sender =? A_hub); lia. }
  destruct L as (_ & _ & _ & L). unfold pD in L. cbn [map sumN] in L. lia.
Qed.

(** ** Bond / BondForStSei / BondRewards transactions: the complete message tree *)
Definition bond_tx_msg (root sm : addr * cmsg) : Prop :=
  sm = root \/ (exists v c, sm = (A_hub, MDelegate v c)) \/
  (exists tok to amt, sm = (A_hub, MWasm tok (WCw20 (CMint to amt)) [])) \/
  (exists tok rc a amt, sm = (tok, MWasm rc (WReward (RInc a amt)) [])).

Lemma bond_tx_closed sender hm funds w s m w' out :
  is_bond_msg hm ->
  bond_tx_msg (sender, MWasm A_hub (WHub hm) funds) (s, m) ->
  step_msg w s m = Some (w', out) ->
  Forall (bond_tx_msg (sender, MWasm A_hub (WHub hm) funds)) out.
Proof.
  intros Hb HP H.
  destruct HP as [E|[(v & c & E)|[(tok & to & amt & E)|(tok & rc & a & amt & E)]]]; inversion E; subst s m; clear E.
  - (* root *)
    apply step_msg_cases in H.
    destruct H as [funds0 hm0 e1 h h' o Em Hsend Hw He -> -> | _ _ _ _ Hn
                  | v c e' Em _ _ _ | v c e' Em _ _ _ | a b c e' Em _ _ _]; try discriminate Em.
    + inversion Em; subst hm0 funds0. clear Em.
      assert (Hall : forall m, In m o -> (exists v c, m = MDelegate v c) \/
                                         (exists tok mint, m = MWasm tok (WCw20 (CMint sender mint)) [])).
      { unfold hub_execute in He.
        destruct Hb as [->|[->| ->]]; check_inv He as Hp; apply bond_delegates_all in He;
          destruct He as (pay & h1 & g & _ & _ & _ & _ & _ & _ & _ & _ & _ & _ & Hall); exact Hall. }
      apply Forall_forall. intros sm Hi. apply in_map_iff in Hi. destruct Hi as (m & <- & Hm).
      destruct (Hall m Hm) as [(v & c & ->)|(tok & mint & ->)].
      * right. left. eauto.
      * right. right. left. eauto.
    + exfalso. eapply Hn. reflexivity.
  - (* Delegate *)
    cbn [step_msg] in H. bind_inv H as e1 He1. inversion H; subst. constructor.
  - (* Mint *)
    apply step_msg_inv in H. destruct H as [e' _ _ Hn | to' wm f e1 o Hm Hsend Hc ->]; [exfalso; eapply Hn; reflexivity|].
    inversion Hm; subst to' wm f. clear Hm.
    destruct Hc as [h hm0 h' E1 E2 Hw He -> | r rm r' E1 E2 Hw He -> | d dm d' E1 E2 Hw He ->
                   | g gm g' E1 E2 Hw He -> | t cm t' E1 E2 Hw He -> | t cm t' E1 E2 Hw He ->
                   | sm e' E1 E2 He -> -> | E1 -> ->]; try discriminate E2;
      try (destruct E2 as [E2|(n & E2 & _)]; discriminate E2); try constructor.
    + inversion E2; subst cm. unfold bsei_execute in He. bind_inv He as rc Hrc. bind_inv He as t1 Ht1.
      inversion He; subst. constructor; [|constructor]. right. right. right. unfold m_inc. eauto.
    + inversion E2; subst cm. unfold stsei_execute in He. bind_inv He as t1 Ht1. inversion He; subst. constructor.
  - (* IncreaseBalance *)
    apply step_msg_inv in H. destruct H as [e' _ _ Hn | to' wm f e1 o Hm Hsend Hc ->]; [exfalso; eapply Hn; reflexivity|].
    inversion Hm; subst to' wm f. clear Hm.
    destruct Hc as [h hm0 h' E1 E2 Hw He -> | r rm r' E1 E2 Hw He -> | d dm d' E1 E2 Hw He ->
                   | g gm g' E1 E2 Hw He -> | t cm t' E1 E2 Hw He -> | t cm t' E1 E2 Hw He ->
                   | sm e' E1 E2 He -> -> | E1 -> ->]; try discriminate E2; try constructor.
    destruct E2 as [E2|(n & E2 & _)]; [|discriminate E2]. inversion E2; subst rm.
    cbn [reward_execute] in He. bind_inv He as tk Htk. check_inv He as Hs.
    bind_inv He as rw Hrw. bind_inv He as pend Hpend. bind_inv He as b Hbb. bind_inv He as tot Htot.
    inversion He; subst. constructor.
Qed.

Lemma bond_tx_msg_ok sender hm funds sm :
  is_bond_msg hm -> bond_tx_msg (sender, MWasm A_hub (WHub hm) funds) sm ->
  not_withdraw sm /\ no_gift sm.
Proof.
  intros Hb [->|[(v & c & ->)|[(tok & to & amt & ->)|(tok & rc & a & amt & ->)]]];
    unfold not_withdraw, no_gift; cbn [fst snd].
  - split.
    + intros f E. inversion E; subst. destruct Hb as [X|[X|X]]; discriminate X.
    + split; [intros _; right; eauto | intros E; vm_compute in E; discriminate E].
  - split; [intros f E; discriminate E | exact I].
  - split; [intros f E; discriminate E|]. split; [intros _; left; reflexivity | intros _; exact I].
  - split; [intros f E; discriminate E|]. split; [intros _; left; reflexivity | intros _; exact I].
Qed.

(** C02 (d): a bond of any kind leaves the hub's liquid balance exactly unchanged: the payment
    arrives with the message and the same amount leaves as Delegate messages *)
Theorem bond_tx_liquid_unchanged w sender hm funds w' tr :
  is_bond_msg hm ->
  (forall h, w_hub w = Some h -> hp_underlying (h_params h) = usei) ->
  NoRewardsToHub (w_env w) -> sender <> A_hub ->
  run tx_fuel w [(sender, MWasm A_hub (WHub hm) funds)] [] = Some (w', tr) ->
  bal (w_env w') A_hub usei = bal (w_env w) A_hub usei.
Proof.
  intros Hb Hu Hnr Hs H.
  eapply (tx_liquid_eq w sender A_hub (WHub hm) funds w' tr Hu Hnr); [intros E; contradiction | exact H | ].
  assert (Hcl : Forall (bond_tx_msg (sender, MWasm A_hub (WHub hm) funds)) tr).
  { eapply (run_trace_closed (bond_tx_msg (sender, MWasm A_hub (WHub hm) funds))); [|exact H| |constructor].
    - intros w0 s m w1 out HP Hst. eapply bond_tx_closed; eauto.
    - constructor; [left; reflexivity|constructor]. }
  eapply Forall_impl; [|exact Hcl]. intros sm HP. eapply bond_tx_msg_ok; eauto.
Qed.
