(** * LifeP (C08): the unbonding time-lock holds and the batch lifecycle only moves forward.

    Main theorems
    - [life_inv_instantiate] / [life_inv_execute] / [LifeInv_reachable] : [LifeInv] (history ids are
      exactly 1..cb_id-1; undelegation times strictly increase with the id, the last one equals
      last_unbonded_time; released = the prefix 1..last_processed_batch; last_processed_batch <
      open batch id) holds after instantiate, is preserved by every successful hub message, and so
      holds in every world reached by ANY history (legacy injections and migrations included);
    - [undelegate_once]        : a hub call that emits an Undelegate message closes the open batch:
      strictly more than one epoch since the last undelegation, id + 1, totals zeroed, the history
      gains exactly the entry for the old id, stamped with the block time;
    - [close_only_after_epoch] : the same conclusion for any call that changes the open batch id;
      [batch_id_monotone]: the id never decreases and grows by at most one per call;
    - [undelegation_spacing]   : consecutive undelegation times differ by more than the epoch period
      in force at the later one;
    - [undelegated_amount]     : the Undelegate amounts of the closing call add up to the batch's
      requests valued at the rates recorded in its history entry;
    - [hist_entry_step]        : across one call a history entry is unchanged, or it is an unreleased
      entry being released by a WithdrawUnbonded at block time >= time + unbonding_period;
    - [released_immutable], [release_after_period], [release_not_early], [release_at_boundary]
      (boundary second exact both ways), [no_pay_before_release];
    - [released_forever]       : along any history that does not re-instantiate the hub, a released
      entry is found unchanged in every later world;
    - [step_msg_now], [step_now_monotone] : block time never decreases along a history (only
      OReset re-initialises the chain). *)
From Krp Require Import Tactics Prelude Fixed FMap Types Env Registry Cw20 Reward Dispatcher Hub Exec
     ExecP HubFrame HubAdmin Pause ClaimsStep ClaimsP.
Open Scope N_scope.

(** the C08 invariant of the hub state *)
Definition LifeInv (h : hub) : Prop :=
  let hist := h_hist h in
  let s := h_state h in
  HistShape h /\
  hs_lpb s < cb_id (h_batch h) /\
  (forall i e, get N.eqb hist i = Some e -> (he_released e = true <-> i <= hs_lpb s)) /\
  (forall i j ei ej, get N.eqb hist i = Some ei -> get N.eqb hist j = Some ej -> i < j ->
                     he_time ei < he_time ej) /\
  (forall i e, get N.eqb hist i = Some e -> he_time e <= hs_lut s) /\
  (forall e, get N.eqb hist (cb_id (h_batch h) - 1) = Some e -> he_time e = hs_lut s).

Lemma life_inv_ext h h' :
  h_hist h' = h_hist h -> cb_id (h_batch h') = cb_id (h_batch h) ->
  hs_lut (h_state h') = hs_lut (h_state h) -> hs_lpb (h_state h') = hs_lpb (h_state h) ->
  LifeInv h -> LifeInv h'.
Proof. unfold LifeInv, HistShape. intros -> -> -> ->. tauto. Qed.

Lemma life_inv_instantiate sender now epoch unbonding pegfee thr updater underlying rdenom h :
  hub_instantiate sender now epoch unbonding pegfee thr updater underlying rdenom = Some h -> LifeInv h.
Proof.
  unfold hub_instantiate. intros H. check_inv H as Hf. inversion H; subst. clear H.
  unfold LifeInv, HistShape. cbn.
  split; [split; [lia | reflexivity]|]. split; [lia|].
  repeat split; intros; discriminate.
Qed.

(** ** preservation *)
Lemma life_inv_close w h rb rs h' msgs :
  LifeInv h -> closes w h rb rs h' msgs -> hs_lpb (h_state h') = hs_lpb (h_state h) -> LifeInv h'.
Proof.
  intros (Hsh & Hlpb & Hrel & Hmono & Hle & Hlast)
         (Hlt & Hep & Hb & Hlut & _ & entry & bund & sund & Hh & Ht & _ & _ & Hr & _) Hl.
  set (c := cb_id (h_batch h)) in *.
  assert (Hold : forall i e, i <> c -> get N.eqb (h_hist h') i = Some e -> get N.eqb (h_hist h) i = Some e).
  { intros i e Hi Hg. rewrite Hh, hget_put_other in Hg by exact Hi. exact Hg. }
  assert (Hin : forall i e, get N.eqb (h_hist h) i = Some e -> i < c).
  { intros i e Hg. assert (X : 1 <= i < c) by (apply (shape_get h i Hsh); congruence). lia. }
  assert (Hnew : get N.eqb (h_hist h') c = Some entry) by (rewrite Hh; apply hget_put_same).
  unfold LifeInv, HistShape. rewrite Hb, Hlut, Hl. cbn [cb_id]. fold c.
  split. { split; [lia|]. rewrite Hh. apply shape_put_end. exact Hsh. }
  split; [lia|].
  split. { intros i e Hg. destruct (N.eq_dec i c) as [->|Hi].
           - rewrite Hnew in Hg. inversion Hg; subst e. rewrite Hr. split; [discriminate | lia].
           - apply Hrel. apply Hold; assumption. }
  split. { intros i j ei ej Gi Gj Hij.
           destruct (N.eq_dec j c) as [->|Hj].
           - rewrite Hnew in Gj. inversion Gj; subst ej. rewrite Ht.
             assert (Hi : i <> c) by lia. specialize (Hle _ _ (Hold _ _ Hi Gi)). lia.
           - pose proof (Hin _ _ (Hold _ _ Hj Gj)) as Hjc. assert (Hi : i <> c) by lia.
             exact (Hmono _ _ _ _ (Hold _ _ Hi Gi) (Hold _ _ Hj Gj) Hij). }
  split. { intros i e Hg. destruct (N.eq_dec i c) as [->|Hi].
           - rewrite Hnew in Hg. inversion Hg; subst e. lia.
           - specialize (Hle _ _ (Hold _ _ Hi Hg)). lia. }
  intros e Hg. replace (c + 1 - 1) with c in Hg by lia. rewrite Hnew in Hg. inversion Hg; subst. exact Ht.
Qed.

Lemma life_inv_pwr h historical hbal h1 :
  LifeInv h -> process_withdraw_rate h historical hbal = Some h1 -> LifeInv h1.
Proof.
  intros (Hsh & Hlpb & Hrel & Hmono & Hle & Hlast) H.
  apply pwr_spec in H. destruct H as (n & Hl & Hlut & _ & Hb & Hnewr & Hoth & Hkeys & _).
  assert (Hback : forall i e1, get N.eqb (h_hist h1) i = Some e1 ->
            exists e, get N.eqb (h_hist h) i = Some e /\ he_time e1 = he_time e /\
              ((hs_lpb (h_state h) < i <= hs_lpb (h_state h) + N.of_nat n /\ he_released e1 = true) \/
               (~ (hs_lpb (h_state h) < i <= hs_lpb (h_state h) + N.of_nat n) /\ e1 = e))).
  { intros i e1 Hg.
    destruct (N.ltb_spec (hs_lpb (h_state h)) i) as [L1|L1];
      [destruct (N.leb_spec i (hs_lpb (h_state h) + N.of_nat n)) as [L2|L2]|].
    - destruct (Hnewr i (conj L1 L2)) as (e & e' & G1 & _ & _ & G3 & (Rt & _ & _ & _ & _ & Rr)).
      rewrite Hg in G3. inversion G3; subst e'. exists e. split; [exact G1|]. split; [exact Rt|]. left. auto.
    - rewrite Hoth in Hg by lia. exists e1. split; [exact Hg|]. split; [reflexivity|]. right. split; [lia | reflexivity].
    - rewrite Hoth in Hg by lia. exists e1. split; [exact Hg|]. split; [reflexivity|]. right. split; [lia | reflexivity]. }
  unfold LifeInv, HistShape. rewrite Hb, Hl, Hlut, (Hkeys Hsh).
  split; [exact Hsh|].
  split. { destruct n as [|n]; [lia|].
           destruct (Hnewr (hs_lpb (h_state h) + N.of_nat (S n))) as (e & _ & G1 & _); [lia|].
           assert (X : 1 <= hs_lpb (h_state h) + N.of_nat (S n) < cb_id (h_batch h))
             by (apply (shape_get h _ Hsh); congruence). lia. }
  split. { intros i e1 Hg. destruct (Hback _ _ Hg) as (e & G & _ & [(Hr & Hrl)|(Hr & ->)]).
           - rewrite Hrl. split; [lia | reflexivity].
           - specialize (Hrel _ _ G). split; [intros X; apply Hrel in X; lia|].
             intros X. apply Hrel. lia. }
  split. { intros i j ei ej Gi Gj Hij.
           destruct (Hback _ _ Gi) as (ei0 & Gi0 & -> & _). destruct (Hback _ _ Gj) as (ej0 & Gj0 & -> & _).
           eapply Hmono; eauto. }
  split. { intros i e1 Hg. destruct (Hback _ _ Hg) as (e & G & -> & _). eapply Hle; eauto. }
  intros e1 Hg. destruct (Hback _ _ Hg) as (e & G & -> & _). apply Hlast. exact G.
Qed.

(** [LifeInv] is preserved by every successful hub message, with or without legacy entries *)
Theorem life_inv_execute w h self sender funds m h' out :
  LifeInv h -> hub_execute w h self sender funds m = Some (h', out) -> LifeInv h'.
Proof.
  intros HI H. apply hub_execute_cases in H.
  destruct H as [_ _ _ (B1 & B2 & B3 & B4 & B5 & B6) _ | limit -> -> _
                | user amount db dst msgs -> _ _ Hshape | -> Hshape].
  - eapply life_inv_ext; [| | | |exact HI]; congruence.
  - pose proof (migrate_params h limit) as M. cbn zeta in M.
    destruct M as (_ & _ & _ & _ & _ & _ & _ & _ & M1 & M2 & M3).
    eapply life_inv_ext; [| | | |exact HI]; congruence.
  - destruct Hshape as (_ & Hl & _ & [(_ & Hb & Hh & Hlut & _) | Hcl]).
    + eapply life_inv_ext; [| | | |exact HI]; try assumption. rewrite Hb. reflexivity.
    + eapply life_inv_close; eauto.
  - destruct Hshape as (h1 & amount & vs & _ & Hpwr & _ & Hh & Hb & Hlut & Hl & _).
    pose proof (life_inv_pwr _ _ _ _ HI Hpwr) as H1.
    pose proof (pwr_spec _ _ _ _ Hpwr) as (n & _ & Hlut1 & _ & Hb1 & _).
    eapply life_inv_ext; [| | | |exact H1]; congruence.
Qed.

(** ... hence in every world reached by any history *)
Theorem LifeInv_reachable ut ops :
  forall h, w_hub (run_ops ops (empty_world ut)) = Some h -> LifeInv h.
Proof.
  apply (hubw_run_ops_all LifeInv).
  - intros. eapply life_inv_execute; eauto.
  - intros. eapply life_inv_instantiate; eauto.
  - intros h x HI. eapply life_inv_ext; [| | | |exact HI]; reflexivity.
  - apply hubw_empty.
Qed.

(** ** closing the open batch *)

(** a successful hub message either keeps the open batch id and the last-undelegation time and
    emits no Undelegate message, or it is an Unbond hook that closes the batch *)
Lemma exec_close_or_not w h self sender funds m h' out :
  hub_execute w h self sender funds m = Some (h', out) ->
  (cb_id (h_batch h') = cb_id (h_batch h) /\ hs_lut (h_state h') = hs_lut (h_state h) /\
   forall x, In x out -> is_undelegate x = false)
  \/
  (exists user amount rb rs msgs, m = HReceive user amount HkUnbond /\
     out = msgs ++ [MWasm sender (WCw20 (CBurn amount)) []] /\ closes w h rb rs h' msgs).
Proof.
  intros H. apply hub_execute_cases in H.
  destruct H as [_ _ _ (B1 & B2 & B3 & B4 & B5 & B6) Hq | limit -> -> ->
                | user amount db dst msgs -> -> _ Hshape | -> Hshape].
  - left. split; [congruence|]. split; [exact B4|]. intros x Hx. apply Hq. exact Hx.
  - left. pose proof (migrate_params h limit) as M. cbn zeta in M.
    destruct M as (_ & _ & _ & _ & _ & _ & _ & _ & M1 & M2 & M3).
    split; [congruence|]. split; [congruence|]. intros x [].
  - destruct Hshape as (_ & _ & _ & [(-> & Hb & _ & Hlut & _) | Hcl]).
    + left. rewrite Hb. split; [reflexivity|]. split; [exact Hlut|].
      intros x [<-|[]]. reflexivity.
    + right. eauto 10.
  - left. destruct Hshape as (h1 & amount & vs & _ & _ & _ & _ & Hb & Hlut & _ & _ & _ & -> & _).
    split; [congruence|]. split; [exact Hlut|]. intros x [<-|[]]. reflexivity.
Qed.

(** the facts established by a closing call, spelled out *)
Definition closed_batch (w : world) (h h' : hub) : Prop :=
  let now := e_now (w_env w) in
  let c := cb_id (h_batch h) in
  hs_lut (h_state h) <= now /\ hp_epoch (h_params h) < now - hs_lut (h_state h) /\
  h_batch h' = mkBatch (c + 1) 0 0 /\ hs_lut (h_state h') = now /\
  exists entry, get N.eqb (h_hist h') c = Some entry /\
    (forall i, i <> c -> get N.eqb (h_hist h') i = get N.eqb (h_hist h) i) /\
    he_time entry = now /\ he_released entry = false /\
    he_bwithdraw entry = he_bapplied entry /\ he_swithdraw entry = he_sapplied entry.

Lemma closes_closed w h rb rs h' msgs : closes w h rb rs h' msgs -> closed_batch w h h'.
Proof.
  intros (Hlt & Hep & Hb & Hlut & _ & entry & bund & sund & Hh & Ht & _ & _ & Hr & Hbw & Hsw & _).
  unfold closed_batch. split; [exact Hlt|]. split; [exact Hep|]. split; [exact Hb|]. split; [exact Hlut|].
  exists entry. rewrite Hh. split; [apply hget_put_same|].
  split; [intros i Hi; apply hget_put_other; exact Hi|]. auto.
Qed.

Theorem undelegate_once w h self sender funds m h' out :
  hub_execute w h self sender funds m = Some (h', out) ->
  (exists x, In x out /\ is_undelegate x = true) ->
  (exists user amount, m = HReceive user amount HkUnbond) /\ closed_batch w h h'.
Proof.
  intros H (x & Hx & Hu). apply exec_close_or_not in H.
  destruct H as [(_ & _ & Hq) | (user & amount & rb & rs & msgs & -> & _ & Hcl)].
  - rewrite (Hq x Hx) in Hu. discriminate.
  - split; [eauto|]. eapply closes_closed; eauto.
Qed.

Theorem close_only_after_epoch w h self sender funds m h' out :
  hub_execute w h self sender funds m = Some (h', out) ->
  cb_id (h_batch h') <> cb_id (h_batch h) ->
  (exists user amount, m = HReceive user amount HkUnbond) /\ closed_batch w h h'.
Proof.
  intros H Hne. apply exec_close_or_not in H.
  destruct H as [(Hid & _) | (user & amount & rb & rs & msgs & -> & _ & Hcl)]; [contradiction|].
  split; [eauto|]. eapply closes_closed; eauto.
Qed.

Theorem batch_id_monotone w h self sender funds m h' out :
  hub_execute w h self sender funds m = Some (h', out) ->
  cb_id (h_batch h') = cb_id (h_batch h) \/ cb_id (h_batch h') = cb_id (h_batch h) + 1.
Proof.
  intros H. apply exec_close_or_not in H.
  destruct H as [(Hid & _) | (user & amount & rb & rs & msgs & _ & _ & (_ & _ & Hb & _))]; [left; exact Hid|].
  right. rewrite Hb. reflexivity.
Qed.

(** the previous undelegation (batch c-1) and the one made by a closing call (batch c) are more
    than the current epoch period apart *)
Theorem undelegation_spacing w h self sender funds m h' out e_prev e_new :
  LifeInv h -> hub_execute w h self sender funds m = Some (h', out) ->
  cb_id (h_batch h') <> cb_id (h_batch h) ->
  get N.eqb (h_hist h) (cb_id (h_batch h) - 1) = Some e_prev ->
  get N.eqb (h_hist h') (cb_id (h_batch h)) = Some e_new ->
  he_time e_prev + hp_epoch (h_params h) < he_time e_new.
Proof.
  intros (_ & _ & _ & _ & _ & Hlast) H Hne Gp Gn.
  destruct (close_only_after_epoch _ _ _ _ _ _ _ _ H Hne)
    as (_ & Hlt & Hep & _ & _ & entry & Ge & _ & Ht & _).
  rewrite Gn in Ge. inversion Ge; subst entry. rewrite Ht, (Hlast _ Gp). lia.
Qed.

(** the coins undelegated for a batch = its requests valued at the rates recorded in its entry *)
Theorem undelegated_amount w h self sender funds m h' out :
  hub_execute w h self sender funds m = Some (h', out) ->
  cb_id (h_batch h') <> cb_id (h_batch h) ->
  exists e bund sund,
    get N.eqb (h_hist h') (cb_id (h_batch h)) = Some e /\
    mulU (he_samt e) (he_sapplied e) = Some sund /\ mulU (he_bamt e) (he_bapplied e) = Some bund /\
    undelegated_sum out = bund + sund /\
    he_bapplied e = hs_ber (h_state h') /\ he_sapplied e = hs_ser (h_state h').
Proof.
  intros H Hne. apply exec_close_or_not in H.
  destruct H as [(Hid & _) | (user & amount & rb & rs & msgs & -> & -> & Hcl)]; [contradiction|].
  destruct Hcl as (_ & _ & _ & _ & _ & entry & bund & sund & Hh & _ & Hba & Hsa & _ & _ & _ & Rb & Rs & Ms & Mb & Hsum).
  exists entry, bund, sund. rewrite Hh, hget_put_same, Hba, Hsa.
  split; [reflexivity|]. split; [exact Ms|]. split; [exact Mb|].
  split; [|auto]. rewrite undelegated_sum_app, Hsum. cbn. lia.
Qed.

(** ** history entries across one call *)
Theorem hist_entry_step w h self sender funds m h' out i e :
  HistShape h -> hub_execute w h self sender funds m = Some (h', out) ->
  get N.eqb (h_hist h) i = Some e ->
  get N.eqb (h_hist h') i = Some e \/
  (m = HWithdraw /\ he_released e = false /\
   hs_lpb (h_state h) < i <= hs_lpb (h_state h') /\
   hp_unbonding (h_params h) <= e_now (w_env w) /\
   he_time e + hp_unbonding (h_params h) <= e_now (w_env w) /\
   exists e', get N.eqb (h_hist h') i = Some e' /\ released_version e e').
Proof.
  intros Hsh H Hg. apply hub_execute_cases in H.
  destruct H as [_ _ _ (B1 & B2 & _) _ | limit -> -> _
                | user amount db dst msgs -> _ _ Hshape | -> Hshape].
  - left. rewrite B2. exact Hg.
  - left. pose proof (migrate_params h limit) as M. cbn zeta in M.
    destruct M as (_ & _ & _ & _ & _ & _ & _ & _ & _ & _ & M3). rewrite M3. exact Hg.
  - left. destruct Hshape as (_ & _ & _ & [(_ & _ & Hh & _) | Hcl]).
    + rewrite Hh. exact Hg.
    + destruct Hcl as (_ & _ & _ & _ & _ & entry & bund & sund & Hh & _).
      rewrite Hh, hget_put_other; [exact Hg|].
      assert (X : 1 <= i < cb_id (h_batch h)) by (apply (shape_get h i Hsh); congruence). lia.
  - destruct Hshape as (h1 & amount & vs & Hu & Hpwr & _ & Hh & _ & _ & Hl & _).
    apply pwr_spec in Hpwr. destruct Hpwr as (n & Hl1 & _ & _ & _ & Hnewr & Hoth & _).
    rewrite Hh, Hl, Hl1.
    destruct (N.ltb_spec (hs_lpb (h_state h)) i) as [L1|L1];
      [destruct (N.leb_spec i (hs_lpb (h_state h) + N.of_nat n)) as [L2|L2]|].
    + right. destruct (Hnewr i (conj L1 L2)) as (e0 & e' & G1 & G2 & G3 & G4 & G5).
      rewrite Hg in G1. inversion G1; subst e0.
      split; [reflexivity|]. split; [exact G2|]. split; [lia|]. split; [exact Hu|]. split; [lia|].
      exists e'. auto.
    + left. rewrite Hoth by lia. exact Hg.
    + left. rewrite Hoth by lia. exact Hg.
Qed.

(** once released (equivalently: at or below last_processed_batch), an entry never changes *)
Theorem released_immutable w h self sender funds m h' out i e :
  HistShape h -> hub_execute w h self sender funds m = Some (h', out) ->
  get N.eqb (h_hist h) i = Some e -> (he_released e = true \/ i <= hs_lpb (h_state h)) ->
  get N.eqb (h_hist h') i = Some e.
Proof.
  intros Hsh H Hg Hr.
  destruct (hist_entry_step _ _ _ _ _ _ _ _ _ _ Hsh H Hg) as [E | (_ & Hf & Hi & _)]; [exact E|].
  destruct Hr as [Hr|Hr]; [congruence | lia].
Qed.

(** an entry becomes released only in a WithdrawUnbonded at block time >= time + unbonding_period *)
Theorem release_after_period w h self sender funds m h' out i e e' :
  HistShape h -> hub_execute w h self sender funds m = Some (h', out) ->
  get N.eqb (h_hist h) i = Some e -> he_released e = false ->
  get N.eqb (h_hist h') i = Some e' -> he_released e' = true ->
  m = HWithdraw /\ hp_unbonding (h_params h) <= e_now (w_env w) /\
  he_time e + hp_unbonding (h_params h) <= e_now (w_env w) /\
  hs_lpb (h_state h) < i <= hs_lpb (h_state h') /\ released_version e e'.
Proof.
  intros Hsh H Hg Hf Hg' Hr'.
  destruct (hist_entry_step _ _ _ _ _ _ _ _ _ _ Hsh H Hg) as [E | (Hm & _ & Hi & Hu & Ht & e1 & G1 & Hrv)].
  - rewrite E in Hg'. inversion Hg'; subst. congruence.
  - rewrite G1 in Hg'. inversion Hg'; subst e1. auto.
Qed.

(** boundary, early side: one second (or more) before time + unbonding_period nothing can release
    the batch *)
Theorem release_not_early w h self sender funds m h' out i e :
  HistShape h -> hub_execute w h self sender funds m = Some (h', out) ->
  get N.eqb (h_hist h) i = Some e -> he_released e = false ->
  e_now (w_env w) < he_time e + hp_unbonding (h_params h) ->
  get N.eqb (h_hist h') i = Some e.
Proof.
  intros Hsh H Hg Hf Hearly.
  destruct (hist_entry_step _ _ _ _ _ _ _ _ _ _ Hsh H Hg) as [E | (_ & _ & _ & _ & Ht & _)]; [exact E | lia].
Qed.

(** boundary, late side: at block time = time + unbonding_period (or later) an accepted
    WithdrawUnbonded releases the batch that is next in line *)
Theorem release_at_boundary w h self sender funds h' out e :
  hub_execute w h self sender funds HWithdraw = Some (h', out) ->
  get N.eqb (h_hist h) (hs_lpb (h_state h) + 1) = Some e -> he_released e = false ->
  he_time e + hp_unbonding (h_params h) <= e_now (w_env w) ->
  exists e', get N.eqb (h_hist h') (hs_lpb (h_state h) + 1) = Some e' /\ released_version e e' /\
             hs_lpb (h_state h) + 1 <= hs_lpb (h_state h').
Proof.
  intros H Hg Hf Ht. apply hub_execute_cases in H.
  destruct H as [_ _ Hn _ _ | limit Hm _ _ | user amount db dst msgs Hm _ _ _ | _ Hshape];
    try discriminate; [congruence|].
  destruct Hshape as (h1 & amount & vs & Hu & Hpwr & _ & Hh & _ & _ & Hl & _).
  apply pwr_spec in Hpwr. destruct Hpwr as (n & Hl1 & _ & _ & _ & Hnewr & _ & _ & Hmax).
  destruct n as [|n].
  - exfalso. cbn [N.of_nat] in Hmax. rewrite N.add_0_r in Hmax. destruct Hmax as [Hmax|Hmax].
    + destruct (h_hist h); [discriminate Hg | discriminate Hmax].
    + rewrite Hg in Hmax. destruct Hmax as [X|X]; [lia | congruence].
  - destruct (Hnewr (hs_lpb (h_state h) + 1)) as (e0 & e' & G1 & _ & _ & G4 & G5); [lia|].
    rewrite Hg in G1. inversion G1; subst e0. exists e'. rewrite Hh, Hl, Hl1.
    split; [exact G4|]. split; [exact G5 | lia].
Qed.

(** the only Bank message of the hub's unbonding flow: a withdrawal pays exactly the sender's
    wait entries of RELEASED batches (released in the state after the call), each valued at its
    batch's withdraw rates; nothing is paid for an unreleased batch *)
Theorem no_pay_before_release w h self sender funds h' out :
  hub_execute w h self sender funds HWithdraw = Some (h', out) ->
  exists amount vs,
    out = [MBank sender [(hp_underlying (h_params h), amount)]] /\ amount <> 0 /\
    Forall2 (paid_entry (h_hist h'))
            (filter (fun bx => released_at (h_hist h') (fst bx)) (user_waits h sender)) vs /\
    amount = sumN vs.
Proof.
  intros H. apply hub_execute_cases in H.
  destruct H as [_ _ Hn _ _ | limit Hm _ _ | user amount db dst msgs Hm _ _ _ | _ Hshape];
    try discriminate; [congruence|].
  destruct Hshape as (h1 & amount & vs & _ & _ & _ & Hh & _ & _ & _ & _ & Hnz & Hout & Hf & Ha).
  exists amount, vs. rewrite Hh. auto.
Qed.

(** every other hub message emits no Bank message at all *)
Theorem bank_only_by_withdraw w h self sender funds m h' out x :
  hub_execute w h self sender funds m = Some (h', out) -> In x out -> is_bank x = true ->
  m = HWithdraw.
Proof.
  intros H Hx Hb. apply hub_execute_cases in H.
  destruct H as [_ _ _ _ Hq | limit _ _ -> | user amount db dst msgs _ -> _ Hshape | Hm _].
  - destruct (Hq x Hx) as [_ X]. congruence.
  - destruct Hx.
  - exfalso. apply in_app_iff in Hx. destruct Hx as [Hx|[<-|[]]]; [|discriminate].
    destruct Hshape as (_ & _ & _ & [(-> & _) | Hcl]); [destruct Hx|].
    destruct Hcl as (_ & _ & _ & _ & Hall & _). rewrite forallb_forall in Hall.
    specialize (Hall x Hx). destruct x; discriminate.
  - exact Hm.
Qed.

(** ** block time never decreases *)
Lemma credit_now e a d x : e_now (credit e a d x) = e_now e.
Proof. reflexivity. Qed.

Lemma debit_now e a d x e' : debit e a d x = Some e' -> e_now e' = e_now e.
Proof. unfold debit. destruct (x <=? bal e a d); intros H; inversion H; reflexivity. Qed.

Lemma send_coins_now cs : forall e from to e', send_coins e from to cs = Some e' -> e_now e' = e_now e.
Proof.
  unfold send_coins. induction cs as [|[d x] cs IH]; intros e from to e' H; cbn [foldM] in H.
  - inversion H; reflexivity.
  - bind_inv H as e1 H1. apply IH in H. rewrite H. unfold send_coin in H1.
    check_inv H1 as Hz. bind_inv H1 as e2 H2. inversion H1; subst. cbn. eapply debit_now; eauto.
Qed.

Lemma payout_now e x v : e_now (payout e x v) = e_now e.
Proof.
  unfold payout. generalize DENOMS. intros l. revert e.
  induction l as [|d l IH]; intros e; cbn [fold_left]; [reflexivity|].
  rewrite IH. destruct (pending e x v d =? 0); reflexivity.
Qed.

Lemma payout_if_entry_now e x v : e_now (payout_if_entry e x v) = e_now e.
Proof. unfold payout_if_entry. destruct (delegation e x v); [apply payout_now | reflexivity]. Qed.

Lemma env_msg_now w s m w' out :
  step_msg w s m = Some (w', out) -> (forall to wm f, m <> MWasm to wm f) ->
  e_now (w_env w') = e_now (w_env w).
Proof.
  unfold step_msg. intros H Hm. destruct m.
  - exfalso. eapply Hm. reflexivity.
  - bind_inv H as e1 He1. inversion H; subst. cbn. unfold bank_send in He1.
    destruct coins; [discriminate|]. eapply send_coins_now; eauto.
  - bind_inv H as e1 He1. inversion H; subst. cbn. unfold do_delegate in He1.
    check_inv He1 as A1. check_inv He1 as A2. check_inv He1 as A3. bind_inv He1 as e2 He2.
    inversion He1; subst. cbn. apply debit_now in He2. rewrite He2. apply payout_if_entry_now.
  - bind_inv H as e1 He1. inversion H; subst. cbn. unfold do_undelegate in He1.
    check_inv He1 as A1. destruct (delegation (w_env w) s v); [|discriminate].
    check_inv He1 as A2. inversion He1; subst. cbn. apply payout_now.
  - bind_inv H as e1 He1. inversion H; subst. cbn. unfold do_redelegate in He1.
    check_inv He1 as A1. check_inv He1 as A2. destruct (delegation (w_env w) s src); [|discriminate].
    check_inv He1 as A3. check_inv He1 as A4. inversion He1; subst. cbn.
    rewrite payout_if_entry_now. apply payout_now.
  - bind_inv H as e1 He1. inversion H; subst. cbn. unfold do_withdraw_reward in He1.
    destruct (delegation (w_env w) s v); [|discriminate]. inversion He1; subst. apply payout_now.
  - inversion H; subst. reflexivity.
Qed.

Lemma step_msg_now w s m w' out : step_msg w s m = Some (w', out) -> e_now (w_env w') = e_now (w_env w).
Proof.
  intros H. pose proof H as H0. apply step_msg_inv in H.
  destruct H as [e' -> _ Hm | to wm funds e1 o -> Hsend Hc _].
  - eapply env_msg_now; eauto.
  - apply send_coins_now in Hsend.
    destruct Hc as [h hm h' -> -> Hw He -> | r rm r' -> _ Hw He -> | d dm d' -> -> Hw He ->
                   | g gm g' -> -> Hw He -> | t cm t' -> -> Hw He -> | t cm t' -> -> Hw He ->
                   | sm e' -> -> He -> -> | -> -> ->]; cbn [w_env set_hub set_reward set_disp
                      set_reg set_bsei set_stsei set_env] in *; try exact Hsend.
    rewrite <- Hsend. unfold swap_execute in He. destruct sm as [from target to].
    destruct (e_swapmode e1); [|discriminate|inversion He; reflexivity].
    bind_inv He as o1 Ho. destruct (o1 =? 0); inversion He; reflexivity.
Qed.

Lemma deliver_matured_now e : e_now (deliver_matured e) = e_now e.
Proof.
  unfold deliver_matured. generalize (e_now e) at 1. intros now.
  change (e_now e) with (e_now (set_unb e [])). generalize (set_unb e []). generalize (e_unb e).
  induction l as [|[[[x v] amt] t] l IH]; intros e0; cbn [fold_left]; [reflexivity|].
  rewrite IH. destruct (t <=? now); reflexivity.
Qed.

(** along a history the block time never decreases, except when [OReset] starts a new chain *)
Theorem step_now_monotone w o :
  (forall ut, o <> OReset ut) -> e_now (w_env w) <= e_now (w_env (fst (step w o))).
Proof.
  intros Hr. destruct o; cbn [step]; try apply N.le_refl.
  - exfalso. eapply Hr. reflexivity.
  - destruct (e_now (w_env w) + dt <=? 18446744073); cbn [fst]; [|lia].
    cbn [w_env set_env]. unfold ev_advance. rewrite deliver_matured_now. cbn [e_now set_now]. lia.
  - unfold ev_slash. destruct (num <=? den); [|apply N.le_refl].
    destruct (negb (den =? 0)); apply N.le_refl.
  - unfold ev_accrue. destruct (delegation (w_env w) A_hub v); apply N.le_refl.
  - destruct (p =? 0); apply N.le_refl.
  - destruct (w_hub w); apply N.le_refl.
  - destruct (run tx_fuel w _ []) as [[w1 tr1]|] eqn:E; cbn [fst]; [|lia].
    assert (X : e_now (w_env w1) = e_now (w_env w)); [|lia].
    eapply (run_preserves (fun w0 => e_now (w_env w0) = e_now (w_env w))); [|reflexivity|exact E].
    intros w0 s m0 w' out0 HI Hs. apply step_msg_now in Hs. congruence.
Qed.

(** ** a released entry stays as it is for the rest of the history *)

(** operations that do not replace the hub contract instance *)
Definition keeps_hub (o : op) : bool :=
  match o with OReset _ | OInstHub _ _ _ _ _ _ _ _ => false | _ => true end.

Section ReleasedForever.
  Variables (i : N) (e : hist_entry).
  Hypothesis e_released : he_released e = true.

  Definition HasReleased (w : world) : Prop :=
    exists h, w_hub w = Some h /\ LifeInv h /\ get N.eqb (h_hist h) i = Some e.

  Lemma step_msg_has_released w s m w' out :
    HasReleased w -> step_msg w s m = Some (w', out) -> HasReleased w'.
  Proof.
    intros HI H. apply step_msg_inv in H. destruct H as [e' -> _ _ | to wm funds e1 o -> Hsend Hc _].
    - exact HI.
    - destruct HI as (h0 & Hw0 & HL & Hg). unfold HasReleased.
      destruct Hc as [h hm h' -> -> Hw He -> | r rm r' -> _ Hw He -> | d dm d' -> -> Hw He ->
                     | g gm g' -> -> Hw He -> | t cm t' -> -> Hw He -> | t cm t' -> -> Hw He ->
                     | sm e' -> -> He -> -> | -> -> ->]; cbn [w_hub set_hub set_reward set_disp
                        set_reg set_bsei set_stsei set_env] in *; try solve [exists h0; auto].
      rewrite Hw0 in Hw. inversion Hw; subst h. exists h'. split; [reflexivity|].
      split; [eapply life_inv_execute; eauto|].
      eapply released_immutable; [destruct HL as (X & _); exact X | exact He | exact Hg | left; exact e_released].
  Qed.

  Lemma step_has_released w o : keeps_hub o = true -> HasReleased w -> HasReleased (fst (step w o)).
  Proof.
    intros Hk HI. destruct o; try discriminate Hk; cbn [step]; try exact HI.
    - destruct (e_now (w_env w) + dt <=? 18446744073); exact HI.
    - destruct (ev_slash _ _ _ _ _); exact HI.
    - destruct (ev_accrue _ _ _ _ _); exact HI.
    - destruct (p =? 0); exact HI.
    - destruct HI as (h0 & Hw0 & HL & Hg). rewrite Hw0. cbn [fst]. eexists. split; [reflexivity|].
      split; [|exact Hg]. eapply life_inv_ext; [| | | |exact HL]; reflexivity.
    - destruct (run tx_fuel w _ []) as [[w1 tr1]|] eqn:E; cbn [fst]; [|exact HI].
      eapply (run_preserves HasReleased); [|exact HI|exact E]. intros. eapply step_msg_has_released; eauto.
  Qed.

  Theorem released_forever : forall ops w,
    forallb keeps_hub ops = true -> HasReleased w -> HasReleased (run_ops ops w).
  Proof.
    unfold run_ops. induction ops as [|o ops IH]; intros w Hk HI; cbn [fold_left]; [exact HI|].
    cbn [forallb] in Hk. apply andb_true_iff in Hk. destruct Hk as [Ho Hk].
    apply IH; [exact Hk|]. apply step_has_released; assumption.
  Qed.
End ReleasedForever.

(** ** concrete worlds: non-vacuity and the boundary second (worlds of ClaimsP.v: epoch 30 s,
    unbonding 100 s, batch 1 undelegated at t = 1000031) *)

Example example_life_nonvacuous :
  exists h e, w_hub cx_w3 = Some h /\ LifeInv h /\ cb_id (h_batch h) = 2 /\
    hs_lpb (h_state h) = 1 /\ hs_lut (h_state h) = 1000031 /\
    get N.eqb (h_hist h) 1 = Some e /\ he_time e = 1000031 /\ he_released e = true.
Proof.
  unfold cx_w3.
  destruct (w_hub (run_ops (cx_setup ++ cx_acts1 ++ cx_acts2 ++ cx_acts3) (empty_world 100))) as [h|] eqn:E;
    [|vm_compute in E; discriminate].
  pose proof (LifeInv_reachable 100 _ h E) as HI.
  vm_compute in E. inversion E; subst. eexists _, _. split; [reflexivity|]. split; [exact HI|].
  repeat split.
Qed.

(** at exactly 30 s after the last undelegation the batch stays open; one second later it closes
    and the Undelegate messages add up to the valued requests *)
Example example_epoch_boundary :
  (exists h h' out, let w := fst (step cx_w1 (OAdvance 30)) in
     w_hub w = Some h /\ e_now (w_env w) - hs_lut (h_state h) = hp_epoch (h_params h) /\
     hub_execute w h A_hub A_stsei [] (HReceive cx_bob 700 HkUnbond) = Some (h', out) /\
     cb_id (h_batch h') = 1 /\ out = [MWasm A_stsei (WCw20 (CBurn 700)) []]) /\
  (exists h h' out, let w := fst (step cx_w1 (OAdvance 31)) in
     w_hub w = Some h /\ e_now (w_env w) - hs_lut (h_state h) = hp_epoch (h_params h) + 1 /\
     hub_execute w h A_hub A_stsei [] (HReceive cx_bob 700 HkUnbond) = Some (h', out) /\
     cb_id (h_batch h') = 2 /\ undelegated_sum out = 35427).
Proof.
  split.
  - destruct (w_hub (fst (step cx_w1 (OAdvance 30)))) as [h|] eqn:E; [|vm_compute in E; discriminate].
    vm_compute in E. inversion E; subst h. clear E.
    eexists _, _, _. cbn zeta. split; [vm_compute; reflexivity|]. split; [vm_compute; reflexivity|].
    split; [vm_compute; reflexivity|]. vm_compute. repeat split.
  - destruct (w_hub (fst (step cx_w1 (OAdvance 31)))) as [h|] eqn:E; [|vm_compute in E; discriminate].
    vm_compute in E. inversion E; subst h. clear E.
    eexists _, _, _. cbn zeta. split; [vm_compute; reflexivity|]. split; [vm_compute; reflexivity|].
    split; [vm_compute; reflexivity|]. vm_compute. repeat split.
Qed.

(** one second before time + unbonding_period alice's withdrawal is rejected (nothing released,
    nothing to pay); at exactly time + unbonding_period it releases batch 1 and pays her *)
Example example_release_boundary :
  (let w := run_ops [OAdvance 99] cx_w2 in
   e_now (w_env w) = 1000031 + 100 - 1 /\
   step w (OTx cx_alice A_hub (WHub HWithdraw) []) = (w, (false, []))) /\
  (let w := run_ops [OAdvance 100] cx_w2 in
   e_now (w_env w) = 1000031 + 100 /\
   snd (step w (OTx cx_alice A_hub (WHub HWithdraw) []))
   = (true, [(cx_alice, MWasm A_hub (WHub HWithdraw) []); (A_hub, MBank cx_alice [(usei, 20816)])])).
Proof. split; vm_compute; split; reflexivity. Qed.

(** [release_at_boundary] is not vacuous: its hypotheses hold for the hub of that world *)
Example example_release_at_boundary_nonvacuous :
  exists h h' out e, let w := run_ops [OAdvance 100] cx_w2 in
    w_hub w = Some h /\ hub_execute w h A_hub cx_alice [] HWithdraw = Some (h', out) /\
    get N.eqb (h_hist h) (hs_lpb (h_state h) + 1) = Some e /\ he_released e = false /\
    he_time e + hp_unbonding (h_params h) = e_now (w_env w).
Proof.
  destruct (w_hub (run_ops [OAdvance 100] cx_w2)) as [h|] eqn:E; [|vm_compute in E; discriminate].
  vm_compute in E. inversion E; subst h. clear E.
  eexists _, _, _, _. cbn zeta. split; [vm_compute; reflexivity|]. split; [vm_compute; reflexivity|].
  vm_compute. repeat split.
Qed.

(** [undelegation_spacing], [release_not_early], [hist_entry_step] are not vacuous: 31 s after
    batch 1 was undelegated an stSei unbond closes batch 2; the two undelegation times are
    1000031 and 1000062 (epoch 30 s); batch 1 is unreleased and untouched (its unbonding period of
    100 s has not elapsed) *)
Definition cx_w2b : world :=
  run_ops (cx_setup ++ cx_acts1 ++ cx_acts2 ++ [OAdvance 31]) (empty_world 100).

Example example_second_batch_nonvacuous :
  exists h h' out e1 e2,
    w_hub cx_w2b = Some h /\ LifeInv h /\
    hub_execute cx_w2b h A_hub A_stsei [] (HReceive cx_bob 500 HkUnbond) = Some (h', out) /\
    cb_id (h_batch h) = 2 /\ cb_id (h_batch h') = 3 /\
    get N.eqb (h_hist h) 1 = Some e1 /\ he_released e1 = false /\
    e_now (w_env cx_w2b) < he_time e1 + hp_unbonding (h_params h) /\
    get N.eqb (h_hist h') 1 = Some e1 /\
    get N.eqb (h_hist h') 2 = Some e2 /\ he_time e1 = 1000031 /\ he_time e2 = 1000062 /\
    undelegated_sum out = 497.
Proof.
  unfold cx_w2b.
  destruct (w_hub (run_ops (cx_setup ++ cx_acts1 ++ cx_acts2 ++ [OAdvance 31]) (empty_world 100)))
    as [h|] eqn:E; [|vm_compute in E; discriminate].
  pose proof (LifeInv_reachable 100 _ h E) as HI.
  vm_compute in E. inversion E; subst h. clear E.
  eexists _, _, _, _, _. split; [reflexivity|]. split; [exact HI|].
  split; [vm_compute; reflexivity|]. vm_compute. repeat split.
Qed.
