(** * RemoveEnd: C13 at the END of the RemoveValidator transaction.

    - [emit_safe_*]       : no contract ever emits a registry message; only the registry emits
                            RedelegateProxy;
    - [step_msg_removed]  : once the validator is out of the registry and the hub has no delegation on
                            it, every executed message keeps both facts (bonds delegate only to
                            registered validators, redelegations only come from RedelegateProxy);
    - [remove_tx_end]     : after a successful RemoveValidator transaction (chain allows
                            redelegation): the validator is not registered, the registry is not empty,
                            the hub has no delegation entry on the validator;
    - [remove_tx_gap]     : and, starting within [Books], delegated - booked is unchanged;
    - [remove_tx_noredel] : when the hub has no delegation there, or the chain refuses redelegation,
                            the transaction only removes the registry entry. *)
From Krp Require Import Tactics Prelude Fixed FMap Types Env Registry Cw20 Reward Dispatcher Hub Exec
     ExecP Hist Inv RegistryP HubFrame HubAdmin BooksEnv BooksHub BooksP RemoveP.
Open Scope N_scope.

(** ** message kinds *)
Definition wasm_safe (m : cmsg) : Prop :=
  match m with
  | MWasm _ (WReg _) _ => False
  | MWasm _ (WHub (HRedelProxy _ _)) _ => False
  | _ => True
  end.

Lemma hub_execute_wasm_safe w h self sender funds hm h' out :
  hub_execute w h self sender funds hm = Some (h', out) -> Forall wasm_safe out.
Proof.
  unfold hub_execute. intros H. apply Forall_forall. intros m Hi.
  destruct hm.
  - check_inv H as Hp. apply bond_delegates_all in H.
    destruct H as (pay & h1 & g & _ & _ & _ & _ & _ & _ & _ & _ & _ & _ & Hall).
    destruct (Hall m Hi) as [(v & c & ->)|(tok & mint & ->)]; exact I.
  - check_inv H as Hp. apply bond_delegates_all in H.
    destruct H as (pay & h1 & g & _ & _ & _ & _ & _ & _ & _ & _ & _ & _ & Hall).
    destruct (Hall m Hi) as [(v & c & ->)|(tok & mint & ->)]; exact I.
  - check_inv H as Hp. apply bond_delegates_all in H.
    destruct H as (pay & h1 & g & _ & _ & _ & _ & _ & _ & _ & _ & _ & _ & Hall).
    destruct (Hall m Hi) as [(v & c & ->)|(tok & mint & ->)]; exact I.
  - check_inv H as Hp. apply execute_update_global_pools in H.
    destruct H as (_ & _ & d & hooks & _ & Hh & ->).
    apply in_app_or in Hi. destruct Hi as [Hi|Hi]; [destruct (Hh m Hi) as (a & ->); exact I|].
    apply in_app_or in Hi. destruct Hi as [Hi|Hi].
    + apply in_map_iff in Hi. destruct Hi as (x & <- & _). exact I.
    + destruct Hi as [<-|[<-|[]]]; exact I.
  - check_inv H as Hp. apply execute_withdraw_pools in H. destruct H as (_ & _ & amount & _ & _ & ->).
    destruct Hi as [<-|[]]. exact I.
  - check_inv H as Hp. bind_inv H as h1 Hh1. inversion H; subst. destruct Hi.
  - apply update_params_spec in H. destruct H as (_ & _ & _ & -> & _). destruct Hi.
  - check_inv H as Hp. unfold execute_update_config in H.
    check_inv H as C1. check_inv H as C2. check_inv H as C3. inversion H; subst.
    destruct disp; [|destruct Hi]. destruct Hi as [<-|[]]. exact I.
  - check_inv H as Hp. check_inv H as Hs. inversion H; subst. destruct Hi.
  - check_inv H as Hp. check_inv H as Hs. inversion H; subst. destruct Hi.
  - check_inv H as Hp. bind_inv H as reg Hreg. check_inv H as Hs. inversion H; subst.
    apply in_map_iff in Hi. destruct Hi as (x & <- & _). exact I.
  - check_inv H as Hp. check_inv H as Hs. bind_inv H as t Ht. check_inv H as Hb. inversion H; subst.
    destruct Hi as [<-|[]]. exact I.
  - check_inv H as Hp. bind_inv H as reg Hreg. check_inv H as Hs. inversion H; subst.
    destruct Hi as [<-|[<-|[]]]; exact I.
  - destruct (paused h); [|discriminate]. inversion H; subst. destruct Hi.
  - check_inv H as Hp. unfold receive_cw20 in H. bind_inv H as b Hb. bind_inv H as st Hst.
    destruct h0; [| |discriminate].
    + assert (S : exists msgs tok, out = msgs ++ [MWasm tok (WCw20 (CBurn amt)) []] /\
                                   forall m, In m msgs -> exists v c, m = MUndelegate v c).
      { destruct (sender =? b); [eapply execute_unbond_shape; eauto|].
        destruct (sender =? st); [eapply execute_unbond_stsei_shape; eauto|discriminate]. }
      destruct S as (msgs & tok & -> & Hm). apply in_app_or in Hi. destruct Hi as [Hi|[<-|[]]].
      * destruct (Hm m Hi) as (v & c & ->). exact I.
      * exact I.
    + assert (S : exists a b c d, out = [MWasm a (WCw20 b) []; MWasm c (WCw20 d) []]).
      { destruct (sender =? b); [eapply convert_shape; eauto|].
        destruct (sender =? st); [eapply convert_shape; eauto|discriminate]. }
      destruct S as (a1 & b1 & c1 & d1 & ->). destruct Hi as [<-|[<-|[]]]; exact I.
Qed.

(** messages of the other contracts: never a staking message, never a registry / proxy message *)
Definition other_safe (m : cmsg) : Prop := wasm_safe m /\ is_staking m = false.

Lemma other_safe_list l : Forall other_safe l <-> (forall m, In m l -> other_safe m).
Proof. apply Forall_forall. Qed.

Lemma reward_execute_safe w r self sender m r' out :
  reward_execute w r self sender m = Some (r', out) -> Forall other_safe out.
Proof.
  intros H. destruct m; cbn [reward_execute] in H.
  - bind_inv H as a1 E1. bind_inv H as a2 E2. bind_inv H as a3 E3. bind_inv H as a4 E4.
    check_inv H as Hz. bind_inv H as a5 E5. inversion H; subst.
    constructor; [split; [exact I|reflexivity]|constructor].
  - check_inv H as Hs. inversion H; subst. constructor.
  - check_inv H as Hs. inversion H; subst. constructor.
  - check_inv H as Hs. inversion H; subst. constructor.
  - bind_inv H as dp Hdp. check_inv H as Hs. inversion H; subst.
    apply Forall_forall. intros m Hi. apply in_flat_map in Hi. destruct Hi as (c & _ & Hi).
    destruct (existsb _ _ && _); [|contradiction]. destruct Hi as [<-|[]]. split; [exact I|reflexivity].
  - bind_inv H as dp Hdp. check_inv H as Hs. destruct (rw_total r =? 0); [inversion H; subst; constructor|].
    bind_inv H as a1 E1. bind_inv H as a2 E2. bind_inv H as a3 E3. inversion H; subst. constructor.
  - bind_inv H as tk Htk. check_inv H as Hs. bind_inv H as a1 E1. bind_inv H as a2 E2.
    bind_inv H as a3 E3. bind_inv H as a4 E4. inversion H; subst. constructor.
  - bind_inv H as tk Htk. check_inv H as Hs. check_inv H as Hle. bind_inv H as a1 E1. bind_inv H as a2 E2.
    bind_inv H as a3 E3. bind_inv H as a4 E4. inversion H; subst. constructor.
  - check_inv H as Hs. inversion H; subst. constructor.
Qed.

Lemma convert_loop_safe w dp : forall coins tsei tusd msgs r,
  convert_loop w dp coins tsei tusd msgs = Some r -> Forall other_safe msgs ->
  Forall other_safe (snd r).
Proof.
  induction coins as [|c coins IH]; intros tsei tusd msgs r H Hm; cbn [convert_loop] in H.
  - inversion H; subst. exact Hm.
  - destruct (negb (existsb (N.eqb (fst c)) (dp_denoms dp))); [eapply IH; eauto|].
    destruct (fst c =? dp_std dp); [bind_inv H as t Ht; eapply IH; eauto|].
    destruct (fst c =? dp_bd dp); [bind_inv H as t Ht; eapply IH; eauto|].
    destruct (negb (snd c =? 0)); [|eapply IH; eauto].
    check_inv H as Hsw. bind_inv H as ret Hret. bind_inv H as t Ht. eapply IH; [exact H|].
    apply Forall_app. split; [exact Hm|]. constructor; [split; [exact I|reflexivity]|constructor].
Qed.

Lemma disp_execute_safe w dp self sender m dp' out :
  disp_execute w dp self sender m = Some (dp', out) -> Forall other_safe out.
Proof.
  intros H. destruct m; cbn [disp_execute] in H.
  - check_inv H as Hs. bind_inv H as r Hr. pose proof (convert_loop_safe _ _ _ _ _ _ _ Hr (Forall_nil _)) as Hm.
    destruct r as [[tsei tusd] msgs]. cbn [snd] in Hm.
    check_inv H as Ho. bind_inv H as a1 E1. bind_inv H as a2 E2. bind_inv H as info E3.
    destruct info as [[od oa] ask]. inversion H; subst.
    destruct (oa =? 0); [exact Hm|]. apply Forall_app. split; [exact Hm|].
    constructor; [split; [exact I|reflexivity]|constructor].
  - check_inv H as Hs. bind_inv H as m1 E1. bind_inv H as m2 E2. inversion H; subst.
    apply Forall_app. split; [|apply Forall_app; split].
    + match type of E1 with context [if ?b then _ else _] => destruct b end; [inversion E1; subst; constructor|].
      bind_inv E1 as k Hk. bind_inv E1 as rest Hrest. inversion E1; subst.
      repeat (constructor; [split; [exact I|reflexivity]|]). constructor.
    + match type of E2 with context [if ?b then _ else _] => destruct b end; [inversion E2; subst; constructor|].
      bind_inv E2 as k Hk. bind_inv E2 as rebond Hrb. inversion E2; subst.
      constructor; [split; [exact I|reflexivity]|].
      destruct (rebond =? 0); [constructor|]. constructor; [split; [exact I|reflexivity]|constructor].
    + constructor; [split; [exact I|reflexivity]|constructor].
  - check_inv H as Hs. check_inv H as C1. check_inv H as C2. inversion H; subst. constructor.
  - check_inv H as Hs. inversion H; subst. constructor.
  - check_inv H as Hs. inversion H; subst. constructor.
  - check_inv H as Hs. inversion H; subst. constructor.
  - check_inv H as Hs. inversion H; subst. constructor.
  - check_inv H as Hs. inversion H; subst. constructor.
Qed.

Ltac safe_list := repeat (constructor; [split; [exact I|reflexivity]|]); constructor.

Lemma bsei_execute_safe w t sender m t' out :
  bsei_execute w t sender m = Some (t', out) -> Forall other_safe out.
Proof.
  unfold bsei_execute. intros H. destruct m.
  - bind_inv H as rc Hrc. check_inv H as Hz. bind_inv H as t1 Ht1. inversion H; subst. safe_list.
  - bind_inv H as rc Hrc. check_inv H as Hs. check_inv H as Hz. bind_inv H as t1 Ht1. inversion H; subst. safe_list.
  - bind_inv H as rc Hrc. bind_inv H as t1 Ht1. inversion H; subst. safe_list.
  - bind_inv H as rc Hrc. check_inv H as Hz. bind_inv H as t1 Ht1. inversion H; subst. safe_list.
  - bind_inv H as t1 Ht1. inversion H; subst. safe_list.
  - bind_inv H as t1 Ht1. inversion H; subst. safe_list.
  - bind_inv H as rc Hrc. bind_inv H as t1 Ht1. bind_inv H as t2 Ht2. inversion H; subst. safe_list.
  - bind_inv H as rc Hrc. bind_inv H as t1 Ht1. bind_inv H as t2 Ht2. inversion H; subst. safe_list.
  - bind_inv H as rc Hrc. bind_inv H as t1 Ht1. bind_inv H as t2 Ht2. inversion H; subst. safe_list.
  - discriminate.
Qed.

Lemma stsei_execute_safe w t sender m t' out :
  stsei_execute w t sender m = Some (t', out) -> Forall other_safe out.
Proof.
  unfold stsei_execute. intros H. destruct m.
  - check_inv H as Hz. bind_inv H as t1 Ht1. inversion H; subst. safe_list.
  - check_inv H as Hs. check_inv H as Hz. bind_inv H as t1 Ht1. inversion H; subst. safe_list.
  - bind_inv H as t1 Ht1. inversion H; subst. safe_list.
  - check_inv H as Hz. bind_inv H as t1 Ht1. inversion H; subst. safe_list.
  - bind_inv H as t1 Ht1. inversion H; subst. safe_list.
  - bind_inv H as t1 Ht1. inversion H; subst. safe_list.
  - bind_inv H as t1 Ht1. bind_inv H as t2 Ht2. inversion H; subst. safe_list.
  - bind_inv H as t1 Ht1. bind_inv H as t2 Ht2. inversion H; subst. safe_list.
  - bind_inv H as t1 Ht1. bind_inv H as t2 Ht2. inversion H; subst. safe_list.
  - destruct (tk_minter t) as [[mn cap]|]; [|discriminate]. check_inv H as Hs. inversion H; subst. safe_list.
Qed.

(** ** once removed, the validator stays without registry entry and without stake *)
Definition stk_safe (v : val) (sm : addr * cmsg) : Prop :=
  wasm_safe (snd sm) /\
  (fst sm = A_hub -> match snd sm with
                     | MDelegate v' _ => v' <> v
                     | MRedelegate _ _ _ => False
                     | _ => True
                     end).

Definition RemS (g' : registry) (v : val) (d0 : option N) (w : world) (stk : list (addr * cmsg)) : Prop :=
  w_reg w = Some g' /\ DelWf (w_env w) /\ delegation (w_env w) A_hub v = d0 /\ Forall (stk_safe v) stk.

Lemma stk_safe_other v (to : addr) o :
  to <> A_hub -> Forall other_safe o -> Forall (stk_safe v) (map (fun x => (to, x)) o).
Proof.
  intros Hne H. apply Forall_forall. intros sm Hi. apply in_map_iff in Hi. destruct Hi as (m & <- & Hm).
  destruct (proj1 (Forall_forall _ _) H m Hm) as [A _]. split; [exact A|]. cbn [fst]. intros E. contradiction.
Qed.

Lemma hub_delegate_targets w h self sender funds hm h' o v' c :
  hub_execute w h self sender funds hm = Some (h', o) -> In (MDelegate v' c) o ->
  exists g, w_reg w = Some g /\ In v' (rg_vals g).
Proof.
  intros H Hi. pose proof (hub_execute_emits _ _ _ _ _ _ _ _ H) as Hem.
  pose proof (proj1 (Forall_forall _ _) Hem _ Hi) as Hk. cbn [hub_emit_ok] in Hk.
  unfold hub_execute in H.
  destruct Hk as [->|[->| ->]]; check_inv H as Hp; apply bond_delegates_all in H;
    destruct H as (pay & h1 & g & _ & _ & _ & _ & Hg & _ & _ & _ & _ & Ht & _);
    exists g; (split; [exact Hg|apply (Ht v' c Hi)]).
Qed.

Lemma step_msg_removed g' v d0 w s m rest w' out :
  ~ In v (rg_vals g') -> (d0 = None \/ d0 = Some 0) ->
  RemS g' v d0 w ((s, m) :: rest) -> step_msg w s m = Some (w', out) -> RemS g' v d0 w' (out ++ rest).
Proof.
  intros Hnin Hd0 (Hreg & Hwf & Hdel & Hstk) H.
  pose proof (Forall_inv Hstk) as Hhead. pose proof (Forall_inv_tail Hstk) as Hrest. unfold RemS.
  destruct Hhead as [Hsafe Hhub]. cbn [fst snd] in Hsafe, Hhub.
  pose proof (step_msg_env_del _ _ _ _ _ H) as Henv.
  destruct m.
  - (* MWasm *)
    assert (Hd' : delegation (w_env w') A_hub v = d0) by (unfold delegation; rewrite Henv; exact Hdel).
    assert (Hwf' : DelWf (w_env w')) by (eapply DelWf_same_del; eauto).
    apply step_msg_inv in H. destruct H as [e' _ _ Hn | to' wm f e1 o Hm Hsend Hc ->]; [exfalso; eapply Hn; reflexivity|].
    inversion Hm; subst to' wm f. clear Hm.
    destruct Hc as [h hm h' -> -> Hw He -> | r rm r' -> _ Hw He -> | d dm d' -> -> Hw He ->
                   | g gm g0' -> -> Hw He -> | t cm t' -> -> Hw He -> | t cm t' -> -> Hw He ->
                   | sm e' -> -> He -> -> | -> -> ->];
      cbn [w_reg set_hub set_reward set_disp set_reg set_bsei set_stsei set_env] in *.
    + split; [exact Hreg|]. split; [exact Hwf'|]. split; [exact Hd'|].
      apply Forall_app. split; [|exact Hrest].
      pose proof (hub_execute_wasm_safe _ _ _ _ _ _ _ _ He) as Hws.
      pose proof (hub_execute_emits _ _ _ _ _ _ _ _ He) as Hem.
      apply Forall_forall. intros sm Hi. apply in_map_iff in Hi. destruct Hi as (m & <- & Hm).
      split; [apply (proj1 (Forall_forall _ _) Hws m Hm)|]. cbn [fst snd]. intros _.
      destruct m; try exact I.
      * destruct (hub_delegate_targets _ _ _ _ _ _ _ _ _ _ He Hm) as (g & Hg & Hin).
        cbn [w_reg set_env] in Hg. rewrite Hreg in Hg. inversion Hg; subst g. intros ->. contradiction.
      * pose proof (proj1 (Forall_forall _ _) Hem _ Hm) as Hk. cbn [hub_emit_ok] in Hk.
        destruct Hk as (l & ->). exact Hsafe.
    + split; [exact Hreg|]. split; [exact Hwf'|]. split; [exact Hd'|].
      apply Forall_app. split; [apply stk_safe_other; [neq_addr|eapply reward_execute_safe; eauto]|exact Hrest].
    + split; [exact Hreg|]. split; [exact Hwf'|]. split; [exact Hd'|].
      apply Forall_app. split; [apply stk_safe_other; [neq_addr|eapply disp_execute_safe; eauto]|exact Hrest].
    + contradiction.
    + split; [exact Hreg|]. split; [exact Hwf'|]. split; [exact Hd'|].
      apply Forall_app. split; [apply stk_safe_other; [neq_addr|eapply bsei_execute_safe; eauto]|exact Hrest].
    + split; [exact Hreg|]. split; [exact Hwf'|]. split; [exact Hd'|].
      apply Forall_app. split; [apply stk_safe_other; [neq_addr|eapply stsei_execute_safe; eauto]|exact Hrest].
    + split; [exact Hreg|]. split; [exact Hwf'|]. split; [exact Hd'|]. exact Hrest.
    + split; [exact Hreg|]. split; [exact Hwf'|]. split; [exact Hd'|]. exact Hrest.
  - cbn [step_msg] in H. bind_inv H as e1 He1. inversion H; subst w' out. cbn [w_reg w_env set_env app] in *.
    split; [exact Hreg|]. split; [eapply DelWf_same_del; eauto|].
    split; [unfold delegation; rewrite Henv; exact Hdel|exact Hrest].
  - (* MDelegate *)
    cbn [step_msg] in H. bind_inv H as e1 He1. inversion H; subst w' out. cbn [w_reg w_env set_env app] in *.
    apply do_delegate_spec in He1.
    destruct He1 as (_ & _ & _ & _ & _ & Hoth & _ & _ & _ & _ & _ & _ & _ & _ & _ & _ & Hwf').
    split; [exact Hreg|]. split; [apply Hwf'; exact Hwf|]. split; [|exact Hrest].
    rewrite Hoth; [exact Hdel|]. intros E. inversion E; subst. apply (Hhub eq_refl). reflexivity.
  - (* MUndelegate *)
    cbn [step_msg] in H. bind_inv H as e1 He1. inversion H; subst w' out. cbn [w_reg w_env set_env app] in *.
    apply do_undelegate_spec in He1; [|exact Hwf].
    destruct He1 as (_ & Hpos & Hle & _ & _ & Hoth & _ & _ & _ & _ & _ & _ & _ & _ & _ & Hwf').
    split; [exact Hreg|]. split; [exact Hwf'|]. split; [|exact Hrest].
    rewrite Hoth; [exact Hdel|]. intros E. injection E as E1 E2.
    unfold dv in Hle. rewrite <- E1, <- E2, Hdel in Hle. destruct Hd0 as [->| ->]; lia.
  - (* MRedelegate *)
    cbn [step_msg] in H. bind_inv H as e1 He1. inversion H; subst w' out. cbn [w_reg w_env set_env app] in *.
    apply do_redelegate_spec in He1; [|exact Hwf].
    destruct He1 as (_ & _ & _ & _ & _ & _ & _ & _ & Hoth & _ & _ & _ & _ & _ & _ & _ & _ & _ & _ & Hwf').
    split; [exact Hreg|]. split; [exact Hwf'|]. split; [|exact Hrest].
    rewrite Hoth; [exact Hdel| |]; intros E; inversion E; subst; apply (Hhub eq_refl).
  - cbn [step_msg] in H. bind_inv H as e1 He1. inversion H; subst w' out. cbn [w_reg w_env set_env app] in *.
    split; [exact Hreg|]. split; [eapply DelWf_same_del; eauto|].
    split; [unfold delegation; rewrite Henv; exact Hdel|exact Hrest].
  - cbn [step_msg] in H. inversion H; subst w' out. cbn [w_reg w_env set_env app] in *.
    split; [exact Hreg|]. split; [eapply DelWf_same_del; eauto|].
    split; [unfold delegation; rewrite Henv; exact Hdel|exact Hrest].
Qed.

(** C13 at the end of the transaction *)
Theorem remove_tx_end w sender v funds w' tr g amt :
  DelWf (w_env w) -> w_reg w = Some g -> rg_hub g = A_hub ->
  delegation (w_env w) A_hub v = Some amt -> can_redelegate (w_env w) v = true ->
  run tx_fuel w [(sender, MWasm A_reg (WReg (GRemove v)) funds)] [] = Some (w', tr) ->
  exists g',
    sender = rg_owner g /\ w_reg w' = Some g' /\ rg_vals g' = remove_val v (rg_vals g) /\
    ~ In v (rg_vals g') /\ rg_vals g' <> [] /\
    dv (w_env w') A_hub v = 0 /\ (0 < amt -> delegation (w_env w') A_hub v = None).
Proof.
  intros Hwf Hg Hhub Hdel Hcan H.
  destruct (remove_tx_decompose _ _ _ _ _ _ _ _ Hwf Hg Hhub Hdel Hcan H)
    as (g' & redels & w2 & fuel2 & Hown & Hvals & Hnin & Hne & _ & _ & _ & Hreg2 & _ & Hwf2 & Hdv2 & Hnone2 & _ & _ & Hrun).
  assert (Hd0 : delegation (w_env w2) A_hub v = None \/ delegation (w_env w2) A_hub v = Some 0).
  { unfold dv in Hdv2. destruct (delegation (w_env w2) A_hub v) as [a|]; [right; f_equal; exact Hdv2|left; reflexivity]. }
  assert (R : RemS g' v (delegation (w_env w2) A_hub v) w' []).
  { eapply (run_preserves_stack (RemS g' v (delegation (w_env w2) A_hub v))); [| |exact Hrun].
    - intros. eapply step_msg_removed; eauto.
    - split; [exact Hreg2|]. split; [exact Hwf2|]. split; [reflexivity|].
      constructor; [|constructor]. split; [exact I|]. cbn [fst snd]. intros _. exact I. }
  destruct R as (R1 & _ & R3 & _).
  exists g'. splits; auto.
  - unfold dv. rewrite R3. exact Hdv2.
  - intros Hpos. rewrite R3. apply Hnone2. exact Hpos.
Qed.

(** C13: the hub's total delegated stake changes only by what the appended UpdateGlobalIndex
    re-bonds — delegated minus booked is the same before and after the removal transaction *)
Theorem remove_tx_gap w sender v funds w' tr h h' :
  DelWf (w_env w) -> w_hub w = Some h -> hp_underlying (h_params h) = usei ->
  booked h <= delegated (w_env w) A_hub ->
  run tx_fuel w [(sender, MWasm A_reg (WReg (GRemove v)) funds)] [] = Some (w', tr) ->
  w_hub w' = Some h' ->
  booked h' <= delegated (w_env w') A_hub /\
  delegated (w_env w') A_hub - booked h' = delegated (w_env w) A_hub - booked h.
Proof. intros. eapply tx_gap_preserved; eauto. Qed.

(** if the hub has no delegation on the validator, or the chain refuses the redelegation of a
    positive stake, the transaction only removes the registry entry: no message is emitted *)
Theorem remove_tx_noredel w sender v funds w' tr g :
  w_reg w = Some g -> rg_hub g = A_hub ->
  (delegation (w_env w) A_hub v = None \/
   exists amt, delegation (w_env w) A_hub v = Some amt /\ 0 < amt /\ can_redelegate (w_env w) v = false) ->
  run tx_fuel w [(sender, MWasm A_reg (WReg (GRemove v)) funds)] [] = Some (w', tr) ->
  exists g', sender = rg_owner g /\ w_reg w' = Some g' /\ rg_vals g' = remove_val v (rg_vals g) /\
    ~ In v (rg_vals g') /\ rg_vals g' <> [] /\
    w_hub w' = w_hub w /\ e_del (w_env w') = e_del (w_env w) /\
    tr = [(sender, MWasm A_reg (WReg (GRemove v)) funds)].
Proof.
  intros Hg Hhub Hcase H.
  apply run_cons_inv in H. destruct H as (f1 & w1 & out1 & _ & Hs1 & H). cbn [app] in H.
  apply step_msg_inv in Hs1.
  destruct Hs1 as [e' _ _ Hn | to wm fs e1 o Hm Hsend Hc ->]; [exfalso; eapply Hn; reflexivity|].
  inversion Hm; subst to wm fs. clear Hm.
  pose proof (send_coins_static _ _ _ _ _ Hsend) as (_ & _ & Hdel1 & _ & _ & Hnr1).
  assert (Hc' : exists g', reg_execute (set_env w e1) g sender (GRemove v) = Some (g', o) /\
                           w1 = set_reg (set_env w e1) g').
  { destruct Hc as [h hm h' E1 E2 Hw He -> | r rm r' E1 E2 Hw He -> | d dm d' E1 E2 Hw He ->
                   | g0 gm g' E1 E2 Hw He -> | t cm t' E1 E2 Hw He -> | t cm t' E1 E2 Hw He ->
                   | sm e' E1 E2 He -> -> | E1 -> ->];
      try (vm_compute in E1; discriminate E1).
    inversion E2; subst gm. cbn [w_reg set_env] in Hw. rewrite Hg in Hw. inversion Hw; subst g0. eauto. }
  clear Hc. destruct Hc' as (g' & Hre & ->).
  apply reg_remove_spec in Hre.
  destruct Hre as (Hown & Hvals & Hnin & Hne & _ & Hhub' & _ & Hmsgs). rewrite Hhub in Hhub'.
  apply reg_redelegate_msgs_spec in Hmsgs. rewrite Hhub' in Hmsgs. cbn [w_env set_env] in Hmsgs.
  assert (Ho : o = []).
  { destruct Hcase as [Hn|(amt & Hd & Hpos & Hc)].
    - assert (Hd1 : delegation e1 A_hub v = None) by (unfold delegation; rewrite Hdel1; exact Hn).
      rewrite Hd1 in Hmsgs. exact Hmsgs.
    - assert (Hd1 : delegation e1 A_hub v = Some amt) by (unfold delegation; rewrite Hdel1; exact Hd).
      assert (Hc1 : can_redelegate e1 v = false) by (unfold can_redelegate; rewrite Hnr1; exact Hc).
      rewrite Hd1 in Hmsgs. apply Hmsgs. auto. }
  subst o. cbn [map app] in H.
  assert (Hfin : w' = set_reg (set_env w e1) g' /\ tr = [(sender, MWasm A_reg (WReg (GRemove v)) funds)])
    by (destruct f1; cbn [run] in H; inversion H; auto).
  destruct Hfin as [-> ->].
  exists g'. cbn [w_reg w_hub w_env set_reg set_env]. splits; auto.
Qed.

(** C13: subsequent bonds are delegated only to validators that are registered at that moment — in
    particular never to a validator that has been removed and not re-added *)
Theorem later_bonds_avoid_removed w h self sender funds k h' out g v :
  execute_bond w h self sender funds k = Some (h', out) ->
  w_reg w = Some g -> ~ In v (rg_vals g) ->
  forall v' c, In (MDelegate v' c) out -> In v' (rg_vals g) /\ v' <> v.
Proof.
  intros H Hg Hnin v' c Hi. apply bond_delegates_all in H.
  destruct H as (pay & h1 & g0 & _ & _ & _ & _ & Hg0 & _ & _ & _ & _ & Ht & _).
  rewrite Hg in Hg0. inversion Hg0; subst g0. destruct (Ht v' c Hi) as (A & _).
  split; [exact A|]. intros ->. contradiction.
Qed.

(** C13 along histories: the removal may happen at any point of any operation history (pending
    rewards, open and in-flight unbonding batches, earlier slashing, earlier removals / re-additions) *)
Theorem remove_tx_end_reachable ut ops sender v funds w' tr g amt :
  let w := run_ops ops (empty_world ut) in
  w_reg w = Some g -> rg_hub g = A_hub ->
  delegation (w_env w) A_hub v = Some amt -> can_redelegate (w_env w) v = true ->
  run tx_fuel w [(sender, MWasm A_reg (WReg (GRemove v)) funds)] [] = Some (w', tr) ->
  exists g',
    sender = rg_owner g /\ w_reg w' = Some g' /\ rg_vals g' = remove_val v (rg_vals g) /\
    ~ In v (rg_vals g') /\ rg_vals g' <> [] /\
    dv (w_env w') A_hub v = 0 /\ (0 < amt -> delegation (w_env w') A_hub v = None).
Proof.
  intros w Hg Hhub Hdel Hcan H. eapply remove_tx_end; eauto. apply (EntWf_reachable ut ops).
Qed.
