(** * PauseHistFlag (helper of PauseHist, C11 at world / history level, part 3a):
    the hub handlers never read the stored pause flag except through [paused] at the dispatch gate,
    and never write it except in UpdateParams (the message's option) and in the final page of the
    legacy migration ([Some false]).

    - [F_wp] for every handler [F] of Model/Hub.v:
        [F w (with_paused h pz) args = option_map (re-attach pz) (F w h args)];
    - [hub_execute_wp]: the same for [hub_execute] on every message other than UpdateParams /
      MigrateUnbondWaitList, when [pz] reads as the same boolean as the stored flag;
    - [update_params_wp]: UpdateParams forgets the old flag altogether;
    - [hub_eqv h h']: equal except for the REPRESENTATION of the flag ([None] vs [Some false]);
      an equivalence; [hub_execute_sim]: [hub_execute] maps equivalent hubs to equivalent hubs, with
      the same outcome (fail / succeed) and exactly the same emitted messages, for EVERY message;
    - [hub_queries_eqv]: all hub queries agree on equivalent hubs. *)
From Krp Require Import Tactics Prelude Fixed FMap Types Env Registry Cw20 Reward Dispatcher Hub Exec
     ExecP Hist HubFrame HubAdmin Auth Pause MirrorWire PauseHistFrozen.
Open Scope N_scope.

Notation wp pz := (fun x : hub => with_paused x pz).
Notation wpp pz := (fun r : hub * list cmsg => (with_paused (fst r) pz, snd r)).

Ltac hproj :=
  cbn [with_paused fst snd set_h_params set_h_state set_h_batch set_h_wait set_h_hist set_h_cfg
       set_h_newowner set_h_oldwait h_cfg h_state h_params h_batch h_newowner h_wait h_hist h_oldwait
       hp_epoch hp_underlying hp_unbonding hp_pegfee hp_thr hp_rdenom hp_paused].

Ltac unify_sides m m' := first [constr_eq m m' | (replace m' with m by reflexivity)].

Lemma slashing_wp w self h pz :
  slashing w self (with_paused h pz) = option_map (wp pz) (slashing w self h).
Proof.
  unfold slashing.
  change (query_actual_state w self (with_paused h pz)) with (query_actual_state w self h).
  destruct (query_actual_state w self h); reflexivity.
Qed.


Ltac wp_step sub pz :=
  lazymatch goal with
  | |- None = None => reflexivity
  | |- Some _ = Some _ => reflexivity
  | |- None = option_map _ None => reflexivity
  | |- Some _ = option_map _ (Some _) => reflexivity
  | |- bind (option_map _ ?m) _ = option_map _ (bind ?m' _) =>
      unify_sides m m'; destruct m; cbn [bind option_map]; hproj
  | |- bind ?m _ = option_map _ (bind ?m' _) =>
      first [ sub pz | unify_sides m m'; destruct m; cbn [bind option_map]; hproj ]
  | |- (if ?b then _ else _) = option_map _ (if ?b' then _ else _) =>
      unify_sides b b'; destruct b; hproj
  | |- match ?x with _ => _ end = option_map _ (match ?x' with _ => _ end) =>
      unify_sides x x'; destruct x; hproj
  | |- _ = option_map _ (match ?x with _ => _ end) => destruct x; hproj
  end.

Ltac sub0 pz :=
  lazymatch goal with
  | |- bind (slashing _ _ ?X) _ = option_map _ (bind (slashing _ _ ?X') _) =>
      change X with (with_paused X' pz); rewrite slashing_wp
  end.

Lemma execute_bond_wp w h self sender funds k pz :
  execute_bond w (with_paused h pz) self sender funds k =
  option_map (wpp pz) (execute_bond w h self sender funds k).
Proof. unfold execute_bond. hproj. repeat wp_step sub0 pz. Qed.

Lemma add_wait_wp h u b is_b amt pz :
  add_wait (with_paused h pz) u b is_b amt = option_map (wp pz) (add_wait h u b is_b amt).
Proof. unfold add_wait. hproj. repeat wp_step sub0 pz. Qed.

Ltac sub1 pz :=
  lazymatch goal with
  | |- bind (slashing _ _ ?X) _ = option_map _ (bind (slashing _ _ ?X') _) =>
      change X with (with_paused X' pz); rewrite slashing_wp
  | |- bind (add_wait ?X _ _ _ _) _ = option_map _ (bind (add_wait ?X' _ _ _ _) _) =>
      change X with (with_paused X' pz); rewrite add_wait_wp
  end.


Lemma process_undelegations_wp w self h pz :
  process_undelegations w self (with_paused h pz) =
  option_map (wpp pz) (process_undelegations w self h).
Proof. unfold process_undelegations. hproj. repeat wp_step sub1 pz. Qed.

Lemma maybe_undelegate_wp w self h pz :
  maybe_undelegate w self (with_paused h pz) = option_map (wpp pz) (maybe_undelegate w self h).
Proof.
  unfold maybe_undelegate. hproj. repeat wp_step sub1 pz. apply process_undelegations_wp.
Qed.

Ltac sub2 pz :=
  lazymatch goal with
  | |- bind (slashing _ _ ?X) _ = option_map _ (bind (slashing _ _ ?X') _) =>
      change X with (with_paused X' pz); rewrite slashing_wp
  | |- bind (add_wait ?X _ _ _ _) _ = option_map _ (bind (add_wait ?X' _ _ _ _) _) =>
      change X with (with_paused X' pz); rewrite add_wait_wp
  | |- bind (maybe_undelegate _ _ ?X) _ = option_map _ (bind (maybe_undelegate _ _ ?X') _) =>
      change X with (with_paused X' pz); rewrite maybe_undelegate_wp
  end.



Lemma execute_unbond_wp w h self amount user pz :
  execute_unbond w (with_paused h pz) self amount user =
  option_map (wpp pz) (execute_unbond w h self amount user).
Proof. unfold execute_unbond. hproj. repeat wp_step sub2 pz. Qed.

Lemma execute_unbond_stsei_wp w h self amount user pz :
  execute_unbond_stsei w (with_paused h pz) self amount user =
  option_map (wpp pz) (execute_unbond_stsei w h self amount user).
Proof. unfold execute_unbond_stsei. hproj. repeat wp_step sub2 pz. Qed.

Lemma process_withdraw_rate_wp h historical hub_balance pz :
  process_withdraw_rate (with_paused h pz) historical hub_balance =
  option_map (wp pz) (process_withdraw_rate h historical hub_balance).
Proof. unfold process_withdraw_rate. hproj. repeat wp_step sub2 pz. Qed.

Ltac sub3 pz :=
  lazymatch goal with
  | |- bind (slashing _ _ ?X) _ = option_map _ (bind (slashing _ _ ?X') _) =>
      change X with (with_paused X' pz); rewrite slashing_wp
  | |- bind (process_withdraw_rate ?X _ _) _ = option_map _ (bind (process_withdraw_rate ?X' _ _) _) =>
      change X with (with_paused X' pz); rewrite process_withdraw_rate_wp
  end.


Lemma execute_withdraw_wp w h self sender pz :
  execute_withdraw w (with_paused h pz) self sender =
  option_map (wpp pz) (execute_withdraw w h self sender).
Proof. unfold execute_withdraw. hproj. repeat wp_step sub3 pz. Qed.

Lemma convert_stsei_bsei_wp w h self amount user pz :
  convert_stsei_bsei w (with_paused h pz) self amount user =
  option_map (wpp pz) (convert_stsei_bsei w h self amount user).
Proof. unfold convert_stsei_bsei. hproj. repeat wp_step sub2 pz. Qed.

Lemma convert_bsei_stsei_wp w h self amount user pz :
  convert_bsei_stsei w (with_paused h pz) self amount user =
  option_map (wpp pz) (convert_bsei_stsei w h self amount user).
Proof. unfold convert_bsei_stsei. hproj. repeat wp_step sub2 pz. Qed.

Lemma receive_cw20_wp w h self sender user amount hk pz :
  receive_cw20 w (with_paused h pz) self sender user amount hk =
  option_map (wpp pz) (receive_cw20 w h self sender user amount hk).
Proof.
  unfold receive_cw20. hproj. repeat wp_step sub2 pz;
    first [ apply execute_unbond_wp | apply execute_unbond_stsei_wp
          | apply convert_bsei_stsei_wp | apply convert_stsei_bsei_wp ].
Qed.

Lemma execute_update_global_wp w h self sender n pz :
  execute_update_global w (with_paused h pz) self sender n =
  option_map (wpp pz) (execute_update_global w h self sender n).
Proof. unfold execute_update_global. hproj. repeat wp_step sub2 pz. Qed.

Lemma execute_update_config_wp h sender a b c d e f g pz :
  execute_update_config (with_paused h pz) sender a b c d e f g =
  option_map (wpp pz) (execute_update_config h sender a b c d e f g).
Proof. unfold execute_update_config. hproj. repeat wp_step sub2 pz. Qed.

(** UpdateParams does not read the old flag at all *)
Lemma update_params_wp h sender a b c d z f pz :
  execute_update_params (with_paused h pz) sender a b c d z f =
  execute_update_params h sender a b c d z f.
Proof.
  unfold execute_update_params. hproj.
  destruct (sender =? hc_creator (h_cfg h)); [|reflexivity].
  destruct (match c with Some f0 => f0 <=? D | None => true end); [|reflexivity].
  destruct (match z with Some true => true | _ => match h_oldwait h with [] => true | _ => false end end);
    reflexivity.
Qed.

(** ** the dispatch gate *)
Definition flag_val (pz : option bool) : bool := match pz with Some b => b | None => false end.

Lemma paused_wp h pz : paused (with_paused h pz) = flag_val pz.
Proof. reflexivity. Qed.

Lemma hub_execute_wp w h self sender funds m pz :
  exempt_hub_msg m = false -> flag_val pz = paused h ->
  hub_execute w (with_paused h pz) self sender funds m =
  option_map (wpp pz) (hub_execute w h self sender funds m).
Proof.
  intros Hm Hf. unfold hub_execute.
  destruct m; try discriminate Hm; rewrite paused_wp, Hf; destruct (paused h); cbn [negb];
    try reflexivity;
    first [ apply execute_bond_wp | apply execute_update_global_wp | apply execute_withdraw_wp
          | apply execute_update_config_wp | apply receive_cw20_wp
          | hproj; repeat wp_step sub0 pz ].
Qed.

Lemma hub_execute_params_kept w h self sender funds m h1 out :
  exempt_hub_msg m = false -> hub_execute w h self sender funds m = Some (h1, out) ->
  h_params h1 = h_params h.
Proof.
  intros Hm H. destruct (is_admin_msg m) eqn:Ha.
  - unfold hub_execute in H. destruct m; try discriminate Ha; try discriminate Hm.
    + check_inv H as Hp. apply update_config_spec in H. tauto.
    + check_inv H as Hp. check_inv H as Hs. inversion H; subst. reflexivity.
    + check_inv H as Hp. check_inv H as Hs. inversion H; subst. reflexivity.
  - apply hub_execute_static in H; [|exact Ha]. unfold static_eq in H. tauto.
Qed.

(** ** hubs that differ only in the representation of the flag *)
Definition hub_eqv (h h' : hub) : Prop :=
  with_paused h None = with_paused h' None /\ paused h = paused h'.

Lemma hub_eqv_refl h : hub_eqv h h.
Proof. split; reflexivity. Qed.
Lemma hub_eqv_sym h h' : hub_eqv h h' -> hub_eqv h' h.
Proof. intros [A B]. split; congruence. Qed.
Lemma hub_eqv_trans a b c : hub_eqv a b -> hub_eqv b c -> hub_eqv a c.
Proof. intros [A B] [A' B']. split; congruence. Qed.

Lemma with_paused_self h : with_paused h (hp_paused (h_params h)) = h.
Proof. destruct h as [c s [a1 a2 a3 a4 a5 a6 a7] b n wt hi ow]. reflexivity. Qed.

Lemma hub_eqv_repr h h' : hub_eqv h h' -> h' = with_paused h (hp_paused (h_params h')).
Proof.
  intros [E _]. rewrite <- (with_paused_self h') at 1.
  rewrite <- (with_paused_twice h' None), <- E, with_paused_twice. reflexivity.
Qed.

Lemma hub_eqv_wp h pz : flag_val pz = paused h -> hub_eqv h (with_paused h pz).
Proof. intros Hf. split; [reflexivity | rewrite paused_wp; congruence]. Qed.

Lemma hub_eqv_paused_true h h' : hub_eqv h h' -> paused h = true -> h' = h.
Proof.
  intros He Hp. pose proof (hub_eqv_repr _ _ He) as R. destruct He as [_ Hb].
  rewrite Hp in Hb. unfold paused in Hp, Hb.
  destruct (hp_paused (h_params h)) as [[|]|] eqn:E1; try discriminate Hp.
  destruct (hp_paused (h_params h')) as [[|]|] eqn:E2; try discriminate Hb.
  rewrite R, <- E1. apply with_paused_self.
Qed.

Definition agree {A B} (R : A -> A -> Prop) (r1 r2 : result (A * B)) : Prop :=
  match r1, r2 with
  | Some (a1, b1), Some (a2, b2) => R a1 a2 /\ b1 = b2
  | None, None => True
  | _, _ => False
  end.

Lemma agree_refl {A B} (R : A -> A -> Prop) (r : result (A * B)) :
  (forall a, R a a) -> agree R r r.
Proof. intros HR. destruct r as [[a b]|]; cbn; auto. Qed.

(** [hub_execute] respects the equivalence, for every message, sender and payload *)
Theorem hub_execute_sim w h h' self sender funds m :
  hub_eqv h h' ->
  agree hub_eqv (hub_execute w h self sender funds m) (hub_execute w h' self sender funds m).
Proof.
  intros He. pose proof (hub_eqv_repr _ _ He) as R.
  destruct (exempt_hub_msg m) eqn:X.
  - destruct m; try discriminate X.
    + rewrite R. unfold hub_execute. rewrite update_params_wp.
      apply agree_refl. apply hub_eqv_refl.
    + destruct (paused h) eqn:Hp.
      * rewrite (hub_eqv_paused_true _ _ He Hp). apply agree_refl. apply hub_eqv_refl.
      * destruct He as [_ Hb]. unfold hub_execute. rewrite <- Hb, Hp. exact I.
  - destruct He as [_ Hb]. rewrite R, hub_execute_wp; [|exact X|].
    + destruct (hub_execute w h self sender funds m) as [[h1 o]|] eqn:E; cbn [option_map agree fst snd];
        [|exact I].
      split; [|reflexivity]. apply hub_eqv_wp.
      pose proof (hub_execute_params_kept _ _ _ _ _ _ _ _ X E) as Hk.
      unfold paused at 1. rewrite Hk. fold (paused h). rewrite Hb. reflexivity.
    + rewrite Hb. reflexivity.
Qed.

(** every query of the hub except the raw stored flag agrees on equivalent hubs *)
Theorem hub_queries_eqv w self h h' u start limit :
  hub_eqv h h' ->
  query_actual_state w self h = query_actual_state w self h' /\
  hub_query_history h start limit = hub_query_history h' start limit /\
  user_waits h u = user_waits h' u /\ finished_amount h u = finished_amount h' u /\
  h_cfg h = h_cfg h' /\ h_state h = h_state h' /\ h_batch h = h_batch h' /\
  h_newowner h = h_newowner h' /\ h_wait h = h_wait h' /\ h_hist h = h_hist h' /\
  h_oldwait h = h_oldwait h' /\
  hp_epoch (h_params h) = hp_epoch (h_params h') /\
  hp_underlying (h_params h) = hp_underlying (h_params h') /\
  hp_unbonding (h_params h) = hp_unbonding (h_params h') /\
  hp_pegfee (h_params h) = hp_pegfee (h_params h') /\
  hp_thr (h_params h) = hp_thr (h_params h') /\
  hp_rdenom (h_params h) = hp_rdenom (h_params h') /\
  paused h = paused h'.
Proof.
  intros He. pose proof (hub_eqv_repr _ _ He) as R. destruct He as [_ Hb].
  rewrite R. repeat split. exact Hb.
Qed.
