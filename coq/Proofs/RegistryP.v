(** * RegistryP: the stake-distribution plans (C12) *)
From Krp Require Import Tactics Prelude Fixed Types Registry.
Ltac Zify.zify_post_hook ::= Z.div_mod_to_equations.
Open Scope N_scope.

Section Plans.
  Variables cpv rem : N.

  (** target stake of the validator at 0-based index [i] *)
  Definition tgt (i : N) : N := cpv + (if i + 1 <=? rem then 1 else 0).

  (** capacity of a suffix: what the loop can still place / take *)
  Fixpoint dcap (i : N) (ds : list N) : N :=
    match ds with [] => 0 | d :: r => (tgt i - d) + dcap (i + 1) r end.
  Fixpoint ucap (i : N) (ds : list N) : N :=
    match ds with [] => 0 | d :: r => (d - tgt i) + ucap (i + 1) r end.
  Fixpoint tsum (i : N) (m : nat) : N :=
    match m with O => 0 | S m' => tgt i + tsum (i + 1) m' end.

  Lemma sumN_zeros {A} (l : list A) : sumN (map (fun _ => 0) l) = 0.
  Proof. induction l; simpl; lia. Qed.

  (** what [deleg_loop] does, exactly *)
  Lemma deleg_loop_spec ds : forall i a,
    let r := deleg_loop cpv rem i ds a in
    fst r = a - N.min a (dcap i ds) /\ sumN (snd r) = N.min a (dcap i ds) /\
    length (snd r) = length ds.
  Proof.
    induction ds as [|d ds IH]; intros i a; cbn [deleg_loop dcap].
    - cbn. repeat split; lia.
    - fold (tgt i).
      destruct (tgt i <? d) eqn:Hlt.
      + specialize (IH (i + 1) a).
        destruct (deleg_loop cpv rem (i + 1) ds a) as [a' xs]. cbn [fst snd] in *.
        destruct IH as (H1 & H2 & H3).
        assert (tgt i - d = 0) by lia.
        cbn [sumN length]. repeat split; lia.
      + destruct (a - N.min (tgt i - d) a =? 0) eqn:Hz.
        * cbn [fst snd sumN length]. rewrite sumN_zeros, map_length. repeat split; lia.
        * specialize (IH (i + 1) (a - N.min (tgt i - d) a)).
          destruct (deleg_loop cpv rem (i + 1) ds (a - N.min (tgt i - d) a)) as [a' xs].
          cbn [fst snd] in *. destruct IH as (H1 & H2 & H3).
          cbn [sumN length]. repeat split; lia.
  Qed.

  (** per-validator bounds of [deleg_loop] *)
  Lemma deleg_loop_bounds ds : forall i a j,
    nth j (snd (deleg_loop cpv rem i ds a)) 0 <= tgt (i + N.of_nat j) - nth j ds 0.
  Proof.
    induction ds as [|d ds IH]; intros i a j; cbn [deleg_loop].
    - cbn. destruct j; cbn; lia.
    - fold (tgt i).
      destruct (tgt i <? d) eqn:Hlt.
      + specialize (IH (i + 1) a).
        destruct (deleg_loop cpv rem (i + 1) ds a) as [a' xs]. cbn [fst snd] in *.
        destruct j as [|j]; cbn [nth].
        * lia.
        * specialize (IH j). replace (i + N.of_nat (S j)) with (i + 1 + N.of_nat j) by lia. exact IH.
      + destruct (a - N.min (tgt i - d) a =? 0) eqn:Hz.
        * cbn [fst snd]. destruct j as [|j]; cbn [nth].
          -- replace (i + N.of_nat 0) with i by lia. lia.
          -- assert (Hn : nth j (map (fun _ : N => 0) ds) 0 = 0).
             { clear. revert j. induction ds; intros [|j]; cbn; auto. }
             rewrite Hn. lia.
        * specialize (IH (i + 1) (a - N.min (tgt i - d) a)).
          destruct (deleg_loop cpv rem (i + 1) ds (a - N.min (tgt i - d) a)) as [a' xs].
          cbn [fst snd] in *. destruct j as [|j]; cbn [nth].
          -- replace (i + N.of_nat 0) with i by lia. lia.
          -- specialize (IH j). replace (i + N.of_nat (S j)) with (i + 1 + N.of_nat j) by lia. exact IH.
  Qed.

  Lemma dcap_ge ds : forall i, tsum i (length ds) <= dcap i ds + sumN ds.
  Proof.
    induction ds as [|d ds IH]; intros i; cbn [dcap tsum sumN length]; [lia|].
    specialize (IH (i + 1)). lia.
  Qed.

  Lemma ucap_ge ds : forall i, sumN ds <= ucap i ds + tsum i (length ds).
  Proof.
    induction ds as [|d ds IH]; intros i; cbn [ucap tsum sumN length]; [lia|].
    specialize (IH (i + 1)). lia.
  Qed.

  Lemma tsum_eq m : forall i,
    tsum i m = N.of_nat m * cpv + (N.min rem (i + N.of_nat m) - N.min rem i).
  Proof.
    induction m as [|m IH]; intros i; cbn [tsum].
    - lia.
    - rewrite IH. unfold tgt. destruct (i + 1 <=? rem) eqn:E; lia.
  Qed.

  (** what one pass of the undelegation loop does *)
  Lemma undeleg_pass_spec ds : forall i a,
    let r := undeleg_pass cpv rem i ds a in
    fst (fst r) = a - N.min a (ucap i ds) /\ sumN (snd (fst r)) = N.min a (ucap i ds) /\
    length (snd (fst r)) = length ds.
  Proof.
    induction ds as [|d ds IH]; intros i a; cbn [undeleg_pass ucap].
    - cbn. repeat split; lia.
    - fold (tgt i).
      assert (Hm : d - N.min (tgt i) d = d - tgt i) by lia. rewrite Hm.
      destruct (a - N.min (d - tgt i) a =? 0) eqn:Hz.
      + cbn [fst snd sumN length]. rewrite sumN_zeros, map_length. repeat split; lia.
      + specialize (IH (i + 1) (a - N.min (d - tgt i) a)).
        destruct (undeleg_pass cpv rem (i + 1) ds (a - N.min (d - tgt i) a)) as [[a' ys] ds'].
        cbn [fst snd] in *. destruct IH as (H1 & H2 & H3).
        cbn [sumN length]. repeat split; lia.
  Qed.

  Lemma undeleg_pass_bounds ds : forall i a j,
    nth j (snd (fst (undeleg_pass cpv rem i ds a))) 0 <= nth j ds 0 - tgt (i + N.of_nat j).
  Proof.
    induction ds as [|d ds IH]; intros i a j; cbn [undeleg_pass].
    - cbn. destruct j; cbn; lia.
    - fold (tgt i).
      assert (Hm : d - N.min (tgt i) d = d - tgt i) by lia. rewrite Hm.
      destruct (a - N.min (d - tgt i) a =? 0) eqn:Hz.
      + cbn [fst snd]. destruct j as [|j]; cbn [nth].
        * replace (i + N.of_nat 0) with i by lia. lia.
        * assert (Hn : nth j (map (fun _ : N => 0) ds) 0 = 0).
          { clear. revert j. induction ds; intros [|j]; cbn; auto. }
          rewrite Hn. lia.
      + specialize (IH (i + 1) (a - N.min (d - tgt i) a)).
        destruct (undeleg_pass cpv rem (i + 1) ds (a - N.min (d - tgt i) a)) as [[a' ys] ds'].
        cbn [fst snd] in *. destruct j as [|j]; cbn [nth].
        * replace (i + N.of_nat 0) with i by lia. lia.
        * specialize (IH j). replace (i + N.of_nat (S j)) with (i + 1 + N.of_nat j) by lia. exact IH.
  Qed.
End Plans.

Lemma len_pos {A} (l : list A) : l <> [] -> 0 < len l.
Proof. destruct l; [congruence|]. unfold len. cbn [length]. lia. Qed.

Lemma tsum_all T n (Hn : 0 < N.of_nat n) : tsum (T / N.of_nat n) (T mod N.of_nat n) 0 n = T.
Proof.
  rewrite tsum_eq.
  pose proof (N.mod_lt T (N.of_nat n) ltac:(lia)) as Hlt.
  pose proof (N.div_mod T (N.of_nat n) ltac:(lia)) as Hdm.
  replace (N.min (T mod N.of_nat n) (0 + N.of_nat n)) with (T mod N.of_nat n) by lia.
  replace (N.min (T mod N.of_nat n) 0) with 0 by lia.
  lia.
Qed.

Lemma deleg_nonempty A ds : ds <> [] ->
  deleg A ds = (do tot <- narrow128 (sumN ds); do total <- add128 tot A;
                Some (deleg_loop (total / len ds) (total mod len ds) 0 ds A)).
Proof. destruct ds; [congruence | reflexivity]. Qed.

Lemma undeleg_nonempty U ds : ds <> [] ->
  undeleg U ds = (do total <- narrow128 (sumN ds); check U <=? total;
                  undeleg_loop undeleg_fuel U total ds (map (fun _ => 0) ds)).
Proof. destruct ds; [congruence | reflexivity]. Qed.

Lemma deleg_empty A : deleg A [] = None. Proof. reflexivity. Qed.
Lemma undeleg_empty U : undeleg U [] = None. Proof. reflexivity. Qed.

(** ** C12.1 — the delegation plan distributes exactly the whole amount *)
Theorem deleg_total A ds :
  ds <> [] -> sumN ds + A <= U128MAX ->
  exists xs, deleg A ds = Some (0, xs) /\ length xs = length ds /\ sumN xs = A.
Proof.
  intros Hne Hfit.
  rewrite (deleg_nonempty A ds Hne).
  unfold narrow128, add128, narrow128, fits128.
  assert (H1 : (sumN ds <=? U128MAX) = true) by lia. rewrite H1. cbn [bind].
  assert (H2 : (sumN ds + A <=? U128MAX) = true) by lia. rewrite H2. cbn [bind].
  set (T := sumN ds + A). set (n := len ds).
  pose proof (deleg_loop_spec (T / n) (T mod n) ds 0 A) as Hs. cbn zeta in Hs.
  destruct (deleg_loop (T / n) (T mod n) 0 ds A) as [a' xs] eqn:El. cbn [fst snd] in Hs.
  destruct Hs as (Ha & Hsum & Hlen).
  assert (Hcap : A <= dcap (T / n) (T mod n) 0 ds).
  { pose proof (dcap_ge (T / n) (T mod n) ds 0) as Hc.
    assert (Hnpos : 0 < N.of_nat (length ds)) by (apply (len_pos ds); assumption).
    assert (HT : T = sumN ds + A) by reflexivity.
    unfold n, len in *. rewrite (tsum_all T (length ds) Hnpos) in Hc. lia. }
  exists xs. repeat split; [|assumption|lia].
  f_equal. f_equal. lia.
Qed.

(** ** C12.2 — per-validator bounds of the delegation plan *)
Definition even_target (T n i : N) : N := T / n + (if i + 1 <=? T mod n then 1 else 0).

Theorem deleg_bounds A ds r xs :
  deleg A ds = Some (r, xs) ->
  let T := sumN ds + A in let n := len ds in
  forall j, (j < length ds)%nat ->
    (even_target T n (N.of_nat j) < nth j ds 0 -> nth j xs 0 = 0) /\
    (0 < nth j xs 0 -> nth j ds 0 + nth j xs 0 <= even_target T n (N.of_nat j)) /\
    even_target T n (N.of_nat j) <= T / n + 1.
Proof.
  intros Hd T n j Hj. revert Hd.
  assert (Hne : ds <> []) by (intros ->; cbn in Hj; lia).
  rewrite (deleg_nonempty A ds Hne).
  unfold narrow128, add128, narrow128.
  destruct (fits128 (sumN ds)); cbn [bind]; [|discriminate].
  destruct (fits128 (sumN ds + A)); cbn [bind]; [|discriminate].
  fold T n. intros H; inversion H as [Heq]; clear H.
  pose proof (deleg_loop_bounds (T / n) (T mod n) ds 0 A j) as Hb.
  rewrite Heq in Hb. cbn [snd] in Hb.
  unfold tgt in Hb. replace (0 + N.of_nat j) with (N.of_nat j) in Hb by lia.
  unfold even_target. destruct (N.of_nat j + 1 <=? T mod n); repeat split; lia.
Qed.

(** ** C12.4 — the delegation plan fails exactly on an empty list or u128 overflow *)
Theorem deleg_err_iff A ds :
  deleg A ds = None <-> (ds = [] \/ U128MAX < sumN ds + A).
Proof.
  destruct ds as [|d0 ds0] eqn:Eds; [split; auto|]. rewrite <- Eds.
  assert (Hne : ds <> []) by (subst ds; congruence).
  rewrite (deleg_nonempty A ds Hne). unfold narrow128, add128, narrow128, fits128.
  split.
  - destruct (sumN ds <=? U128MAX) eqn:E1; cbn [bind]; [|right; lia].
    destruct (sumN ds + A <=? U128MAX) eqn:E2; cbn [bind]; [discriminate|right; lia].
  - intros [He|Hov]; [congruence|].
    destruct (sumN ds <=? U128MAX) eqn:E1; cbn [bind]; [|reflexivity].
    destruct (sumN ds + A <=? U128MAX) eqn:E2; cbn [bind]; [lia|reflexivity].
Qed.

Lemma zipadd_zeros ys : forall (ds : list N), length ds = length ys ->
  zipadd (map (fun _ => 0) ds) ys = ys.
Proof.
  induction ys as [|y ys IH]; intros [|d ds] H; cbn [map zipadd length] in *; try discriminate;
    try reflexivity.
  rewrite IH by lia. f_equal.
Qed.

Lemma undeleg_loop_zero f total ds acc : undeleg_loop f 0 total ds acc = Some acc.
Proof. destruct f; reflexivity. Qed.

Lemma undeleg_loop_step f amount total ds acc : (amount =? 0) = false ->
  undeleg_loop (S f) amount total ds acc =
  let after := total - amount in
  let n := len ds in
  let '(a', ys, ds') := undeleg_pass (after / n) (after mod n) 0 ds amount in
  undeleg_loop f a' (total - (amount - a')) ds' (zipadd acc ys).
Proof. intros H. cbn [undeleg_loop]. rewrite H. reflexivity. Qed.

(** ** C12.3 — the undelegation plan removes exactly the request, in one pass *)
Theorem undeleg_total U ds :
  ds <> [] -> U <= sumN ds -> sumN ds <= U128MAX ->
  exists ys, undeleg U ds = Some ys /\ length ys = length ds /\ sumN ys = U /\
    forall j, (j < length ds)%nat ->
      nth j ys 0 <= nth j ds 0 /\
      (0 < nth j ys 0 -> (sumN ds - U) / len ds <= nth j ds 0 - nth j ys 0).
Proof.
  intros Hne HU Hfit.
  rewrite (undeleg_nonempty U ds Hne).
  unfold narrow128, fits128.
  assert (H1 : (sumN ds <=? U128MAX) = true) by lia. rewrite H1. cbn [bind].
  assert (H2 : (U <=? sumN ds) = true) by lia. rewrite H2.
  unfold undeleg_fuel.
  destruct (U =? 0) eqn:HU0.
  - assert (U = 0) by lia. subst U. rewrite undeleg_loop_zero. exists (map (fun _ => 0) ds). rewrite map_length, sumN_zeros.
    split; [reflexivity|]. split; [reflexivity|]. split; [lia|]. intros j Hj.
    assert (Hn : nth j (map (fun _ : N => 0) ds) 0 = 0).
    { clear. revert j. induction ds; intros [|j]; cbn; auto. }
    rewrite Hn. split; lia.
  - rewrite (undeleg_loop_step _ _ _ _ _ HU0). cbn zeta.
    set (after := sumN ds - U). set (n := len ds).
    pose proof (undeleg_pass_spec (after / n) (after mod n) ds 0 U) as Hs. cbn zeta in Hs.
    pose proof (undeleg_pass_bounds (after / n) (after mod n) ds 0 U) as Hb.
    destruct (undeleg_pass (after / n) (after mod n) 0 ds U) as [[a' ys] ds'] eqn:Ep.
    cbn [fst snd] in Hs, Hb. destruct Hs as (Ha & Hsum & Hlen).
    assert (Hcap : U <= ucap (after / n) (after mod n) 0 ds).
    { pose proof (ucap_ge (after / n) (after mod n) ds 0) as Hc.
      assert (Hnpos : 0 < N.of_nat (length ds)) by (apply (len_pos ds); assumption).
      assert (Hafter : after + U = sumN ds) by (unfold after; lia).
      unfold n, len in *. rewrite (tsum_all after (length ds) Hnpos) in Hc. lia. }
    assert (Ha0 : a' = 0) by lia. rewrite Ha0. rewrite undeleg_loop_zero.
    rewrite zipadd_zeros by lia.
    exists ys. split; [reflexivity|]. split; [lia|]. split; [lia|]. intros j Hj.
    specialize (Hb j). split; [lia|].
    intros Hpos. unfold tgt in Hb.
    replace (0 + N.of_nat j) with (N.of_nat j) in Hb by lia.
    fold after n. destruct (N.of_nat j + 1 <=? after mod n); lia.
Qed.

(** ** C12.4 — the undelegation plan fails exactly on an empty list, an excessive request, or overflow *)
Theorem undeleg_err_iff U ds :
  undeleg U ds = None <-> (ds = [] \/ sumN ds < U \/ U128MAX < sumN ds).
Proof.
  destruct ds as [|d0 ds0] eqn:Eds; [split; auto|]. rewrite <- Eds.
  assert (Hne : ds <> []) by (subst ds; congruence).
  split.
  - intros H. right.
    destruct (N.ltb_spec (sumN ds) U) as [|HU]; [auto|].
    destruct (N.ltb_spec U128MAX (sumN ds)) as [|Hf]; [auto|].
    exfalso. destruct (undeleg_total U ds) as (ys & Hy & _); [assumption|lia|lia|]. congruence.
  - rewrite (undeleg_nonempty U ds Hne). unfold narrow128, fits128.
    intros [He|[Hlt|Hov]]; [congruence| |].
    + destruct (sumN ds <=? U128MAX); cbn [bind]; [|reflexivity].
      assert (H2 : (U <=? sumN ds) = false) by lia. rewrite H2. reflexivity.
    + assert (H1 : (sumN ds <=? U128MAX) = false) by lia. rewrite H1. reflexivity.
Qed.
