From Krp Require Import Tactics Prelude Fixed FMap Types Env Registry Cw20 Hub Inv HubFrame.
Open Scope N_scope.

Lemma mulU_some a r x : mulU a r = Some x -> x = a * r / D.
Proof.
  unfold mulU, narrow128. intros H.
  destruct ((a =? 0) || (r =? 0)) eqn:Hz.
  - inversion H; subst.
    assert (Hp : a * r = 0) by (apply N.eq_mul_0; lia). rewrite Hp. reflexivity.
  - destruct (fits128 (a * r / D)); [inversion H; reflexivity | discriminate].
Qed.

Lemma add128_some a b c : add128 a b = Some c -> c = a + b.
Proof. unfold add128, narrow128. destruct (fits128 (a + b)); intros H; [inversion H; reflexivity|discriminate]. Qed.

Lemma sub128_some a b c : sub128 a b = Some c -> b <= a /\ c = a - b.
Proof. unfold sub128. destruct (b <=? a) eqn:E; intros H; [inversion H; split; [lia|reflexivity]|discriminate]. Qed.

Lemma mul_ratio_some a n d x : mul_ratio a n d = Some x -> d <> 0 /\ x = a * n / d.
Proof.
  unfold mul_ratio, narrow128. destruct (d =? 0) eqn:E; [discriminate|].
  destruct (fits128 (a * n / d)); intros H; [inversion H; split; [lia|reflexivity]|discriminate].
Qed.

Lemma ratio_some a b x : ratio a b = Some x -> b <> 0 /\ x = a * D / b.
Proof.
  unfold ratio, narrow128. destruct (b =? 0) eqn:E; [discriminate|].
  destruct (fits128 (a * D / b)); intros H; [inversion H; split; [lia|reflexivity]|discriminate].
Qed.

Lemma ddiv_some a r m : ddiv a r = Some m -> r <> 0 /\ m = a * D / r.
Proof.
  unfold ddiv. intros H. bind_inv H as den Hden. bind_inv H as q Hq.
  apply mulU_some in Hden. apply ratio_some in Hq. apply mulU_some in H.
  destruct Hq as [Hnz ->].
  assert (Hd : den = r) by (subst den; rewrite N.mul_comm; apply N.div_mul; exact D_nz).
  subst den. rewrite Hd in *. split.
  - intros ->. apply Hnz. reflexivity.
  - subst m. rewrite N.mul_comm. apply N.div_mul. exact D_nz.
Qed.
Set Default Timeout 10.
Lemma floor_pair_abs B c x r q :
  c <> 0 -> x <= D -> B * D < (r + 1) * c -> x * r < (q + 1) * D -> x * B < (q + 2) * c.
Proof.
  intros Hc Hx H2 H1. pose proof D_pos as HD.
  assert (H3 : x * B * D <= x * r * c + x * c).
  { destruct (N.eq_dec x 0) as [->|Hx0]; [lia|].
    assert (x * (B * D) <= x * ((r + 1) * c)) by (apply N.mul_le_mono_l; lia). lia. }
  assert (H4 : x * r * c < (q + 1) * D * c) by (apply N.mul_lt_mono_pos_r; lia).
  assert (H5 : x * c <= D * c) by (apply N.mul_le_mono_r; exact Hx).
  assert (H6 : x * B * D < (q + 2) * c * D) by lia.
  apply N.mul_lt_mono_pos_r in H6; [exact H6 | exact HD].
Qed.
Lemma floor_gt a b : b <> 0 -> a < (a / b + 1) * b.
Proof.
  intros Hb. pose proof (N.mul_succ_div_gt a b Hb) as H.
  rewrite <- N.add_1_r in H. rewrite N.mul_comm. exact H.
Qed.

Lemma floor_pair B c x : c <> 0 -> x <= D -> x * B < (x * (B * D / c) / D + 2) * c.
Proof.
  intros Hc Hx. apply (floor_pair_abs B c x (B * D / c)); [exact Hc | exact Hx | |].
  - apply floor_gt. exact Hc.
  - apply floor_gt. exact D_nz.
Qed.

Lemma redeem_dust_abs B c a x q :
  B <= c -> a <= c -> x <= a -> x * B < (q + 2) * c ->
  (a - x) * B <= (c - B) * (c - a) ->
  B - q <= (c - a) + 1.
Proof.
  intros HB Ha Hx Hq Hfee.
  destruct (N.le_gt_cases B q) as [Hle|Hgt]; [lia|].
  assert (exists g, c = B + g) as [g Hg] by (exists (c - B); lia).
  assert (exists R, c = a + R) as [R HR] by (exists (c - a); lia).
  assert (exists e, a = x + e) as [e He] by (exists (a - x); lia).
  assert (exists t, B = q + t) as [t Ht] by (exists (B - q); lia).
  replace (c - B) with g in Hfee by lia. replace (c - a) with R in * by lia.
  replace (a - x) with e in Hfee by lia. replace (B - q) with t by lia.
  assert (Hc : 0 < c) by lia.
  assert (Hk : t * c < (R + 2) * c).
  { assert (H1 : B * c + e * B <= c * R + x * B).
    { assert (E1 : B * c = B * x + B * e + B * R) by (rewrite HR, He; lia).
      assert (E2 : c * R = B * R + g * R) by (rewrite Hg; lia). lia. }
    assert (E3 : t * c + q * c = B * c) by (rewrite Ht; lia).
    lia. }
  apply N.mul_lt_mono_pos_r in Hk; lia.
Qed.

Lemma redeem_dust B c a x :
  c <> 0 -> B <= c -> a <= c -> x <= a -> x <= D ->
  (a - x) * B <= (c - B) * (c - a) ->
  B - x * (B * D / c) / D <= (c - a) + 1.
Proof.
  intros Hc HB Ha Hx HxD Hfee.
  apply (redeem_dust_abs B c a x); try assumption. apply floor_pair; assumption.
Qed.
