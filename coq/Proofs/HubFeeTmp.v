Set Default Timeout 20.
From Krp Require Import Tactics Prelude Fixed FMap Types Env Registry Cw20 Hub Inv HubFrame.
Open Scope N_scope.

Lemma mulU_some a r x : mulU a r = Some x -> x = a * r / D.
Proof.
  unfold mulU, narrow128. intros H.
  destruct ((a =? 0) || (r =? 0)) eqn:Hz.
  - inversion H; subst.
    assert (Hp : a * r = 0) by (apply N.eq_mul_0; lia). rewrite Hp. reflexivity.
  - destruct (fits128 (a * r / D)); [inversion H; reflexivity | discriminate].
Qed.

Lemma add128_some a b c : add128 a b = Some c -> c = a + b.
Proof. unfold add128, narrow128. destruct (fits128 (a + b)); intros H; [inversion H; reflexivity|discriminate]. Qed.

Lemma sub128_some a b c : sub128 a b = Some c -> b <= a /\ c = a - b.
Proof. unfold sub128. destruct (b <=? a) eqn:E; intros H; [inversion H; split; [lia|reflexivity]|discriminate]. Qed.

Lemma mul_ratio_some a n d x : mul_ratio a n d = Some x -> d <> 0 /\ x = a * n / d.
Proof.
  unfold mul_ratio, narrow128. destruct (d =? 0) eqn:E; [discriminate|].
  destruct (fits128 (a * n / d)); intros H; [inversion H; split; [lia|reflexivity]|discriminate].
Qed.

Lemma ratio_some a b x : ratio a b = Some x -> b <> 0 /\ x = a * D / b.
Proof.
  unfold ratio, narrow128. destruct (b =? 0) eqn:E; [discriminate|].
  destruct (fits128 (a * D / b)); intros H; [inversion H; split; [lia|reflexivity]|discriminate].
Qed.

Lemma ddiv_some a r m : ddiv a r = Some m -> r <> 0 /\ m = a * D / r.
Proof.
  unfold ddiv. intros H. bind_inv H as den Hden. bind_inv H as q Hq.
  apply mulU_some in Hden. apply ratio_some in Hq. apply mulU_some in H.
  destruct Hq as [Hnz ->].
  assert (Hd : den = r) by (subst den; rewrite N.mul_comm; apply N.div_mul; exact D_nz).
  subst den. rewrite Hd in *. split.
  - intros ->. apply Hnz. reflexivity.
  - subst m. rewrite N.mul_comm. apply N.div_mul. exact D_nz.
Qed.

(** ** the reported rate: backing over claims *)
Lemma exchange_rate_some B S Q r : exchange_rate B S Q = Some r -> r = rate_of B (S + Q).
Proof.
  unfold exchange_rate, rate_of. intros H. bind_inv H as c Hc. apply add128_some in Hc. subst c.
  destruct ((B =? 0) || (S + Q =? 0)); [inversion H; reflexivity|].
  apply ratio_some in H. tauto.
Qed.

(** a synchronised rate below 1 means the pool is strictly under-backed *)
Lemma rate_below_one B C : rate_of B C < D -> 0 < B /\ B < C.
Proof.
  unfold rate_of. destruct ((B =? 0) || (C =? 0)) eqn:E; [lia|]. intros H.
  assert (HB : B <> 0) by lia. assert (HC : C <> 0) by lia. split; [lia|].
  destruct (N.lt_ge_cases B C) as [Hlt|Hge]; [exact Hlt|exfalso].
  assert (D <= B * D / C); [|lia].
  apply N.div_le_lower_bound; [exact HC|]. rewrite (N.mul_comm C D), (N.mul_comm B D).
  apply N.mul_le_mono_l. exact Hge.
Qed.

Lemma rate_le_one B C : B <= C -> rate_of B C <= D.
Proof.
  unfold rate_of. intros H. destruct ((B =? 0) || (C =? 0)) eqn:E; [lia|].
  assert (HC : C <> 0) by lia.
  apply N.div_le_upper_bound; [exact HC|]. rewrite (N.mul_comm C D), (N.mul_comm B D).
  apply N.mul_le_mono_l. exact H.
Qed.

(** dividing by a rate in (0,1] never gives less than the amount *)
Lemma ddiv_ge p r : r <> 0 -> r <= D -> p <= p * D / r.
Proof.
  intros Hr Hle. apply N.div_le_lower_bound; [exact Hr|]. rewrite (N.mul_comm r p).
  apply N.mul_le_mono_l. exact Hle.
Qed.

Lemma floor_pair_abs B c x r q :
  c <> 0 -> x <= D -> B * D < (r + 1) * c -> x * r < (q + 1) * D -> x * B < (q + 2) * c.
Proof.
  intros Hc Hx H2 H1. pose proof D_pos as HD.
  assert (H3 : x * B * D <= x * r * c + x * c).
  { destruct (N.eq_dec x 0) as [->|Hx0]; [lia|].
    assert (x * (B * D) <= x * ((r + 1) * c)) by (apply N.mul_le_mono_l; lia). lia. }
  assert (H4 : x * r * c < (q + 1) * D * c) by (apply N.mul_lt_mono_pos_r; lia).
  assert (H5 : x * c <= D * c) by (apply N.mul_le_mono_r; exact Hx).
  assert (H6 : x * B * D < (q + 2) * c * D) by lia.
  apply N.mul_lt_mono_pos_r in H6; [exact H6 | exact HD].
Qed.
Lemma floor_gt a b : b <> 0 -> a < (a / b + 1) * b.
Proof.
  intros Hb. pose proof (N.mul_succ_div_gt a b Hb) as H.
  rewrite <- N.add_1_r in H. rewrite N.mul_comm. exact H.
Qed.

Lemma floor_pair B c x : c <> 0 -> x <= D -> x * B < (x * (B * D / c) / D + 2) * c.
Proof.
  intros Hc Hx. apply (floor_pair_abs B c x (B * D / c)); [exact Hc | exact Hx | |].
  - apply floor_gt. exact Hc.
  - apply floor_gt. exact D_nz.
Qed.

Lemma redeem_dust_abs B c a x q :
  B <= c -> a <= c -> x <= a -> x * B < (q + 2) * c ->
  (a - x) * B <= (c - B) * (c - a) ->
  B - q <= (c - a) + 1.
Proof.
  intros HB Ha Hx Hq Hfee.
  destruct (N.le_gt_cases B q) as [Hle|Hgt]; [lia|].
  assert (exists g, c = B + g) as [g Hg] by (exists (c - B); lia).
  assert (exists R, c = a + R) as [R HR] by (exists (c - a); lia).
  assert (exists e, a = x + e) as [e He] by (exists (a - x); lia).
  assert (exists t, B = q + t) as [t Ht] by (exists (B - q); lia).
  replace (c - B) with g in Hfee by lia. replace (c - a) with R in * by lia.
  replace (a - x) with e in Hfee by lia. replace (B - q) with t by lia.
  assert (Hc : 0 < c) by lia.
  assert (Hk : t * c < (R + 2) * c).
  { assert (H1 : B * c <= c * R + x * B).
    { assert (E1 : B * c = B * x + B * e + B * R) by (rewrite HR, He; lia).
      assert (E2 : c * R = B * R + g * R) by (rewrite Hg; lia). lia. }
    assert (E3 : t * c + q * c = B * c) by (rewrite Ht; lia).
    lia. }
  apply N.mul_lt_mono_pos_r in Hk; lia.
Qed.

Lemma redeem_dust B c a x :
  c <> 0 -> B <= c -> a <= c -> x <= a -> x <= D ->
  (a - x) * B <= (c - B) * (c - a) ->
  B - x * (B * D / c) / D <= (c - a) + 1.
Proof.
  intros Hc HB Ha Hx HxD Hfee.
  apply (redeem_dust_abs B c a x); try assumption. apply floor_pair; assumption.
Qed.

(** ** the three fee computations, copied verbatim from the handlers (the handler theorems below
    show by conversion that these are the blocks the handlers run) *)
Definition fee_mint_block (S Q B p m f : N) : result N :=
  do max_fee <- mulU m f;
  do a1 <- add128 S m;
  do a2 <- add128 a1 Q;
  do b1 <- add128 B p;
  do required <- sub128 a2 b1;
  sub128 m (peg_fee max_fee required).

Definition fee_unbond_block (S Q B amount f : N) : result N :=
  do max_fee <- mulU amount f;
  do c <- add128 S Q;
  do required <- sub128 c B;
  sub128 amount (peg_fee max_fee required).

Definition fee_conv_block (S Q B amount f : N) : result N :=
  do max_fee <- mulU amount f;
  do c <- add128 S Q;
  do gap <- sub128 c B;
  do required <- (if B =? 0 then Some gap
                  else do rest <- sub128 c amount; mul_ratio gap rest B);
  sub128 amount (peg_fee max_fee required).

(** the caps *)
Definition required_mint (S Q B p m : N) : N := (S + m + Q) - (B + p).
Definition required_unbond (S Q B : N) : N := (S + Q) - B.
Definition required_conv (S Q B amount : N) : N :=
  if B =? 0 then (S + Q) - B else ((S + Q) - B) * ((S + Q) - amount) / B.

Lemma fee_mint_block_spec S Q B p m f mint :
  fee_mint_block S Q B p m f = Some mint ->
  B + p <= S + m + Q /\
  exists fee, fee = N.min (m * f / D) (required_mint S Q B p m) /\ fee <= m /\ mint = m - fee.
Proof.
  unfold fee_mint_block, peg_fee, required_mint. intros H.
  bind_inv H as mx Hmx. bind_inv H as a1 Ha1. bind_inv H as a2 Ha2. bind_inv H as b1 Hb1.
  bind_inv H as rq Hrq.
  apply mulU_some in Hmx. apply add128_some in Ha1, Ha2, Hb1. apply sub128_some in Hrq, H.
  subst mx a1 a2 b1. destruct Hrq as [Hle ->]. destruct H as [Hfee ->].
  split; [exact Hle|]. eexists. split; [reflexivity|]. split; [exact Hfee | reflexivity].
Qed.

Lemma fee_unbond_block_spec S Q B amount f awf :
  fee_unbond_block S Q B amount f = Some awf ->
  B <= S + Q /\
  exists fee, fee = N.min (amount * f / D) (required_unbond S Q B) /\ fee <= amount /\
              awf = amount - fee.
Proof.
  unfold fee_unbond_block, peg_fee, required_unbond. intros H.
  bind_inv H as mx Hmx. bind_inv H as c Hc. bind_inv H as rq Hrq.
  apply mulU_some in Hmx. apply add128_some in Hc. apply sub128_some in Hrq, H.
  subst mx c. destruct Hrq as [Hle ->]. destruct H as [Hfee ->].
  split; [exact Hle|]. eexists. split; [reflexivity|]. split; [exact Hfee | reflexivity].
Qed.

Lemma fee_conv_block_spec S Q B amount f awf :
  fee_conv_block S Q B amount f = Some awf ->
  B <= S + Q /\ (B <> 0 -> amount <= S + Q) /\
  exists fee, fee = N.min (amount * f / D) (required_conv S Q B amount) /\ fee <= amount /\
              awf = amount - fee.
Proof.
  unfold fee_conv_block, peg_fee, required_conv. intros H.
  bind_inv H as mx Hmx. bind_inv H as c Hc. bind_inv H as gap Hgap. bind_inv H as rq Hrq.
  apply mulU_some in Hmx. apply add128_some in Hc. apply sub128_some in Hgap, H.
  subst mx c. destruct Hgap as [Hle ->]. destruct H as [Hfee ->].
  split; [exact Hle|].
  destruct (B =? 0) eqn:HB.
  - inversion Hrq; subst rq. split; [lia|].
    eexists. split; [reflexivity|]. split; [exact Hfee | reflexivity].
  - bind_inv Hrq as rest Hrest. apply sub128_some in Hrest. destruct Hrest as [Ha ->].
    apply mul_ratio_some in Hrq. destruct Hrq as [_ ->]. split; [intros _; exact Ha|].
    eexists. split; [reflexivity|]. split; [exact Hfee | reflexivity].
Qed.

(** ** item 4: under E1 magnitudes the fee computations cannot fail when the synchronised rate is
    below 1 — in particular the raw subtractions [claims + mint - (backing + payment)] *)
Lemma fits_big x : x <= D * D + 2 * D -> fits128 x = true.
Proof.
  intros H. unfold fits128. apply N.leb_le. eapply N.le_trans; [exact H|]. vm_compute. discriminate.
Qed.

Lemma mulU_ok a r : a * r / D <= D * D + 2 * D -> mulU a r = Some (a * r / D).
Proof.
  intros H. unfold mulU, narrow128. destruct ((a =? 0) || (r =? 0)) eqn:Hz.
  - assert (Hp : a * r = 0) by (apply N.eq_mul_0; lia). rewrite Hp. reflexivity.
  - rewrite (fits_big _ H). reflexivity.
Qed.

Lemma add128_ok a b : a + b <= D * D + 2 * D -> add128 a b = Some (a + b).
Proof. intros H. unfold add128, narrow128. rewrite (fits_big _ H). reflexivity. Qed.

Lemma sub128_ok a b : b <= a -> sub128 a b = Some (a - b).
Proof. intros H. unfold sub128. apply N.leb_le in H. rewrite H. reflexivity. Qed.

Lemma frac_le a f : f <= D -> a * f / D <= a.
Proof.
  intros H. apply N.div_le_upper_bound; [exact D_nz|]. rewrite (N.mul_comm D a).
  apply N.mul_le_mono_l. exact H.
Qed.

Lemma ddiv_le_DD p r : r <> 0 -> p <= D -> p * D / r <= D * D.
Proof.
  intros Hr Hp. eapply N.le_trans; [|apply N.mul_le_mono_r; exact Hp].
  apply N.div_le_upper_bound; [exact Hr|].
  rewrite <- (N.mul_1_l (p * D)) at 1. apply N.mul_le_mono_r. lia.
Qed.

Lemma fee_mint_block_safe S Q B p m f r :
  p <= D -> S + Q <= D -> f <= D ->
  r = rate_of B (S + Q) -> r < D -> ddiv p r = Some m ->
  B + p <= S + m + Q /\
  fee_mint_block S Q B p m f = Some (m - N.min (m * f / D) (required_mint S Q B p m)).
Proof.
  intros Hp HC Hf Hr Hlt Hm. apply ddiv_some in Hm. destruct Hm as [Hr0 Hm].
  rewrite Hr in Hlt. apply rate_below_one in Hlt. destruct Hlt as [HB0 HBC].
  assert (Hpm : p <= m) by (subst m; apply ddiv_ge; [exact Hr0|]; subst r; apply rate_le_one; lia).
  assert (HmDD : m <= D * D) by (subst m; apply ddiv_le_DD; assumption).
  pose proof (frac_le m f Hf) as Hfr.
  assert (Hle : B + p <= S + m + Q) by lia. split; [exact Hle|].
  unfold fee_mint_block, peg_fee, required_mint.
  rewrite mulU_ok by lia. cbn [bind].
  rewrite add128_ok by lia. cbn [bind]. rewrite add128_ok by lia. cbn [bind].
  rewrite add128_ok by lia. cbn [bind]. rewrite sub128_ok by exact Hle. cbn [bind].
  apply sub128_ok. lia.
Qed.

Lemma fee_unbond_block_safe S Q B amount f r :
  amount <= D -> S + Q <= D -> f <= D ->
  r = rate_of B (S + Q) -> r < D ->
  B <= S + Q /\
  fee_unbond_block S Q B amount f
    = Some (amount - N.min (amount * f / D) (required_unbond S Q B)).
Proof.
  intros Ha HC Hf Hr Hlt.
  rewrite Hr in Hlt. apply rate_below_one in Hlt. destruct Hlt as [HB0 HBC].
  pose proof (frac_le amount f Hf) as Hfr. split; [lia|].
  unfold fee_unbond_block, peg_fee, required_unbond.
  rewrite mulU_ok by lia. cbn [bind]. rewrite add128_ok by lia. cbn [bind].
  rewrite sub128_ok by lia. cbn [bind]. apply sub128_ok. lia.
Qed.

Lemma fee_conv_block_safe S Q B amount f r :
  amount <= S -> S + Q <= D -> f <= D ->
  r = rate_of B (S + Q) -> r < D ->
  B <= S + Q /\ amount <= S + Q /\
  fee_conv_block S Q B amount f
    = Some (amount - N.min (amount * f / D) (required_conv S Q B amount)).
Proof.
  intros Ha HC Hf Hr Hlt.
  rewrite Hr in Hlt. apply rate_below_one in Hlt. destruct Hlt as [HB0 HBC].
  pose proof (frac_le amount f Hf) as Hfr. split; [lia|]. split; [lia|].
  unfold fee_conv_block, peg_fee, required_conv.
  assert (HBz : (B =? 0) = false) by lia. rewrite HBz.
  rewrite mulU_ok by lia. cbn [bind]. rewrite add128_ok by lia. cbn [bind].
  rewrite sub128_ok by lia. cbn [bind]. rewrite sub128_ok by lia. cbn [bind].
  assert (Hq : (S + Q - B) * (S + Q - amount) / B <= D * D).
  { eapply N.le_trans; [apply N.div_le_upper_bound with (q := (S + Q - B) * (S + Q - amount)); [lia|]|].
    - rewrite <- (N.mul_1_l ((S + Q - B) * (S + Q - amount))) at 1. apply N.mul_le_mono_r. lia.
    - apply N.mul_le_mono; lia. }
  unfold mul_ratio, narrow128. rewrite HBz. rewrite fits_big by lia. cbn [bind].
  apply sub128_ok. lia.
Qed.

(** ** handlers *)
Lemma slashing_of w self h s :
  query_actual_state w self h = Some s -> slashing w self h = Some (set_h_state h s).
Proof. unfold slashing. intros ->. reflexivity. Qed.

(** what the bond handler computes for the minted amount *)
Definition bond_mint (S Q B p r thr f : N) : result N :=
  do m <- ddiv p r;
  if r <? thr then fee_mint_block S Q B p m f else Some m.

Lemma mint_path_spec S Q B p r thr f mint :
  bond_mint S Q B p r thr f = Some mint ->
  exists m fee,
    ddiv p r = Some m /\ mint = m - fee /\ fee <= m /\
    (thr <= r -> fee = 0) /\
    (r < thr -> fee = N.min (m * f / D) (required_mint S Q B p m) /\ B + p <= S + m + Q) /\
    fee <= m * f / D /\
    (r = rate_of B (S + Q) -> r < D \/ B <= S + Q -> B + p <= (S + mint) + Q).
Proof.
  unfold bond_mint. intros H. bind_inv H as m Hm. exists m.
  destruct (r <? thr) eqn:Hthr.
  - apply fee_mint_block_spec in H. destruct H as (Hle & fee & Hfee & Hfm & ->).
    exists fee. split; [reflexivity|]. split; [reflexivity|]. split; [exact Hfm|].
    split; [lia|]. split; [intros _; split; assumption|]. split; [lia|].
    intros _ _. unfold required_mint in Hfee. lia.
  - inversion H; subst mint. exists 0. split; [reflexivity|]. split; [lia|]. split; [lia|].
    split; [reflexivity|]. split; [lia|]. split; [apply N.le_0_l|].
    intros Hr Hu. apply ddiv_some in Hm. destruct Hm as [Hr0 ->].
    assert (HBC : B <= S + Q).
    { destruct Hu as [Hlt|Hu]; [|exact Hu]. rewrite Hr in Hlt. apply rate_below_one in Hlt. lia. }
    assert (p <= p * D / r); [|lia].
    apply ddiv_ge; [exact Hr0|]. rewrite Hr. apply rate_le_one. exact HBC.
Qed.

Theorem bond_peg_fee w h self sender funds h' out s S :
  execute_bond w h self sender funds BkB = Some (h', out) ->
  query_actual_state w self h = Some s ->
  hub_bsei_supply w h = Some S ->
  let B := hs_bb s in let Q := cb_reqb (h_batch h) in let r := hs_ber s in
  let thr := hp_thr (h_params h) in let f := hp_pegfee (h_params h) in
  exists pay m fee dmsgs tok,
    find_payment (hp_underlying (h_params h)) funds = Some pay /\
    ddiv (snd pay) r = Some m /\
    hc_bsei (h_cfg h) = Some tok /\
    out = dmsgs ++ [MWasm tok (WCw20 (CMint sender (m - fee))) []] /\
    fee <= m /\
    (thr <= r -> fee = 0) /\
    (r < thr -> fee = N.min (m * f / D) (required_mint S Q B (snd pay) m)) /\
    fee <= m * f / D /\
    hs_bb (h_state h') = B + snd pay /\ cb_reqb (h_batch h') = Q /\
    hs_ber (h_state h') = rate_of (B + snd pay) ((S + (m - fee)) + Q) /\
    (r = rate_of B (S + Q) -> r < D \/ B <= S + Q ->
     B + snd pay <= (S + (m - fee)) + Q).
Proof.
  intros H Hs HS. cbv zeta. unfold execute_bond in H. cbv zeta in H.
  bind_inv H as dispaddr Hd. check_inv H as Hlen.
  bind_inv H as pay Hpay. rewrite (slashing_of _ _ _ _ Hs) in H. cbn [bind] in H.
  cbn [h_state h_cfg h_params h_batch set_h_state] in H.
  change (hub_bsei_supply w (set_h_state h s)) with (hub_bsei_supply w h) in H. rewrite HS in H.
  bind_inv H as mint Hmint.
  change (bond_mint S (cb_reqb (h_batch h)) (hs_bb s) (snd pay) (hs_ber s)
            (hp_thr (h_params h)) (hp_pegfee (h_params h)) = Some mint) in Hmint.
  apply mint_path_spec in Hmint.
  destruct Hmint as (m & fee & Hm & -> & Hfm & Hno & Hyes & Hmax & Hover).
  bind_inv H as supply Hsup. apply add128_some in Hsup.
  bind_inv H as s' Hs'. bind_inv Hs' as bb Hbb. bind_inv Hs' as ber Hber.
  apply add128_some in Hbb. apply exchange_rate_some in Hber. inversion Hs'; subst s'. clear Hs'.
  bind_inv H as vals Hvals. destruct vals as [|v0 vr]; [discriminate|].
  bind_inv H as dl Hdl. bind_inv H as tok Htok. inversion H; subst h' out. clear H.
  cbn [h_cfg set_h_state] in Htok.
  exists pay, m, fee, (delegate_msgs (v0 :: vr) (snd dl) (fst pay)), tok.
  cbn [h_state h_batch set_h_state hs_bb hs_ber set_ber set_rates set_bonded].
  subst bb supply ber.
  repeat split; try assumption; try reflexivity.
  intros Hlt. apply Hyes in Hlt. tauto.
Qed.

(** *** unbond bSei *)
Definition unbond_awf (S Q B amount r thr f : N) : result N :=
  if r <? thr then fee_unbond_block S Q B amount f else Some amount.

Lemma unbond_path_spec S Q B amount r thr f awf :
  unbond_awf S Q B amount r thr f = Some awf ->
  exists fee,
    awf = amount - fee /\ fee <= amount /\
    (thr <= r -> fee = 0) /\
    (r < thr -> fee = N.min (amount * f / D) (required_unbond S Q B) /\ B <= S + Q) /\
    fee <= amount * f / D /\
    (r = rate_of B (S + Q) -> r < D \/ B <= S + Q -> amount <= S ->
     B <= (S - amount) + (Q + awf)).
Proof.
  unfold unbond_awf. intros H. destruct (r <? thr) eqn:Hthr.
  - apply fee_unbond_block_spec in H. destruct H as (Hle & fee & Hfee & Hfm & ->).
    exists fee. split; [reflexivity|]. split; [exact Hfm|]. split; [lia|].
    split; [intros _; split; assumption|]. split; [lia|].
    intros _ _ Ha. unfold required_unbond in Hfee. lia.
  - inversion H; subst awf. exists 0. split; [lia|]. split; [lia|]. split; [reflexivity|].
    split; [lia|]. split; [apply N.le_0_l|].
    intros Hr Hu Ha.
    assert (HBC : B <= S + Q); [|lia].
    destruct Hu as [Hlt|Hu]; [|exact Hu]. rewrite Hr in Hlt. apply rate_below_one in Hlt. lia.
Qed.

Lemma maybe_undelegate_cases w self h h' msgs :
  maybe_undelegate w self h = Some (h', msgs) ->
  (h' = h /\ msgs = []) \/
  (exists b_und,
     mulU (cb_reqb (h_batch h)) (hs_ber (h_state h)) = Some b_und /\ b_und <= hs_bb (h_state h) /\
     hs_bb (h_state h') = hs_bb (h_state h) - b_und /\ cb_reqb (h_batch h') = 0 /\
     h_wait h' = h_wait h /\ h_cfg h' = h_cfg h).
Proof.
  unfold maybe_undelegate. intros H. bind_inv H as passed Hp.
  destruct (hp_epoch (h_params h) <? passed).
  - right. unfold process_undelegations in H.
    bind_inv H as st_und E1. bind_inv H as b_und E2. bind_inv H as claim E3. bind_inv H as ms E4.
    bind_inv H as bst E5. bind_inv H as bb E6. bind_inv H as id' E7. inversion H; subst h' msgs.
    apply sub128_some in E6. destruct E6 as [Hle ->].
    exists b_und. cbn. repeat split; try reflexivity; assumption.
  - left. inversion H; subst. split; reflexivity.
Qed.

Theorem unbond_peg_fee w h self amount user h' out s S :
  execute_unbond w h self amount user = Some (h', out) ->
  query_actual_state w self h = Some s ->
  hub_bsei_supply w h = Some S ->
  let B := hs_bb s in let Q := cb_reqb (h_batch h) in let r := hs_ber s in
  let thr := hp_thr (h_params h) in let f := hp_pegfee (h_params h) in
  let id := cb_id (h_batch h) in
  exists fee msgs tok,
    fee <= amount /\
    (thr <= r -> fee = 0) /\
    (r < thr -> fee = N.min (amount * f / D) (required_unbond S Q B)) /\
    fee <= amount * f / D /\
    amount <= S /\
    (* the claim recorded for the user is the amount less the fee *)
    h_wait h' = set eqbAN (h_wait h) (user, id)
                  (fst (wait_of h user id) + (amount - fee), snd (wait_of h user id)) /\
    hc_bsei (h_cfg h) = Some tok /\
    out = msgs ++ [MWasm tok (WCw20 (CBurn amount)) []] /\
    (* pool after the fee step (before an epoch undelegation, if one is due) *)
    (r = rate_of B (S + Q) -> r < D \/ B <= S + Q ->
     B <= (S - amount) + (Q + (amount - fee))) /\
    (* final state: either no undelegation was due ... or the open batch was priced and closed *)
    ((hs_bb (h_state h') = B /\ cb_reqb (h_batch h') = Q + (amount - fee)) \/
     (hs_bb (h_state h') =
        B - (Q + (amount - fee)) * rate_of B ((S - amount) + (Q + (amount - fee))) / D /\
      cb_reqb (h_batch h') = 0)).
Proof.
  intros H Hs HS. cbv zeta. unfold execute_unbond in H. cbv zeta in H.
  rewrite (slashing_of _ _ _ _ Hs) in H. cbn [bind] in H.
  cbn [h_state h_cfg h_params h_batch set_h_state] in H.
  change (hub_bsei_supply w (set_h_state h s)) with (hub_bsei_supply w h) in H. rewrite HS in H.
  cbn [bind] in H.
  bind_inv H as awf Hawf.
  change (unbond_awf S (cb_reqb (h_batch h)) (hs_bb s) amount (hs_ber s)
            (hp_thr (h_params h)) (hp_pegfee (h_params h)) = Some awf) in Hawf.
  apply unbond_path_spec in Hawf.
  destruct Hawf as (fee & -> & Hfm & Hno & Hyes & Hmax & Hover).
  bind_inv H as reqb Hreqb. apply add128_some in Hreqb.
  bind_inv H as h2 Hh2.
  bind_inv H as supply' Hsup. apply sub128_some in Hsup. destruct Hsup as [HaS ->].
  bind_inv H as ber Hber. apply exchange_rate_some in Hber.
  bind_inv H as rr Hrr. destruct rr as [h4 msgs].
  bind_inv H as tok Htok. inversion H; subst h' out. clear H.
  (* the wait list *)
  unfold add_wait in Hh2. unfold wait_of in *. cbn [h_wait set_h_state] in Hh2.
  destruct (match get eqbAN (h_wait h) (user, cb_id (h_batch h)) with
            | Some x => x | None => (0, 0) end) as [x y] eqn:Hxy.
  bind_inv Hh2 as x' Hx'. apply add128_some in Hx'. cbn [bind] in Hh2. inversion Hh2; subst h2 x'.
  clear Hh2.
  apply maybe_undelegate_cases in Hrr.
  exists fee, msgs, tok. cbn [fst snd].
  split; [exact Hfm|]. split; [exact Hno|]. split; [intros Hlt; apply Hyes in Hlt; tauto|].
  split; [exact Hmax|]. split; [exact HaS|].
  destruct Hrr as [[-> ->]|(b_und & Hmul & Hle & Hbb & Hrq & Hw & Hcfg)].
  - cbn [h_cfg set_h_batch set_h_state set_h_wait] in Htok.
    cbn. split; [reflexivity|]. split; [exact Htok|]. split; [reflexivity|].
    split; [intros Hr Hu; apply Hover; assumption|]. left. split; [reflexivity | exact Hreqb].
  - cbn [h_state h_batch h_wait h_cfg set_h_batch set_h_state set_h_wait hs_bb hs_ber set_ber set_rates
         cb_reqb] in *.
    split; [exact Hw|]. split.
    { rewrite Hcfg in Htok. exact Htok. }
    split; [reflexivity|]. split; [intros Hr Hu; apply Hover; assumption|].
    right. apply mulU_some in Hmul. subst b_und reqb ber. split; [exact Hbb | exact Hrq].
Qed.
