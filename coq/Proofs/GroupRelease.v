(** * GroupRelease: the pure arithmetic of [process_withdraw_rate] for one release group (C01 core).

    Main results (all closed under the global context):
    - [GR_deductions_cover]   : integer counting lemma: the per-batch deductions [min(s_i,u_i)] of a
                                loss [L] sum to at least [L] when [(k-1)*L <= D].
    - [GR_nwr_spec]           : [new_withdraw_rate] in closed form ([GR_new_rate]).
    - [GR_pwr_spec]           : [process_withdraw_rate] in closed form: the history after the release
                                is the old one with the entries of the group replaced by [GR_release g A],
                                [A = hub_balance - prev_hub_balance].
    - [GR_group_paid_le_arrived] : the batches of a group released with arriving coins [A] are
                                together worth at most [A] (hypothesis: E1' only).
    - [GR_E1'_from_total]     : under E1 ([A <= D]) the clause E1' follows from its DESIGN.md form
                                [(k-1) * (U_st + U_b - A) <= D].
    - [GR_claims_le_batch]    : claims that together do not exceed a batch's amounts are together
                                worth at most the batch value (claim floors only lose).
    - [GR_group_dust]         : without slashing / unsolicited transfers ([A = U_st + U_b <= D]) every
                                batch is credited exactly what it expected, its value falls short by at
                                most 1 per token type, and a claim of [c] tokens is paid more than
                                [c*u/a - 2].
    - [GR_release_deterministic] : the new history depends on balance and prev_hub_balance only
                                through their difference.
    - [GR_F3_witness_now_ok]  : the former F3 witness (1,1,1000 stSei @0.9, 810 arriving) now pays 809 <= 810.
    - [GR_outside_E1'_witness]: outside E1' the per-batch credits can sum to A + 1 (payouts of the
                                instance are still <= A): why the theorem carries E1'. *)
From Krp Require Import Tactics Prelude Fixed FMap Types Env Registry Cw20 Hub.
From Coq Require Import ZArith.
Open Scope N_scope.

(** ** 1. The counting lemma, over Z (ported from spikes/group_release_spike.v) *)
Module GRZ.
Local Open Scope Z_scope.
Section G.
Variables (D U L : Z).
Hypotheses (HD : 0 < D) (HU : 0 < U) (HL : 0 <= L <= U).

Definition w (u : Z) := u * D / U.
Definition e (u : Z) := (u * D) mod U.
Definition s (u : Z) := w u * L / D + 1.
Definition m (u : Z) := Z.min (s u) u.
Definition sc (u : Z) := if s u <=? u then 1 else 0.

Fixpoint sum (f : Z -> Z) (l : list Z) : Z := match l with [] => 0 | x :: t => f x + sum f t end.

Lemma pointwise u : 0 <= u ->
  m u * D * U + e u * L >= u * D * L + sc u * U.
Proof.
  intros Hu. unfold m, sc, s, w, e.
  pose proof (Z.div_mod (u * D) U ltac:(lia)) as E1.
  pose proof (Z.mod_pos_bound (u * D) U HU) as B1.
  set (q := u * D / U) in *. set (r := (u * D) mod U) in *.
  pose proof (Z.div_mod (q * L) D ltac:(lia)) as E2.
  pose proof (Z.mod_pos_bound (q * L) D HD) as B2.
  set (q2 := q * L / D) in *. set (r2 := (q * L) mod D) in *.
  destruct (Z.leb_spec (q2 + 1) u) as [Hle|Hgt].
  - rewrite Z.min_l by lia.
    assert ((q2 + 1) * D = q * L - r2 + D) by lia.
    assert (q * U = u * D - r) by lia.
    nia.
  - rewrite Z.min_r by lia. nia.
Qed.

Lemma sum_ge f g l : (forall x, In x l -> f x >= g x) -> sum f l >= sum g l.
Proof. induction l as [|x l IH]; cbn; intros H; [lia|].
  pose proof (H x (or_introl eq_refl)). assert (sum f l >= sum g l) by (apply IH; intros; apply H; now right). lia. Qed.

Lemma sum_lin (f : Z -> Z) c l : sum (fun x => f x * c) l = sum f l * c.
Proof. induction l as [|x l IH]; cbn; [lia|]. rewrite IH. lia. Qed.
Lemma sum_add (f g : Z -> Z) l : sum (fun x => f x + g x) l = sum f l + sum g l.
Proof. induction l as [|x l IH]; cbn; [lia|]. rewrite IH. lia. Qed.

Lemma e_sum l : (forall x, In x l -> 0 <= x) -> sum (fun x => x) l = U ->
  exists g, sum e l = U * g /\ 0 <= g /\ g <= Z.of_nat (length l) - 1.
Proof.
  intros Hpos HS.
  assert (Hw : sum (fun x => x * D) l = sum w l * U + sum e l).
  { clear HS. induction l as [|x l IH]; cbn; [lia|].
    rewrite IH by (intros; apply Hpos; now right).
    unfold w, e. pose proof (Z.div_mod (x * D) U ltac:(lia)). lia. }
  rewrite sum_lin, HS in Hw.
  assert (He : 0 <= sum e l /\ (l <> [] -> sum e l < U * Z.of_nat (length l))).
  { clear - HU. induction l as [|x l [IH1 IH2]]; cbn [sum length]; [split; [lia|congruence]|].
    pose proof (Z.mod_pos_bound (x * D) U HU). unfold e at 1 3. split; [lia|]. intros _.
    destruct l as [|y l']; [cbn in *; lia|]. specialize (IH2 ltac:(congruence)). cbn [sum] in *. lia. }
  exists (D - sum w l). destruct He as [He1 He2].
  assert (l <> []) by (intros ->; cbn in HS; lia).
  specialize (He2 H). split; [lia|]. split; nia.
Qed.

Theorem deductions_cover l :
  (forall x, In x l -> 0 <= x) -> sum (fun x => x) l = U ->
  (Z.of_nat (length l) - 1) * L <= D ->
  sum m l >= L.
Proof.
  intros Hpos HS HE.
  destruct (e_sum l Hpos HS) as (g & Hg & Hg0 & Hg1).
  assert (P : sum (fun u => m u * D * U + e u * L) l >= sum (fun u => u * D * L + sc u * U) l)
    by (apply sum_ge; intros; apply pointwise; auto).
  rewrite !sum_add in P.
  assert (A1 : sum (fun u => m u * D * U) l = sum m l * D * U).
  { rewrite <- sum_lin. rewrite <- sum_lin. reflexivity. }
  assert (A2 : sum (fun u => e u * L) l = sum e l * L) by apply sum_lin.
  assert (A3 : sum (fun u => u * D * L) l = U * D * L).
  { rewrite <- HS. rewrite <- sum_lin, <- sum_lin. reflexivity. }
  assert (A4 : sum (fun u => sc u * U) l = sum sc l * U) by apply sum_lin.
  rewrite A1, A2, A3, A4, Hg in P.
  assert (Hc : 0 <= sum sc l).
  { clear. induction l; cbn; [lia|]. unfold sc at 1. destruct (_ <=? _); lia. }
  assert (Q : sum m l * D + g * L >= D * L + sum sc l) by nia.
  destruct (Z.eq_dec (sum sc l) 0) as [Hz|Hnz].
  - assert (sum m l = sum (fun x => x) l).
    { clear - Hz Hpos. induction l as [|x l IH]; cbn in *; [lia|].
      assert (0 <= sum sc l) by (clear; induction l; cbn; [lia|]; unfold sc at 1; destruct (_ <=? _); lia).
      unfold sc at 1 in Hz. unfold m at 1. destruct (Z.leb_spec (s x) x); [lia|].
      rewrite Z.min_r by lia. rewrite IH; [lia| intros; apply Hpos; now right | lia]. }
    lia.
  - assert (g * L <= D) by nia. nia.
Qed.
End G.
End GRZ.

(** ** 2. Transfer to N *)

(** the deduction applied to a batch expecting [u] of a group expecting [U] that lost [L > 0] *)
Definition GR_s (U L u : N) : N := (u * D / U) * L / D + 1.

Lemma GR_sum_conv (f : N -> N) (fz : Z -> Z) l :
  (forall x, Z.of_N (f x) = fz (Z.of_N x)) ->
  Z.of_N (sumN (map f l)) = GRZ.sum fz (map Z.of_N l).
Proof.
  intros Hf. induction l as [|x l IH]; cbn [map sumN GRZ.sum]; [reflexivity|].
  rewrite N2Z.inj_add, Hf, IH. reflexivity.
Qed.

Lemma GR_deductions_cover (l : list N) (U L : N) :
  sumN l = U -> 0 < L -> L <= U ->
  (N.of_nat (length l) - 1) * L <= D ->
  L <= sumN (map (fun u => N.min (GR_s U L u) u) l).
Proof.
  intros HS HL HLU HE.
  pose proof (GRZ.deductions_cover (Z.of_N D) (Z.of_N U) (Z.of_N L)) as C.
  assert (HD0 : (0 < Z.of_N D)%Z) by (pose proof D_pos; lia).
  assert (HU0 : (0 < Z.of_N U)%Z) by lia.
  assert (HL0 : (0 <= Z.of_N L <= Z.of_N U)%Z) by lia.
  specialize (C HD0 HU0 HL0 (map Z.of_N l)).
  assert (Hpos : forall x, In x (map Z.of_N l) -> (0 <= x)%Z).
  { intros x Hx. apply in_map_iff in Hx. destruct Hx as (y & <- & _). lia. }
  assert (Hsum : GRZ.sum (fun x => x) (map Z.of_N l) = Z.of_N U).
  { rewrite <- HS. clear. induction l as [|x l IH]; cbn [map sumN GRZ.sum]; [reflexivity|].
    rewrite IH. lia. }
  assert (Hlen : ((Z.of_nat (length (map Z.of_N l)) - 1) * Z.of_N L <= Z.of_N D)%Z).
  { rewrite map_length. clear - HE HL.
    set (n := length l) in *. clearbody n.
    assert (Hn : (Z.of_nat n - 1 <= Z.of_N (N.of_nat n - 1))%Z) by lia.
    assert (HE' : (Z.of_N (N.of_nat n - 1) * Z.of_N L <= Z.of_N D)%Z) by lia.
    assert (HL' : (0 <= Z.of_N L)%Z) by lia.
    generalize dependent (Z.of_N (N.of_nat n - 1)). intros k Hk HE'. nia. }
  specialize (C Hpos Hsum Hlen).
  rewrite <- (GR_sum_conv (fun u => N.min (GR_s U L u) u)) in C; [lia|].
  intros x. unfold GRZ.m, GRZ.s, GRZ.w, GR_s.
  rewrite N2Z.inj_min, N2Z.inj_add, !N2Z.inj_div, !N2Z.inj_mul, N2Z.inj_div, N2Z.inj_mul. reflexivity.
Qed.

(** ** 3. Small arithmetic facts *)
Lemma GR_div_add_le a b d : a / d + b / d <= (a + b) / d.
Proof.
  destruct (N.eq_dec d 0) as [->|Hd].
  - destruct a, b; cbn; lia.
  - apply N.div_le_lower_bound; [exact Hd|].
    pose proof (N.mul_div_le a d Hd). pose proof (N.mul_div_le b d Hd). lia.
Qed.

Lemma GR_sum_floor_le (l : list N) c d :
  sumN (map (fun x => x * c / d) l) <= sumN l * c / d.
Proof.
  induction l as [|x l IH]; cbn [map sumN].
  - apply N.le_0_l.
  - pose proof (GR_div_add_le (x * c) (sumN l * c) d) as H.
    replace ((x + sumN l) * c) with (x * c + sumN l * c) by lia. lia.
Qed.

(** rate floor then claim floor only lose *)
Lemma GR_payout_le a c : a <> 0 -> a * (c * D / a) / D <= c.
Proof.
  intros Ha. apply N.div_le_upper_bound; [exact D_nz|].
  pose proof (N.mul_div_le (c * D) a Ha). lia.
Qed.

Lemma GR_floor_mono a b r : a <= b -> a * r / D <= b * r / D.
Proof. intros H. apply N.div_le_mono; [exact D_nz|]. nia. Qed.

Lemma GR_sum_le {T} (f g : T -> N) (l : list T) : (forall x, f x <= g x) -> sumN (map f l) <= sumN (map g l).
Proof. intros H. induction l as [|x l IH]; cbn [map sumN]; [lia|]. specialize (H x). lia. Qed.

Lemma GR_sum_plus {T} (f g : T -> N) (l : list T) : sumN (map (fun x => f x + g x) l) = sumN (map f l) + sumN (map g l).
Proof. induction l as [|x l IH]; cbn [map sumN]; [reflexivity|]. lia. Qed.

Lemma GR_sum_id l : sumN (map (fun x => x) l) = sumN l.
Proof. rewrite map_id. reflexivity. Qed.

(** ** 4. What one batch is credited
    [u] = coins the batch expects, [U] = coins the group expects (one token type),
    [(L, neg)] = |U - arrived| and its sign ([neg] = surplus). *)
Definition GR_credited (u U L : N) (neg : bool) : N :=
  let w := if U =? 0 then 0 else u * D / U in
  let sb := L * w / D in
  if neg then u + (if 1 <? sb then sb - 1 else 0)
  else u - (if L =? 0 then sb else sb + 1).

Lemma GR_sum_sub_min (f : N -> N) l :
  sumN (map (fun u => u - f u) l) + sumN (map (fun u => N.min (f u) u) l) = sumN l.
Proof. induction l as [|x l IH]; cbn [map sumN]; [reflexivity|]. lia. Qed.

(** loss branch: the credits sum to at most what arrived, [U - L] (needs E1') *)
Lemma GR_credited_loss_sum l U L :
  sumN l = U -> L <= U -> (N.of_nat (length l) - 1) * L <= D ->
  sumN (map (fun u => GR_credited u U L false) l) + L <= U.
Proof.
  intros HS HLU HE.
  destruct (N.eq_dec L 0) as [->|HL].
  - rewrite (map_ext _ (fun x => x)).
    + rewrite GR_sum_id. lia.
    + intros u. unfold GR_credited. cbv zeta. rewrite (N.eqb_refl 0).
      rewrite N.mul_0_l, N.div_0_l by exact D_nz. lia.
  - assert (HU : U <> 0) by lia.
    rewrite (map_ext _ (fun u => u - GR_s U L u)).
    + pose proof (GR_sum_sub_min (GR_s U L) l) as H1.
      pose proof (GR_deductions_cover l U L HS ltac:(lia) HLU HE) as H2. lia.
    + intros u. unfold GR_credited, GR_s. cbv zeta.
      apply N.eqb_neq in HU. rewrite HU. apply N.eqb_neq in HL. rewrite HL.
      rewrite (N.mul_comm L). reflexivity.
Qed.

Lemma GR_weights_le l U : sumN l = U -> U <> 0 -> sumN (map (fun u => u * D / U) l) <= D.
Proof.
  intros HS HU. pose proof (GR_sum_floor_le l D U) as H. rewrite HS in H.
  rewrite N.mul_comm, N.div_mul in H by exact HU. exact H.
Qed.

(** surplus branch: the credits sum to at most what arrived, [U + L] *)
Lemma GR_credited_surplus_sum l U L :
  sumN l = U -> sumN (map (fun u => GR_credited u U L true) l) <= U + L.
Proof.
  intros HS.
  destruct (N.eq_dec U 0) as [HU|HU].
  - rewrite (map_ext _ (fun x => x)).
    + rewrite GR_sum_id. lia.
    + intros u. unfold GR_credited. cbv zeta. rewrite HU, (N.eqb_refl 0).
      rewrite N.mul_0_r, N.div_0_l by exact D_nz. change (1 <? 0) with false. cbv iota. lia.
  - pose proof (GR_sum_le (fun u => GR_credited u U L true) (fun u => u + (u * D / U) * L / D) l) as H1.
    assert (Hpt : forall u, GR_credited u U L true <= u + (u * D / U) * L / D).
    { intros u. unfold GR_credited. cbv zeta. apply N.eqb_neq in HU. rewrite HU.
      rewrite (N.mul_comm L). generalize (u * D / U * L / D). intros X.
      destruct (1 <? X); lia. }
    specialize (H1 Hpt). rewrite GR_sum_plus, GR_sum_id, HS in H1.
    pose proof (GR_sum_floor_le (map (fun u => u * D / U) l) L D) as H2.
    rewrite map_map in H2.
    pose proof (GR_weights_le l U HS HU) as H3.
    assert (H4 : sumN (map (fun u => u * D / U) l) * L / D <= L).
    { apply N.div_le_upper_bound; [exact D_nz|]. nia. }
    lia.
Qed.

Definition GR_sgn (a b : N) : N * bool := if b <=? a then (a - b, false) else (b - a, true).

(** one token type: credits sum to at most the arrived coins [At] *)
Lemma GR_type_sum_le l U At :
  sumN l = U -> (N.of_nat (length l) - 1) * (U - At) <= D ->
  sumN (map (fun u => GR_credited u U (fst (GR_sgn U At)) (snd (GR_sgn U At))) l) <= At.
Proof.
  intros HS HE. unfold GR_sgn. destruct (At <=? U) eqn:E; cbn [fst snd].
  - pose proof (GR_credited_loss_sum l U (U - At) HS ltac:(lia) HE). lia.
  - pose proof (GR_credited_surplus_sum l U (At - U) HS). lia.
Qed.

(** ** 5. [new_withdraw_rate] in closed form *)
Definition GR_new_rate (amount wrate U L : N) (neg : bool) : N :=
  if amount =? 0 then wrate else GR_credited (amount * wrate / D) U L neg * D / amount.

Lemma GR_narrow128_val x y : narrow128 x = Some y -> y = x /\ x <= U128MAX.
Proof. unfold narrow128, fits128. destruct (x <=? U128MAX) eqn:E; intros H; inversion H; subst. split; [reflexivity|lia]. Qed.
Lemma GR_narrow256_val x y : narrow256 x = Some y -> y = x /\ x <= U256MAX.
Proof. unfold narrow256, fits256. destruct (x <=? U256MAX) eqn:E; intros H; inversion H; subst. split; [reflexivity|lia]. Qed.

Lemma GR_mulU256_val a r x : mulU256 a r = Some x -> x = a * r / D.
Proof.
  unfold mulU256, mul256. destruct (a =? 0) eqn:Ea; cbn [orb].
  - intros H. inversion H; subst. apply N.eqb_eq in Ea. subst a. rewrite N.mul_0_l, N.div_0_l by exact D_nz. reflexivity.
  - destruct (r =? 0) eqn:Er.
    + intros H. inversion H; subst. apply N.eqb_eq in Er. subst r. rewrite N.mul_0_r, N.div_0_l by exact D_nz. reflexivity.
    + intros H. bind_inv H as p Hp. apply GR_narrow256_val in Hp. destruct Hp as [-> _]. inversion H; reflexivity.
Qed.

Lemma GR_mulU_val a r x : mulU a r = Some x -> x = a * r / D.
Proof.
  unfold mulU. destruct (a =? 0) eqn:Ea; cbn [orb].
  - intros H. inversion H; subst. apply N.eqb_eq in Ea. subst a. rewrite N.mul_0_l, N.div_0_l by exact D_nz. reflexivity.
  - destruct (r =? 0) eqn:Er.
    + intros H. inversion H; subst. apply N.eqb_eq in Er. subst r. rewrite N.mul_0_r, N.div_0_l by exact D_nz. reflexivity.
    + intros H. apply GR_narrow128_val in H. tauto.
Qed.

Lemma GR_signed_sub_val a b d : signed_sub a b = Some d ->
  d = GR_sgn a b /\ (if snd d then 0 else fst d) = a - b.
Proof.
  unfold signed_sub, GR_sgn. intros H. check_inv H as Fa. check_inv H as Fb.
  destruct (b <=? a) eqn:E; inversion H; subst; cbn [fst snd]; split; try reflexivity; lia.
Qed.

Lemma GR_nwr_spec amount wrate total slashed neg r :
  new_withdraw_rate amount wrate total slashed neg = Some r ->
  r = GR_new_rate amount wrate total slashed neg.
Proof.
  unfold new_withdraw_rate, GR_new_rate, GR_credited. cbv zeta. intros H.
  bind_inv H as unb Hunb. apply GR_mulU256_val in Hunb. subst unb.
  bind_inv H as weight Hw.
  assert (Hweight : weight = if total =? 0 then 0 else amount * wrate / D * D / total).
  { destruct (total =? 0); [inversion Hw; reflexivity|].
    unfold ratio256, mul256 in Hw. destruct (total =? 0); [discriminate|].
    bind_inv Hw as p Hp. apply GR_narrow256_val in Hp. destruct Hp as [-> _]. inversion Hw; reflexivity. }
  clear Hw. rewrite <- Hweight.
  bind_inv H as sb Hsb. apply GR_mulU256_val in Hsb. rewrite <- Hsb.
  bind_inv H as actual Hact.
  destruct (amount =? 0); [inversion H; reflexivity|].
  bind_inv H as a128 Ha. apply GR_narrow128_val in Ha. destruct Ha as [-> _].
  unfold ratio in H. destruct (amount =? 0); [discriminate|].
  apply GR_narrow128_val in H. destruct H as [-> _].
  destruct neg.
  - unfold add256 in Hact. apply GR_narrow256_val in Hact. destruct Hact as [-> _]. reflexivity.
  - bind_inv Hact as sb' Hsb'. bind_inv Hact as d Hd. inversion Hact; subst actual.
    apply GR_signed_sub_val in Hd. destruct Hd as [_ ->].
    destruct (slashed =? 0).
    + inversion Hsb'; reflexivity.
    + unfold add256 in Hsb'. apply GR_narrow256_val in Hsb'. destruct Hsb' as [-> _]. reflexivity.
Qed.

(** ** 6. The release of a group as a pure function *)
Definition GR_us (g : list (N * hist_entry)) : list N :=
  map (fun ie => he_samt (snd ie) * he_swithdraw (snd ie) / D) g.
Definition GR_ub (g : list (N * hist_entry)) : list N :=
  map (fun ie => he_bamt (snd ie) * he_bwithdraw (snd ie) / D) g.
(** coins the group expects, per token type *)
Definition GR_tot_s g := sumN (GR_us g).
Definition GR_tot_b g := sumN (GR_ub g).

(** the split of the arriving coins [A] into (stSei part, bSei part) *)
Definition GR_split (Ust Ub A : N) : N * N :=
  let both := Ust + Ub in
  let br := if 0 <? both then D - Ust * D / both else 0 in
  (A - A * br / D, A * br / D).

Lemma GR_split_exact Ust Ub A : fst (GR_split Ust Ub A) + snd (GR_split Ust Ub A) = A.
Proof.
  unfold GR_split. cbv zeta. cbn [fst snd].
  assert (H : forall br, br <= D -> A * br / D <= A).
  { intros br Hbr. apply N.div_le_upper_bound; [exact D_nz|]. nia. }
  destruct (0 <? Ust + Ub).
  - specialize (H (D - Ust * D / (Ust + Ub)) ltac:(generalize (Ust * D / (Ust + Ub)); intros; lia)).
    generalize dependent (A * (D - Ust * D / (Ust + Ub)) / D). intros. lia.
  - rewrite N.mul_0_r, N.div_0_l by exact D_nz. lia.
Qed.

Definition GR_rel (Ust Ub : N) (slst slb : N * bool) (e : hist_entry) : hist_entry :=
  mkHist (he_time e)
         (he_bamt e) (he_bapplied e) (GR_new_rate (he_bamt e) (he_bwithdraw e) Ub (fst slb) (snd slb))
         (he_samt e) (he_sapplied e) (GR_new_rate (he_samt e) (he_swithdraw e) Ust (fst slst) (snd slst))
         true.

Definition GR_release (g : list (N * hist_entry)) (A : N) : list (N * hist_entry) :=
  let Ust := GR_tot_s g in
  let Ub := GR_tot_b g in
  let sp := GR_split Ust Ub A in
  map (fun ie => (fst ie, GR_rel Ust Ub (GR_sgn Ust (fst sp)) (GR_sgn Ub (snd sp)) (snd ie))) g.

Definition GR_put_all (hist : fmap N hist_entry) (l : list (N * hist_entry)) : fmap N hist_entry :=
  fold_left (fun m ie => hist_put m (fst ie) (snd ie)) l hist.

Definition GR_group (h : hub) (historical : N) : list (N * hist_entry) :=
  release_group (h_hist h) (hs_lpb (h_state h) + 1) historical (length (h_hist h)).

Definition GR_last (g : list (N * hist_entry)) (lpb : N) : N := fold_left (fun _ ie => fst ie) g lpb.

(** the hub after releasing group [g] with arriving coins [A] *)
Definition GR_after (h : hub) (g : list (N * hist_entry)) (A : N) : hub :=
  let s := h_state h in
  set_h_state (set_h_hist h (GR_put_all (h_hist h) (GR_release g A)))
    (mkHubState (hs_ber s) (hs_ser s) (hs_bb s) (hs_bst s) (hs_lim s) (hs_phb s) (hs_lut s)
                (GR_last g (hs_lpb s))).

Lemma GR_group_totals_gen g s0 b0 st bt :
  foldM (fun acc (ie : N * hist_entry) =>
           let e := snd ie in
           do su <- mulU256 (he_samt e) (he_swithdraw e);
           do bu <- mulU256 (he_bamt e) (he_bwithdraw e);
           do st <- add256 (fst acc) su;
           do bt <- add256 (snd acc) bu;
           Some (st, bt)) g (s0, b0) = Some (st, bt) ->
  st = s0 + GR_tot_s g /\ bt = b0 + GR_tot_b g.
Proof.
  revert s0 b0. induction g as [|[i e] g IH]; intros s0 b0 H.
  - cbn [foldM] in H. inversion H; subst. unfold GR_tot_s, GR_tot_b. cbn. lia.
  - cbn [foldM] in H. cbv zeta in H. cbn [snd fst] in H.
    bind_inv H as acc' Hacc.
    bind_inv Hacc as su Hsu. apply GR_mulU256_val in Hsu.
    bind_inv Hacc as bu Hbu. apply GR_mulU256_val in Hbu.
    bind_inv Hacc as st1 Hst1. apply GR_narrow256_val in Hst1. destruct Hst1 as [-> _].
    bind_inv Hacc as bt1 Hbt1. apply GR_narrow256_val in Hbt1. destruct Hbt1 as [-> _].
    inversion Hacc; subst acc'. apply IH in H. destruct H as [-> ->].
    unfold GR_tot_s, GR_tot_b, GR_us, GR_ub. cbn [map sumN snd]. subst. lia.
Qed.

Lemma GR_group_totals_spec g st bt :
  group_totals g = Some (st, bt) -> st = GR_tot_s g /\ bt = GR_tot_b g.
Proof. unfold group_totals. intros H. apply GR_group_totals_gen in H. lia. Qed.

Lemma GR_foldM_release Ust Ub slst slb g hist hist' :
  foldM (fun hist (ie : N * hist_entry) =>
           let '(i, e) := ie in
           do sr <- new_withdraw_rate (he_samt e) (he_swithdraw e) Ust (fst slst) (snd slst);
           do br <- new_withdraw_rate (he_bamt e) (he_bwithdraw e) Ub (fst slb) (snd slb);
           Some (hist_put hist i
                   (mkHist (he_time e) (he_bamt e) (he_bapplied e) br
                           (he_samt e) (he_sapplied e) sr true)))
        g hist = Some hist' ->
  hist' = GR_put_all hist (map (fun ie => (fst ie, GR_rel Ust Ub slst slb (snd ie))) g).
Proof.
  revert hist. induction g as [|[i e] g IH]; intros hist H.
  - cbn [foldM] in H. inversion H; reflexivity.
  - cbn [foldM] in H. bind_inv H as hist1 H1.
    bind_inv H1 as sr Hsr. apply GR_nwr_spec in Hsr.
    bind_inv H1 as br Hbr. apply GR_nwr_spec in Hbr.
    inversion H1; subst hist1. apply IH in H. subst hist' sr br.
    unfold GR_put_all. cbn [map fold_left fst snd]. reflexivity.
Qed.

Theorem GR_pwr_spec h historical bal h' :
  process_withdraw_rate h historical bal = Some h' ->
  (GR_group h historical = [] /\ h' = h) \/
  (GR_group h historical <> [] /\ hs_phb (h_state h) <= bal /\
   h' = GR_after h (GR_group h historical) (bal - hs_phb (h_state h))).
Proof.
  unfold process_withdraw_rate, GR_group. intros H.
  destruct (release_group (h_hist h) (hs_lpb (h_state h) + 1) historical (length (h_hist h)))
    as [|g0 gr] eqn:Eg.
  - left. inversion H; subst. split; reflexivity.
  - right. split; [discriminate|].
    set (g := g0 :: gr) in *.
    bind_inv H as tot Htot. destruct tot as [st_total b_total].
    apply GR_group_totals_spec in Htot. destruct Htot as [-> ->].
    bind_inv H as change Hch. check_inv H as Hneg.
    apply GR_signed_sub_val in Hch. destruct Hch as [Hch _].
    unfold GR_sgn in Hch.
    destruct (hs_phb (h_state h) <=? bal) eqn:Hle; [|subst change; discriminate Hneg].
    subst change. cbn [fst] in H.
    split; [lia|].
    bind_inv H as both Hboth. apply GR_narrow256_val in Hboth. destruct Hboth as [-> _].
    bind_inv H as b_ratio Hbr.
    assert (Hbr' : b_ratio = if 0 <? GR_tot_s g + GR_tot_b g
                             then D - GR_tot_s g * D / (GR_tot_s g + GR_tot_b g) else 0).
    { destruct (0 <? GR_tot_s g + GR_tot_b g); [|inversion Hbr; reflexivity].
      bind_inv Hbr as sr Hsr. unfold ratio256, mul256 in Hsr.
      destruct (GR_tot_s g + GR_tot_b g =? 0); [discriminate|].
      bind_inv Hsr as p Hp. apply GR_narrow256_val in Hp. destruct Hp as [-> _].
      inversion Hsr; subst sr. unfold sub256 in Hbr.
      destruct (_ <=? D); inversion Hbr; reflexivity. }
    clear Hbr.
    bind_inv H as b_actual Hba. apply GR_mulU256_val in Hba.
    bind_inv H as b_sl Hbsl. apply GR_signed_sub_val in Hbsl. destruct Hbsl as [-> _].
    bind_inv H as st_actual Hsta. unfold sub256 in Hsta.
    destruct (b_actual <=? bal - hs_phb (h_state h)); [|discriminate]. inversion Hsta; subst st_actual.
    bind_inv H as st_sl Hstsl. apply GR_signed_sub_val in Hstsl. destruct Hstsl as [-> _].
    bind_inv H as hist' Hhist. apply GR_foldM_release in Hhist.
    inversion H; subst h'. unfold GR_after, GR_release, GR_split. cbv zeta.
    rewrite <- Hbr'. cbn [fst snd]. rewrite <- Hba. rewrite <- Hhist. reflexivity.
Qed.

(** ** 7. Target A: a released group is worth at most the coins that arrived *)

(** value of all claims on a batch together, at the batch's withdraw rates *)
Definition GR_batch_value (e : hist_entry) : N :=
  he_samt e * he_swithdraw e / D + he_bamt e * he_bwithdraw e / D.

(** envelope clause E1' for group [g] and arriving coins [A], per token type:
    (k - 1) * (coins lost to slashing) <= 10^18, k = number of batches of the group.
    The subtraction is truncated: a surplus counts as loss 0. *)
Definition GR_E1' (g : list (N * hist_entry)) (A : N) : Prop :=
  let sp := GR_split (GR_tot_s g) (GR_tot_b g) A in
  (N.of_nat (length g) - 1) * (GR_tot_s g - fst sp) <= D /\
  (N.of_nat (length g) - 1) * (GR_tot_b g - snd sp) <= D.

Lemma GR_rate_value_le amount wrate U L neg :
  amount * GR_new_rate amount wrate U L neg / D <= GR_credited (amount * wrate / D) U L neg.
Proof.
  unfold GR_new_rate. destruct (amount =? 0) eqn:Ea.
  - apply N.eqb_eq in Ea. subst amount. rewrite N.mul_0_l, N.div_0_l by exact D_nz. apply N.le_0_l.
  - apply GR_payout_le. apply N.eqb_neq. exact Ea.
Qed.

Theorem GR_group_paid_le_arrived g A :
  GR_E1' g A ->
  sumN (map (fun ie => GR_batch_value (snd ie)) (GR_release g A)) <= A.
Proof.
  intros [Hs Hb]. unfold GR_release. cbv zeta. rewrite map_map. cbn [snd].
  set (Ust := GR_tot_s g) in *. set (Ub := GR_tot_b g) in *.
  set (sp := GR_split Ust Ub A) in *.
  pose proof (GR_split_exact Ust Ub A) as Hsplit. fold sp in Hsplit.
  pose proof (GR_type_sum_le (GR_us g) Ust (fst sp) eq_refl) as Ts.
  pose proof (GR_type_sum_le (GR_ub g) Ub (snd sp) eq_refl) as Tb.
  unfold GR_us in Ts at 1. unfold GR_ub in Tb at 1. rewrite map_length in Ts, Tb.
  specialize (Ts Hs). specialize (Tb Hb).
  unfold GR_us in Ts. unfold GR_ub in Tb. rewrite map_map in Ts, Tb.
  pose proof (GR_sum_le
    (fun ie : N * hist_entry => GR_batch_value (GR_rel Ust Ub (GR_sgn Ust (fst sp)) (GR_sgn Ub (snd sp)) (snd ie)))
    (fun ie => GR_credited (he_samt (snd ie) * he_swithdraw (snd ie) / D) Ust
                           (fst (GR_sgn Ust (fst sp))) (snd (GR_sgn Ust (fst sp))) +
               GR_credited (he_bamt (snd ie) * he_bwithdraw (snd ie) / D) Ub
                           (fst (GR_sgn Ub (snd sp))) (snd (GR_sgn Ub (snd sp)))) g) as Hle.
  rewrite GR_sum_plus in Hle.
  assert (Hpt : forall ie : N * hist_entry,
    GR_batch_value (GR_rel Ust Ub (GR_sgn Ust (fst sp)) (GR_sgn Ub (snd sp)) (snd ie)) <=
    GR_credited (he_samt (snd ie) * he_swithdraw (snd ie) / D) Ust
                           (fst (GR_sgn Ust (fst sp))) (snd (GR_sgn Ust (fst sp))) +
    GR_credited (he_bamt (snd ie) * he_bwithdraw (snd ie) / D) Ub
                           (fst (GR_sgn Ub (snd sp))) (snd (GR_sgn Ub (snd sp)))).
  { intros [i e]. unfold GR_batch_value, GR_rel. cbn [snd he_samt he_swithdraw he_bamt he_bwithdraw].
    pose proof (GR_rate_value_le (he_samt e) (he_swithdraw e) Ust (fst (GR_sgn Ust (fst sp))) (snd (GR_sgn Ust (fst sp)))).
    pose proof (GR_rate_value_le (he_bamt e) (he_bwithdraw e) Ub (fst (GR_sgn Ub (snd sp))) (snd (GR_sgn Ub (snd sp)))).
    lia. }
  specialize (Hle Hpt). lia.
Qed.

(** claims [(x_b, x_st)] on one batch that together do not exceed the batch's amounts are together
    worth at most the batch value *)
Definition GR_claim_val (e : hist_entry) (x : N * N) : N :=
  snd x * he_swithdraw e / D + fst x * he_bwithdraw e / D.

Lemma GR_claim_value_val e x v : claim_value e x = Some v -> v = GR_claim_val e x.
Proof.
  unfold claim_value, GR_claim_val. intros H.
  bind_inv H as a Ha. apply GR_mulU_val in Ha. bind_inv H as b Hb. apply GR_mulU_val in Hb.
  apply GR_narrow128_val in H. destruct H as [-> _]. subst. reflexivity.
Qed.

Theorem GR_claims_le_batch e (claims : list (N * N)) :
  sumN (map fst claims) <= he_bamt e -> sumN (map snd claims) <= he_samt e ->
  sumN (map (GR_claim_val e) claims) <= GR_batch_value e.
Proof.
  intros Hb Hs. unfold GR_batch_value.
  pose proof (GR_sum_floor_le (map snd claims) (he_swithdraw e) D) as H1.
  pose proof (GR_sum_floor_le (map fst claims) (he_bwithdraw e) D) as H2.
  rewrite map_map in H1, H2.
  pose proof (GR_floor_mono _ _ (he_swithdraw e) Hs) as H3.
  pose proof (GR_floor_mono _ _ (he_bwithdraw e) Hb) as H4.
  unfold GR_claim_val.
  rewrite (GR_sum_plus (fun x : N * N => snd x * he_swithdraw e / D) (fun x => fst x * he_bwithdraw e / D)).
  lia.
Qed.

(** ** 8. Target C: determinism *)
Theorem GR_release_deterministic h1 h2 historical bal1 bal2 r1 r2 :
  h_hist h1 = h_hist h2 -> hs_lpb (h_state h1) = hs_lpb (h_state h2) ->
  bal1 - hs_phb (h_state h1) = bal2 - hs_phb (h_state h2) ->
  process_withdraw_rate h1 historical bal1 = Some r1 ->
  process_withdraw_rate h2 historical bal2 = Some r2 ->
  h_hist r1 = h_hist r2 /\ hs_lpb (h_state r1) = hs_lpb (h_state r2).
Proof.
  intros Hh Hl HA P1 P2.
  apply GR_pwr_spec in P1. apply GR_pwr_spec in P2.
  assert (Hg : GR_group h1 historical = GR_group h2 historical)
    by (unfold GR_group; rewrite Hh, Hl; reflexivity).
  destruct P1 as [[G1 ->]|(G1 & _ & ->)]; destruct P2 as [[G2 ->]|(G2 & _ & ->)].
  - split; assumption.
  - rewrite Hg in G1. contradiction.
  - rewrite Hg in G1. contradiction.
  - unfold GR_after. cbn. rewrite Hg, HA, Hh, Hl. split; reflexivity.
Qed.

(** the guard on the balance: the release fails when the balance is below prev_hub_balance *)
Lemma GR_pwr_balance_guard h historical bal :
  GR_group h historical <> [] -> bal < hs_phb (h_state h) ->
  process_withdraw_rate h historical bal = None.
Proof.
  intros Hg Hlt. destruct (process_withdraw_rate h historical bal) as [h'|] eqn:E; [|reflexivity].
  apply GR_pwr_spec in E. destruct E as [[G _]|(_ & Hle & _)]; [contradiction|lia].
Qed.

(** ** 9. Target B: rounding dust without slashing / unsolicited transfers *)

(** with [A = U_st + U_b <= D] the split is exact *)
Lemma GR_split_no_loss Ust Ub : Ust + Ub <= D -> GR_split Ust Ub (Ust + Ub) = (Ust, Ub).
Proof.
  intros HD. unfold GR_split. cbv zeta.
  destruct (0 <? Ust + Ub) eqn:E.
  - assert (HU : Ust + Ub <> 0) by lia.
    assert (Hb : (Ust + Ub) * (D - Ust * D / (Ust + Ub)) / D = Ub).
    { pose proof (N.div_mod (Ust * D) (Ust + Ub) HU) as Hdm.
      pose proof (N.mod_lt (Ust * D) (Ust + Ub) HU) as Hlt.
      set (q := Ust * D / (Ust + Ub)) in *. set (r := (Ust * D) mod (Ust + Ub)) in *.
      assert (Hq : q <= D).
      { subst q. apply N.div_le_upper_bound; [exact HU|]. nia. }
      assert (Hx : (Ust + Ub) * (D - q) = Ub * D + r) by nia.
      rewrite Hx. rewrite N.div_add_l by exact D_nz. rewrite N.div_small by lia. lia. }
    rewrite Hb. f_equal. lia.
  - assert (Ust + Ub = 0) by lia. rewrite N.mul_0_r, N.div_0_l by exact D_nz.
    f_equal; lia.
Qed.

(** the released entry when nothing was lost or gained: every batch is credited what it expected *)
Definition GR_rel_exact (e : hist_entry) : hist_entry :=
  mkHist (he_time e)
         (he_bamt e) (he_bapplied e)
         (if he_bamt e =? 0 then he_bwithdraw e else he_bamt e * he_bwithdraw e / D * D / he_bamt e)
         (he_samt e) (he_sapplied e)
         (if he_samt e =? 0 then he_swithdraw e else he_samt e * he_swithdraw e / D * D / he_samt e)
         true.

Lemma GR_credited_no_loss u U : GR_credited u U 0 false = u.
Proof.
  unfold GR_credited. cbv zeta. rewrite (N.eqb_refl 0), N.mul_0_l, N.div_0_l by exact D_nz. lia.
Qed.

Theorem GR_release_no_loss g :
  GR_tot_s g + GR_tot_b g <= D ->
  GR_release g (GR_tot_s g + GR_tot_b g) = map (fun ie => (fst ie, GR_rel_exact (snd ie))) g.
Proof.
  intros HD. unfold GR_release. cbv zeta. rewrite (GR_split_no_loss _ _ HD). cbn [fst snd].
  apply map_ext. intros [i e]. cbn [fst snd]. f_equal.
  unfold GR_rel, GR_rel_exact, GR_new_rate, GR_sgn.
  rewrite !N.leb_refl, !N.sub_diag. cbn [fst snd]. rewrite !GR_credited_no_loss. reflexivity.
Qed.

(** one token type of one batch: amount [a <= D] at old rate [r], expecting [u = a*r/D]:
    all claims together fall short of [u] by at most 1 *)
Lemma GR_dust_batch a r : a <> 0 -> a <= D ->
  a * r / D <= a * (a * r / D * D / a) / D + 1.
Proof.
  intros Ha HaD. set (u := a * r / D).
  pose proof (N.div_mod (u * D) a Ha) as Hdm. pose proof (N.mod_lt (u * D) a Ha) as Hlt.
  set (rho := u * D / a) in *. set (r' := (u * D) mod a) in *.
  assert (H : u - 1 <= a * rho / D).
  { apply N.div_le_lower_bound; [exact D_nz|]. nia. }
  lia.
Qed.

(** a claim of [c <= a] tokens is paid more than [c*u/a - 2] *)
Lemma GR_dust_claim a r c : a <> 0 -> a <= D -> c <= a ->
  c * (a * r / D) < (c * (a * r / D * D / a) / D + 2) * a.
Proof.
  intros Ha HaD Hc. set (u := a * r / D).
  pose proof (N.div_mod (u * D) a Ha) as Hdm. pose proof (N.mod_lt (u * D) a Ha) as Hlt.
  set (rho := u * D / a) in *. set (r' := (u * D) mod a) in *.
  pose proof (N.div_mod (c * rho) D D_nz) as Hdm2. pose proof (N.mod_lt (c * rho) D D_nz) as Hlt2.
  set (p := c * rho / D) in *. set (r2 := (c * rho) mod D) in *.
  pose proof D_pos as HDpos.
  assert (H1 : c * u * D < (p + 2) * a * D).
  { assert (c * u * D = c * (a * rho) + c * r') by nia.
    assert (c * (a * rho) = a * (D * p + r2)) by nia.
    assert (c * r' <= D * a) by nia.
    assert (a * r2 < a * D) by nia.
    nia. }
  nia.
Qed.

Theorem GR_dust_entry e :
  he_samt e <= D -> he_bamt e <= D ->
  he_samt e * he_swithdraw e / D + he_bamt e * he_bwithdraw e / D <= GR_batch_value (GR_rel_exact e) + 2.
Proof.
  intros Hs Hb. unfold GR_batch_value, GR_rel_exact. cbn [he_samt he_swithdraw he_bamt he_bwithdraw].
  assert (H1 : he_samt e * he_swithdraw e / D <=
               he_samt e * (if he_samt e =? 0 then he_swithdraw e
                            else he_samt e * he_swithdraw e / D * D / he_samt e) / D + 1).
  { destruct (he_samt e =? 0) eqn:E; [lia|]. apply GR_dust_batch; lia. }
  assert (H2 : he_bamt e * he_bwithdraw e / D <=
               he_bamt e * (if he_bamt e =? 0 then he_bwithdraw e
                            else he_bamt e * he_bwithdraw e / D * D / he_bamt e) / D + 1).
  { destruct (he_bamt e =? 0) eqn:E; [lia|]. apply GR_dust_batch; lia. }
  lia.
Qed.

(** Target B, group level: with exactly the expected coins arriving, the group is worth at least
    the arrived coins minus 2 base units per batch (1 per batch and token type) *)
Theorem GR_group_dust g :
  GR_tot_s g + GR_tot_b g <= D ->
  (forall ie, In ie g -> he_samt (snd ie) <= D /\ he_bamt (snd ie) <= D) ->
  GR_tot_s g + GR_tot_b g <=
  sumN (map (fun ie => GR_batch_value (snd ie)) (GR_release g (GR_tot_s g + GR_tot_b g)))
  + 2 * N.of_nat (length g).
Proof.
  intros HD Hamt. rewrite (GR_release_no_loss g HD). rewrite map_map. cbn [snd].
  unfold GR_tot_s, GR_tot_b, GR_us, GR_ub. clear HD.
  induction g as [|[i e] g IH]; [cbn; lia|].
  cbn [map sumN snd length].
  pose proof (Hamt (i, e) (or_introl eq_refl)) as [Hs Hb]. cbn [snd] in Hs, Hb.
  pose proof (GR_dust_entry e Hs Hb) as He.
  specialize (IH (fun ie H => Hamt ie (or_intror H))). lia.
Qed.

(** Target B, claim level: a claim of [c] tokens of a batch of [a] tokens expecting [u] coins is
    paid more than [c*u/a - 2] *)
Theorem GR_claim_dust e c :
  (he_samt e <= D -> c <= he_samt e -> he_samt e <> 0 ->
   c * (he_samt e * he_swithdraw e / D) < (c * he_swithdraw (GR_rel_exact e) / D + 2) * he_samt e) /\
  (he_bamt e <= D -> c <= he_bamt e -> he_bamt e <> 0 ->
   c * (he_bamt e * he_bwithdraw e / D) < (c * he_bwithdraw (GR_rel_exact e) / D + 2) * he_bamt e).
Proof.
  unfold GR_rel_exact. cbn [he_swithdraw he_bwithdraw]. split; intros HD Hc Hnz.
  - apply N.eqb_neq in Hnz. rewrite Hnz. apply GR_dust_claim; lia.
  - apply N.eqb_neq in Hnz. rewrite Hnz. apply GR_dust_claim; lia.
Qed.

(** ** 9b. E1' in the form of DESIGN.md section 4
    Under E1 ([A <= 10^18]) the loss attributed to each token type is at most the total loss
    [U_st + U_b - A] (0 when there is a surplus), so E1' follows from
    [(k - 1) * (U_st + U_b - A) <= 10^18]. *)
Lemma GR_split_loss_le Ust Ub A :
  A <= D ->
  Ust - fst (GR_split Ust Ub A) <= Ust + Ub - A /\
  Ub - snd (GR_split Ust Ub A) <= Ust + Ub - A.
Proof.
  intros HA. unfold GR_split. cbv zeta. cbn [fst snd].
  destruct (0 <? Ust + Ub) eqn:E0.
  2:{ rewrite N.mul_0_r, N.div_0_l by exact D_nz. lia. }
  assert (HUdef : exists U, U = Ust + Ub) by (eexists; reflexivity).
  destruct HUdef as (U & HUdef). rewrite <- HUdef in *.
  assert (HU : U <> 0) by lia.
  pose proof (N.div_mod (Ust * D) U HU) as Hq. pose proof (N.mod_lt (Ust * D) U HU) as Hr.
  generalize dependent (Ust * D / U). intros q Hq.
  generalize dependent ((Ust * D) mod U). intros r Hr Hq.
  pose proof D_pos as HDp.
  assert (HqD : q <= D).
  { assert (U * q <= U * D); [|apply (N.mul_le_mono_pos_l q D U); lia].
    assert (Ust * D <= U * D) by (apply N.mul_le_mono_r; lia). lia. }
  assert (F1 : U * (D - q) = Ub * D + r).
  { rewrite N.mul_sub_distr_l. assert (U * D = Ust * D + Ub * D) by (subst U; lia). lia. }
  generalize dependent (D - q). intros br F1.
  pose proof (N.div_mod (A * br) D D_nz) as Hab. pose proof (N.mod_lt (A * br) D D_nz) as Hr2.
  generalize dependent (A * br / D). intros Ab Hab.
  generalize dependent ((A * br) mod D). intros r2 Hr2 Hab.
  (* E: U*D*Ab + U*r2 = A*Ub*D + A*r *)
  assert (E : U * (D * Ab) + U * r2 = A * (Ub * D) + A * r).
  { assert (X : U * (A * br) = A * (U * br)) by lia. rewrite Hab, F1 in X. lia. }
  assert (H2 : A * r < U * D).
  { destruct (N.eq_dec A 0) as [->|HA0]; [lia|].
    assert (A * r < A * U) by (apply N.mul_lt_mono_pos_l; lia).
    assert (A * U <= D * U) by (apply N.mul_le_mono_r; lia). lia. }
  assert (H6 : U * (D * A) = A * (D * Ust) + A * (Ub * D)) by (subst U; lia).
  assert (H10 : U * r2 < U * D) by (apply N.mul_lt_mono_pos_l; lia).
  split.
  - destruct (N.le_gt_cases A U) as [HAU|HAU].
    + assert (Ab <= Ub); [|lia].
      destruct (N.le_gt_cases Ab Ub) as [Hok|Hbad]; [exact Hok|exfalso].
      assert (H1 : A * (Ub * D) <= U * (Ub * D)) by (apply N.mul_le_mono_r; exact HAU).
      assert (H3 : U * (Ub * D + D) <= U * (D * Ab)).
      { apply N.mul_le_mono_l. assert (D * (Ub + 1) <= D * Ab) by (apply N.mul_le_mono_l; lia). lia. }
      lia.
    + assert (Ust + Ab <= A); [|lia].
      destruct (N.le_gt_cases (Ust + Ab) A) as [Hok|Hbad]; [exact Hok|exfalso].
      assert (H4 : U * (D * Ust) <= A * (D * Ust)) by (apply N.mul_le_mono_r; lia).
      assert (H5 : (U * D) * (A + 1) <= (U * D) * (Ust + Ab)) by (apply N.mul_le_mono_l; lia).
      lia.
  - destruct (N.le_gt_cases U A) as [HAU|HAU].
    + assert (Ub <= Ab); [|lia].
      destruct (N.le_gt_cases Ub Ab) as [Hok|Hbad]; [exact Hok|exfalso].
      assert (H7 : U * br <= A * br) by (apply N.mul_le_mono_r; exact HAU).
      assert (H8 : D * (Ab + 1) <= D * Ub) by (apply N.mul_le_mono_l; lia).
      lia.
    + assert (A <= Ust + Ab); [|lia].
      destruct (N.le_gt_cases A (Ust + Ab)) as [Hok|Hbad]; [exact Hok|exfalso].
      assert (H9 : A * (D * Ust) <= U * (D * Ust)) by (apply N.mul_le_mono_r; lia).
      assert (H5 : (U * D) * (Ust + Ab + 1) <= (U * D) * A) by (apply N.mul_le_mono_l; lia).
      lia.
Qed.

Definition GR_E1'_total (g : list (N * hist_entry)) (A : N) : Prop :=
  A <= D /\ (N.of_nat (length g) - 1) * (GR_tot_s g + GR_tot_b g - A) <= D.

Theorem GR_E1'_from_total g A : GR_E1'_total g A -> GR_E1' g A.
Proof.
  intros [HA HE]. unfold GR_E1'. cbv zeta.
  destruct (GR_split_loss_le (GR_tot_s g) (GR_tot_b g) A HA) as [H1 H2].
  split; (eapply N.le_trans; [apply N.mul_le_mono_l|exact HE]); assumption.
Qed.

Corollary GR_group_paid_le_arrived_total g A :
  GR_E1'_total g A ->
  sumN (map (fun ie => GR_batch_value (snd ie)) (GR_release g A)) <= A.
Proof. intros H. apply GR_group_paid_le_arrived. apply GR_E1'_from_total. exact H. Qed.

(** ** 10. Non-vacuity: concrete groups *)
Definition GR_r09 : N := 900000000000000000.
(** the former F3 witness: three stSei batches 1, 1, 1000 at rate 0.9; 810 of the expected 900 arrive *)
Definition GR_ex_g : list (N * hist_entry) :=
  [(1, mkHist 10 0 D D 1 GR_r09 GR_r09 false); (2, mkHist 20 0 D D 1 GR_r09 GR_r09 false);
   (3, mkHist 30 0 D D 1000 GR_r09 GR_r09 false)].

Example GR_ex_E1' : GR_E1' GR_ex_g 810.
Proof. unfold GR_E1'. cbv zeta. split; apply N.leb_le; vm_compute; reflexivity. Qed.

Example GR_ex_E1'_total : GR_E1'_total GR_ex_g 810.
Proof. unfold GR_E1'_total. split; apply N.leb_le; vm_compute; reflexivity. Qed.

Example GR_F3_witness_now_ok :
  (GR_tot_s GR_ex_g, GR_tot_b GR_ex_g) = (900, 0) /\
  map (fun ie => (fst ie, GR_batch_value (snd ie))) (GR_release GR_ex_g 810) = [(1, 0); (2, 0); (3, 809)] /\
  sumN (map (fun ie => GR_batch_value (snd ie)) (GR_release GR_ex_g 810)) = 809.
Proof. vm_compute. repeat split. Qed.

(** second former witness: one batch with 1 stSei and 1 bSei at rate 1, one coin arrives: now pays 1 *)
Definition GR_ex_g2 : list (N * hist_entry) := [(1, mkHist 10 1 D D 1 D D false)].
Example GR_ex_g2_ok :
  GR_E1' GR_ex_g2 1 /\ sumN (map (fun ie => GR_batch_value (snd ie)) (GR_release GR_ex_g2 1)) = 1.
Proof. split; [unfold GR_E1'; cbv zeta; split; apply N.leb_le; vm_compute; reflexivity | vm_compute; reflexivity]. Qed.

(** no loss (900 arrive) and surplus (1000 arrive): dust hypotheses are satisfiable, values computed *)
Example GR_ex_dust_nonvacuous :
  GR_tot_s GR_ex_g + GR_tot_b GR_ex_g <= D /\
  (forall ie, In ie GR_ex_g -> he_samt (snd ie) <= D /\ he_bamt (snd ie) <= D) /\
  map (fun ie => GR_batch_value (snd ie)) (GR_release GR_ex_g 900) = [0; 0; 900] /\
  map (fun ie => GR_batch_value (snd ie)) (GR_release GR_ex_g 1000) = [0; 0; 999].
Proof.
  split; [apply N.leb_le; vm_compute; reflexivity|]. split.
  - intros ie [<-|[<-|[<-|[]]]]; split; apply N.leb_le; vm_compute; reflexivity.
  - vm_compute. split; reflexivity.
Qed.

(** Outside E1' (found by search on the arithmetic): four stSei batches at rate 1, 8.19e17 expected,
    5.65e17 lost, (k-1)*L = 1.7e18 > 10^18.  The per-batch credits sum to one unit MORE than the
    arrived coins, so [GR_type_sum_le] (the route of the proof) needs E1'; at payout level the
    rate floors absorb it in this instance (payouts = A - 3).  No payout-level overpayment is known
    outside E1'; none is claimed impossible. *)
Definition GR_ex_g4 : list (N * hist_entry) :=
  [(1, mkHist 10 0 D D 249325445975942697 D D false); (2, mkHist 10 0 D D 226874477423511588 D D false);
   (3, mkHist 10 0 D D 223573344874044939 D D false); (4, mkHist 10 0 D D 119653130377447039 D D false)].
Definition GR_ex_A4 : N := 253992354649497905.

Example GR_outside_E1'_witness :
  GR_tot_s GR_ex_g4 = 819426398650946263 /\ GR_tot_b GR_ex_g4 = 0 /\
  ~ GR_E1' GR_ex_g4 GR_ex_A4 /\
  sumN (map (fun u => GR_credited u (GR_tot_s GR_ex_g4) (GR_tot_s GR_ex_g4 - GR_ex_A4) false)
            (GR_us GR_ex_g4)) = GR_ex_A4 + 1 /\
  sumN (map (fun ie => GR_batch_value (snd ie)) (GR_release GR_ex_g4 GR_ex_A4)) = GR_ex_A4 - 3.
Proof.
  split; [vm_compute; reflexivity|]. split; [vm_compute; reflexivity|]. split.
  - unfold GR_E1'. cbv zeta. intros [H _]. apply N.leb_le in H. vm_compute in H. discriminate H.
  - split; vm_compute; reflexivity.
Qed.
