(** * HubFee (C05): the peg-recovery fee is bounded and never over-collects past the 1:1 peg.

    Notation: after [slashing] the state is [s]; B = hs_bb s (bSei backing), S = bSei supply read
    from the world, Q = cb_reqb (pending bSei requests of the open batch), C = S + Q (claims),
    r = hs_ber s, thr = hp_thr, f = hp_pegfee.  "Synchronised" means r = rate_of B (S + Q).

    Main theorems
    - [rate_below_one], [fee_branch_underbacked]: a synchronised rate below 1 (in particular
      below a threshold <= 1) means 0 < B < C.
    - [slashing_synced]: [query_actual_state] returns a synchronised bSei rate whenever it
      recomputes (some delegation exists and something is booked).
    - [bond_peg_fee], [unbond_peg_fee], [conv_st_b_peg_fee], [conv_b_st_peg_fee]: for a successful
      execution of each of the four fee-charging handlers: credited = no-fee amount - fee;
      fee = 0 when r >= thr; otherwise fee = min (no-fee amount * f / D) (restoring cap);
      fee <= no-fee amount * f / D; the emitted Mint/Burn amounts and the new backing; and, when the
      pool starts synchronised and under-backed (r < 1, or B <= C), backing after <= claims after
      (exactly for bond / unbond / stSei->bSei; + 1 base unit for bSei->stSei under amount <= 10^18),
      claims after including the effect of the emitted Mint/Burn on the supply.
    - [unbond_final_no_overshoot]: the same on the final state of an unbond that also closes the
      batch (epoch undelegation), + 1 base unit, under claims <= 10^18.
    - [bond_mint_safe], [unbond_awf_safe], [conv_awf_safe] (and the [fee_*_block_safe] lemmas): under
      E1 magnitudes and parameters in [0,1] the fee computations cannot fail when the rate is
      synchronised - in particular the raw subtraction [claims + mint - (backing + payment)].
    - Examples: [hf_world_nonvacuous], [conv_b_st_restoring_cap_nonvacuous],
      [conv_b_st_proportional_cap_nonvacuous], [bond_caps_nonvacuous], [unbond_caps_nonvacuous],
      [conv_st_b_nonvacuous], [conv_b_st_dust_tight] (the + 1 is attained),
      [F1_former_cap_overshoot_witness] (the cap used before the fix in /repo overshoots). *)
From Krp Require Import Tactics Prelude Fixed FMap Types Env Registry Cw20 Hub Inv HubFrame.
Open Scope N_scope.

(** ** what a successful arithmetic primitive returned *)

Lemma mulU_some a r x : mulU a r = Some x -> x = a * r / D.
Proof.
  unfold mulU, narrow128. intros H.
  destruct ((a =? 0) || (r =? 0)) eqn:Hz.
  - inversion H; subst.
    assert (Hp : a * r = 0) by (apply N.eq_mul_0; lia). rewrite Hp. reflexivity.
  - destruct (fits128 (a * r / D)); [inversion H; reflexivity | discriminate].
Qed.

Lemma add128_some a b c : add128 a b = Some c -> c = a + b.
Proof. unfold add128, narrow128. destruct (fits128 (a + b)); intros H; [inversion H; reflexivity|discriminate]. Qed.

Lemma sub128_some a b c : sub128 a b = Some c -> b <= a /\ c = a - b.
Proof. unfold sub128. destruct (b <=? a) eqn:E; intros H; [inversion H; split; [lia|reflexivity]|discriminate]. Qed.

Lemma mul_ratio_some a n d x : mul_ratio a n d = Some x -> d <> 0 /\ x = a * n / d.
Proof.
  unfold mul_ratio, narrow128. destruct (d =? 0) eqn:E; [discriminate|].
  destruct (fits128 (a * n / d)); intros H; [inversion H; split; [lia|reflexivity]|discriminate].
Qed.

Lemma ratio_some a b x : ratio a b = Some x -> b <> 0 /\ x = a * D / b.
Proof.
  unfold ratio, narrow128. destruct (b =? 0) eqn:E; [discriminate|].
  destruct (fits128 (a * D / b)); intros H; [inversion H; split; [lia|reflexivity]|discriminate].
Qed.

Lemma ddiv_some a r m : ddiv a r = Some m -> r <> 0 /\ m = a * D / r.
Proof.
  unfold ddiv. intros H. bind_inv H as den Hden. bind_inv H as q Hq.
  apply mulU_some in Hden. apply ratio_some in Hq. apply mulU_some in H.
  destruct Hq as [Hnz ->].
  assert (Hd : den = r) by (subst den; rewrite N.mul_comm; apply N.div_mul; exact D_nz).
  subst den. rewrite Hd in *. split.
  - intros ->. apply Hnz. reflexivity.
  - subst m. rewrite N.mul_comm. apply N.div_mul. exact D_nz.
Qed.

(** ** the reported rate: backing over claims *)
Lemma exchange_rate_some B S Q r : exchange_rate B S Q = Some r -> r = rate_of B (S + Q).
Proof.
  unfold exchange_rate, rate_of. intros H. bind_inv H as c Hc. apply add128_some in Hc. subst c.
  destruct ((B =? 0) || (S + Q =? 0)); [inversion H; reflexivity|].
  apply ratio_some in H. tauto.
Qed.

(** a synchronised rate below 1 means the pool is strictly under-backed *)
Lemma rate_below_one B C : rate_of B C < D -> 0 < B /\ B < C.
Proof.
  unfold rate_of. destruct ((B =? 0) || (C =? 0)) eqn:E; [lia|]. intros H.
  assert (HB : B <> 0) by lia. assert (HC : C <> 0) by lia. split; [lia|].
  destruct (N.lt_ge_cases B C) as [Hlt|Hge]; [exact Hlt|exfalso].
  assert (D <= B * D / C); [|lia].
  apply N.div_le_lower_bound; [exact HC|]. rewrite (N.mul_comm C D), (N.mul_comm B D).
  apply N.mul_le_mono_l. exact Hge.
Qed.

Lemma rate_le_one B C : B <= C -> rate_of B C <= D.
Proof.
  unfold rate_of. intros H. destruct ((B =? 0) || (C =? 0)) eqn:E; [lia|].
  assert (HC : C <> 0) by lia.
  apply N.div_le_upper_bound; [exact HC|]. rewrite (N.mul_comm C D), (N.mul_comm B D).
  apply N.mul_le_mono_l. exact H.
Qed.

(** dividing by a rate in (0,1] never gives less than the amount *)
Lemma ddiv_ge p r : r <> 0 -> r <= D -> p <= p * D / r.
Proof.
  intros Hr Hle. apply N.div_le_lower_bound; [exact Hr|]. rewrite (N.mul_comm r p).
  apply N.mul_le_mono_l. exact Hle.
Qed.


(** the fee is charged only below the threshold; with threshold <= 1 the pool is then strictly
    under-backed *)
Lemma fee_branch_underbacked B C r thr :
  r = rate_of B C -> r < thr -> thr <= D -> 0 < B /\ B < C.
Proof. intros Hr Hlt Ht. apply rate_below_one. rewrite <- Hr. lia. Qed.

(** ** rounding: two floors lose at most one base unit *)
Lemma floor_pair_abs B c x r q :
  c <> 0 -> x <= D -> B * D < (r + 1) * c -> x * r < (q + 1) * D -> x * B < (q + 2) * c.
Proof.
  intros Hc Hx H2 H1. pose proof D_pos as HD.
  assert (H3 : x * B * D <= x * r * c + x * c).
  { destruct (N.eq_dec x 0) as [->|Hx0]; [lia|].
    assert (x * (B * D) <= x * ((r + 1) * c)) by (apply N.mul_le_mono_l; lia). lia. }
  assert (H4 : x * r * c < (q + 1) * D * c) by (apply N.mul_lt_mono_pos_r; lia).
  assert (H5 : x * c <= D * c) by (apply N.mul_le_mono_r; exact Hx).
  assert (H6 : x * B * D < (q + 2) * c * D) by lia.
  apply N.mul_lt_mono_pos_r in H6; [exact H6 | exact HD].
Qed.
Lemma floor_gt a b : b <> 0 -> a < (a / b + 1) * b.
Proof.
  intros Hb. pose proof (N.mul_succ_div_gt a b Hb) as H.
  rewrite <- N.add_1_r in H. rewrite N.mul_comm. exact H.
Qed.

Lemma floor_pair B c x : c <> 0 -> x <= D -> x * B < (x * (B * D / c) / D + 2) * c.
Proof.
  intros Hc Hx. apply (floor_pair_abs B c x (B * D / c)); [exact Hc | exact Hx | |].
  - apply floor_gt. exact Hc.
  - apply floor_gt. exact D_nz.
Qed.

Lemma redeem_dust_abs B c a x q :
  B <= c -> a <= c -> x <= a -> x * B < (q + 2) * c ->
  (a - x) * B <= (c - B) * (c - a) ->
  B - q <= (c - a) + 1.
Proof.
  intros HB Ha Hx Hq Hfee.
  destruct (N.le_gt_cases B q) as [Hle|Hgt]; [lia|].
  assert (exists g, c = B + g) as [g Hg] by (exists (c - B); lia).
  assert (exists R, c = a + R) as [R HR] by (exists (c - a); lia).
  assert (exists e, a = x + e) as [e He] by (exists (a - x); lia).
  assert (exists t, B = q + t) as [t Ht] by (exists (B - q); lia).
  replace (c - B) with g in Hfee by lia. replace (c - a) with R in * by lia.
  replace (a - x) with e in Hfee by lia. replace (B - q) with t by lia.
  assert (Hc : 0 < c) by lia.
  assert (Hk : t * c < (R + 2) * c).
  { assert (H1 : B * c <= c * R + x * B).
    { assert (E1 : B * c = B * x + B * e + B * R) by (rewrite HR, He; lia).
      assert (E2 : c * R = B * R + g * R) by (rewrite Hg; lia). lia. }
    assert (E3 : t * c + q * c = B * c) by (rewrite Ht; lia).
    lia. }
  apply N.mul_lt_mono_pos_r in Hk; lia.
Qed.

Lemma redeem_dust B c a x :
  c <> 0 -> B <= c -> a <= c -> x <= a -> x <= D ->
  (a - x) * B <= (c - B) * (c - a) ->
  B - x * (B * D / c) / D <= (c - a) + 1.
Proof.
  intros Hc HB Ha Hx HxD Hfee.
  apply (redeem_dust_abs B c a x); try assumption. apply floor_pair; assumption.
Qed.

(** ** the three fee computations, copied verbatim from the handlers (the handler theorems below
    show by conversion that these are the blocks the handlers run) *)
Definition fee_mint_block (S Q B p m f : N) : result N :=
  do max_fee <- mulU m f;
  do a1 <- add128 S m;
  do a2 <- add128 a1 Q;
  do b1 <- add128 B p;
  do required <- sub128 a2 b1;
  sub128 m (peg_fee max_fee required).

Definition fee_unbond_block (S Q B amount f : N) : result N :=
  do max_fee <- mulU amount f;
  do c <- add128 S Q;
  do required <- sub128 c B;
  sub128 amount (peg_fee max_fee required).

Definition fee_conv_block (S Q B amount f : N) : result N :=
  do max_fee <- mulU amount f;
  do c <- add128 S Q;
  do gap <- sub128 c B;
  do required <- (if B =? 0 then Some gap
                  else do rest <- sub128 c amount; mul_ratio gap rest B);
  sub128 amount (peg_fee max_fee required).

(** the caps *)
Definition required_mint (S Q B p m : N) : N := (S + m + Q) - (B + p).
Definition required_unbond (S Q B : N) : N := (S + Q) - B.
Definition required_conv (S Q B amount : N) : N :=
  if B =? 0 then (S + Q) - B else ((S + Q) - B) * ((S + Q) - amount) / B.

Lemma fee_mint_block_spec S Q B p m f mint :
  fee_mint_block S Q B p m f = Some mint ->
  B + p <= S + m + Q /\
  exists fee, fee = N.min (m * f / D) (required_mint S Q B p m) /\ fee <= m /\ mint = m - fee.
Proof.
  unfold fee_mint_block, peg_fee, required_mint. intros H.
  bind_inv H as mx Hmx. bind_inv H as a1 Ha1. bind_inv H as a2 Ha2. bind_inv H as b1 Hb1.
  bind_inv H as rq Hrq.
  apply mulU_some in Hmx. apply add128_some in Ha1, Ha2, Hb1. apply sub128_some in Hrq, H.
  subst mx a1 a2 b1. destruct Hrq as [Hle ->]. destruct H as [Hfee ->].
  split; [exact Hle|]. eexists. split; [reflexivity|]. split; [exact Hfee | reflexivity].
Qed.

Lemma fee_unbond_block_spec S Q B amount f awf :
  fee_unbond_block S Q B amount f = Some awf ->
  B <= S + Q /\
  exists fee, fee = N.min (amount * f / D) (required_unbond S Q B) /\ fee <= amount /\
              awf = amount - fee.
Proof.
  unfold fee_unbond_block, peg_fee, required_unbond. intros H.
  bind_inv H as mx Hmx. bind_inv H as c Hc. bind_inv H as rq Hrq.
  apply mulU_some in Hmx. apply add128_some in Hc. apply sub128_some in Hrq, H.
  subst mx c. destruct Hrq as [Hle ->]. destruct H as [Hfee ->].
  split; [exact Hle|]. eexists. split; [reflexivity|]. split; [exact Hfee | reflexivity].
Qed.

Lemma fee_conv_block_spec S Q B amount f awf :
  fee_conv_block S Q B amount f = Some awf ->
  B <= S + Q /\ (B <> 0 -> amount <= S + Q) /\
  exists fee, fee = N.min (amount * f / D) (required_conv S Q B amount) /\ fee <= amount /\
              awf = amount - fee.
Proof.
  unfold fee_conv_block, peg_fee, required_conv. intros H.
  bind_inv H as mx Hmx. bind_inv H as c Hc. bind_inv H as gap Hgap. bind_inv H as rq Hrq.
  apply mulU_some in Hmx. apply add128_some in Hc. apply sub128_some in Hgap, H.
  subst mx c. destruct Hgap as [Hle ->]. destruct H as [Hfee ->].
  split; [exact Hle|].
  destruct (B =? 0) eqn:HB.
  - inversion Hrq; subst rq. split; [lia|].
    eexists. split; [reflexivity|]. split; [exact Hfee | reflexivity].
  - bind_inv Hrq as rest Hrest. apply sub128_some in Hrest. destruct Hrest as [Ha ->].
    apply mul_ratio_some in Hrq. destruct Hrq as [_ ->]. split; [intros _; exact Ha|].
    eexists. split; [reflexivity|]. split; [exact Hfee | reflexivity].
Qed.

(** ** item 4: under E1 magnitudes the fee computations cannot fail when the synchronised rate is
    below 1 — in particular the raw subtractions [claims + mint - (backing + payment)] *)
Lemma fits_big x : x <= D * D + 2 * D -> fits128 x = true.
Proof.
  intros H. unfold fits128. apply N.leb_le. eapply N.le_trans; [exact H|]. vm_compute. discriminate.
Qed.

Lemma mulU_ok a r : a * r / D <= D * D + 2 * D -> mulU a r = Some (a * r / D).
Proof.
  intros H. unfold mulU, narrow128. destruct ((a =? 0) || (r =? 0)) eqn:Hz.
  - assert (Hp : a * r = 0) by (apply N.eq_mul_0; lia). rewrite Hp. reflexivity.
  - rewrite (fits_big _ H). reflexivity.
Qed.

Lemma add128_ok a b : a + b <= D * D + 2 * D -> add128 a b = Some (a + b).
Proof. intros H. unfold add128, narrow128. rewrite (fits_big _ H). reflexivity. Qed.

Lemma sub128_ok a b : b <= a -> sub128 a b = Some (a - b).
Proof. intros H. unfold sub128. apply N.leb_le in H. rewrite H. reflexivity. Qed.

Lemma frac_le a f : f <= D -> a * f / D <= a.
Proof.
  intros H. apply N.div_le_upper_bound; [exact D_nz|]. rewrite (N.mul_comm D a).
  apply N.mul_le_mono_l. exact H.
Qed.

Lemma ddiv_le_DD p r : r <> 0 -> p <= D -> p * D / r <= D * D.
Proof.
  intros Hr Hp. eapply N.le_trans; [|apply N.mul_le_mono_r; exact Hp].
  apply N.div_le_upper_bound; [exact Hr|].
  rewrite <- (N.mul_1_l (p * D)) at 1. apply N.mul_le_mono_r. lia.
Qed.

Lemma fee_mint_block_safe S Q B p m f r :
  p <= D -> S + Q <= D -> f <= D ->
  r = rate_of B (S + Q) -> r < D -> ddiv p r = Some m ->
  B + p <= S + m + Q /\
  fee_mint_block S Q B p m f = Some (m - N.min (m * f / D) (required_mint S Q B p m)).
Proof.
  intros Hp HC Hf Hr Hlt Hm. apply ddiv_some in Hm. destruct Hm as [Hr0 Hm].
  rewrite Hr in Hlt. apply rate_below_one in Hlt. destruct Hlt as [HB0 HBC].
  assert (Hpm : p <= m) by (subst m; apply ddiv_ge; [exact Hr0|]; subst r; apply rate_le_one; lia).
  assert (HmDD : m <= D * D) by (subst m; apply ddiv_le_DD; assumption).
  pose proof (frac_le m f Hf) as Hfr.
  assert (Hle : B + p <= S + m + Q) by lia. split; [exact Hle|].
  unfold fee_mint_block, peg_fee, required_mint.
  rewrite mulU_ok by lia. cbn [bind].
  rewrite add128_ok by lia. cbn [bind]. rewrite add128_ok by lia. cbn [bind].
  rewrite add128_ok by lia. cbn [bind]. rewrite sub128_ok by exact Hle. cbn [bind].
  apply sub128_ok. lia.
Qed.

Lemma fee_unbond_block_safe S Q B amount f r :
  amount <= D -> S + Q <= D -> f <= D ->
  r = rate_of B (S + Q) -> r < D ->
  B <= S + Q /\
  fee_unbond_block S Q B amount f
    = Some (amount - N.min (amount * f / D) (required_unbond S Q B)).
Proof.
  intros Ha HC Hf Hr Hlt.
  rewrite Hr in Hlt. apply rate_below_one in Hlt. destruct Hlt as [HB0 HBC].
  pose proof (frac_le amount f Hf) as Hfr. split; [lia|].
  unfold fee_unbond_block, peg_fee, required_unbond.
  rewrite mulU_ok by lia. cbn [bind]. rewrite add128_ok by lia. cbn [bind].
  rewrite sub128_ok by lia. cbn [bind]. apply sub128_ok. lia.
Qed.

Lemma fee_conv_block_safe S Q B amount f r :
  amount <= S -> S + Q <= D -> f <= D ->
  r = rate_of B (S + Q) -> r < D ->
  B <= S + Q /\ amount <= S + Q /\
  fee_conv_block S Q B amount f
    = Some (amount - N.min (amount * f / D) (required_conv S Q B amount)).
Proof.
  intros Ha HC Hf Hr Hlt.
  rewrite Hr in Hlt. apply rate_below_one in Hlt. destruct Hlt as [HB0 HBC].
  pose proof (frac_le amount f Hf) as Hfr. split; [lia|]. split; [lia|].
  unfold fee_conv_block, peg_fee, required_conv.
  assert (HBz : (B =? 0) = false) by lia. rewrite HBz.
  rewrite mulU_ok by lia. cbn [bind]. rewrite add128_ok by lia. cbn [bind].
  rewrite sub128_ok by lia. cbn [bind]. rewrite sub128_ok by lia. cbn [bind].
  assert (Hq : (S + Q - B) * (S + Q - amount) / B <= D * D).
  { eapply N.le_trans; [apply N.div_le_upper_bound with (q := (S + Q - B) * (S + Q - amount)); [lia|]|].
    - rewrite <- (N.mul_1_l ((S + Q - B) * (S + Q - amount))) at 1. apply N.mul_le_mono_r. lia.
    - apply N.mul_le_mono; lia. }
  unfold mul_ratio, narrow128. rewrite HBz. rewrite fits_big by lia. cbn [bind].
  apply sub128_ok. lia.
Qed.

(** ** handlers *)
Lemma slashing_of w self h s :
  query_actual_state w self h = Some s -> slashing w self h = Some (set_h_state h s).
Proof. unfold slashing. intros ->. reflexivity. Qed.

(** what the bond handler computes for the minted amount *)
Definition bond_mint (S Q B p r thr f : N) : result N :=
  do m <- ddiv p r;
  if r <? thr then fee_mint_block S Q B p m f else Some m.

Lemma mint_path_spec S Q B p r thr f mint :
  bond_mint S Q B p r thr f = Some mint ->
  exists m fee,
    ddiv p r = Some m /\ mint = m - fee /\ fee <= m /\
    (thr <= r -> fee = 0) /\
    (r < thr -> fee = N.min (m * f / D) (required_mint S Q B p m) /\ B + p <= S + m + Q) /\
    fee <= m * f / D /\
    (r = rate_of B (S + Q) -> r < D \/ B <= S + Q -> B + p <= (S + mint) + Q).
Proof.
  unfold bond_mint. intros H. bind_inv H as m Hm. exists m.
  destruct (r <? thr) eqn:Hthr.
  - apply fee_mint_block_spec in H. destruct H as (Hle & fee & Hfee & Hfm & ->).
    exists fee. split; [reflexivity|]. split; [reflexivity|]. split; [exact Hfm|].
    split; [lia|]. split; [intros _; split; assumption|]. split; [lia|].
    intros _ _. unfold required_mint in Hfee. lia.
  - inversion H; subst mint. exists 0. split; [reflexivity|]. split; [lia|]. split; [lia|].
    split; [reflexivity|]. split; [lia|]. split; [apply N.le_0_l|].
    intros Hr Hu. apply ddiv_some in Hm. destruct Hm as [Hr0 ->].
    assert (HBC : B <= S + Q).
    { destruct Hu as [Hlt|Hu]; [|exact Hu]. rewrite Hr in Hlt. apply rate_below_one in Hlt. lia. }
    assert (p <= p * D / r); [|lia].
    apply ddiv_ge; [exact Hr0|]. rewrite Hr. apply rate_le_one. exact HBC.
Qed.

Theorem bond_peg_fee w h self sender funds h' out s S :
  execute_bond w h self sender funds BkB = Some (h', out) ->
  query_actual_state w self h = Some s ->
  hub_bsei_supply w h = Some S ->
  let B := hs_bb s in let Q := cb_reqb (h_batch h) in let r := hs_ber s in
  let thr := hp_thr (h_params h) in let f := hp_pegfee (h_params h) in
  exists pay m fee dmsgs tok,
    find_payment (hp_underlying (h_params h)) funds = Some pay /\
    ddiv (snd pay) r = Some m /\
    hc_bsei (h_cfg h) = Some tok /\
    out = dmsgs ++ [MWasm tok (WCw20 (CMint sender (m - fee))) []] /\
    fee <= m /\
    (thr <= r -> fee = 0) /\
    (r < thr -> fee = N.min (m * f / D) (required_mint S Q B (snd pay) m)) /\
    fee <= m * f / D /\
    hs_bb (h_state h') = B + snd pay /\ cb_reqb (h_batch h') = Q /\
    hs_ber (h_state h') = rate_of (B + snd pay) ((S + (m - fee)) + Q) /\
    (r = rate_of B (S + Q) -> r < D \/ B <= S + Q ->
     B + snd pay <= (S + (m - fee)) + Q) /\
    (* the computation the handler ran for the minted amount *)
    bond_mint S Q B (snd pay) r thr f = Some (m - fee).
Proof.
  intros H Hs HS. cbv zeta. unfold execute_bond in H. cbv zeta in H.
  bind_inv H as dispaddr Hd. check_inv H as Hlen.
  bind_inv H as pay Hpay. rewrite (slashing_of _ _ _ _ Hs) in H. cbn [bind] in H.
  cbn [h_state h_cfg h_params h_batch set_h_state] in H.
  change (hub_bsei_supply w (set_h_state h s)) with (hub_bsei_supply w h) in H. rewrite HS in H.
  bind_inv H as mint Hmint.
  change (bond_mint S (cb_reqb (h_batch h)) (hs_bb s) (snd pay) (hs_ber s)
            (hp_thr (h_params h)) (hp_pegfee (h_params h)) = Some mint) in Hmint.
  pose proof Hmint as Hrun. apply mint_path_spec in Hmint.
  destruct Hmint as (m & fee & Hm & -> & Hfm & Hno & Hyes & Hmax & Hover).
  bind_inv H as supply Hsup. apply add128_some in Hsup.
  bind_inv H as s' Hs'. bind_inv Hs' as bb Hbb. bind_inv Hs' as ber Hber.
  apply add128_some in Hbb. apply exchange_rate_some in Hber. inversion Hs'; subst s'. clear Hs'.
  bind_inv H as vals Hvals. destruct vals as [|v0 vr]; [discriminate|].
  bind_inv H as dl Hdl. bind_inv H as tok Htok. inversion H; subst h' out. clear H.
  cbn [h_cfg set_h_state] in Htok.
  exists pay, m, fee, (delegate_msgs (v0 :: vr) (snd dl) (fst pay)), tok.
  cbn [h_state h_batch set_h_state hs_bb hs_ber set_ber set_rates set_bonded].
  subst bb supply ber.
  repeat split; try assumption; try reflexivity.
  intros Hlt. apply Hyes in Hlt. tauto.
Qed.

(** *** unbond bSei *)
Definition unbond_awf (S Q B amount r thr f : N) : result N :=
  if r <? thr then fee_unbond_block S Q B amount f else Some amount.

Lemma unbond_path_spec S Q B amount r thr f awf :
  unbond_awf S Q B amount r thr f = Some awf ->
  exists fee,
    awf = amount - fee /\ fee <= amount /\
    (thr <= r -> fee = 0) /\
    (r < thr -> fee = N.min (amount * f / D) (required_unbond S Q B) /\ B <= S + Q) /\
    fee <= amount * f / D /\
    (r = rate_of B (S + Q) -> r < D \/ B <= S + Q -> amount <= S ->
     B <= (S - amount) + (Q + awf)).
Proof.
  unfold unbond_awf. intros H. destruct (r <? thr) eqn:Hthr.
  - apply fee_unbond_block_spec in H. destruct H as (Hle & fee & Hfee & Hfm & ->).
    exists fee. split; [reflexivity|]. split; [exact Hfm|]. split; [lia|].
    split; [intros _; split; assumption|]. split; [lia|].
    intros _ _ Ha. unfold required_unbond in Hfee. lia.
  - inversion H; subst awf. exists 0. split; [lia|]. split; [lia|]. split; [reflexivity|].
    split; [lia|]. split; [apply N.le_0_l|].
    intros Hr Hu Ha.
    assert (HBC : B <= S + Q); [|lia].
    destruct Hu as [Hlt|Hu]; [|exact Hu]. rewrite Hr in Hlt. apply rate_below_one in Hlt. lia.
Qed.

Lemma maybe_undelegate_cases w self h h' msgs :
  maybe_undelegate w self h = Some (h', msgs) ->
  (h' = h /\ msgs = []) \/
  (exists b_und,
     mulU (cb_reqb (h_batch h)) (hs_ber (h_state h)) = Some b_und /\ b_und <= hs_bb (h_state h) /\
     hs_bb (h_state h') = hs_bb (h_state h) - b_und /\ cb_reqb (h_batch h') = 0 /\
     h_wait h' = h_wait h /\ h_cfg h' = h_cfg h).
Proof.
  unfold maybe_undelegate. intros H. bind_inv H as passed Hp.
  destruct (hp_epoch (h_params h) <? passed).
  - right. unfold process_undelegations in H.
    bind_inv H as st_und E1. bind_inv H as b_und E2. bind_inv H as claim E3. bind_inv H as ms E4.
    bind_inv H as bst E5. bind_inv H as bb E6. bind_inv H as id' E7. inversion H; subst h' msgs.
    apply sub128_some in E6. destruct E6 as [Hle ->].
    exists b_und. cbn. repeat split; try reflexivity; assumption.
  - left. inversion H; subst. split; reflexivity.
Qed.

Theorem unbond_peg_fee w h self amount user h' out s S :
  execute_unbond w h self amount user = Some (h', out) ->
  query_actual_state w self h = Some s ->
  hub_bsei_supply w h = Some S ->
  let B := hs_bb s in let Q := cb_reqb (h_batch h) in let r := hs_ber s in
  let thr := hp_thr (h_params h) in let f := hp_pegfee (h_params h) in
  let id := cb_id (h_batch h) in
  exists fee msgs tok,
    fee <= amount /\
    (thr <= r -> fee = 0) /\
    (r < thr -> fee = N.min (amount * f / D) (required_unbond S Q B)) /\
    fee <= amount * f / D /\
    amount <= S /\
    (* the claim recorded for the user is the amount less the fee *)
    h_wait h' = set eqbAN (h_wait h) (user, id)
                  (fst (wait_of h user id) + (amount - fee), snd (wait_of h user id)) /\
    hc_bsei (h_cfg h) = Some tok /\
    out = msgs ++ [MWasm tok (WCw20 (CBurn amount)) []] /\
    (* pool after the fee step (before an epoch undelegation, if one is due) *)
    (r = rate_of B (S + Q) -> r < D \/ B <= S + Q ->
     B <= (S - amount) + (Q + (amount - fee))) /\
    (* final state: either no undelegation was due ... or the open batch was priced and closed *)
    ((hs_bb (h_state h') = B /\ cb_reqb (h_batch h') = Q + (amount - fee)) \/
     (hs_bb (h_state h') =
        B - (Q + (amount - fee)) * rate_of B ((S - amount) + (Q + (amount - fee))) / D /\
      cb_reqb (h_batch h') = 0)) /\
    (* the computation the handler ran for the recorded amount *)
    unbond_awf S Q B amount r thr f = Some (amount - fee).
Proof.
  intros H Hs HS. cbv zeta. unfold execute_unbond in H. cbv zeta in H.
  rewrite (slashing_of _ _ _ _ Hs) in H. cbn [bind] in H.
  cbn [h_state h_cfg h_params h_batch set_h_state] in H.
  change (hub_bsei_supply w (set_h_state h s)) with (hub_bsei_supply w h) in H. rewrite HS in H.
  cbn [bind] in H.
  bind_inv H as awf Hawf.
  change (unbond_awf S (cb_reqb (h_batch h)) (hs_bb s) amount (hs_ber s)
            (hp_thr (h_params h)) (hp_pegfee (h_params h)) = Some awf) in Hawf.
  pose proof Hawf as Hrun. apply unbond_path_spec in Hawf.
  destruct Hawf as (fee & -> & Hfm & Hno & Hyes & Hmax & Hover).
  bind_inv H as reqb Hreqb. apply add128_some in Hreqb.
  bind_inv H as h2 Hh2.
  bind_inv H as supply' Hsup. apply sub128_some in Hsup. destruct Hsup as [HaS ->].
  bind_inv H as ber Hber. apply exchange_rate_some in Hber.
  bind_inv H as rr Hrr. destruct rr as [h4 msgs].
  bind_inv H as tok Htok. inversion H; subst h' out. clear H.
  (* the wait list *)
  unfold add_wait in Hh2. unfold wait_of in *. cbn [h_wait set_h_state] in Hh2.
  destruct (match get eqbAN (h_wait h) (user, cb_id (h_batch h)) with
            | Some x => x | None => (0, 0) end) as [x y] eqn:Hxy.
  bind_inv Hh2 as x' Hx'. apply add128_some in Hx'. cbn [bind] in Hh2. inversion Hh2; subst h2 x'.
  clear Hh2.
  apply maybe_undelegate_cases in Hrr.
  exists fee, msgs, tok. cbn [fst snd].
  split; [exact Hfm|]. split; [exact Hno|]. split; [intros Hlt; apply Hyes in Hlt; tauto|].
  split; [exact Hmax|]. split; [exact HaS|].
  destruct Hrr as [[-> ->]|(b_und & Hmul & Hle & Hbb & Hrq & Hw & Hcfg)].
  - cbn [h_cfg set_h_batch set_h_state set_h_wait] in Htok.
    cbn. split; [reflexivity|]. split; [exact Htok|]. split; [reflexivity|].
    split; [intros Hr Hu; apply Hover; assumption|].
    split; [|exact Hrun]. left. split; [reflexivity | exact Hreqb].
  - cbn [h_state h_batch h_wait h_cfg set_h_batch set_h_state set_h_wait hs_bb hs_ber set_ber set_rates
         cb_reqb] in *.
    split; [exact Hw|]. split.
    { rewrite Hcfg in Htok. exact Htok. }
    split; [reflexivity|]. split; [intros Hr Hu; apply Hover; assumption|].
    split; [|exact Hrun]. right. apply mulU_some in Hmul. subst b_und reqb ber. split; [exact Hbb | exact Hrq].
Qed.

(** an unbond that closes the batch prices the requests at the refreshed rate: the pool ends at
    most one base unit above its claims *)
Theorem unbond_final_no_overshoot w h self amount user h' out s S :
  execute_unbond w h self amount user = Some (h', out) ->
  query_actual_state w self h = Some s ->
  hub_bsei_supply w h = Some S ->
  let B := hs_bb s in let Q := cb_reqb (h_batch h) in let r := hs_ber s in
  r = rate_of B (S + Q) -> r < D \/ B <= S + Q -> S + Q <= D ->
  hs_bb (h_state h') <= (S - amount) + cb_reqb (h_batch h') + 1.
Proof.
  intros H Hs HS. cbv zeta. intros Hr Hu HE1.
  destruct (unbond_peg_fee _ _ _ _ _ _ _ _ _ H Hs HS)
    as (fee & msgs & tok & Hfm & _ & _ & _ & HaS & _ & _ & _ & Hover & Hfin & _).
  cbv zeta in Hover, Hfin. specialize (Hover Hr Hu).
  destruct Hfin as [[-> ->] | [-> ->]]; [lia|].
  remember (hs_bb s) as B eqn:EB. remember (cb_reqb (h_batch h) + (amount - fee)) as Q' eqn:EQ.
  remember (S - amount + Q') as c' eqn:Ec.
  unfold rate_of. destruct ((B =? 0) || (c' =? 0)) eqn:Hz.
  - assert (HB : B = 0) by lia. rewrite HB. rewrite N.sub_0_l. apply N.le_0_l.
  - assert (Hd : B - Q' * (B * D / c') / D <= (c' - Q') + 1).
    { apply redeem_dust; try lia. rewrite N.sub_diag. apply N.le_0_l. }
    lia.
Qed.

(** *** convert stSei -> bSei : same minting computation as bond, the payment being the coin value
    of the stSei given up *)
Theorem conv_st_b_peg_fee w h self amount user h' out s S :
  convert_stsei_bsei w h self amount user = Some (h', out) ->
  query_actual_state w self h = Some s ->
  hub_bsei_supply w h = Some S ->
  let B := hs_bb s in let Q := cb_reqb (h_batch h) in let r := hs_ber s in
  let thr := hp_thr (h_params h) in let f := hp_pegfee (h_params h) in
  exists d m fee stok btok,
    mulU amount (hs_ser s) = Some d /\
    ddiv d r = Some m /\
    hc_stsei (h_cfg h) = Some stok /\ hc_bsei (h_cfg h) = Some btok /\
    out = [MWasm btok (WCw20 (CMint user (m - fee))) []; MWasm stok (WCw20 (CBurn amount)) []] /\
    fee <= m /\
    (thr <= r -> fee = 0) /\
    (r < thr -> fee = N.min (m * f / D) (required_mint S Q B d m)) /\
    fee <= m * f / D /\
    hs_bb (h_state h') = B + d /\ cb_reqb (h_batch h') = Q /\
    hs_ber (h_state h') = rate_of (B + d) ((S + (m - fee)) + Q) /\
    (r = rate_of B (S + Q) -> r < D \/ B <= S + Q -> B + d <= (S + (m - fee)) + Q) /\
    bond_mint S Q B d r thr f = Some (m - fee).
Proof.
  intros H Hs HS. cbv zeta. unfold convert_stsei_bsei in H. cbv zeta in H.
  rewrite (slashing_of _ _ _ _ Hs) in H. cbn [bind] in H.
  cbn [h_state h_cfg h_params h_batch set_h_state] in H.
  change (hub_bsei_supply w (set_h_state h s)) with (hub_bsei_supply w h) in H. rewrite HS in H.
  bind_inv H as stok Hstok. bind_inv H as btok Hbtok. bind_inv H as d Hd.
  bind_inv H as m Hm. bind_inv H as ssupply Hss.
  bind_inv H as mint Hmint.
  assert (Hbm : bond_mint S (cb_reqb (h_batch h)) (hs_bb s) d (hs_ber s)
                  (hp_thr (h_params h)) (hp_pegfee (h_params h)) = Some mint).
  { unfold bond_mint. rewrite Hm. cbn [bind]. exact Hmint. }
  clear Hmint. pose proof Hbm as Hrun. apply mint_path_spec in Hbm.
  destruct Hbm as (m' & fee & Hm' & -> & Hfm & Hno & Hyes & Hmax & Hover).
  rewrite Hm in Hm'. inversion Hm'; subst m'. clear Hm'.
  bind_inv H as bb Hbb. bind_inv H as bst Hbst. bind_inv H as bsup' Hbsup.
  bind_inv H as ber Hber. bind_inv H as ssup' Hssup. bind_inv H as ser Hser.
  apply add128_some in Hbb, Hbsup. apply exchange_rate_some in Hber.
  inversion H; subst h' out. clear H.
  exists d, m, fee, stok, btok.
  cbn [h_state h_batch set_h_state hs_bb hs_ber set_rates set_bonded].
  subst bb bsup' ber.
  repeat split; try assumption; try reflexivity.
  intros Hlt. apply Hyes in Hlt. tauto.
Qed.

(** *** convert bSei -> stSei *)
Definition conv_awf (S Q B amount r thr f : N) : result N :=
  if r <? thr then fee_conv_block S Q B amount f else Some amount.

Lemma conv_path_spec S Q B amount r thr f awf :
  conv_awf S Q B amount r thr f = Some awf ->
  exists fee,
    awf = amount - fee /\ fee <= amount /\
    (thr <= r -> fee = 0) /\
    (r < thr -> fee = N.min (amount * f / D) (required_conv S Q B amount) /\
                B <= S + Q /\ (B <> 0 -> amount <= S + Q)) /\
    fee <= amount * f / D /\
    (r = rate_of B (S + Q) -> r < D \/ B <= S + Q -> amount <= S -> amount <= D ->
     B - awf * r / D <= ((S - amount) + Q) + 1).
Proof.
  unfold conv_awf. intros H.
  assert (Hcore : forall fee, fee <= amount ->
            (B <> 0 -> fee * B <= (S + Q - B) * (S + Q - amount)) ->
            r = rate_of B (S + Q) -> r < D \/ B <= S + Q -> amount <= S -> amount <= D ->
            B - (amount - fee) * r / D <= ((S - amount) + Q) + 1).
  { intros fee Hfm Hcap Hr Hu HaS HaD.
    assert (HBC : B <= S + Q).
    { destruct Hu as [Hlt|Hu]; [|exact Hu]. rewrite Hr in Hlt. apply rate_below_one in Hlt. lia. }
    rewrite Hr. unfold rate_of. destruct ((B =? 0) || (S + Q =? 0)) eqn:Hz.
    - assert (HB : B = 0) by lia. rewrite HB. rewrite N.sub_0_l. apply N.le_0_l.
    - assert (Hd : B - (amount - fee) * (B * D / (S + Q)) / D <= (S + Q - amount) + 1).
      { apply redeem_dust; try lia.
        replace (amount - (amount - fee)) with fee by lia. apply Hcap. lia. }
      lia. }
  destruct (r <? thr) eqn:Hthr.
  - apply fee_conv_block_spec in H. destruct H as (Hle & Ha & fee & Hfee & Hfm & ->).
    exists fee. split; [reflexivity|]. split; [exact Hfm|]. split; [lia|].
    split; [intros _; repeat split; assumption|]. split; [lia|].
    apply Hcore; [exact Hfm|]. intros HB.
    assert (Hrq : fee <= (S + Q - B) * (S + Q - amount) / B).
    { unfold required_conv in Hfee. assert (HBz : (B =? 0) = false) by lia. rewrite HBz in Hfee. lia. }
    eapply N.le_trans; [apply N.mul_le_mono_r; exact Hrq|].
    rewrite N.mul_comm. apply N.mul_div_le. exact HB.
  - inversion H; subst awf. exists 0. split; [lia|]. split; [lia|]. split; [reflexivity|].
    split; [lia|]. split; [apply N.le_0_l|].
    intros Hr Hu HaS HaD.
    assert (X : B - (amount - 0) * r / D <= S - amount + Q + 1).
    { apply Hcore; try assumption; [lia|]. intros _. apply N.le_0_l. }
    rewrite N.sub_0_r in X. exact X.
Qed.

Theorem conv_b_st_peg_fee w h self amount user h' out s S :
  convert_bsei_stsei w h self amount user = Some (h', out) ->
  query_actual_state w self h = Some s ->
  hub_bsei_supply w h = Some S ->
  let B := hs_bb s in let Q := cb_reqb (h_batch h) in let r := hs_ber s in
  let thr := hp_thr (h_params h) in let f := hp_pegfee (h_params h) in
  exists fee d to_mint stok btok,
    fee <= amount /\
    (thr <= r -> fee = 0) /\
    (r < thr -> fee = N.min (amount * f / D) (required_conv S Q B amount)) /\
    fee <= amount * f / D /\
    mulU (amount - fee) r = Some d /\
    ddiv d (hs_ser s) = Some to_mint /\
    (* the user never receives more stSei than without a fee *)
    to_mint <= (amount * r / D) * D / hs_ser s /\
    hc_stsei (h_cfg h) = Some stok /\ hc_bsei (h_cfg h) = Some btok /\
    out = [MWasm stok (WCw20 (CMint user to_mint)) []; MWasm btok (WCw20 (CBurn amount)) []] /\
    amount <= S /\ d <= B /\
    hs_bb (h_state h') = B - d /\ cb_reqb (h_batch h') = Q /\
    hs_ber (h_state h') = rate_of (B - d) ((S - amount) + Q) /\
    (r = rate_of B (S + Q) -> r < D \/ B <= S + Q -> amount <= D ->
     B - d <= ((S - amount) + Q) + 1) /\
    conv_awf S Q B amount r thr f = Some (amount - fee).
Proof.
  intros H Hs HS. cbv zeta. unfold convert_bsei_stsei in H. cbv zeta in H.
  rewrite (slashing_of _ _ _ _ Hs) in H. cbn [bind] in H.
  cbn [h_state h_cfg h_params h_batch set_h_state] in H.
  change (hub_bsei_supply w (set_h_state h s)) with (hub_bsei_supply w h) in H. rewrite HS in H.
  bind_inv H as stok Hstok. bind_inv H as btok Hbtok. cbn [bind] in H.
  bind_inv H as ssupply Hss.
  bind_inv H as awf Hawf.
  change (conv_awf S (cb_reqb (h_batch h)) (hs_bb s) amount (hs_ber s)
            (hp_thr (h_params h)) (hp_pegfee (h_params h)) = Some awf) in Hawf.
  pose proof Hawf as Hrun. apply conv_path_spec in Hawf.
  destruct Hawf as (fee & -> & Hfm & Hno & Hyes & Hmax & Hover).
  bind_inv H as d Hd. bind_inv H as to_mint Htm.
  bind_inv H as bb Hbb. bind_inv H as bst Hbst. bind_inv H as bsup' Hbsup.
  bind_inv H as ber Hber. bind_inv H as ssup' Hssup. bind_inv H as ser Hser.
  apply sub128_some in Hbb, Hbsup. destruct Hbb as [HdB ->]. destruct Hbsup as [HaS ->].
  apply exchange_rate_some in Hber.
  inversion H; subst h' out. clear H.
  exists fee, d, to_mint, stok, btok.
  cbn [h_state h_batch set_h_state hs_bb hs_ber set_rates set_bonded].
  pose proof (mulU_some _ _ _ Hd) as Hdv.
  split; [exact Hfm|]. split; [exact Hno|]. split; [intros Hlt; apply Hyes in Hlt; tauto|].
  split; [exact Hmax|]. split; [exact Hd|]. split; [exact Htm|].
  split.
  { apply ddiv_some in Htm. destruct Htm as [Hs0 ->].
    apply N.div_le_mono; [exact Hs0|]. apply N.mul_le_mono_r. subst d.
    apply N.div_le_mono; [exact D_nz|]. apply N.mul_le_mono_r. lia. }
  split; [reflexivity|]. split; [reflexivity|]. split; [reflexivity|].
  split; [exact HaS|]. split; [exact HdB|]. split; [reflexivity|]. split; [reflexivity|].
  split; [exact Hber|]. split; [|exact Hrun].
  intros Hr Hu HaD. subst d. apply Hover; assumption.
Qed.

(** ** the synchronised state carries the reported rate whenever [query_actual_state] recomputes
    (some delegation exists and something is booked); in the remaining cases the stored rate is
    returned unchanged and [hs_ber s = rate_of ...] is an invariant of the history (C03) *)
Lemma slashing_synced w self h s :
  query_actual_state w self h = Some s ->
  all_delegations (w_env w) self <> [] ->
  hs_bb (h_state h) + hs_bst (h_state h) <> 0 ->
  exists S, hub_bsei_supply w h = Some S /\
            hs_ber s = rate_of (hs_bb s) (S + cb_reqb (h_batch h)).
Proof.
  unfold query_actual_state. intros H Hd Hb.
  destruct (all_delegations (w_env w) self) as [|d0 dr]; [contradiction Hd; reflexivity|].
  bind_inv H as actual Hact. bind_inv H as total Htot. apply add128_some in Htot.
  destruct (total =? 0) eqn:Hz; [lia|].
  bind_inv H as bissued Hbi. bind_inv H as sissued Hsi. bind_inv H as s1 Hs1.
  bind_inv H as ber Hber. bind_inv H as ser Hser. inversion H; subst s. clear H.
  apply exchange_rate_some in Hber. exists bissued. split; [reflexivity|]. exact Hber.
Qed.

(** ** item 4 at the level of the handlers' fee paths *)
Lemma bond_mint_safe S Q B p r thr f m :
  p <= D -> S + Q <= D -> f <= D -> thr <= D ->
  r = rate_of B (S + Q) -> ddiv p r = Some m ->
  bond_mint S Q B p r thr f
    = Some (if r <? thr then m - N.min (m * f / D) (required_mint S Q B p m) else m).
Proof.
  intros Hp HC Hf Ht Hr Hm. unfold bond_mint. rewrite Hm. cbn [bind].
  destruct (r <? thr) eqn:E; [|reflexivity].
  apply (fee_mint_block_safe S Q B p m f r); try assumption. lia.
Qed.

Lemma unbond_awf_safe S Q B amount r thr f :
  amount <= D -> S + Q <= D -> f <= D -> thr <= D ->
  r = rate_of B (S + Q) ->
  unbond_awf S Q B amount r thr f
    = Some (if r <? thr then amount - N.min (amount * f / D) (required_unbond S Q B) else amount).
Proof.
  intros Ha HC Hf Ht Hr. unfold unbond_awf.
  destruct (r <? thr) eqn:E; [|reflexivity].
  apply (fee_unbond_block_safe S Q B amount f r); try assumption. lia.
Qed.

Lemma conv_awf_safe S Q B amount r thr f :
  amount <= S -> S + Q <= D -> f <= D -> thr <= D ->
  r = rate_of B (S + Q) ->
  conv_awf S Q B amount r thr f
    = Some (if r <? thr then amount - N.min (amount * f / D) (required_conv S Q B amount)
            else amount).
Proof.
  intros Ha HC Hf Ht Hr. unfold conv_awf.
  destruct (r <? thr) eqn:E; [|reflexivity].
  apply (fee_conv_block_safe S Q B amount f r); try assumption. lia.
Qed.

(** the three fee paths written out (they are the handlers' own code, see the last conjunct of
    the four handler theorems) *)
Lemma bond_mint_def S Q B p r thr f :
  bond_mint S Q B p r thr f =
    (do m <- ddiv p r;
     if r <? thr then
       do max_fee <- mulU m f;
       do a1 <- add128 S m;
       do a2 <- add128 a1 Q;
       do b1 <- add128 B p;
       do required <- sub128 a2 b1;
       sub128 m (N.min max_fee required)
     else Some m).
Proof. reflexivity. Qed.

Lemma unbond_awf_def S Q B amount r thr f :
  unbond_awf S Q B amount r thr f =
    (if r <? thr then
       do max_fee <- mulU amount f;
       do c <- add128 S Q;
       do required <- sub128 c B;
       sub128 amount (N.min max_fee required)
     else Some amount).
Proof. reflexivity. Qed.

Lemma conv_awf_def S Q B amount r thr f :
  conv_awf S Q B amount r thr f =
    (if r <? thr then
       do max_fee <- mulU amount f;
       do c <- add128 S Q;
       do gap <- sub128 c B;
       do required <- (if B =? 0 then Some gap
                       else do rest <- sub128 c amount; mul_ratio gap rest B);
       sub128 amount (N.min max_fee required)
     else Some amount).
Proof. reflexivity. Qed.

(** ** non-vacuity: a concrete under-pegged world (E1, E4-wired hub, synchronised rate 0.999).
    bSei: 1 000 000 tokens (holder 20), no pending requests, 999 000 coins booked;
    stSei: 2 000 000 tokens, 2 000 000 coins booked; 2 999 000 delegated (nothing to slash);
    peg fee 0.5 %, threshold 1.0; epoch 100 not elapsed in [hf_w], elapsed in [hf_wc]. *)
Definition hf_cfg : hub_config :=
  mkHubConfig A_owner A_owner (Some A_disp) (Some A_reg) (Some A_bsei) (Some A_stsei) None None.
Definition hf_params : hub_params := mkHubParams 100 usei 100 5000000000000000 D usei (Some false).
Definition hf_tok (s : N) : token := mkToken A_hub s (Some (A_hub, None)) [(20, s)] [].
Definition hf_hub (lut : N) : hub :=
  mkHub hf_cfg (mkHubState D D 999000 2000000 0 0 lut 0) hf_params (mkBatch 1 0 0) A_owner [] [] [].
Definition hf_world (h : hub) : world :=
  mkWorld (Some h) None None (Some (mkReg A_owner A_hub [0; 1] A_owner))
          (Some (hf_tok 1000000)) (Some (hf_tok 2000000))
          (set_del (empty_env 100) [((A_hub, 0), 1499000); ((A_hub, 1), 1500000)]).
Definition hf_h : hub := hf_hub 1000000.     (* last undelegation = now : epoch not elapsed *)
Definition hf_hc : hub := hf_hub 0.          (* epoch elapsed: the next unbond closes the batch *)
Definition hf_w : world := hf_world hf_h.
Definition hf_wc : world := hf_world hf_hc.
Definition hf_s : hub_state := mkHubState 999000000000000000 D 999000 2000000 0 0 1000000 0.

Ltac hf_conc := vm_compute; first [reflexivity | let X := fresh in intro X; discriminate X].
Ltac hf_split := repeat match goal with |- _ /\ _ => split end.

(** the hypotheses shared by all handler theorems hold in this world *)
Example hf_world_nonvacuous :
  query_actual_state hf_w A_hub hf_h = Some hf_s /\
  hub_bsei_supply hf_w hf_h = Some 1000000 /\
  all_delegations (w_env hf_w) A_hub <> [] /\
  hs_bb (h_state hf_h) + hs_bst (h_state hf_h) <> 0 /\
  hs_ber hf_s = rate_of (hs_bb hf_s) (1000000 + cb_reqb (h_batch hf_h)) /\
  hs_ber hf_s < D /\ hs_ber hf_s < hp_thr (h_params hf_h) /\
  hp_thr (h_params hf_h) <= D /\ hp_pegfee (h_params hf_h) <= D /\
  1000000 + cb_reqb (h_batch hf_h) <= D.
Proof. hf_split; hf_conc. Qed.

(** what the examples observe of a handler result: backing, open-batch requests and stored rate of
    the resulting hub, and the emitted messages *)
Definition hf_obs (x : result (hub * list cmsg)) : result (N * N * N * list cmsg) :=
  option_map (fun y => (hs_bb (h_state (fst y)), cb_reqb (h_batch (fst y)), hs_ber (h_state (fst y)),
                        snd y)) x.
Definition hf_wait (x : result (hub * list cmsg)) (u : addr) (b : N) : result (N * N) :=
  option_map (fun y => wait_of (fst y) u b) x.

(** bSei -> stSei, the restoring cap binds: converting half the supply, proportional cap 2 500,
    restoring cap 1000 * 500 000 / 999 000 = 500; the pool ends exactly at the peg
    (500 000 coins for 1 000 000 - 500 000 tokens, rate 1.0) *)
Example conv_b_st_restoring_cap_nonvacuous :
  hf_obs (convert_bsei_stsei hf_w hf_h A_hub 500000 20) =
    Some (500000, 0, D,
          [MWasm A_stsei (WCw20 (CMint 20 499000)) []; MWasm A_bsei (WCw20 (CBurn 500000)) []]) /\
  500000 * hp_pegfee (h_params hf_h) / D = 2500 /\
  required_conv 1000000 0 999000 500000 = 500 /\
  mulU (500000 - 500) (hs_ber hf_s) = Some 499000.
Proof. hf_split; hf_conc. Qed.

(** bSei -> stSei, the proportional cap binds: 1 000 tokens, caps 5 and 1 000; 998 006 coins stay
    for 999 000 tokens *)
Example conv_b_st_proportional_cap_nonvacuous :
  hf_obs (convert_bsei_stsei hf_w hf_h A_hub 1000 20) =
    Some (998006, 0, rate_of 998006 999000,
          [MWasm A_stsei (WCw20 (CMint 20 994)) []; MWasm A_bsei (WCw20 (CBurn 1000)) []]) /\
  1000 * hp_pegfee (h_params hf_h) / D = 5 /\
  required_conv 1000000 0 999000 1000 = 1000 /\
  mulU (1000 - 5) (hs_ber hf_s) = Some 994.
Proof. hf_split; hf_conc. Qed.

(** F1 (fixed in /repo): with the former cap (the whole coin gap, 1 000) the same conversion of
    500 000 tokens would have withheld 1 000 tokens, released 498 501 coins and left 500 499 coins
    backing 500 000 claims *)
Example F1_former_cap_overshoot_witness :
  let r := rate_of 999000 1000000 in
  let fee := N.min (500000 * 5000000000000000 / D) (1000000 - 999000) in
  fee = 1000 /\ 999000 - (500000 - fee) * r / D = 500499 /\ (1000000 - 500000) + 2 < 500499.
Proof. cbv zeta. hf_split; hf_conc. Qed.

(** bond: 100 000 coins, proportional cap (500 of 100 100) binds; 10 000 000 coins, the restoring
    cap (11 010 of 10 010 010) binds and the pool ends exactly at the peg
    (10 999 000 coins for 1 000 000 + 9 999 000 tokens) *)
Example bond_caps_nonvacuous :
  hf_obs (execute_bond hf_w hf_h A_hub 20 [(usei, 100000)] BkB) =
    Some (1099000, 0, rate_of 1099000 1099600,
          [MDelegate 0 (usei, 50500); MDelegate 1 (usei, 49500);
           MWasm A_bsei (WCw20 (CMint 20 99600)) []]) /\
  ddiv 100000 (hs_ber hf_s) = Some 100100 /\
  100100 * hp_pegfee (h_params hf_h) / D = 500 /\
  required_mint 1000000 0 999000 100000 100100 = 1100 /\
  hf_obs (execute_bond hf_w hf_h A_hub 20 [(usei, 10000000)] BkB) =
    Some (10999000, 0, D,
          [MDelegate 0 (usei, 5000500); MDelegate 1 (usei, 4999500);
           MWasm A_bsei (WCw20 (CMint 20 9999000)) []]) /\
  ddiv 10000000 (hs_ber hf_s) = Some 10010010 /\
  10010010 * hp_pegfee (h_params hf_h) / D = 50050 /\
  required_mint 1000000 0 999000 10000000 10010010 = 11010.
Proof. hf_split; hf_conc. Qed.

(** unbond: 1 000 tokens (proportional cap 5 binds), 500 000 tokens (restoring cap 1 000 binds:
    999 000 coins for 500 000 tokens + 499 000 requested); with the epoch elapsed the batch is
    closed and priced at the refreshed rate 1.0 (500 000 coins for 500 000 tokens) *)
Example unbond_caps_nonvacuous :
  hf_obs (execute_unbond hf_w hf_h A_hub 1000 20) =
    Some (999000, 995, rate_of 999000 (999000 + 995), [MWasm A_bsei (WCw20 (CBurn 1000)) []]) /\
  hf_wait (execute_unbond hf_w hf_h A_hub 1000 20) 20 1 = Some (995, 0) /\
  hf_obs (execute_unbond hf_w hf_h A_hub 500000 20) =
    Some (999000, 499000, D, [MWasm A_bsei (WCw20 (CBurn 500000)) []]) /\
  hf_wait (execute_unbond hf_w hf_h A_hub 500000 20) 20 1 = Some (499000, 0) /\
  hf_obs (execute_unbond hf_wc hf_hc A_hub 500000 20) =
    Some (500000, 0, D,
          [MUndelegate 1 (usei, 250000); MUndelegate 0 (usei, 249000);
           MWasm A_bsei (WCw20 (CBurn 500000)) []]) /\
  query_actual_state hf_wc A_hub hf_hc = Some (mkHubState 999000000000000000 D 999000 2000000 0 0 0 0).
Proof. hf_split; hf_conc. Qed.

(** stSei -> bSei: 100 000 stSei (rate 1.0) are worth 100 000 coins; as for the bond above *)
Example conv_st_b_nonvacuous :
  hf_obs (convert_stsei_bsei hf_w hf_h A_hub 100000 20) =
    Some (1099000, 0, rate_of 1099000 1099600,
          [MWasm A_bsei (WCw20 (CMint 20 99600)) []; MWasm A_stsei (WCw20 (CBurn 100000)) []]).
Proof. hf_conc. Qed.

(** the dust of [conv_b_st_peg_fee] is attained: backing 1 below claims, no fee possible, two
    floors leave the pool one unit above its claims *)
Example conv_b_st_dust_tight :
  let S := 880487297567475966 in let Q := 79675463696223508 in
  let B := 960162761263699473 in let a := 877313011780552874 in
  B + 1 = S + Q /\ required_conv S Q B a = 0 /\ a <= S /\ S + Q <= D /\
  B - a * rate_of B (S + Q) / D = (S - a) + Q + 1.
Proof. cbv zeta. hf_split; hf_conc. Qed.
