From Krp Require Import Tactics Prelude Fixed FMap Types Env Registry Cw20 Hub Inv HubFrame.
Open Scope N_scope.

Lemma mulU_some a r x : mulU a r = Some x -> x = a * r / D.
Proof.
  unfold mulU, narrow128. intros H.
  destruct ((a =? 0) || (r =? 0)) eqn:Hz.
  - inversion H; subst.
    assert (Hp : a * r = 0) by (apply N.eq_mul_0; lia). rewrite Hp. reflexivity.
  - destruct (fits128 (a * r / D)); [inversion H; reflexivity | discriminate].
Qed.

Lemma add128_some a b c : add128 a b = Some c -> c = a + b.
Proof. unfold add128, narrow128. destruct (fits128 (a + b)); intros H; [inversion H; reflexivity|discriminate]. Qed.

Lemma sub128_some a b c : sub128 a b = Some c -> b <= a /\ c = a - b.
Proof. unfold sub128. destruct (b <=? a) eqn:E; intros H; [inversion H; split; [lia|reflexivity]|discriminate]. Qed.

Lemma mul_ratio_some a n d x : mul_ratio a n d = Some x -> d <> 0 /\ x = a * n / d.
Proof.
  unfold mul_ratio, narrow128. destruct (d =? 0) eqn:E; [discriminate|].
  destruct (fits128 (a * n / d)); intros H; [inversion H; split; [lia|reflexivity]|discriminate].
Qed.

Lemma ratio_some a b x : ratio a b = Some x -> b <> 0 /\ x = a * D / b.
Proof.
  unfold ratio, narrow128. destruct (b =? 0) eqn:E; [discriminate|].
  destruct (fits128 (a * D / b)); intros H; [inversion H; split; [lia|reflexivity]|discriminate].
Qed.

Lemma ddiv_some a r m : ddiv a r = Some m -> r <> 0 /\ m = a * D / r.
Proof.
  unfold ddiv. intros H. bind_inv H as den Hden. bind_inv H as q Hq.
  apply mulU_some in Hden. apply ratio_some in Hq. apply mulU_some in H.
  destruct Hq as [Hnz ->].
  assert (Hd : den = r) by (subst den; rewrite N.mul_comm; apply N.div_mul; exact D_nz).
  subst den. rewrite Hd in *. split.
  - intros ->. apply Hnz. reflexivity.
  - subst m. rewrite N.mul_comm. apply N.div_mul. exact D_nz.
Qed.

(** ** the reported rate: backing over claims *)
Lemma exchange_rate_some B S Q r : exchange_rate B S Q = Some r -> r = rate_of B (S + Q).
Proof.
  unfold exchange_rate, rate_of. intros H. bind_inv H as c Hc. apply add128_some in Hc. subst c.
  destruct ((B =? 0) || (S + Q =? 0)); [inversion H; reflexivity|].
  apply ratio_some in H. tauto.
Qed.

(** a synchronised rate below 1 means the pool is strictly under-backed *)
Lemma rate_below_one B C : rate_of B C < D -> 0 < B /\ B < C.
Proof.
  unfold rate_of. destruct ((B =? 0) || (C =? 0)) eqn:E; [lia|]. intros H.
  assert (HB : B <> 0) by lia. assert (HC : C <> 0) by lia. split; [lia|].
  destruct (N.lt_ge_cases B C) as [Hlt|Hge]; [exact Hlt|exfalso].
  assert (D <= B * D / C); [|lia].
  apply N.div_le_lower_bound; [exact HC|]. rewrite (N.mul_comm C D), (N.mul_comm B D).
  apply N.mul_le_mono_l. exact Hge.
Qed.

Lemma rate_le_one B C : B <= C -> rate_of B C <= D.
Proof.
  unfold rate_of. intros H. destruct ((B =? 0) || (C =? 0)) eqn:E; [lia|].
  assert (HC : C <> 0) by lia.
  apply N.div_le_upper_bound; [exact HC|]. rewrite (N.mul_comm C D), (N.mul_comm B D).
  apply N.mul_le_mono_l. exact H.
Qed.

(** dividing by a rate in (0,1] never gives less than the amount *)
Lemma ddiv_ge p r : r <> 0 -> r <= D -> p <= p * D / r.
Proof.
  intros Hr Hle. apply N.div_le_lower_bound; [exact Hr|]. rewrite (N.mul_comm r p).
  apply N.mul_le_mono_l. exact Hle.
Qed.

(** two floors ([r = floor(B*D/c)], [q = floor(x*r/D)]) lose less than two units of [c] *)
Lemma floor_pair B c x : c <> 0 -> x <= D -> x * B < (x * (B * D / c) / D + 2) * c.
Proof.
  intros Hc Hx. pose proof D_pos as HD.
  set (r := B * D / c). set (q := x * r / D).
  assert (H1 : x * r < (q + 1) * D).
  { unfold q. pose proof (N.mul_succ_div_gt (x * r) D D_nz) as H. lia. }
  assert (H2 : B * D < (r + 1) * c).
  { unfold r. pose proof (N.mul_succ_div_gt (B * D) c Hc) as H. lia. }
  (* x*B*D < x*(r+1)*c = x*r*c + x*c < (q+1)*D*c + D*c *)
  assert (H3 : x * B * D <= x * r * c + x * c).
  { destruct (N.eq_dec x 0) as [->|Hx0]; [lia|].
    assert (x * (B * D) <= x * ((r + 1) * c)) by (apply N.mul_le_mono_l; lia). lia. }
  assert (H4 : x * r * c < (q + 1) * D * c) by (apply N.mul_lt_mono_pos_r; lia).
  assert (H5 : x * c <= D * c) by (apply N.mul_le_mono_r; exact Hx).
  assert (H6 : x * B * D < (q + 2) * c * D) by lia.
  apply N.mul_lt_mono_pos_r in H6; [exact H6 | exact HD].
Qed.

(** redeeming [x] tokens for [q = floor(x*r/D)] coins out of backing [B <= c] when [a >= x] claims
    disappear and the part withheld is at most what the remaining holders lack:
    backing ends at most one unit above the remaining claims *)
Lemma redeem_dust B c a x :
  c <> 0 -> B <= c -> a <= c -> x <= a -> x <= D ->
  (a - x) * B <= (c - B) * (c - a) ->
  B - x * (B * D / c) / D <= (c - a) + 1.
Proof.
  intros Hc HB Ha Hx HxD Hfee.
  pose proof (floor_pair B c x Hc HxD) as Hq.
  set (q := x * (B * D / c) / D) in *.
  destruct (N.le_gt_cases B q) as [Hle|Hgt]; [lia|].
  (* work with the differences as fresh variables *)
  assert (exists g, c = B + g) as [g Hg] by (exists (c - B); lia).
  assert (exists R, c = a + R) as [R HR] by (exists (c - a); lia).
  assert (exists e, a = x + e) as [e He] by (exists (a - x); lia).
  replace (c - B) with g in Hfee by lia. replace (c - a) with R in * by lia.
  replace (a - x) with e in Hfee by lia.
  assert (exists t, B = q + t) as [t Ht] by (exists (B - q); lia).
  replace (B - q) with t by lia.
  (* t * c < R*c + 2c *)
  assert (Hk : t * c < (R + 2) * c).
  { assert (B * c + e * B <= B * R + g * R + x * B).
    { assert (B * c = B * (x + e + R)) by (f_equal; lia). 
      assert (g * R + B * R = c * R) by (rewrite Hg; lia). nia. }
    nia. }
  apply N.mul_lt_mono_pos_r in Hk; lia.
Qed.
