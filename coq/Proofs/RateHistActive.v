(** * RateHistActive (helper of Proofs/RateHist.v, property C04 at history level).

    The messages that are not inert, each with the whole sub-tree it spawns ([UnitOk]: from a [Good]
    world with sound reported rates the sub-tree ends in a [Good] world and no reported rate is lower):

    - [unit_hub]       : hub Bond / BondForStSei / BondRewards / Receive (Proofs/RateHistUnit.v);
    - [unit_dispatch]  : dispatcher DispatchRewards = bank sends, at most one hub BondRewards, the
                         reward contract's index update;
    - [unit_updglobal] : hub UpdateGlobalIndex = airdrop hooks, reward withdrawals, dispatcher
                         SwapToRewardDenom, DispatchRewards;
    - [unit_registry]  : registry RemoveValidator / Redelegations = hub RedelegateProxy (Redelegate
                         messages: the delegated total is unchanged), hub UpdateGlobalIndex;
    - [unit_send]      : cw20 Send / SendFrom to the hub = ledger move, mirror messages, hub Receive;
    - [unit_burnfrom]  : cw20 BurnFrom = the supply falls (claims fall, pools unchanged), mirror
                         message, CheckSlashing call-back;
    - [forest_one]     : a forest of inert messages with one such unit in it. *)
From Krp Require Import Tactics Prelude Fixed FMap Types Env Registry Cw20 Reward Dispatcher Hub Exec
     ExecP Hist Inv RegistryP DispatcherP HubFrame HubAdmin Cw20P MirrorWire MirrorP HubRates
     BooksEnv BooksHub BooksP IndexRun IndexHandlers RateTxLegs RateTx RateTxConvert
     RateHistBase RateHistInert RateHistLegs RateHistUnit.
Open Scope N_scope.

Definition Answers (w : world) : Prop := exists s, hub_query_state w A_hub = Some s.

Lemma Answers_quiet w w' : Quiet w w' -> Answers w -> Answers w'.
Proof. intros HQ [s Hq]. destruct (quiet_query_fwd _ _ _ HQ Hq) as (s' & Hq' & _). exists s'. exact Hq'. Qed.

Definition UnitOk (x : addr * cmsg) : Prop :=
  forall wa wb k, Good wa -> SoundRates wa -> Answers wa -> Exec wa [x] wb k -> Good wb /\ Step wa wb.

Lemma forest_one w l1 x l2 w' n :
  Exec w (l1 ++ x :: l2) w' n -> Good w -> SoundRates w -> Answers w -> Inert l1 -> Inert l2 ->
  Forall plain_s l1 -> Forall plain_s l2 -> UnitOk x -> Good w' /\ Step w w'.
Proof.
  intros H HG HS HA I1 I2 P1 P2 HU.
  apply Exec_app_inv in H. destruct H as (w1 & n1 & n2 & H1 & H2).
  destruct (inert_forest _ _ _ _ H1 HG I1 P1) as [HG1 Q1].
  change (x :: l2) with ([x] ++ l2) in H2. apply Exec_app_inv in H2. destruct H2 as (w2 & n3 & n4 & H3 & H4).
  destruct (HU _ _ _ HG1 (SoundRates_quiet _ _ Q1 HS) (Answers_quiet _ _ Q1 HA) H3) as [HG2 S2].
  destruct (inert_forest _ _ _ _ H4 HG2 I2 P2) as [HG3 Q3].
  split; [exact HG3|]. eapply quiet_step_l; [exact Q1|]. eapply step_quiet_r; [exact S2|exact Q3].
Qed.

Lemma forest_inert w l w' n :
  Exec w l w' n -> Good w -> SoundRates w -> Inert l -> Forall plain_s l -> Good w' /\ Step w w'.
Proof.
  intros H HG HS HI HP. destruct (inert_forest _ _ _ _ H HG HI HP) as [HG' Q].
  split; [exact HG'|apply quiet_step; assumption].
Qed.

(** ** hub pricing messages *)
Lemma unit_hub s hm f : pricing_hub hm -> UnitOk (s, MWasm A_hub (WHub hm) f).
Proof.
  intros Hp wa wb k HG HS _ H. apply Exec_cons_inv in H.
  destruct H as (w1 & out & w2 & n1 & n2 & Hs & H1 & H2 & _). apply Exec_nil_inv in H2. subst wb.
  eapply pricing_unit; eauto.
Qed.

(** ** worlds that differ in irrelevant components *)
Lemma EntWf_ext w w' :
  w_hub w' = w_hub w -> e_del (w_env w') = e_del (w_env w) -> EntWf w -> EntWf w'.
Proof.
  intros Eh Ed [Hwf He]. split; [eapply DelWf_same_del; eauto|].
  intros h Hh. rewrite Eh in Hh. rewrite (all_delegations_same_del _ _ A_hub Ed). apply He. exact Hh.
Qed.

Lemma EntWf_hub_rd w w' h h' :
  w_hub w = Some h -> w_hub w' = Some h' -> booked h' = booked h ->
  e_del (w_env w') = e_del (w_env w) -> EntWf w -> EntWf w'.
Proof.
  intros Hh Hh' Eb Ed [Hwf He]. split; [eapply DelWf_same_del; eauto|].
  intros k Hk. rewrite Hh' in Hk. inversion Hk; subst k. rewrite Eb.
  rewrite (all_delegations_same_del _ _ A_hub Ed). apply He. exact Hh.
Qed.

(** ** step inversion for the other contracts *)
Lemma rt_call_disp w s dm f :
  call w s A_disp (WDisp dm) f =
  (do x <- w_disp w; do r <- disp_execute w x A_disp s dm; Some (set_disp w (fst r), snd r)).
Proof. reflexivity. Qed.

Lemma rt_call_reg w s gm f :
  call w s A_reg (WReg gm) f =
  (do x <- w_reg w; do r <- reg_execute w x s gm; Some (set_reg w (fst r), snd r)).
Proof. reflexivity. Qed.

Lemma step_disp_inv w s dm f w1 out :
  step_msg w s (MWasm A_disp (WDisp dm) f) = Some (w1, out) ->
  exists e1 dp dp' o, send_coins (w_env w) s A_disp f = Some e1 /\ w_disp w = Some dp /\
    disp_execute (set_env w e1) dp A_disp s dm = Some (dp', o) /\
    w1 = set_disp (set_env w e1) dp' /\ out = map (fun x => (A_disp, x)) o.
Proof.
  cbn [step_msg]. intros H. bind_inv H as e1 He1. bind_inv H as rr Hr.
  rewrite rt_call_disp in Hr. cbn [w_disp set_env] in Hr.
  bind_inv Hr as dp Hdp. bind_inv Hr as r2 Hr2. destruct r2 as [dp' o]. inversion Hr; subst rr; clear Hr.
  inversion H; subst w1 out; clear H. cbn [fst snd]. exists e1, dp, dp', o. repeat split; auto.
Qed.

Lemma step_reg_inv w s gm f w1 out :
  step_msg w s (MWasm A_reg (WReg gm) f) = Some (w1, out) ->
  exists e1 g g' o, send_coins (w_env w) s A_reg f = Some e1 /\ w_reg w = Some g /\
    reg_execute (set_env w e1) g s gm = Some (g', o) /\
    w1 = set_reg (set_env w e1) g' /\ out = map (fun x => (A_reg, x)) o.
Proof.
  cbn [step_msg]. intros H. bind_inv H as e1 He1. bind_inv H as rr Hr.
  rewrite rt_call_reg in Hr. cbn [w_reg set_env] in Hr.
  bind_inv Hr as g Hg. bind_inv Hr as r2 Hr2. destruct r2 as [g' o]. inversion Hr; subst rr; clear Hr.
  inversion H; subst w1 out; clear H. cbn [fst snd]. exists e1, g, g', o. repeat split; auto.
Qed.

Lemma step_bsei_inv w s cm f w1 out :
  step_msg w s (MWasm A_bsei (WCw20 cm) f) = Some (w1, out) ->
  exists e1 t t' o, send_coins (w_env w) s A_bsei f = Some e1 /\ w_bsei w = Some t /\
    bsei_execute (set_env w e1) t s cm = Some (t', o) /\
    w1 = set_bsei (set_env w e1) t' /\ out = map (fun x => (A_bsei, x)) o.
Proof.
  cbn [step_msg]. intros H. bind_inv H as e1 He1. bind_inv H as rr Hr.
  rewrite rt_call_bsei in Hr. cbn [w_bsei set_env] in Hr.
  bind_inv Hr as t Ht. bind_inv Hr as r2 Hr2. destruct r2 as [t' o]. inversion Hr; subst rr; clear Hr.
  inversion H; subst w1 out; clear H. cbn [fst snd]. exists e1, t, t', o. repeat split; auto.
Qed.

Lemma step_stsei_inv w s cm f w1 out :
  step_msg w s (MWasm A_stsei (WCw20 cm) f) = Some (w1, out) ->
  exists e1 t t' o, send_coins (w_env w) s A_stsei f = Some e1 /\ w_stsei w = Some t /\
    stsei_execute (set_env w e1) t s cm = Some (t', o) /\
    w1 = set_stsei (set_env w e1) t' /\ out = map (fun x => (A_stsei, x)) o.
Proof.
  cbn [step_msg]. intros H. bind_inv H as e1 He1. bind_inv H as rr Hr.
  rewrite rt_call_stsei in Hr. cbn [w_stsei set_env] in Hr.
  bind_inv Hr as t Ht. bind_inv Hr as r2 Hr2. destruct r2 as [t' o]. inversion Hr; subst rr; clear Hr.
  inversion H; subst w1 out; clear H. cbn [fst snd]. exists e1, t, t', o. repeat split; auto.
Qed.

(** ** DispatchRewards *)
Lemma dispatch_shape dp b st :
  dp_hub dp = A_hub -> dp_reward dp = A_reward ->
  Forall (fun m => inert (A_disp, m) = true) (dispatch_msgs dp b st) \/
  exists l1 fnds,
    dispatch_msgs dp b st =
      l1 ++ MWasm A_hub (WHub HBondRewards) fnds :: [MWasm A_reward (WHub (HUpdateGlobal 0)) []] /\
    Forall (fun m => inert (A_disp, m) = true) l1.
Proof.
  intros Eh Er. unfold dispatch_msgs. rewrite Eh, Er. cbv zeta.
  destruct (b =? 0); destruct (st =? 0); cbn [app].
  - left. inert_list.
  - destruct (st - st * dp_rate dp / D =? 0); cbn [app].
    + left. inert_list.
    + right. eexists [_], _. split; [reflexivity|inert_list].
  - left. inert_list.
  - destruct (st - st * dp_rate dp / D =? 0); cbn [app].
    + left. inert_list.
    + right. eexists [_; _; _], _. split; [reflexivity|inert_list].
Qed.

Lemma Forall_tag_split {A} (P : addr * A -> Prop) (to : addr) (l1 : list A) x l2 :
  Forall P (map (fun m => (to, m)) (l1 ++ x :: l2)) ->
  Forall P (map (fun m => (to, m)) l1) /\ Forall P (map (fun m => (to, m)) l2).
Proof.
  rewrite map_app. cbn [map]. intros H. apply Forall_app in H. destruct H as [H1 H2].
  apply Forall_cons_iff in H2. destruct H2 as [_ H2]. auto.
Qed.

Lemma unit_dispatch s f : UnitOk (s, MWasm A_disp (WDisp DDispatch) f).
Proof.
  intros wa wb k (HW & HE & HM) HS HA H. apply Exec_cons_inv in H.
  destruct H as (w1 & out & w2 & n1 & n2 & Hs & H1 & H2 & _). apply Exec_nil_inv in H2. subst w2.
  pose proof (step_msg_emits_plain _ _ _ _ _ Hs) as Hpl.
  assert (HW1 : Wired w1) by (eapply step_msg_wired; [exact Hs|reflexivity|exact HW]).
  destruct (Wired_inv _ HW) as (h & r & d & g & tb & ts & Hh & Hr & Hd & Hg & Hb & Hst &
                                _ & _ & _ & _ & _ & _ & Wdh & Wdr & _).
  apply step_disp_inv in Hs. destruct Hs as (e1 & dp & dp' & o & Hsend & Hdp & He & -> & ->).
  rewrite Hd in Hdp. inversion Hdp; subst dp; clear Hdp.
  apply send_coins_static in Hsend. destruct Hsend as (_ & _ & Hdel1 & _).
  apply dispatch_exact in He. destruct He as (_ & -> & ->).
  set (w1 := set_disp (set_env wa e1) d) in *.
  assert (Q1 : Quiet wa w1) by (apply rd_quiet; apply rd_ext; try reflexivity; exact Hdel1).
  assert (HG1 : Good w1).
  { split; [exact HW1|]. split; [apply (EntWf_ext wa); [reflexivity|exact Hdel1|exact HE]|].
    apply (MinterOk_same wa); [reflexivity|reflexivity|exact HM]. }
  pose proof (SoundRates_quiet _ _ Q1 HS) as HS1. pose proof (Answers_quiet _ _ Q1 HA) as HA1.
  assert (HR : Good wb /\ Step w1 wb).
  { destruct (dispatch_shape d (bal (w_env (set_env wa e1)) A_disp (dp_bd d))
                              (bal (w_env (set_env wa e1)) A_disp (dp_std d)) Wdh Wdr)
      as [Hall | (l1 & fnds & El & Hl1)].
    - eapply forest_inert; [exact H1|exact HG1|exact HS1|apply Inert_tag; exact Hall|exact Hpl].
    - rewrite El in H1, Hpl. destruct (Forall_tag_split _ _ _ _ _ Hpl) as [P1 P2].
      rewrite map_app in H1. cbn [map] in H1.
      eapply forest_one; [exact H1|exact HG1|exact HS1|exact HA1|apply Inert_tag; exact Hl1| | exact P1 | exact P2 |].
      + constructor; [reflexivity|constructor].
      + apply unit_hub. right. right. left. reflexivity. }
  destruct HR as [HGb Sb]. split; [exact HGb|]. eapply quiet_step_l; [exact Q1|exact Sb].
Qed.

(** ** UpdateGlobalIndex *)
Lemma unit_updglobal s n f : UnitOk (s, MWasm A_hub (WHub (HUpdateGlobal n)) f).
Proof.
  intros wa wb k (HW & HE & HM) HS HA H. apply Exec_cons_inv in H.
  destruct H as (w1 & out & w2 & n1 & n2 & Hs & H1 & H2 & _). apply Exec_nil_inv in H2. subst w2.
  pose proof (step_msg_emits_plain _ _ _ _ _ Hs) as Hpl.
  assert (HW1 : Wired w1) by (eapply step_msg_wired; [exact Hs|reflexivity|exact HW]).
  destruct (Wired_inv _ HW) as (h & r & d & g & tb & ts & Hh & Hr & Hd & Hg & Hb & Hst &
                                Wd & _).
  apply rt_root_inv in Hs. destruct Hs as (h0 & e1 & h' & o & Hh0 & Hsend & He & -> & ->).
  rewrite Hh in Hh0. inversion Hh0; subst h0; clear Hh0.
  apply send_coins_static in Hsend. destruct Hsend as (_ & _ & Hdel1 & _).
  unfold hub_execute in He. check_inv He as Hpz. apply update_global_exact in He.
  destruct He as (_ & da & hooks & Hda & Hn0 & Hnn & -> & ->).
  rewrite Wd in Hda. inversion Hda; subst da; clear Hda.
  set (h' := set_h_state h (touch_lim (h_state h) (e_now (w_env (set_env wa e1))))) in *.
  set (w1 := set_hub (set_env wa e1) h') in *.
  assert (Q1 : Quiet wa w1).
  { apply rd_quiet. eapply rd_ext_hub; [exact Hh|reflexivity|reflexivity|reflexivity|reflexivity|exact Hdel1]. }
  assert (HG1 : Good w1).
  { split; [exact HW1|]. split; [apply (EntWf_hub_rd wa w1 h h'); [exact Hh|reflexivity|reflexivity|exact Hdel1|exact HE]|].
    apply (MinterOk_same wa); [reflexivity|reflexivity|exact HM]. }
  pose proof (SoundRates_quiet _ _ Q1 HS) as HS1. pose proof (Answers_quiet _ _ Q1 HA) as HA1.
  assert (Hhooks : Forall (fun m => inert (A_hub, m) = true) hooks).
  { destruct (N.eq_dec n 0) as [Z|NZ]; [rewrite (Hn0 Z); constructor|].
    destruct (Hnn NZ) as (reg & _ & ->). apply Forall_repeat. apply inert_opaque_msg. }
  unfold ugi_tail in H1, Hpl.
  set (sw := MWasm A_disp (WDisp (DSwap (hs_bb (h_state h)) (hs_bst (h_state h)))) []) in *.
  set (dm := MWasm A_disp (WDisp DDispatch) []) in *.
  assert (El : hooks ++ withdraw_msgs (w_env (set_env wa e1)) A_hub ++ [sw; dm] =
               (hooks ++ withdraw_msgs (w_env (set_env wa e1)) A_hub ++ [sw]) ++ dm :: []).
  { rewrite <- !app_assoc. reflexivity. }
  rewrite El in H1, Hpl. destruct (Forall_tag_split _ _ _ _ _ Hpl) as [P1 P2].
  rewrite map_app in H1. cbn [map] in H1.
  assert (HR : Good wb /\ Step w1 wb).
  { eapply forest_one; [exact H1|exact HG1|exact HS1|exact HA1| | |exact P1|exact P2|].
    - apply Inert_tag. apply Forall_app. split; [exact Hhooks|]. apply Forall_app. split.
      + unfold withdraw_msgs. apply Forall_forall. intros m Hm. apply in_map_iff in Hm.
        destruct Hm as (x & <- & _). reflexivity.
      + constructor; [reflexivity|constructor].
    - constructor.
    - apply unit_dispatch. }
  destruct HR as [HGb Sb]. split; [exact HGb|]. eapply quiet_step_l; [exact Q1|exact Sb].
Qed.

(** ** registry RemoveValidator / Redelegations *)
Lemma reg_redelegate_msgs_shape w g v msgs :
  reg_redelegate_msgs w g v = Some msgs ->
  msgs = [] \/ exists redels, msgs = [MWasm (rg_hub g) (WHub (HRedelProxy v redels)) [];
                                      MWasm (rg_hub g) (WHub (HUpdateGlobal 0)) []].
Proof.
  unfold reg_redelegate_msgs. intros H.
  destruct (delegation (w_env w) (rg_hub g) v) as [amount|]; [|inversion H; auto].
  destruct ((if can_redelegate (w_env w) v then amount else 0) <? amount); [inversion H; auto|].
  bind_inv H as r Hr. inversion H; subst. right. eauto.
Qed.

Lemma unit_registry s gm f :
  (exists v, gm = GRemove v \/ gm = GRedelegations v) -> UnitOk (s, MWasm A_reg (WReg gm) f).
Proof.
  intros Hgm wa wb k (HW & HE & HM) HS HA H. apply Exec_cons_inv in H.
  destruct H as (w1 & out & w2 & n1 & n2 & Hs & H1 & H2 & _). apply Exec_nil_inv in H2. subst w2.
  pose proof (step_msg_emits_plain _ _ _ _ _ Hs) as Hpl.
  assert (HW1 : Wired w1).
  { eapply step_msg_wired; [exact Hs| |exact HW]. destruct Hgm as (v & [-> | ->]); reflexivity. }
  destruct (Wired_inv _ HW) as (h & r & d & g & tb & ts & Hh & Hr & Hd & Hg & Hb & Hst &
                                _ & _ & _ & _ & _ & _ & _ & _ & _ & Wgh & _).
  apply step_reg_inv in Hs. destruct Hs as (e1 & g0 & g' & o & Hsend & Hg0 & He & -> & ->).
  rewrite Hg in Hg0. inversion Hg0; subst g0; clear Hg0.
  apply send_coins_static in Hsend. destruct Hsend as (_ & _ & Hdel1 & _).
  set (w1 := set_reg (set_env wa e1) g') in *.
  assert (Q1 : Quiet wa w1) by (apply rd_quiet; apply rd_ext; try reflexivity; exact Hdel1).
  assert (HG1 : Good w1).
  { split; [exact HW1|]. split; [apply (EntWf_ext wa); [reflexivity|exact Hdel1|exact HE]|].
    apply (MinterOk_same wa); [reflexivity|reflexivity|exact HM]. }
  pose proof (SoundRates_quiet _ _ Q1 HS) as HS1. pose proof (Answers_quiet _ _ Q1 HA) as HA1.
  assert (Hshape : o = [] \/ exists v redels,
            o = [MWasm A_hub (WHub (HRedelProxy v redels)) []; MWasm A_hub (WHub (HUpdateGlobal 0)) []]).
  { destruct Hgm as (v & [-> | ->]); cbn [reg_execute] in He.
    - check_inv He as Hown. cbn [rg_vals set_rg_vals] in He.
      destruct (remove_val v (rg_vals g)) as [|x l]; [discriminate He|].
      bind_inv He as msgs Hm. inversion He; subst g' o; clear He.
      apply reg_redelegate_msgs_shape in Hm. cbn [rg_hub set_rg_vals] in Hm. rewrite Wgh in Hm.
      destruct Hm as [-> | (rd0 & ->)]; [left; reflexivity|right; eauto].
    - check_inv He as Hnin. bind_inv He as msgs Hm. inversion He; subst g' o; clear He.
      apply reg_redelegate_msgs_shape in Hm. rewrite Wgh in Hm.
      destruct Hm as [-> | (rd0 & ->)]; [left; reflexivity|right; eauto]. }
  assert (HR : Good wb /\ Step w1 wb).
  { destruct Hshape as [-> | (v & redels & ->)].
    - cbn [map] in H1. apply Exec_nil_inv in H1. subst wb. split; [exact HG1|].
      apply quiet_step; [apply Quiet_refl|exact HS1].
    - cbn [map] in H1, Hpl.
      apply Forall_cons_iff in Hpl. destruct Hpl as [Pa Pb].
      change ([(A_reg, MWasm A_hub (WHub (HRedelProxy v redels)) []);
               (A_reg, MWasm A_hub (WHub (HUpdateGlobal 0)) [])])
        with ([(A_reg, MWasm A_hub (WHub (HRedelProxy v redels)) [])] ++
              (A_reg, MWasm A_hub (WHub (HUpdateGlobal 0)) []) :: []) in H1.
      eapply forest_one; [exact H1|exact HG1|exact HS1|exact HA1| | | | |].
      + constructor; [reflexivity|constructor].
      + constructor.
      + constructor; [exact Pa|constructor].
      + constructor.
      + apply unit_updglobal. }
  destruct HR as [HGb Sb]. split; [exact HGb|]. eapply quiet_step_l; [exact Q1|exact Sb].
Qed.

(** ** cw20 Send / SendFrom to the hub *)
Definition send_to_hub (cm : cw20_msg) : Prop :=
  (exists a hk, cm = CSend A_hub a hk) \/ (exists o a hk, cm = CSendFrom o A_hub a hk).

Lemma MinterOk_set_bsei w t t' :
  w_bsei w = Some t -> tk_minter t' = tk_minter t -> MinterOk w -> MinterOk (set_bsei w t').
Proof.
  intros Hb Hm [M1 M2]. split; cbn [w_bsei w_stsei set_bsei]; [|exact M2].
  intros t0 E. inversion E; subst t0. unfold minter_ok. rewrite Hm. apply M1. exact Hb.
Qed.

Lemma MinterOk_set_stsei w t t' :
  w_stsei w = Some t -> tk_minter t' = tk_minter t -> MinterOk w -> MinterOk (set_stsei w t').
Proof.
  intros Hb Hm [M1 M2]. split; cbn [w_bsei w_stsei set_stsei]; [exact M1|].
  intros t0 E. inversion E; subst t0. unfold minter_ok. rewrite Hm. apply M2. exact Hb.
Qed.

Lemma unit_send_bsei s cm f : send_to_hub cm -> UnitOk (s, MWasm A_bsei (WCw20 cm) f).
Proof.
  intros Hcm wa wb k (HW & HE & HM) HS HA H. apply Exec_cons_inv in H.
  destruct H as (w1 & out & w2 & n1 & n2 & Hs & H1 & H2 & _). apply Exec_nil_inv in H2. subst w2.
  pose proof (step_msg_emits_plain _ _ _ _ _ Hs) as Hpl.
  assert (HW1 : Wired w1).
  { eapply step_msg_wired; [exact Hs| |exact HW]. destruct Hcm as [(a & hk & ->)|(o & a & hk & ->)]; reflexivity. }
  destruct (Wired_inv _ HW) as (h & r & d & g & tb & ts & Hh & Hr & Hd & Hg & Hb & Hst & _).
  apply step_bsei_inv in Hs. destruct Hs as (e1 & t & t' & o & Hsend & Ht & He & -> & ->).
  rewrite Hb in Ht. inversion Ht; subst t; clear Ht.
  apply send_coins_static in Hsend. destruct Hsend as (_ & _ & Hdel1 & _).
  assert (Hfr : tk_supply t' = tk_supply tb /\ tk_minter t' = tk_minter tb /\
                exists rc u a hk, o = [m_dec rc u a; m_inc rc A_hub a; m_receive A_hub s a hk]).
  { pose proof (bsei_execute_out _ _ _ _ _ _ He) as Ho. unfold bsei_execute in He.
    destruct Hcm as [(a & hk & ->)|(ow & a & hk & ->)].
    - bind_inv He as rc Hrc. check_inv He as Hz. bind_inv He as t1 Hmv. inversion He; subst t1 o; clear He.
      apply tok_move_spec in Hmv. destruct Hmv as (_ & _ & S & M & _).
      split; [exact S|]. split; [exact M|]. eauto 10.
    - bind_inv He as rc Hrc. bind_inv He as t1 Hd1. bind_inv He as t2 Hmv. inversion He; subst t2 o; clear He.
      apply deduct_allowance_spec in Hd1. destruct Hd1 as (a0 & _ & _ & _ & _ & _ & S1 & M1 & _).
      apply tok_move_spec in Hmv. destruct Hmv as (_ & _ & S & M & _).
      split; [congruence|]. split; [congruence|]. eauto 10. }
  destruct Hfr as (S & M & rc & u & a & hk & ->).
  set (w1 := set_bsei (set_env wa e1) t') in *.
  assert (Q1 : Quiet wa w1).
  { apply rd_quiet. apply rd_ext; cbn [w1 w_hub w_bsei w_stsei w_env set_bsei set_env]; try reflexivity;
      [rewrite Hb; cbn [option_map]; rewrite S; reflexivity|exact Hdel1]. }
  assert (HG1 : Good w1).
  { split; [exact HW1|]. split; [apply (EntWf_ext wa); [reflexivity|exact Hdel1|exact HE]|].
    apply (MinterOk_set_bsei (set_env wa e1) tb t'); [exact Hb|exact M|].
    apply (MinterOk_same wa); [reflexivity|reflexivity|exact HM]. }
  pose proof (SoundRates_quiet _ _ Q1 HS) as HS1. pose proof (Answers_quiet _ _ Q1 HA) as HA1.
  cbn [map] in H1, Hpl.
  apply Forall_cons_iff in Hpl. destruct Hpl as [Pa Hpl]. apply Forall_cons_iff in Hpl. destruct Hpl as [Pb Hpl].
  assert (HR : Good wb /\ Step w1 wb).
  { change ([(A_bsei, m_dec rc u a); (A_bsei, m_inc rc A_hub a); (A_bsei, m_receive A_hub s a hk)])
      with ([(A_bsei, m_dec rc u a); (A_bsei, m_inc rc A_hub a)] ++ (A_bsei, m_receive A_hub s a hk) :: []) in H1.
    eapply forest_one; [exact H1|exact HG1|exact HS1|exact HA1| | | | |].
    - unfold m_dec, m_inc. constructor; [apply inert_reward_msg|constructor; [apply inert_reward_msg|constructor]].
    - constructor.
    - constructor; [exact Pa|constructor; [exact Pb|constructor]].
    - constructor.
    - unfold m_receive. apply unit_hub. right. right. right. eauto. }
  destruct HR as [HGb Sb]. split; [exact HGb|]. eapply quiet_step_l; [exact Q1|exact Sb].
Qed.

Lemma unit_send_stsei s cm f : send_to_hub cm -> UnitOk (s, MWasm A_stsei (WCw20 cm) f).
Proof.
  intros Hcm wa wb k (HW & HE & HM) HS HA H. apply Exec_cons_inv in H.
  destruct H as (w1 & out & w2 & n1 & n2 & Hs & H1 & H2 & _). apply Exec_nil_inv in H2. subst w2.
  pose proof (step_msg_emits_plain _ _ _ _ _ Hs) as Hpl.
  assert (HW1 : Wired w1).
  { eapply step_msg_wired; [exact Hs| |exact HW]. destruct Hcm as [(a & hk & ->)|(o & a & hk & ->)]; reflexivity. }
  destruct (Wired_inv _ HW) as (h & r & d & g & tb & ts & Hh & Hr & Hd & Hg & Hb & Hst & _).
  apply step_stsei_inv in Hs. destruct Hs as (e1 & t & t' & o & Hsend & Ht & He & -> & ->).
  rewrite Hst in Ht. inversion Ht; subst t; clear Ht.
  apply send_coins_static in Hsend. destruct Hsend as (_ & _ & Hdel1 & _).
  assert (Hfr : tk_supply t' = tk_supply ts /\ tk_minter t' = tk_minter ts /\
                exists a hk, o = [m_receive A_hub s a hk]).
  { unfold stsei_execute in He. destruct Hcm as [(a & hk & ->)|(ow & a & hk & ->)].
    - check_inv He as Hz. bind_inv He as t1 Hmv. inversion He; subst t1 o; clear He.
      apply tok_move_spec in Hmv. destruct Hmv as (_ & _ & S & M & _).
      split; [exact S|]. split; [exact M|]. eauto.
    - bind_inv He as t1 Hd1. bind_inv He as t2 Hmv. inversion He; subst t2 o; clear He.
      apply deduct_allowance_spec in Hd1. destruct Hd1 as (a0 & _ & _ & _ & _ & _ & S1 & M1 & _).
      apply tok_move_spec in Hmv. destruct Hmv as (_ & _ & S & M & _).
      split; [congruence|]. split; [congruence|]. eauto. }
  destruct Hfr as (S & M & a & hk & ->).
  set (w1 := set_stsei (set_env wa e1) t') in *.
  assert (Q1 : Quiet wa w1).
  { apply rd_quiet. apply rd_ext; cbn [w1 w_hub w_bsei w_stsei w_env set_stsei set_env]; try reflexivity;
      [rewrite Hst; cbn [option_map]; rewrite S; reflexivity|exact Hdel1]. }
  assert (HG1 : Good w1).
  { split; [exact HW1|]. split; [apply (EntWf_ext wa); [reflexivity|exact Hdel1|exact HE]|].
    apply (MinterOk_set_stsei (set_env wa e1) ts t'); [exact Hst|exact M|].
    apply (MinterOk_same wa); [reflexivity|reflexivity|exact HM]. }
  pose proof (SoundRates_quiet _ _ Q1 HS) as HS1. pose proof (Answers_quiet _ _ Q1 HA) as HA1.
  cbn [map] in H1.
  assert (HR : Good wb /\ Step w1 wb).
  { unfold m_receive in H1. eapply (unit_hub A_stsei (HReceive s a hk) []); [|exact HG1|exact HS1|exact HA1|exact H1].
    right. right. right. eauto. }
  destruct HR as [HGb Sb]. split; [exact HGb|]. eapply quiet_step_l; [exact Q1|exact Sb].
Qed.
