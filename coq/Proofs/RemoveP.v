(** * RemoveP: C13 — removing a validator moves its whole stake to the remaining ones.

    Handler level (every world / registry state):
    - [reg_remove_spec]          : a successful RemoveValidator is sent by the owner, takes the
                                   validator out of the list, leaves a non-empty list;
    - [reg_remove_last_fails]    : removing the last validator fails;
    - [reg_redelegate_msgs_spec] : when the chain allows redelegation the registry emits
                                   RedelegateProxy with amounts summing to exactly the hub's delegation
                                   on the validator, only to validators still registered, followed by
                                   the hub's UpdateGlobalIndex; when the chain refuses, nothing;
    - [hub_redel_proxy_spec]     : the hub forwards RedelegateProxy 1:1, only for the registry.
    Environment level:
    - [redel_all_spec]           : executing the redelegations one after the other empties the source
                                   validator, adds each amount to its target, keeps [delegated].
    Transaction level:
    - [remove_tx_decompose]      : a successful RemoveValidator transaction is: registry update,
                                   RedelegateProxy, the redelegations (after which nothing is left on
                                   the validator, [delegated] and the hub state are unchanged), and then
                                   exactly the hub's UpdateGlobalIndex sent by the registry;
    - [remove_tx_end]            : at the end of the transaction the validator is not registered, the
                                   registry is not empty, the hub has no delegation on the validator;
    - [remove_tx_gap]            : delegated - booked is the same before and after (from [Books]). *)
From Krp Require Import Tactics Prelude Fixed FMap Types Env Registry Cw20 Reward Dispatcher Hub Exec
     ExecP Hist Inv RegistryP HubFrame HubAdmin BooksEnv BooksHub BooksP.
Open Scope N_scope.

(** ** registry handler *)
Lemma remove_val_In v l x : In x (remove_val v l) <-> In x l /\ x <> v.
Proof.
  unfold remove_val. rewrite filter_In. split; intros [A B]; split; auto.
  - apply negb_true_iff, N.eqb_neq in B. exact B.
  - apply negb_true_iff, N.eqb_neq. exact B.
Qed.

Theorem reg_remove_spec w g sender v g' msgs :
  reg_execute w g sender (GRemove v) = Some (g', msgs) ->
  sender = rg_owner g /\ rg_vals g' = remove_val v (rg_vals g) /\ ~ In v (rg_vals g') /\
  rg_vals g' <> [] /\ rg_owner g' = rg_owner g /\ rg_hub g' = rg_hub g /\
  rg_newowner g' = rg_newowner g /\ reg_redelegate_msgs w g' v = Some msgs.
Proof.
  cbn [reg_execute]. intros H. check_inv H as Hs. apply N.eqb_eq in Hs.
  cbn [rg_vals set_rg_vals] in H.
  destruct (remove_val v (rg_vals g)) as [|x0 xr] eqn:Er; [discriminate|].
  bind_inv H as ms Hms. inversion H; subst g' msgs. clear H.
  cbn [rg_vals rg_owner rg_hub rg_newowner set_rg_vals].
  split; [exact Hs|]. split; [reflexivity|]. split.
  { rewrite <- Er. intros Hi. apply remove_val_In in Hi. destruct Hi as [_ Hne]. congruence. }
  split; [discriminate|]. split; [reflexivity|]. split; [reflexivity|]. split; [reflexivity|].
  exact Hms.
Qed.

(** the registry never becomes empty: removing the last validator fails *)
Theorem reg_remove_last_fails w g sender v :
  remove_val v (rg_vals g) = [] -> reg_execute w g sender (GRemove v) = None.
Proof.
  intros Hr. cbn [reg_execute]. destruct (sender =? rg_owner g); [|reflexivity].
  cbn [rg_vals set_rg_vals]. rewrite Hr. reflexivity.
Qed.

Theorem reg_remove_only_owner w g sender v :
  sender <> rg_owner g -> reg_execute w g sender (GRemove v) = None.
Proof.
  intros Hne. cbn [reg_execute]. assert (E : (sender =? rg_owner g) = false) by (apply N.eqb_neq; exact Hne).
  rewrite E. reflexivity.
Qed.

(** redelegation lists built from a plan *)
Definition redels_of (vals : list (val * N)) (xs : list N) : list (val * coin) :=
  flat_map (fun p : (val * N) * N => if snd p =? 0 then [] else [(fst (fst p), (usei, snd p))])
           (combine vals xs).
Definition redel_total (l : list (val * coin)) : N := sumN (map (fun p => snd (snd p)) l).

Lemma redels_of_sum : forall vals xs, length xs = length vals -> redel_total (redels_of vals xs) = sumN xs.
Proof.
  unfold redel_total, redels_of. induction vals as [|p vals IH]; intros [|x xs] Hl; cbn [length] in Hl;
    try discriminate; cbn [combine flat_map map sumN]; [reflexivity|].
  rewrite map_app, sumN_app, IH by lia. cbn [snd fst].
  destruct (x =? 0) eqn:E; cbn [map sumN snd]; lia.
Qed.

Lemma redels_of_In vals xs dst c : In (dst, c) (redels_of vals xs) ->
  In dst (map fst vals) /\ fst c = usei /\ 0 < snd c.
Proof.
  unfold redels_of. intros H. apply in_flat_map in H. destruct H as ([[v d] a] & Hi & Hm).
  cbn [fst snd] in Hm. destruct (a =? 0) eqn:E; [contradiction|]. destruct Hm as [Hm|[]].
  inversion Hm; subst. cbn [fst snd]. splits; [|reflexivity|lia].
  apply in_combine_l in Hi. apply in_map_iff. exists (dst, d). auto.
Qed.

Lemma sort_asc_query_vals w g v :
  In v (map fst (sort_asc (reg_query_validators w g))) <-> In v (rg_vals g).
Proof.
  unfold sort_asc. rewrite !in_map_iff. split.
  - intros ([v' a] & <- & Hi). apply stable_sort_In in Hi. unfold reg_query_validators in Hi.
    apply in_map_iff in Hi. destruct Hi as (v0 & E & Hi). inversion E; subst. exact Hi.
  - intros Hi. eexists (v, _). split; [reflexivity|]. apply stable_sort_In.
    unfold reg_query_validators. apply in_map_iff. exists v. split; [reflexivity|exact Hi].
Qed.

Definition removal_msgs (hubaddr : addr) (v : val) (redels : list (val * coin)) : list cmsg :=
  [ MWasm hubaddr (WHub (HRedelProxy v redels)) []; MWasm hubaddr (WHub (HUpdateGlobal 0)) [] ].

Theorem reg_redelegate_msgs_spec w g v msgs :
  reg_redelegate_msgs w g v = Some msgs ->
  match delegation (w_env w) (rg_hub g) v with
  | None => msgs = []
  | Some amt =>
      (can_redelegate (w_env w) v = false /\ 0 < amt -> msgs = []) /\
      (can_redelegate (w_env w) v = true \/ amt = 0 ->
         exists redels, msgs = removal_msgs (rg_hub g) v redels /\ redel_total redels = amt /\
           forall dst c, In (dst, c) redels -> In dst (rg_vals g) /\ fst c = usei /\ 0 < snd c)
  end.
Proof.
  unfold reg_redelegate_msgs. intros H.
  destruct (delegation (w_env w) (rg_hub g) v) as [amt|]; [|inversion H; reflexivity].
  destruct ((if can_redelegate (w_env w) v then amt else 0) <? amt) eqn:Elt.
  - inversion H; subst. split; [reflexivity|]. intros [Hc|Hz]; [rewrite Hc in Elt; lia|subst; lia].
  - split; [intros [Hc Hpos]; rewrite Hc in Elt; lia|]. intros _.
    bind_inv H as r Hr. destruct r as [rem dl]. inversion H; subst msgs. clear H.
    apply deleg_some in Hr. destruct Hr as (_ & Hl & Hsum & _). rewrite map_length in Hl.
    cbn [snd]. exists (redels_of (sort_asc (reg_query_validators w g)) dl).
    splits; [reflexivity | rewrite redels_of_sum; assumption |].
    intros dst c Hi. apply redels_of_In in Hi. destruct Hi as (A & B & C). splits; auto.
    apply sort_asc_query_vals in A. exact A.
Qed.

(** ** hub: RedelegateProxy forwards 1:1 and only for the registry *)
Theorem hub_redel_proxy_spec w h self sender funds src l h' out :
  hub_execute w h self sender funds (HRedelProxy src l) = Some (h', out) ->
  paused h = false /\ hc_reg (h_cfg h) = Some sender /\ h' = h /\
  out = map (fun p : val * coin => MRedelegate src (fst p) (snd p)) l.
Proof.
  unfold hub_execute. intros H. check_inv H as Hp. bind_inv H as reg Hreg. check_inv H as Hs.
  inversion H; subst. apply N.eqb_eq in Hs. subst. apply negb_true_iff in Hp. auto.
Qed.

Theorem hub_redel_proxy_only_registry w h self sender funds src l :
  hc_reg (h_cfg h) <> Some sender -> hub_execute w h self sender funds (HRedelProxy src l) = None.
Proof.
  intros Hne. destruct (hub_execute w h self sender funds (HRedelProxy src l)) as [[h' out]|] eqn:E; [|reflexivity].
  apply hub_redel_proxy_spec in E. destruct E as (_ & E & _). contradiction.
Qed.

(** ** environment: executing the redelegations one after the other *)
Definition redel_all (e : env) (x : addr) (src : val) (l : list (val * coin)) : result env :=
  foldM (fun e p => do_redelegate e x src (fst p) (snd p)) l e.

Definition amt_to (d : val) (l : list (val * coin)) : N :=
  sumN (map (fun p : val * coin => if fst p =? d then snd (snd p) else 0) l).

Lemma redel_all_spec x src : forall l e e',
  redel_all e x src l = Some e' -> DelWf e -> (forall p, In p l -> fst p <> src) ->
  DelWf e' /\
  dv e' x src + redel_total l = dv e x src /\
  (forall d, d <> src -> dv e' x d = dv e x d + amt_to d l) /\
  delegated e' x = delegated e x /\
  (forall y, y <> x -> all_delegations e' y = all_delegations e y) /\
  (l <> [] -> redel_total l = dv e x src -> delegation e' x src = None) /\
  (forall p, In p l -> fst (snd p) = usei /\ 0 < snd (snd p) /\ is_val (fst p) = true) /\
  e_wdaddr e' = e_wdaddr e /\ e_noredel e' = e_noredel e /\ e_unb e' = e_unb e /\
  (forall a d, bal e a d <= bal e' a d) /\
  (forall a d, a <> withdraw_addr e x -> bal e' a d = bal e a d).
Proof.
  unfold redel_all, redel_total, amt_to.
  induction l as [|[dst c] l IH]; intros e e' H Hwf Hne; cbn [foldM map sumN] in *.
  - inversion H; subst.
    splits; auto; try lia; try (intros d _; lia); try (intros X; congruence); try (intros p []).
  - bind_inv H as e1 He1. cbn [fst snd] in He1.
    apply do_redelegate_spec in He1; [|exact Hwf].
    destruct He1 as (Hden & Hpos & Hcan & Hle & Hsrc & Hdst & Hmove & _ & Hother & Hdg & Hoth & _ &
                     Hunb & Hwd & Hnr & _ & _ & Hbo & Hbg & Hwf1).
    assert (Hds : src <> dst) by (intros E; apply (Hne (dst, c)); [left; reflexivity|cbn; congruence]).
    destruct (Hmove Hds) as (M1 & M2 & M3).
    destruct (IH e1 e' H Hwf1 ltac:(intros p Hp; apply Hne; right; exact Hp))
      as (I1 & I2 & I3 & I4 & I5 & I6 & I7 & I8 & I9 & I10 & I11 & I12).
    cbn [fst snd]. splits.
    + exact I1.
    + lia.
    + intros d Hd. rewrite (I3 d Hd). destruct (dst =? d) eqn:E.
      * apply N.eqb_eq in E. subst d. lia.
      * assert (Hdv : dv e1 x d = dv e x d).
        { unfold dv. rewrite Hother; [reflexivity| |]; intros X; inversion X; subst; [congruence|lia]. }
        lia.
    + congruence.
    + intros y Hy. rewrite (I5 y Hy). apply Hoth. exact Hy.
    + intros _ Htot. destruct l as [|p2 l2].
      * cbn [foldM] in H. inversion H; subst e'. apply M3. cbn [map sumN] in Htot. lia.
      * apply I6; [discriminate|]. lia.
    + intros p [<-|Hp]; [cbn [fst snd]; auto|apply I7; exact Hp].
    + congruence.
    + congruence.
    + congruence.
    + intros a d. eapply N.le_trans; [apply Hbg|apply I11].
    + intros a d Ha. rewrite I12; [apply Hbo; exact Ha|].
      unfold withdraw_addr in *. rewrite Hwd. exact Ha.
Qed.

(** ** the executor runs the forwarded redelegations first *)
Lemma run_cons_inv fuel w s m rest tr w' tr' :
  run fuel w ((s, m) :: rest) tr = Some (w', tr') ->
  exists f w1 out, fuel = S f /\ step_msg w s m = Some (w1, out) /\
                   run f w1 (out ++ rest) (tr ++ [(s, m)]) = Some (w', tr').
Proof.
  destruct fuel as [|f]; cbn [run]; [discriminate|]. intros H. bind_inv H as r Hr. destruct r as [w1 out].
  exists f, w1, out. auto.
Qed.

Definition redel_stack (src : val) (l : list (val * coin)) : list (addr * cmsg) :=
  map (fun p : val * coin => (A_hub, MRedelegate src (fst p) (snd p))) l.

Lemma run_redels src : forall l fuel w rest tr w' tr',
  run fuel w (redel_stack src l ++ rest) tr = Some (w', tr') ->
  exists e2 fuel1,
    redel_all (w_env w) A_hub src l = Some e2 /\
    run fuel1 (set_env w e2) rest (tr ++ redel_stack src l) = Some (w', tr') /\
    (l = [] -> e2 = w_env w).
Proof.
  unfold redel_all, redel_stack. induction l as [|p l IH]; intros fuel w rest tr w' tr' H; cbn [map app foldM] in *.
  - exists (w_env w), fuel. rewrite app_nil_r. splits; auto.
    destruct w; exact H.
  - apply run_cons_inv in H. destruct H as (f & w1 & out & -> & Hs & H).
    cbn [step_msg] in Hs. bind_inv Hs as e1 He1. inversion Hs; subst w1 out. clear Hs. cbn [app] in H.
    destruct (IH _ _ _ _ _ _ H) as (e2 & fuel1 & A & B & _). cbn [w_env set_env] in A.
    exists e2, fuel1. cbn [bind]. splits; [exact A| |discriminate].
    rewrite <- app_assoc in B. cbn [app] in B. exact B.
Qed.

(** ** the RemoveValidator transaction *)
Definition same_contracts_but_reg (w w2 : world) : Prop :=
  w_hub w2 = w_hub w /\ w_reward w2 = w_reward w /\ w_disp w2 = w_disp w /\
  w_bsei w2 = w_bsei w /\ w_stsei w2 = w_stsei w.

Lemma send_coins_nil e a b : send_coins e a b [] = Some e.
Proof. reflexivity. Qed.

Theorem remove_tx_decompose w sender v funds w' tr g amt :
  DelWf (w_env w) -> w_reg w = Some g -> rg_hub g = A_hub ->
  delegation (w_env w) A_hub v = Some amt -> can_redelegate (w_env w) v = true ->
  run tx_fuel w [(sender, MWasm A_reg (WReg (GRemove v)) funds)] [] = Some (w', tr) ->
  exists g' redels w2 fuel2,
    sender = rg_owner g /\ rg_vals g' = remove_val v (rg_vals g) /\ ~ In v (rg_vals g') /\
    rg_vals g' <> [] /\ rg_hub g' = A_hub /\
    redel_total redels = amt /\
    (forall dst c, In (dst, c) redels -> In dst (rg_vals g') /\ fst c = usei /\ 0 < snd c) /\
    (* the world after the redelegations have executed *)
    w_reg w2 = Some g' /\ same_contracts_but_reg w w2 /\ DelWf (w_env w2) /\
    dv (w_env w2) A_hub v = 0 /\ (0 < amt -> delegation (w_env w2) A_hub v = None) /\
    (forall d, d <> v -> dv (w_env w2) A_hub d = dv (w_env w) A_hub d + amt_to d redels) /\
    delegated (w_env w2) A_hub = delegated (w_env w) A_hub /\
    (* the rest of the transaction is exactly the UpdateGlobalIndex appended by the registry *)
    run fuel2 w2 [(A_reg, MWasm A_hub (WHub (HUpdateGlobal 0)) [])]
        ((sender, MWasm A_reg (WReg (GRemove v)) funds)
         :: (A_reg, MWasm A_hub (WHub (HRedelProxy v redels)) []) :: redel_stack v redels)
      = Some (w', tr).
Proof.
  intros Hwf Hg Hhub Hdel Hcan H.
  (* 1. the registry call *)
  apply run_cons_inv in H. destruct H as (f1 & w1 & out1 & _ & Hs1 & H). cbn [app] in H.
  apply step_msg_inv in Hs1.
  destruct Hs1 as [e' _ _ Hn | to wm fs e1 o Hm Hsend Hc ->]; [exfalso; eapply Hn; reflexivity|].
  inversion Hm; subst to wm fs. clear Hm.
  pose proof (send_coins_static _ _ _ _ _ Hsend) as (_ & _ & Hdel1 & _ & _ & Hnr1).
  assert (Hc' : exists g', reg_execute (set_env w e1) g sender (GRemove v) = Some (g', o) /\
                           w1 = set_reg (set_env w e1) g').
  { destruct Hc as [h hm h' E1 E2 Hw He -> | r rm r' E1 E2 Hw He -> | d dm d' E1 E2 Hw He ->
                   | g0 gm g' E1 E2 Hw He -> | t cm t' E1 E2 Hw He -> | t cm t' E1 E2 Hw He ->
                   | sm e' E1 E2 He -> -> | E1 -> ->];
      try (vm_compute in E1; discriminate E1).
    inversion E2; subst gm. cbn [w_reg set_env] in Hw. rewrite Hg in Hw. inversion Hw; subst g0. eauto. }
  clear Hc. destruct Hc' as (g' & Hre & ->).
  apply reg_remove_spec in Hre.
  destruct Hre as (Hown & Hvals & Hnin & Hne & _ & Hhub' & _ & Hmsgs). rewrite Hhub in Hhub'.
  apply reg_redelegate_msgs_spec in Hmsgs. rewrite Hhub' in Hmsgs. cbn [w_env set_env] in Hmsgs.
  assert (Hd1 : delegation e1 A_hub v = Some amt) by (unfold delegation; rewrite Hdel1; exact Hdel).
  assert (Hc1 : can_redelegate e1 v = true) by (unfold can_redelegate; rewrite Hnr1; exact Hcan).
  rewrite Hd1 in Hmsgs. destruct Hmsgs as [_ Hmsgs].
  destruct (Hmsgs (or_introl Hc1)) as (redels & -> & Htot & Htargets). clear Hmsgs.
  unfold removal_msgs in H. cbn [map app] in H.
  (* 2. the hub forwards the proxy message *)
  apply run_cons_inv in H. destruct H as (f2 & w1b & out2 & _ & Hs2 & H).
  apply step_msg_inv in Hs2.
  destruct Hs2 as [e' _ _ Hn | to wm fs e1' o2 Hm Hsend2 Hc2 ->]; [exfalso; eapply Hn; reflexivity|].
  inversion Hm; subst to wm fs. clear Hm. rewrite send_coins_nil in Hsend2. inversion Hsend2; subst e1'. clear Hsend2.
  cbn [w_env set_reg set_env] in Hc2.
  assert (Hc2' : exists h, w_hub w = Some h /\ o2 = map (fun p : val * coin => MRedelegate v (fst p) (snd p)) redels /\
                           w1b = set_hub (set_env (set_reg (set_env w e1) g') e1) h).
  { destruct Hc2 as [h hm h' E1 E2 Hw He -> | r rm r' E1 E2 Hw He -> | d dm d' E1 E2 Hw He ->
                   | g0 gm g0' E1 E2 Hw He -> | t cm t' E1 E2 Hw He -> | t cm t' E1 E2 Hw He ->
                   | sm e' E1 E2 He -> -> | E1 -> ->];
      try (vm_compute in E1; discriminate E1).
    inversion E2; subst hm. apply hub_redel_proxy_spec in He. destruct He as (_ & _ & -> & ->).
    exists h. cbn [w_hub set_env set_reg] in Hw. auto. }
  clear Hc2. destruct Hc2' as (h & Hh & -> & ->).
  (* 3. the redelegations *)
  rewrite map_map in H. change (map (fun x : val * coin => (A_hub, MRedelegate v (fst x) (snd x))) redels)
    with (redel_stack v redels) in H.
  apply run_redels in H. destruct H as (e2 & fuel2 & Hall & H & _).
  cbn [w_env set_hub set_env] in Hall.
  assert (Hwf1 : DelWf e1) by (eapply DelWf_same_del; eauto).
  apply redel_all_spec in Hall; [|exact Hwf1|].
  2:{ intros [dst c] Hp. cbn [fst]. intros ->. destruct (Htargets _ _ Hp) as (A & _). contradiction. }
  destruct Hall as (Hwf2 & Hsrc & Hdst & Hdg & _ & Hnone & _).
  assert (Hdv1 : forall d, dv e1 A_hub d = dv (w_env w) A_hub d).
  { intros d. unfold dv, delegation. rewrite Hdel1. reflexivity. }
  assert (Hamt : dv e1 A_hub v = amt) by (unfold dv; rewrite Hd1; reflexivity).
  exists g', redels, (set_env (set_hub (set_env (set_reg (set_env w e1) g') e1) h) e2), fuel2.
  cbn [w_env w_reg w_hub w_reward w_disp w_bsei w_stsei set_env set_hub set_reg].
  unfold same_contracts_but_reg. cbn [w_env w_reg w_hub w_reward w_disp w_bsei w_stsei set_env set_hub set_reg].
  splits; auto.
  - lia.
  - intros Hpos. apply Hnone; [|lia]. intros ->. unfold redel_total in Htot. cbn in Htot. lia.
  - intros d Hd. rewrite (Hdst d Hd). rewrite Hdv1. reflexivity.
  - rewrite Hdg. apply delegated_same_del. exact Hdel1.
Qed.
