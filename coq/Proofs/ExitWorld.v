(** * ExitWorld: a concrete, fully wired example world used by the non-vacuity examples of
    Proofs/NonInterf.v and Proofs/ExitP.v (property C09).  Definitions only. *)
From Krp Require Import Tactics Prelude Fixed FMap Types Env Registry Cw20 Reward Dispatcher Hub Exec.
Open Scope N_scope.

Definition alice : addr := 11.
Definition bob : addr := 12.
Definition updater : addr := 13.
Definition keeper : addr := 14.

(** instantiate and wire the six contracts (epoch 30 s, unbonding 100 s = chain unbonding time,
    peg fee 0.5 %, threshold 1.0, keeper rate 5 %), three validators, then alice bonds 1 000 000 usei
    for bSei and bob bonds 2 000 000 usei for stSei *)
Definition genesis_ops : list op :=
  [ OInstHub A_owner 30 100 (D / 200) D updater usei uusd;
    OInstReward A_owner A_hub uusd A_swap [uatom];
    OInstDisp A_owner A_hub A_reward usei uusd keeper (D / 20) A_swap A_oracle [usei; uusd; uatom];
    OInstReg A_owner A_hub [0; 1; 2];
    OInstBsei A_owner A_hub [];
    OInstStsei A_owner A_hub 2 [];
    OTx A_owner A_hub (WHub (HConfig (Some A_disp) (Some A_reg) (Some A_bsei) (Some A_stsei)
                                     (Some A_airdrop) (Some A_reward) None)) [];
    OGift alice usei 10000000;
    OGift bob usei 10000000;
    OTx alice A_hub (WHub HBond) [(usei, 1000000)];
    OTx bob A_hub (WHub HBondSt) [(usei, 2000000)] ].

Definition world0 : world := run_ops genesis_ops (empty_world 100).
