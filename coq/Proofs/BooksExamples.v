(** * BooksExamples: non-vacuity of the hypotheses of the C02 / C13 theorems on a concrete, fully wired
    world (three validators, a bSei bond of 1 000 000 and a stSei bond of 2 000 000, pending staking
    rewards), with and without an unrecognised 10 % slash of validator 1.  All by computation. *)
From Krp Require Import Tactics Prelude Fixed FMap Types Env Registry Cw20 Reward Dispatcher Hub Exec
     ExecP Hist Inv RegistryP HubFrame HubAdmin BooksEnv BooksHub BooksP BooksLiquid RemoveP RemoveEnd.
Open Scope N_scope.

Definition bk_alice : addr := 11.
Definition bk_bob : addr := 12.
Definition bk_keeper : addr := 14.

Definition bk_ops : list op :=
  [ OInstHub A_owner 30 100 (D / 200) D 13 usei uusd;
    OInstReward A_owner A_hub uusd A_swap [uatom];
    OInstDisp A_owner A_hub A_reward usei uusd bk_keeper (D / 20) A_swap A_oracle [usei; uusd; uatom];
    OInstReg A_owner A_hub [0; 1; 2];
    OInstBsei A_owner A_hub [];
    OInstStsei A_owner A_hub 2 [];
    OTx A_owner A_hub (WHub (HConfig (Some A_disp) (Some A_reg) (Some A_bsei) (Some A_stsei)
                                     (Some A_airdrop) (Some A_reward) None)) [];
    OGift bk_alice usei 10000000;
    OGift bk_bob usei 10000000;
    OTx bk_alice A_hub (WHub HBond) [(usei, 1000000)];
    OTx bk_bob A_hub (WHub HBondSt) [(usei, 2000000)];
    OAccrue 0 usei 5000;
    OAdvance 50 ].

(** [bk_w0]: books = delegations = 3 000 000; [bk_ws]: validator 1 slashed by 10 %, not yet recognised *)
Definition bk_w0 : world := run_ops bk_ops (empty_world 100).
Definition bk_ws : world := fst (step bk_w0 (OSlash 1 1 10 false)).

Definition hub_pools (w : world) : N * N :=
  match w_hub w with Some h => (hs_bb (h_state h), hs_bst (h_state h)) | None => (0, 0) end.

Example bk_w0_state :
  hub_pools bk_w0 = (1000000, 2000000) /\
  all_delegations (w_env bk_w0) A_hub = [(0, 1000000); (1, 1000000); (2, 1000000)] /\
  bal (w_env bk_w0) A_hub usei = 0.
Proof. vm_compute. auto. Qed.

Example bk_ws_state :
  hub_pools bk_ws = (1000000, 2000000) /\
  all_delegations (w_env bk_ws) A_hub = [(0, 1000000); (1, 900000); (2, 1000000)].
Proof. vm_compute. auto. Qed.

Lemma bk_w0_entwf : EntWf bk_w0.
Proof. apply EntWf_reachable. Qed.
Lemma bk_ws_entwf : EntWf bk_ws.
Proof. apply (EntWf_reachable 100 (bk_ops ++ [OSlash 1 1 10 false])). Qed.

Lemma bk_w0_books : Books bk_w0.
Proof.
  intros h Hh. vm_compute in Hh. inversion Hh; subst h. vm_compute. intros E; discriminate E.
Qed.

(** in the slashed world the invariant is really broken before the next pricing transaction *)
Lemma bk_ws_not_books : ~ Books bk_ws.
Proof.
  intros HB. destruct (w_hub bk_ws) as [h|] eqn:Hh; [|vm_compute in Hh; discriminate Hh].
  specialize (HB h Hh). vm_compute in Hh. inversion Hh; subst h. vm_compute in HB. apply HB. reflexivity.
Qed.

Lemma bk_underlying w : w = bk_w0 \/ w = bk_ws -> forall h, w_hub w = Some h -> hp_underlying (h_params h) = usei.
Proof. intros [-> | ->] h Hh; vm_compute in Hh; inversion Hh; subst h; reflexivity. Qed.

Lemma bk_w0_norewards : NoRewardsToHub (w_env bk_w0).
Proof.
  intros x. unfold withdraw_addr.
  assert (E : e_wdaddr (w_env bk_w0) = [(A_hub, A_disp)]) by (vm_compute; reflexivity).
  rewrite E. cbn [get]. unfold eqbA. destruct (x =? A_hub) eqn:Ex.
  - intros X. vm_compute in X. discriminate X.
  - apply N.eqb_neq in Ex. exact Ex.
Qed.

(** transactions used below *)
Notation bk_tx w sender target m funds := (run tx_fuel w [(sender, MWasm target m funds)] []).

Definition tx_ok_pricing (r : result (world * list (addr * cmsg))) : bool :=
  match r with Some (_, tr) => existsb is_pricing_msg tr | None => false end.

(** an Unbond (closing the batch: it undelegates) and a Convert in the slashed world are successful
    pricing transactions: [tx_books_after_pricing] applies and restores [Books] *)
Example bk_unbond_is_pricing :
  tx_ok_pricing (bk_tx bk_ws bk_alice A_bsei (WCw20 (CSend A_hub 1000 HkUnbond)) []) = true /\
  tx_ok_pricing (bk_tx bk_ws bk_bob A_stsei (WCw20 (CSend A_hub 1000 HkConvert)) []) = true /\
  tx_ok_pricing (bk_tx bk_ws bk_alice A_hub (WHub HBond) [(usei, 777)]) = true /\
  tx_ok_pricing (bk_tx bk_ws 99 A_hub (WHub HCheckSlashing) []) = true.
Proof. vm_compute. auto. Qed.

Example bk_unbond_restores_books w' tr :
  run tx_fuel bk_ws [(bk_alice, MWasm A_bsei (WCw20 (CSend A_hub 1000 HkUnbond)) [])] [] = Some (w', tr) ->
  Books w'.
Proof.
  intros H.
  exact (token_send_tx_books bk_ws bk_alice A_bsei 1000 HkUnbond [] w' tr bk_ws_entwf
           (or_introl eq_refl) (or_introl eq_refl) H).
Qed.

(** the bond and the index update in [bk_w0] succeed; the bond leaves the liquid balance unchanged *)
Example bk_bond_ok :
  is_some (bk_tx bk_w0 bk_alice A_hub (WHub HBond) [(usei, 777)]) = true /\
  is_some (bk_tx bk_w0 13 A_hub (WHub (HUpdateGlobal 0)) []) = true.
Proof. vm_compute. auto. Qed.

Example bk_bond_liquid w' tr :
  run tx_fuel bk_w0 [(bk_alice, MWasm A_hub (WHub HBond) [(usei, 777)])] [] = Some (w', tr) ->
  bal (w_env w') A_hub usei = bal (w_env bk_w0) A_hub usei.
Proof.
  intros H.
  refine (bond_tx_liquid_unchanged bk_w0 bk_alice HBond [(usei, 777)] w' tr (or_introl eq_refl)
            (bk_underlying bk_w0 (or_introl eq_refl)) bk_w0_norewards _ H).
  intros E. vm_compute in E. discriminate E.
Qed.

(** the executed messages of an index update (with re-bonding of rewards), of a Convert and of a
    RemoveValidator in the example world contain neither a Withdraw nor a gift to the hub, so
    [tx_liquid_eq] applies to them as well *)
Definition gift_free (sm : addr * cmsg) : bool :=
  match snd sm with
  | MWasm to wm funds =>
      (negb (to =? A_hub) || (coin_amt usei funds =? 0) ||
       match wm with WHub HBond | WHub HBondSt | WHub HBondRewards => true | _ => false end) &&
      (negb (to =? A_swap) ||
       match wm with
       | WSwap (SSwapDenom _ target rc) =>
           negb (((match rc with Some x => x | None => fst sm end) =? A_hub) && (target =? usei))
       | _ => true
       end) &&
      match wm with WHub HWithdraw => negb (to =? A_hub) | _ => true end
  | MBank to cs => negb (to =? A_hub) || (coin_amt usei cs =? 0)
  | MSetWithdrawAddr a => negb (a =? A_hub)
  | _ => true
  end.

Definition tx_gift_free (r : result (world * list (addr * cmsg))) : bool :=
  match r with Some (_, tr) => forallb gift_free tr | None => false end.

Example bk_other_txs_gift_free :
  tx_gift_free (bk_tx bk_w0 13 A_hub (WHub (HUpdateGlobal 0)) []) = true /\
  tx_gift_free (bk_tx bk_w0 bk_bob A_stsei (WCw20 (CSend A_hub 1000 HkConvert)) []) = true /\
  tx_gift_free (bk_tx bk_w0 A_owner A_reg (WReg (GRemove 1)) []) = true.
Proof. vm_compute. auto. Qed.

(** ** C13: the hypotheses of [remove_tx_decompose] / [remove_tx_end] / [remove_tx_gap] *)
Example bk_remove_hyps :
  (exists g, w_reg bk_w0 = Some g /\ rg_hub g = A_hub /\ rg_vals g = [0; 1; 2]) /\
  delegation (w_env bk_w0) A_hub 1 = Some 1000000 /\ can_redelegate (w_env bk_w0) 1 = true /\
  is_some (bk_tx bk_w0 A_owner A_reg (WReg (GRemove 1)) []) = true.
Proof. vm_compute. split; [eexists; auto|auto]. Qed.

Example bk_remove_result :
  match bk_tx bk_w0 A_owner A_reg (WReg (GRemove 1)) [] with
  | Some (w', _) =>
      (match w_reg w' with Some g => rg_vals g | None => [] end) = [0; 2] /\
      all_delegations (w_env w') A_hub = [(0, 1501584); (2, 1501583)] /\
      hub_pools w' = (1000000, 2003167)
  | None => False
  end.
Proof. vm_compute. auto. Qed.

(** removing the last validator, or as somebody else, fails *)
Example bk_remove_last_fails :
  let w1 := fst (step (fst (step bk_w0 (OTx A_owner A_reg (WReg (GRemove 1)) [])))
                      (OTx A_owner A_reg (WReg (GRemove 0)) [])) in
  (match w_reg w1 with Some g => rg_vals g | None => [] end) = [2] /\
  snd (step w1 (OTx A_owner A_reg (WReg (GRemove 2)) [])) = (false, []) /\
  snd (step bk_w0 (OTx bk_alice A_reg (WReg (GRemove 1)) [])) = (false, []).
Proof. vm_compute. auto. Qed.

(** the chain refuses redelegation: only the entry is removed, the stake stays *)
Example bk_remove_noredel :
  let w1 := fst (step bk_w0 (OCanRedel 1 false)) in
  match bk_tx w1 A_owner A_reg (WReg (GRemove 1)) [] with
  | Some (w', tr) =>
      (match w_reg w' with Some g => rg_vals g | None => [] end) = [0; 2] /\
      all_delegations (w_env w') A_hub = [(0, 1000000); (1, 1000000); (2, 1000000)] /\
      length tr = 1%nat
  | None => False
  end.
Proof. vm_compute. auto. Qed.

(** the boolean check [gift_free] implies the side conditions of [tx_liquid_ge] / [tx_liquid_eq] *)
Lemma gift_free_ok sm : gift_free sm = true -> not_withdraw sm /\ no_gift sm.
Proof.
  destruct sm as [s m]. unfold gift_free, not_withdraw, no_gift. cbn [fst snd].
  destruct m; intros H.
  - apply andb_true_iff in H. destruct H as [H H3]. apply andb_true_iff in H. destruct H as [H1 H2].
    split; [|split].
    + intros f E. inversion E; subst. rewrite N.eqb_refl in H3. discriminate H3.
    + intros ->. rewrite N.eqb_refl in H1. cbn [negb orb] in H1. apply orb_true_iff in H1.
      destruct H1 as [H1|H1]; [left; apply N.eqb_eq; exact H1|right].
      destruct m as [hm| | | | | |]; try discriminate H1. exists hm. split; [reflexivity|].
      destruct hm; try discriminate H1; unfold is_bond_msg; auto.
    + intros ->. rewrite N.eqb_refl in H2. cbn [negb orb] in H2.
      destruct m as [| | | | |sm|]; try exact I. destruct sm as [from target rc].
      apply negb_true_iff, andb_false_iff in H2. intros E.
      destruct rc as [x|]; injection E as E1 E2; subst; rewrite !N.eqb_refl in H2; destruct H2 as [H2|H2]; discriminate H2.
  - split; [intros f E; discriminate E|]. intros ->. rewrite N.eqb_refl in H. cbn [negb orb] in H.
    apply N.eqb_eq. exact H.
  - split; [intros f E; discriminate E|exact I].
  - split; [intros f E; discriminate E|exact I].
  - split; [intros f E; discriminate E|exact I].
  - split; [intros f E; discriminate E|exact I].
  - split; [intros f E; discriminate E|]. apply negb_true_iff, N.eqb_neq in H. exact H.
Qed.

Lemma tx_gift_free_ok w sender target m funds w' tr :
  run tx_fuel w [(sender, MWasm target m funds)] [] = Some (w', tr) ->
  forallb gift_free tr = true -> Forall (fun sm => not_withdraw sm /\ no_gift sm) tr.
Proof.
  intros _ H. apply Forall_forall. intros sm Hi. apply gift_free_ok.
  rewrite forallb_forall in H. apply H. exact Hi.
Qed.

(** non-vacuity of [tx_liquid_eq] beyond bonds: the index update (which withdraws staking rewards,
    swaps, pays the keeper and re-bonds), a conversion and a validator removal leave the hub's liquid
    balance unchanged in the example world *)
Example bk_update_global_liquid w' tr :
  run tx_fuel bk_w0 [(13, MWasm A_hub (WHub (HUpdateGlobal 0)) [])] [] = Some (w', tr) ->
  bal (w_env w') A_hub usei = bal (w_env bk_w0) A_hub usei.
Proof.
  intros H.
  refine (tx_liquid_eq bk_w0 13 A_hub (WHub (HUpdateGlobal 0)) [] w' tr
            (bk_underlying bk_w0 (or_introl eq_refl)) bk_w0_norewards (fun _ => eq_refl) H _).
  apply (tx_gift_free_ok _ _ _ _ _ _ _ H).
  pose proof (proj1 bk_other_txs_gift_free) as G. unfold tx_gift_free in G.
  rewrite H in G. exact G.
Qed.

Example bk_remove_liquid w' tr :
  run tx_fuel bk_w0 [(A_owner, MWasm A_reg (WReg (GRemove 1)) [])] [] = Some (w', tr) ->
  bal (w_env w') A_hub usei = bal (w_env bk_w0) A_hub usei.
Proof.
  intros H.
  refine (tx_liquid_eq bk_w0 A_owner A_reg (WReg (GRemove 1)) [] w' tr
            (bk_underlying bk_w0 (or_introl eq_refl)) bk_w0_norewards (fun _ => eq_refl) H _).
  apply (tx_gift_free_ok _ _ _ _ _ _ _ H).
  pose proof (proj2 (proj2 bk_other_txs_gift_free)) as G. unfold tx_gift_free in G.
  rewrite H in G. exact G.
Qed.

(** [tx_gap_preserved] / [remove_tx_gap]: hypotheses hold in [bk_w0] *)
Example bk_gap_hyps :
  exists h, w_hub bk_w0 = Some h /\ hp_underlying (h_params h) = usei /\
            booked h <= delegated (w_env bk_w0) A_hub.
Proof.
  destruct (w_hub bk_w0) as [h|] eqn:Hh; [|vm_compute in Hh; discriminate Hh].
  exists h. split; [reflexivity|]. split; [apply (bk_underlying bk_w0 (or_introl eq_refl)); exact Hh|].
  apply bk_w0_books. exact Hh.
Qed.

(** [NoSurplus] holds in the example worlds (in the slashed one strictly: 2 900 000 < 3 000 000), so
    [tx_books_exact_after_pricing] applies: after the Unbond the books equal the delegations *)
Lemma bk_ws_nosurplus : NoSurplus bk_ws.
Proof.
  split; [apply bk_ws_entwf|]. intros h Hh.
  split; [apply (bk_underlying bk_ws (or_intror eq_refl)); exact Hh|].
  vm_compute in Hh. inversion Hh; subst h. vm_compute. intros E; discriminate E.
Qed.

Example bk_unbond_exact w' tr h' :
  run tx_fuel bk_ws [(bk_alice, MWasm A_bsei (WCw20 (CSend A_hub 1000 HkUnbond)) [])] [] = Some (w', tr) ->
  w_hub w' = Some h' -> booked h' = delegated (w_env w') A_hub.
Proof.
  intros H Hh.
  refine (tx_books_exact_after_pricing bk_ws bk_alice A_bsei _ [] w' tr h' bk_ws_entwf bk_ws_nosurplus H _ Hh).
  eapply pricing_in_trace; [eapply token_send_reaches_hub; [left; reflexivity|exact H]|reflexivity].
Qed.
