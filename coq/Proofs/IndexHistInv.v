(** * IndexHistInv: invariants behind the premises of the UpdateGlobalIndex theorem (C19), proved over
    ALL histories (helper file of Proofs/IndexHist.v).

    Main theorems ([w] is [run_ops ops (empty_world ut)], any history [ops], no hypothesis at all):
    - [IndexHist_WdInv_reachable] : whenever the hub's configuration names a dispatcher [a], the
        distribution module's withdraw address of the hub account IS [a]  (the hub's UpdateConfig
        emits SetWithdrawAddress in the same transaction; nothing else can redirect the hub's rewards).
        With [Wired w] this is the premise [RewardsToDispatcher w] of C19.
    - [IndexHist_RegSorted_reachable] : the registry's validator list is strictly ascending in every
        reached world, hence without repetition ([IndexHist_RegNoDup_reachable]): the [NoDup] clause of
        the premise [RegOk] of C19.
    Message-level facts: [IndexHist_hub_disp] (a hub handler either is UpdateConfig{dispatcher = a},
    ends with dispatcher = a and emits exactly [SetWithdrawAddress a], or keeps the dispatcher field
    and emits no SetWithdrawAddress), [IndexHist_step_msg_WdJ] (the (world, stack) invariant). *)
From Coq Require Import Sorted.
From Krp Require Import Tactics Prelude Fixed FMap Types Env Registry Cw20 Reward Dispatcher Hub Exec
     ExecP Hist Inv HubFrame HubAdmin BooksEnv BooksHub BooksLiquid ArrivalEnv MirrorWire.
Open Scope N_scope.

(** ** 1. the withdraw address of the hub account follows the hub's dispatcher field *)
Definition IndexHist_WdInv (w : world) : Prop :=
  forall h a, w_hub w = Some h -> hc_disp (h_cfg h) = Some a -> withdraw_addr (w_env w) A_hub = a.

(** a SetWithdrawAddress message sent by the hub account *)
Definition IndexHist_is_hub_set (sm : addr * cmsg) : bool :=
  match snd sm with MSetWithdrawAddr _ => fst sm =? A_hub | _ => false end.

Definition IndexHist_wd_clean (st : list (addr * cmsg)) : Prop :=
  forallb (fun sm => negb (IndexHist_is_hub_set sm)) st = true.

(** the withdraw address after the head of the stack has executed, if the head is the hub's
    SetWithdrawAddress *)
Definition IndexHist_head_wd (cur : addr) (st : list (addr * cmsg)) : addr :=
  match st with
  | (s, MSetWithdrawAddr b) :: _ => if s =? A_hub then b else cur
  | _ => cur
  end.

(** (world, pending stack) invariant: only the HEAD of the stack can be the hub's SetWithdrawAddress,
    and the hub's dispatcher field agrees with the withdraw address as it will be after that head *)
Definition IndexHist_WdJ (w : world) (st : list (addr * cmsg)) : Prop :=
  IndexHist_wd_clean (tl st) /\
  forall h a, w_hub w = Some h -> hc_disp (h_cfg h) = Some a ->
    IndexHist_head_wd (withdraw_addr (w_env w) A_hub) st = a.

Lemma IndexHist_clean_tl st : IndexHist_wd_clean st -> IndexHist_wd_clean (tl st).
Proof.
  unfold IndexHist_wd_clean. destruct st as [|x r]; cbn [tl forallb]; [auto|].
  intros H. apply andb_true_iff in H. tauto.
Qed.

Lemma IndexHist_clean_app a b :
  IndexHist_wd_clean a -> IndexHist_wd_clean b -> IndexHist_wd_clean (a ++ b).
Proof. unfold IndexHist_wd_clean. intros Ha Hb. rewrite forallb_app, Ha, Hb. reflexivity. Qed.

Lemma IndexHist_head_clean cur st : IndexHist_wd_clean st -> IndexHist_head_wd cur st = cur.
Proof.
  unfold IndexHist_wd_clean. destruct st as [|[s m] r]; cbn [forallb IndexHist_head_wd]; [reflexivity|].
  intros H. apply andb_true_iff in H. destruct H as [H _].
  destruct m; try reflexivity. unfold IndexHist_is_hub_set in H. cbn [fst snd] in H.
  apply negb_true_iff in H. rewrite H. reflexivity.
Qed.

Lemma IndexHist_head_nonset cur s m rest :
  IndexHist_is_hub_set (s, m) = false -> IndexHist_head_wd cur ((s, m) :: rest) = cur.
Proof.
  unfold IndexHist_is_hub_set. cbn [fst snd IndexHist_head_wd]. destruct m; try reflexivity.
  intros ->. reflexivity.
Qed.

Lemma IndexHist_clean_tagged to (o : list cmsg) :
  (to =? A_hub) = false -> IndexHist_wd_clean (map (fun x => (to, x)) o).
Proof.
  intros Ht. unfold IndexHist_wd_clean. induction o as [|x o IH]; cbn [map forallb]; [reflexivity|].
  rewrite IH, andb_true_r. unfold IndexHist_is_hub_set. cbn [fst snd]. destruct x; try reflexivity.
  rewrite Ht. reflexivity.
Qed.

Lemma IndexHist_clean_noset to (o : list cmsg) :
  (forall x a, In x o -> x <> MSetWithdrawAddr a) -> IndexHist_wd_clean (map (fun x => (to, x)) o).
Proof.
  intros Hn. unfold IndexHist_wd_clean. induction o as [|x o IH]; cbn [map forallb]; [reflexivity|].
  rewrite IH by (intros y a Hy; apply Hn; right; exact Hy). rewrite andb_true_r.
  unfold IndexHist_is_hub_set. cbn [fst snd]. destruct x; try reflexivity.
  exfalso. eapply Hn; [left; reflexivity | reflexivity].
Qed.

(** generic step: the executed head was not the hub's SetWithdrawAddress, the withdraw address of
    the hub account did not move, the dispatcher field did not move, nothing emitted is the hub's
    SetWithdrawAddress *)
Lemma IndexHist_WdJ_frame w s m rest w' out :
  IndexHist_WdJ w ((s, m) :: rest) -> IndexHist_is_hub_set (s, m) = false ->
  withdraw_addr (w_env w') A_hub = withdraw_addr (w_env w) A_hub ->
  (forall h' a, w_hub w' = Some h' -> hc_disp (h_cfg h') = Some a ->
     exists h, w_hub w = Some h /\ hc_disp (h_cfg h) = Some a) ->
  IndexHist_wd_clean out -> IndexHist_WdJ w' (out ++ rest).
Proof.
  intros [Hc HP] Hns Hwd Hhub Hout. cbn [tl] in Hc.
  assert (Hall : IndexHist_wd_clean (out ++ rest)) by (apply IndexHist_clean_app; assumption).
  split; [apply IndexHist_clean_tl; exact Hall|].
  intros h' a Eh' Ed'. destruct (Hhub h' a Eh' Ed') as (h & Eh & Ed).
  rewrite (IndexHist_head_clean _ _ Hall), Hwd.
  rewrite <- (IndexHist_head_nonset (withdraw_addr (w_env w) A_hub) s m rest Hns).
  exact (HP h a Eh Ed).
Qed.

(** what a hub handler does to the dispatcher field and which SetWithdrawAddress it emits *)
Lemma IndexHist_hub_disp w h self sender funds m h' out :
  hub_execute w h self sender funds m = Some (h', out) ->
  (exists a, out = [MSetWithdrawAddr a] /\ hc_disp (h_cfg h') = Some a) \/
  (hc_disp (h_cfg h') = hc_disp (h_cfg h) /\ forall x a, In x out -> x <> MSetWithdrawAddr a).
Proof.
  intros H. pose proof (hub_execute_emits _ _ _ _ _ _ _ _ H) as Hem.
  destruct (is_admin_msg m) eqn:Ha.
  - destruct m; try discriminate Ha; unfold hub_execute in H.
    + (* HParams *) apply update_params_spec in H. destruct H as (_ & _ & _ & -> & ->).
      right. split; [reflexivity | intros x a []].
    + (* HConfig *) check_inv H as Hp.
      pose proof (execute_update_config_out _ _ _ _ _ _ _ _ _ _ _ H) as Ho.
      apply update_config_spec in H.
      destruct H as (_ & _ & _ & _ & _ & _ & _ & _ & _ & _ & _ & _ & Ed & _).
      destruct disp as [x|].
      * left. exists x. split; [exact Ho | exact Ed].
      * right. split; [exact Ed | subst out; intros x a []].
    + (* HSetOwner *) check_inv H as Hp. check_inv H as Hs. inversion H; subst.
      right. split; [reflexivity | intros x b []].
    + (* HAccept *) check_inv H as Hp. check_inv H as Hs. inversion H; subst.
      right. split; [reflexivity | intros x b []].
    + (* HMigrate *) destruct (paused h); [|discriminate]. inversion H; subst.
      pose proof (migrate_params h limit) as M. cbn zeta in M.
      destruct M as (_ & _ & _ & _ & _ & _ & Mc & _).
      right. split; [rewrite Mc; reflexivity | intros x b []].
  - right. split.
    + apply hub_execute_static in H; [|exact Ha]. destruct H as (Hc & _). rewrite Hc. reflexivity.
    + intros x a Hin ->. rewrite Forall_forall in Hem. specialize (Hem _ Hin). cbn [hub_emit_ok] in Hem.
      destruct Hem as (b & c & d & e & f & g & ->). discriminate Ha.
Qed.

Lemma IndexHist_wd_same e e' :
  e_wdaddr e' = e_wdaddr e -> withdraw_addr e' A_hub = withdraw_addr e A_hub.
Proof. intros H. unfold withdraw_addr. rewrite H. reflexivity. Qed.

Lemma IndexHist_static_wd e e' : env_static e e' -> withdraw_addr e' A_hub = withdraw_addr e A_hub.
Proof. intros H. apply withdraw_addr_static. exact H. Qed.

(** an environment-only message other than the hub's SetWithdrawAddress *)
Lemma IndexHist_WdJ_env w s m rest e1 :
  IndexHist_WdJ w ((s, m) :: rest) -> IndexHist_is_hub_set (s, m) = false ->
  withdraw_addr e1 A_hub = withdraw_addr (w_env w) A_hub ->
  IndexHist_WdJ (set_env w e1) ([] ++ rest).
Proof.
  intros HJ Hns Hwd. eapply IndexHist_WdJ_frame; [exact HJ | exact Hns | exact Hwd | | reflexivity].
  intros h' a Eh Ed. exists h'. split; assumption.
Qed.

Lemma IndexHist_step_msg_WdJ w s m rest w' out :
  IndexHist_WdJ w ((s, m) :: rest) -> step_msg w s m = Some (w', out) ->
  IndexHist_WdJ w' (out ++ rest).
Proof.
  intros HJ H. destruct m; cbn [step_msg] in H.
  - (* MWasm *)
    bind_inv H as e1 He1. bind_inv H as r Hr. destruct r as [w2 o]. cbn [fst snd] in H.
    inversion H; subst w' out. clear H.
    pose proof (IndexHist_static_wd _ _ (send_coins_static _ _ _ _ _ He1)) as Hwd1.
    apply call_inv in Hr.
    destruct Hr as [h hm h' Et Em Hw He E | r rm r' Et Em Hw He E | d dm d' Et Em Hw He E
                   | g gm g' Et Em Hw He E | t cm t' Et Em Hw He E | t cm t' Et Em Hw He E
                   | sm e' Et Em He E Eo | Et E Eo]; subst w2.
    + (* hub *) subst to. cbn [w_hub set_env] in Hw.
      destruct (IndexHist_hub_disp _ _ _ _ _ _ _ _ He) as [(a & -> & Ed) | (Ed & Hn)].
      * destruct HJ as [Hc _]. cbn [tl] in Hc. cbn [map app]. split; [exact Hc|].
        intros h0 a0 Eh0 Ed0. cbn [w_hub set_hub] in Eh0. inversion Eh0; subst h0.
        cbn [IndexHist_head_wd]. rewrite N.eqb_refl. congruence.
      * eapply IndexHist_WdJ_frame; [exact HJ | reflexivity | exact Hwd1 | | apply IndexHist_clean_noset; exact Hn].
        intros h0 a0 Eh0 Ed0. cbn [w_hub set_hub] in Eh0. inversion Eh0; subst h0.
        exists h. split; [exact Hw | congruence].
    + subst to. eapply IndexHist_WdJ_frame; [exact HJ | reflexivity | exact Hwd1 | | apply IndexHist_clean_tagged; reflexivity].
      intros h0 a0 Eh0 Ed0. exists h0. split; assumption.
    + subst to. eapply IndexHist_WdJ_frame; [exact HJ | reflexivity | exact Hwd1 | | apply IndexHist_clean_tagged; reflexivity].
      intros h0 a0 Eh0 Ed0. exists h0. split; assumption.
    + subst to. eapply IndexHist_WdJ_frame; [exact HJ | reflexivity | exact Hwd1 | | apply IndexHist_clean_tagged; reflexivity].
      intros h0 a0 Eh0 Ed0. exists h0. split; assumption.
    + subst to. eapply IndexHist_WdJ_frame; [exact HJ | reflexivity | exact Hwd1 | | apply IndexHist_clean_tagged; reflexivity].
      intros h0 a0 Eh0 Ed0. exists h0. split; assumption.
    + subst to. eapply IndexHist_WdJ_frame; [exact HJ | reflexivity | exact Hwd1 | | apply IndexHist_clean_tagged; reflexivity].
      intros h0 a0 Eh0 Ed0. exists h0. split; assumption.
    + subst to o. cbn [w_env set_env] in He.
      eapply IndexHist_WdJ_frame; [exact HJ | reflexivity | | | reflexivity].
      * cbn [w_env set_env]. rewrite (IndexHist_static_wd _ _ (swap_execute_static _ _ _ _ He)). exact Hwd1.
      * intros h0 a0 Eh0 Ed0. exists h0. split; assumption.
    + subst to o. eapply IndexHist_WdJ_frame; [exact HJ | reflexivity | exact Hwd1 | | reflexivity].
      intros h0 a0 Eh0 Ed0. exists h0. split; assumption.
  - (* MBank *)
    bind_inv H as e1 He1. inversion H; subst w' out.
    eapply IndexHist_WdJ_env; [exact HJ | reflexivity|].
    apply IndexHist_static_wd. eapply bank_send_static; eauto.
  - (* MDelegate *)
    bind_inv H as e1 He1. inversion H; subst w' out.
    eapply IndexHist_WdJ_env; [exact HJ | reflexivity|].
    apply do_delegate_bank in He1. destruct He1 as (_ & _ & _ & _ & Hwd). apply IndexHist_wd_same. exact Hwd.
  - (* MUndelegate *)
    bind_inv H as e1 He1. inversion H; subst w' out.
    eapply IndexHist_WdJ_env; [exact HJ | reflexivity|].
    apply do_undelegate_bank in He1. destruct He1 as (_ & _ & Hwd). apply IndexHist_wd_same. exact Hwd.
  - (* MRedelegate *)
    bind_inv H as e1 He1. inversion H; subst w' out.
    eapply IndexHist_WdJ_env; [exact HJ | reflexivity|].
    apply do_redelegate_bank in He1. destruct He1 as (_ & _ & Hwd). apply IndexHist_wd_same. exact Hwd.
  - (* MWithdrawReward *)
    bind_inv H as e1 He1. inversion H; subst w' out.
    eapply IndexHist_WdJ_env; [exact HJ | reflexivity|].
    apply IndexHist_static_wd. eapply do_withdraw_reward_static; eauto.
  - (* MSetWithdrawAddr *)
    inversion H; subst w' out. clear H.
    destruct (s =? A_hub) eqn:Es.
    + apply N.eqb_eq in Es. subst s. destruct HJ as [Hc HP]. cbn [tl] in Hc. cbn [app].
      split; [apply IndexHist_clean_tl; exact Hc|].
      intros h0 a0 Eh0 Ed0. cbn [w_hub set_env] in Eh0. specialize (HP h0 a0 Eh0 Ed0).
      cbn [IndexHist_head_wd] in HP. rewrite N.eqb_refl in HP.
      rewrite (IndexHist_head_clean _ _ Hc). cbn [w_env set_env].
      unfold withdraw_addr, do_set_withdraw_addr. cbn [e_wdaddr set_wdaddr].
      rewrite (get_set_same eqbA N.eqb_eq). exact HP.
    + eapply IndexHist_WdJ_env; [exact HJ | unfold IndexHist_is_hub_set; cbn [fst snd]; exact Es|].
      unfold withdraw_addr, do_set_withdraw_addr. cbn [e_wdaddr set_wdaddr].
      rewrite (get_set_other eqbA N.eqb_eq); [reflexivity|].
      intros E. subst s. rewrite N.eqb_refl in Es. discriminate Es.
Qed.

Lemma IndexHist_tx_WdInv w sender target m funds w' tr :
  IndexHist_WdInv w -> run tx_fuel w [(sender, MWasm target m funds)] [] = Some (w', tr) ->
  IndexHist_WdInv w'.
Proof.
  intros HI H.
  assert (HJ : IndexHist_WdJ w' []).
  { eapply (run_preserves_stack IndexHist_WdJ); [|  | exact H].
    - intros. eapply IndexHist_step_msg_WdJ; eauto.
    - split; [reflexivity|]. intros h a Eh Ed. cbn [IndexHist_head_wd]. exact (HI h a Eh Ed). }
  destruct HJ as [_ HP]. intros h a Eh Ed. exact (HP h a Eh Ed).
Qed.

(** operations that keep the withdraw-address table and the dispatcher field *)
Lemma IndexHist_WdInv_same w w' :
  (forall h' a, w_hub w' = Some h' -> hc_disp (h_cfg h') = Some a ->
     exists h, w_hub w = Some h /\ hc_disp (h_cfg h) = Some a) ->
  e_wdaddr (w_env w') = e_wdaddr (w_env w) -> IndexHist_WdInv w -> IndexHist_WdInv w'.
Proof.
  intros Hh He HI h' a Eh Ed. destruct (Hh h' a Eh Ed) as (h & Eh0 & Ed0).
  rewrite (IndexHist_wd_same _ _ He). exact (HI h a Eh0 Ed0).
Qed.

Lemma IndexHist_step_WdInv w o : IndexHist_WdInv w -> IndexHist_WdInv (fst (step w o)).
Proof.
  intros HI.
  assert (Hid : forall w0 : world, w_hub w0 = w_hub w ->
                  forall h' a, w_hub w0 = Some h' -> hc_disp (h_cfg h') = Some a ->
                  exists h, w_hub w = Some h /\ hc_disp (h_cfg h) = Some a)
    by (intros w0 E0 h' a E1 E2; exists h'; split; [rewrite <- E0; exact E1 | exact E2]).
  destruct o; cbn [step].
  - (* reset *) intros h a Eh. discriminate Eh.
  - destruct (e_now (w_env w) + dt <=? 18446744073); cbn [fst]; [|exact HI].
    apply (IndexHist_WdInv_same w); [apply Hid; reflexivity | | exact HI]. cbn [w_env set_env].
    apply Arr_advance_frame.
  - destruct (ev_slash (w_env w) v num den unb) as [e'|] eqn:E; cbn [fst]; [|exact HI].
    apply (IndexHist_WdInv_same w); [apply Hid; reflexivity | | exact HI]. cbn [w_env set_env].
    unfold ev_slash in E. check_inv E as C1. check_inv E as C2. inversion E; subst e'. reflexivity.
  - destruct (ev_accrue (w_env w) A_hub v d a) as [e'|] eqn:E; cbn [fst]; [|exact HI].
    apply (IndexHist_WdInv_same w); [apply Hid; reflexivity | | exact HI]. cbn [w_env set_env].
    unfold ev_accrue in E. destruct (delegation (w_env w) A_hub v); [|discriminate E].
    inversion E; subst e'. reflexivity.
  - cbn [fst]. apply (IndexHist_WdInv_same w); [apply Hid; reflexivity | reflexivity | exact HI].
  - destruct (p =? 0); cbn [fst]; [exact HI|].
    apply (IndexHist_WdInv_same w); [apply Hid; reflexivity | reflexivity | exact HI].
  - cbn [fst]. apply (IndexHist_WdInv_same w); [apply Hid; reflexivity | reflexivity | exact HI].
  - cbn [fst]. apply (IndexHist_WdInv_same w); [apply Hid; reflexivity | reflexivity | exact HI].
  - cbn [fst]. apply (IndexHist_WdInv_same w); [apply Hid; reflexivity | reflexivity | exact HI].
  - (* legacy wait *) destruct (w_hub w) as [h|] eqn:Hw; cbn [fst]; [|exact HI].
    apply (IndexHist_WdInv_same w); [|reflexivity|exact HI].
    intros h' b Eh Ed. cbn [w_hub set_hub] in Eh. inversion Eh; subst h'. exists h. split; [exact Hw|exact Ed].
  - (* instantiate hub: no dispatcher configured *)
    cbn [fst]. intros h b Eh Ed. cbn [w_hub set_w_hub] in Eh. unfold hub_instantiate in Eh.
    check_inv Eh as Hf. inversion Eh; subst h. discriminate Ed.
  - cbn [fst]. apply (IndexHist_WdInv_same w); [apply Hid; reflexivity | reflexivity | exact HI].
  - cbn [fst]. apply (IndexHist_WdInv_same w); [apply Hid; reflexivity | reflexivity | exact HI].
  - cbn [fst]. apply (IndexHist_WdInv_same w); [apply Hid; reflexivity | reflexivity | exact HI].
  - cbn [fst]. apply (IndexHist_WdInv_same w); [apply Hid; reflexivity | reflexivity | exact HI].
  - cbn [fst]. apply (IndexHist_WdInv_same w); [apply Hid; reflexivity | reflexivity | exact HI].
  - (* transaction *)
    destruct (run tx_fuel w _ []) as [[w1 tr1]|] eqn:E; cbn [fst]; [|exact HI].
    eapply IndexHist_tx_WdInv; eauto.
Qed.

Theorem IndexHist_WdInv_reachable ut ops : IndexHist_WdInv (run_ops ops (empty_world ut)).
Proof.
  apply run_ops_preserves.
  - intros h a Eh. discriminate Eh.
  - intros w o. apply IndexHist_step_WdInv.
Qed.

(** with E4 the hub's staking rewards go to the dispatcher *)
Lemma IndexHist_WdInv_wired w : IndexHist_WdInv w -> Wired w -> RewardsToDispatcher w.
Proof.
  intros HI HW. destruct (Wired_inv w HW) as (h & r & d & g & tb & ts & Eh & _ & _ & _ & _ & _ & Ed & _).
  exact (HI h A_disp Eh Ed).
Qed.

(** ** 2. the registry's validator list is strictly ascending, hence without repetition *)
Definition IndexHist_RegSorted (w : world) : Prop :=
  forall g, w_reg w = Some g -> StronglySorted N.lt (rg_vals g).

Lemma IndexHist_insert_In v l x : In x (insert_val v l) <-> x = v \/ In x l.
Proof.
  induction l as [|y r IH]; cbn [insert_val In].
  - split; [intros [H|[]]; left; congruence | intros [H|[]]; left; congruence].
  - destruct (v =? y) eqn:E1.
    + apply N.eqb_eq in E1. subst y. cbn [In]. split; [tauto|]. intros [->|H]; [left; reflexivity|exact H].
    + destruct (v <? y); cbn [In].
      * split; [intros [H|H]; [left; congruence | right; exact H] | intros [H|H]; [left; congruence | right; exact H]].
      * rewrite IH. tauto.
Qed.

Lemma IndexHist_insert_sorted v l : StronglySorted N.lt l -> StronglySorted N.lt (insert_val v l).
Proof.
  induction l as [|y r IH]; intros HS; cbn [insert_val].
  - constructor; [constructor|constructor].
  - inversion HS as [|y' r' HSr HF]; subst.
    destruct (v =? y) eqn:E1; [exact HS|].
    destruct (v <? y) eqn:E2.
    + apply N.ltb_lt in E2. constructor; [exact HS|].
      constructor; [exact E2|]. eapply Forall_impl; [|exact HF]. intros z Hz. cbn beta in *. lia.
    + constructor; [apply IH; exact HSr|].
      apply Forall_forall. intros z Hz. apply IndexHist_insert_In in Hz.
      destruct Hz as [->|Hz].
      * apply N.eqb_neq in E1. apply N.ltb_ge in E2. lia.
      * rewrite Forall_forall in HF. apply HF. exact Hz.
Qed.

Lemma IndexHist_filter_sorted (f : N -> bool) l :
  StronglySorted N.lt l -> StronglySorted N.lt (filter f l).
Proof.
  induction l as [|y r IH]; intros HS; cbn [filter]; [constructor|].
  inversion HS as [|y' r' HSr HF]; subst.
  destruct (f y); [|apply IH; exact HSr].
  constructor; [apply IH; exact HSr|].
  apply Forall_forall. intros z Hz. apply filter_In in Hz. rewrite Forall_forall in HF. apply HF. tauto.
Qed.

Lemma IndexHist_fold_insert_sorted vals : forall acc,
  StronglySorted N.lt acc -> StronglySorted N.lt (fold_left (fun acc v => insert_val v acc) vals acc).
Proof.
  induction vals as [|v vals IH]; intros acc HS; cbn [fold_left]; [exact HS|].
  apply IH. apply IndexHist_insert_sorted. exact HS.
Qed.

Lemma IndexHist_sorted_NoDup l : StronglySorted N.lt l -> NoDup l.
Proof.
  induction l as [|y r IH]; intros HS; [constructor|].
  inversion HS as [|y' r' HSr HF]; subst. constructor; [|apply IH; exact HSr].
  intros Hin. rewrite Forall_forall in HF. specialize (HF y Hin). lia.
Qed.

Lemma IndexHist_reg_execute_sorted w g sender m g' out :
  reg_execute w g sender m = Some (g', out) ->
  StronglySorted N.lt (rg_vals g) -> StronglySorted N.lt (rg_vals g').
Proof.
  intros H HS. destruct m; cbn [reg_execute] in H.
  - check_inv H as Hs. inversion H; subst. cbn [rg_vals set_rg_vals]. apply IndexHist_insert_sorted. exact HS.
  - check_inv H as Hs. cbn [rg_vals set_rg_vals] in H.
    destruct (remove_val v (rg_vals g)) as [|x l] eqn:Er; [discriminate H|].
    bind_inv H as msgs Hm. inversion H; subst. cbn [rg_vals set_rg_vals]. rewrite <- Er.
    unfold remove_val. apply IndexHist_filter_sorted. exact HS.
  - check_inv H as Hs. inversion H; subst. destruct hub; exact HS.
  - check_inv H as Hs. bind_inv H as msgs Hm. inversion H; subst. exact HS.
  - check_inv H as Hs. inversion H; subst. exact HS.
  - check_inv H as Hs. inversion H; subst. exact HS.
Qed.

Lemma IndexHist_step_msg_RegSorted w s m w' out :
  IndexHist_RegSorted w -> step_msg w s m = Some (w', out) -> IndexHist_RegSorted w'.
Proof.
  intros HI H. apply step_msg_inv in H. destruct H as [e' -> _ _ | to wm funds e1 o _ Hsend Hc _].
  - exact HI.
  - destruct Hc as [h hm h' _ _ Hw He -> | r rm r' _ _ Hw He -> | d dm d' _ _ Hw He ->
                   | g gm g' _ _ Hw He -> | t cm t' _ _ Hw He -> | t cm t' _ _ Hw He ->
                   | sm e' _ _ He -> _ | _ -> _]; try exact HI.
    intros g0 Eg0. cbn [w_reg set_reg] in Eg0. inversion Eg0; subst g0.
    cbn [w_reg set_env] in Hw. eapply IndexHist_reg_execute_sorted; [exact He|]. apply HI. exact Hw.
Qed.

Lemma IndexHist_step_RegSorted w o : IndexHist_RegSorted w -> IndexHist_RegSorted (fst (step w o)).
Proof.
  intros HI. destruct o; cbn [step]; try exact HI.
  - intros g Eg. discriminate Eg.
  - destruct (e_now (w_env w) + dt <=? 18446744073); exact HI.
  - destruct (ev_slash _ _ _ _ _); exact HI.
  - destruct (ev_accrue _ _ _ _ _); exact HI.
  - destruct (p =? 0); exact HI.
  - destruct (w_hub w); exact HI.
  - (* instantiate registry *)
    cbn [fst]. intros g Eg. cbn [w_reg set_w_reg] in Eg. inversion Eg; subst g.
    cbn [reg_instantiate rg_vals]. apply IndexHist_fold_insert_sorted. constructor.
  - destruct (run tx_fuel w _ []) as [[w1 tr1]|] eqn:E; cbn [fst]; [|exact HI].
    eapply (run_preserves IndexHist_RegSorted); [|exact HI|exact E].
    intros. eapply IndexHist_step_msg_RegSorted; eauto.
Qed.

Theorem IndexHist_RegSorted_reachable ut ops : IndexHist_RegSorted (run_ops ops (empty_world ut)).
Proof.
  apply run_ops_preserves.
  - intros g Eg. discriminate Eg.
  - intros w o. apply IndexHist_step_RegSorted.
Qed.

Theorem IndexHist_RegNoDup_reachable ut ops g :
  w_reg (run_ops ops (empty_world ut)) = Some g -> NoDup (rg_vals g).
Proof.
  intros Eg. apply IndexHist_sorted_NoDup. exact (IndexHist_RegSorted_reachable ut ops g Eg).
Qed.
