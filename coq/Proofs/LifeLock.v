(** * LifeLock (C08, history level): under E2 (the unbonding period is not changed) every released
    batch of every reached world was undelegated at least one full unbonding period ago, and a
    withdrawal pays only for such batches.

    Main theorems
    - [unbonding_preserved]     : only UpdateParams carrying an unbonding_period changes that parameter;
    - [released_origin]         : a released entry of the state after a call was already there,
      identical, before the call, or has just been released at block time >= time + unbonding_period;
    - [timelock_history]        : [TimeLocked U] is preserved along every history in which no executed
      message sets the unbonding period and every hub instantiation uses [U] ([unbonding_fixed]);
    - [timelock_reachable]      : the same from the empty chain;
    - [withdraw_pays_only_matured] : in a [TimeLocked U] world the Bank message of an accepted
      withdrawal is the sum over wait entries of batches with time + U <= now only. *)
From Krp Require Import Tactics Prelude Fixed FMap Types Env Registry Cw20 Reward Dispatcher Hub Exec
     ExecP Hist HubFrame HubAdmin Pause ClaimsStep ClaimsP LifeP.
Open Scope N_scope.

(** the message is a hub UpdateParams that carries an unbonding_period *)
Definition sets_unbonding (m : cmsg) : bool :=
  match m with MWasm _ (WHub (HParams _ (Some _) _ _ _ _)) _ => true | _ => false end.

Definition hmsg_sets_unbonding (m : hub_msg) : bool :=
  match m with HParams _ (Some _) _ _ _ _ => true | _ => false end.

Lemma unbonding_preserved w h self sender funds m h' out :
  hub_execute w h self sender funds m = Some (h', out) -> hmsg_sets_unbonding m = false ->
  hp_unbonding (h_params h') = hp_unbonding (h_params h).
Proof.
  intros H Hm. destruct (is_admin_msg m) eqn:Ha.
  - unfold hub_execute in H. destruct m; try discriminate Ha.
    + apply update_params_spec in H. destruct H as (_ & _ & _ & _ & ->).
      destruct unbonding; [discriminate Hm | reflexivity].
    + check_inv H as Hp. apply update_config_spec in H. destruct H as (_ & _ & _ & Hpar & _).
      rewrite Hpar. reflexivity.
    + check_inv H as Hp. check_inv H as Hs. inversion H; subst. reflexivity.
    + check_inv H as Hp. check_inv H as Hs. inversion H; subst. reflexivity.
    + destruct (paused h); [|discriminate]. inversion H; subst.
      pose proof (migrate_params h limit) as M. cbn zeta in M. tauto.
  - apply hub_execute_static in H; [|exact Ha]. destruct H as (_ & Hpar & _). rewrite Hpar. reflexivity.
Qed.

(** an entry that appears in the history during a call is unreleased *)
Lemma new_entry_unreleased w h self sender funds m h' out i e' :
  HistShape h -> hub_execute w h self sender funds m = Some (h', out) ->
  get N.eqb (h_hist h) i = None -> get N.eqb (h_hist h') i = Some e' -> he_released e' = false.
Proof.
  intros Hsh H Hn Hg. apply hub_execute_cases in H.
  destruct H as [_ _ _ (B1 & B2 & _) _ | limit -> -> _
                | user amount db dst msgs -> _ _ Hshape | -> Hshape].
  - rewrite B2 in Hg. congruence.
  - pose proof (migrate_params h limit) as M. cbn zeta in M.
    destruct M as (_ & _ & _ & _ & _ & _ & _ & _ & _ & _ & M3). rewrite M3 in Hg. congruence.
  - destruct Hshape as (_ & _ & _ & [(_ & _ & Hh & _) | Hcl]).
    + rewrite Hh in Hg. congruence.
    + destruct Hcl as (_ & _ & _ & _ & _ & entry & bund & sund & Hh & _ & _ & _ & Hr & _).
      rewrite Hh in Hg. destruct (N.eq_dec i (cb_id (h_batch h))) as [->|Hi].
      * rewrite hget_put_same in Hg. inversion Hg; subst. exact Hr.
      * rewrite hget_put_other in Hg by exact Hi. congruence.
  - destruct Hshape as (h1 & amount & vs & _ & Hpwr & _ & Hh & _).
    apply pwr_spec in Hpwr. destruct Hpwr as (n & _ & _ & _ & _ & _ & _ & Hkeys & _).
    exfalso. assert (X : get N.eqb (h_hist h') i <> None) by congruence.
    rewrite Hh in X. apply hget_keys in X. rewrite (Hkeys Hsh) in X. apply hget_keys in X. congruence.
Qed.

Theorem released_origin w h self sender funds m h' out i e' :
  HistShape h -> hub_execute w h self sender funds m = Some (h', out) ->
  get N.eqb (h_hist h') i = Some e' -> he_released e' = true ->
  get N.eqb (h_hist h) i = Some e' \/
  (m = HWithdraw /\ exists e, get N.eqb (h_hist h) i = Some e /\ he_released e = false /\
     he_time e' = he_time e /\ he_time e + hp_unbonding (h_params h) <= e_now (w_env w)).
Proof.
  intros Hsh H Hg Hr. destruct (get N.eqb (h_hist h) i) as [e|] eqn:E.
  - destruct (hist_entry_step _ _ _ _ _ _ _ _ _ _ Hsh H E) as [X | (Hm & Hf & _ & _ & Ht & e1 & G1 & Hrv)].
    + left. congruence.
    + right. split; [exact Hm|]. exists e. rewrite G1 in Hg. inversion Hg; subst e1.
      destruct Hrv as (Rt & _). auto.
  - rewrite (new_entry_unreleased _ _ _ _ _ _ _ _ _ _ Hsh H E Hg) in Hr. discriminate.
Qed.

(** ** the time-lock as a world invariant *)
Definition TimeLocked (U : N) (w : world) : Prop :=
  forall h, w_hub w = Some h ->
    LifeInv h /\ hp_unbonding (h_params h) = U /\
    forall i e, get N.eqb (h_hist h) i = Some e -> he_released e = true ->
                he_time e + U <= e_now (w_env w).

Lemma timelock_exec U w h self sender funds m h' out :
  LifeInv h -> hp_unbonding (h_params h) = U ->
  (forall i e, get N.eqb (h_hist h) i = Some e -> he_released e = true -> he_time e + U <= e_now (w_env w)) ->
  hub_execute w h self sender funds m = Some (h', out) -> hmsg_sets_unbonding m = false ->
  LifeInv h' /\ hp_unbonding (h_params h') = U /\
  (forall i e, get N.eqb (h_hist h') i = Some e -> he_released e = true -> he_time e + U <= e_now (w_env w)).
Proof.
  intros HL HU HT H Hm. split; [eapply life_inv_execute; eauto|].
  split; [rewrite (unbonding_preserved _ _ _ _ _ _ _ _ H Hm); exact HU|].
  intros i e' Hg Hr. destruct HL as (Hsh & _).
  destruct (released_origin _ _ _ _ _ _ _ _ _ _ Hsh H Hg Hr) as [X | (_ & e & G & _ & Et & Ht)].
  - eapply HT; eauto.
  - rewrite Et. lia.
Qed.

Lemma step_msg_timelock U w s m w' out :
  TimeLocked U w -> sets_unbonding m = false -> step_msg w s m = Some (w', out) -> TimeLocked U w'.
Proof.
  intros HI Hok H. pose proof (step_msg_now _ _ _ _ _ H) as Hnow. apply step_msg_inv in H.
  unfold TimeLocked in *. rewrite Hnow.
  destruct H as [e' -> _ _ | to wm funds e1 o -> Hsend Hc _]; [exact HI|].
  apply send_coins_now in Hsend.
  destruct Hc as [h hm h' -> -> Hw He -> | r rm r' -> _ Hw He -> | d dm d' -> -> Hw He ->
                 | g gm g' -> -> Hw He -> | t cm t' -> -> Hw He -> | t cm t' -> -> Hw He ->
                 | sm e' -> -> He -> -> | -> -> ->]; cbn [w_hub w_env set_hub set_reward set_disp
                    set_reg set_bsei set_stsei set_env] in *; try exact HI.
  intros h0 E. inversion E; subst h0. destruct (HI _ Hw) as (HL & HU & HT).
  assert (Hm : hmsg_sets_unbonding hm = false).
  { destruct hm; try reflexivity. destruct unbonding; [discriminate Hok | reflexivity]. }
  destruct (timelock_exec U (set_env w e1) h A_hub s funds hm h' o HL HU) as (A & B & C);
    [|exact He|exact Hm|].
  - intros i e G R. cbn [w_env set_env]. rewrite Hsend. eapply HT; eauto.
  - split; [exact A|]. split; [exact B|]. intros i e G R. specialize (C i e G R).
    cbn [w_env set_env] in C. rewrite Hsend in C. exact C.
Qed.

Lemma run_preserves_traced (I : world -> Prop) (ok : addr * cmsg -> Prop) :
  (forall w s m w' out, I w -> ok (s, m) -> step_msg w s m = Some (w', out) -> I w') ->
  forall fuel w stack tr w' tr',
    I w -> run fuel w stack tr = Some (w', tr') -> (forall x, In x tr' -> ok x) -> I w'.
Proof.
  intros Hstep. induction fuel as [|f IH]; intros w stack tr w' tr' HI H Hok.
  - destruct stack as [|[s m] rest]; cbn [run] in H; [inversion H; subst; exact HI | discriminate].
  - destruct stack as [|[s m] rest]; cbn [run] in H; [inversion H; subst; exact HI|].
    bind_inv H as r Hr. destruct r as [w1 out]. cbn [fst snd] in H.
    eapply IH; [|exact H|exact Hok]. eapply Hstep; [exact HI| |exact Hr].
    apply Hok. destruct (run_trace_app _ _ _ _ _ _ H) as [ex ->].
    rewrite <- app_assoc. apply in_or_app. right. left. reflexivity.
Qed.

(** E2 for a history: no executed message sets the unbonding period, every hub instantiation
    uses [U] *)
Fixpoint unbonding_fixed (U : N) (ops : list op) (w : world) : Prop :=
  match ops with
  | [] => True
  | o :: r =>
      (forall x, In x (snd (snd (step w o))) -> sets_unbonding (snd x) = false) /\
      (match o with OInstHub _ _ unb _ _ _ _ _ => unb = U | _ => True end) /\
      unbonding_fixed U r (fst (step w o))
  end.

Lemma step_timelock U w o :
  (forall x, In x (snd (snd (step w o))) -> sets_unbonding (snd x) = false) ->
  (match o with OInstHub _ _ unb _ _ _ _ _ => unb = U | _ => True end) ->
  TimeLocked U w -> TimeLocked U (fst (step w o)).
Proof.
  intros Htr Hinst HI. destruct o; cbn [step]; try exact HI.
  - intros h E. discriminate.
  - destruct (e_now (w_env w) + dt <=? 18446744073) eqn:Ed; cbn [fst]; [|exact HI].
    intros h E. cbn [w_hub set_env] in E. destruct (HI _ E) as (HL & HU & HT).
    split; [exact HL|]. split; [exact HU|]. intros i e Hg Hr. specialize (HT _ _ Hg Hr).
    cbn [w_env set_env]. unfold ev_advance. rewrite deliver_matured_now. cbn [e_now set_now]. lia.
  - unfold ev_slash. destruct (num <=? den); [|exact HI]. destruct (negb (den =? 0)); exact HI.
  - unfold ev_accrue. destruct (delegation (w_env w) A_hub v); exact HI.
  - destruct (p =? 0); exact HI.
  - destruct (w_hub w) as [h|] eqn:Hw; [|exact HI]. cbn [fst].
    intros h0 E. cbn in E. inversion E; subst h0. destruct (HI _ Hw) as (HL & HU & HT).
    split; [eapply life_inv_ext; [| | | |exact HL]; reflexivity|]. split; [exact HU | exact HT].
  - cbn [fst]. intros h E. cbn [w_hub set_w_hub] in E.
    split; [eapply life_inv_instantiate; exact E|].
    unfold hub_instantiate in E. check_inv E as Hf. inversion E; subst. cbn.
    split; [reflexivity|]. intros i e Hg. discriminate.
  - cbn [step] in Htr. destruct (run tx_fuel w _ []) as [[w1 tr1]|] eqn:E; cbn [fst snd] in *; [|exact HI].
    eapply (run_preserves_traced (TimeLocked U) (fun x => sets_unbonding (snd x) = false));
      [|exact HI|exact E|exact Htr].
    intros w0 s m0 w' out HI0 Hok Hs. eapply step_msg_timelock; eauto.
Qed.

Theorem timelock_history U : forall ops w,
  unbonding_fixed U ops w -> TimeLocked U w -> TimeLocked U (run_ops ops w).
Proof.
  unfold run_ops. induction ops as [|o ops IH]; intros w Hf HI; cbn [fold_left]; [exact HI|].
  cbn [unbonding_fixed] in Hf. destruct Hf as (H1 & H2 & H3).
  apply IH; [exact H3|]. apply step_timelock; assumption.
Qed.

Theorem timelock_reachable U ut ops :
  unbonding_fixed U ops (empty_world ut) ->
  forall h, w_hub (run_ops ops (empty_world ut)) = Some h ->
    hp_unbonding (h_params h) = U /\
    forall i e, get N.eqb (h_hist h) i = Some e -> he_released e = true ->
                he_time e + U <= e_now (w_env (run_ops ops (empty_world ut))).
Proof.
  intros Hf h Hw.
  assert (HI : TimeLocked U (run_ops ops (empty_world ut))).
  { apply timelock_history; [exact Hf|]. intros h0 E. discriminate. }
  destruct (HI _ Hw) as (_ & HU & HT). auto.
Qed.

(** no coins are paid for a batch before its unbonding period has fully elapsed *)
Theorem withdraw_pays_only_matured U w h self sender funds h' out :
  LifeInv h -> hp_unbonding (h_params h) = U ->
  (forall i e, get N.eqb (h_hist h) i = Some e -> he_released e = true -> he_time e + U <= e_now (w_env w)) ->
  hub_execute w h self sender funds HWithdraw = Some (h', out) ->
  exists amount vs,
    out = [MBank sender [(hp_underlying (h_params h), amount)]] /\ amount <> 0 /\
    Forall2 (fun bx v => exists e, get N.eqb (h_hist h') (fst bx) = Some e /\ he_released e = true /\
                                   he_time e + U <= e_now (w_env w) /\
                                   claim_value e (snd bx) = Some v)
            (filter (fun bx => released_at (h_hist h') (fst bx)) (user_waits h sender)) vs /\
    amount = sumN vs.
Proof.
  intros HL HU HT H.
  destruct (timelock_exec U _ _ _ _ _ _ _ _ HL HU HT H eq_refl) as (_ & _ & HT').
  destruct (no_pay_before_release _ _ _ _ _ _ _ H) as (amount & vs & Hout & Hnz & Hf & Ha).
  exists amount, vs. split; [exact Hout|]. split; [exact Hnz|]. split; [|exact Ha].
  clear Ha Hout. induction Hf as [|bx v l vs0 (e & G & R & C) Hf IH]; constructor; [|exact IH].
  exists e. split; [exact G|]. split; [exact R|]. split; [eapply HT'; eauto | exact C].
Qed.

(** non-vacuity: the history of ClaimsP.v (unbonding 100 s) satisfies [unbonding_fixed 100] and ends
    in a world with a released batch paid exactly at time + 100 *)
Example example_timelock_nonvacuous :
  unbonding_fixed 100 (cx_setup ++ cx_acts1 ++ cx_acts2 ++ cx_acts3) (empty_world 100) /\
  exists h e, w_hub cx_w3 = Some h /\ get N.eqb (h_hist h) 1 = Some e /\ he_released e = true /\
              he_time e + 100 = e_now (w_env cx_w3).
Proof.
  split.
  - vm_compute. repeat split; intros x Hx;
      repeat (destruct Hx as [<-|Hx]; [reflexivity|]); destruct Hx.
  - vm_compute. eexists _, _. repeat split.
Qed.
