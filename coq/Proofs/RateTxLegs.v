(** * RateTxLegs: the legs of a Bond / BondForStSei transaction (helpers of Proofs/RateTx.v).
    - [Exec_cons_inv], [Exec_app_inv], [Exec_nil_inv]: inversion of the big-step relation of IndexRun.v;
    - [rt_root_inv]: the root message of a hub transaction = funds transfer + hub handler;
    - [rt_delegates_inv] / [rt_delegates_ok]: the MDelegate legs change only the environment and
      raise the hub's delegated total by the sum of their amounts / succeed while the hub holds the coins;
    - [rt_bsei_mint_inv] / [rt_bsei_mint_ok]: the bSei Mint leg with its IncreaseBalance child;
    - [rt_stsei_mint_inv] / [rt_stsei_mint_ok]: the stSei Mint leg. *)
From Coq Require Import Permutation.
From Krp Require Import Tactics Prelude Fixed FMap Types Env Registry Cw20 Reward Dispatcher Hub Exec
     ExecP Hist Inv RegistryP HubFrame HubAdmin Cw20P MirrorWire MirrorP HubRates
     BooksEnv BooksHub IndexRun.
Open Scope N_scope.
Ltac Zify.zify_post_hook ::= Z.div_mod_to_equations.

(** ** inversion of [Exec] *)
Lemma Exec_nil_inv w w' n : Exec w [] w' n -> w' = w.
Proof. intros H. inversion H. reflexivity. Qed.

Lemma Exec_cons_inv w s m rest w' n :
  Exec w ((s, m) :: rest) w' n ->
  exists w1 out w2 n1 n2,
    step_msg w s m = Some (w1, out) /\ Exec w1 out w2 n1 /\ Exec w2 rest w' n2 /\ n = S (n1 + n2).
Proof. intros H. inversion H; subst. eauto 10. Qed.

Lemma Exec_app_inv l1 : forall w l2 w' n,
  Exec w (l1 ++ l2) w' n -> exists w1 n1 n2, Exec w l1 w1 n1 /\ Exec w1 l2 w' n2.
Proof.
  induction l1 as [|[s m] l1 IH]; intros w l2 w' n H.
  - exists w, 0%nat, n. split; [constructor | exact H].
  - cbn [app] in H. apply Exec_cons_inv in H.
    destruct H as (w1 & out & w2 & n1 & n2 & Hs & H1 & H2 & _).
    apply IH in H2. destruct H2 as (w3 & m1 & m2 & H3 & H4).
    exists w3, (S (n1 + m1)), m2. split; [|exact H4]. eapply Exec_cons; eauto.
Qed.

Lemma rt_set_env_same w : set_env w (w_env w) = w.
Proof. destruct w; reflexivity. Qed.

Lemma rt_set_env_twice w e1 e2 : set_env (set_env w e1) e2 = set_env w e2.
Proof. reflexivity. Qed.

(** ** the root message of a hub transaction *)
Lemma rt_call_hub w s hm f :
  call w s A_hub (WHub hm) f =
  (do h <- w_hub w; do r <- hub_execute w h A_hub s f hm; Some (set_hub w (fst r), snd r)).
Proof. reflexivity. Qed.

Lemma rt_root_inv w user hm funds w1 out :
  step_msg w user (MWasm A_hub (WHub hm) funds) = Some (w1, out) ->
  exists h e1 h' o,
    w_hub w = Some h /\ send_coins (w_env w) user A_hub funds = Some e1 /\
    hub_execute (set_env w e1) h A_hub user funds hm = Some (h', o) /\
    w1 = set_hub (set_env w e1) h' /\ out = map (fun x => (A_hub, x)) o.
Proof.
  cbn [step_msg]. intros H. bind_inv H as e1 He1. bind_inv H as r Hr.
  rewrite rt_call_hub in Hr. cbn [w_hub set_env] in Hr.
  bind_inv Hr as h Hh. bind_inv Hr as r2 Hr2. destruct r2 as [h' o]. inversion Hr; subst r; clear Hr.
  inversion H; subst w1 out; clear H. cbn [fst snd].
  exists h, e1, h', o. repeat split; auto.
Qed.

(** ** the Delegate legs *)
Lemma rt_delegates_inv : forall (ms : list cmsg) w w' n,
  Forall (fun m => exists v c, m = MDelegate v c) ms ->
  Exec w (map (fun m => (A_hub, m)) ms) w' n ->
  exists e', w' = set_env w e' /\
    delegated e' A_hub = delegated (w_env w) A_hub + dsum ms /\
    (forall y, y <> A_hub -> all_delegations e' y = all_delegations (w_env w) y) /\
    e_wdaddr e' = e_wdaddr (w_env w) /\ e_now e' = e_now (w_env w) /\ e_unb e' = e_unb (w_env w) /\
    (DelWf (w_env w) -> DelWf e').
Proof.
  induction ms as [|m ms IH]; intros w w' n Hall H.
  - cbn [map] in H. apply Exec_nil_inv in H. subst w'. exists (w_env w).
    rewrite rt_set_env_same. unfold dsum. cbn [map sumN].
    split; [reflexivity|]. split; [lia|]. split; [reflexivity|]. auto.
  - cbn [map] in H. apply Exec_cons_inv in H.
    destruct H as (w1 & out & w2 & n1 & n2 & Hs & H1 & H2 & _).
    apply Forall_cons_iff in Hall. destruct Hall as [(v & c & ->) Hall].
    cbn [step_msg] in Hs. bind_inv Hs as e1 He1. inversion Hs; subst w1 out; clear Hs.
    apply Exec_nil_inv in H1. subst w2.
    apply do_delegate_spec in He1.
    destruct He1 as (_ & _ & _ & _ & _ & _ & D7 & D8 & D9 & D10 & _ & D12 & _ & _ & _ & _ & D17).
    destruct (IH _ _ _ Hall H2) as (e' & -> & I1 & I2 & I3 & I4 & I5 & I6).
    cbn [w_env set_env] in *. exists e'. rewrite rt_set_env_twice.
    split; [reflexivity|]. unfold dsum in *. cbn [map sumN dmsg_amt].
    split; [lia|]. split; [intros y Hy; rewrite I2, D8 by exact Hy; reflexivity|].
    split; [congruence|]. split; [congruence|]. split; [congruence|]. auto.
Qed.

Lemma rt_do_delegate_ok e x v amt :
  amt <> 0 -> is_val v = true -> amt <= bal e x usei ->
  exists e', do_delegate e x v (usei, amt) = Some e' /\ bal e x usei - amt <= bal e' x usei.
Proof.
  intros Hnz Hv Hle. unfold do_delegate, staking_coin_ok. cbn [fst snd].
  change (usei =? usei) with true. assert (E : (amt =? 0) = false) by lia. rewrite E. cbn [negb andb].
  rewrite Hv. assert (E2 : (amt <=? bal e x usei) = true) by lia. rewrite E2.
  pose proof (payout_if_entry_spec e x v) as (_ & _ & Hge).
  set (e1 := payout_if_entry e x v) in *.
  specialize (Hge x usei).
  unfold debit. assert (E3 : (amt <=? bal e1 x usei) = true) by lia. rewrite E3. cbn [bind].
  eexists. split; [reflexivity|].
  match goal with |- _ <= bal ?E x usei => assert (Hb : bal E x usei = bal e1 x usei - amt) end.
  { unfold bal at 1, getN. cbn [e_bank set_del set_bank]. rewrite (get_set_same eqbNN eqbNN_eq). reflexivity. }
  rewrite Hb. lia.
Qed.

Lemma rt_delegates_ok w : forall (ps : list (val * N)) e,
  (forall p, In p ps -> is_val (fst p) = true /\ snd p <> 0) ->
  sumN (map snd ps) <= bal e A_hub usei ->
  exists e', Exec (set_env w e) (map (fun p => (A_hub, MDelegate (fst p) (usei, snd p))) ps)
                  (set_env w e') (length ps).
Proof.
  induction ps as [|p ps IH]; intros e Hall Hsum.
  - exists e. constructor.
  - cbn [map sumN] in *. destruct (Hall p (or_introl eq_refl)) as [Hv Hnz].
    destruct (rt_do_delegate_ok e A_hub (fst p) (snd p) Hnz Hv) as (e1 & Hd & Hb); [lia|].
    destruct (IH e1) as (e' & Hex).
    + intros q Hq. apply Hall. right. exact Hq.
    + lia.
    + exists e'. cbn [length]. eapply Exec_leaf_cons; [|exact Hex].
      cbn [step_msg]. cbn [w_env set_env]. rewrite Hd. reflexivity.
Qed.

(** ** the Mint legs *)
Lemma rt_call_bsei w s cm f :
  call w s A_bsei (WCw20 cm) f =
  (do x <- w_bsei w; do r <- bsei_execute w x s cm; Some (set_bsei w (fst r), snd r)).
Proof. reflexivity. Qed.

Lemma rt_call_stsei w s cm f :
  call w s A_stsei (WCw20 cm) f =
  (do x <- w_stsei w; do r <- stsei_execute w x s cm; Some (set_stsei w (fst r), snd r)).
Proof. reflexivity. Qed.

Lemma rt_call_reward w s rm f :
  call w s A_reward (WReward rm) f =
  (do x <- w_reward w; do r <- reward_execute w x A_reward s rm; Some (set_reward w (fst r), snd r)).
Proof. reflexivity. Qed.

Lemma rt_step_nofunds w s to wm :
  step_msg w s (MWasm to wm []) =
  (do r <- call w s to wm []; Some (fst r, map (fun x => (to, x)) (snd r))).
Proof. cbn [step_msg]. change (send_coins (w_env w) s to []) with (Some (w_env w)). cbn [bind]. rewrite rt_set_env_same. reflexivity. Qed.

(** the bSei Mint leg and its IncreaseBalance child: the token mints, the reward contract records it *)
Lemma rt_bsei_mint_inv w user mint w' n tb :
  Wired w -> w_bsei w = Some tb ->
  Exec w [(A_hub, MWasm A_bsei (WCw20 (CMint user mint)) [])] w' n ->
  exists tb' r r',
    w_reward w = Some r /\ w' = set_reward (set_bsei w tb') r' /\
    tok_mint tb A_hub user mint = Some tb' /\
    (forall o, rbal r' o = rbal r o + dl o user mint).
Proof.
  intros HW Hb H. apply Exec_cons_inv in H.
  destruct H as (w1 & out & w2 & n1 & n2 & Hs & H1 & H2 & _).
  apply Exec_nil_inv in H2. subst w'.
  rewrite rt_step_nofunds, rt_call_bsei, Hb in Hs.
  bind_inv Hs as rr0 Hrr0. cbn [bind] in Hrr0. bind_inv Hrr0 as r0 Hr0. destruct r0 as [tb' o].
  inversion Hrr0; subst rr0; clear Hrr0. cbn [fst snd] in Hs. inversion Hs; subst w1 out; clear Hs.
  pose proof (wired_query_reward w w tb HW Hb eq_refl eq_refl) as Hq.
  cbn [bsei_execute] in Hr0. rewrite Hq in Hr0. cbn [bind] in Hr0.
  bind_inv Hr0 as t1 Hm. injection Hr0 as E1 E2. subst tb' o.
  cbn [map] in H1. apply Exec_cons_inv in H1.
  destruct H1 as (w3 & out3 & w4 & n3 & n4 & Hs3 & H3 & H4 & _).
  apply Exec_nil_inv in H4. subst w2.
  unfold m_inc in Hs3. rewrite rt_step_nofunds, rt_call_reward in Hs3.
  cbn [w_reward set_bsei] in Hs3. bind_inv Hs3 as rr Hrr. bind_inv Hrr as r Hr. bind_inv Hrr as x Hx.
  destruct x as [r' o2]. inversion Hrr; subst rr; clear Hrr. cbn [fst snd] in Hs3.
  inversion Hs3; subst w3 out3; clear Hs3.
  assert (Hq2 : query_bsei_addr (set_bsei w t1) (rw_hub r) = Some A_bsei)
    by (apply (wired_query_bsei w); auto).
  pose proof (reward_execute_rbal _ _ _ _ _ _ _ Hq2 Hx) as (_ & -> & Hrb).
  cbn [map] in H3. apply Exec_nil_inv in H3. subst w4.
  exists t1, r, r'. repeat split; auto.
Qed.

Lemma rt_stsei_mint_inv w user mint w' n ts :
  w_stsei w = Some ts ->
  Exec w [(A_hub, MWasm A_stsei (WCw20 (CMint user mint)) [])] w' n ->
  exists ts', w' = set_stsei w ts' /\ tok_mint ts A_hub user mint = Some ts'.
Proof.
  intros Hb H. apply Exec_cons_inv in H.
  destruct H as (w1 & out & w2 & n1 & n2 & Hs & H1 & H2 & _).
  apply Exec_nil_inv in H2. subst w'.
  rewrite rt_step_nofunds, rt_call_stsei, Hb in Hs.
  bind_inv Hs as rr0 Hrr0. cbn [bind] in Hrr0. bind_inv Hrr0 as r0 Hr0. destruct r0 as [ts' o].
  inversion Hrr0; subst rr0; clear Hrr0. cbn [fst snd] in Hs. inversion Hs; subst w1 out; clear Hs.
  cbn [stsei_execute] in Hr0. bind_inv Hr0 as t1 Hm. injection Hr0 as E1 E2. subst ts' o.
  cbn [map] in H1. apply Exec_nil_inv in H1. subst w2.
  exists t1. split; reflexivity.
Qed.

(** success of the ledger operation: the hub is the minter, no cap, no 128-bit overflow *)
Lemma rt_tok_mint_ok t to amt :
  tk_minter t = Some (A_hub, None) -> 0 < amt ->
  tk_supply t + amt <= U128MAX -> tbal t to + amt <= U128MAX ->
  exists t', tok_mint t A_hub to amt = Some t'.
Proof.
  intros Hm Hpos Hs Hb. unfold tok_mint. assert (E : (amt =? 0) = false) by lia. rewrite E. cbn [negb].
  rewrite Hm. change (A_hub =? A_hub) with true. cbv iota.
  unfold add128 at 1, narrow128, fits128. assert (E2 : (tk_supply t + amt <=? U128MAX) = true) by lia.
  rewrite E2. cbn [bind].
  unfold add128, narrow128, fits128. change (tbal (set_tk_supply t (tk_supply t + amt)) to) with (tbal t to).
  assert (E3 : (tbal t to + amt <=? U128MAX) = true) by lia. rewrite E3. cbn [bind]. eauto.
Qed.

Lemma rt_reward_inc_ok w r a amt :
  query_bsei_addr w (rw_hub r) = Some A_bsei -> AccrualFits r a ->
  ho_bal (holder_of r a) + amt <= U128MAX -> rw_total r + amt <= U128MAX ->
  exists r', reward_execute w r A_reward A_bsei (RInc a amt) = Some (r', []).
Proof.
  intros Hq [x Hx] L1 L2. cbn [reward_execute]. rewrite Hq. cbn [bind].
  change (A_bsei =? A_bsei) with true. cbv iota.
  unfold accrued_atomics in Hx. bind_inv Hx as rwd Hrwd. cbn [bind]. rewrite Hx. cbn [bind].
  unfold add128, narrow128, fits128.
  assert (E1 : (ho_bal (holder_of r a) + amt <=? U128MAX) = true) by lia. rewrite E1. cbn [bind].
  assert (E2 : (rw_total r + amt <=? U128MAX) = true) by lia. rewrite E2. cbn [bind]. eauto.
Qed.

Lemma rt_bsei_mint_ok w user mint tb r :
  Wired w -> w_bsei w = Some tb -> w_reward w = Some r ->
  tk_minter tb = Some (A_hub, None) -> 0 < mint ->
  tk_supply tb + mint <= U128MAX -> tbal tb user <= tk_supply tb ->
  ho_bal (holder_of r user) = tbal tb user -> rw_total r = tk_supply tb ->
  AccrualFits r user ->
  exists tb' r',
    Exec w [(A_hub, MWasm A_bsei (WCw20 (CMint user mint)) [])] (set_reward (set_bsei w tb') r') 2.
Proof.
  intros HW Hb Hr Hm Hpos Hs Hle M1 M2 HA.
  destruct (rt_tok_mint_ok tb user mint Hm Hpos Hs) as [tb' Htm]; [lia|].
  assert (Hq2 : query_bsei_addr (set_bsei w tb') (rw_hub r) = Some A_bsei)
    by (apply (wired_query_bsei w); auto).
  destruct (rt_reward_inc_ok (set_bsei w tb') r user mint Hq2 HA) as [r' Hri]; [lia|lia|].
  exists tb', r'. change 2%nat with (S (1 + 0)).
  eapply Exec_cons; [| |constructor].
  - rewrite rt_step_nofunds, rt_call_bsei, Hb. cbn [bind].
    pose proof (wired_query_reward w w tb HW Hb eq_refl eq_refl) as Hq.
    cbn [bsei_execute]. rewrite Hq. cbn [bind]. rewrite Htm. cbn [bind fst snd map]. reflexivity.
  - apply Exec_leaf. unfold m_inc. rewrite rt_step_nofunds, rt_call_reward.
    cbn [w_reward set_bsei]. rewrite Hr. cbn [bind]. rewrite Hri. cbn [bind fst snd map]. reflexivity.
Qed.

Lemma rt_stsei_mint_ok w user mint ts :
  w_stsei w = Some ts -> tk_minter ts = Some (A_hub, None) -> 0 < mint ->
  tk_supply ts + mint <= U128MAX -> tbal ts user <= tk_supply ts ->
  exists ts', Exec w [(A_hub, MWasm A_stsei (WCw20 (CMint user mint)) [])] (set_stsei w ts') 1.
Proof.
  intros Hb Hm Hpos Hs Hle.
  destruct (rt_tok_mint_ok ts user mint Hm Hpos Hs) as [ts' Htm]; [lia|].
  exists ts'. apply Exec_leaf.
  rewrite rt_step_nofunds, rt_call_stsei, Hb. cbn [bind stsei_execute]. rewrite Htm. reflexivity.
Qed.
