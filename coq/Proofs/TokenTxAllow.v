(** * TokenTxAllow: cumulative allowance accounting (C18, "allowance-based operations never move or
    burn more than the unexpired allowance granted by the owner"), for both token variants
    ([base = false]: bSei on cw20-legacy, [base = true]: stSei on cw20-base).

    Fixed owner [o] and spender [s].  Ghost quantities of ONE successful token message:
    - [spend_amt o s sender m]: the amount of a TransferFrom / BurnFrom / SendFrom from [o] sent by [s];
    - [grant_amt o s sender m]: the amount of an IncreaseAllowance for [s] sent by [o];
    - [lower_amt t o s sender m]: what a DecreaseAllowance for [s] sent by [o] removes,
      min(amount, stored allowance in the state [t] before the message);
    - [stored t o s]: the stored allowance amount (0 if there is no entry);
    - [AllowWf t]: the allowance table has unique keys (true after instantiate, preserved by every
      message; storage maps have unique keys — the association-list model could hold junk otherwise).

    PART 1 (token level).
    - [tok_exec_allow_step]: one successful message:
        stored' + spend + lower = stored + grant        (exactly), and [AllowWf] is preserved;
    - [tok_run] / [ag_run]: a token-level history — a list of (world seen by the handler, sender,
      message) folded with the handler, failures leaving the state unchanged — and its ghost sums;
    - [allowance_cumulative]: stored_final + spent + lowered = stored_initial + granted, hence
      [allowance_spent_le_granted]: spent <= stored_initial + granted;
    - [spend_needs_unexpired]: every successful spend found an entry that was unexpired at the block
      of the message and at least as large as the amount (token state arbitrary, so this covers every
      step of every history).

    PART 2 (world level: the token messages inside arbitrary chain transactions).
    - [wg_msg], [arun], [ag_op], [ag_hist]: the same ghosts for one executed chain message, for
      [Exec.run] (instrumented; [arun_fst]: same resulting world / same success), for one operation
      and for a whole history; (re-)instantiation of the token and OReset restart the ghosts (a fresh
      token has no allowances);
    - [step_msg_WA], [arun_WA], [step_WA], [allowance_cumulative_reachable]: in EVERY world reached by
      ANY history from the empty world:  stored + spent + lowered = granted  (no hypotheses), hence
      [allowance_spent_le_granted_reachable]: spent <= granted;
    - [step_spend_unexpired]: every executed spend message found, in the world it executed in, an
      entry unexpired at that block and large enough.
    Examples at the end ([allow_hist_example], [allow_expired_example]). *)
From Krp Require Import Tactics Prelude Fixed FMap Types Env Registry Cw20 Reward Dispatcher Hub Exec
     ExecP Hist Inv Cw20P BooksEnv ExitWorld.
Open Scope N_scope.

(** * PART 1 — token level *)

Definition tok_exec (base : bool) (w : world) (t : token) (sender : addr) (m : cw20_msg)
  : result (token * list cmsg) :=
  if base then stsei_execute w t sender m else bsei_execute w t sender m.

Definition stored (t : token) (o s : addr) : N :=
  match allowance_of t o s with Some a => al_amt a | None => 0 end.

Definition AllowWf (t : token) : Prop := NoDup (keys (tk_allow t)).

Definition spend_amt (o s sender : addr) (m : cw20_msg) : N :=
  match m with
  | CTransferFrom o' _ amt | CBurnFrom o' amt | CSendFrom o' _ amt _ =>
      if eqbNN (o', sender) (o, s) then amt else 0
  | _ => 0
  end.

Definition grant_amt (o s sender : addr) (m : cw20_msg) : N :=
  match m with
  | CIncAllow s' amt _ => if eqbNN (sender, s') (o, s) then amt else 0
  | _ => 0
  end.

Definition lower_amt (t : token) (o s sender : addr) (m : cw20_msg) : N :=
  match m with
  | CDecAllow s' amt _ => if eqbNN (sender, s') (o, s) then N.min amt (stored t o s) else 0
  | _ => 0
  end.

Lemma stored_same t t' o s : tk_allow t' = tk_allow t -> stored t' o s = stored t o s.
Proof. unfold stored, allowance_of. intros ->. reflexivity. Qed.

Lemma AllowWf_same t t' : tk_allow t' = tk_allow t -> AllowWf t -> AllowWf t'.
Proof. unfold AllowWf. intros ->. auto. Qed.

Lemma eqbNN_false a b : a <> b -> eqbNN a b = false.
Proof. intros H. destruct (eqbNN a b) eqn:E; [apply eqbNN_eq in E; contradiction | reflexivity]. Qed.

(** ** the three allowance primitives against the key (o, s) *)
Lemma deduct_stored t now o' s' amt t' o s :
  deduct_allowance t now o' s' amt = Some t' ->
  stored t' o s + (if eqbNN (o', s') (o, s) then amt else 0) = stored t o s /\
  (AllowWf t -> AllowWf t').
Proof.
  intros H. pose proof H as H0. apply deduct_allowance_spec in H.
  destruct H as (a & Ha & _ & Hle & Ha' & _ & _ & _ & _ & Hoth). split.
  - destruct (eqbNN (o', s') (o, s)) eqn:E.
    + apply eqbNN_eq in E. inversion E; subst. unfold stored. rewrite Ha, Ha'. cbn [al_amt]. lia.
    + unfold stored, allowance_of. rewrite Hoth; [lia|].
      intros E2. rewrite <- E2 in E. rewrite (proj2 (eqbNN_eq _ _) eq_refl) in E. discriminate.
  - unfold deduct_allowance in H0. unfold allowance_of in Ha. rewrite Ha in H0.
    check_inv H0 as Hx. bind_inv H0 as rest Hr. inversion H0; subst.
    unfold AllowWf. cbn [tk_allow set_tk_allow]. apply nodup_set. exact eqbNN_eq.
Qed.

Lemma inc_stored base t now o' s' amt e t' o s :
  tok_inc_allow base t now o' s' amt e = Some t' ->
  stored t' o s = stored t o s + (if eqbNN (o', s') (o, s) then amt else 0) /\
  (AllowWf t -> AllowWf t').
Proof.
  unfold tok_inc_allow. intros H. check_inv H as Hs. bind_inv H as ex Hex. bind_inv H as a' Ha.
  inversion H; subst t'; clear H.
  unfold add128, narrow128 in Ha. check_inv Ha as Hfit. inversion Ha; subst a'; clear Ha.
  split.
  - unfold stored, allowance_of. cbn [tk_allow set_tk_allow].
    destruct (eqbNN (o', s') (o, s)) eqn:E.
    + apply eqbNN_eq in E. inversion E; subst.
      rewrite (get_set_same eqbNN eqbNN_eq). cbn [al_amt].
      destruct (get eqbNN (tk_allow t) (o, s)); cbn [al_amt]; lia.
    + rewrite (get_set_other eqbNN eqbNN_eq); [lia|].
      intros E2. rewrite <- E2 in E. rewrite (proj2 (eqbNN_eq _ _) eq_refl) in E. discriminate.
  - unfold AllowWf. cbn [tk_allow set_tk_allow]. apply nodup_set. exact eqbNN_eq.
Qed.

Lemma dec_stored base t now o' s' amt e t' o s :
  tok_dec_allow base t now o' s' amt e = Some t' -> AllowWf t ->
  stored t' o s + (if eqbNN (o', s') (o, s) then N.min amt (stored t o s) else 0) = stored t o s /\
  AllowWf t'.
Proof.
  unfold tok_dec_allow. intros H Hwf. check_inv H as Hs.
  destruct (get eqbNN (tk_allow t) (o', s')) as [cur|] eqn:Hcur; [|discriminate].
  destruct (amt <? al_amt cur) eqn:Hlt.
  - bind_inv H as ex Hex. inversion H; subst t'; clear H. split.
    + unfold stored, allowance_of. cbn [tk_allow set_tk_allow].
      destruct (eqbNN (o', s') (o, s)) eqn:E.
      * apply eqbNN_eq in E. inversion E; subst.
        rewrite (get_set_same eqbNN eqbNN_eq), Hcur. cbn [al_amt]. lia.
      * rewrite (get_set_other eqbNN eqbNN_eq); [lia|].
        intros E2. rewrite <- E2 in E. rewrite (proj2 (eqbNN_eq _ _) eq_refl) in E. discriminate.
    + unfold AllowWf. cbn [tk_allow set_tk_allow]. apply nodup_set; [exact eqbNN_eq | exact Hwf].
  - inversion H; subst t'; clear H. split.
    + unfold stored, allowance_of. cbn [tk_allow set_tk_allow].
      destruct (eqbNN (o', s') (o, s)) eqn:E.
      * apply eqbNN_eq in E. inversion E; subst.
        rewrite (get_del_same eqbNN eqbNN_eq) by exact Hwf. rewrite Hcur. lia.
      * rewrite (get_del_other eqbNN eqbNN_eq); [lia|].
        intros E2. rewrite <- E2 in E. rewrite (proj2 (eqbNN_eq _ _) eq_refl) in E. discriminate.
    + unfold AllowWf. cbn [tk_allow set_tk_allow]. apply nodup_del. exact Hwf.
Qed.

(** ** one successful token message *)
Definition AStep (t : token) (sender : addr) (m : cw20_msg) (t' : token) : Prop :=
  forall o s,
    stored t' o s + spend_amt o s sender m + lower_amt t o s sender m
    = stored t o s + grant_amt o s sender m.

Lemma AStep_same t sender m t' :
  tk_allow t' = tk_allow t ->
  (forall o s, spend_amt o s sender m = 0 /\ lower_amt t o s sender m = 0 /\ grant_amt o s sender m = 0) ->
  AStep t sender m t' /\ (AllowWf t -> AllowWf t').
Proof.
  intros Ha Hz. split; [|apply AllowWf_same; exact Ha].
  intros o s. destruct (Hz o s) as (-> & -> & ->). rewrite (stored_same _ _ _ _ Ha). lia.
Qed.

Lemma AStep_spend t now sender o' amt t1 t' m :
  deduct_allowance t now o' sender amt = Some t1 -> tk_allow t' = tk_allow t1 ->
  (forall o s, spend_amt o s sender m = (if eqbNN (o', sender) (o, s) then amt else 0) /\
               lower_amt t o s sender m = 0 /\ grant_amt o s sender m = 0) ->
  AStep t sender m t' /\ (AllowWf t -> AllowWf t').
Proof.
  intros Hd Ha Hz. split.
  - intros o s. destruct (Hz o s) as (-> & -> & ->).
    destruct (deduct_stored _ _ _ _ _ _ o s Hd) as [E _]. rewrite (stored_same _ _ _ _ Ha). lia.
  - intros Hwf. eapply AllowWf_same; [exact Ha|]. eapply (deduct_stored _ _ _ _ _ _ 0 0 Hd). exact Hwf.
Qed.

Theorem tok_exec_allow_step base w t sender m t' out :
  tok_exec base w t sender m = Some (t', out) -> AllowWf t ->
  AStep t sender m t' /\ AllowWf t'.
Proof.
  intros H Hwf.
  cut (AStep t sender m t' /\ (AllowWf t -> AllowWf t')); [tauto|].
  unfold tok_exec in H. destruct base.
  - (* stSei *)
    unfold stsei_execute in H. destruct m.
    + check_inv H as Hz. bind_inv H as t1 Hm. inversion H; subst.
      apply tok_move_spec in Hm. apply AStep_same; [tauto | intros; cbn; auto].
    + check_inv H as Hs. check_inv H as Hz. bind_inv H as t1 Hb. inversion H; subst.
      apply tok_burn_spec in Hb. apply AStep_same; [tauto | intros; cbn; auto].
    + bind_inv H as t1 Hm. inversion H; subst.
      apply tok_mint_spec in Hm. apply AStep_same; [tauto | intros; cbn; auto].
    + check_inv H as Hz. bind_inv H as t1 Hm. inversion H; subst.
      apply tok_move_spec in Hm. apply AStep_same; [tauto | intros; cbn; auto].
    + bind_inv H as t1 Ha. inversion H; subst. split.
      * intros o s0. destruct (inc_stored _ _ _ _ _ _ _ _ o s0 Ha) as [E _].
        cbn [spend_amt lower_amt grant_amt]. lia.
      * eapply (inc_stored _ _ _ _ _ _ _ _ 0 0 Ha).
    + bind_inv H as t1 Ha. inversion H; subst. split.
      * intros o s0. destruct (dec_stored _ _ _ _ _ _ _ _ o s0 Ha Hwf) as [E _].
        cbn [spend_amt lower_amt grant_amt]. lia.
      * intros _. eapply (dec_stored _ _ _ _ _ _ _ _ 0 0 Ha Hwf).
    + bind_inv H as t1 Hd. bind_inv H as t2 Hm. inversion H; subst.
      apply tok_move_spec in Hm. eapply AStep_spend; [exact Hd | tauto | intros; cbn; auto].
    + bind_inv H as t1 Hd. bind_inv H as t2 Hb. inversion H; subst.
      apply tok_burn_spec in Hb. eapply AStep_spend; [exact Hd | tauto | intros; cbn; auto].
    + bind_inv H as t1 Hd. bind_inv H as t2 Hm. inversion H; subst.
      apply tok_move_spec in Hm. eapply AStep_spend; [exact Hd | tauto | intros; cbn; auto].
    + destruct (tk_minter t) as [[mn cap]|]; [|discriminate]. check_inv H as Hs.
      inversion H; subst. apply AStep_same; [reflexivity | intros; cbn; auto].
  - (* bSei *)
    unfold bsei_execute in H. destruct m.
    + bind_inv H as rc Hrc. check_inv H as Hz. bind_inv H as t1 Hm. inversion H; subst.
      apply tok_move_spec in Hm. apply AStep_same; [tauto | intros; cbn; auto].
    + bind_inv H as rc Hrc. check_inv H as Hs. check_inv H as Hz. bind_inv H as t1 Hb. inversion H; subst.
      apply tok_burn_spec in Hb. apply AStep_same; [tauto | intros; cbn; auto].
    + bind_inv H as rc Hrc. bind_inv H as t1 Hm. inversion H; subst.
      apply tok_mint_spec in Hm. apply AStep_same; [tauto | intros; cbn; auto].
    + bind_inv H as rc Hrc. check_inv H as Hz. bind_inv H as t1 Hm. inversion H; subst.
      apply tok_move_spec in Hm. apply AStep_same; [tauto | intros; cbn; auto].
    + bind_inv H as t1 Ha. inversion H; subst. split.
      * intros o s0. destruct (inc_stored _ _ _ _ _ _ _ _ o s0 Ha) as [E _].
        cbn [spend_amt lower_amt grant_amt]. lia.
      * eapply (inc_stored _ _ _ _ _ _ _ _ 0 0 Ha).
    + bind_inv H as t1 Ha. inversion H; subst. split.
      * intros o s0. destruct (dec_stored _ _ _ _ _ _ _ _ o s0 Ha Hwf) as [E _].
        cbn [spend_amt lower_amt grant_amt]. lia.
      * intros _. eapply (dec_stored _ _ _ _ _ _ _ _ 0 0 Ha Hwf).
    + bind_inv H as rc Hrc. bind_inv H as t1 Hd. bind_inv H as t2 Hm. inversion H; subst.
      apply tok_move_spec in Hm. eapply AStep_spend; [exact Hd | tauto | intros; cbn; auto].
    + bind_inv H as rc Hrc. bind_inv H as t1 Hd. bind_inv H as t2 Hb. inversion H; subst.
      apply tok_burn_spec in Hb. eapply AStep_spend; [exact Hd | tauto | intros; cbn; auto].
    + bind_inv H as rc Hrc. bind_inv H as t1 Hd. bind_inv H as t2 Hm. inversion H; subst.
      apply tok_move_spec in Hm. eapply AStep_spend; [exact Hd | tauto | intros; cbn; auto].
    + discriminate.
Qed.

(** ** every successful spend found an unexpired, sufficient allowance *)
Definition spend_of (m : cw20_msg) : option (addr * N) :=
  match m with
  | CTransferFrom o _ amt | CBurnFrom o amt | CSendFrom o _ amt _ => Some (o, amt)
  | _ => None
  end.

Theorem spend_needs_unexpired base w t sender m t' out o amt :
  tok_exec base w t sender m = Some (t', out) -> spend_of m = Some (o, amt) ->
  exists a, allowance_of t o sender = Some a /\
            is_expired (al_exp a) (e_now (w_env w)) (height_of (e_now (w_env w))) = false /\
            amt <= al_amt a /\ stored t' o sender = al_amt a - amt.
Proof.
  intros H Hsp.
  assert (Hd : exists t1, deduct_allowance t (e_now (w_env w)) o sender amt = Some t1 /\
                          tk_allow t' = tk_allow t1).
  { unfold tok_exec in H. destruct base.
    - unfold stsei_execute in H. destruct m; try discriminate; inversion Hsp; subst.
      + bind_inv H as t1 Hd. bind_inv H as t2 Hm. inversion H; subst.
        apply tok_move_spec in Hm. exists t1. tauto.
      + bind_inv H as t1 Hd. bind_inv H as t2 Hb. inversion H; subst.
        apply tok_burn_spec in Hb. exists t1. tauto.
      + bind_inv H as t1 Hd. bind_inv H as t2 Hm. inversion H; subst.
        apply tok_move_spec in Hm. exists t1. tauto.
    - unfold bsei_execute in H. destruct m; try discriminate; inversion Hsp; subst.
      + bind_inv H as rc Hrc. bind_inv H as t1 Hd. bind_inv H as t2 Hm. inversion H; subst.
        apply tok_move_spec in Hm. exists t1. tauto.
      + bind_inv H as rc Hrc. bind_inv H as t1 Hd. bind_inv H as t2 Hb. inversion H; subst.
        apply tok_burn_spec in Hb. exists t1. tauto.
      + bind_inv H as rc Hrc. bind_inv H as t1 Hd. bind_inv H as t2 Hm. inversion H; subst.
        apply tok_move_spec in Hm. exists t1. tauto. }
  destruct Hd as (t1 & Hd & Ha). apply deduct_allowance_spec in Hd.
  destruct Hd as (a & A1 & A2 & A3 & A4 & _). exists a. repeat split; try assumption.
  unfold stored, allowance_of in *. rewrite Ha, A4. reflexivity.
Qed.

(** ** token-level histories and their ghost sums *)
Definition tok_event := (world * addr * cw20_msg)%type.

Definition tok_apply (base : bool) (t : token) (ev : tok_event) : token :=
  let '(w, sender, m) := ev in
  match tok_exec base w t sender m with Some (t', _) => t' | None => t end.

Definition tok_run (base : bool) (evs : list tok_event) (t : token) : token :=
  fold_left (tok_apply base) evs t.

Record aghost := mkAG { ag_granted : N; ag_spent : N; ag_lowered : N }.
Definition ag0 : aghost := mkAG 0 0 0.

Definition ag_add (o s : addr) (t : token) (sender : addr) (m : cw20_msg) (g : aghost) : aghost :=
  mkAG (ag_granted g + grant_amt o s sender m) (ag_spent g + spend_amt o s sender m)
       (ag_lowered g + lower_amt t o s sender m).

Definition ag_step (base : bool) (o s : addr) (t : token) (ev : tok_event) (g : aghost) : aghost :=
  let '(w, sender, m) := ev in
  match tok_exec base w t sender m with Some _ => ag_add o s t sender m g | None => g end.

Fixpoint ag_run (base : bool) (o s : addr) (evs : list tok_event) (t : token) (g : aghost) : aghost :=
  match evs with
  | [] => g
  | ev :: r => ag_run base o s r (tok_apply base t ev) (ag_step base o s t ev g)
  end.

(** invariant: stored + spent + lowered = a0 + granted *)
Definition AInv (a0 : N) (o s : addr) (t : token) (g : aghost) : Prop :=
  AllowWf t /\ stored t o s + ag_spent g + ag_lowered g = a0 + ag_granted g.

Lemma AInv_step base a0 o s t ev g :
  AInv a0 o s t g -> AInv a0 o s (tok_apply base t ev) (ag_step base o s t ev g).
Proof.
  intros [Hwf HI]. destruct ev as [[w sender] m]. cbn [tok_apply ag_step].
  destruct (tok_exec base w t sender m) as [[t' out]|] eqn:E; [|split; assumption].
  destruct (tok_exec_allow_step _ _ _ _ _ _ _ E Hwf) as [HS Hwf'].
  split; [exact Hwf'|]. specialize (HS o s). cbn [ag_add ag_spent ag_lowered ag_granted]. lia.
Qed.

Lemma AInv_run base a0 o s : forall evs t g,
  AInv a0 o s t g -> AInv a0 o s (tok_run base evs t) (ag_run base o s evs t g).
Proof.
  unfold tok_run. induction evs as [|ev r IH]; intros t g HI; cbn [fold_left ag_run]; [exact HI|].
  apply IH. apply AInv_step. exact HI.
Qed.

Theorem allowance_cumulative base o s evs t0 :
  AllowWf t0 ->
  AllowWf (tok_run base evs t0) /\
  stored (tok_run base evs t0) o s + ag_spent (ag_run base o s evs t0 ag0)
    + ag_lowered (ag_run base o s evs t0 ag0)
  = stored t0 o s + ag_granted (ag_run base o s evs t0 ag0).
Proof.
  intros Hwf. apply (AInv_run base (stored t0 o s) o s evs t0 ag0).
  split; [exact Hwf | cbn [ag0 ag_spent ag_lowered ag_granted]; lia].
Qed.

Corollary allowance_spent_le_granted base o s evs t0 :
  AllowWf t0 ->
  ag_spent (ag_run base o s evs t0 ag0) <= stored t0 o s + ag_granted (ag_run base o s evs t0 ag0).
Proof. intros Hwf. pose proof (allowance_cumulative base o s evs t0 Hwf) as [_ H]. lia. Qed.

Lemma tok_instantiate_allow base hubaddr mk rows t :
  tok_instantiate base hubaddr mk rows = Some t -> tk_allow t = [].
Proof.
  unfold tok_instantiate. intros H. check_inv H as Hmk. check_inv H as Hdup.
  bind_inv H as bs Hbs. inversion H; subst. reflexivity.
Qed.

Lemma AllowWf_instantiate base hubaddr mk rows t :
  tok_instantiate base hubaddr mk rows = Some t -> AllowWf t /\ forall o s, stored t o s = 0.
Proof.
  intros H. apply tok_instantiate_allow in H. unfold AllowWf, stored, allowance_of. rewrite H.
  split; [constructor | reflexivity].
Qed.

(** * PART 2 — world level *)

Definition tok_at_w (base : bool) (w : world) : option token := if base then w_stsei w else w_bsei w.
Definition tok_addr (base : bool) : addr := if base then A_stsei else A_bsei.

Definition wstored (base : bool) (w : world) (o s : addr) : N :=
  match tok_at_w base w with Some t => stored t o s | None => 0 end.

(** the cw20 message a chain message delivers to the token, if any *)
Definition tmsg_of (base : bool) (m : cmsg) : option cw20_msg :=
  match m with
  | MWasm to (WCw20 cm) _ => if to =? tok_addr base then Some cm else None
  | _ => None
  end.

(** ghost update for one successfully executed chain message [(x, m)] in world [w] *)
Definition wg_msg (base : bool) (o s : addr) (w : world) (x : addr) (m : cmsg) (g : aghost) : aghost :=
  match tok_at_w base w, tmsg_of base m with
  | Some t, Some cm => ag_add o s t x cm g
  | _, _ => g
  end.

Fixpoint arun (base : bool) (o s : addr) (fuel : nat) (w : world) (stack : list (addr * cmsg))
         (g : aghost) : result (world * aghost) :=
  match stack with
  | [] => Some (w, g)
  | (x, m) :: rest =>
      match fuel with
      | O => None
      | S f =>
          do r <- step_msg w x m;
          arun base o s f (fst r) (snd r ++ rest) (wg_msg base o s w x m g)
      end
  end.

Lemma arun_fst base o s : forall fuel w stack g tr,
  option_map fst (arun base o s fuel w stack g) = option_map fst (run fuel w stack tr).
Proof.
  induction fuel as [|f IH]; intros w stack g tr.
  - destruct stack as [|[x m] rest]; reflexivity.
  - destruct stack as [|[x m] rest]; [reflexivity|]. cbn [arun run].
    destruct (step_msg w x m) as [r|]; cbn [bind]; [apply IH | reflexivity].
Qed.

Definition ag_op (base : bool) (o s : addr) (w : world) (op : op) (g : aghost) : aghost :=
  match op with
  | OReset _ => ag0
  | OInstBsei _ _ _ => if base then g else ag0
  | OInstStsei _ _ _ _ => if base then ag0 else g
  | OTx x t m f =>
      match arun base o s tx_fuel w [(x, MWasm t m f)] g with
      | Some (_, g') => g'
      | None => g
      end
  | _ => g
  end.

Fixpoint ag_hist (base : bool) (o s : addr) (ops : list op) (w : world) (g : aghost) : aghost :=
  match ops with
  | [] => g
  | op :: r => ag_hist base o s r (fst (step w op)) (ag_op base o s w op g)
  end.

(** the world-level invariant (since the last instantiation of the token): *)
Definition WA (base : bool) (o s : addr) (w : world) (g : aghost) : Prop :=
  (forall t, tok_at_w base w = Some t -> AllowWf t) /\
  wstored base w o s + ag_spent g + ag_lowered g = ag_granted g.

Lemma WA_tok_same base o s w w' g :
  tok_at_w base w' = tok_at_w base w -> WA base o s w g -> WA base o s w' g.
Proof. unfold WA, wstored. intros ->. auto. Qed.

Lemma WA_tok_step base o s w w' g t t' x cm out we :
  tok_at_w base w = Some t -> tok_at_w base w' = Some t' ->
  tok_exec base we t x cm = Some (t', out) ->
  WA base o s w g -> WA base o s w' (ag_add o s t x cm g).
Proof.
  intros Ht Ht' He [Hwf HI]. specialize (Hwf _ Ht).
  destruct (tok_exec_allow_step _ _ _ _ _ _ _ He Hwf) as [HS Hwf'].
  split.
  - intros t0 E. rewrite Ht' in E. inversion E; subst. exact Hwf'.
  - unfold wstored in *. rewrite Ht in HI. rewrite Ht'. specialize (HS o s).
    cbn [ag_add ag_spent ag_lowered ag_granted]. lia.
Qed.

Lemma step_msg_WA base o s w x m w' out g :
  step_msg w x m = Some (w', out) -> WA base o s w g -> WA base o s w' (wg_msg base o s w x m g).
Proof.
  intros H HI. apply step_msg_inv in H.
  destruct H as [e' -> _ Hno | to wm funds e1 o' -> Hsend Hc _].
  - assert (Hm : tmsg_of base m = None).
    { destruct m; try reflexivity. exfalso. eapply Hno. reflexivity. }
    unfold wg_msg. rewrite Hm.
    assert (Hg : match tok_at_w base w with Some _ => g | None => g end = g)
      by (destruct (tok_at_w base w); reflexivity).
    rewrite Hg. eapply WA_tok_same; [|exact HI]. destruct base; reflexivity.
  - unfold wg_msg.
    destruct Hc as [h hm h' -> -> Hw He -> | r rm r' -> Hrm Hw He -> | d dm d' -> -> Hw He ->
                   | g0 gm g' -> -> Hw He -> | t cm t' -> -> Hw He -> | t cm t' -> -> Hw He ->
                   | sm e' -> -> He -> -> | -> -> ->].
    + cbn [tmsg_of]. destruct (tok_at_w base w); (eapply WA_tok_same; [|exact HI]); destruct base; reflexivity.
    + assert (Hm : tmsg_of base (MWasm A_reward wm funds) = None).
      { destruct Hrm as [-> | (n & -> & _)]; reflexivity. }
      rewrite Hm. destruct (tok_at_w base w); (eapply WA_tok_same; [|exact HI]); destruct base; reflexivity.
    + cbn [tmsg_of]. destruct (tok_at_w base w); (eapply WA_tok_same; [|exact HI]); destruct base; reflexivity.
    + cbn [tmsg_of]. destruct (tok_at_w base w); (eapply WA_tok_same; [|exact HI]); destruct base; reflexivity.
    + (* bSei handler *)
      cbn [w_bsei set_env] in Hw. destruct base.
      * cbn [tmsg_of tok_addr]. change (A_bsei =? A_stsei) with false. cbv iota.
        destruct (tok_at_w true w); (eapply WA_tok_same; [|exact HI]); reflexivity.
      * cbn [tmsg_of tok_addr]. change (A_bsei =? A_bsei) with true. cbv iota.
        cbn [tok_at_w]. rewrite Hw.
        eapply (WA_tok_step false); [exact Hw | reflexivity | exact He | exact HI].
    + (* stSei handler *)
      cbn [w_stsei set_env] in Hw. destruct base.
      * cbn [tmsg_of tok_addr]. change (A_stsei =? A_stsei) with true. cbv iota.
        cbn [tok_at_w]. rewrite Hw.
        eapply (WA_tok_step true); [exact Hw | reflexivity | exact He | exact HI].
      * cbn [tmsg_of tok_addr]. change (A_stsei =? A_bsei) with false. cbv iota.
        destruct (tok_at_w false w); (eapply WA_tok_same; [|exact HI]); reflexivity.
    + cbn [tmsg_of]. destruct (tok_at_w base w); (eapply WA_tok_same; [|exact HI]); destruct base; reflexivity.
    + assert (Hm : tmsg_of base (MWasm A_airdrop wm funds) = None).
      { cbn [tmsg_of]. destruct wm; try reflexivity. destruct base; reflexivity. }
      rewrite Hm. destruct (tok_at_w base w); (eapply WA_tok_same; [|exact HI]); destruct base; reflexivity.
Qed.

Lemma arun_WA base o s : forall fuel w stack g w' g',
  arun base o s fuel w stack g = Some (w', g') -> WA base o s w g -> WA base o s w' g'.
Proof.
  induction fuel as [|f IH]; intros w stack g w' g' H HI.
  - destruct stack as [|[x m] rest]; cbn [arun] in H; [inversion H; subst; exact HI | discriminate].
  - destruct stack as [|[x m] rest]; cbn [arun] in H; [inversion H; subst; exact HI|].
    bind_inv H as r Hr. destruct r as [w1 out]. cbn [fst snd] in H.
    eapply IH; [exact H|]. eapply step_msg_WA; eauto.
Qed.

Lemma WA_fresh base o s w :
  (forall t, tok_at_w base w = Some t -> AllowWf t /\ forall o s, stored t o s = 0) -> WA base o s w ag0.
Proof.
  intros H. split.
  - intros t E. apply (H _ E).
  - unfold wstored. destruct (tok_at_w base w) as [t|] eqn:E; cbn [ag0 ag_spent ag_lowered ag_granted].
    + destruct (H _ eq_refl) as [_ Hz]. rewrite Hz. reflexivity.
    + reflexivity.
Qed.

Lemma step_WA base o s w op g :
  WA base o s w g -> WA base o s (fst (step w op)) (ag_op base o s w op g).
Proof.
  intros HI. destruct op; cbn [step ag_op].
  - apply WA_fresh. intros t E. destruct base; discriminate.
  - destruct (e_now (w_env w) + dt <=? 18446744073); cbn [fst]; [|exact HI].
    eapply WA_tok_same; [|exact HI]. destruct base; reflexivity.
  - destruct (ev_slash _ _ _ _ _); cbn [fst]; [|exact HI].
    eapply WA_tok_same; [|exact HI]. destruct base; reflexivity.
  - destruct (ev_accrue _ _ _ _ _); cbn [fst]; [|exact HI].
    eapply WA_tok_same; [|exact HI]. destruct base; reflexivity.
  - cbn [fst]. eapply WA_tok_same; [|exact HI]. destruct base; reflexivity.
  - destruct (p =? 0); cbn [fst]; [exact HI|].
    eapply WA_tok_same; [|exact HI]. destruct base; reflexivity.
  - cbn [fst]. eapply WA_tok_same; [|exact HI]. destruct base; reflexivity.
  - cbn [fst]. eapply WA_tok_same; [|exact HI]. destruct base; reflexivity.
  - cbn [fst]. eapply WA_tok_same; [|exact HI]. destruct base; reflexivity.
  - destruct (w_hub w); cbn [fst]; [|exact HI].
    eapply WA_tok_same; [|exact HI]. destruct base; reflexivity.
  - cbn [fst]. eapply WA_tok_same; [|exact HI]. destruct base; reflexivity.
  - cbn [fst]. eapply WA_tok_same; [|exact HI]. destruct base; reflexivity.
  - cbn [fst]. eapply WA_tok_same; [|exact HI]. destruct base; reflexivity.
  - cbn [fst]. eapply WA_tok_same; [|exact HI]. destruct base; reflexivity.
  - (* inst bsei *) cbn [fst]. destruct base.
    + eapply WA_tok_same; [|exact HI]. reflexivity.
    + apply WA_fresh. intros t E. cbn [tok_at_w w_bsei set_w_bsei] in E.
      eapply AllowWf_instantiate; eauto.
  - (* inst stsei *) cbn [fst]. destruct base.
    + apply WA_fresh. intros t E. cbn [tok_at_w w_stsei set_w_stsei] in E.
      eapply AllowWf_instantiate; eauto.
    + eapply WA_tok_same; [|exact HI]. reflexivity.
  - pose proof (arun_fst base o s tx_fuel w [(sender, MWasm target m funds)] g []) as Hf.
    destruct (arun base o s tx_fuel w [(sender, MWasm target m funds)] g) as [[w1 g1]|] eqn:Ea;
      destruct (run tx_fuel w [(sender, MWasm target m funds)] []) as [[w2 tr2]|] eqn:Er;
      cbn [option_map fst] in Hf; try discriminate; cbn [fst].
    + inversion Hf; subst w2. eapply arun_WA; eauto.
    + exact HI.
Qed.

Lemma ag_hist_WA base o s : forall ops w g,
  WA base o s w g -> WA base o s (run_ops ops w) (ag_hist base o s ops w g).
Proof.
  unfold run_ops. induction ops as [|op r IH]; intros w g HI; cbn [fold_left ag_hist]; [exact HI|].
  apply IH. apply step_WA. exact HI.
Qed.

(** in every world reached by any history: stored + spent + lowered = granted, the ghosts being
    those accumulated since the last (re-)instantiation of the token *)
Theorem allowance_cumulative_reachable base o s ut ops :
  wstored base (run_ops ops (empty_world ut)) o s
    + ag_spent (ag_hist base o s ops (empty_world ut) ag0)
    + ag_lowered (ag_hist base o s ops (empty_world ut) ag0)
  = ag_granted (ag_hist base o s ops (empty_world ut) ag0).
Proof.
  apply (ag_hist_WA base o s ops (empty_world ut) ag0).
  apply WA_fresh. intros t E. destruct base; discriminate.
Qed.

Corollary allowance_spent_le_granted_reachable base o s ut ops :
  ag_spent (ag_hist base o s ops (empty_world ut) ag0) <= ag_granted (ag_hist base o s ops (empty_world ut) ag0).
Proof. pose proof (allowance_cumulative_reachable base o s ut ops). lia. Qed.

(** every executed spend message, in the world it executed in *)
Theorem step_spend_unexpired base w x cm f w' out o amt :
  step_msg w x (MWasm (tok_addr base) (WCw20 cm) f) = Some (w', out) -> spend_of cm = Some (o, amt) ->
  exists t a, tok_at_w base w = Some t /\ allowance_of t o x = Some a /\
    is_expired (al_exp a) (e_now (w_env w)) (height_of (e_now (w_env w))) = false /\
    amt <= al_amt a /\ wstored base w' o x = al_amt a - amt.
Proof.
  intros H Hsp. apply step_msg_inv in H.
  destruct H as [e' _ _ Hno | to wm funds e1 o' E Hsend Hc _]; [exfalso; eapply Hno; reflexivity|].
  inversion E; subst to wm funds; clear E.
  assert (Hnow : e_now e1 = e_now (w_env w)) by (apply send_coins_static in Hsend; apply Hsend).
  destruct Hc as [h hm h' Ht E _ _ _ | r rm r' Ht E _ _ _ | d dm d' Ht E _ _ _
                 | g0 gm g' Ht E _ _ _ | t cm' t' Ht E Hw He -> | t cm' t' Ht E Hw He ->
                 | sm e' Ht E _ _ _ | Ht _ _]; try discriminate;
    try (destruct base; discriminate).
  - destruct base; [discriminate|]. inversion E; subst cm'. cbn [w_bsei set_env] in Hw.
    destruct (spend_needs_unexpired false _ _ _ _ _ _ _ _ He Hsp) as (a & A1 & A2 & A3 & A4).
    cbn [w_env set_env] in A2. rewrite Hnow in A2.
    exists t, a. cbn [tok_at_w]. unfold wstored. cbn [tok_at_w w_bsei set_bsei]. auto.
  - destruct base; [|discriminate]. inversion E; subst cm'. cbn [w_stsei set_env] in Hw.
    destruct (spend_needs_unexpired true _ _ _ _ _ _ _ _ He Hsp) as (a & A1 & A2 & A3 & A4).
    cbn [w_env set_env] in A2. rewrite Hnow in A2.
    exists t, a. cbn [tok_at_w]. unfold wstored. cbn [tok_at_w w_stsei set_stsei]. auto.
Qed.

(** * Examples (deployment [genesis_ops] / [world0] of Proofs/ExitWorld.v: alice holds bSei, bob stSei) *)

(** token level: [AllowWf] holds for the stSei token of the deployed world, and the ghosts are not
    trivial: bob grants alice 500, alice burns 300 of bob's stSei *)
Example allow_token_example :
  exists ts, w_stsei world0 = Some ts /\ AllowWf ts /\
    let evs := [(world0, bob, CIncAllow alice 500 None); (world0, alice, CBurnFrom bob 300)] in
    ag_run true bob alice evs ts ag0 = mkAG 500 300 0 /\ stored (tok_run true evs ts) bob alice = 200.
Proof.
  destruct (w_stsei world0) as [ts|] eqn:E; [|vm_compute in E; discriminate].
  exists ts. split; [reflexivity|].
  assert (Ht : ts = mkToken 1 2000000 (Some (1, None)) [(12, 2000000)] []).
  { vm_compute in E. inversion E. reflexivity. }
  subst ts. split; [constructor|]. vm_compute. split; reflexivity.
Qed.

(** world level, stSei: grant 500, BurnFrom 300, TransferFrom 100, TransferFrom 200 (fails: 100 left),
    DecreaseAllowance 30, IncreaseAllowance 20, SendFrom 50 into an unbond:
    granted 520 = spent 450 + lowered 30 + stored 40 *)
Definition allow_ops_st : list op := genesis_ops ++
  [ OTx bob A_stsei (WCw20 (CIncAllow alice 500 None)) [];
    OTx alice A_stsei (WCw20 (CBurnFrom bob 300)) [];
    OTx alice A_stsei (WCw20 (CTransferFrom bob alice 100)) [];
    OTx alice A_stsei (WCw20 (CTransferFrom bob alice 200)) [];
    OTx bob A_stsei (WCw20 (CDecAllow alice 30 None)) [];
    OTx bob A_stsei (WCw20 (CIncAllow alice 20 None)) [];
    OTx alice A_stsei (WCw20 (CSendFrom bob A_hub 50 HkUnbond)) [] ].

Example allow_hist_example :
  ag_hist true bob alice allow_ops_st (empty_world 100) ag0 = mkAG 520 450 30 /\
  wstored true (run_ops allow_ops_st (empty_world 100)) bob alice = 40.
Proof. vm_compute. split; reflexivity. Qed.

(** world level, bSei, expiry: alice grants bob 500 until time 1000010; one TransferFrom of 100
    succeeds; after the clock passed the expiry both a TransferFrom and a BurnFrom fail, although 400
    are still stored: granted 500, spent 100 *)
Definition allow_ops_b : list op := genesis_ops ++
  [ OTx alice A_bsei (WCw20 (CIncAllow bob 500 (Some (ExpTime 1000010)))) [];
    OTx bob A_bsei (WCw20 (CTransferFrom alice bob 100)) [];
    OAdvance 20;
    OTx bob A_bsei (WCw20 (CTransferFrom alice bob 100)) [];
    OTx bob A_bsei (WCw20 (CBurnFrom alice 100)) [] ].

Example allow_expired_example :
  ag_hist false alice bob allow_ops_b (empty_world 100) ag0 = mkAG 500 100 0 /\
  wstored false (run_ops allow_ops_b (empty_world 100)) alice bob = 400.
Proof. vm_compute. split; reflexivity. Qed.
