(** * RewardP: the bSei reward contract at contract level (C14, C15).

    Quantities (all in 18-decimal atomics): for a holder record [h] and a global index [gi],
    [hacc gi h = (gi - ho_idx h) * ho_bal h + ho_pend h]; [acc r a = hacc (rw_gi r) (holder_of r a)]
    is what [accrued_atomics] computes; [sum_acc r] / [sum_bal r] are the sums over all holder
    records.

    Main results (C14):
    - [settle_iff], [accrued_atomics_iff]: the 256-bit decimal pipeline computes exactly [hacc]
      and fails exactly on its guards.
    - [rinc_iff], [rdec_iff], [rclaim_iff], [rupdate_iff]: exact characterisation (guards, new
      state, emitted messages) of the four state-changing handlers.
    - [RCore], [RInv]: the invariant; [rinv_instantiate], [reward_execute_rcore],
      [reward_execute_rinv], [rinv_bank_increase]: established and preserved.
    - [holders_sum_le], [claimable_sum_le]: the invariant's sums bound the sum over any set of
      distinct holders (atomics / whole claimable units).
    - [inc_succeeds], [dec_succeeds], [claim_succeeds_exact], [claim_fails_below_unit],
      [claim_succeeds_iff], [update_succeeds]: under E1 magnitudes no 128/256-bit guard is hit;
      a claim succeeds iff a whole unit accrued and pays exactly the whole part.
    - [update_dust_exact], [claim_dust_exact], [settle_dust_exact]: what each handler does to the
      stranded amount [dust r = prev*D - sum_acc].
    - ghost accounting: [cstep], [creach], [E1c], [GInv], [ginv_init], [creach_ginv],
      [claimed_le_delivered], [stranded_dust], [creach_update_succeeds],
      [creach_claim_succeeds], [creach_settle_succeeds].
    Main results (C15):
    - [accrual_step], [accrual_rounding]: one update gives every holder balance * increment.
    - [inc_preserves_acc], [dec_preserves_acc], [other_holder_untouched],
      [late_tokens_earn_nothing]: settling keeps past rewards; others untouched.
    - [ops_commute], [op_outcome_independent]: operations about distinct holders commute and do
      not influence each other's outcome.
    - [hacc_linear], [split_rel_inc], [split_rel_dec], [split_payout], [split_sim_acc],
      [split_sim_update], [split_sim_inc], [split_sim_dec], [split_sim_other]: one account or two.
    Non-vacuity: [rinv_nonvacuous], [claim_nonvacuous], [update_nonvacuous],
      [creach_nonvacuous], [ops_commute_nonvacuous], [split_sim_nonvacuous]. *)
From Krp Require Import Tactics Prelude Fixed FMap Types Env Reward Inv.
Open Scope N_scope.
(* division / modulo are kept as atoms for [lia] in this file; the facts about them are supplied
   explicitly ([div_D_decomp], [index_step_mul], ...) *)
Ltac Zify.zify_post_hook ::= idtac.

(** ** 0. small helpers *)
Lemma rw_eqbA_eq a b : eqbA a b = true <-> a = b.
Proof. unfold eqbA. apply N.eqb_eq. Qed.

Lemma narrow128_iff x y : narrow128 x = Some y <-> x <= U128MAX /\ y = x.
Proof.
  unfold narrow128, fits128. destruct (x <=? U128MAX) eqn:E.
  - apply N.leb_le in E. split; [intros H; inversion H; subst; auto | intros [_ ->]; reflexivity].
  - apply N.leb_gt in E. split; [discriminate | intros [H _]; lia].
Qed.

Lemma narrow128_ok x : x <= U128MAX -> narrow128 x = Some x.
Proof. intros H. apply narrow128_iff. auto. Qed.

Lemma sub128_iff a b y : sub128 a b = Some y <-> b <= a /\ y = a - b.
Proof.
  unfold sub128. destruct (b <=? a) eqn:E.
  - apply N.leb_le in E. split; [intros H; inversion H; subst; auto | intros [_ ->]; reflexivity].
  - apply N.leb_gt in E. split; [discriminate | intros [H _]; lia].
Qed.

Lemma sub128_ok a b : b <= a -> sub128 a b = Some (a - b).
Proof. intros H. apply sub128_iff. auto. Qed.

Lemma mul_D_div x : x * D / D = x.
Proof. apply N.div_mul. exact D_nz. Qed.

Lemma div_D_mul_le x : x / D * D <= x.
Proof. rewrite N.mul_comm. apply N.mul_div_le. exact D_nz. Qed.

Lemma div_D_decomp x : x = x / D * D + x mod D.
Proof. rewrite (N.mul_comm (x / D)). apply N.div_mod. exact D_nz. Qed.

Ltac conjs := repeat match goal with |- _ /\ _ => split end; try assumption; try reflexivity.

(** ** 1. accrued rewards *)
Definition hacc (gi : N) (h : holder) : N := (gi - ho_idx h) * ho_bal h + ho_pend h.
Definition acc (r : reward) (a : addr) : N := hacc (rw_gi r) (holder_of r a).

(** the guards of [calculate_decimal_rewards] + [decimal_summation_in_256] *)
Definition acc_ok (gi : N) (h : holder) : Prop :=
  ho_idx h <= gi /\ ho_bal h * D <= U128MAX /\ hacc gi h <= U128MAX.

Definition settle (gi : N) (h : holder) : result N :=
  do rw <- decimal_rewards gi (ho_idx h) (ho_bal h); dec_add_256 rw (ho_pend h).

Lemma decimal_rewards_iff gi idx b x :
  decimal_rewards gi idx b = Some x <->
  idx <= gi /\ b * D <= U128MAX /\ (gi - idx) * b <= U128MAX /\ x = (gi - idx) * b.
Proof.
  unfold decimal_rewards, ratio, dec_sub_256, dec_mul_256.
  change (1 =? 0) with false. cbv iota. rewrite N.div_1_r.
  assert (Hq : forall d, d * (b * D) / D = d * b)
    by (intros d; rewrite N.mul_assoc; apply mul_D_div).
  split.
  - intros H. bind_inv H as db Hdb. apply narrow128_iff in Hdb. destruct Hdb as [Hb ->].
    bind_inv H as diff Hdiff. destruct (idx <=? gi) eqn:E; [|discriminate].
    apply N.leb_le in E. inversion Hdiff; subst diff. rewrite Hq in H.
    apply narrow128_iff in H. destruct H as [H1 H2]. auto.
  - intros (H1 & H2 & H3 & ->). rewrite (narrow128_ok _ H2). cbn [bind].
    apply N.leb_le in H1. rewrite H1. cbn [bind]. rewrite Hq. apply narrow128_ok. exact H3.
Qed.

Lemma settle_iff gi h x : settle gi h = Some x <-> acc_ok gi h /\ x = hacc gi h.
Proof.
  unfold settle, dec_add_256, acc_ok, hacc. split.
  - intros H. bind_inv H as rw Hrw. apply decimal_rewards_iff in Hrw.
    destruct Hrw as (H1 & H2 & H3 & ->). apply narrow128_iff in H. destruct H as [H4 ->]. auto.
  - intros ((H1 & H2 & H3) & ->).
    assert (Hd : decimal_rewards gi (ho_idx h) (ho_bal h) = Some ((gi - ho_idx h) * ho_bal h))
      by (apply decimal_rewards_iff; repeat split; auto; lia).
    rewrite Hd. cbn [bind]. apply narrow128_ok. exact H3.
Qed.

Lemma settle_ok gi h : acc_ok gi h -> settle gi h = Some (hacc gi h).
Proof. intros H. apply settle_iff. auto. Qed.

Lemma accrued_atomics_iff r a x :
  accrued_atomics r a = Some x <-> acc_ok (rw_gi r) (holder_of r a) /\ x = acc r a.
Proof. apply settle_iff. Qed.

(** ** 2. holder map *)
Lemma holder_of_set_same r a h : holder_of (set_rw_holder r a h) a = h.
Proof. unfold holder_of. cbn [rw_holders set_rw_holder]. rewrite (get_set_same eqbA rw_eqbA_eq). reflexivity. Qed.

Lemma holder_of_set_other r a b h : b <> a -> holder_of (set_rw_holder r a h) b = holder_of r b.
Proof.
  intros Hne. unfold holder_of. cbn [rw_holders set_rw_holder].
  rewrite (get_set_other eqbA rw_eqbA_eq) by exact Hne. reflexivity.
Qed.

Lemma holder_of_set_state r gi t p a : holder_of (set_rw_state r gi t p) a = holder_of r a.
Proof. reflexivity. Qed.

Definition sum_acc (r : reward) : N := msum (hacc (rw_gi r)) (rw_holders r).
Definition sum_bal (r : reward) : N := msum ho_bal (rw_holders r).

Lemma hacc_default gi : hacc gi (mkHolder 0 0 0) = 0.
Proof. unfold hacc. cbn [ho_idx ho_bal ho_pend]. lia. Qed.

Lemma getf_hacc gi m a :
  getf eqbA (hacc gi) m a = hacc gi (match get eqbA m a with Some h => h | None => mkHolder 0 0 0 end).
Proof. unfold getf. destruct (get eqbA m a); [reflexivity | symmetry; apply hacc_default]. Qed.

Lemma getf_bal m a :
  getf eqbA ho_bal m a = ho_bal (match get eqbA m a with Some h => h | None => mkHolder 0 0 0 end).
Proof. unfold getf. destruct (get eqbA m a); reflexivity. Qed.

Lemma acc_le_sum r a : acc r a <= sum_acc r.
Proof. unfold acc, sum_acc, holder_of. rewrite <- getf_hacc. apply getf_le_msum. Qed.

Lemma bal_le_sum r a : ho_bal (holder_of r a) <= sum_bal r.
Proof. unfold sum_bal, holder_of. rewrite <- getf_bal. apply getf_le_msum. Qed.

Lemma sum_acc_set r a h :
  sum_acc (set_rw_holder r a h) + acc r a = sum_acc r + hacc (rw_gi r) h.
Proof.
  unfold sum_acc, acc, holder_of. cbn [rw_holders rw_gi set_rw_holder]. rewrite <- getf_hacc.
  apply msum_set.
Qed.

Lemma sum_bal_set r a h :
  sum_bal (set_rw_holder r a h) + ho_bal (holder_of r a) = sum_bal r + ho_bal h.
Proof.
  unfold sum_bal, holder_of. cbn [rw_holders set_rw_holder]. rewrite <- getf_bal.
  apply (msum_set eqbA ho_bal).
Qed.

(** raising the index by [q] adds [q * balance] to every holder *)
Lemma hacc_raise gi q h : ho_idx h <= gi -> hacc (gi + q) h = hacc gi h + q * ho_bal h.
Proof. intros H. unfold hacc. replace (gi + q - ho_idx h) with ((gi - ho_idx h) + q) by lia. lia. Qed.

Definition idx_ok (gi : N) (m : fmap addr holder) : Prop := Forall (fun kv => ho_idx (snd kv) <= gi) m.

Lemma msum_raise gi q m :
  idx_ok gi m -> msum (hacc (gi + q)) m = msum (hacc gi) m + q * msum ho_bal m.
Proof.
  unfold msum, idx_ok. induction m as [|[k v] m IH]; intros HF; cbn [map sumN snd].
  - lia.
  - inversion HF as [|x l Hx Hl]; subst. cbn [snd] in Hx.
    rewrite (IH Hl), (hacc_raise gi q v Hx). lia.
Qed.

Lemma idx_ok_set gi m a h : idx_ok gi m -> ho_idx h <= gi -> idx_ok gi (set eqbA m a h).
Proof.
  unfold idx_ok. induction m as [|[k v] m IH]; intros HF Hh; cbn [set].
  - constructor; [exact Hh | constructor].
  - inversion HF as [|x l Hx Hl]; subst.
    destruct (eqbA a k); constructor; auto.
Qed.

Lemma idx_ok_mono gi gi' m : gi <= gi' -> idx_ok gi m -> idx_ok gi' m.
Proof.
  intros Hle HF. unfold idx_ok in *. eapply Forall_impl; [|exact HF].
  intros kv H. cbn beta in *. lia.
Qed.

Lemma get_in (m : fmap addr holder) a h : get eqbA m a = Some h -> In (a, h) m.
Proof.
  induction m as [|[k v] m IH]; cbn [get]; [discriminate|].
  destruct (eqbA a k) eqn:E.
  - apply rw_eqbA_eq in E. subst k. intros H. inversion H; subst. left. reflexivity.
  - intros H. right. auto.
Qed.

Lemma idx_ok_holder r a : idx_ok (rw_gi r) (rw_holders r) -> ho_idx (holder_of r a) <= rw_gi r.
Proof.
  intros HF. unfold holder_of. destruct (get eqbA (rw_holders r) a) as [h|] eqn:E.
  - apply get_in in E. unfold idx_ok in HF. rewrite Forall_forall in HF. exact (HF _ E).
  - cbn [ho_idx]. lia.
Qed.

Lemma keys_set_in (m : fmap addr holder) a h k :
  In k (map fst (set eqbA m a h)) -> k = a \/ In k (map fst m).
Proof.
  induction m as [|[k' v] m IH]; cbn [set map fst In].
  - intros [H|[]]. left. auto.
  - destruct (eqbA a k') eqn:E; cbn [map fst In].
    + apply rw_eqbA_eq in E. subst k'. intros [H|H]; auto.
    + intros [H|H]; auto. destruct (IH H); auto.
Qed.

Lemma nodup_set (m : fmap addr holder) a h :
  NoDup (map fst m) -> NoDup (map fst (set eqbA m a h)).
Proof.
  induction m as [|[k v] m IH]; cbn [set map fst]; intros HN.
  - constructor; [intros [] | constructor].
  - inversion HN as [|x l Hx Hl]; subst.
    destruct (eqbA a k) eqn:E; cbn [map fst].
    + apply rw_eqbA_eq in E. subst k. constructor; assumption.
    + constructor; [|auto]. intros Hin. apply keys_set_in in Hin. destruct Hin as [->|Hin]; [|contradiction].
      rewrite (eqb_refl eqbA rw_eqbA_eq) in E. discriminate.
Qed.

(** ** 3. exact characterisation of the state-changing handlers *)

(** the common shape of the three per-holder handlers: replace [a]'s record, set total and prev *)
Definition upd (r : reward) (a : addr) (h : holder) (t p : N) : reward :=
  set_rw_state (set_rw_holder r a h) (rw_gi r) t p.

Definition inc_state (r : reward) (a : addr) (amt : N) : reward :=
  upd r a (mkHolder (ho_bal (holder_of r a) + amt) (rw_gi r) (acc r a)) (rw_total r + amt) (rw_prev r).
Definition dec_state (r : reward) (a : addr) (amt : N) : reward :=
  upd r a (mkHolder (ho_bal (holder_of r a) - amt) (rw_gi r) (acc r a)) (rw_total r - amt) (rw_prev r).
Definition claim_state (r : reward) (a : addr) : reward :=
  upd r a (mkHolder (ho_bal (holder_of r a)) (rw_gi r) (acc r a mod D)) (rw_total r)
      (rw_prev r - acc r a / D).
Definition claim_to (rcp : option addr) (sender : addr) : addr :=
  match rcp with Some a => a | None => sender end.
(** the index increment of one update: newly arrived coins, as a decimal, per bSei *)
Definition index_step (r : reward) (bank : N) : N := (bank - rw_prev r) * D / rw_total r.
Definition update_state (r : reward) (bank : N) : reward :=
  set_rw_state r (rw_gi r + index_step r bank) (rw_total r) bank.

Lemma rinc_iff w r self s a amt r' out :
  reward_execute w r self s (RInc a amt) = Some (r', out) <->
  query_bsei_addr w (rw_hub r) = Some s /\ acc_ok (rw_gi r) (holder_of r a) /\
  ho_bal (holder_of r a) + amt <= U128MAX /\ rw_total r + amt <= U128MAX /\
  r' = inc_state r a amt /\ out = [].
Proof.
  cbn [reward_execute]. split.
  - intros H. bind_inv H as tok Htok. check_inv H as Hs. apply N.eqb_eq in Hs. subst tok.
    bind_inv H as rw Hrw. bind_inv H as pend Hp.
    assert (Hst : settle (rw_gi r) (holder_of r a) = Some pend)
      by (unfold settle; rewrite Hrw; exact Hp).
    apply settle_iff in Hst. destruct Hst as [Hok ->].
    bind_inv H as b Hb. apply narrow128_iff in Hb. destruct Hb as [Hb ->].
    bind_inv H as tot Ht. apply narrow128_iff in Ht. destruct Ht as [Ht ->].
    inversion H; subst. conjs.
  - intros (Hq & Hok & Hb & Ht & -> & ->). rewrite Hq. cbn [bind]. rewrite N.eqb_refl.
    pose proof (settle_ok _ _ Hok) as Hst. unfold settle in Hst.
    destruct (decimal_rewards (rw_gi r) (ho_idx (holder_of r a)) (ho_bal (holder_of r a))) as [rw|];
      [|discriminate]. cbn [bind] in *. rewrite Hst. cbn [bind]. unfold add128.
    rewrite (narrow128_ok _ Hb), (narrow128_ok _ Ht). reflexivity.
Qed.

Lemma rdec_iff w r self s a amt r' out :
  reward_execute w r self s (RDec a amt) = Some (r', out) <->
  query_bsei_addr w (rw_hub r) = Some s /\ acc_ok (rw_gi r) (holder_of r a) /\
  amt <= ho_bal (holder_of r a) /\ amt <= rw_total r /\
  r' = dec_state r a amt /\ out = [].
Proof.
  cbn [reward_execute]. split.
  - intros H. bind_inv H as tok Htok. check_inv H as Hs. apply N.eqb_eq in Hs. subst tok.
    check_inv H as Hle. apply N.leb_le in Hle.
    bind_inv H as rw Hrw. bind_inv H as pend Hp.
    assert (Hst : settle (rw_gi r) (holder_of r a) = Some pend)
      by (unfold settle; rewrite Hrw; exact Hp).
    apply settle_iff in Hst. destruct Hst as [Hok ->].
    bind_inv H as b Hb. apply sub128_iff in Hb. destruct Hb as [Hb ->].
    bind_inv H as tot Ht. apply sub128_iff in Ht. destruct Ht as [Ht ->].
    inversion H; subst. conjs.
  - intros (Hq & Hok & Hb & Ht & -> & ->). rewrite Hq. cbn [bind]. rewrite N.eqb_refl.
    apply N.leb_le in Hb. rewrite Hb. apply N.leb_le in Hb.
    pose proof (settle_ok _ _ Hok) as Hst. unfold settle in Hst.
    destruct (decimal_rewards (rw_gi r) (ho_idx (holder_of r a)) (ho_bal (holder_of r a))) as [rw|];
      [|discriminate]. cbn [bind] in *. rewrite Hst. cbn [bind].
    rewrite (sub128_ok _ _ Hb), (sub128_ok _ _ Ht). reflexivity.
Qed.

Lemma mulU_1 x : x <= U128MAX -> mulU 1 x = Some (x / D).
Proof.
  intros Hx. unfold mulU. change (1 =? 0) with false. cbn [orb].
  destruct (x =? 0) eqn:E.
  - apply N.eqb_eq in E. subst x. reflexivity.
  - rewrite N.mul_1_l. apply narrow128_ok.
    pose proof (div_D_mul_le x). pose proof D_pos. nia.
Qed.

Lemma sub_whole x : x - x / D * D = x mod D.
Proof. pose proof (div_D_decomp x). lia. Qed.

Lemma rclaim_iff w r self s rcp r' out :
  reward_execute w r self s (RClaim rcp) = Some (r', out) <->
  acc_ok (rw_gi r) (holder_of r s) /\ acc r s / D <> 0 /\ acc r s / D <= rw_prev r /\
  r' = claim_state r s /\ out = [MBank (claim_to rcp s) [(rw_denom r, acc r s / D)]].
Proof.
  cbn [reward_execute]. split.
  - intros H. bind_inv H as all Hall. apply accrued_atomics_iff in Hall. destruct Hall as [Hok ->].
    assert (Hfit : acc r s <= U128MAX) by (destruct Hok as (_ & _ & Hf); exact Hf).
    rewrite (mulU_1 _ Hfit) in H. cbn [bind] in H.
    bind_inv H as whole Hw. unfold ratio in Hw. change (1 =? 0) with false in Hw. cbv iota in Hw.
    rewrite N.div_1_r in Hw. apply narrow128_iff in Hw. destruct Hw as [_ ->].
    bind_inv H as dec Hd. apply sub128_iff in Hd. destruct Hd as [_ ->]. rewrite sub_whole in H.
    check_inv H as Hnz. apply negb_true_iff, N.eqb_neq in Hnz.
    bind_inv H as prev Hp. apply sub128_iff in Hp. destruct Hp as [Hp ->].
    inversion H; subst. conjs.
  - intros (Hok & Hnz & Hp & -> & ->).
    assert (Hfit : acc r s <= U128MAX) by (destruct Hok as (_ & _ & Hf); exact Hf).
    assert (Hall : accrued_atomics r s = Some (acc r s)) by (apply accrued_atomics_iff; auto).
    rewrite Hall. cbn [bind]. rewrite (mulU_1 _ Hfit). cbn [bind].
    unfold ratio. change (1 =? 0) with false. cbv iota. rewrite N.div_1_r.
    pose proof (div_D_mul_le (acc r s)) as Hle.
    rewrite narrow128_ok by lia. cbn [bind]. rewrite (sub128_ok _ _ Hle). cbn [bind].
    rewrite sub_whole. apply N.eqb_neq in Hnz. rewrite Hnz. cbn [negb].
    rewrite (sub128_ok _ _ Hp). reflexivity.
Qed.

Lemma rupdate_iff w r self s r' out :
  reward_execute w r self s RUpdateIndex = Some (r', out) <->
  query_dispatcher_addr w (rw_hub r) = Some s /\ out = [] /\
  ((rw_total r = 0 /\ r' = r) \/
   (rw_total r <> 0 /\ rw_prev r <= bal (w_env w) self (rw_denom r) /\
    index_step r (bal (w_env w) self (rw_denom r)) <= U128MAX /\
    rw_gi r + index_step r (bal (w_env w) self (rw_denom r)) <= U128MAX /\
    r' = update_state r (bal (w_env w) self (rw_denom r)))).
Proof.
  cbn [reward_execute]. unfold index_step, update_state, index_step.
  set (bank := bal (w_env w) self (rw_denom r)). split.
  - intros H. bind_inv H as dp Hdp. check_inv H as Hs. apply N.eqb_eq in Hs. subst dp.
    split; [reflexivity|].
    destruct (rw_total r =? 0) eqn:Et.
    + apply N.eqb_eq in Et. inversion H; subst. auto.
    + apply N.eqb_neq in Et.
      bind_inv H as c Hc. apply sub128_iff in Hc. destruct Hc as [Hc ->].
      bind_inv H as q Hq. unfold ratio in Hq. apply N.eqb_neq in Et. rewrite Et in Hq.
      apply N.eqb_neq in Et. apply narrow128_iff in Hq. destruct Hq as [Hq ->].
      bind_inv H as gi Hgi. apply narrow128_iff in Hgi. destruct Hgi as [Hgi ->].
      inversion H; subst. split; [reflexivity|]. right. conjs.
  - intros (Hq & -> & Hcase). rewrite Hq. cbn [bind]. rewrite N.eqb_refl.
    destruct Hcase as [[Ht ->] | (Ht & Hp & Hs & Hg & ->)].
    + rewrite Ht. reflexivity.
    + apply N.eqb_neq in Ht. rewrite Ht. rewrite (sub128_ok _ _ Hp). cbn [bind].
      unfold ratio. rewrite Ht. rewrite (narrow128_ok _ Hs). cbn [bind].
      unfold dec_add_256. rewrite (narrow128_ok _ Hg). reflexivity.
Qed.

(** ** 4. what the handlers do to the sums *)
Lemma hacc_fresh gi b p : hacc gi (mkHolder b gi p) = p.
Proof. unfold hacc. cbn [ho_idx ho_bal ho_pend]. rewrite N.sub_diag. lia. Qed.

Lemma sum_acc_upd r a h t p : sum_acc (upd r a h t p) + acc r a = sum_acc r + hacc (rw_gi r) h.
Proof. exact (sum_acc_set r a h). Qed.

Lemma sum_bal_upd r a h t p :
  sum_bal (upd r a h t p) + ho_bal (holder_of r a) = sum_bal r + ho_bal h.
Proof. exact (sum_bal_set r a h). Qed.

Lemma holder_of_upd_same r a h t p : holder_of (upd r a h t p) a = h.
Proof. exact (holder_of_set_same r a h). Qed.

Lemma holder_of_upd_other r a b h t p : b <> a -> holder_of (upd r a h t p) b = holder_of r b.
Proof. exact (holder_of_set_other r a b h). Qed.

Lemma sum_acc_inc r a amt : sum_acc (inc_state r a amt) = sum_acc r.
Proof. pose proof (sum_acc_upd r a (mkHolder (ho_bal (holder_of r a) + amt) (rw_gi r) (acc r a))
                                 (rw_total r + amt) (rw_prev r)) as H.
       rewrite hacc_fresh in H. unfold inc_state. lia. Qed.

Lemma sum_acc_dec r a amt : sum_acc (dec_state r a amt) = sum_acc r.
Proof. pose proof (sum_acc_upd r a (mkHolder (ho_bal (holder_of r a) - amt) (rw_gi r) (acc r a))
                                 (rw_total r - amt) (rw_prev r)) as H.
       rewrite hacc_fresh in H. unfold dec_state. lia. Qed.

Lemma sum_acc_claim r a : sum_acc (claim_state r a) + acc r a / D * D = sum_acc r.
Proof. pose proof (sum_acc_upd r a (mkHolder (ho_bal (holder_of r a)) (rw_gi r) (acc r a mod D))
                                 (rw_total r) (rw_prev r - acc r a / D)) as H.
       rewrite hacc_fresh in H. unfold claim_state. pose proof (div_D_decomp (acc r a)). lia. Qed.

Lemma sum_acc_update r bank :
  idx_ok (rw_gi r) (rw_holders r) ->
  sum_acc (update_state r bank) = sum_acc r + index_step r bank * sum_bal r.
Proof. intros H. exact (msum_raise (rw_gi r) (index_step r bank) (rw_holders r) H). Qed.

Lemma index_step_mul r bank :
  rw_total r <> 0 ->
  index_step r bank * rw_total r + ((bank - rw_prev r) * D) mod rw_total r = (bank - rw_prev r) * D.
Proof.
  intros Ht. unfold index_step. rewrite N.mul_comm. symmetry. apply N.div_mod. exact Ht.
Qed.

(** ** 5. the invariant *)
Definition RCore (r : reward) : Prop :=
  sum_acc r <= rw_prev r * D /\ rw_total r = sum_bal r /\
  idx_ok (rw_gi r) (rw_holders r) /\ NoDup (map fst (rw_holders r)).

(** [bank] is the contract's bank balance of its reward coin *)
Definition RInv (r : reward) (bank : N) : Prop := RCore r /\ rw_prev r <= bank.

Lemma rcore_instantiate s hubaddr d swap denoms : RCore (reward_instantiate s hubaddr d swap denoms).
Proof.
  unfold RCore, reward_instantiate, sum_acc, sum_bal, idx_ok, msum.
  cbn [rw_holders rw_prev rw_total rw_gi map sumN]. conjs; try lia; constructor.
Qed.

Theorem rinv_instantiate s hubaddr d swap denoms bank :
  RInv (reward_instantiate s hubaddr d swap denoms) bank.
Proof. split; [apply rcore_instantiate | cbn [reward_instantiate rw_prev]; lia]. Qed.

Theorem rinv_bank_increase r bank x : RInv r bank -> RInv r (bank + x).
Proof. intros [H1 H2]. split; [exact H1 | lia]. Qed.

Lemma rinv_bank_mono r bank bank' : bank <= bank' -> RInv r bank -> RInv r bank'.
Proof. intros Hle [H1 H2]. split; [exact H1 | lia]. Qed.

Lemma upd_rcore r a h t p :
  RCore r -> ho_idx h <= rw_gi r ->
  sum_acc r + hacc (rw_gi r) h <= p * D + acc r a ->
  t + ho_bal (holder_of r a) = rw_total r + ho_bal h ->
  RCore (upd r a h t p).
Proof.
  intros (H1 & H2 & H3 & H4) Hi Hs Ht. unfold RCore.
  pose proof (sum_acc_upd r a h t p) as Sa. pose proof (sum_bal_upd r a h t p) as Sb.
  change (rw_prev (upd r a h t p)) with p. change (rw_total (upd r a h t p)) with t.
  split; [lia|]. split; [lia|]. split.
  - exact (idx_ok_set (rw_gi r) (rw_holders r) a h H3 Hi).
  - exact (nodup_set (rw_holders r) a h H4).
Qed.

Lemma rcore_holder_idx r a : RCore r -> ho_idx (holder_of r a) <= rw_gi r.
Proof. intros (_ & _ & H3 & _). apply idx_ok_holder. exact H3. Qed.

Lemma rcore_inc r a amt : RCore r -> RCore (inc_state r a amt).
Proof.
  intros HC. pose proof HC as (H1 & H2 & _). apply upd_rcore; [exact HC| | |].
  - cbn [ho_idx]. lia.
  - rewrite hacc_fresh. lia.
  - cbn [ho_bal]. lia.
Qed.

Lemma rcore_dec r a amt :
  RCore r -> amt <= ho_bal (holder_of r a) -> RCore (dec_state r a amt).
Proof.
  intros HC Hle. pose proof HC as (H1 & H2 & _). pose proof (bal_le_sum r a) as Hb.
  apply upd_rcore; [exact HC| | |].
  - cbn [ho_idx]. lia.
  - rewrite hacc_fresh. lia.
  - cbn [ho_bal]. lia.
Qed.

Lemma rcore_claim r a : RCore r -> acc r a / D <= rw_prev r -> RCore (claim_state r a).
Proof.
  intros HC Hle. pose proof HC as (H1 & H2 & _). apply upd_rcore; [exact HC| | |].
  - cbn [ho_idx]. lia.
  - rewrite hacc_fresh. rewrite N.mul_sub_distr_r.
    pose proof (div_D_decomp (acc r a)) as Hd. pose proof (acc_le_sum r a) as Ha.
    assert (Hm : acc r a / D * D <= rw_prev r * D) by (apply N.mul_le_mono_r; exact Hle).
    lia.
  - cbn [ho_bal]. lia.
Qed.

Lemma rcore_update r bank :
  RCore r -> rw_total r <> 0 -> rw_prev r <= bank -> RCore (update_state r bank).
Proof.
  intros (H1 & H2 & H3 & H4) Ht Hp. unfold RCore.
  rewrite (sum_acc_update r bank H3).
  change (rw_prev (update_state r bank)) with bank.
  change (rw_total (update_state r bank)) with (rw_total r).
  change (sum_bal (update_state r bank)) with (sum_bal r).
  change (rw_holders (update_state r bank)) with (rw_holders r).
  change (rw_gi (update_state r bank)) with (rw_gi r + index_step r bank).
  split; [|split; [exact H2 | split; [|exact H4]]].
  - pose proof (index_step_mul r bank Ht) as Hm. rewrite <- H2.
    assert (Hb : bank * D = rw_prev r * D + (bank - rw_prev r) * D)
      by (rewrite <- N.mul_add_distr_r; f_equal; lia).
    lia.
  - eapply idx_ok_mono; [|exact H3]. lia.
Qed.

(** whole-unit payout of a message *)
Definition payout_of (r : reward) (s : addr) (m : reward_msg) : N :=
  match m with RClaim _ => acc r s / D | _ => 0 end.

(** every successful message preserves the core invariant *)
Theorem reward_execute_rcore w r self s m r' out :
  RCore r -> reward_execute w r self s m = Some (r', out) -> RCore r'.
Proof.
  intros HC H. destruct m.
  - apply rclaim_iff in H. destruct H as (_ & _ & Hp & -> & _). apply rcore_claim; assumption.
  - cbn [reward_execute] in H. check_inv H as Hs. inversion H; subst. exact HC.
  - cbn [reward_execute] in H. check_inv H as Hs. inversion H; subst. exact HC.
  - cbn [reward_execute] in H. check_inv H as Hs. inversion H; subst. exact HC.
  - cbn [reward_execute] in H. bind_inv H as dp Hdp. check_inv H as Hs. inversion H; subst. exact HC.
  - apply rupdate_iff in H. destruct H as (_ & _ & [[_ ->] | (Ht & Hp & _ & _ & ->)]); [exact HC|].
    apply rcore_update; assumption.
  - apply rinc_iff in H. destruct H as (_ & _ & _ & _ & -> & _). apply rcore_inc. exact HC.
  - apply rdec_iff in H. destruct H as (_ & _ & Hle & _ & -> & _). apply rcore_dec; assumption.
  - cbn [reward_execute] in H. check_inv H as Hs. inversion H; subst. exact HC.
Qed.

(** ... and the solvency chain, where a claim lowers the bank balance by exactly its payout
    (the emitted [MBank]) and an index update reads the current bank balance *)
Theorem reward_execute_rinv w r self s m r' out bank :
  RInv r bank -> (m = RUpdateIndex -> bank = bal (w_env w) self (rw_denom r)) ->
  reward_execute w r self s m = Some (r', out) ->
  payout_of r s m <= bank /\ RInv r' (bank - payout_of r s m).
Proof.
  intros [HC Hb] Hbank H. pose proof (reward_execute_rcore _ _ _ _ _ _ _ HC H) as HC'.
  destruct m; cbn [payout_of]; try rewrite N.sub_0_r; (split; [try lia|split; [exact HC'|]]).
  - apply rclaim_iff in H. destruct H as (_ & _ & Hp & _ & _). lia.
  - apply rclaim_iff in H. destruct H as (_ & _ & Hp & -> & _).
    change (rw_prev (claim_state r s)) with (rw_prev r - acc r s / D). lia.
  - cbn [reward_execute] in H. check_inv H as Hs. inversion H; subst. exact Hb.
  - cbn [reward_execute] in H. check_inv H as Hs. inversion H; subst. exact Hb.
  - cbn [reward_execute] in H. check_inv H as Hs. inversion H; subst. exact Hb.
  - cbn [reward_execute] in H. bind_inv H as dp Hdp. check_inv H as Hs. inversion H; subst. exact Hb.
  - apply rupdate_iff in H. destruct H as (_ & _ & [[_ ->] | (Ht & Hp & _ & _ & ->)]); [exact Hb|].
    rewrite <- (Hbank eq_refl). change (rw_prev (update_state r bank)) with bank. lia.
  - apply rinc_iff in H. destruct H as (_ & _ & _ & _ & -> & _). exact Hb.
  - apply rdec_iff in H. destruct H as (_ & _ & _ & _ & -> & _). exact Hb.
  - cbn [reward_execute] in H. check_inv H as Hs. inversion H; subst. exact Hb.
Qed.

(** ** 6. E1 magnitudes: no 128/256-bit guard is hit *)
Lemma DD_fits : D * D <= U128MAX.
Proof. apply N.leb_le. vm_compute. reflexivity. Qed.

(** E1 for the reward contract state: mirrored supply and recorded reward balance at most 10^18 *)
Definition RBound (r : reward) : Prop := rw_total r <= LIM /\ rw_prev r <= LIM.

Lemma rcore_acc_ok r a : RCore r -> RBound r -> acc_ok (rw_gi r) (holder_of r a).
Proof.
  intros HC [Ht Hp]. pose proof HC as (H1 & H2 & _). unfold LIM in *. pose proof DD_fits as HD.
  split; [apply rcore_holder_idx; exact HC|]. split.
  - pose proof (bal_le_sum r a) as Hb.
    assert (ho_bal (holder_of r a) * D <= D * D) by (apply N.mul_le_mono_r; lia). lia.
  - pose proof (acc_le_sum r a) as Ha. unfold acc in Ha.
    assert (rw_prev r * D <= D * D) by (apply N.mul_le_mono_r; lia). lia.
Qed.

Lemma twoD_fits : D + D <= U128MAX.
Proof. apply N.leb_le. vm_compute. reflexivity. Qed.

Theorem inc_succeeds w r self s a amt :
  RCore r -> RBound r -> amt <= LIM -> query_bsei_addr w (rw_hub r) = Some s ->
  reward_execute w r self s (RInc a amt) = Some (inc_state r a amt, []).
Proof.
  intros HC HB Ha Hq. apply rinc_iff. pose proof (rcore_acc_ok r a HC HB) as Hok.
  destruct HB as [Ht Hp]. pose proof HC as (_ & H2 & _). pose proof (bal_le_sum r a) as Hb.
  pose proof twoD_fits. unfold LIM in *. conjs; lia.
Qed.

Theorem dec_succeeds w r self s a amt :
  RCore r -> RBound r -> amt <= ho_bal (holder_of r a) -> query_bsei_addr w (rw_hub r) = Some s ->
  reward_execute w r self s (RDec a amt) = Some (dec_state r a amt, []).
Proof.
  intros HC HB Ha Hq. apply rdec_iff. pose proof (rcore_acc_ok r a HC HB) as Hok.
  pose proof HC as (_ & H2 & _). pose proof (bal_le_sum r a) as Hb. conjs; lia.
Qed.

Lemma unit_iff x : x / D <> 0 <-> D <= x.
Proof.
  pose proof (N.div_small_iff x D D_nz) as H. destruct (N.lt_ge_cases x D) as [Hl|Hg].
  - split; [intros Hn; exfalso; apply Hn; apply H; exact Hl | intros Hg; exfalso; apply (N.lt_irrefl x); eapply N.lt_le_trans; eauto].
  - split; [intros _; exact Hg | intros _ Hz; apply H in Hz; apply (N.lt_irrefl x); eapply N.lt_le_trans; eauto].
Qed.

Lemma whole_le_prev r a : RCore r -> acc r a / D <= rw_prev r.
Proof.
  intros (H1 & _). pose proof (acc_le_sum r a) as Ha.
  apply N.div_le_upper_bound; [exact D_nz|]. lia.
Qed.

(** ClaimRewards: succeeds exactly when at least one whole unit has accrued; pays exactly the
    whole part in one bank message; keeps the fraction; never lacks funds *)
Theorem claim_succeeds_exact w r self s rcp bank :
  RInv r bank -> RBound r -> D <= acc r s ->
  reward_execute w r self s (RClaim rcp)
    = Some (claim_state r s, [MBank (claim_to rcp s) [(rw_denom r, acc r s / D)]]) /\
  1 <= acc r s / D /\ acc r s / D <= rw_prev r /\ rw_prev r <= bank /\
  holder_of (claim_state r s) s = mkHolder (ho_bal (holder_of r s)) (rw_gi r) (acc r s mod D) /\
  acc (claim_state r s) s = acc r s mod D /\
  rw_prev (claim_state r s) = rw_prev r - acc r s / D /\
  rw_gi (claim_state r s) = rw_gi r /\ rw_total (claim_state r s) = rw_total r /\
  (forall b, b <> s -> holder_of (claim_state r s) b = holder_of r b).
Proof.
  intros [HC Hb] HB Hu. pose proof (whole_le_prev r s HC) as Hp.
  apply unit_iff in Hu.
  assert (Hh : holder_of (claim_state r s) s
               = mkHolder (ho_bal (holder_of r s)) (rw_gi r) (acc r s mod D))
    by apply holder_of_upd_same.
  conjs; try (set (k := acc r s / D) in *; clearbody k; lia).
  - apply rclaim_iff. conjs. apply rcore_acc_ok; assumption.
  - unfold acc at 1. rewrite Hh. apply hacc_fresh.
  - intros b Hne. apply holder_of_upd_other. exact Hne.
Qed.

Theorem claim_fails_below_unit w r self s rcp :
  acc r s < D -> reward_execute w r self s (RClaim rcp) = None.
Proof.
  intros Hlt. destruct (reward_execute w r self s (RClaim rcp)) as [[r' out]|] eqn:E; [|reflexivity].
  apply rclaim_iff in E. destruct E as (_ & Hnz & _). apply unit_iff in Hnz. lia.
Qed.

Corollary claim_succeeds_iff w r self s rcp bank :
  RInv r bank -> RBound r ->
  ((exists r' out, reward_execute w r self s (RClaim rcp) = Some (r', out)) <-> D <= acc r s).
Proof.
  intros HI HB. split.
  - intros (r' & out & E). apply rclaim_iff in E. destruct E as (_ & Hnz & _).
    apply unit_iff. exact Hnz.
  - intros Hu. destruct (claim_succeeds_exact w r self s rcp bank HI HB Hu) as [E _]. eauto.
Qed.

Lemma index_step_le r bank : rw_total r <> 0 -> index_step r bank <= (bank - rw_prev r) * D.
Proof.
  intros Ht. unfold index_step. apply N.div_le_upper_bound; [exact Ht|].
  set (x := (bank - rw_prev r) * D). clearbody x. nia.
Qed.

(** UpdateGlobalIndex by the dispatcher: [G] is any bound on the coins already indexed
    ([rw_gi r <= G * D]); with at most 10^18 coins delivered in total the index cannot overflow *)
Theorem update_succeeds w r self s G :
  RCore r -> query_dispatcher_addr w (rw_hub r) = Some s ->
  rw_prev r <= bal (w_env w) self (rw_denom r) ->
  rw_gi r <= G * D -> G + (bal (w_env w) self (rw_denom r) - rw_prev r) <= LIM ->
  reward_execute w r self s RUpdateIndex
    = Some (if rw_total r =? 0 then r else update_state r (bal (w_env w) self (rw_denom r)), []).
Proof.
  intros HC Hq Hp Hg HG. apply rupdate_iff. split; [exact Hq|]. split; [reflexivity|].
  destruct (rw_total r =? 0) eqn:Et.
  - apply N.eqb_eq in Et. left. auto.
  - apply N.eqb_neq in Et. right. set (bank := bal (w_env w) self (rw_denom r)) in *.
    pose proof (index_step_le r bank Et) as Hs. pose proof DD_fits as HD. unfold LIM in HG.
    assert (Hm : (G + (bank - rw_prev r)) * D <= D * D) by (apply N.mul_le_mono_r; exact HG).
    rewrite N.mul_add_distr_r in Hm. conjs; lia.
Qed.

(** ** 7. stranded dust, per handler *)
Definition dust (r : reward) : N := rw_prev r * D - sum_acc r.

(** one index update strands exactly the remainder of the division by the supply: < T atomics,
    i.e. less than one base unit when T <= 10^18 — however many holders there are *)
Theorem update_dust_exact r bank :
  RCore r -> rw_total r <> 0 -> rw_prev r <= bank ->
  dust (update_state r bank) = dust r + ((bank - rw_prev r) * D) mod rw_total r /\
  ((bank - rw_prev r) * D) mod rw_total r < rw_total r.
Proof.
  intros (H1 & H2 & H3 & _) Ht Hp. split; [|apply N.mod_lt; exact Ht].
  unfold dust. rewrite (sum_acc_update r bank H3). rewrite <- H2.
  change (rw_prev (update_state r bank)) with bank.
  pose proof (index_step_mul r bank Ht) as Hm.
  assert (Hb : bank * D = rw_prev r * D + (bank - rw_prev r) * D)
    by (rewrite <- N.mul_add_distr_r; f_equal; lia).
  lia.
Qed.

Theorem claim_dust_exact r a : RCore r -> dust (claim_state r a) = dust r.
Proof.
  intros HC. pose proof (whole_le_prev r a HC) as Hp. destruct HC as (H1 & _).
  unfold dust. change (rw_prev (claim_state r a)) with (rw_prev r - acc r a / D).
  rewrite N.mul_sub_distr_r. pose proof (sum_acc_claim r a) as Hs.
  assert (Hm : acc r a / D * D <= rw_prev r * D) by (apply N.mul_le_mono_r; exact Hp).
  pose proof (acc_le_sum r a). pose proof (div_D_mul_le (acc r a)). lia.
Qed.

Theorem settle_dust_exact r a amt :
  dust (inc_state r a amt) = dust r /\ dust (dec_state r a amt) = dust r.
Proof. unfold dust. rewrite sum_acc_inc, sum_acc_dec. split; reflexivity. Qed.

(** ** 8. ghost accounting over contract-level traces
    The ghosts are not part of the model: they are components of the trace state defined here.
    A contract-level state is (reward state, bank balance of the reward coin, ghosts).  Steps:
    coins arrive (reward delivery or an unsolicited transfer), or any message is executed
    successfully against a world whose bank agrees with [bank]; the payout of a claim leaves the
    bank (this is the [MBank] the handler emits).  Under E4 nothing else moves the reward coin
    (RewardWorld.v proves this for the full executor). *)
Record ghost := mkGhost { g_delivered : N; g_claimed : N; g_updates : N }.
Definition cstate := (reward * N * ghost)%type.

(** 1 for an index update that actually raises the index *)
Definition effective_update (r : reward) (m : reward_msg) : N :=
  match m with RUpdateIndex => if rw_total r =? 0 then 0 else 1 | _ => 0 end.

Inductive cstep : cstate -> cstate -> Prop :=
| CS_deliver r bank g x :
    cstep (r, bank, g) (r, bank + x, mkGhost (g_delivered g + x) (g_claimed g) (g_updates g))
| CS_exec r bank g w self s m r' out :
    bal (w_env w) self (rw_denom r) = bank ->
    reward_execute w r self s m = Some (r', out) ->
    cstep (r, bank, g)
          (r', bank - payout_of r s m,
           mkGhost (g_delivered g) (g_claimed g + payout_of r s m)
                   (g_updates g + effective_update r m)).

(** E1 along a trace: mirrored supply and cumulative delivered reward coins at most 10^18 *)
Definition E1c (c : cstate) : Prop :=
  let '(r, bank, g) := c in rw_total r <= LIM /\ g_delivered g <= LIM.

Inductive creach (c0 : cstate) : cstate -> Prop :=
| CR_init : creach c0 c0
| CR_step c c' : creach c0 c -> E1c c -> cstep c c' -> creach c0 c'.

Definition GInv (c : cstate) : Prop :=
  let '(r, bank, g) := c in
  RInv r bank /\
  bank + g_claimed g = g_delivered g /\
  rw_prev r * D <= sum_acc r + g_updates g * (LIM - 1) /\
  rw_gi r <= (rw_prev r + g_claimed g) * D.

Definition cinit (s hubaddr : addr) (d : denom) (swap : addr) (denoms : list denom) (b0 : N) : cstate :=
  (reward_instantiate s hubaddr d swap denoms, b0, mkGhost b0 0 0).

Lemma ginv_init s hubaddr d swap denoms b0 : GInv (cinit s hubaddr d swap denoms b0).
Proof.
  unfold GInv, cinit. split; [apply rinv_instantiate|].
  cbn [g_delivered g_claimed g_updates reward_instantiate rw_prev rw_gi]. conjs; lia.
Qed.

Lemma ginv_exec r bank g w self s m r' out :
  GInv (r, bank, g) -> rw_total r <= LIM ->
  bal (w_env w) self (rw_denom r) = bank ->
  reward_execute w r self s m = Some (r', out) ->
  GInv (r', bank - payout_of r s m,
        mkGhost (g_delivered g) (g_claimed g + payout_of r s m) (g_updates g + effective_update r m)).
Proof.
  intros (HI & Hbk & Hdust & Hgi) HT Hbank H.
  assert (Hb' : m = RUpdateIndex -> bank = bal (w_env w) self (rw_denom r)) by (intros _; auto).
  destruct (reward_execute_rinv w r self s m r' out bank HI Hb' H) as [Hpay HI'].
  unfold GInv. cbn [g_delivered g_claimed g_updates]. split; [exact HI'|]. split; [lia|].
  destruct HI as [HC Hpb]. pose proof HC as (H1 & H2 & H3 & _).
  destruct m; cbn [payout_of effective_update] in *;
    try (cbn [reward_execute] in H; check_inv H as Hs; inversion H; subst;
         rewrite !N.add_0_r; split; assumption).
  - (* claim *)
    apply rclaim_iff in H. destruct H as (_ & _ & Hp & -> & _).
    change (rw_prev (claim_state r s)) with (rw_prev r - acc r s / D).
    change (rw_gi (claim_state r s)) with (rw_gi r).
    pose proof (sum_acc_claim r s) as Hs. rewrite N.mul_sub_distr_r.
    replace (rw_prev r - acc r s / D + (g_claimed g + acc r s / D)) with (rw_prev r + g_claimed g) by lia.
    rewrite N.add_0_r. split; [lia | exact Hgi].
  - (* swap *)
    cbn [reward_execute] in H. bind_inv H as dp Hdp. check_inv H as Hs. inversion H; subst.
    rewrite !N.add_0_r. split; assumption.
  - (* update *)
    apply rupdate_iff in H. rewrite Hbank in H.
    destruct H as (_ & _ & [[Ht ->] | (Ht & Hp & _ & _ & ->)]).
    + rewrite Ht. change (0 =? 0) with true. cbv iota. rewrite !N.add_0_r. split; assumption.
    + apply N.eqb_neq in Ht. rewrite Ht. apply N.eqb_neq in Ht. rewrite N.add_0_r.
      rewrite (sum_acc_update r bank H3).
      change (rw_prev (update_state r bank)) with bank.
      change (rw_gi (update_state r bank)) with (rw_gi r + index_step r bank).
      pose proof (index_step_mul r bank Ht) as Hm. rewrite <- H2.
      pose proof (N.mod_lt ((bank - rw_prev r) * D) (rw_total r) Ht) as Hlt.
      pose proof (index_step_le r bank Ht) as Hle.
      assert (Hb : bank * D = rw_prev r * D + (bank - rw_prev r) * D)
        by (rewrite <- N.mul_add_distr_r; f_equal; lia).
      rewrite N.mul_add_distr_r, N.mul_1_l.
      rewrite N.mul_add_distr_r in *. split; lia.
  - (* inc *)
    apply rinc_iff in H. destruct H as (_ & _ & _ & _ & -> & _). rewrite sum_acc_inc, !N.add_0_r.
    split; assumption.
  - (* dec *)
    apply rdec_iff in H. destruct H as (_ & _ & _ & _ & -> & _). rewrite sum_acc_dec, !N.add_0_r.
    split; assumption.
Qed.

Lemma cstep_ginv c c' : GInv c -> E1c c -> cstep c c' -> GInv c'.
Proof.
  intros HG HE Hs. destruct Hs as [r bank g x | r bank g w self s m r' out Hbank H].
  - destruct HG as (HI & Hbk & Hdust & Hgi). unfold GInv. cbn [g_delivered g_claimed g_updates].
    split; [apply rinv_bank_increase; exact HI|]. conjs. lia.
  - destruct HE as [HT _]. eapply ginv_exec; eauto.
Qed.

Theorem creach_ginv c0 c : GInv c0 -> creach c0 c -> GInv c.
Proof. intros H0 HR. induction HR as [|c c' HR IH HE Hs]; [exact H0|]. eapply cstep_ginv; eauto. Qed.

(** total claimed never exceeds total delivered; moreover what was claimed plus everything
    still accrued to holders never exceeds what was delivered *)
Theorem claimed_le_delivered c0 r bank g :
  GInv c0 -> creach c0 (r, bank, g) ->
  g_claimed g <= g_delivered g /\
  g_claimed g * D + sum_acc r <= g_delivered g * D /\
  rw_prev r + g_claimed g <= g_delivered g.
Proof.
  intros H0 HR. destruct (creach_ginv _ _ H0 HR) as ([(H1 & _) Hpb] & Hbk & _ & _).
  rewrite <- Hbk. rewrite N.mul_add_distr_r.
  assert (rw_prev r * D <= bank * D) by (apply N.mul_le_mono_r; exact Hpb). conjs; lia.
Qed.

(** nothing is stranded: the recorded balance exceeds the holders' accrued rewards by less than
    one base unit per effective index update (independent of the number of holders), and every
    delivered coin is claimed, accrued to a holder, waiting for the next index update, or dust *)
Theorem stranded_dust c0 r bank g :
  GInv c0 -> creach c0 (r, bank, g) ->
  sum_acc r <= rw_prev r * D /\
  rw_prev r * D - sum_acc r <= g_updates g * (D - 1) /\
  g_delivered g * D <= g_claimed g * D + sum_acc r + (bank - rw_prev r) * D + g_updates g * (D - 1).
Proof.
  intros H0 HR. destruct (creach_ginv _ _ H0 HR) as ([(H1 & _) Hpb] & Hbk & Hd & _).
  unfold LIM in Hd. rewrite <- Hbk. rewrite N.mul_add_distr_r.
  assert (Hb : bank * D = rw_prev r * D + (bank - rw_prev r) * D)
    by (rewrite <- N.mul_add_distr_r; f_equal; lia).
  conjs; lia.
Qed.

(** under E1 the handlers' guards are never hit along a trace *)
Lemma creach_rbound c0 r bank g : GInv c0 -> creach c0 (r, bank, g) -> E1c (r, bank, g) -> RBound r.
Proof.
  intros H0 HR [HT HD]. destruct (creach_ginv _ _ H0 HR) as ([_ Hpb] & Hbk & _ & _).
  split; [exact HT | lia].
Qed.

Theorem creach_update_succeeds c0 r bank g w self s :
  GInv c0 -> creach c0 (r, bank, g) -> E1c (r, bank, g) ->
  bal (w_env w) self (rw_denom r) = bank -> query_dispatcher_addr w (rw_hub r) = Some s ->
  reward_execute w r self s RUpdateIndex
    = Some (if rw_total r =? 0 then r else update_state r bank, []).
Proof.
  intros H0 HR [HT HD] Hbank Hq. destruct (creach_ginv _ _ H0 HR) as ([HC Hpb] & Hbk & _ & Hgi).
  subst bank. apply (update_succeeds w r self s (rw_prev r + g_claimed g)); auto; lia.
Qed.

Theorem creach_claim_succeeds c0 r bank g w self s rcp :
  GInv c0 -> creach c0 (r, bank, g) -> E1c (r, bank, g) -> D <= acc r s ->
  reward_execute w r self s (RClaim rcp)
    = Some (claim_state r s, [MBank (claim_to rcp s) [(rw_denom r, acc r s / D)]]) /\
  acc r s / D <= bank.
Proof.
  intros H0 HR HE Hu. pose proof (creach_rbound _ _ _ _ H0 HR HE) as HB.
  destruct (creach_ginv _ _ H0 HR) as (HI & _).
  destruct (claim_succeeds_exact w r self s rcp bank HI HB Hu) as (E & _ & Hp & Hb & _).
  split; [exact E | lia].
Qed.

Theorem creach_settle_succeeds c0 r bank g w self s a amt :
  GInv c0 -> creach c0 (r, bank, g) -> E1c (r, bank, g) ->
  query_bsei_addr w (rw_hub r) = Some s ->
  (amt <= LIM -> reward_execute w r self s (RInc a amt) = Some (inc_state r a amt, [])) /\
  (amt <= ho_bal (holder_of r a) -> reward_execute w r self s (RDec a amt) = Some (dec_state r a amt, [])).
Proof.
  intros H0 HR HE Hq. pose proof (creach_rbound _ _ _ _ H0 HR HE) as HB.
  destruct (creach_ginv _ _ H0 HR) as ([HC _] & _).
  split; intros Ha; [apply inc_succeeds | apply dec_succeeds]; assumption.
Qed.

(** * PART 2 — C15: accrual is proportional to holdings and independent of other holders *)

(** ** 9. (a) one index update *)
Theorem accrual_step w r self s r' out a :
  reward_execute w r self s RUpdateIndex = Some (r', out) ->
  ho_idx (holder_of r a) <= rw_gi r ->
  holder_of r' a = holder_of r a /\
  (rw_total r = 0 -> r' = r) /\
  (rw_total r <> 0 ->
   rw_gi r' = rw_gi r + index_step r (bal (w_env w) self (rw_denom r)) /\
   acc r' a = acc r a + ho_bal (holder_of r a) * index_step r (bal (w_env w) self (rw_denom r))).
Proof.
  intros H Hi. apply rupdate_iff in H.
  destruct H as (_ & _ & [[Ht ->] | (Ht & _ & _ & _ & ->)]).
  - split; [reflexivity|]. split; [reflexivity|]. intros Hn. contradiction.
  - split; [reflexivity|]. split; [intros H0; contradiction|]. intros _. split; [reflexivity|].
    unfold acc. change (rw_gi (update_state r (bal (w_env w) self (rw_denom r))))
      with (rw_gi r + index_step r (bal (w_env w) self (rw_denom r))).
    change (holder_of (update_state r (bal (w_env w) self (rw_denom r))) a) with (holder_of r a).
    rewrite (hacc_raise _ _ _ Hi). lia.
Qed.

(** the gain [b * floor(c*D/T)] against the ideal share [b*c/T] (in atomics, [b*c*D/T]):
    never more, and short by less than [b] atomics — i.e. by less than [b / 10^18] base units,
    which is below one base unit for every balance in the envelope *)
Theorem accrual_rounding b c T :
  T <> 0 ->
  b * (c * D / T) <= b * (c * D) / T /\ (0 < b -> b * (c * D) / T < b * (c * D / T) + b).
Proof.
  intros Ht. set (x := c * D). pose proof (N.div_mod x T Ht) as Hx.
  pose proof (N.mod_lt x T Ht) as Hr. set (q := x / T) in *. set (rm := x mod T) in *.
  clearbody q rm x. split.
  - apply N.div_le_lower_bound; [exact Ht|]. nia.
  - intros Hb. apply N.div_lt_upper_bound; [exact Ht|]. nia.
Qed.

(** ** 10. (b) settling keeps past rewards with the holder; others are untouched *)
Theorem inc_preserves_acc w r self s a amt r' out :
  reward_execute w r self s (RInc a amt) = Some (r', out) ->
  acc r' a = acc r a /\
  holder_of r' a = mkHolder (ho_bal (holder_of r a) + amt) (rw_gi r) (acc r a) /\
  rw_gi r' = rw_gi r /\ rw_prev r' = rw_prev r /\ rw_total r' = rw_total r + amt /\ out = [] /\
  (forall b, b <> a -> holder_of r' b = holder_of r b).
Proof.
  intros H. apply rinc_iff in H. destruct H as (_ & _ & _ & _ & -> & ->).
  assert (Hh : holder_of (inc_state r a amt) a
               = mkHolder (ho_bal (holder_of r a) + amt) (rw_gi r) (acc r a))
    by apply holder_of_upd_same.
  conjs.
  - unfold acc at 1. rewrite Hh. apply hacc_fresh.
  - intros b Hne. apply holder_of_upd_other. exact Hne.
Qed.

Theorem dec_preserves_acc w r self s a amt r' out :
  reward_execute w r self s (RDec a amt) = Some (r', out) ->
  acc r' a = acc r a /\
  holder_of r' a = mkHolder (ho_bal (holder_of r a) - amt) (rw_gi r) (acc r a) /\
  amt <= ho_bal (holder_of r a) /\
  rw_gi r' = rw_gi r /\ rw_prev r' = rw_prev r /\ rw_total r' = rw_total r - amt /\ out = [] /\
  (forall b, b <> a -> holder_of r' b = holder_of r b).
Proof.
  intros H. apply rdec_iff in H. destruct H as (_ & _ & Hle & _ & -> & ->).
  assert (Hh : holder_of (dec_state r a amt) a
               = mkHolder (ho_bal (holder_of r a) - amt) (rw_gi r) (acc r a))
    by apply holder_of_upd_same.
  conjs.
  - unfold acc at 1. rewrite Hh. apply hacc_fresh.
  - intros b Hne. apply holder_of_upd_other. exact Hne.
Qed.

(** the holder a message is about *)
Definition target_of (s : addr) (m : reward_msg) : option addr :=
  match m with RInc a _ | RDec a _ => Some a | RClaim _ => Some s | _ => None end.

(** no message touches the record of a holder it is not about; only an index update moves the
    global index; hence nobody's accrued reward changes through somebody else's operation *)
Theorem other_holder_untouched w r self s m r' out b :
  reward_execute w r self s m = Some (r', out) -> target_of s m <> Some b ->
  holder_of r' b = holder_of r b /\ (m <> RUpdateIndex -> rw_gi r' = rw_gi r /\ acc r' b = acc r b).
Proof.
  intros H Hne.
  assert (Hgoal : holder_of r' b = holder_of r b /\ (m <> RUpdateIndex -> rw_gi r' = rw_gi r)).
  { destruct m; cbn [target_of] in Hne;
      try (cbn [reward_execute] in H; check_inv H as Hs; inversion H; subst; split; reflexivity).
    - apply rclaim_iff in H. destruct H as (_ & _ & _ & -> & _).
      split; [apply holder_of_upd_other; congruence | reflexivity].
    - cbn [reward_execute] in H. bind_inv H as dp Hdp. check_inv H as Hs. inversion H; subst.
      split; reflexivity.
    - apply rupdate_iff in H. destruct H as (_ & _ & [[_ ->] | (_ & _ & _ & _ & ->)]);
        (split; [reflexivity | intros Hn; contradiction]).
    - apply rinc_iff in H. destruct H as (_ & _ & _ & _ & -> & _).
      split; [apply holder_of_upd_other; congruence | reflexivity].
    - apply rdec_iff in H. destruct H as (_ & _ & _ & _ & -> & _).
      split; [apply holder_of_upd_other; congruence | reflexivity]. }
  destruct Hgoal as [Hh Hg]. split; [exact Hh|]. intros Hn. split; [auto|].
  unfold acc. rewrite Hh, (Hg Hn). reflexivity.
Qed.

(** tokens acquired after an index update earn nothing from it: the accrual over
    "update, then increase by [amt]" is that of the balance held before, whatever [amt] is *)
Theorem late_tokens_earn_nothing w r self s r1 o1 w' s' a amt r2 o2 :
  reward_execute w r self s RUpdateIndex = Some (r1, o1) -> rw_total r <> 0 ->
  ho_idx (holder_of r a) <= rw_gi r ->
  reward_execute w' r1 self s' (RInc a amt) = Some (r2, o2) ->
  acc r2 a = acc r a + ho_bal (holder_of r a) * index_step r (bal (w_env w) self (rw_denom r)) /\
  ho_bal (holder_of r2 a) = ho_bal (holder_of r a) + amt.
Proof.
  intros H1 Ht Hi H2. destruct (accrual_step _ _ _ _ _ _ a H1 Hi) as (Hh & _ & Hs).
  destruct (Hs Ht) as [_ Ha]. destruct (inc_preserves_acc _ _ _ _ _ _ _ _ H2) as (Hacc & Hh2 & _).
  rewrite Hacc, Ha. split; [reflexivity|]. rewrite Hh2. cbn [ho_bal]. rewrite Hh. reflexivity.
Qed.

(** ** 11. (c) operations on distinct holders commute *)
Definition holder_op (m : reward_msg) : bool :=
  match m with RInc _ _ | RDec _ _ | RClaim _ => true | _ => false end.
Definition target (s : addr) (m : reward_msg) : addr :=
  match m with RInc a _ | RDec a _ => a | _ => s end.
Definition inc_amt (m : reward_msg) : N := match m with RInc _ x => x | _ => 0 end.

(** equality of reward states up to the order of the holder association list *)
Definition req (r1 r2 : reward) : Prop :=
  rw_owner r1 = rw_owner r2 /\ rw_hub r1 = rw_hub r2 /\ rw_denom r1 = rw_denom r2 /\
  rw_swap r1 = rw_swap r2 /\ rw_denoms r1 = rw_denoms r2 /\ rw_newowner r1 = rw_newowner r2 /\
  rw_gi r1 = rw_gi r2 /\ rw_total r1 = rw_total r2 /\ rw_prev r1 = rw_prev r2 /\
  forall a, holder_of r1 a = holder_of r2 a.

(** uniform description of the three per-holder handlers *)
Definition hop_auth (w : world) (hubaddr s : addr) (m : reward_msg) : Prop :=
  match m with RInc _ _ | RDec _ _ => query_bsei_addr w hubaddr = Some s | _ => True end.
Definition hop_local (gi : N) (h : holder) (m : reward_msg) : Prop :=
  acc_ok gi h /\
  match m with
  | RInc _ amt => ho_bal h + amt <= U128MAX
  | RDec _ amt => amt <= ho_bal h
  | _ => hacc gi h / D <> 0
  end.
Definition hop_glob (t p gi : N) (h : holder) (m : reward_msg) : Prop :=
  match m with
  | RInc _ amt => t + amt <= U128MAX
  | RDec _ amt => amt <= t
  | _ => hacc gi h / D <= p
  end.
Definition hop_h (gi : N) (h : holder) (m : reward_msg) : holder :=
  match m with
  | RInc _ amt => mkHolder (ho_bal h + amt) gi (hacc gi h)
  | RDec _ amt => mkHolder (ho_bal h - amt) gi (hacc gi h)
  | _ => mkHolder (ho_bal h) gi (hacc gi h mod D)
  end.
Definition hop_T (t : N) (m : reward_msg) : N :=
  match m with RInc _ amt => t + amt | RDec _ amt => t - amt | _ => t end.
Definition hop_P (p gi : N) (h : holder) (m : reward_msg) : N :=
  match m with RClaim _ => p - hacc gi h / D | _ => p end.
Definition hop_out (den : denom) (s : addr) (gi : N) (h : holder) (m : reward_msg) : list cmsg :=
  match m with RClaim rcp => [MBank (claim_to rcp s) [(den, hacc gi h / D)]] | _ => [] end.

Lemma hop_iff w r self s m r' out :
  holder_op m = true ->
  (reward_execute w r self s m = Some (r', out) <->
   hop_auth w (rw_hub r) s m /\
   hop_local (rw_gi r) (holder_of r (target s m)) m /\
   hop_glob (rw_total r) (rw_prev r) (rw_gi r) (holder_of r (target s m)) m /\
   r' = upd r (target s m) (hop_h (rw_gi r) (holder_of r (target s m)) m)
            (hop_T (rw_total r) m) (hop_P (rw_prev r) (rw_gi r) (holder_of r (target s m)) m) /\
   out = hop_out (rw_denom r) s (rw_gi r) (holder_of r (target s m)) m).
Proof.
  intros Hop. destruct m; try discriminate Hop;
    cbn [target hop_auth hop_local hop_glob hop_h hop_T hop_P hop_out].
  - rewrite rclaim_iff. unfold claim_state, acc, hop_local. tauto.
  - rewrite rinc_iff. unfold inc_state, acc, hop_local. tauto.
  - rewrite rdec_iff. unfold dec_state, acc, hop_local. tauto.
Qed.

Lemma upd_upd_req r a b ha hb t1 p1 t2 p2 t p :
  a <> b -> req (upd (upd r a ha t1 p1) b hb t p) (upd (upd r b hb t2 p2) a ha t p).
Proof.
  intros Hne. unfold req. conjs. intros c.
  destruct (N.eq_dec c b) as [->|Hcb].
  - rewrite holder_of_upd_same. rewrite holder_of_upd_other by congruence.
    rewrite holder_of_upd_same. reflexivity.
  - rewrite (holder_of_upd_other _ b c) by exact Hcb.
    destruct (N.eq_dec c a) as [->|Hca].
    + rewrite !holder_of_upd_same. reflexivity.
    + rewrite !holder_of_upd_other by assumption. reflexivity.
Qed.

Lemma req_eq_scalars r1 r2 t p t' p' :
  req r1 r2 -> t = t' -> p = p' ->
  req (set_rw_state r1 (rw_gi r1) t p) (set_rw_state r2 (rw_gi r2) t' p').
Proof.
  intros (H1 & H2 & H3 & H4 & H5 & H6 & H7 & H8 & H9 & H10) -> ->. unfold req.
  cbn [set_rw_state rw_owner rw_hub rw_denom rw_swap rw_denoms rw_newowner rw_gi rw_total rw_prev].
  conjs.
Qed.

(** Two successful per-holder operations (increase, decrease, claim) about distinct holders give,
    in the other order, the same outcomes (success, emitted messages) and the same state.
    The side condition excludes only a 128-bit overflow of the mirrored supply in the swapped
    order; it follows from E1 (supply and amounts at most 10^18). *)
Theorem ops_commute wa wb r self s1 m1 s2 m2 r1 o1 r12 o2 :
  RCore r -> holder_op m1 = true -> holder_op m2 = true -> target s1 m1 <> target s2 m2 ->
  rw_total r + inc_amt m1 + inc_amt m2 <= U128MAX ->
  reward_execute wa r self s1 m1 = Some (r1, o1) ->
  reward_execute wb r1 self s2 m2 = Some (r12, o2) ->
  exists r2 r21,
    reward_execute wb r self s2 m2 = Some (r2, o2) /\
    reward_execute wa r2 self s1 m1 = Some (r21, o1) /\ req r12 r21.
Proof.
  intros HC Hop1 Hop2 Hne Hov H1 H2.
  apply (hop_iff _ _ _ _ _ _ _ Hop1) in H1. destruct H1 as (A1 & L1 & G1 & -> & ->).
  apply (hop_iff _ _ _ _ _ _ _ Hop2) in H2. destruct H2 as (A2 & L2 & G2 & -> & ->).
  set (a := target s1 m1) in *. set (b := target s2 m2) in *.
  rewrite (holder_of_upd_other r a b) in * by congruence.
  change (rw_gi (upd r a ?h ?t ?p)) with (rw_gi r) in *.
  change (rw_hub (upd r a ?h ?t ?p)) with (rw_hub r) in *.
  change (rw_denom (upd r a ?h ?t ?p)) with (rw_denom r) in *.
  change (rw_total (upd r a ?h ?t ?p)) with t in *.
  change (rw_prev (upd r a ?h ?t ?p)) with p in *.
  set (gi := rw_gi r) in *. set (ha := holder_of r a) in *. set (hb := holder_of r b) in *.
  pose proof HC as (_ & HT & _). pose proof (bal_le_sum r a) as Ba. pose proof (bal_le_sum r b) as Bb.
  fold ha in Ba. fold hb in Bb. rewrite <- HT in Ba, Bb.
  set (T := rw_total r) in *. set (P := rw_prev r) in *.
  (* the guards in the swapped order, and the equal final scalars *)
  assert (G2' : hop_glob T P gi hb m2 /\ hop_glob (hop_T T m2) (hop_P P gi hb m2) gi ha m1 /\
                hop_T (hop_T T m1) m2 = hop_T (hop_T T m2) m1 /\
                hop_P (hop_P P gi ha m1) gi hb m2 = hop_P (hop_P P gi hb m2) gi ha m1).
  { destruct L1 as [_ L1]. destruct L2 as [_ L2].
    clear A1 A2 HC HT. clearbody T P.
    destruct m1; try discriminate Hop1; destruct m2; try discriminate Hop2;
      cbn [hop_glob hop_T hop_P inc_amt] in *;
      set (k1 := hacc gi ha / D) in *; set (k2 := hacc gi hb / D) in *; clearbody k1 k2; lia. }
  destruct G2' as (G2a & G1b & ET & EP).
  exists (upd r b (hop_h gi hb m2) (hop_T T m2) (hop_P P gi hb m2)).
  exists (upd (upd r b (hop_h gi hb m2) (hop_T T m2) (hop_P P gi hb m2)) a (hop_h gi ha m1)
              (hop_T (hop_T T m2) m1) (hop_P (hop_P P gi hb m2) gi ha m1)).
  split; [|split].
  - apply (hop_iff _ _ _ _ _ _ _ Hop2). fold b. fold hb. conjs.
  - apply (hop_iff _ _ _ _ _ _ _ Hop1). fold a.
    rewrite (holder_of_upd_other r b a) by congruence. fold ha.
    change (rw_gi (upd r b ?h ?t ?p)) with (rw_gi r).
    change (rw_hub (upd r b ?h ?t ?p)) with (rw_hub r).
    change (rw_denom (upd r b ?h ?t ?p)) with (rw_denom r).
    change (rw_total (upd r b ?h ?t ?p)) with t.
    change (rw_prev (upd r b ?h ?t ?p)) with p.
    fold gi. conjs.
  - rewrite ET, EP. apply upd_upd_req. exact Hne.
Qed.

(** two distinct holders together stay below the sums *)
Lemma two_getf_le (f : holder -> N) (m : fmap addr holder) a b :
  a <> b -> getf eqbA f m a + getf eqbA f m b <= msum f m.
Proof.
  intros Hne. pose proof (msum_del eqbA f m a) as Hd.
  pose proof (getf_le_msum eqbA f (del eqbA m a) b) as Hb.
  assert (Hg : getf eqbA f (del eqbA m a) b = getf eqbA f m b).
  { unfold getf. rewrite (get_del_other eqbA rw_eqbA_eq) by congruence. reflexivity. }
  lia.
Qed.

Lemma two_acc_le r a b : a <> b -> acc r a + acc r b <= sum_acc r.
Proof.
  intros Hne. unfold acc, sum_acc, holder_of. rewrite <- !getf_hacc. apply two_getf_le. exact Hne.
Qed.

Lemma two_bal_le r a b : a <> b -> ho_bal (holder_of r a) + ho_bal (holder_of r b) <= sum_bal r.
Proof.
  intros Hne. unfold sum_bal, holder_of. rewrite <- !getf_bal. apply two_getf_le. exact Hne.
Qed.

Lemma two_whole_le r a b : RCore r -> a <> b -> acc r a / D + acc r b / D <= rw_prev r.
Proof.
  intros (H1 & _) Hne. pose proof (two_acc_le r a b Hne) as Hs.
  pose proof (div_D_mul_le (acc r a)) as Ha. pose proof (div_D_mul_le (acc r b)) as Hb.
  apply (N.mul_le_mono_pos_r _ _ D D_pos). rewrite N.mul_add_distr_r. lia.
Qed.

(** Whether a per-holder operation succeeds, and what it emits (the claim payout), does not
    depend on a preceding operation about a different holder — including failures. *)
Theorem op_outcome_independent wa wb r self s1 m1 s2 m2 r2 o2 :
  RCore r -> holder_op m1 = true -> holder_op m2 = true -> target s1 m1 <> target s2 m2 ->
  rw_total r + inc_amt m1 + inc_amt m2 <= U128MAX ->
  reward_execute wb r self s2 m2 = Some (r2, o2) ->
  option_map snd (reward_execute wa r2 self s1 m1) = option_map snd (reward_execute wa r self s1 m1).
Proof.
  intros HC Hop1 Hop2 Hne Hov H2.
  apply (hop_iff _ _ _ _ _ _ _ Hop2) in H2. destruct H2 as (A2 & L2 & G2 & -> & ->).
  set (a := target s1 m1) in *. set (b := target s2 m2) in *.
  pose proof HC as (_ & HT & _). pose proof (two_bal_le r a b Hne) as Bab. rewrite <- HT in Bab.
  pose proof (two_whole_le r a b HC Hne) as Kab. unfold acc in Kab.
  set (gi := rw_gi r) in *. set (ha := holder_of r a) in *. set (hb := holder_of r b) in *.
  set (T := rw_total r) in *. set (P := rw_prev r) in *.
  assert (Hglob : hop_local gi ha m1 ->
                  (hop_glob T P gi ha m1 <-> hop_glob (hop_T T m2) (hop_P P gi hb m2) gi ha m1)).
  { intros [_ L1]. destruct L2 as [_ L2]. clear A2 HC HT. clearbody T P.
    destruct m1; try discriminate Hop1; destruct m2; try discriminate Hop2;
      cbn [hop_glob hop_T hop_P inc_amt] in *;
      set (k1 := hacc gi ha / D) in *; set (k2 := hacc gi hb / D) in *; clearbody k1 k2; lia. }
  set (r2 := upd r b (hop_h gi hb m2) (hop_T T m2) (hop_P P gi hb m2)).
  assert (Hiff : forall r' out, reward_execute wa r2 self s1 m1 = Some (r', out) ->
                   exists r'', reward_execute wa r self s1 m1 = Some (r'', out)).
  { intros r' out E. apply (hop_iff _ _ _ _ _ _ _ Hop1) in E. fold a in E.
    unfold r2 in E. rewrite (holder_of_upd_other r b a) in E by congruence. fold ha in E.
    change (rw_gi (upd r b ?h ?t ?p)) with gi in E. change (rw_hub (upd r b ?h ?t ?p)) with (rw_hub r) in E.
    change (rw_denom (upd r b ?h ?t ?p)) with (rw_denom r) in E.
    change (rw_total (upd r b ?h ?t ?p)) with t in E. change (rw_prev (upd r b ?h ?t ?p)) with p in E.
    destruct E as (A1 & L1 & G1 & _ & ->). eexists. apply (hop_iff _ _ _ _ _ _ _ Hop1).
    fold a ha gi T P. conjs. apply (Hglob L1). exact G1. }
  assert (Hiff' : forall r' out, reward_execute wa r self s1 m1 = Some (r', out) ->
                   exists r'', reward_execute wa r2 self s1 m1 = Some (r'', out)).
  { intros r' out E. apply (hop_iff _ _ _ _ _ _ _ Hop1) in E. fold a ha gi T P in E.
    destruct E as (A1 & L1 & G1 & _ & ->). eexists. apply (hop_iff _ _ _ _ _ _ _ Hop1). fold a.
    unfold r2. rewrite (holder_of_upd_other r b a) by congruence. fold ha.
    change (rw_gi (upd r b ?h ?t ?p)) with gi. change (rw_hub (upd r b ?h ?t ?p)) with (rw_hub r).
    change (rw_denom (upd r b ?h ?t ?p)) with (rw_denom r).
    change (rw_total (upd r b ?h ?t ?p)) with t. change (rw_prev (upd r b ?h ?t ?p)) with p.
    conjs. apply (Hglob L1). exact G1. }
  destruct (reward_execute wa r2 self s1 m1) as [[r21 o1']|] eqn:E2;
    destruct (reward_execute wa r self s1 m1) as [[r1 o1]|] eqn:E1; cbn [option_map snd].
  - destruct (Hiff _ _ eq_refl) as [r'' E]. inversion E; subst. reflexivity.
  - destruct (Hiff _ _ eq_refl) as [r'' E]. discriminate E.
  - destruct (Hiff' _ _ eq_refl) as [r'' E]. discriminate E.
  - reflexivity.
Qed.

(** ** 12. (d) accrual is linear in the balance: one account or several *)
Definition split_rel (h h1 h2 : holder) : Prop :=
  ho_idx h1 = ho_idx h /\ ho_idx h2 = ho_idx h /\
  ho_bal h = ho_bal h1 + ho_bal h2 /\ ho_pend h = ho_pend h1 + ho_pend h2.

(** at every value of the global index (i.e. after any sequence of index updates) the accrued
    reward of the combined position equals the sum of the parts, in atomics *)
Theorem hacc_linear gi h h1 h2 : split_rel h h1 h2 -> hacc gi h = hacc gi h1 + hacc gi h2.
Proof. intros (E1 & E2 & Eb & Ep). unfold hacc. rewrite E1, E2, Eb, Ep. lia. Qed.

(** settling all three positions at the same index keeps them in the relation *)
Theorem split_rel_inc gi h h1 h2 x1 x2 :
  split_rel h h1 h2 ->
  split_rel (mkHolder (ho_bal h + (x1 + x2)) gi (hacc gi h))
            (mkHolder (ho_bal h1 + x1) gi (hacc gi h1)) (mkHolder (ho_bal h2 + x2) gi (hacc gi h2)).
Proof.
  intros HS. pose proof (hacc_linear gi _ _ _ HS) as HL. destruct HS as (E1 & E2 & Eb & Ep).
  unfold split_rel. cbn [ho_idx ho_bal ho_pend]. conjs; lia.
Qed.

Theorem split_rel_dec gi h h1 h2 x1 x2 :
  split_rel h h1 h2 -> x1 <= ho_bal h1 -> x2 <= ho_bal h2 ->
  split_rel (mkHolder (ho_bal h - (x1 + x2)) gi (hacc gi h))
            (mkHolder (ho_bal h1 - x1) gi (hacc gi h1)) (mkHolder (ho_bal h2 - x2) gi (hacc gi h2)).
Proof.
  intros HS L1 L2. pose proof (hacc_linear gi _ _ _ HS) as HL. destruct HS as (E1 & E2 & Eb & Ep).
  unfold split_rel. cbn [ho_idx ho_bal ho_pend]. conjs; lia.
Qed.

(** whole-unit payouts of the split position: together at most one base unit less than the
    combined position's, never more; payout plus kept fraction agree exactly *)
Theorem split_payout x1 x2 :
  x1 / D + x2 / D <= (x1 + x2) / D /\ (x1 + x2) / D <= x1 / D + x2 / D + 1 /\
  (x1 + x2) / D * D + (x1 + x2) mod D = (x1 / D + x2 / D) * D + (x1 mod D + x2 mod D).
Proof.
  pose proof (div_D_decomp x1) as H1. pose proof (div_D_decomp x2) as H2.
  pose proof (div_D_decomp (x1 + x2)) as H12.
  pose proof (N.mod_lt x1 D D_nz) as L1. pose proof (N.mod_lt x2 D D_nz) as L2.
  pose proof (N.mod_lt (x1 + x2) D D_nz) as L12.
  set (q1 := x1 / D) in *. set (q2 := x2 / D) in *. set (q := (x1 + x2) / D) in *.
  set (m1 := x1 mod D) in *. set (m2 := x2 mod D) in *. set (m := (x1 + x2) mod D) in *.
  clearbody q1 q2 q m1 m2 m. pose proof D_pos as HD. set (d := D) in *. clearbody d.
  split; [nia|]. split; [nia|]. nia.
Qed.

(** two executions: in [r] a position is held in the single account [a]; in [r'] the same
    position is split over [a1] and [a2]; everything else is equal *)
Definition SplitSim (r r' : reward) (a a1 a2 : addr) : Prop :=
  rw_gi r = rw_gi r' /\ rw_total r = rw_total r' /\ rw_prev r = rw_prev r' /\
  rw_denom r = rw_denom r' /\ rw_hub r = rw_hub r' /\
  split_rel (holder_of r a) (holder_of r' a1) (holder_of r' a2) /\
  (forall b, b <> a -> b <> a1 -> b <> a2 -> holder_of r b = holder_of r' b).

Theorem split_sim_acc r r' a a1 a2 : SplitSim r r' a a1 a2 -> acc r a = acc r' a1 + acc r' a2.
Proof. intros (Eg & _ & _ & _ & _ & HS & _). unfold acc. rewrite <- Eg. apply hacc_linear. exact HS. Qed.

(** an index update executed in both worlds keeps the relation (and succeeds in both or neither) *)
Theorem split_sim_update w self s r r' a a1 a2 r1 o :
  SplitSim r r' a a1 a2 -> reward_execute w r self s RUpdateIndex = Some (r1, o) ->
  exists r1', reward_execute w r' self s RUpdateIndex = Some (r1', o) /\ SplitSim r1 r1' a a1 a2.
Proof.
  intros (Eg & Et & Ep & Ed & Eh & HS & Ho) H. apply rupdate_iff in H.
  unfold index_step, update_state, index_step in H. rewrite Eg, Et, Ep, Ed, Eh in H.
  destruct H as (Hq & -> & [[Ht ->] | (Ht & Hp & Hs & Hg & ->)]).
  - exists r'. split; [apply rupdate_iff; auto|]. unfold SplitSim. conjs.
  - exists (update_state r' (bal (w_env w) self (rw_denom r'))). split.
    + apply rupdate_iff. split; [exact Hq|]. split; [reflexivity|]. right. unfold index_step. conjs.
    + unfold SplitSim, update_state, index_step.
      cbn [set_rw_state rw_gi rw_total rw_prev rw_denom rw_hub]. conjs.
Qed.

(** increasing the single account by [x1 + x2] against increasing the two parts by [x1], [x2] *)
Theorem split_sim_inc w self s r r' a a1 a2 x1 x2 r1 o r1' o1 r2' o2 :
  a1 <> a2 -> SplitSim r r' a a1 a2 ->
  reward_execute w r self s (RInc a (x1 + x2)) = Some (r1, o) ->
  reward_execute w r' self s (RInc a1 x1) = Some (r1', o1) ->
  reward_execute w r1' self s (RInc a2 x2) = Some (r2', o2) ->
  SplitSim r1 r2' a a1 a2.
Proof.
  intros Hne (Eg & Et & Ep & Ed & Eh & HS & Ho) H H1 H2.
  destruct (inc_preserves_acc _ _ _ _ _ _ _ _ H) as (_ & Ha & G & P & T & _ & Oth).
  destruct (inc_preserves_acc _ _ _ _ _ _ _ _ H1) as (_ & Ha1 & G1 & P1 & T1 & _ & Oth1).
  destruct (inc_preserves_acc _ _ _ _ _ _ _ _ H2) as (_ & Ha2 & G2 & P2 & T2 & _ & Oth2).
  apply rinc_iff in H1. destruct H1 as (_ & _ & _ & _ & E1' & _).
  apply rinc_iff in H2. destruct H2 as (_ & _ & _ & _ & E2' & _).
  assert (Hd : rw_denom r2' = rw_denom r' /\ rw_hub r2' = rw_hub r') by (subst r2' r1'; split; reflexivity).
  apply rinc_iff in H. destruct H as (_ & _ & _ & _ & E' & _).
  assert (Hd0 : rw_denom r1 = rw_denom r /\ rw_hub r1 = rw_hub r) by (subst r1; split; reflexivity).
  destruct Hd as [Hd Hh]. destruct Hd0 as [Hd0 Hh0].
  unfold SplitSim. rewrite G, G2, G1, T, T2, T1, P, P2, P1, Hd, Hh, Hd0, Hh0.
  split; [exact Eg|]. split; [lia|]. split; [exact Ep|]. split; [exact Ed|]. split; [exact Eh|]. split.
  - rewrite Ha, Ha2, (Oth2 a1 Hne), Ha1, (Oth1 a2 (not_eq_sym Hne)).
    unfold acc. rewrite G1, (Oth1 a2 (not_eq_sym Hne)), <- Eg. apply split_rel_inc. exact HS.
  - intros b Hb Hb1 Hb2. rewrite (Oth b Hb), (Oth2 b Hb2), (Oth1 b Hb1). apply Ho; assumption.
Qed.

Theorem split_sim_dec w self s r r' a a1 a2 x1 x2 r1 o r1' o1 r2' o2 :
  a1 <> a2 -> SplitSim r r' a a1 a2 ->
  reward_execute w r self s (RDec a (x1 + x2)) = Some (r1, o) ->
  reward_execute w r' self s (RDec a1 x1) = Some (r1', o1) ->
  reward_execute w r1' self s (RDec a2 x2) = Some (r2', o2) ->
  SplitSim r1 r2' a a1 a2.
Proof.
  intros Hne (Eg & Et & Ep & Ed & Eh & HS & Ho) H H1 H2.
  destruct (dec_preserves_acc _ _ _ _ _ _ _ _ H) as (_ & Ha & L & G & P & T & _ & Oth).
  destruct (dec_preserves_acc _ _ _ _ _ _ _ _ H1) as (_ & Ha1 & L1 & G1 & P1 & T1 & _ & Oth1).
  destruct (dec_preserves_acc _ _ _ _ _ _ _ _ H2) as (_ & Ha2 & L2 & G2 & P2 & T2 & _ & Oth2).
  apply rdec_iff in H1. destruct H1 as (_ & _ & _ & Lt1 & E1' & _).
  apply rdec_iff in H2. destruct H2 as (_ & _ & _ & Lt2 & E2' & _).
  assert (Hd : rw_denom r2' = rw_denom r' /\ rw_hub r2' = rw_hub r') by (subst r2' r1'; split; reflexivity).
  apply rdec_iff in H. destruct H as (_ & _ & _ & Lt & E' & _).
  assert (Hd0 : rw_denom r1 = rw_denom r /\ rw_hub r1 = rw_hub r) by (subst r1; split; reflexivity).
  destruct Hd as [Hd Hh]. destruct Hd0 as [Hd0 Hh0].
  rewrite (Oth1 a2 (not_eq_sym Hne)) in L2. rewrite T1 in Lt2.
  unfold SplitSim. rewrite G, G2, G1, T, T2, T1, P, P2, P1, Hd, Hh, Hd0, Hh0.
  split; [exact Eg|]. split; [lia|]. split; [exact Ep|]. split; [exact Ed|]. split; [exact Eh|]. split.
  - rewrite Ha, Ha2, (Oth2 a1 Hne), Ha1, (Oth1 a2 (not_eq_sym Hne)).
    unfold acc. rewrite G1, (Oth1 a2 (not_eq_sym Hne)), <- Eg. apply split_rel_dec; assumption.
  - intros b Hb Hb1 Hb2. rewrite (Oth b Hb), (Oth2 b Hb2), (Oth1 b Hb1). apply Ho; assumption.
Qed.

(** any per-holder operation about a third party behaves identically in both worlds *)
Theorem split_sim_other w self s m r r' a a1 a2 r1 o :
  holder_op m = true -> target s m <> a -> target s m <> a1 -> target s m <> a2 ->
  SplitSim r r' a a1 a2 -> reward_execute w r self s m = Some (r1, o) ->
  exists r1', reward_execute w r' self s m = Some (r1', o) /\ SplitSim r1 r1' a a1 a2.
Proof.
  intros Hop Na N1 N2 (Eg & Et & Ep & Ed & Eh & HS & Ho) H.
  apply (hop_iff _ _ _ _ _ _ _ Hop) in H. set (b := target s m) in *.
  rewrite (Ho b Na N1 N2), Eg, Et, Ep, Ed, Eh in H.
  destruct H as (A & L & G & E & ->). eexists. split.
  - apply (hop_iff _ _ _ _ _ _ _ Hop). fold b. conjs.
  - rewrite E. unfold SplitSim.
    change (rw_gi (upd ?x b ?h ?t ?p)) with (rw_gi x). change (rw_total (upd ?x b ?h ?t ?p)) with t.
    change (rw_prev (upd ?x b ?h ?t ?p)) with p. change (rw_denom (upd ?x b ?h ?t ?p)) with (rw_denom x).
    change (rw_hub (upd ?x b ?h ?t ?p)) with (rw_hub x).
    rewrite !(holder_of_upd_other _ b) by congruence. conjs.
    intros c Hc Hc1 Hc2. destruct (N.eq_dec c b) as [->|Hcb].
    + rewrite !holder_of_upd_same. reflexivity.
    + rewrite !(holder_of_upd_other _ b c) by exact Hcb. apply Ho; assumption.
Qed.

(** ** 13. the sums are the sums over any set of distinct holder addresses *)
Lemma sum_list_le (f : holder -> N) (l : list addr) : forall (m : fmap addr holder),
  NoDup l -> sumN (map (getf eqbA f m) l) <= msum f m.
Proof.
  induction l as [|a l IH]; intros m HN; cbn [map sumN]; [lia|].
  inversion HN as [|x l' Hnin Hl]; subst.
  assert (Hext : map (getf eqbA f m) l = map (getf eqbA f (del eqbA m a)) l).
  { apply map_ext_in. intros b Hb. unfold getf.
    rewrite (get_del_other eqbA rw_eqbA_eq) by (intros ->; contradiction). reflexivity. }
  rewrite Hext. pose proof (IH (del eqbA m a) Hl). pose proof (msum_del eqbA f m a). lia.
Qed.

(** for every list of distinct addresses, the accrued rewards add up to at most [sum_acc] *)
Theorem holders_sum_le r l : NoDup l -> sumN (map (acc r) l) <= sum_acc r.
Proof.
  intros HN. pose proof (sum_list_le (hacc (rw_gi r)) l (rw_holders r) HN) as H.
  assert (Hext : map (acc r) l = map (getf eqbA (hacc (rw_gi r)) (rw_holders r)) l).
  { apply map_ext. intros a. unfold acc, holder_of. rewrite getf_hacc. reflexivity. }
  rewrite Hext. exact H.
Qed.

Lemma whole_sum_le (f : addr -> N) l : sumN (map (fun a => f a / D) l) * D <= sumN (map f l).
Proof.
  induction l as [|a l IH]; cbn [map sumN]; [lia|].
  rewrite N.mul_add_distr_r. pose proof (div_D_mul_le (f a)). lia.
Qed.

(** the whole-unit amounts claimable by any set of distinct holders never exceed the recorded
    reward balance *)
Theorem claimable_sum_le r l :
  RCore r -> NoDup l -> sumN (map (fun a => acc r a / D) l) <= rw_prev r.
Proof.
  intros (H1 & _) HN. pose proof (holders_sum_le r l HN) as Hs.
  pose proof (whole_sum_le (acc r) l) as Hw.
  apply (N.mul_le_mono_pos_r _ _ D D_pos). lia.
Qed.

(** * PART 3 — non-vacuity: concrete states satisfying the hypotheses used above *)
Definition hub_ex : hub :=
  mkHub (mkHubConfig 10 10 (Some A_disp) (Some A_reg) (Some A_bsei) (Some A_stsei) None (Some A_reward))
        (mkHubState D D 0 0 0 0 0 0) (mkHubParams 30 usei 100 0 0 uusd (Some false))
        (mkBatch 1 0 0) 10 [] [] [].
(** a world whose reward contract holds [b] uusd *)
Definition w_ex (b : N) : world :=
  mkWorld (Some hub_ex) None None None None None (credit (empty_env 100) A_reward uusd b).

(** two holders (3 and 4 bSei), 10 coins delivered and indexed: index = floor(10e18 / 7) *)
Definition r_ex : reward :=
  mkReward 10 A_hub uusd A_swap [uatom] 1428571428571428571 7 10
           [(20, mkHolder 3 0 0); (21, mkHolder 4 0 0)] 10.

Ltac le_compute := vm_compute; let X := fresh "X" in intro X; discriminate X.

Example rinv_nonvacuous :
  RInv r_ex 10 /\ RBound r_ex /\ D <= acc r_ex 20 /\ acc r_ex 20 / D = 4 /\
  acc r_ex 20 mod D = 285714285714285713 /\ dust r_ex = 3.
Proof.
  split; [split; [unfold RCore; split; [le_compute|]; split; [reflexivity|]; split|le_compute]|].
  - repeat constructor; le_compute.
  - repeat constructor; cbn; intuition discriminate.
  - split; [split; le_compute|]. split; [le_compute|]. split; [reflexivity|]. split; reflexivity.
Qed.

(** the claim of holder 20 in that state: 4 whole coins, fraction kept *)
Example claim_nonvacuous :
  reward_execute (w_ex 10) r_ex A_reward 20 (RClaim None)
  = Some (claim_state r_ex 20, [MBank 20 [(uusd, 4)]]) /\
  holder_of (claim_state r_ex 20) 20 = mkHolder 3 1428571428571428571 285714285714285713 /\
  rw_prev (claim_state r_ex 20) = 6.
Proof. split; [vm_compute; reflexivity | split; vm_compute; reflexivity]. Qed.

(** the index update that produced [r_ex]: 10 coins over 7 bSei (hypotheses of
    [update_succeeds] with G = 0, of [accrual_step], [update_dust_exact]) *)
Definition r_pre : reward :=
  mkReward 10 A_hub uusd A_swap [uatom] 0 7 0 [(20, mkHolder 3 0 0); (21, mkHolder 4 0 0)] 10.

Example update_nonvacuous :
  RCore r_pre /\ query_dispatcher_addr (w_ex 10) (rw_hub r_pre) = Some A_disp /\
  rw_prev r_pre <= bal (w_env (w_ex 10)) A_reward (rw_denom r_pre) /\
  rw_gi r_pre <= 0 * D /\ 0 + (bal (w_env (w_ex 10)) A_reward (rw_denom r_pre) - rw_prev r_pre) <= LIM /\
  rw_total r_pre <> 0 /\
  reward_execute (w_ex 10) r_pre A_reward A_disp RUpdateIndex = Some (r_ex, []) /\
  index_step r_pre 10 = 1428571428571428571 /\ (10 * D) mod 7 = 3.
Proof.
  split; [unfold RCore; split; [le_compute|]; split; [reflexivity|]; split|].
  - repeat constructor; le_compute.
  - repeat constructor; cbn; intuition discriminate.
  - split; [reflexivity|]. split; [le_compute|]. split; [le_compute|]. split; [le_compute|].
    split; [intro X; discriminate X|]. split; [vm_compute; reflexivity|].
    split; vm_compute; reflexivity.
Qed.

(** a five-step contract-level trace: two increases, a delivery, an index update, a claim *)
Definition cexec (c : cstate) (w : world) (self s : addr) (m : reward_msg) : cstate :=
  let '(r, bank, g) := c in
  match reward_execute w r self s m with
  | Some (r', _) =>
      (r', bank - payout_of r s m,
       mkGhost (g_delivered g) (g_claimed g + payout_of r s m) (g_updates g + effective_update r m))
  | None => c
  end.
Definition cdeliver (c : cstate) (x : N) : cstate :=
  let '(r, bank, g) := c in (r, bank + x, mkGhost (g_delivered g + x) (g_claimed g) (g_updates g)).

Lemma cexec_step c w self s m :
  bal (w_env w) self (rw_denom (fst (fst c))) = snd (fst c) ->
  is_some (reward_execute w (fst (fst c)) self s m) = true ->
  cstep c (cexec c w self s m).
Proof.
  destruct c as [[r bank] g]. cbn [fst snd cexec]. intros Hb Hs.
  destruct (reward_execute w r self s m) as [[r' out]|] eqn:E; [|discriminate Hs].
  eapply CS_exec; eauto.
Qed.

Lemma cdeliver_step c x : cstep c (cdeliver c x).
Proof. destruct c as [[r bank] g]. apply CS_deliver. Qed.

Definition c_ex0 : cstate := cinit 10 A_hub uusd A_swap [uatom] 0.
Definition c_ex1 : cstate := cexec c_ex0 (w_ex 0) A_reward A_bsei (RInc 20 3).
Definition c_ex2 : cstate := cexec c_ex1 (w_ex 0) A_reward A_bsei (RInc 21 4).
Definition c_ex3 : cstate := cdeliver c_ex2 10.
Definition c_ex4 : cstate := cexec c_ex3 (w_ex 10) A_reward A_disp RUpdateIndex.
Definition c_ex5 : cstate := cexec c_ex4 (w_ex 10) A_reward 20 (RClaim None).

Ltac e1c_compute := vm_compute; split; let X := fresh "X" in intro X; discriminate X.

Example creach_nonvacuous :
  creach c_ex0 c_ex5 /\ E1c c_ex5 /\
  g_delivered (snd c_ex5) = 10 /\ g_claimed (snd c_ex5) = 4 /\ g_updates (snd c_ex5) = 1 /\
  snd (fst c_ex5) = 6 /\ rw_prev (fst (fst c_ex5)) = 6 /\ rw_total (fst (fst c_ex5)) = 7 /\
  dust (fst (fst c_ex5)) = 3.
Proof.
  split.
  - apply (CR_step _ c_ex4); [apply (CR_step _ c_ex3); [apply (CR_step _ c_ex2);
      [apply (CR_step _ c_ex1); [apply (CR_step _ c_ex0); [apply CR_init| |]| |]| |]| |]| |].
    + e1c_compute.
    + apply cexec_step; vm_compute; reflexivity.
    + e1c_compute.
    + apply cexec_step; vm_compute; reflexivity.
    + e1c_compute.
    + apply cdeliver_step.
    + e1c_compute.
    + apply cexec_step; vm_compute; reflexivity.
    + e1c_compute.
    + apply cexec_step; vm_compute; reflexivity.
  - split; [e1c_compute|]. repeat split; vm_compute; reflexivity.
Qed.

(** (c): an increase for holder 20 and a claim by holder 21 in state [r_ex] *)
Example ops_commute_nonvacuous :
  RCore r_ex /\ holder_op (RInc 20 5) = true /\ holder_op (RClaim None) = true /\
  target A_bsei (RInc 20 5) <> target 21 (RClaim None) /\
  rw_total r_ex + inc_amt (RInc 20 5) + inc_amt (RClaim None) <= U128MAX /\
  reward_execute (w_ex 10) r_ex A_reward A_bsei (RInc 20 5) = Some (inc_state r_ex 20 5, []) /\
  reward_execute (w_ex 10) (inc_state r_ex 20 5) A_reward 21 (RClaim None)
    = Some (claim_state (inc_state r_ex 20 5) 21, [MBank 21 [(uusd, 5)]]).
Proof.
  split; [exact (proj1 (proj1 rinv_nonvacuous))|]. split; [reflexivity|]. split; [reflexivity|].
  split; [intro X; discriminate X|]. split; [le_compute|].
  split; vm_compute; reflexivity.
Qed.

(** (d): 7 bSei in account 20, against 3 + 4 bSei in accounts 30 and 31 *)
Definition r_one : reward :=
  mkReward 10 A_hub uusd A_swap [uatom] 5 7 0 [(20, mkHolder 7 2 9)] 10.
Definition r_two : reward :=
  mkReward 10 A_hub uusd A_swap [uatom] 5 7 0 [(30, mkHolder 3 2 4); (31, mkHolder 4 2 5)] 10.

Example split_sim_nonvacuous :
  SplitSim r_one r_two 20 30 31 /\ acc r_one 20 = 30 /\ acc r_two 30 = 13 /\ acc r_two 31 = 17.
Proof.
  split; [|repeat split; reflexivity].
  unfold SplitSim. conjs.
  - unfold split_rel. repeat split; reflexivity.
  - intros b H1 H2 H3. unfold holder_of, r_one, r_two. cbn [rw_holders get].
    apply N.eqb_neq in H1, H2, H3. unfold eqbA. rewrite H1, H2, H3. reflexivity.
Qed.

(* restore the development's default arithmetic hook for files loaded after this one *)
Ltac Zify.zify_post_hook ::= Z.div_mod_to_equations.
