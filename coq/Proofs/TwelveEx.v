(** * TwelveEx: non-vacuity of C12 / C13 (and of the undelegation clause of C09w) at the full size of
    the modelled chain, TWELVE validators.  Concrete facts only, all by [vm_compute] on one world, plus
    the instantiation of the general theorems on it.  Restated in full in Props/C13v.v.

    [world12] (a NOTATION for [run_ops t12_ops (empty_world 100)]): hub, reward contract, dispatcher (5 % keeper), registry
    with ALL TWELVE validators 0..11 owned by 10, bSei and stSei, wired through UpdateConfig;
    user 14 bonds 1 000 007 usei for bSei and user 15 bonds 2 000 000 usei for stSei; validator 3 is
    slashed by 10 % and the slash is booked (CheckSlashing); user 15 bonds 5 usei for bSei and user 14
    300 usei for stSei; 50 000 usei of rewards are pending at validator 0 and 7 000 uusd at validator 9;
    31 s pass (the epoch period of 30 s is over).
    Delegations of the hub: 250 001 on validators 0,1,2,4,5,11; 250 000 on 6..10; 225 305 on validator 3.

    Main statements
    - [t12_world_facts]           registry, delegation table, totals, books, rewards of [world12];
    C12
    - [t12_ds_asc_val], [t12_ds_desc_val], [t12_ds11_val]  the delegation vectors as the code passes them;
    - [t12_deleg_hyps] / [t12_deleg_total_applied] / [t12_deleg_plan] / [t12_deleg_bounds_applied] /
      [t12_deleg_plan_facts]      C12_deleg_total / C12_deleg_bounds for 1 000 000 usei on the twelve
                                  delegations: the plan touches all TWELVE validators (> 7);
    - [t12_deleg_small_plan]      24 000 usei go to the slashed validator only (first clause of the bounds);
    - [t12_undeleg_hyps] / [t12_undeleg_total_applied] / [t12_undeleg_plan] / [t12_undeleg_plan_facts]
                                  C12_undeleg_total for 1 190 000 usei: taken from all TWELVE (> 10);
    - [t12_redel_plan_hyps] / [t12_redel_plan]   the plan of the removal: 250 000 over the ELEVEN others;
    C13
    - [t12_remove_run], [t12_remove_basic_hyps]  hypotheses of C13_remove_tx_decompose / _end / _gap;
    - [t12_remove_decompose_applied], [t12_remove_end_applied], [t12_remove_gap_applied]
                                  their conclusions on [world12];
    - [t12_remove_result]         the executed transaction: ELEVEN redelegations summing to 250 000,
                                  nothing left on validator 9, delegated - booked unchanged;
    - [t12_remove_hyps]           every hypothesis of C13w_remove_tx_effect (RemoveHyps);
    - [t12_remove_predispatch]    intermediate and pre-dispatch worlds, within E1 and outside F2;
    - [t12_remove_succeeds_applied]  conclusion of C13w_remove_tx_succeeds on [world12];
    C09w
    - [t12_pick], [t12_undelegations_execute_applied], [t12_unbond_result]
                                  a batch-closing stSei unbond: TWELVE Undelegate messages;
    - [t12_def_notations], [t12_def_ops], [t12_def_values], [t12_def_vectors]
                                  the notations and constants of this file, unfolded (for Props/C13v.v). *)
From Krp Require Import Tactics Prelude Fixed FMap Types Env Registry Cw20 Reward Dispatcher Hub Exec
     ExecP Hist Inv RegistryP DispatcherP HubFrame HubAdmin BooksEnv BooksHub BooksP RemoveP RemoveEnd
     IndexRun IndexEnv IndexHandlers IndexSwap IndexPhases IndexP RemoveTx MirrorP ExitTx.
Open Scope N_scope.

Ltac t12_conj := repeat match goal with |- _ /\ _ => split end.
Ltac t12_vm := vm_compute; reflexivity.

(** ** 1. the world *)
Definition t12_ops : list op :=
  [ OGift 14 usei 10000000; OGift 15 usei 10000000;
    OInstHub 10 30 100 5000000000000000 D 11 usei uusd;
    OInstReward 10 A_hub uusd A_swap [uatom; usei];
    OInstDisp 10 A_hub A_reward usei uusd 12 50000000000000000 A_swap A_oracle [uatom; usei; uusd];
    OInstReg 10 A_hub [0; 1; 2; 3; 4; 5; 6; 7; 8; 9; 10; 11];
    OInstBsei 10 A_hub [];
    OInstStsei 10 A_hub 2 [];
    OTx 10 A_hub (WHub (HConfig (Some A_disp) (Some A_reg) (Some A_bsei) (Some A_stsei)
                                (Some A_airdrop) (Some A_reward) None)) [];
    OTx 14 A_hub (WHub HBond) [(usei, 1000007)];
    OTx 15 A_hub (WHub HBondSt) [(usei, 2000000)];
    OSlash 3 1 10 false;
    OTx 14 A_hub (WHub HCheckSlashing) [];
    OTx 15 A_hub (WHub HBond) [(usei, 5)];
    OTx 14 A_hub (WHub HBondSt) [(usei, 300)];
    OAccrue 0 usei 50000; OAccrue 9 uusd 7000;
    OAdvance 31 ].

(** [world12] is a NOTATION, not a constant: statements about it are syntactically statements about the
    [run_ops] expression, so that no proof step ever has to convert a named world with its definition
    ([vm_compute] evaluates it in a few milliseconds; lazy conversion would not) *)
Notation world12 := (run_ops t12_ops (empty_world 100)).
Definition world12_lit : world := Eval vm_compute in world12.
Lemma world12_eq : world12 = world12_lit.
Proof. vm_compute. reflexivity. Qed.

Lemma world12_delwf : DelWf (w_env world12).
Proof. exact (proj1 (EntWf_reachable 100 t12_ops)). Qed.

Definition t12_reg : registry := mkReg 10 A_hub [0; 1; 2; 3; 4; 5; 6; 7; 8; 9; 10; 11] 10.

Lemma t12_world_facts :
  w_reg world12 = Some t12_reg /\ rg_vals t12_reg = VALS /\ length (rg_vals t12_reg) = 12%nat /\
  all_delegations (w_env world12) A_hub =
    [(0, 250001); (1, 250001); (2, 250001); (3, 225305); (4, 250001); (5, 250001);
     (6, 250000); (7, 250000); (8, 250000); (9, 250000); (10, 250000); (11, 250001)] /\
  delegated (w_env world12) A_hub = 2975311 /\
  option_map booked (w_hub world12) = Some 2975311 /\
  option_map (fun h => (hs_bb (h_state h), hs_bst (h_state h))) (w_hub world12) = Some (991678, 1983633) /\
  option_map tk_supply (w_bsei world12) = Some 1000012 /\
  option_map tk_supply (w_stsei world12) = Some 2000302 /\
  pending (w_env world12) A_hub 0 usei = 50000 /\ pending (w_env world12) A_hub 9 uusd = 7000 /\
  e_now (w_env world12) = 1000031.
Proof. t12_conj; t12_vm. Qed.

(** ** 2. C12 on the delegations of [world12] *)

(** the vectors as the code passes them: ascending for delegation plans (registry query), descending for
    undelegation plans ([pick_validator]), and ascending without validator 9 for its removal *)
Definition t12_ds_asc : list N := map snd (sort_asc (reg_query_validators world12 t12_reg)).
Definition t12_ds_desc : list N := map snd (sort_desc (all_delegations (w_env world12) A_hub)).
Definition t12_ds11 : list N :=
  map snd (sort_asc (reg_query_validators world12 (set_rg_vals t12_reg (remove_val 9 (rg_vals t12_reg))))).

Lemma t12_ds_asc_val :
  map fst (sort_asc (reg_query_validators world12 t12_reg)) = [3; 6; 7; 8; 9; 10; 0; 1; 2; 4; 5; 11] /\
  t12_ds_asc = [225305; 250000; 250000; 250000; 250000; 250000; 250001; 250001; 250001; 250001; 250001; 250001].
Proof. t12_conj; t12_vm. Qed.

Lemma t12_ds_desc_val :
  map fst (sort_desc (all_delegations (w_env world12) A_hub)) = [0; 1; 2; 4; 5; 11; 6; 7; 8; 9; 10; 3] /\
  t12_ds_desc = [250001; 250001; 250001; 250001; 250001; 250001; 250000; 250000; 250000; 250000; 250000; 225305].
Proof. t12_conj; t12_vm. Qed.

Lemma t12_ds11_val :
  map fst (sort_asc (reg_query_validators world12 (set_rg_vals t12_reg (remove_val 9 (rg_vals t12_reg)))))
    = [3; 6; 7; 8; 10; 0; 1; 2; 4; 5; 11] /\
  t12_ds11 = [225305; 250000; 250000; 250000; 250000; 250001; 250001; 250001; 250001; 250001; 250001].
Proof. t12_conj; t12_vm. Qed.

Definition t12_nonzero (l : list N) : nat := length (filter (fun x => negb (x =? 0)) l).

(** *** delegation of 1 000 000 usei over the twelve *)
Definition t12_xs : list N :=
  [105971; 81276; 81276; 81276; 81276; 81276; 81275; 81275; 81275; 81275; 81275; 81274].

Lemma t12_deleg_hyps : t12_ds_asc <> [] /\ sumN t12_ds_asc + 1000000 <= U128MAX.
Proof. split; [vm_compute; discriminate | apply N.leb_le; t12_vm]. Qed.

Lemma t12_deleg_total_applied :
  exists xs, deleg 1000000 t12_ds_asc = Some (0, xs) /\ length xs = length t12_ds_asc /\ sumN xs = 1000000.
Proof. exact (deleg_total _ _ (proj1 t12_deleg_hyps) (proj2 t12_deleg_hyps)). Qed.

Lemma t12_deleg_plan : deleg 1000000 t12_ds_asc = Some (0, t12_xs).
Proof. t12_vm. Qed.

Lemma t12_deleg_bounds_applied :
  let T := sumN t12_ds_asc + 1000000 in let n := len t12_ds_asc in
  forall j, (j < length t12_ds_asc)%nat ->
    (even_target T n (N.of_nat j) < nth j t12_ds_asc 0 -> nth j t12_xs 0 = 0) /\
    (0 < nth j t12_xs 0 -> nth j t12_ds_asc 0 + nth j t12_xs 0 <= even_target T n (N.of_nat j)) /\
    even_target T n (N.of_nat j) <= T / n + 1.
Proof. exact (deleg_bounds _ _ _ _ t12_deleg_plan). Qed.

(** the plan touches all twelve validators (more than seven), sums to the amount, and levels the
    delegations to 331 276 (eleven validators) / 331 275 (the last one): 3 975 311 = 12 * 331 275 + 11 *)
Lemma t12_deleg_plan_facts :
  length t12_xs = 12%nat /\ t12_nonzero t12_xs = 12%nat /\ (7 < t12_nonzero t12_xs)%nat /\
  sumN t12_xs = 1000000 /\
  sumN t12_ds_asc + 1000000 = 3975311 /\ 3975311 / 12 = 331275 /\ 3975311 mod 12 = 11 /\
  map (fun p => fst p + snd p) (combine t12_ds_asc t12_xs) =
    [331276; 331276; 331276; 331276; 331276; 331276; 331276; 331276; 331276; 331276; 331276; 331275].
Proof. t12_conj; try t12_vm. vm_compute. lia. Qed.

(** a small amount goes to the slashed validator only: the eleven others are above the even share *)
Lemma t12_deleg_small_plan :
  sumN t12_ds_asc + 24000 <= U128MAX /\
  deleg 24000 t12_ds_asc = Some (0, [24000; 0; 0; 0; 0; 0; 0; 0; 0; 0; 0; 0]) /\
  even_target (sumN t12_ds_asc + 24000) 12 1 = 249943.
Proof. split; [apply N.leb_le; t12_vm|]. split; t12_vm. Qed.

(** *** undelegation of 1 190 000 usei from the twelve *)
Definition t12_ys : list N :=
  [101225; 101225; 101225; 101225; 101225; 101225; 101224; 101224; 101224; 101224; 101224; 76530].

Lemma t12_undeleg_hyps :
  t12_ds_desc <> [] /\ 1190000 <= sumN t12_ds_desc /\ sumN t12_ds_desc <= U128MAX.
Proof. split; [vm_compute; discriminate|]. split; apply N.leb_le; t12_vm. Qed.

Lemma t12_undeleg_total_applied :
  exists ys, undeleg 1190000 t12_ds_desc = Some ys /\ length ys = length t12_ds_desc /\ sumN ys = 1190000 /\
    forall j, (j < length t12_ds_desc)%nat ->
      nth j ys 0 <= nth j t12_ds_desc 0 /\
      (0 < nth j ys 0 -> (sumN t12_ds_desc - 1190000) / len t12_ds_desc <= nth j t12_ds_desc 0 - nth j ys 0).
Proof.
  destruct t12_undeleg_hyps as (H1 & H2 & H3). exact (undeleg_total _ _ H1 H2 H3).
Qed.

Lemma t12_undeleg_plan : undeleg 1190000 t12_ds_desc = Some t12_ys.
Proof. t12_vm. Qed.

(** the plan takes from all twelve validators (more than ten) and leaves 148 776 on eleven of them and
    148 775 on the slashed one: (2 975 311 - 1 190 000) / 12 = 148 775 *)
Lemma t12_undeleg_plan_facts :
  length t12_ys = 12%nat /\ t12_nonzero t12_ys = 12%nat /\ (10 < t12_nonzero t12_ys)%nat /\
  sumN t12_ys = 1190000 /\ (sumN t12_ds_desc - 1190000) / 12 = 148775 /\
  map (fun p => fst p - snd p) (combine t12_ds_desc t12_ys) =
    [148776; 148776; 148776; 148776; 148776; 148776; 148776; 148776; 148776; 148776; 148776; 148775].
Proof. t12_conj; try t12_vm. vm_compute. lia. Qed.

(** *** the plan of the removal of validator 9: its 250 000 usei over the eleven others *)
Definition t12_dl : list N := [45178; 20483; 20483; 20483; 20483; 20482; 20482; 20482; 20482; 20481; 20481].

Lemma t12_redel_plan_hyps : t12_ds11 <> [] /\ sumN t12_ds11 + 250000 <= U128MAX.
Proof. split; [vm_compute; discriminate | apply N.leb_le; t12_vm]. Qed.

Lemma t12_redel_plan :
  deleg 250000 t12_ds11 = Some (0, t12_dl) /\
  length t12_dl = 11%nat /\ t12_nonzero t12_dl = 11%nat /\ sumN t12_dl = 250000.
Proof. t12_conj; t12_vm. Qed.

(** ** 3. C13: the registry owner removes validator 9 (250 000 usei of stake) *)
Definition t12_rm_op : op := OTx 10 A_reg (WReg (GRemove 9)) [].
(** final world and executed messages of the transaction (notations, as [world12]) *)
Notation t12_after := (fst (step world12 t12_rm_op)).
Notation t12_trace := (snd (snd (step world12 t12_rm_op))).
Definition t12_redels : list (val * coin) :=
  [(3, (usei, 45178)); (6, (usei, 20483)); (7, (usei, 20483)); (8, (usei, 20483)); (10, (usei, 20483));
   (0, (usei, 20482)); (1, (usei, 20482)); (2, (usei, 20482)); (4, (usei, 20482));
   (5, (usei, 20481)); (11, (usei, 20481))].

Lemma t12_remove_run :
  run tx_fuel world12 [(10, MWasm A_reg (WReg (GRemove 9)) [])] [] = Some (t12_after, t12_trace).
Proof. t12_vm. Qed.

(** *** the hypotheses of C13_remove_tx_decompose / C13_remove_tx_end / C13_remove_tx_gap *)
Lemma t12_remove_basic_hyps :
  DelWf (w_env world12) /\ w_reg world12 = Some t12_reg /\ rg_hub t12_reg = A_hub /\
  delegation (w_env world12) A_hub 9 = Some 250000 /\ can_redelegate (w_env world12) 9 = true /\
  run tx_fuel world12 [(10, MWasm A_reg (WReg (GRemove 9)) [])] [] = Some (t12_after, t12_trace) /\
  exists h h', w_hub world12 = Some h /\ hp_underlying (h_params h) = usei /\
    booked h <= delegated (w_env world12) A_hub /\ w_hub t12_after = Some h'.
Proof.
  split; [exact world12_delwf|]. split; [t12_vm|]. split; [reflexivity|]. split; [t12_vm|].
  split; [t12_vm|]. split; [exact t12_remove_run|].
  destruct (w_hub world12) as [h|] eqn:Eh; [|vm_compute in Eh; discriminate Eh].
  destruct (w_hub t12_after) as [h'|] eqn:Eh'; [|vm_compute in Eh'; discriminate Eh'].
  exists h, h'. split; [reflexivity|].
  vm_compute in Eh. inversion Eh; subst h. clear Eh.
  split; [reflexivity|]. split; [apply N.leb_le; t12_vm | reflexivity].
Qed.

(** *** their conclusions on [world12] *)
Lemma t12_remove_decompose_applied :
  exists g' redels w2 fuel2,
    10 = rg_owner t12_reg /\ rg_vals g' = remove_val 9 (rg_vals t12_reg) /\ ~ In 9 (rg_vals g') /\
    rg_vals g' <> [] /\ rg_hub g' = A_hub /\
    redel_total redels = 250000 /\
    (forall dst c, In (dst, c) redels -> In dst (rg_vals g') /\ fst c = usei /\ 0 < snd c) /\
    w_reg w2 = Some g' /\ same_contracts_but_reg world12 w2 /\ DelWf (w_env w2) /\
    dv (w_env w2) A_hub 9 = 0 /\ (0 < 250000 -> delegation (w_env w2) A_hub 9 = None) /\
    (forall d, d <> 9 -> dv (w_env w2) A_hub d = dv (w_env world12) A_hub d + amt_to d redels) /\
    delegated (w_env w2) A_hub = delegated (w_env world12) A_hub /\
    run fuel2 w2 [(A_reg, MWasm A_hub (WHub (HUpdateGlobal 0)) [])]
        ((10, MWasm A_reg (WReg (GRemove 9)) [])
         :: (A_reg, MWasm A_hub (WHub (HRedelProxy 9 redels)) []) :: redel_stack 9 redels)
      = Some (t12_after, t12_trace).
Proof.
  destruct t12_remove_basic_hyps as (H1 & H2 & H3 & H4 & H5 & H6 & _).
  exact (remove_tx_decompose world12 10 9 [] t12_after t12_trace t12_reg 250000 H1 H2 H3 H4 H5 H6).
Qed.

Lemma t12_remove_end_applied :
  exists g',
    10 = rg_owner t12_reg /\ w_reg t12_after = Some g' /\ rg_vals g' = remove_val 9 (rg_vals t12_reg) /\
    ~ In 9 (rg_vals g') /\ rg_vals g' <> [] /\
    dv (w_env t12_after) A_hub 9 = 0 /\ (0 < 250000 -> delegation (w_env t12_after) A_hub 9 = None).
Proof.
  destruct t12_remove_basic_hyps as (H1 & H2 & H3 & H4 & H5 & H6 & _).
  exact (remove_tx_end world12 10 9 [] t12_after t12_trace t12_reg 250000 H1 H2 H3 H4 H5 H6).
Qed.

Lemma t12_remove_gap_applied : forall h h',
  w_hub world12 = Some h -> w_hub t12_after = Some h' ->
  booked h' <= delegated (w_env t12_after) A_hub /\
  delegated (w_env t12_after) A_hub - booked h' = delegated (w_env world12) A_hub - booked h.
Proof.
  intros h h' Eh Eh'.
  destruct t12_remove_basic_hyps as (H1 & _ & _ & _ & _ & H6 & (h0 & h0' & E0 & Hu & Hb & _)).
  rewrite Eh in E0. inversion E0; subst h0.
  exact (remove_tx_gap world12 10 9 [] t12_after t12_trace h h' H1 Eh Hu Hb H6 Eh').
Qed.

(** *** the executed transaction, explicitly: registry update, RedelegateProxy with ELEVEN entries,
    eleven redelegations, then the appended UpdateGlobalIndex (index 13 of the trace) and its tree
    (withdrawals from the eleven remaining validators, swap, dispatch, re-bonding of 36 101 usei) *)
Lemma t12_remove_result :
  fst (snd (step world12 t12_rm_op)) = true /\
  length t12_redels = 11%nat /\ redel_total t12_redels = 250000 /\
  t12_redels = redels_of (sort_asc (reg_query_validators world12
                  (set_rg_vals t12_reg (remove_val 9 (rg_vals t12_reg))))) t12_dl /\
  map fst t12_redels = [3; 6; 7; 8; 10; 0; 1; 2; 4; 5; 11] /\
  firstn 13 t12_trace =
    (10, MWasm A_reg (WReg (GRemove 9)) [])
    :: (A_reg, MWasm A_hub (WHub (HRedelProxy 9 t12_redels)) []) :: redel_stack 9 t12_redels /\
  nth 13 t12_trace (0, MBank 0 []) = (A_reg, MWasm A_hub (WHub (HUpdateGlobal 0)) []) /\
  length t12_trace = 44%nat /\
  option_map rg_vals (w_reg t12_after) = Some [0; 1; 2; 3; 4; 5; 6; 7; 8; 10; 11] /\
  all_delegations (w_env t12_after) A_hub =
    [(0, 273765); (1, 273765); (2, 273765); (3, 273765); (4, 273765); (5, 273765);
     (6, 273765); (7, 273764); (8, 273764); (10, 273764); (11, 273765)] /\
  delegation (w_env t12_after) A_hub 9 = None /\ dv (w_env t12_after) A_hub 9 = 0 /\
  delegated (w_env t12_after) A_hub = 2975311 + 36101 /\
  option_map booked (w_hub t12_after) = Some (2975311 + 36101) /\
  option_map (fun h => delegated (w_env t12_after) A_hub - booked h) (w_hub t12_after) =
    option_map (fun h => delegated (w_env world12) A_hub - booked h) (w_hub world12) /\
  bal (w_env t12_after) A_disp uusd = 0 /\ bal (w_env t12_after) A_disp usei = 0 /\
  bal (w_env t12_after) 12 uusd = 949 /\ bal (w_env t12_after) 12 usei = 1900 /\
  bal (w_env t12_after) A_reward uusd = 18050.
Proof. t12_conj; t12_vm. Qed.

(** the world between the redelegations and the appended index update: validator 9 emptied, every other
    validator holds what it held plus its entry of the list, total unchanged *)
Lemma t12_remove_mid_result :
  exists w2, remove_mid world12 10 9 = Some w2 /\
    all_delegations (w_env w2) A_hub =
      [(0, 270483); (1, 270483); (2, 270483); (3, 270483); (4, 270483); (5, 270482);
       (6, 270483); (7, 270483); (8, 270483); (10, 270483); (11, 270482)] /\
    delegated (w_env w2) A_hub = 2975311 /\
    map (fun v => dv (w_env world12) A_hub v + amt_to v t12_redels) [0; 1; 2; 3; 4; 5; 6; 7; 8; 10; 11] =
      map (dv (w_env w2) A_hub) [0; 1; 2; 3; 4; 5; 6; 7; 8; 10; 11] /\
    bal (w_env w2) A_disp uusd = 7000 /\ bal (w_env w2) A_disp usei = 50000.
Proof. eexists. split; [t12_vm|]. t12_conj; t12_vm. Qed.

(** *** every hypothesis of C13w_remove_tx_effect / C13w_remove_tx_succeeds *)
Lemma t12_remove_hyps :
  exists h r dp g tb ts, RemoveHyps world12 10 9 h r dp g tb ts 250000.
Proof.
  pose proof world12_delwf as HD. rewrite world12_eq in HD. rewrite world12_eq. unfold world12_lit in *.
  do 6 eexists. unfold RemoveHyps. remove_hyps_tac HD.
Qed.

Lemma t12_remove_predispatch :
  exists w2 w1,
    remove_mid world12 10 9 = Some w2 /\ pre_dispatch w2 A_reg = Some w1 /\
    bal (w_env w1) A_disp uusd = 18999 /\ bal (w_env w1) A_disp usei = 38001 /\
    18999 <= LIM /\ 38001 <= LIM /\ ~ Known_F2 50000000000000000 18999 38001 /\
    38001 - 38001 * 50000000000000000 / D = 36101.
Proof.
  do 2 eexists. split; [t12_vm|]. split; [t12_vm|]. split; [t12_vm|]. split; [t12_vm|].
  split; [apply N.leb_le; t12_vm|]. split; [apply N.leb_le; t12_vm|]. split; [|t12_vm].
  intros [[_ [H|H]]|[_ H]]; vm_compute in H; discriminate H.
Qed.

(** *** the conclusion of C13w_remove_tx_succeeds on [world12]: the whole transaction, including the
    appended UpdateGlobalIndex, succeeds; re-bonded amount 36 101 = 38 001 - 5 % *)
Lemma t12_remove_succeeds_applied :
  exists h r dp g tb ts,
    w_hub world12 = Some h /\ w_reward world12 = Some r /\ w_disp world12 = Some dp /\
    w_reg world12 = Some g /\ w_bsei world12 = Some tb /\ w_stsei world12 = Some ts /\
    dp_rate dp = 50000000000000000 /\ dp_bd dp = uusd /\
    booked h <= delegated (w_env world12) A_hub /\
    exists w' tr,
      step world12 (OTx 10 A_reg (WReg (GRemove 9)) []) = (w', (true, tr)) /\
      (exists gr, w_reg w' = Some gr /\ rg_vals gr = remove_val 9 (rg_vals g) /\ ~ In 9 (rg_vals gr) /\
                  rg_vals gr <> []) /\
      dv (w_env w') A_hub 9 = 0 /\ (0 < 250000 -> delegation (w_env w') A_hub 9 = None) /\
      delegated (w_env w') A_hub = delegated (w_env world12) A_hub + 36101 /\
      (forall s src dst c, In (s, MRedelegate src dst c) tr -> s = A_hub -> src = 9 /\ dst <> 9) /\
      w_bsei w' = Some tb /\ w_stsei w' = Some ts /\
      (exists h', w_hub w' = Some h' /\ h_batch h' = h_batch h /\ h_wait h' = h_wait h /\ h_hist h' = h_hist h /\
         (booked h <= delegated (w_env world12) A_hub ->
            booked h' = booked h + 36101 /\
            delegated (w_env w') A_hub - booked h' = delegated (w_env world12) A_hub - booked h)) /\
      bal (w_env w') A_disp uusd = 0 /\ bal (w_env w') A_disp usei = 0 /\
      (forall d, bal (w_env w') A_hub d = bal (w_env world12) A_hub d).
Proof.
  destruct t12_remove_hyps as (h & r & dp & g & tb & ts & HH). unfold RemoveHyps in HH.
  destruct HH as (A1 & A2 & A3 & A4 & A5 & A6 & A7 & A8 & A9 & A10 & Eh & Er & Ed & Eg & Etb & Ets &
                  A17 & A18 & A19 & A20).
  destruct t12_remove_predispatch as (w2 & w1 & M & P & B1 & B2 & L1 & L2 & NF & RB).
  pose proof (remove_tx_succeeds world12 10 9 h r dp g tb ts 250000 w2 w1
                A1 A2 A3 A4 A5 A6 A7 A8 A9 A10 Eh Er Ed Eg Etb Ets A17 A18 A19 A20 M P) as R.
  cbv zeta in R.
  assert (Edp : dp_rate dp = 50000000000000000 /\ dp_bd dp = uusd).
  { pose proof Ed as E. vm_compute in E. inversion E. split; reflexivity. }
  destruct Edp as (Erate & Ebd). rewrite Erate, Ebd, B1, B2, RB in R.
  specialize (R L1 L2 NF).
  assert (Hb : booked h <= delegated (w_env world12) A_hub).
  { pose proof Eh as E. vm_compute in E. inversion E. apply N.leb_le. t12_vm. }
  exists h, r, dp, g, tb, ts. repeat (split; [assumption|]). exact R.
Qed.

(** ** 4. C09w: a batch-closing unbond whose undelegation spans all twelve validators.
    User 15 unbonds 1 200 000 stSei (rate 0.9916665 after the slash): 1 190 000 usei are undelegated *)
Definition t12_unb_op : op := OTx 15 A_stsei (WCw20 (CSend A_hub 1200000 HkUnbond)) [].
Definition t12_und : list cmsg :=
  [MUndelegate 0 (usei, 101225); MUndelegate 1 (usei, 101225); MUndelegate 2 (usei, 101225);
   MUndelegate 4 (usei, 101225); MUndelegate 5 (usei, 101225); MUndelegate 11 (usei, 101225);
   MUndelegate 6 (usei, 101224); MUndelegate 7 (usei, 101224); MUndelegate 8 (usei, 101224);
   MUndelegate 9 (usei, 101224); MUndelegate 10 (usei, 101224); MUndelegate 3 (usei, 76530)].

(** the hypotheses of C09w_undelegations_execute (with [DelWf], [world12_delwf]) *)
Lemma t12_pick :
  exists h, w_hub world12 = Some h /\ hp_underlying (h_params h) = usei /\
    pick_validator world12 A_hub h 1190000 = Some t12_und /\
    length t12_und = 12%nat /\ (10 < length t12_und)%nat /\ usum t12_und = 1190000.
Proof.
  destruct (w_hub world12) as [h|] eqn:Eh; [|vm_compute in Eh; discriminate Eh].
  exists h. split; [reflexivity|]. vm_compute in Eh. inversion Eh; subst h. clear Eh.
  split; [reflexivity|]. split; [t12_vm|]. split; [reflexivity|]. split; [cbn; lia | t12_vm].
Qed.

Lemma t12_undelegations_execute_applied :
  exists e',
    Exec world12 (tag A_hub t12_und) (set_env world12 e') (length t12_und) /\
    (length t12_und <= length VALS)%nat /\
    DelWf e' /\
    delegated e' A_hub + 1190000 = delegated (w_env world12) A_hub /\ usum t12_und = 1190000 /\
    e_unb e' = e_unb (w_env world12) ++ map (unb_entry (e_now (w_env world12) + e_ut (w_env world12))) t12_und /\
    e_now e' = e_now (w_env world12) /\ e_ut e' = e_ut (w_env world12) /\
    e_wdaddr e' = e_wdaddr (w_env world12) /\ e_noredel e' = e_noredel (w_env world12) /\
    (forall y, y <> A_hub -> all_delegations e' y = all_delegations (w_env world12) y) /\
    (forall a d, a <> withdraw_addr (w_env world12) A_hub -> bal e' a d = bal (w_env world12) a d) /\
    (forall a d, bal (w_env world12) a d <= bal e' a d).
Proof.
  destruct t12_pick as (h & Eh & Hu & Hp & _).
  exact (xt_pick_validator_exec world12 world12 h 1190000 t12_und Hp Hu eq_refl world12_delwf).
Qed.

(** the transaction itself: Send, Receive{Unbond}, the TWELVE Undelegate messages, Burn, CheckSlashing;
    batch 1 is closed; every validator is left with 148 776 (the slashed one 148 775) *)
Lemma t12_unbond_result :
  snd (step world12 t12_unb_op) =
    (true,
     (15, MWasm A_stsei (WCw20 (CSend A_hub 1200000 HkUnbond)) [])
     :: (A_stsei, MWasm A_hub (WHub (HReceive 15 1200000 HkUnbond)) [])
     :: tag A_hub t12_und
     ++ [(A_hub, MWasm A_stsei (WCw20 (CBurn 1200000)) []); (A_stsei, MWasm A_hub (WHub HCheckSlashing) [])]) /\
  let w' := fst (step world12 t12_unb_op) in
  all_delegations (w_env w') A_hub =
    [(0, 148776); (1, 148776); (2, 148776); (3, 148775); (4, 148776); (5, 148776);
     (6, 148776); (7, 148776); (8, 148776); (9, 148776); (10, 148776); (11, 148776)] /\
  delegated (w_env w') A_hub + 1190000 = delegated (w_env world12) A_hub /\
  e_unb (w_env w') = map (unb_entry 1000131) t12_und /\
  option_map (fun h => h_batch h) (w_hub w') = Some (mkBatch 2 0 0) /\
  option_map (fun h => map (fun p => (fst p, he_samt (snd p), he_released (snd p))) (h_hist h)) (w_hub w')
    = Some [(1, 1200000, false)] /\
  option_map booked (w_hub w') = Some (2975311 - 1190000).
Proof. cbv zeta. t12_conj; t12_vm. Qed.

(** ** 5. the vocabulary of Props/C13v.v, unfolded *)
Lemma t12_def_notations :
  world12 = run_ops t12_ops (empty_world 100) /\
  t12_after = fst (step (run_ops t12_ops (empty_world 100)) t12_rm_op) /\
  t12_trace = snd (snd (step (run_ops t12_ops (empty_world 100)) t12_rm_op)).
Proof. split; [reflexivity|]. split; reflexivity. Qed.

Lemma t12_def_ops :
  t12_ops =
  [ OGift 14 usei 10000000; OGift 15 usei 10000000;
    OInstHub 10 30 100 5000000000000000 D 11 usei uusd;
    OInstReward 10 A_hub uusd A_swap [uatom; usei];
    OInstDisp 10 A_hub A_reward usei uusd 12 50000000000000000 A_swap A_oracle [uatom; usei; uusd];
    OInstReg 10 A_hub [0; 1; 2; 3; 4; 5; 6; 7; 8; 9; 10; 11];
    OInstBsei 10 A_hub [];
    OInstStsei 10 A_hub 2 [];
    OTx 10 A_hub (WHub (HConfig (Some A_disp) (Some A_reg) (Some A_bsei) (Some A_stsei)
                                (Some A_airdrop) (Some A_reward) None)) [];
    OTx 14 A_hub (WHub HBond) [(usei, 1000007)];
    OTx 15 A_hub (WHub HBondSt) [(usei, 2000000)];
    OSlash 3 1 10 false;
    OTx 14 A_hub (WHub HCheckSlashing) [];
    OTx 15 A_hub (WHub HBond) [(usei, 5)];
    OTx 14 A_hub (WHub HBondSt) [(usei, 300)];
    OAccrue 0 usei 50000; OAccrue 9 uusd 7000;
    OAdvance 31 ].
Proof. reflexivity. Qed.

Lemma t12_def_values :
  t12_reg = mkReg 10 A_hub [0; 1; 2; 3; 4; 5; 6; 7; 8; 9; 10; 11] 10 /\
  t12_rm_op = OTx 10 A_reg (WReg (GRemove 9)) [] /\
  t12_unb_op = OTx 15 A_stsei (WCw20 (CSend A_hub 1200000 HkUnbond)) [] /\
  (forall l, t12_nonzero l = length (filter (fun x => negb (x =? 0)) l)) /\
  t12_xs = [105971; 81276; 81276; 81276; 81276; 81276; 81275; 81275; 81275; 81275; 81275; 81274] /\
  t12_ys = [101225; 101225; 101225; 101225; 101225; 101225; 101224; 101224; 101224; 101224; 101224; 76530] /\
  t12_dl = [45178; 20483; 20483; 20483; 20483; 20482; 20482; 20482; 20482; 20481; 20481] /\
  t12_redels =
    [(3, (usei, 45178)); (6, (usei, 20483)); (7, (usei, 20483)); (8, (usei, 20483)); (10, (usei, 20483));
     (0, (usei, 20482)); (1, (usei, 20482)); (2, (usei, 20482)); (4, (usei, 20482));
     (5, (usei, 20481)); (11, (usei, 20481))] /\
  t12_und =
    [MUndelegate 0 (usei, 101225); MUndelegate 1 (usei, 101225); MUndelegate 2 (usei, 101225);
     MUndelegate 4 (usei, 101225); MUndelegate 5 (usei, 101225); MUndelegate 11 (usei, 101225);
     MUndelegate 6 (usei, 101224); MUndelegate 7 (usei, 101224); MUndelegate 8 (usei, 101224);
     MUndelegate 9 (usei, 101224); MUndelegate 10 (usei, 101224); MUndelegate 3 (usei, 76530)].
Proof. t12_conj; reflexivity. Qed.

Lemma t12_def_vectors :
  t12_ds_asc = map snd (sort_asc (reg_query_validators world12 t12_reg)) /\
  t12_ds_desc = map snd (sort_desc (all_delegations (w_env world12) A_hub)) /\
  t12_ds11 = map snd (sort_asc (reg_query_validators world12
                                  (set_rg_vals t12_reg (remove_val 9 (rg_vals t12_reg))))).
Proof. split; [reflexivity|]. split; reflexivity. Qed.
