(** * PauseHistEx: non-vacuity examples and witnesses for PauseHist (C11 at world / history level).
    - [ph_paused_world_nonvacuous]: a reachable paused world in which users hold tokens;
    - [ph_unbond_ok_unpaused], [ph_unbond_rejected_paused]: the token Send carrying the Unbond hook is
      accepted before the pause and rejected as a whole (world unchanged) after it;
    - [ph_transfer_paused]: a non-exempt operation that does change the paused world, not the hub;
    - [ph_legacy_history], [ph_unpause_refused]: a history with legacy entries in which the un-pause is
      refused until the migration has drained them;
    - [ph_cycle_ready], [ph_mid_hub_free], [ph_cycle_transparent], [ph_cycle_flag_repr]: the
      hypotheses of the pause-cycle theorems are satisfiable and both flag representations occur;
    - [pause_cycle_blocked_witness]: the hub-free hypothesis of [pause_cycle_transparent] is needed. *)
From Krp Require Import Tactics Prelude Fixed FMap Types Env Registry Cw20 Reward Dispatcher Hub Exec
     ExecP Hist HubFrame HubAdmin Auth Pause MirrorWire ExitWorld
     PauseHistFrozen PauseHistLegacy PauseHistFlag PauseHistSim PauseHistFree PauseHist.
Open Scope N_scope.

(** the deployment of Proofs/ExitWorld.v (six wired contracts; alice holds 1 000 000 bSei, bob
    2 000 000 stSei), then the owner pauses the hub *)
Definition ph_paused_ops : list op := genesis_ops ++ [pause_op A_owner].
Definition ph_wp : world := run_ops ph_paused_ops (empty_world 100).

Definition ph_unbond : op := OTx alice A_bsei (WCw20 (CSend A_hub 1000 HkUnbond)) [].
Definition ph_transfer : op := OTx alice A_bsei (WCw20 (CTransfer bob 1000)) [].

Lemma HubPaused_compute w : option_map paused (w_hub w) = Some true -> HubPaused w.
Proof.
  destruct (w_hub w) as [h|] eqn:E; [|discriminate]. cbn [option_map]. intros H. inversion H.
  exists h. auto.
Qed.

Example ph_paused_world_nonvacuous :
  HubPaused ph_wp /\
  option_map (fun t => tbal t alice) (w_bsei ph_wp) = Some 1000000 /\
  option_map (fun t => tbal t bob) (w_stsei ph_wp) = Some 2000000.
Proof.
  split; [|split; vm_compute; reflexivity].
  apply HubPaused_compute. vm_compute. reflexivity.
Qed.

(** the token Send carrying the Unbond hook: accepted before the pause, rejected as a whole after
    it, and the world (token balances included) is unchanged *)
Example ph_unbond_ok_unpaused : fst (snd (step world0 ph_unbond)) = true.
Proof. vm_compute. reflexivity. Qed.

Example ph_unbond_rejected_paused : step ph_wp ph_unbond = (ph_wp, (false, [])).
Proof. apply paused_bsei_send_fails. apply ph_paused_world_nonvacuous. Qed.

Example ph_unbond_rejected_paused_computed : step ph_wp ph_unbond = (ph_wp, (false, [])).
Proof. vm_compute. reflexivity. Qed.

(** a non-exempt operation that DOES change the paused world (a plain token transfer): it succeeds,
    moves alice's tokens, and the hub is untouched *)
Example ph_transfer_paused :
  fst (snd (step ph_wp ph_transfer)) = true /\
  option_map (fun t => tbal t alice) (w_bsei (fst (step ph_wp ph_transfer))) = Some 999000 /\
  hub_exempt_op ph_transfer = false /\
  w_hub (fst (step ph_wp ph_transfer)) = w_hub ph_wp.
Proof.
  split; [vm_compute; reflexivity|]. split; [vm_compute; reflexivity|]. split; [reflexivity|].
  apply paused_frozen; [apply ph_paused_world_nonvacuous | reflexivity].
Qed.

(** legacy entries: the un-pause is refused (omitted flag and explicit false) while entries remain,
    also after a partial migration; the full migration lifts the pause itself *)
Definition ph_legacy_ops : list op :=
  ph_paused_ops ++
  [ OLegacyWait alice 1 500; OLegacyWait bob 1 0;
    unpause_op A_owner None; unpause_op A_owner (Some false);
    OTx bob A_hub (WHub (HMigrate (Some 1))) [];
    unpause_op A_owner None;
    OTx bob A_hub (WHub (HMigrate None)) [] ].

Example ph_legacy_history :
  map fst (outcomes ph_legacy_ops (empty_world 100)) =
  [true; true; true; true; true; true; true; true; true; true; true; true;
   true; true; false; false; true; false; true] /\
  guarded legacy_guard ph_legacy_ops (empty_world 100) /\
  option_map (fun h => (hp_paused (h_params h), h_oldwait h, h_wait h))
             (w_hub (run_ops ph_legacy_ops (empty_world 100))) =
  Some (Some false, [], [((alice, 1), (500, 0)); ((bob, 1), (0, 0))]).
Proof.
  split; [vm_compute; reflexivity|]. split; [|vm_compute; reflexivity].
  unfold ph_legacy_ops, ph_paused_ops, genesis_ops. cbn [app guarded legacy_guard].
  repeat split; intros h E; vm_compute in E; inversion E; reflexivity.
Qed.

(** in the world with two legacy entries the un-pause is refused and changes nothing *)
Definition ph_wl : world :=
  run_ops (ph_paused_ops ++ [OLegacyWait alice 1 500; OLegacyWait bob 1 0]) (empty_world 100).

Example ph_unpause_refused :
  (exists h, w_hub ph_wl = Some h /\ h_oldwait h = [((alice, 1), 500); ((bob, 1), 0)] /\ paused h = true) /\
  LegacyLocked ph_wl /\
  step ph_wl (unpause_op A_owner None) = (ph_wl, (false, [])) /\
  step ph_wl (unpause_op A_owner (Some false)) = (ph_wl, (false, [])).
Proof.
  split.
  { assert (E : option_map (fun h => (h_oldwait h, paused h)) (w_hub ph_wl) =
                Some ([((alice, 1), 500); ((bob, 1), 0)], true)) by (vm_compute; reflexivity).
    destruct (w_hub ph_wl) as [h|]; [|discriminate]. cbn [option_map] in E. inversion E.
    exists h. auto. }
  split; [|split; vm_compute; reflexivity].
  apply legacy_locked_reachable with (ops2 := []). rewrite app_nil_r.
  unfold ph_paused_ops, genesis_ops. cbn [app guarded legacy_guard].
  repeat split; intros h E; vm_compute in E; inversion E; reflexivity.
Qed.

(** the pause cycle: [world0] is ready, a hub-free history in between, and the theorem applies *)
Definition ph_mid : list op :=
  [ ph_transfer; OAdvance 10; OGift alice usei 5;
    OTx bob A_stsei (WCw20 (CTransfer alice 7)) [] ].

Example ph_cycle_ready : CycleReady world0 A_owner.
Proof.
  assert (E : option_map (fun h => (hc_creator (h_cfg h), paused h, h_oldwait h,
                                     hp_pegfee (h_params h) <=? D, hp_thr (h_params h) <=? D))
                         (w_hub world0) = Some (A_owner, false, [], true, true))
    by (vm_compute; reflexivity).
  unfold CycleReady.
  destruct (w_hub world0) as [h|]; [|discriminate]. cbn [option_map] in E.
  injection E as E1 E2 E3 E4 E5.
  exists h. split; [reflexivity|]. split; [congruence|]. split; [congruence|]. split; [congruence|].
  split; apply N.leb_le; congruence.
Qed.

Example ph_mid_hub_free :
  Forall (fun o => hub_exempt_op o = false) ph_mid /\ guarded hub_free ph_mid world0 /\
  map fst (outcomes ph_mid world0) = [true; true; true; true].
Proof.
  split; [repeat constructor|]. split; [|vm_compute; reflexivity].
  unfold ph_mid. cbn [guarded]. unfold hub_free.
  split; [vm_compute; reflexivity|]. split; [vm_compute; reflexivity|].
  split; [vm_compute; reflexivity|]. split; [vm_compute; reflexivity | exact I].
Qed.

Example ph_cycle_transparent :
  wsim (run_ops ph_mid world0)
       (run_ops (pause_op A_owner :: ph_mid ++ [unpause_op A_owner None]) world0).
Proof.
  destruct ph_mid_hub_free as (A & B & _).
  assert (Hz : @None bool <> Some true) by discriminate.
  exact (proj2 (pause_cycle_transparent world0 A_owner None ph_mid ph_cycle_ready Hz A B)).
Qed.

(** the two representations really occur: the cycle leaves [None] where instantiate wrote
    [Some false] *)
Example ph_cycle_flag_repr :
  option_map (fun h => hp_paused (h_params h)) (w_hub (run_ops ph_mid world0)) = Some (Some false) /\
  option_map (fun h => hp_paused (h_params h))
    (w_hub (run_ops (pause_op A_owner :: ph_mid ++ [unpause_op A_owner None]) world0)) = Some None.
Proof. split; vm_compute; reflexivity. Qed.

Lemma ph_cycle_summary :
  CycleReady world0 A_owner /\
  (Forall (fun o => hub_exempt_op o = false) ph_mid /\ guarded hub_free ph_mid world0 /\
   map fst (outcomes ph_mid world0) = [true; true; true; true]) /\
  wsim (run_ops ph_mid world0)
       (run_ops (pause_op A_owner :: ph_mid ++ [unpause_op A_owner None]) world0) /\
  option_map (fun h => hp_paused (h_params h)) (w_hub (run_ops ph_mid world0)) = Some (Some false) /\
  option_map (fun h => hp_paused (h_params h))
    (w_hub (run_ops (pause_op A_owner :: ph_mid ++ [unpause_op A_owner None]) world0)) = Some None.
Proof.
  exact (conj ph_cycle_ready (conj ph_mid_hub_free (conj ph_cycle_transparent ph_cycle_flag_repr))).
Qed.

(** the hub-free hypothesis is needed: an Unbond in between succeeds without the cycle and is
    rejected inside it, so the final worlds differ in alice's token balance *)
Lemma pause_cycle_blocked_witness :
  CycleReady world0 A_owner /\ hub_exempt_op ph_unbond = false /\ ~ hub_free world0 ph_unbond /\
  outcomes [ph_unbond] world0 <> outcomes [ph_unbond] (fst (step world0 (pause_op A_owner))) /\
  ~ wsim (run_ops [ph_unbond] world0)
         (run_ops (pause_op A_owner :: [ph_unbond] ++ [unpause_op A_owner None]) world0).
Proof.
  split; [apply ph_cycle_ready|]. split; [reflexivity|]. split; [|split].
  - unfold hub_free. vm_compute. discriminate.
  - vm_compute. discriminate.
  - intros (_ & _ & _ & _ & E & _). apply (f_equal (option_map (fun t => tbal t alice))) in E.
    vm_compute in E. discriminate E.
Qed.
