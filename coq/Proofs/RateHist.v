(** * RateHist: C04 at HISTORY level over the full operation alphabet.

    "No user operation dilutes holders: a rate falls only through slashing."  Every operation of a
    history (Model/Exec.v [op]) other than a slashing event, a reset / (re-)instantiation of a
    contract and a transaction signed by the hub contract's own address keeps both rates the State
    query reports from falling (for a token that still has claims after the operation).
    Helpers: RateHistBase.v (the rate view, [Quiet]), RateHistInert.v (messages that cannot move a
    rate), RateHistLegs.v / RateHistUnit.v (pricing hub messages with all their legs),
    RateHistActive.v (the remaining message classes).

    Main theorems
    - [supply_drop_step] / [unit_burnfrom_*] : a cw20 BurnFrom lowers claims over unchanged pools;
    - [root_cases]   : every root message not signed by the hub is inert or one of the active classes;
    - [tx_step]      : ONE successful transaction with an arbitrary root message: no reported rate is
                       lower afterwards, and EntWf / MinterOk / (within E1) SoundRates hold again;
    - [op_step]      : the same for every covered operation of the alphabet (environment events,
                       stub modes, legacy wait-list poke, failing and successful transactions);
    - [rate_monotone_history_all] : along every history of covered operations that stays wired and
                       within E1 with both tokens in circulation, the reported rates never fall;
    - [coin_value_history] : nor does floor(balance x rate) of a fixed balance;
    - [update_global_index_no_mint] : an UpdateGlobalIndex transaction raises the stSei rate weakly
                       and leaves both cw20 ledgers untouched (with Proofs/IndexP.v);
    - [covered_op_iff], [slash_lowers_rate_witness], [hub_signed_mint_witness] : the excluded classes;
                       a slashing event, and a cw20 Mint "signed" by the hub's own address, do lower a
                       reported rate;
    - [hist_nonvacuous] and friends: non-vacuity on the worlds of Proofs/RateTxExamples.v. *)
From Krp Require Import Tactics Prelude Fixed FMap Types Env Registry Cw20 Reward Dispatcher Hub Exec
     ExecP Hist Inv RegistryP DispatcherP HubFrame HubAdmin Cw20P MirrorWire MirrorP HubRates
     BooksEnv BooksHub BooksP IndexRun IndexHandlers ExitWorld RateTxLegs RateTx RateTxConvert RateTxExamples
     RateHistBase RateHistInert RateHistLegs RateHistUnit RateHistActive.
Open Scope N_scope.

(** ** BurnFrom: the supply falls, nothing else *)
Lemma Sound_claims_le r B C C' : Sound r B C -> C' <= C -> Sound r B C'.
Proof.
  intros [Hr H] Hle. split; [exact Hr|].
  assert (r * C' <= r * C) by (apply N.mul_le_mono_l; exact Hle). lia.
Qed.

Lemma supply_drop_step w w1 h tb tb1 ts ts1 :
  hc_bsei (h_cfg h) = Some A_bsei -> hc_stsei (h_cfg h) = Some A_stsei ->
  w_hub w = Some h -> w_hub w1 = Some h ->
  w_bsei w = Some tb -> w_bsei w1 = Some tb1 -> w_stsei w = Some ts -> w_stsei w1 = Some ts1 ->
  tk_supply tb1 <= tk_supply tb -> tk_supply ts1 <= tk_supply ts ->
  e_del (w_env w1) = e_del (w_env w) ->
  SoundRates w -> Answers w -> Step w w1.
Proof.
  intros Wb Ws Hh Hh1 Hb Hb1 Hs Hs1 Lb Ls Hd HS [s Hq].
  assert (Had : all_delegations (w_env w1) A_hub = all_delegations (w_env w) A_hub)
    by (apply all_delegations_same_del; exact Hd).
  destruct (HS s Hq) as [SB SS].
  rewrite (rt_claims_b w h tb Hh Hb) in SB. rewrite (rt_claims_st w h ts Hh Hs) in SS.
  assert (Cb1 : w_claims_b w1 = tk_supply tb1 + cb_reqb (h_batch h)) by (apply rt_claims_b; assumption).
  assert (Cs1 : w_claims_st w1 = tk_supply ts1 + cb_reqst (h_batch h)) by (apply rt_claims_st; assumption).
  assert (SB1 : Sound (hs_ber s) (hs_bb s) (w_claims_b w1)) by (rewrite Cb1; eapply Sound_claims_le; [exact SB|lia]).
  assert (SS1 : Sound (hs_ser s) (hs_bst s) (w_claims_st w1)) by (rewrite Cs1; eapply Sound_claims_le; [exact SS|lia]).
  (* what the query reports in w1, compared with s *)
  assert (Key : forall s1, hub_query_state w1 A_hub = Some s1 ->
            hs_bb s1 = hs_bb s /\ hs_bst s1 = hs_bst s /\
            ((hs_ber s1 = hs_ber s /\ hs_ser s1 = hs_ser s) \/
             (hs_ber s1 = rate_of (hs_bb s) (w_claims_b w1) /\ hs_ser s1 = rate_of (hs_bst s) (w_claims_st w1)))).
  { intros s1 Hq1. unfold hub_query_state in Hq, Hq1. rewrite Hh in Hq. rewrite Hh1 in Hq1. cbn [bind] in Hq, Hq1.
    assert (Hact : actual_bonded w1 A_hub h = actual_bonded w A_hub h) by (unfold actual_bonded; rewrite Had; reflexivity).
    destruct (rt_supplies w h tb ts Wb Ws Hb Hs) as [S1 S2].
    destruct (rt_supplies w1 h tb1 ts1 Wb Ws Hb1 Hs1) as [T1 T2].
    apply qas_inv in Hq. apply qas_inv in Hq1. rewrite Had, Hact in Hq1.
    destruct Hq as [[He Es]|[Hne (actual & Ha & [[Hz Es]|(Hpos & sb & ss & E1 & E2 & Es)])]];
    destruct Hq1 as [[He1 Es1]|[Hne1 (actual1 & Ha1 & [[Hz1 Es1]|(Hpos1 & sb1 & ss1 & F1 & F2 & Es1)])]];
      try contradiction; try lia; try (subst s s1; split; [reflexivity|split; [reflexivity|left; split; reflexivity]]).
    rewrite Ha in Ha1. inversion Ha1; subst actual1.
    rewrite S1 in E1. rewrite S2 in E2. rewrite T1 in F1. rewrite T2 in F2.
    inversion E1; inversion E2; inversion F1; inversion F2; subst sb ss sb1 ss1. subst s s1.
    unfold synced_state. cbn [hs_bb hs_bst hs_ber hs_ser]. rewrite Cb1, Cs1.
    split; [reflexivity|]. split; [reflexivity|]. right. split; reflexivity. }
  split.
  - intros s0 s1 Hq0 Hq1. rewrite Hq in Hq0. inversion Hq0; subst s0; clear Hq0.
    destruct (Key s1 Hq1) as (K1 & K2 & [[K3 K4]|[K3 K4]]).
    + split; intros _; lia.
    + destruct SB1 as [Rb Lb1]. destruct SS1 as [Rs Ls1].
      destruct (rate_step _ _ _ Rb Lb1) as [_ Mb]. destruct (rate_step _ _ _ Rs Ls1) as [_ Ms].
      rewrite K3, K4. split; assumption.
  - intros L1 L2 _ s1 Hq1. destruct (Key s1 Hq1) as (K1 & K2 & [[K3 K4]|[K3 K4]]).
    + rewrite K1, K2, K3, K4. split; assumption.
    + rewrite K1, K2, K3, K4. split; apply synced_sound; try assumption.
      * eapply Sound_backed. exact SB1.
      * eapply Sound_backed. exact SS1.
Qed.

Lemma unit_burnfrom_bsei s o a f : UnitOk (s, MWasm A_bsei (WCw20 (CBurnFrom o a)) f).
Proof.
  intros wa wb k (HW & HE & HM) HS HA H. apply Exec_cons_inv in H.
  destruct H as (w1 & out & w2 & n1 & n2 & Hs & H1 & H2 & _). apply Exec_nil_inv in H2. subst w2.
  pose proof (step_msg_emits_plain _ _ _ _ _ Hs) as Hpl.
  assert (HW1 : Wired w1) by (eapply step_msg_wired; [exact Hs|reflexivity|exact HW]).
  destruct (Wired_inv _ HW) as (h & r & d & g & tb & ts & Hh & Hr & Hd & Hg & Hb & Hst &
                                _ & _ & Wb & Ws & _ & _ & _ & _ & _ & _ & Wtb & _).
  apply step_bsei_inv in Hs. destruct Hs as (e1 & t & t' & ol & Hsend & Ht & He & -> & ->).
  rewrite Hb in Ht. inversion Ht; subst t; clear Ht.
  apply send_coins_static in Hsend. destruct Hsend as (_ & _ & Hdel1 & _).
  unfold bsei_execute in He. bind_inv He as rc Hrc. bind_inv He as t1 Hd1. bind_inv He as t2 Hbn.
  inversion He; subst t2 ol; clear He.
  apply deduct_allowance_spec in Hd1. destruct Hd1 as (a0 & _ & _ & _ & _ & _ & S1 & M1 & _).
  apply tok_burn_spec in Hbn. destruct Hbn as (_ & _ & _ & S2 & M2 & _).
  set (w1 := set_bsei (set_env wa e1) t') in *.
  assert (St : Step wa w1).
  { apply (supply_drop_step wa w1 h tb t' ts ts Wb Ws Hh Hh Hb eq_refl Hst Hst); try assumption; lia. }
  assert (HG1 : Good w1).
  { split; [exact HW1|]. split; [apply (EntWf_ext wa); [reflexivity|exact Hdel1|exact HE]|].
    apply (MinterOk_set_bsei (set_env wa e1) tb t'); [exact Hb|congruence|].
    apply (MinterOk_same wa); [reflexivity|reflexivity|exact HM]. }
  rewrite Wtb in H1, Hpl.
  destruct (inert_forest _ _ _ _ H1 HG1) as [HGb Q]; [|exact Hpl|].
  { cbn [map]. unfold m_dec. constructor; [apply inert_reward_msg|constructor; [reflexivity|constructor]]. }
  split; [exact HGb|]. eapply step_quiet_r; [exact St|exact Q].
Qed.

Lemma unit_burnfrom_stsei s o a f : UnitOk (s, MWasm A_stsei (WCw20 (CBurnFrom o a)) f).
Proof.
  intros wa wb k (HW & HE & HM) HS HA H. apply Exec_cons_inv in H.
  destruct H as (w1 & out & w2 & n1 & n2 & Hs & H1 & H2 & _). apply Exec_nil_inv in H2. subst w2.
  pose proof (step_msg_emits_plain _ _ _ _ _ Hs) as Hpl.
  assert (HW1 : Wired w1) by (eapply step_msg_wired; [exact Hs|reflexivity|exact HW]).
  destruct (Wired_inv _ HW) as (h & r & d & g & tb & ts & Hh & Hr & Hd & Hg & Hb & Hst &
                                _ & _ & Wb & Ws & _ & _ & _ & _ & _ & _ & _ & Wts).
  apply step_stsei_inv in Hs. destruct Hs as (e1 & t & t' & ol & Hsend & Ht & He & -> & ->).
  rewrite Hst in Ht. inversion Ht; subst t; clear Ht.
  apply send_coins_static in Hsend. destruct Hsend as (_ & _ & Hdel1 & _).
  unfold stsei_execute in He. bind_inv He as t1 Hd1. bind_inv He as t2 Hbn.
  inversion He; subst t2 ol; clear He.
  apply deduct_allowance_spec in Hd1. destruct Hd1 as (a0 & _ & _ & _ & _ & _ & S1 & M1 & _).
  apply tok_burn_spec in Hbn. destruct Hbn as (_ & _ & _ & S2 & M2 & _).
  set (w1 := set_stsei (set_env wa e1) t') in *.
  assert (St : Step wa w1).
  { apply (supply_drop_step wa w1 h tb tb ts t' Wb Ws Hh Hh Hb Hb Hst eq_refl); try assumption; lia. }
  assert (HG1 : Good w1).
  { split; [exact HW1|]. split; [apply (EntWf_ext wa); [reflexivity|exact Hdel1|exact HE]|].
    apply (MinterOk_set_stsei (set_env wa e1) ts t'); [exact Hst|congruence|].
    apply (MinterOk_same wa); [reflexivity|reflexivity|exact HM]. }
  rewrite Wts in H1, Hpl.
  destruct (inert_forest _ _ _ _ H1 HG1) as [HGb Q]; [|exact Hpl|].
  { cbn [map]. constructor; [reflexivity|constructor]. }
  split; [exact HGb|]. eapply step_quiet_r; [exact St|exact Q].
Qed.

(** ** root messages *)
Definition tok_active (cm : cw20_msg) : Prop := send_to_hub cm \/ exists o a, cm = CBurnFrom o a.

Definition active_root (to : addr) (wm : wasm_msg) : Prop :=
  (to = A_hub /\ exists hm, wm = WHub hm /\ (pricing_hub hm \/ exists n, hm = HUpdateGlobal n)) \/
  (to = A_bsei /\ exists cm, wm = WCw20 cm /\ tok_active cm) \/
  (to = A_stsei /\ exists cm, wm = WCw20 cm /\ tok_active cm) \/
  (to = A_disp /\ wm = WDisp DDispatch) \/
  (to = A_reg /\ exists gm, wm = WReg gm /\ exists v, gm = GRemove v \/ gm = GRedelegations v).

Lemma inert_cw20_cases s cm : s <> A_hub -> inert_cw20 s cm = true \/ tok_active cm.
Proof.
  intros Hs. assert (E : negb (s =? A_hub) = true) by (apply negb_true_iff, N.eqb_neq; exact Hs).
  destruct cm; cbn [inert_cw20]; try (left; reflexivity); try (left; exact E).
  - destruct (c =? A_hub) eqn:Ec; [|left; reflexivity].
    apply N.eqb_eq in Ec. subst c. right. left. left. eauto.
  - right. right. eauto.
  - destruct (c =? A_hub) eqn:Ec; [|left; reflexivity].
    apply N.eqb_eq in Ec. subst c. right. left. right. eauto.
Qed.

Lemma root_cases s to wm f :
  s <> A_hub -> inert (s, MWasm to wm f) = true \/ active_root to wm.
Proof.
  intros Hs. unfold inert, inert_wasm. cbn [fst snd].
  destruct (to =? A_hub) eqn:E1.
  { apply N.eqb_eq in E1. subst to. destruct wm as [hm| | | | | |]; try (left; reflexivity).
    destruct hm; cbn [inert_hub]; try (left; reflexivity);
      right; left; (split; [reflexivity|]); eexists; (split; [reflexivity|]).
    - left. left. reflexivity.
    - left. right. left. reflexivity.
    - left. right. right. left. reflexivity.
    - right. eauto.
    - left. right. right. right. eauto. }
  destruct (to =? A_bsei) eqn:E2.
  { apply N.eqb_eq in E2. subst to. cbn [orb]. destruct wm as [| | | |cm| |]; try (left; reflexivity).
    destruct (inert_cw20_cases s cm Hs) as [H|H]; [left; exact H|].
    right. right. left. split; [reflexivity|]. eauto. }
  destruct (to =? A_stsei) eqn:E3.
  { apply N.eqb_eq in E3. subst to. cbn [orb]. destruct wm as [| | | |cm| |]; try (left; reflexivity).
    destruct (inert_cw20_cases s cm Hs) as [H|H]; [left; exact H|].
    right. right. right. left. split; [reflexivity|]. eauto. }
  cbn [orb].
  destruct (to =? A_disp) eqn:E4.
  { apply N.eqb_eq in E4. subst to. destruct wm as [| |dm| | | |]; try (left; reflexivity).
    destruct dm; try (left; reflexivity). right. right. right. right. left. split; reflexivity. }
  destruct (to =? A_reg) eqn:E5.
  { apply N.eqb_eq in E5. subst to. destruct wm as [| | |gm| | |]; try (left; reflexivity).
    destruct gm; try (left; reflexivity); right; right; right; right; right;
      (split; [reflexivity|]); eexists; (split; [reflexivity|]); eauto. }
  left. reflexivity.
Qed.

Lemma active_unit s to wm f : active_root to wm -> UnitOk (s, MWasm to wm f).
Proof.
  intros [H|[H|[H|[H|H]]]].
  - destruct H as (-> & hm & -> & [Hp|(n & ->)]); [apply unit_hub; exact Hp|apply unit_updglobal].
  - destruct H as (-> & cm & -> & [Hc|(o & a & ->)]); [apply unit_send_bsei; exact Hc|apply unit_burnfrom_bsei].
  - destruct H as (-> & cm & -> & [Hc|(o & a & ->)]); [apply unit_send_stsei; exact Hc|apply unit_burnfrom_stsei].
  - destruct H as (-> & ->). apply unit_dispatch.
  - destruct H as (-> & gm & -> & Hg). apply unit_registry. exact Hg.
Qed.

(** the four UpdateConfig messages emit at most one SetWithdrawAddress *)
Lemma rewire_root_out w s to wm f w1 out :
  rewire_wasm wm = true -> step_msg w s (MWasm to wm f) = Some (w1, out) ->
  out = [] \/ exists a, out = [(to, MSetWithdrawAddr a)].
Proof.
  intros Hr H. apply step_msg_inv in H.
  destruct H as [e' _ _ Hn | to' wm' funds e1 o Em Hsend Hc ->]; [exfalso; eapply Hn; reflexivity|].
  inversion Em; subst to' wm' funds; clear Em.
  destruct Hc as [h hm h' _ -> Hw He _ | r rm r' _ Hrm Hw He _ | d dm d' _ -> Hw He _
                 | g gm g' _ -> Hw He _ | t cm t' _ -> Hw He _ | t cm t' _ -> Hw He _
                 | sm e' _ -> He _ -> | _ _ ->]; cbn [rewire_wasm] in Hr; try discriminate Hr; try (left; reflexivity).
  - destruct hm; try discriminate Hr. unfold hub_execute in He. check_inv He as Hp.
    unfold execute_update_config in He. check_inv He as C1. check_inv He as C2. check_inv He as C3.
    inversion He; subst. destruct disp; [right; eexists; reflexivity|left; reflexivity].
  - destruct Hrm as [-> | (n & -> & ->)]; [|discriminate Hr].
    destruct rm; try discriminate Hr. cbn [reward_execute] in He. check_inv He as Hs. inversion He; subst.
    left. reflexivity.
  - destruct dm; try discriminate Hr. cbn [disp_execute] in He.
    check_inv He as Hs. check_inv He as Hstd. check_inv He as Hrate. inversion He; subst. left. reflexivity.
  - destruct gm; try discriminate Hr. cbn [reg_execute] in He. check_inv He as Hs. inversion He; subst.
    left. reflexivity.
Qed.

Lemma rewire_is_inert s to wm f : rewire_wasm wm = true -> inert (s, MWasm to wm f) = true.
Proof.
  intros Hr. unfold inert, inert_wasm. cbn [fst snd].
  destruct wm as [hm|rm|dm|gm| | |]; try discriminate Hr.
  - destruct hm; try discriminate Hr. destruct (to =? A_hub); [reflexivity|].
    destruct ((to =? A_bsei) || (to =? A_stsei)); [reflexivity|]. destruct (to =? A_disp); [reflexivity|].
    destruct (to =? A_reg); reflexivity.
  - destruct (to =? A_hub); [reflexivity|].
    destruct ((to =? A_bsei) || (to =? A_stsei)); [reflexivity|]. destruct (to =? A_disp); [reflexivity|].
    destruct (to =? A_reg); reflexivity.
  - destruct dm; try discriminate Hr. destruct (to =? A_hub); [reflexivity|].
    destruct ((to =? A_bsei) || (to =? A_stsei)); [reflexivity|]. destruct (to =? A_disp); [reflexivity|].
    destruct (to =? A_reg); reflexivity.
  - destruct gm; try discriminate Hr. destruct (to =? A_hub); [reflexivity|].
    destruct ((to =? A_bsei) || (to =? A_stsei)); [reflexivity|]. destruct (to =? A_disp); [reflexivity|].
    destruct (to =? A_reg); reflexivity.
Qed.

(** ** one transaction with an arbitrary root message *)
Theorem tx_step w s to wm f w' tr :
  Good w -> SoundRates w -> Answers w -> s <> A_hub ->
  run tx_fuel w [(s, MWasm to wm f)] [] = Some (w', tr) ->
  Step w w' /\ EntWf w' /\ MinterOk w' /\ (rewire_wasm wm = false -> Wired w').
Proof.
  intros HG HS HA Hs H. apply run_Exec in H. destruct H as [n H].
  destruct (rewire_wasm wm) eqn:Er.
  - (* one of the four UpdateConfig messages *)
    pose proof (rewire_is_inert s to wm f Er) as Hi.
    apply Exec_cons_inv in H. destruct H as (w1 & out & w2 & n1 & n2 & Hst & H1 & H2 & _).
    apply Exec_nil_inv in H2. subst w2.
    destruct (inert_step _ _ _ _ _ HG Hi Hst) as (Q1 & E1 & M1 & _ & _).
    destruct (rewire_root_out _ _ _ _ _ _ _ Er Hst) as [-> | (a & ->)].
    + apply Exec_nil_inv in H1. subst w'.
      split; [apply quiet_step; assumption|]. split; [exact E1|]. split; [exact M1|discriminate].
    + apply Exec_cons_inv in H1. destruct H1 as (w3 & out3 & w4 & n3 & n4 & Hs3 & H3 & H4 & _).
      apply Exec_nil_inv in H4. subst w4. cbn [step_msg] in Hs3. inversion Hs3; subst w3 out3; clear Hs3.
      apply Exec_nil_inv in H3. subst w'.
      assert (Q2 : Quiet w1 (set_env w1 (do_set_withdraw_addr (w_env w1) to a))) by (apply quiet_set_env; reflexivity).
      split; [apply quiet_step; [eapply Quiet_trans; eauto|exact HS]|].
      split; [apply (EntWf_ext w1); [reflexivity|reflexivity|exact E1]|].
      split; [apply (MinterOk_same w1); [reflexivity|reflexivity|exact M1]|discriminate].
  - destruct (root_cases s to wm f Hs) as [Hi|Ha].
    + destruct (forest_inert _ _ _ _ H HG HS) as [(A & B & C) St].
      * constructor; [exact Hi|constructor].
      * constructor; [exact Er|constructor].
      * auto.
    + destruct (active_unit s to wm f Ha _ _ _ HG HS HA H) as [(A & B & C) St]. auto.
Qed.

(** ** one operation of a history *)
Definition covered_op (o : op) : Prop :=
  match o with
  | OAdvance _ | OAccrue _ _ _ | OGift _ _ _ | OSetPrice _ | OSwapMode _ | OOracleMode _
  | OCanRedel _ _ | OLegacyWait _ _ _ => True
  | OTx sender _ _ _ => sender <> A_hub
  | _ => False
  end.

Definition plain_op (o : op) : Prop :=
  match o with OTx _ _ wm _ => rewire_wasm wm = false | _ => True end.

Lemma env_op_step w e' :
  Good w -> SoundRates w -> e_del e' = e_del (w_env w) ->
  Step w (set_env w e') /\ MinterOk (set_env w e') /\ Wired (set_env w e').
Proof.
  intros (HW & HE & HM) HS Hd.
  split; [apply quiet_step; [apply quiet_set_env; exact Hd|exact HS]|].
  split; [apply (MinterOk_same w); [reflexivity|reflexivity|exact HM]|].
  eapply Wired_wdata; [apply wdata_set_env|exact HW].
Qed.

Theorem op_step w o :
  Good w -> SoundRates w -> Answers w -> covered_op o ->
  Step w (fst (step w o)) /\ EntWf (fst (step w o)) /\ MinterOk (fst (step w o)) /\
  (plain_op o -> Wired (fst (step w o))).
Proof.
  intros HG HS HA Hc. pose proof HG as (HW & HE & HM).
  assert (HE' : EntWf (fst (step w o))) by (apply step_entwf; exact HE).
  assert (Hsame : Step w w /\ MinterOk w /\ Wired w).
  { split; [apply quiet_step; [apply Quiet_refl|exact HS]|]. auto. }
  assert (Henv : forall e', e_del e' = e_del (w_env w) ->
            Step w (set_env w e') /\ EntWf (set_env w e') ->
            Step w (set_env w e') /\ EntWf (set_env w e') /\ MinterOk (set_env w e') /\ (plain_op o -> Wired (set_env w e'))).
  { intros e' Hd [A B]. destruct (env_op_step w e' HG HS Hd) as (_ & C & D). auto. }
  destruct o; cbn [covered_op] in Hc; try contradiction; cbn [step] in *.
  - (* OAdvance *)
    destruct (e_now (w_env w) + dt <=? 18446744073); cbn [fst] in *.
    + destruct (env_op_step w (ev_advance (w_env w) dt) HG HS (ev_advance_del _ _)) as (A & C & D). auto.
    + destruct Hsame as (A & C & D). auto.
  - (* OAccrue *)
    destruct (ev_accrue (w_env w) A_hub v d a) as [e'|] eqn:Ea; cbn [fst] in *.
    + destruct (env_op_step w e' HG HS (ev_accrue_del _ _ _ _ _ _ Ea)) as (A & C & D). auto.
    + destruct Hsame as (A & C & D). auto.
  - (* OGift *)
    cbn [fst] in *. destruct (env_op_step w (credit (w_env w) a d x) HG HS eq_refl) as (A & C & D). auto.
  - (* OSetPrice *)
    destruct (p =? 0); cbn [fst] in *.
    + destruct Hsame as (A & C & D). auto.
    + destruct (env_op_step w (set_price (w_env w) p) HG HS eq_refl) as (A & C & D). auto.
  - cbn [fst] in *. destruct (env_op_step w (set_swapmode (w_env w) m) HG HS eq_refl) as (A & C & D). auto.
  - cbn [fst] in *. destruct (env_op_step w (set_oraclemode (w_env w) m) HG HS eq_refl) as (A & C & D). auto.
  - cbn [fst] in *.
    match goal with |- Step w (set_env w ?E) /\ _ => destruct (env_op_step w E HG HS eq_refl) as (A & C & D) end. auto.
  - (* OLegacyWait *)
    destruct (w_hub w) as [h|] eqn:Hh; cbn [fst] in *.
    + set (h' := set_h_oldwait h (oldwait_put (h_oldwait h) (a, batch) amt)) in *.
      assert (Q : Quiet w (set_hub w h')).
      { apply rd_quiet. eapply rd_ext_hub; [exact Hh|reflexivity|reflexivity|reflexivity|reflexivity|reflexivity]. }
      split; [apply quiet_step; assumption|]. split; [exact HE'|].
      split; [apply (MinterOk_same w); [reflexivity|reflexivity|exact HM]|].
      intros _. eapply Wired_wdata; [|exact HW]. unfold wdata. cbn [w_hub w_reward w_disp w_reg w_bsei w_stsei set_hub].
      rewrite Hh. reflexivity.
    + destruct Hsame as (A & C & D). auto.
  - (* OTx *)
    destruct (run tx_fuel w [(sender, MWasm target m funds)] []) as [[w1 tr]|] eqn:Er; cbn [fst] in *.
    + destruct (tx_step _ _ _ _ _ _ _ HG HS HA Hc Er) as (A & B & C & D). auto.
    + destruct Hsame as (A & C & D). auto.
Qed.

(** the statement of the assignment, for one operation *)
Corollary rate_monotone_op w o s s' :
  Wired w -> EntWf w -> MinterOk w -> SoundRates w -> covered_op o ->
  hub_query_state w A_hub = Some s -> hub_query_state (fst (step w o)) A_hub = Some s' ->
  (0 < w_claims_b (fst (step w o)) -> hs_ber s <= hs_ber s') /\
  (0 < w_claims_st (fst (step w o)) -> hs_ser s <= hs_ser s').
Proof.
  intros HW HE HM HS Hc Hq Hq'.
  destruct (op_step w o (conj HW (conj HE HM)) HS (ex_intro _ s Hq) Hc) as ([Hmono _] & _).
  exact (Hmono s s' Hq Hq').
Qed.

(** ** histories *)
Definition HistEnv (w : world) : Prop := Wired w /\ RateEnv w.

Theorem rate_monotone_history_all : forall ops w s s',
  Forall covered_op ops -> EntWf w -> MinterOk w -> SoundRates w -> always HistEnv ops w ->
  hub_query_state w A_hub = Some s -> hub_query_state (run_ops ops w) A_hub = Some s' ->
  hs_ber s <= hs_ber s' /\ hs_ser s <= hs_ser s'.
Proof.
  induction ops as [|o ops IH]; intros w s s' Hops HE HM HS HA Hq Hq'.
  - cbn [run_ops fold_left] in Hq'. rewrite Hq in Hq'. inversion Hq'; subst. split; lia.
  - apply Forall_cons_iff in Hops. destruct Hops as [Ho Hops].
    cbn [always] in HA. destruct HA as [[HW _] HA].
    pose proof (always_head _ _ _ HA) as (HW1 & HE1 & Hcb & Hcs).
    change (run_ops (o :: ops) w) with (run_ops ops (fst (step w o))) in Hq'.
    destruct (op_step w o (conj HW (conj HE HM)) HS (ex_intro _ s Hq) Ho) as ([Hmono Hnext] & HEnt1 & HM1 & _).
    set (w1 := fst (step w o)) in *.
    destruct (rt_E1_claims w1 HW1 HE1) as [L1 L2].
    destruct (rt_query_some w1 HW1 HE1) as [s1 Hq1].
    destruct (Hmono s s1 Hq Hq1) as [M1 M2].
    assert (HS1 : SoundRates w1) by (apply Hnext; [exact L1|exact L2|left; exact Hcb]).
    destruct (IH w1 s1 s' Hops HEnt1 HM1 HS1 HA Hq1 Hq') as [I1 I2].
    split; [specialize (M1 Hcb) | specialize (M2 Hcs)]; lia.
Qed.

(** the coin value floor(balance x rate) of a fixed balance never shrinks along such a history *)
Corollary coin_value_history : forall ops w s s' a,
  Forall covered_op ops -> EntWf w -> MinterOk w -> SoundRates w -> always HistEnv ops w ->
  hub_query_state w A_hub = Some s -> hub_query_state (run_ops ops w) A_hub = Some s' ->
  a * hs_ber s / D <= a * hs_ber s' / D /\ a * hs_ser s / D <= a * hs_ser s' / D.
Proof.
  intros ops w s s' a Hops HE HM HS HA Hq Hq'.
  destruct (rate_monotone_history_all ops w s s' Hops HE HM HS HA Hq Hq') as [A B].
  split; apply coin_value_monotone; assumption.
Qed.

(** ** which operations are excluded *)
Lemma covered_op_iff o : covered_op o <->
  (forall v num den unb, o <> OSlash v num den unb) /\
  (forall ut, o <> OReset ut) /\
  (forall a b c d e f g h, o <> OInstHub a b c d e f g h) /\
  (forall a b c d e, o <> OInstReward a b c d e) /\
  (forall a b c d e f g h i j, o <> OInstDisp a b c d e f g h i j) /\
  (forall a b c, o <> OInstReg a b c) /\
  (forall a b c, o <> OInstBsei a b c) /\
  (forall a b c d, o <> OInstStsei a b c d) /\
  (forall t m f, o <> OTx A_hub t m f).
Proof.
  split.
  - intros H. destruct o; cbn [covered_op] in H; try contradiction;
      repeat split; intros; try discriminate.
    intros E. inversion E. congruence.
  - intros (H1 & H2 & H3 & H4 & H5 & H6 & H7 & H8 & H9).
    destruct o; cbn [covered_op]; try exact I;
      try (exfalso; solve [eapply H1; reflexivity | eapply H2; reflexivity | eapply H3; reflexivity
                          | eapply H4; reflexivity | eapply H5; reflexivity | eapply H6; reflexivity
                          | eapply H7; reflexivity | eapply H8; reflexivity]).
    intros ->. eapply H9. reflexivity.
Qed.

(** ** UpdateGlobalIndex: no cw20 ledger is touched *)
Definition idx_wasm (wm : wasm_msg) : bool :=
  match wm with
  | WHub (HUpdateGlobal _) | WHub HBondRewards | WDisp (DSwap _ _) | WDisp DDispatch | WSwap _ | WOpaque => true
  | _ => false
  end.
Definition idx_msg (sm : addr * cmsg) : bool :=
  match snd sm with MWasm _ wm _ => idx_wasm wm | _ => true end.

Lemma convert_loop_idx w dp : forall coins tsei tusd msgs r,
  Forall (fun x => idx_msg (A_disp, x) = true) msgs -> convert_loop w dp coins tsei tusd msgs = Some r ->
  Forall (fun x => idx_msg (A_disp, x) = true) (snd r).
Proof.
  induction coins as [|c cs IH]; intros tsei tusd msgs r Hm H; cbn [convert_loop] in H.
  - inversion H; subst. exact Hm.
  - destruct (negb (existsb (N.eqb (fst c)) (dp_denoms dp))); [eapply IH; eauto|].
    destruct (fst c =? dp_std dp); [bind_inv H as t Ht; eapply IH; eauto|].
    destruct (fst c =? dp_bd dp); [bind_inv H as t Ht; eapply IH; eauto|].
    destruct (negb (snd c =? 0)); [|eapply IH; eauto].
    check_inv H as Hsw. bind_inv H as ret Hret. bind_inv H as t Ht.
    eapply IH; [|exact H]. apply Forall_app. split; [exact Hm|]. constructor; [reflexivity|constructor].
Qed.

Lemma idx_tag (to : addr) (o : list cmsg) :
  Forall (fun m => idx_msg (to, m) = true) o -> Forall (fun x => idx_msg x = true) (map (fun x => (to, x)) o).
Proof.
  intros H. apply Forall_forall. intros sm Hi. apply in_map_iff in Hi. destruct Hi as (m & <- & Hm).
  exact (proj1 (Forall_forall _ _) H m Hm).
Qed.

Lemma idx_step w s m w1 out :
  idx_msg (s, m) = true -> step_msg w s m = Some (w1, out) ->
  w_bsei w1 = w_bsei w /\ w_stsei w1 = w_stsei w /\ Forall (fun x => idx_msg x = true) out.
Proof.
  intros Hi H. apply step_msg_inv in H.
  destruct H as [e' -> -> Hn | to wm funds e1 o -> Hsend Hc ->]; [repeat split; constructor|].
  unfold idx_msg in Hi. cbn [snd] in Hi.
  destruct Hc as [h hm h' _ -> Hw He -> | r rm r' _ Hrm Hw He -> | d dm d' _ -> Hw He ->
                 | g gm g' _ -> Hw He -> | t cm t' _ -> Hw He -> | t cm t' _ -> Hw He ->
                 | sm e' _ -> He -> -> | _ -> ->]; cbn [idx_wasm] in Hi; try discriminate Hi;
    try (repeat split; constructor).
  - (* hub *)
    split; [reflexivity|]. split; [reflexivity|]. apply idx_tag. unfold hub_execute in He.
    destruct hm; try discriminate Hi.
    + check_inv He as Hp. apply bond_rewards_exact in He.
      destruct He as (pay & s1 & sup & ser & vals & xs & _ & _ & _ & _ & _ & _ & _ & _ & _ & _ & Hall & _).
      apply Forall_forall. intros m Hm. destruct (Hall m Hm) as (v & c & ->). reflexivity.
    + check_inv He as Hp. apply update_global_exact in He.
      destruct He as (_ & da & hooks & _ & Hn0 & Hnn & -> & _).
      apply Forall_app. split.
      * destruct (N.eq_dec nhooks 0) as [Z|NZ]; [rewrite (Hn0 Z); constructor|].
        destruct (Hnn NZ) as (reg & _ & ->). apply Forall_repeat. reflexivity.
      * apply Forall_app. split.
        -- unfold withdraw_msgs. apply Forall_forall. intros m Hm. apply in_map_iff in Hm.
           destruct Hm as (x & <- & _). reflexivity.
        -- unfold ugi_tail. constructor; [reflexivity|constructor; [reflexivity|constructor]].
  - (* reward contract: only the hub-shaped UpdateGlobalIndex gets here *)
    split; [reflexivity|]. split; [reflexivity|].
    destruct Hrm as [-> | (n & -> & ->)]; [discriminate Hi|].
    apply reward_update_index_exact in He. destruct He as (-> & _). constructor.
  - (* dispatcher *)
    split; [reflexivity|]. split; [reflexivity|]. apply idx_tag.
    destruct dm; try discriminate Hi.
    + cbn [disp_execute] in He. check_inv He as Hs. bind_inv He as r Hr. destruct r as [[tsei tusd] msgs].
      apply convert_loop_idx in Hr; [|constructor]. cbn [snd] in Hr.
      check_inv He as Hor. bind_inv He as s2u Hs2u. bind_inv He as u2s Hu2s. bind_inv He as info Hinfo.
      destruct info as [[od oa] ask]. inversion He; subst.
      destruct (oa =? 0); [exact Hr|]. apply Forall_app. split; [exact Hr|]. constructor; [reflexivity|constructor].
    + apply dispatch_exact in He. destruct He as (_ & _ & ->). unfold dispatch_msgs. cbv zeta.
      apply Forall_app. split; [destruct (_ =? 0); repeat (constructor; [reflexivity|]); constructor|].
      apply Forall_app. split; [|constructor; [reflexivity|constructor]].
      destruct (_ =? 0); [constructor|]. constructor; [reflexivity|].
      destruct (_ =? 0); [constructor|constructor; [reflexivity|constructor]].
Qed.

Lemma idx_forest w l w' n :
  Exec w l w' n -> Forall (fun x => idx_msg x = true) l -> w_bsei w' = w_bsei w /\ w_stsei w' = w_stsei w.
Proof.
  induction 1 as [w | w s m w1 out w2 rest w3 n1 n2 Hstep H1 IH1 H2 IH2]; intros HI; [auto|].
  apply Forall_cons_iff in HI. destruct HI as [Hi HI].
  destruct (idx_step _ _ _ _ _ Hi Hstep) as (A & B & C).
  destruct (IH1 C) as [A1 B1]. destruct (IH2 HI) as [A2 B2]. split; congruence.
Qed.

(** Re-bonding the staking rewards: the transaction mints nothing (both cw20 ledgers are literally
    unchanged) and lowers no reported rate; in particular the stSei rate only rises *)
Theorem update_global_index_no_mint w sender n f w' tr s s' :
  Wired w -> EntWf w -> MinterOk w -> SoundRates w ->
  run tx_fuel w [(sender, MWasm A_hub (WHub (HUpdateGlobal n)) f)] [] = Some (w', tr) ->
  hub_query_state w A_hub = Some s -> hub_query_state w' A_hub = Some s' ->
  w_bsei w' = w_bsei w /\ w_stsei w' = w_stsei w /\
  (0 < w_claims_st w' -> hs_ser s <= hs_ser s') /\ (0 < w_claims_b w' -> hs_ber s <= hs_ber s').
Proof.
  intros HW HE HM HS H Hq Hq'. apply run_Exec in H. destruct H as [k H].
  destruct (idx_forest _ _ _ _ H) as [A B]; [constructor; [reflexivity|constructor]|].
  destruct (unit_updglobal sender n f w w' k (conj HW (conj HE HM)) HS (ex_intro _ s Hq) H) as [_ [Hm _]].
  destruct (Hm s s' Hq Hq') as [M1 M2]. auto.
Qed.

(** ** a slashing event does lower the reported rates *)
Example slash_lowers_rate_witness :
  ~ covered_op (OSlash 0 1 10 false) /\
  Wired world0 /\ EntWf world0 /\ SoundRates world0 /\
  hub_query_state world0 A_hub = Some rx_s0 /\
  fst (step world0 (OSlash 0 1 10 false)) = worldS /\
  hub_query_state worldS A_hub = Some rx_sS /\
  0 < w_claims_b worldS /\ 0 < w_claims_st worldS /\
  hs_ber rx_sS < hs_ber rx_s0 /\ hs_ser rx_sS < hs_ser rx_s0.
Proof.
  split; [intros H; exact H|]. split; [exact rx_wired0|]. split; [exact rx_entwf0|]. split; [exact rx_sound0|].
  split; [exact rx_query0|]. split; [vm_compute; reflexivity|]. split; [exact rx_queryS|].
  repeat split; vm_compute; reflexivity.
Qed.

(** ** non-vacuity: a mixed history from the slashed world of Proofs/RateTxExamples.v *)
Definition hx_ops : list op :=
  [ OAdvance 10;
    OAccrue 0 usei 50000;
    OAccrue 1 uusd 7000;
    OGift A_hub usei 123;
    OTx alice A_bsei (WCw20 (CTransfer bob 1000)) [];
    OTx bob A_stsei (WCw20 (CIncAllow alice 5000 None)) [];
    OTx alice A_stsei (WCw20 (CBurnFrom bob 500)) [];
    OTx alice A_bsei (WCw20 (CSend A_hub 3000 HkUnbond)) [];
    OAdvance 31;
    OTx bob A_stsei (WCw20 (CSend A_hub 4000 HkUnbond)) [];
    OTx updater A_hub (WHub (HUpdateGlobal 0)) [];
    OTx alice A_hub (WHub HBond) [(usei, 500000)];
    OTx bob A_hub (WHub HCheckSlashing) [];
    OTx bob A_stsei (WCw20 (CSend A_hub 1000 HkConvert)) [];
    OAdvance 200;
    OTx alice A_hub (WHub HWithdraw) [];
    OTx A_owner A_reg (WReg (GRemove 2)) [];
    OTx bob A_reg (WReg (GRedelegations 2)) [];
    OSetPrice 5; OSwapMode SwFail; OOracleMode OrZero; OCanRedel 1 false;
    OTx A_owner A_hub (WHub (HParams None None (Some 0) None None None)) [];
    OLegacyWait alice 1 5;
    OTx alice A_hub (WHub HBondRewards) [(usei, 5)];
    OTx alice A_bsei (WCw20 (CMint alice 1000000)) [] ].

Fixpoint op_flags (ops : list op) (w : world) : list bool :=
  match ops with [] => [] | o :: r => fst (snd (step w o)) :: op_flags r (fst (step w o)) end.

Lemma hx_minterS : MinterOk worldS.
Proof.
  split; intros t E; vm_compute in E; inversion E; subst t; intros m cap Em; vm_compute in Em;
    inversion Em; reflexivity.
Qed.

Example hist_nonvacuous :
  Forall covered_op hx_ops /\ EntWf worldS /\ MinterOk worldS /\ SoundRates worldS /\
  always HistEnv hx_ops worldS /\
  hub_query_state worldS A_hub = Some rx_sS /\
  (* the first 24 operations succeed (transfers, allowance, BurnFrom, both Unbonds - the second one
     closes the batch and undelegates -, UpdateGlobalIndex, Bond, CheckSlashing, Convert,
     WithdrawUnbonded, RemoveValidator with its redelegations and index update, ...); a BondRewards
     and a Mint sent by a user are rejected *)
  op_flags hx_ops worldS = repeat true 24 ++ [false; false] /\
  exists s', hub_query_state (run_ops hx_ops worldS) A_hub = Some s' /\
    hs_ber rx_sS < hs_ber s' /\ hs_ser rx_sS < hs_ser s'.
Proof.
  split.
  { unfold hx_ops. repeat (apply Forall_cons; [first [exact I | (intros E; discriminate E)]|]). apply Forall_nil. }
  split; [exact rx_entwfS|]. split; [exact hx_minterS|]. split; [exact rx_soundS|].
  split; [vm_compute; repeat split; discriminate|].
  split; [exact rx_queryS|]. split; [vm_compute; reflexivity|].
  eexists. split; [vm_compute; reflexivity|]. split; vm_compute; reflexivity.
Qed.

(** the history theorem applied to the example *)
Example hist_example_by_theorem : forall s',
  hub_query_state (run_ops hx_ops worldS) A_hub = Some s' ->
  hs_ber rx_sS <= hs_ber s' /\ hs_ser rx_sS <= hs_ser s'.
Proof.
  intros s' Hq. destruct hist_nonvacuous as (A & B & C & E & F & G & _).
  exact (rate_monotone_history_all hx_ops worldS rx_sS s' A B C E F G Hq).
Qed.

(** why transactions signed by the hub contract's own address are excluded (no such signer exists on
    a chain: a contract address has no key): the token accepts a Mint from its minter, the hub *)
Example hub_signed_mint_witness :
  let o := OTx A_hub A_bsei (WCw20 (CMint alice 1000000)) [] in
  ~ covered_op o /\ fst (snd (step world0 o)) = true /\
  exists s', hub_query_state (fst (step world0 o)) A_hub = Some s' /\
    0 < w_claims_b (fst (step world0 o)) /\ hs_ber s' < hs_ber rx_s0.
Proof.
  cbv zeta. split; [intros H; apply H; reflexivity|]. split; [vm_compute; reflexivity|].
  eexists. split; [vm_compute; reflexivity|]. split; vm_compute; reflexivity.
Qed.

(** ** statements for the property file (definitions unfolded) *)
Lemma def_rate4 : forall s, rate4 s = (hs_ber s, hs_ser s, hs_bb s, hs_bst s).
Proof. reflexivity. Qed.

Lemma def_nilb : forall (A : Type) (l : list A), nilb l = match l with [] => true | _ => false end.
Proof. reflexivity. Qed.

Lemma def_op_flags : forall ops w, op_flags ops w =
  match ops with [] => [] | o :: r => fst (snd (step w o)) :: op_flags r (fst (step w o)) end.
Proof. intros ops w. destruct ops; reflexivity. Qed.

Lemma def_hx_ops : hx_ops =
  [ OAdvance 10;
    OAccrue 0 usei 50000;
    OAccrue 1 uusd 7000;
    OGift A_hub usei 123;
    OTx alice A_bsei (WCw20 (CTransfer bob 1000)) [];
    OTx bob A_stsei (WCw20 (CIncAllow alice 5000 None)) [];
    OTx alice A_stsei (WCw20 (CBurnFrom bob 500)) [];
    OTx alice A_bsei (WCw20 (CSend A_hub 3000 HkUnbond)) [];
    OAdvance 31;
    OTx bob A_stsei (WCw20 (CSend A_hub 4000 HkUnbond)) [];
    OTx updater A_hub (WHub (HUpdateGlobal 0)) [];
    OTx alice A_hub (WHub HBond) [(usei, 500000)];
    OTx bob A_hub (WHub HCheckSlashing) [];
    OTx bob A_stsei (WCw20 (CSend A_hub 1000 HkConvert)) [];
    OAdvance 200;
    OTx alice A_hub (WHub HWithdraw) [];
    OTx A_owner A_reg (WReg (GRemove 2)) [];
    OTx bob A_reg (WReg (GRedelegations 2)) [];
    OSetPrice 5; OSwapMode SwFail; OOracleMode OrZero; OCanRedel 1 false;
    OTx A_owner A_hub (WHub (HParams None None (Some 0) None None None)) [];
    OLegacyWait alice 1 5;
    OTx alice A_hub (WHub HBondRewards) [(usei, 5)];
    OTx alice A_bsei (WCw20 (CMint alice 1000000)) [] ].
Proof. reflexivity. Qed.

Lemma def_rd : forall w, rd w =
  (option_map (fun h => (rate4 (h_state h), cb_reqb (h_batch h), cb_reqst (h_batch h),
                         hc_bsei (h_cfg h), hc_stsei (h_cfg h), hp_underlying (h_params h))) (w_hub w),
   option_map tk_supply (w_bsei w), option_map tk_supply (w_stsei w),
   nilb (all_delegations (w_env w) A_hub), delegated (w_env w) A_hub).
Proof. reflexivity. Qed.

Lemma def_MinterOk : forall w, MinterOk w <->
  (forall t m cap, w_bsei w = Some t -> tk_minter t = Some (m, cap) -> m = A_hub) /\
  (forall t m cap, w_stsei w = Some t -> tk_minter t = Some (m, cap) -> m = A_hub).
Proof.
  intros w. unfold MinterOk, minter_ok. split; intros [A B]; split; intros; eauto.
Qed.

Lemma def_inert : forall s m, inert (s, m) =
  match m with
  | MWasm to wm _ =>
      if to =? A_hub then
        match wm with
        | WHub HBond | WHub HBondSt | WHub (HUpdateGlobal _) => false
        | WHub HBondRewards => negb (s =? A_disp)
        | WHub (HReceive _ _ hk) =>
            (match hk with HkJunk => true | _ => false end) || (negb (s =? A_bsei) && negb (s =? A_stsei))
        | _ => true
        end
      else if (to =? A_bsei) || (to =? A_stsei) then
        match wm with
        | WCw20 (CSend c _ hk) | WCw20 (CSendFrom _ c _ hk) =>
            negb (c =? A_hub) || (match hk with HkJunk => true | _ => false end)
        | WCw20 (CBurn _) | WCw20 (CMint _ _) | WCw20 (CUpdMinter _) => negb (s =? A_hub)
        | WCw20 (CBurnFrom _ _) => false
        | _ => true
        end
      else if to =? A_disp then match wm with WDisp DDispatch => false | _ => true end
      else if to =? A_reg then
        match wm with WReg (GRemove _) | WReg (GRedelegations _) => false | _ => true end
      else true
  | MDelegate _ _ | MUndelegate _ _ => negb (s =? A_hub)
  | _ => true
  end.
Proof.
  intros s m. destruct m; reflexivity.
Qed.

Lemma def_plain : forall m, plain m <->
  match m with
  | MWasm _ (WHub (HConfig _ _ _ _ _ _ _)) _ | MWasm _ (WReward (RConfig _ _ _)) _
  | MWasm _ (WDisp (DConfig _ _ _ _ _ _)) _ | MWasm _ (WReg (GConfig _)) _ => False
  | _ => True
  end.
Proof.
  intros m. unfold plain, rewire. destruct m as [to wm f| | | | | |]; try (split; [intros _; exact I|reflexivity]).
  destruct wm as [hm|rm|dm|gm| | |]; cbn [rewire_wasm]; try (split; [intros _; exact I|reflexivity]).
  - destruct hm; split; try (intros _; exact I); try reflexivity; try discriminate; try contradiction.
  - destruct rm; split; try (intros _; exact I); try reflexivity; try discriminate; try contradiction.
  - destruct dm; split; try (intros _; exact I); try reflexivity; try discriminate; try contradiction.
  - destruct gm; split; try (intros _; exact I); try reflexivity; try discriminate; try contradiction.
Qed.

Lemma def_pricing_hub : forall hm, pricing_hub hm <->
  hm = HBond \/ hm = HBondSt \/ hm = HBondRewards \/ exists u a hk, hm = HReceive u a hk.
Proof. intros hm. reflexivity. Qed.

Lemma def_plain_op : forall o, plain_op o <->
  match o with OTx _ _ wm _ => rewire_wasm wm = false | _ => True end.
Proof. intros o. reflexivity. Qed.

Lemma def_HistEnv : forall w, HistEnv w <-> Wired w /\ RateEnv w.
Proof. intros w. reflexivity. Qed.

Lemma ph_rate_frame w w' :
  rd w' = rd w ->
  option_map rate4 (hub_query_state w' A_hub) = option_map rate4 (hub_query_state w A_hub) /\
  w_claims_b w' = w_claims_b w /\ w_claims_st w' = w_claims_st w.
Proof. exact (rd_quiet w w'). Qed.

Lemma ph_check_slashing_reports_same w h h1 :
  w_hub w = Some h -> slashing w A_hub h = Some h1 ->
  option_map rate4 (hub_query_state (set_hub w h1) A_hub) = option_map rate4 (hub_query_state w A_hub) /\
  w_claims_b (set_hub w h1) = w_claims_b w /\ w_claims_st (set_hub w h1) = w_claims_st w.
Proof. exact (slashing_quiet w h h1). Qed.

Lemma ph_inert_step w s m w1 out :
  Wired w -> EntWf w -> MinterOk w -> inert (s, m) = true -> step_msg w s m = Some (w1, out) ->
  (option_map rate4 (hub_query_state w1 A_hub) = option_map rate4 (hub_query_state w A_hub) /\
   w_claims_b w1 = w_claims_b w /\ w_claims_st w1 = w_claims_st w) /\
  EntWf w1 /\ MinterOk w1 /\ (plain m -> Wired w1) /\ Forall (fun x => inert x = true) out.
Proof. intros A B C. exact (inert_step w s m w1 out (conj A (conj B C))). Qed.

Lemma ph_inert_forest w l w' n :
  Exec w l w' n -> Wired w -> EntWf w -> MinterOk w ->
  Forall (fun x => inert x = true) l -> Forall (fun sm => plain (snd sm)) l ->
  (Wired w' /\ EntWf w' /\ MinterOk w') /\
  option_map rate4 (hub_query_state w' A_hub) = option_map rate4 (hub_query_state w A_hub) /\
  w_claims_b w' = w_claims_b w /\ w_claims_st w' = w_claims_st w.
Proof. intros H A B C. exact (inert_forest w l w' n H (conj A (conj B C))). Qed.

Lemma ph_pricing_unit w s hm funds w1 out w2 n :
  Wired w -> EntWf w -> MinterOk w -> SoundRates w ->
  hm = HBond \/ hm = HBondSt \/ hm = HBondRewards \/ (exists u a hk, hm = HReceive u a hk) ->
  step_msg w s (MWasm A_hub (WHub hm) funds) = Some (w1, out) -> Exec w1 out w2 n ->
  (Wired w2 /\ EntWf w2 /\ MinterOk w2) /\
  (forall s0 s2, hub_query_state w A_hub = Some s0 -> hub_query_state w2 A_hub = Some s2 ->
     (0 < w_claims_b w2 -> hs_ber s0 <= hs_ber s2) /\ (0 < w_claims_st w2 -> hs_ser s0 <= hs_ser s2)) /\
  (w_claims_b w2 <= LIM -> w_claims_st w2 <= LIM -> 0 < w_claims_b w2 \/ 0 < w_claims_st w2 -> SoundRates w2).
Proof. intros A B C. exact (pricing_unit w s hm funds w1 out w2 n (conj A (conj B C))). Qed.

Lemma ph_root_cases s to wm f :
  s <> A_hub ->
  inert (s, MWasm to wm f) = true \/
  (to = A_hub /\ exists hm, wm = WHub hm /\
     ((hm = HBond \/ hm = HBondSt \/ hm = HBondRewards \/ exists u a hk, hm = HReceive u a hk) \/
      exists n, hm = HUpdateGlobal n)) \/
  (to = A_bsei /\ exists cm, wm = WCw20 cm /\
     (((exists a hk, cm = CSend A_hub a hk) \/ (exists o a hk, cm = CSendFrom o A_hub a hk)) \/
      exists o a, cm = CBurnFrom o a)) \/
  (to = A_stsei /\ exists cm, wm = WCw20 cm /\
     (((exists a hk, cm = CSend A_hub a hk) \/ (exists o a hk, cm = CSendFrom o A_hub a hk)) \/
      exists o a, cm = CBurnFrom o a)) \/
  (to = A_disp /\ wm = WDisp DDispatch) \/
  (to = A_reg /\ exists gm, wm = WReg gm /\ exists v, gm = GRemove v \/ gm = GRedelegations v).
Proof. exact (root_cases s to wm f). Qed.

Lemma ph_tx_step w s to wm f w' tr :
  Wired w -> EntWf w -> MinterOk w -> SoundRates w ->
  (exists s0, hub_query_state w A_hub = Some s0) -> s <> A_hub ->
  run tx_fuel w [(s, MWasm to wm f)] [] = Some (w', tr) ->
  ((forall s0 s', hub_query_state w A_hub = Some s0 -> hub_query_state w' A_hub = Some s' ->
      (0 < w_claims_b w' -> hs_ber s0 <= hs_ber s') /\ (0 < w_claims_st w' -> hs_ser s0 <= hs_ser s')) /\
   (w_claims_b w' <= LIM -> w_claims_st w' <= LIM -> 0 < w_claims_b w' \/ 0 < w_claims_st w' -> SoundRates w')) /\
  EntWf w' /\ MinterOk w' /\ (rewire_wasm wm = false -> Wired w').
Proof. intros A B C. exact (tx_step w s to wm f w' tr (conj A (conj B C))). Qed.

Lemma ph_op_invariants w o :
  Wired w -> EntWf w -> MinterOk w -> SoundRates w ->
  (exists s0, hub_query_state w A_hub = Some s0) -> covered_op o ->
  EntWf (fst (step w o)) /\ MinterOk (fst (step w o)) /\ (plain_op o -> Wired (fst (step w o))) /\
  (w_claims_b (fst (step w o)) <= LIM -> w_claims_st (fst (step w o)) <= LIM ->
   0 < w_claims_b (fst (step w o)) \/ 0 < w_claims_st (fst (step w o)) -> SoundRates (fst (step w o))).
Proof.
  intros A B C HS HA Hc. destruct (op_step w o (conj A (conj B C)) HS HA Hc) as ([_ N] & E & M & W). auto.
Qed.
