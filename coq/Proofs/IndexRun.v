(** * IndexRun: reasoning about the depth-first executor [run] on stacks whose prefix is known.
    - [run_fuel_mono]: more fuel never changes a successful result;
    - [Exec w l w' n]: big-step, fuel-free reading of [run]: the messages of [l] (each tagged with
      its sender) and, depth first, everything they spawn execute successfully from [w] to [w'],
      in exactly [n] executed messages;
    - [Exec_run]: [run] on a stack [l ++ rest] first runs [l] to completion, then [rest];
    - [run_app] / [run_seq]: the same, stated on [run] alone;
    - [Exec_tx]: a tree of at most [tx_fuel] messages is a successful transaction;
    - [Exec_det]: the big-step relation is functional. *)
From Krp Require Import Tactics Prelude Fixed FMap Types Env Registry Cw20 Reward Dispatcher Hub Exec.
Open Scope N_scope.

Lemma run_nil f w tr : run f w [] tr = Some (w, tr).
Proof. destruct f; reflexivity. Qed.

Lemma run_cons f w s m rest tr :
  run (S f) w ((s, m) :: rest) tr =
  (do r <- step_msg w s m; run f (fst r) (snd r ++ rest) (tr ++ [(s, m)])).
Proof. reflexivity. Qed.

(** fuel monotonicity *)
Lemma run_fuel_mono : forall f w st tr r,
  run f w st tr = Some r -> forall k, run (f + k) w st tr = Some r.
Proof.
  induction f as [|f IH]; intros w st tr r H k.
  - destruct st as [|[s m] rest]; cbn [run] in H; [|discriminate].
    rewrite run_nil. exact H.
  - destruct st as [|[s m] rest].
    + rewrite run_nil. rewrite run_nil in H. exact H.
    + cbn [plus]. rewrite run_cons in *.
      destruct (step_msg w s m) as [r0|]; cbn [bind] in *; [|discriminate].
      apply IH. exact H.
Qed.

Lemma run_fuel_le f g w st tr r : (f <= g)%nat -> run f w st tr = Some r -> run g w st tr = Some r.
Proof. intros Hle H. replace g with (f + (g - f))%nat by lia. apply run_fuel_mono. exact H. Qed.

(** big-step execution of a list of pending messages, with the number of executed messages *)
Inductive Exec : world -> list (addr * cmsg) -> world -> nat -> Prop :=
| Exec_nil w : Exec w [] w 0
| Exec_cons w s m w1 out w2 rest w3 n1 n2 :
    step_msg w s m = Some (w1, out) ->
    Exec w1 out w2 n1 -> Exec w2 rest w3 n2 ->
    Exec w ((s, m) :: rest) w3 (S (n1 + n2)).

(** [run] on [l ++ rest] = run [l] to completion (with all the children it spawns), then [rest] *)
Lemma Exec_run w l w1 n : Exec w l w1 n ->
  forall rest f tr, exists ex, run (n + f) w (l ++ rest) tr = run f w1 rest (tr ++ ex).
Proof.
  induction 1 as [w | w s m w1 out w2 rest0 w3 n1 n2 Hstep H1 IH1 H2 IH2]; intros rest f tr.
  - exists []. rewrite app_nil_r. reflexivity.
  - cbn [app plus]. rewrite run_cons, Hstep. cbn [bind fst snd].
    destruct (IH1 (rest0 ++ rest) (n2 + f)%nat (tr ++ [(s, m)])) as [ex1 E1].
    destruct (IH2 rest f ((tr ++ [(s, m)]) ++ ex1)) as [ex2 E2].
    exists ([(s, m)] ++ ex1 ++ ex2).
    rewrite <- Nat.add_assoc, E1, E2. f_equal. rewrite !app_assoc. reflexivity.
Qed.

Lemma Exec_app w l1 w1 n1 : Exec w l1 w1 n1 ->
  forall l2 w2 n2, Exec w1 l2 w2 n2 -> Exec w (l1 ++ l2) w2 (n1 + n2).
Proof.
  induction 1 as [w | w s m w1 out w2 rest0 w3 n1 n2 Hstep H1 IH1 H2 IH2]; intros l2 w4 n4 H4.
  - exact H4.
  - cbn [app]. replace (S (n1 + n2) + n4)%nat with (S (n1 + (n2 + n4)))%nat by lia.
    eapply Exec_cons; [exact Hstep | exact H1 | apply IH2; exact H4].
Qed.

(** a message that spawns nothing *)
Lemma Exec_leaf w s m w1 : step_msg w s m = Some (w1, []) -> Exec w [(s, m)] w1 1.
Proof. intros H. change 1%nat with (S (0 + 0)). eapply Exec_cons; [exact H | constructor | constructor]. Qed.

Lemma Exec_leaf_cons w s m w1 rest w2 n :
  step_msg w s m = Some (w1, []) -> Exec w1 rest w2 n -> Exec w ((s, m) :: rest) w2 (S n).
Proof. intros H H2. change (S n) with (S (0 + n)). eapply Exec_cons; [exact H | constructor | exact H2]. Qed.

(** a tree of at most [tx_fuel] messages executes as one transaction *)
Lemma Exec_tx w l w' n : Exec w l w' n -> (n <= tx_fuel)%nat ->
  exists tr, run tx_fuel w l [] = Some (w', tr).
Proof.
  intros H Hn. destruct (Exec_run _ _ _ _ H [] (tx_fuel - n)%nat []) as [ex E].
  rewrite app_nil_r, run_nil in E. exists ([] ++ ex).
  replace tx_fuel with (n + (tx_fuel - n))%nat at 1 by lia. exact E.
Qed.

Lemma Exec_run_any w l w' n : Exec w l w' n -> forall f tr, (n <= f)%nat ->
  exists tr', run f w l tr = Some (w', tr').
Proof.
  intros H f tr Hn. destruct (Exec_run _ _ _ _ H [] (f - n)%nat tr) as [ex E].
  rewrite app_nil_r, run_nil in E. exists (tr ++ ex).
  replace f with (n + (f - n))%nat at 1 by lia. exact E.
Qed.

(** the relation is functional *)
Lemma Exec_det w l w1 n1 w2 n2 : Exec w l w1 n1 -> Exec w l w2 n2 -> w1 = w2.
Proof.
  intros H1 H2.
  destruct (Exec_run_any _ _ _ _ H1 (n1 + n2)%nat [] ltac:(lia)) as [t1 E1].
  destruct (Exec_run_any _ _ _ _ H2 (n1 + n2)%nat [] ltac:(lia)) as [t2 E2].
  rewrite E1 in E2. inversion E2. reflexivity.
Qed.

(** [run_app]: running [l1 ++ l2] = running [l1] to completion, then [l2], given enough fuel *)
Lemma run_app f1 f2 w l1 l2 tr w1 tr1 r :
  run f1 w l1 tr = Some (w1, tr1) -> run f2 w1 l2 tr1 = Some r ->
  run (f1 + f2) w (l1 ++ l2) tr = Some r.
Proof.
  revert w l1 tr. induction f1 as [|f IH]; intros w l1 tr H1 H2.
  - destruct l1 as [|[s m] rest]; cbn [run] in H1; [|discriminate]. inversion H1; subst. exact H2.
  - destruct l1 as [|[s m] rest].
    + rewrite run_nil in H1. inversion H1; subst. cbn [app].
      rewrite Nat.add_comm. apply run_fuel_mono. exact H2.
    + cbn [app plus]. rewrite run_cons in *.
      destruct (step_msg w s m) as [r0|]; cbn [bind] in *; [|discriminate].
      rewrite app_assoc. apply IH; assumption.
Qed.

(** [run_seq]: conversely, a successful run of [l1 ++ l2] passes through the completion of [l1] *)
Lemma run_seq f w l1 l2 tr w' tr' :
  run f w (l1 ++ l2) tr = Some (w', tr') ->
  exists w1 tr1, run f w l1 tr = Some (w1, tr1) /\ run f w1 l2 tr1 = Some (w', tr').
Proof.
  revert w l1 tr. induction f as [|f IH]; intros w l1 tr H.
  - destruct l1 as [|[s m] rest]; cbn [app run] in H.
    + exists w, tr. split; [reflexivity | exact H].
    + discriminate.
  - destruct l1 as [|[s m] rest].
    + exists w, tr. split; [apply run_nil | exact H].
    + cbn [app] in H. rewrite run_cons in H. rewrite run_cons.
      destruct (step_msg w s m) as [r0|]; cbn [bind] in *; [|discriminate].
      rewrite app_assoc in H. destruct (IH _ _ _ H) as (w1 & tr1 & E1 & E2).
      exists w1, tr1. split; [exact E1|].
      change (S f) with (1 + f)%nat. rewrite Nat.add_comm. apply run_fuel_mono. exact E2.
Qed.

(** conversely, every successful [run] is an [Exec] *)
Lemma run_Exec : forall f w l tr w' tr',
  run f w l tr = Some (w', tr') -> exists n, Exec w l w' n.
Proof.
  induction f as [|f IH]; intros w l tr w' tr' H.
  - destruct l as [|[s m] rest]; cbn [run] in H; [|discriminate]. inversion H; subst.
    exists 0%nat. constructor.
  - destruct l as [|[s m] rest].
    + rewrite run_nil in H. inversion H; subst. exists 0%nat. constructor.
    + rewrite run_cons in H. destruct (step_msg w s m) as [[w1 out]|] eqn:Hs; cbn [bind fst snd] in H;
        [|discriminate].
      destruct (run_seq _ _ _ _ _ _ _ H) as (w2 & tr2 & E1 & E2).
      destruct (IH _ _ _ _ _ E1) as [n1 X1]. destruct (IH _ _ _ _ _ E2) as [n2 X2].
      exists (S (n1 + n2)). eapply Exec_cons; eauto.
Qed.
