(** * ArrivalSums: sums over the hub's unbonding history (helper of Arrival.v, C01 arrival identity).

    - [Arr_hsum f hist]        : sum of [f] over the entries of the history;
    - [Arr_fW now ut P e]      : the coins undelegated for batch [e] (its requests valued at the recorded
                                 rates = [GR_batch_value e]) if the batch is still unbonding
                                 (now < time + ut) and its completion time satisfies [P], else 0;
      [Arr_fM now ut P e]      : the same amount if the batch is unreleased, matured (time + ut <= now)
                                 and its completion time satisfies [P], else 0;
    - [Arr_hsum_put_end]       : closing a batch adds exactly the new entry to every such sum;
    - [Arr_hsum_pointwise]     : sums of histories with the same ids are compared entry by entry;
    - [Arr_M_group]            : under the C08 life-cycle invariant the matured unreleased batches are
                                 exactly the release group of [process_withdraw_rate]:
                                 their expected coins sum to [GR_tot_s g + GR_tot_b g];
    - [Arr_M_after_release]    : after a release no unreleased batch is matured. *)
From Krp Require Import Tactics Prelude Fixed FMap Types Env Registry Cw20 Reward Dispatcher Hub Exec
     ExecP HubFrame HubAdmin ClaimsStep ClaimsP LifeP GroupRelease.
Open Scope N_scope.

(** ** 1. sums over a history *)
Definition Arr_hsum (f : hist_entry -> N) (hist : fmap N hist_entry) : N :=
  sumN (map (fun ie => f (snd ie)) hist).

Definition Arr_fget (f : hist_entry -> N) (hist : fmap N hist_entry) (k : N) : N :=
  match get N.eqb hist k with Some e => f e | None => 0 end.

Lemma Arr_hsum_ext_in f g hist :
  (forall k e, In (k, e) hist -> f e = g e) -> Arr_hsum f hist = Arr_hsum g hist.
Proof.
  intros H. unfold Arr_hsum. f_equal. apply map_ext_in. intros [k e] Hin. cbn [snd]. eapply H; eauto.
Qed.

Lemma Arr_hsum_add f g hist :
  Arr_hsum (fun e => f e + g e) hist = Arr_hsum f hist + Arr_hsum g hist.
Proof.
  unfold Arr_hsum. induction hist as [|[k e] r IH]; cbn [map sumN snd]; [reflexivity|]. rewrite IH. lia.
Qed.

Lemma Arr_hsum_zero f hist : (forall k e, In (k, e) hist -> f e = 0) -> Arr_hsum f hist = 0.
Proof.
  unfold Arr_hsum. induction hist as [|[k e] r IH]; intros H; cbn [map sumN snd]; [reflexivity|].
  rewrite (H k e (or_introl eq_refl)), IH; [reflexivity|]. intros k0 e0 Hin. eapply H. right. exact Hin.
Qed.

Lemma Arr_hsum_keys f hist : NoDup (map fst hist) ->
  Arr_hsum f hist = sumN (map (Arr_fget f hist) (map fst hist)).
Proof.
  unfold Arr_hsum. induction hist as [|[k e] r IH]; intros Hnd; cbn [map sumN fst snd]; [reflexivity|].
  inversion Hnd as [|? ? Hni Hnd']; subst.
  unfold Arr_fget at 1. cbn [get]. rewrite N.eqb_refl. f_equal.
  rewrite (IH Hnd'). f_equal. apply map_ext_in. intros k' Hin.
  unfold Arr_fget. cbn [get]. destruct (k' =? k) eqn:E; [|reflexivity].
  apply N.eqb_eq in E. subst k'. contradiction.
Qed.

Lemma Arr_ids_nodup n : forall s, NoDup (ids_from s n).
Proof.
  induction n as [|n IH]; intros s; cbn [ids_from]; constructor; [|apply IH].
  rewrite ids_from_in. lia.
Qed.

Lemma Arr_ids_app a : forall s b, ids_from s (a + b) = ids_from s a ++ ids_from (s + N.of_nat a) b.
Proof.
  induction a as [|a IH]; intros s b.
  - cbn [plus ids_from app]. f_equal. lia.
  - change (S a + b)%nat with (S (a + b)). cbn [ids_from app]. f_equal. rewrite IH. f_equal. f_equal. lia.
Qed.

Lemma Arr_shape_nodup h : HistShape h -> NoDup (map fst (h_hist h)).
Proof. intros [_ Hk]. rewrite Hk. apply Arr_ids_nodup. Qed.

Lemma Arr_in_get h k e : HistShape h -> In (k, e) (h_hist h) -> get N.eqb (h_hist h) k = Some e.
Proof. intros Hs Hin. apply (in_get_nodup N.eqb Neqb_eq); [apply Arr_shape_nodup; exact Hs | exact Hin]. Qed.

(** histories with the same ids are compared entry by entry *)
Lemma Arr_hsum_pointwise f f' m m' :
  map fst m' = map fst m -> NoDup (map fst m) ->
  (forall k, In k (map fst m) -> Arr_fget f' m' k = Arr_fget f m k) ->
  Arr_hsum f' m' = Arr_hsum f m.
Proof.
  intros Hk Hnd Hp. rewrite (Arr_hsum_keys f m Hnd), (Arr_hsum_keys f' m') by (rewrite Hk; exact Hnd).
  rewrite Hk. f_equal. apply map_ext_in. exact Hp.
Qed.

(** closing the open batch appends its entry *)
Lemma Arr_hsum_put_end f h e : HistShape h ->
  Arr_hsum f (hist_put (h_hist h) (cb_id (h_batch h)) e) = Arr_hsum f (h_hist h) + f e.
Proof.
  intros Hs. pose proof (shape_put_end h e Hs) as Hk'. pose proof Hs as [H1 Hk].
  set (c := cb_id (h_batch h)) in *.
  replace (N.to_nat (c + 1 - 1)) with (S (N.to_nat (c - 1))) in Hk' by lia.
  rewrite ids_from_snoc in Hk'.
  rewrite (Arr_hsum_keys f (hist_put (h_hist h) c e)) by (rewrite Hk', <- ids_from_snoc; apply Arr_ids_nodup).
  rewrite (Arr_hsum_keys f (h_hist h)) by (apply Arr_shape_nodup; exact Hs).
  rewrite Hk', Hk, map_app, sumN_app. cbn [map sumN].
  replace (1 + N.of_nat (N.to_nat (c - 1))) with c by lia.
  unfold Arr_fget at 2. rewrite hget_put_same. rewrite N.add_0_r. f_equal.
  f_equal. apply map_ext_in. intros k Hin. apply ids_from_in in Hin.
  unfold Arr_fget. rewrite hget_put_other by lia. reflexivity.
Qed.

(** ** 2. the two windows *)
Definition Arr_fW (now ut : N) (P : N -> bool) (e : hist_entry) : N :=
  if (now <? he_time e + ut) && P (he_time e + ut) then GR_batch_value e else 0.

Definition Arr_fM (now ut : N) (P : N -> bool) (e : hist_entry) : N :=
  if negb (he_released e) && (he_time e + ut <=? now) && P (he_time e + ut) then GR_batch_value e else 0.

(** the value of a freshly closed batch: its Undelegate messages *)
Lemma Arr_mulU_val a r x : mulU a r = Some x -> x = a * r / D.
Proof.
  unfold mulU. destruct ((a =? 0) || (r =? 0)) eqn:E.
  - intros H. inversion H; subst.
    apply orb_true_iff in E. destruct E as [E|E]; apply N.eqb_eq in E; subst;
      rewrite ?N.mul_0_l, ?N.mul_0_r; symmetry; apply N.div_0_l; exact D_nz.
  - unfold narrow128. destruct (fits128 (a * r / D)); intros H; inversion H; reflexivity.
Qed.

(** ** 3. the matured unreleased batches are the release group *)
Section Group.
  Variable h : hub.
  Hypothesis HL : LifeInv h.
  Variables (now ut : N).
  Hypothesis Hut : ut <= now.

  Let hist := h_hist h.
  Let c := cb_id (h_batch h).
  Let lpb := hs_lpb (h_state h).
  Let fM := Arr_fM now ut (fun _ => true).

  Lemma Arr_group_tail : forall (m : nat) (k0 : N) (fuel : nat),
    lpb < k0 -> k0 + N.of_nat m = c -> (m <= fuel)%nat ->
    sumN (map (Arr_fget fM hist) (ids_from k0 m))
    = GR_tot_s (release_group hist k0 (now - ut) fuel) + GR_tot_b (release_group hist k0 (now - ut) fuel).
  Proof.
    destruct HL as (Hsh & Hlpb & Hrel & Hmono & _).
    induction m as [|m IH]; intros k0 fuel Hk0 Hc Hf.
    - cbn [ids_from map sumN].
      assert (Hn : get N.eqb hist k0 = None).
      { destruct (get N.eqb hist k0) eqn:E; [|reflexivity].
        assert (X : 1 <= k0 < c) by (apply (shape_get h k0 Hsh); fold hist; congruence). lia. }
      destruct fuel; cbn [release_group]; [reflexivity|]. rewrite Hn. reflexivity.
    - destruct fuel as [|fuel]; [lia|].
      assert (Hin : get N.eqb hist k0 <> None) by (apply (shape_get h k0 Hsh); lia).
      destruct (get N.eqb hist k0) as [e|] eqn:Eg; [|congruence]. clear Hin.
      assert (Hur : he_released e = false).
      { destruct (he_released e) eqn:Er; [|reflexivity]. apply (Hrel _ _ Eg) in Er. fold lpb in Er. lia. }
      cbn [ids_from map sumN release_group]. rewrite Eg, Hur.
      destruct (now - ut <? he_time e) eqn:Et.
      + (* too young: so is every later batch *)
        unfold GR_tot_s, GR_tot_b. cbn [GR_us GR_ub map sumN].
        assert (Hz : forall k, In k (k0 :: ids_from (k0 + 1) m) -> Arr_fget fM hist k = 0).
        { intros k Hk. assert (Hk' : k0 <= k) by (destruct Hk as [<-|Hk]; [lia | apply ids_from_in in Hk; lia]).
          unfold Arr_fget. destruct (get N.eqb hist k) as [ek|] eqn:Ek; [|reflexivity].
          assert (Hte : he_time e <= he_time ek).
          { destruct (N.eq_dec k k0) as [->|Hne]; [rewrite Eg in Ek; inversion Ek; lia|].
            assert (X : he_time e < he_time ek) by (eapply Hmono; eauto; lia). lia. }
          unfold fM, Arr_fM. assert (E : (he_time ek + ut <=? now) = false) by lia.
          rewrite E, andb_false_r. reflexivity. }
        rewrite (Hz k0 (or_introl eq_refl)).
        assert (Hs0 : sumN (map (Arr_fget fM hist) (ids_from (k0 + 1) m)) = 0).
        { assert (Hall : forall k, In k (ids_from (k0 + 1) m) -> Arr_fget fM hist k = 0)
            by (intros k Hk; apply Hz; right; exact Hk).
          clear - Hall. induction (ids_from (k0 + 1) m) as [|x l IHl]; cbn [map sumN]; [reflexivity|].
          rewrite (Hall x (or_introl eq_refl)), IHl; [reflexivity|]. intros k Hk. apply Hall. right. exact Hk. }
        rewrite Hs0. reflexivity.
      + rewrite (IH (k0 + 1) fuel) by lia.
        unfold GR_tot_s, GR_tot_b. cbn [GR_us GR_ub map sumN snd].
        unfold Arr_fget at 1. rewrite Eg. unfold fM, Arr_fM. rewrite Hur.
        assert (E : (he_time e + ut <=? now) = true) by lia. rewrite E. cbn [negb andb].
        unfold GR_batch_value, GR_tot_s, GR_tot_b, GR_us, GR_ub.
        generalize (he_samt e * he_swithdraw e / D) (he_bamt e * he_bwithdraw e / D). intros va vb. lia.
  Qed.

  (** the coins expected for the matured unreleased batches = the coins the release group expects *)
  Theorem Arr_M_group :
    Arr_hsum fM hist = GR_tot_s (GR_group h (now - ut)) + GR_tot_b (GR_group h (now - ut)).
  Proof.
    pose proof HL as (Hsh & Hlpb & Hrel & _). pose proof Hsh as [H1 Hk].
    unfold hist. rewrite (Arr_hsum_keys fM (h_hist h)) by (apply Arr_shape_nodup; exact Hsh).
    rewrite Hk. fold c. fold hist.
    replace (N.to_nat (c - 1)) with (N.to_nat lpb + N.to_nat (c - 1 - lpb))%nat by (fold lpb c in Hlpb; lia).
    rewrite Arr_ids_app, map_app, sumN_app.
    assert (Hz : sumN (map (Arr_fget fM hist) (ids_from 1 (N.to_nat lpb))) = 0).
    { assert (Hall : forall k, In k (ids_from 1 (N.to_nat lpb)) -> Arr_fget fM hist k = 0).
      { intros k Hk0. apply ids_from_in in Hk0. unfold Arr_fget.
        destruct (get N.eqb hist k) as [ek|] eqn:Ek; [|reflexivity].
        assert (Er : he_released ek = true) by (apply (Hrel _ _ Ek); fold lpb; lia).
        unfold fM, Arr_fM. rewrite Er. reflexivity. }
      clear - Hall. induction (ids_from 1 (N.to_nat lpb)) as [|x l IHl]; cbn [map sumN]; [reflexivity|].
      rewrite (Hall x (or_introl eq_refl)), IHl; [reflexivity|]. intros k Hk. apply Hall. right. exact Hk. }
    rewrite Hz, N.add_0_l. unfold GR_group. fold lpb hist.
    replace (1 + N.of_nat (N.to_nat lpb)) with (lpb + 1) by lia.
    apply Arr_group_tail; [lia | fold lpb c in Hlpb; lia|].
    unfold hist. rewrite <- (map_length fst (h_hist h)), Hk, ids_from_length. fold c. lia.
  Qed.
End Group.

(** ** 4. after a release no unreleased batch is matured *)
Lemma Arr_M_after_release h h1 h' now ut P :
  LifeInv h -> LifeInv h' -> ut <= now ->
  forall bal, process_withdraw_rate h (now - ut) bal = Some h1 ->
  h_hist h' = h_hist h1 -> hs_lpb (h_state h') = hs_lpb (h_state h1) ->
  Arr_hsum (Arr_fM now ut P) (h_hist h') = 0.
Proof.
  intros HL HL' Hut bal Hp Hh Hl.
  destruct HL as (Hsh & Hlpb & Hrel & Hmono & _). destruct HL' as (Hsh' & _ & Hrel' & _).
  apply pwr_spec in Hp. destruct Hp as (n & L1 & _ & _ & _ & _ & Hoth & _ & Hstop).
  apply Arr_hsum_zero. intros k e' Hin. apply (Arr_in_get h' k e' Hsh') in Hin.
  unfold Arr_fM. destruct (he_released e') eqn:Er; [reflexivity|]. cbn [negb andb].
  assert (Hk : hs_lpb (h_state h) + N.of_nat n < k).
  { destruct (N.lt_ge_cases (hs_lpb (h_state h) + N.of_nat n) k) as [X|X]; [exact X|].
    assert (Y : he_released e' = true) by (apply (Hrel' _ _ Hin); rewrite Hl, L1; exact X). congruence. }
  rewrite Hh, Hoth in Hin by lia.
  assert (Hkc : 1 <= k < cb_id (h_batch h)) by (apply (shape_get h k Hsh); congruence).
  destruct Hstop as [Hn|Hstop].
  - exfalso. destruct Hsh as [_ Hkeys]. rewrite <- (map_length fst (h_hist h)), Hkeys, ids_from_length in Hn. lia.
  - destruct (get N.eqb (h_hist h) (hs_lpb (h_state h) + 1 + N.of_nat n)) as [e0|] eqn:E0.
    + destruct Hstop as [Ht|Hr0].
      * assert (Hte : he_time e0 <= he_time e').
        { destruct (N.eq_dec k (hs_lpb (h_state h) + 1 + N.of_nat n)) as [->|Hne];
            [rewrite E0 in Hin; inversion Hin; lia|].
          assert (X : he_time e0 < he_time e') by (eapply Hmono; eauto; lia). lia. }
        assert (E : (he_time e' + ut <=? now) = false) by lia. rewrite E. reflexivity.
      * apply (Hrel _ _ E0) in Hr0. lia.
    + exfalso. assert (X : ~ (1 <= hs_lpb (h_state h) + 1 + N.of_nat n < cb_id (h_batch h))).
      { intros Y. apply (shape_get h _ Hsh) in Y. congruence. }
      lia.
Qed.
