(** * BooksHub: handler-level facts of the hub for C02 / C13 — what every hub handler does to the
    booked stake (hs_bb + hs_bst) and which staking / bank messages it emits.

    Main lemmas (all for EVERY world and hub state, no envelope):
    - [slashing_spec]            : the slashing check either leaves both pools alone (nothing is
                                   delegated, nothing is booked, or booked <= actual) or sets the booked
                                   total to the actual delegation; it never raises the booked total;
    - [execute_bond_books]       : Bond / BondForStSei / BondRewards: one payment coin, Delegate messages
                                   sum to exactly the payment, go only to registry validators, booked
                                   total = synchronised total + payment;
    - [process_undelegations_books] : the Undelegate messages sum to exactly the decrease of the books;
    - [hub_execute_books]        : every hub message: pricing messages run the check first and then
                                   change the books by exactly (Delegate sum - Undelegate sum); all other
                                   messages leave both pools alone and emit no Delegate / Undelegate;
    - [hub_execute_emits]        : which kind of message each handler can emit (the only bank send is in
                                   WithdrawUnbonded; no hub message carries funds). *)
From Krp Require Import Tactics Prelude Fixed FMap Types Env Registry Cw20 Reward Dispatcher Hub Exec
     ExecP Hist Inv RegistryP HubFrame HubAdmin BooksEnv.
Open Scope N_scope.

Ltac splits := repeat match goal with |- _ /\ _ => split end.

(** ** amounts carried by staking messages *)
Definition dmsg_amt (m : cmsg) : N := match m with MDelegate _ c => snd c | _ => 0 end.
Definition umsg_amt (m : cmsg) : N := match m with MUndelegate _ c => snd c | _ => 0 end.
Definition dsum (l : list cmsg) : N := sumN (map dmsg_amt l).
Definition usum (l : list cmsg) : N := sumN (map umsg_amt l).
Definition is_du (m : cmsg) : bool :=
  match m with MDelegate _ _ | MUndelegate _ _ => true | _ => false end.
Definition NoDU (l : list cmsg) : Prop := Forall (fun m => is_du m = false) l.
Definition AllDU (l : list cmsg) : Prop := Forall (fun m => is_du m = true) l.
(** Delegate / Undelegate messages come first in a handler's output *)
Definition DUFirstL (l : list cmsg) : Prop := exists a b, l = a ++ b /\ AllDU a /\ NoDU b.

Lemma dsum_app a b : dsum (a ++ b) = dsum a + dsum b.
Proof. unfold dsum. rewrite map_app, sumN_app. reflexivity. Qed.
Lemma usum_app a b : usum (a ++ b) = usum a + usum b.
Proof. unfold usum. rewrite map_app, sumN_app. reflexivity. Qed.

Lemma NoDU_sums l : NoDU l -> dsum l = 0 /\ usum l = 0.
Proof.
  unfold NoDU, dsum, usum. induction 1 as [|m l Hm Hl IH]; cbn [map sumN]; [split; reflexivity|].
  destruct IH as [I1 I2]. destruct m; cbn [is_du dmsg_amt umsg_amt] in *; try discriminate; split; lia.
Qed.

Lemma NoDU_app a b : NoDU a -> NoDU b -> NoDU (a ++ b).
Proof. unfold NoDU. intros. apply Forall_app. auto. Qed.

Lemma NoDU_DUFirst l : NoDU l -> DUFirstL l.
Proof. intros H. exists [], l. repeat split; [constructor|exact H]. Qed.

(** ** message plans built from (validator, stake) lists *)
Section Plan.
  Variable mk : val -> N -> cmsg.
  Definition plan (vals : list (val * N)) (xs : list N) : list cmsg :=
    flat_map (fun p : (val * N) * N => if snd p =? 0 then [] else [mk (fst (fst p)) (snd p)])
             (combine vals xs).

  Lemma plan_sum (amt : cmsg -> N) : (forall v a, amt (mk v a) = a) ->
    forall vals xs, length xs = length vals -> sumN (map amt (plan vals xs)) = sumN xs.
  Proof.
    intros Hm. unfold plan. induction vals as [|p vals IH]; intros [|x xs] Hl; cbn [length] in Hl;
      try discriminate; cbn [combine flat_map map sumN]; [reflexivity|].
    rewrite map_app, sumN_app, IH by lia. cbn [snd fst].
    destruct (x =? 0) eqn:E; cbn [map sumN]; [lia|]. rewrite Hm. lia.
  Qed.

  Lemma plan_sum0 (amt : cmsg -> N) : (forall v a, amt (mk v a) = 0) ->
    forall vals xs, sumN (map amt (plan vals xs)) = 0.
  Proof.
    intros Hm. unfold plan. induction vals as [|p vals IH]; intros [|x xs];
      cbn [combine flat_map map sumN]; try reflexivity.
    rewrite map_app, sumN_app, IH. cbn [snd fst].
    destruct (x =? 0); cbn [map sumN]; [lia|]. rewrite Hm. lia.
  Qed.

  Lemma plan_In vals xs m : In m (plan vals xs) ->
    exists v d a, In (v, d) vals /\ a <> 0 /\ In a xs /\ m = mk v a.
  Proof.
    unfold plan. intros H. apply in_flat_map in H. destruct H as ([[v d] a] & Hi & Hm).
    cbn [fst snd] in Hm. destruct (a =? 0) eqn:E; [contradiction|]. destruct Hm as [<-|[]].
    exists v, d, a. pose proof (in_combine_l _ _ _ _ Hi). pose proof (in_combine_r _ _ _ _ Hi).
    repeat split; auto. lia.
  Qed.

  Lemma plan_Forall (P : cmsg -> Prop) vals xs : (forall v a, P (mk v a)) -> Forall P (plan vals xs).
  Proof.
    intros Hm. apply Forall_forall. intros m Hi. apply plan_In in Hi.
    destruct Hi as (v & d & a & _ & _ & _ & ->). apply Hm.
  Qed.
End Plan.

Lemma delegate_msgs_plan vals xs d :
  delegate_msgs vals xs d = plan (fun v a => MDelegate v (d, a)) vals xs.
Proof. reflexivity. Qed.

(** the plans returned on success distribute exactly the requested amount (C12.1 / C12.3) *)
Lemma deleg_some A ds r xs :
  deleg A ds = Some (r, xs) -> r = 0 /\ length xs = length ds /\ sumN xs = A /\ ds <> [].
Proof.
  intros H. assert (Hne : ds <> []) by (intros ->; discriminate).
  pose proof H as H0. rewrite (deleg_nonempty A ds Hne) in H0.
  unfold narrow128, add128, narrow128, fits128 in H0.
  destruct (sumN ds <=? U128MAX) eqn:E1; cbn [bind] in H0; [|discriminate].
  destruct (sumN ds + A <=? U128MAX) eqn:E2; cbn [bind] in H0; [|discriminate].
  destruct (deleg_total A ds Hne ltac:(lia)) as (xs' & Hd & Hl & Hs).
  rewrite H in Hd. inversion Hd; subst. auto.
Qed.

Lemma undeleg_some U ds ys :
  undeleg U ds = Some ys -> length ys = length ds /\ sumN ys = U /\ ds <> [] /\ U <= sumN ds /\
  forall j, (j < length ds)%nat -> nth j ys 0 <= nth j ds 0.
Proof.
  intros H. assert (Hne : ds <> []) by (intros ->; discriminate).
  pose proof H as H0. rewrite (undeleg_nonempty U ds Hne) in H0.
  unfold narrow128, fits128 in H0.
  destruct (sumN ds <=? U128MAX) eqn:E1; cbn [bind] in H0; [|discriminate].
  destruct (U <=? sumN ds) eqn:E2; [|discriminate].
  destruct (undeleg_total U ds Hne ltac:(lia) ltac:(lia)) as (ys' & Hd & Hl & Hs & Hb).
  rewrite H in Hd. inversion Hd; subst. repeat split; auto; try lia.
  intros j Hj. apply Hb. exact Hj.
Qed.

(** ** stable sort keeps the elements *)
Section SortIn.
  Context {A : Type} (before : A -> A -> bool).
  Lemma insert_sorted_In x y l : In x (insert_sorted before y l) <-> x = y \/ In x l.
  Proof.
    induction l as [|z l IH]; cbn [insert_sorted In]; [intuition|].
    destruct (before y z); cbn [In]; [intuition|]. rewrite IH. intuition.
  Qed.
  Lemma stable_sort_In x l : In x (stable_sort before l) <-> In x l.
  Proof.
    unfold stable_sort.
    assert (G : forall l acc, In x (fold_left (fun acc y => insert_sorted before y acc) l acc)
                              <-> In x l \/ In x acc).
    { induction l0 as [|y l0 IH]; intros acc; cbn [fold_left In]; [intuition|].
      rewrite IH, insert_sorted_In. intuition. }
    rewrite G. cbn [In]. intuition.
  Qed.
End SortIn.

Lemma reg_validators_registered w vals :
  reg_validators_for_delegation w = Some vals ->
  exists g, w_reg w = Some g /\ forall v, In v (map fst vals) <-> In v (rg_vals g).
Proof.
  unfold reg_validators_for_delegation. intros H. bind_inv H as g Hg. inversion H; subst. clear H.
  exists g. split; [reflexivity|]. intros v. unfold sort_asc. rewrite !in_map_iff. split.
  - intros ([v' a] & <- & Hi). apply stable_sort_In in Hi. unfold reg_query_validators in Hi.
    apply in_map_iff in Hi. destruct Hi as (v0 & E & Hi). inversion E; subst. exact Hi.
  - intros Hi. eexists (v, _). split; [reflexivity|]. apply stable_sort_In.
    unfold reg_query_validators. apply in_map_iff. exists v. split; [reflexivity|exact Hi].
Qed.

(** ** the slashing check *)
Lemma foldM_add128_sum (l : list (val * N)) : forall a r,
  foldM (fun acc d => add128 acc (snd d)) l a = Some r -> r = a + sumN (map snd l).
Proof.
  induction l as [|d l IH]; intros a r H; cbn [foldM map sumN] in *.
  - inversion H; lia.
  - bind_inv H as a1 Ha1. unfold add128, narrow128 in Ha1. destruct (fits128 _); [|discriminate].
    inversion Ha1; subst. apply IH in H. lia.
Qed.

Lemma actual_bonded_spec w self h a :
  actual_bonded w self h = Some a ->
  a <= delegated (w_env w) self /\ (hp_underlying (h_params h) = usei -> a = delegated (w_env w) self).
Proof.
  unfold actual_bonded. intros H. apply foldM_add128_sum in H.
  destruct (hp_underlying (h_params h) =? usei) eqn:E.
  - unfold delegated. split; [lia|]. intros _. lia.
  - cbn in H. split; [lia|]. intros Hu. rewrite Hu in E. discriminate.
Qed.

Lemma slashing_spec w self h h1 :
  slashing w self h = Some h1 ->
  exists act, act <= delegated (w_env w) self /\
    (hp_underlying (h_params h) = usei -> act = delegated (w_env w) self) /\
    ((hs_bb (h_state h1) = hs_bb (h_state h) /\ hs_bst (h_state h1) = hs_bst (h_state h) /\
      (all_delegations (w_env w) self = [] \/ booked h <= act))
     \/ (act < booked h /\ booked h1 = act)).
Proof.
  unfold slashing. intros H. bind_inv H as s Hs. inversion H; subst h1. clear H.
  unfold booked. cbn [h_state set_h_state]. unfold query_actual_state in Hs.
  destruct (all_delegations (w_env w) self) as [|d0 dr] eqn:Ead.
  - inversion Hs; subst. exists (delegated (w_env w) self). split; [lia|]. split; [auto|].
    left. auto.
  - rewrite <- Ead.
    bind_inv Hs as actual Ha. apply actual_bonded_spec in Ha. destruct Ha as [Ha1 Ha2].
    bind_inv Hs as total Ht. unfold add128, narrow128 in Ht. destruct (fits128 _); [|discriminate].
    inversion Ht; subst total. clear Ht.
    exists actual. split; [exact Ha1|]. split; [exact Ha2|].
    destruct (hs_bb (h_state h) + hs_bst (h_state h) =? 0) eqn:Ez.
    + inversion Hs; subst. left. split; [reflexivity|]. split; [reflexivity|]. right. lia.
    + bind_inv Hs as bi Hbi. bind_inv Hs as si Hsi. bind_inv Hs as s1 Hs1.
      bind_inv Hs as ber Hber. bind_inv Hs as ser Hser. inversion Hs; subst s. clear Hs.
      cbn [hs_bb hs_bst set_rates].
      destruct (actual <? hs_bb (h_state h) + hs_bst (h_state h)) eqn:Elt.
      * bind_inv Hs1 as r Hr. bind_inv Hs1 as bb Hbb. bind_inv Hs1 as bst Hbst.
        inversion Hs1; subst s1. cbn [hs_bb hs_bst set_bonded].
        unfold sub128 in Hbst. destruct (bb <=? actual) eqn:Ele; [|discriminate].
        inversion Hbst; subst. right. split; lia.
      * inversion Hs1; subst s1. left. split; [reflexivity|]. split; [reflexivity|]. right. lia.
Qed.

Lemma slashing_le w self h h1 : slashing w self h = Some h1 -> booked h1 <= booked h.
Proof.
  intros H. apply slashing_spec in H. destruct H as (act & _ & _ & [(A & B & _)|(A & B)]).
  - unfold booked. lia.
  - lia.
Qed.

(** after the check the books do not exceed the delegations, unless stake is booked while the hub
    has no delegation entry at all (unreachable: [Ent] in BooksP.v) *)
Lemma slashing_restores w self h h1 :
  slashing w self h = Some h1 ->
  (booked h = 0 \/ all_delegations (w_env w) self <> []) ->
  booked h1 <= delegated (w_env w) self.
Proof.
  intros H He. apply slashing_spec in H. destruct H as (act & Ha & _ & [(A & B & C)|(A & B)]).
  - unfold booked in *. destruct C as [C|C]; [|lia]. destruct He as [He|He]; [lia|contradiction].
  - lia.
Qed.

(** when the books already are within the delegations the check changes neither pool *)
Lemma slashing_noop w self h h1 :
  slashing w self h = Some h1 -> hp_underlying (h_params h) = usei ->
  booked h <= delegated (w_env w) self ->
  hs_bb (h_state h1) = hs_bb (h_state h) /\ hs_bst (h_state h1) = hs_bst (h_state h).
Proof.
  intros H Hu Hb. apply slashing_spec in H. destruct H as (act & Ha & Hact & [(A & B & _)|(A & B)]).
  - auto.
  - rewrite (Hact Hu) in A. lia.
Qed.

(** ** Bond / BondForStSei / BondRewards *)
Lemma find_payment_single u funds pay :
  N.of_nat (length funds) <= 1 -> find_payment u funds = Some pay ->
  funds = [pay] /\ fst pay = u /\ 0 < snd pay.
Proof.
  unfold find_payment. intros Hl H. destruct funds as [|c [|c2 r]]; cbn [length] in Hl; [cbn in H; discriminate| |lia].
  cbn [filter] in H. match type of H with context [if ?b then _ else _] => destruct b eqn:E end; [|discriminate].
  inversion H; subst. apply andb_true_iff in E. destruct E as [E1 E2].
  apply N.eqb_eq in E1. apply negb_true_iff, N.eqb_neq in E2.
  splits; [reflexivity|exact E1|apply N.neq_0_lt_0; exact E2].
Qed.

Definition is_mint_tail (sender : addr) (tail : list cmsg) : Prop :=
  tail = [] \/ exists tok mint, tail = [MWasm tok (WCw20 (CMint sender mint)) []].

Lemma execute_bond_books w h self sender funds k h' out :
  execute_bond w h self sender funds k = Some (h', out) ->
  exists pay h1 vals xs tail,
    funds = [pay] /\ fst pay = hp_underlying (h_params h) /\ 0 < snd pay /\
    slashing w self h = Some h1 /\
    hc_reg (h_cfg h) = Some A_reg /\ reg_validators_for_delegation w = Some vals /\
    deleg (snd pay) (map snd vals) = Some (0, xs) /\ length xs = length vals /\ sumN xs = snd pay /\
    booked h' = booked h1 + snd pay /\
    out = delegate_msgs vals xs (fst pay) ++ tail /\ is_mint_tail sender tail /\
    (k = BkRw -> hc_disp (h_cfg h) = Some sender /\ tail = []).
Proof.
  unfold execute_bond. intros H.
  bind_inv H as dispaddr Hd. check_inv H as Hauth. check_inv H as Hlen.
  bind_inv H as pay Hpay.
  apply find_payment_single in Hpay; [|lia]. destruct Hpay as (Hf & Hden & Hpos).
  bind_inv H as h1 Hh1. pose proof (slashing_frame _ _ _ _ Hh1) as (F1 & F2 & _).
  bind_inv H as mint Hmint. bind_inv H as supply Hsupply. bind_inv H as s' Hs'.
  bind_inv H as vals Hvals.
  unfold validators_for_delegation in Hvals. cbn [h_cfg set_h_state] in Hvals.
  bind_inv Hvals as ra Hra. check_inv Hvals as Era. apply N.eqb_eq in Era. subst ra.
  destruct vals as [|v0 vr] eqn:Evals; [discriminate|]. rewrite <- Evals in *.
  bind_inv H as r Hr. destruct r as [rem xs].
  pose proof (deleg_some _ _ _ _ Hr) as (Hrem & Hl & Hsum & _). subst rem. rewrite map_length in Hl.
  assert (Hbook : hs_bb s' + hs_bst s' = booked h1 + snd pay).
  { unfold booked. destruct k.
    - bind_inv Hs' as bb Hbb. bind_inv Hs' as ber Hber. inversion Hs'; subst s'.
      cbn [hs_bb hs_bst set_ber set_rates set_bonded].
      unfold add128, narrow128 in Hbb. destruct (fits128 _); inversion Hbb; lia.
    - bind_inv Hs' as bst Hbst. inversion Hs'; subst s'. cbn [hs_bb hs_bst set_bonded].
      unfold add128, narrow128 in Hbst. destruct (fits128 _); inversion Hbst; lia.
    - bind_inv Hs' as bst Hbst. bind_inv Hs' as ser Hser. inversion Hs'; subst s'.
      cbn [hs_bb hs_bst set_ser set_rates set_bonded].
      unfold add128, narrow128 in Hbst. destruct (fits128 _); inversion Hbst; lia. }
  cbn [snd] in H.
  assert (Hreg : hc_reg (h_cfg h) = Some A_reg) by (rewrite <- F1; exact Hra).
  assert (Hrw : k = BkRw -> hc_disp (h_cfg h) = Some sender).
  { intros ->. apply N.eqb_eq in Hauth. congruence. }
  assert (Hbk : booked (set_h_state h1 s') = booked h1 + snd pay).
  { unfold booked at 1. cbn [h_state set_h_state]. exact Hbook. }
  destruct k.
  - bind_inv H as tok Htok. inversion H; subst h' out.
    exists pay, h1, vals, xs, [MWasm tok (WCw20 (CMint sender mint)) []].
    splits; auto; [right; eauto | discriminate].
  - bind_inv H as tok Htok. inversion H; subst h' out.
    exists pay, h1, vals, xs, [MWasm tok (WCw20 (CMint sender mint)) []].
    splits; auto; [right; eauto | discriminate].
  - inversion H; subst h' out.
    exists pay, h1, vals, xs, []. rewrite app_nil_r.
    splits; auto; [left; reflexivity | intros _; split; [rewrite <- Hd; apply Hrw; reflexivity|reflexivity]].
Qed.

(** consequences in terms of the message sums *)
Lemma delegate_msgs_sums vals xs d :
  length xs = length vals ->
  dsum (delegate_msgs vals xs d) = sumN xs /\ usum (delegate_msgs vals xs d) = 0 /\
  AllDU (delegate_msgs vals xs d) /\
  (forall v c, In (MDelegate v c) (delegate_msgs vals xs d) ->
               In v (map fst vals) /\ fst c = d /\ 0 < snd c).
Proof.
  intros Hl. rewrite delegate_msgs_plan. splits.
  - unfold dsum. apply plan_sum; [reflexivity|exact Hl].
  - unfold usum. apply plan_sum0. reflexivity.
  - apply plan_Forall. reflexivity.
  - intros v c Hi. apply plan_In in Hi. destruct Hi as (v1 & d1 & a & Hv & Ha & _ & E).
    inversion E; subst. cbn [fst snd]. splits; [|reflexivity|lia].
    apply in_map_iff. exists (v1, d1). auto.
Qed.

Lemma is_mint_tail_NoDU sender tail : is_mint_tail sender tail -> NoDU tail.
Proof. intros [->|(tok & mint & ->)]; [constructor|]. constructor; [reflexivity|constructor]. Qed.

(** C02: every coin sent with a bond is delegated in the same transaction, only to validators the
    registry lists at that moment *)
Theorem bond_delegates_all w h self sender funds k h' out :
  execute_bond w h self sender funds k = Some (h', out) ->
  exists pay h1 g,
    funds = [pay] /\ fst pay = hp_underlying (h_params h) /\ 0 < snd pay /\
    slashing w self h = Some h1 /\ w_reg w = Some g /\
    dsum out = snd pay /\ usum out = 0 /\ DUFirstL out /\
    booked h' = booked h1 + snd pay /\
    (forall v c, In (MDelegate v c) out -> In v (rg_vals g) /\ fst c = fst pay /\ 0 < snd c) /\
    (forall m, In m out -> (exists v c, m = MDelegate v c) \/
                           (exists tok mint, m = MWasm tok (WCw20 (CMint sender mint)) [])).
Proof.
  intros H. apply execute_bond_books in H.
  destruct H as (pay & h1 & vals & xs & tail & Hf & Hden & Hpos & Hs & Hreg & Hv & Hd & Hl & Hsum & Hb
                 & Ho & Ht & _).
  destruct (reg_validators_registered _ _ Hv) as (g & Hg & Hin).
  pose proof (delegate_msgs_sums vals xs (fst pay) Hl) as (S1 & S2 & S3 & S4).
  pose proof (is_mint_tail_NoDU _ _ Ht) as Hnd. pose proof (NoDU_sums _ Hnd) as (T1 & T2).
  exists pay, h1, g. subst out. rewrite dsum_app, usum_app. splits; auto; try lia.
  - exists (delegate_msgs vals xs (fst pay)), tail. auto.
  - intros v c Hi. apply in_app_or in Hi. destruct Hi as [Hi|Hi].
    + apply S4 in Hi. destruct Hi as (A & B & C). splits; auto. apply Hin. exact A.
    + destruct Ht as [->|(tok & mint & ->)]; [contradiction|]. destruct Hi as [Hi|[]]. discriminate.
  - intros m Hi. apply in_app_or in Hi. destruct Hi as [Hi|Hi].
    + left. rewrite delegate_msgs_plan in Hi. apply plan_In in Hi.
      destruct Hi as (v & d & a & _ & _ & _ & ->). eauto.
    + right. destruct Ht as [->|(tok & mint & ->)]; [contradiction|]. destruct Hi as [<-|[]]. eauto.
Qed.

(** ** undelegation of a closing batch *)
Lemma pick_validator_spec w self h claim msgs :
  pick_validator w self h claim = Some msgs ->
  usum msgs = claim /\ dsum msgs = 0 /\ AllDU msgs /\
  (forall m, In m msgs -> exists v a, m = MUndelegate v (hp_underlying (h_params h), a) /\ 0 < a /\
                                      exists d, In (v, d) (all_delegations (w_env w) self)).
Proof.
  unfold pick_validator. intros H. bind_inv H as ys Hys. inversion H; subst msgs. clear H.
  apply undeleg_some in Hys. destruct Hys as (Hl & Hs & _). rewrite map_length in Hl.
  set (vals := sort_desc (all_delegations (w_env w) self)) in *.
  change (flat_map _ (combine vals ys))
    with (plan (fun v a => MUndelegate v (hp_underlying (h_params h), a)) vals ys).
  splits.
  - unfold usum. rewrite plan_sum; [exact Hs|reflexivity|exact Hl].
  - unfold dsum. apply plan_sum0. reflexivity.
  - apply plan_Forall. reflexivity.
  - intros m Hi. apply plan_In in Hi. destruct Hi as (v & d & a & Hv & Ha & _ & ->).
    exists v, a. splits; [reflexivity|lia|]. exists d. unfold vals, sort_desc in Hv.
    apply stable_sort_In in Hv. exact Hv.
Qed.

(** C02: each batch undelegation removes from the books exactly the amount it undelegates *)
Theorem undelegate_books_exact w self h h' out :
  process_undelegations w self h = Some (h', out) ->
  exists b_und st_und,
    usum out = b_und + st_und /\ dsum out = 0 /\ AllDU out /\
    hs_bb (h_state h') + b_und = hs_bb (h_state h) /\
    hs_bst (h_state h') + st_und = hs_bst (h_state h) /\
    booked h' + usum out = booked h /\
    (forall m, In m out -> exists v a, m = MUndelegate v (hp_underlying (h_params h), a) /\ 0 < a /\
                                       exists d, In (v, d) (all_delegations (w_env w) self)).
Proof.
  unfold process_undelegations. intros H.
  bind_inv H as st_und Hst. bind_inv H as b_und Hb. bind_inv H as claim Hc.
  bind_inv H as msgs Hm. bind_inv H as bst Hbst. bind_inv H as bb Hbb. bind_inv H as id' Hid.
  inversion H; subst h' out. clear H.
  apply pick_validator_spec in Hm. destruct Hm as (M1 & M2 & M3 & M4).
  unfold add128, narrow128 in Hc. destruct (fits128 _); [|discriminate]. inversion Hc; subst claim.
  unfold sub128 in Hbst, Hbb.
  destruct (st_und <=? hs_bst (h_state h)) eqn:E1; [|discriminate]. inversion Hbst; subst bst.
  destruct (b_und <=? hs_bb (h_state h)) eqn:E2; [|discriminate]. inversion Hbb; subst bb.
  exists b_und, st_und. unfold booked. cbn [h_state set_h_state hs_bb hs_bst].
  splits; auto; lia.
Qed.

Lemma maybe_undelegate_books w self h h' out :
  maybe_undelegate w self h = Some (h', out) ->
  booked h' + usum out = booked h /\ dsum out = 0 /\ AllDU out /\
  (forall m, In m out -> exists v a, m = MUndelegate v (hp_underlying (h_params h), a) /\ 0 < a /\
                                     exists d, In (v, d) (all_delegations (w_env w) self)).
Proof.
  unfold maybe_undelegate. intros H. bind_inv H as passed Hp.
  destruct (hp_epoch (h_params h) <? passed).
  - apply undelegate_books_exact in H. destruct H as (b & s & A & B & C & _ & _ & F & G). auto.
  - inversion H; subst. splits; [cbn; lia|reflexivity|constructor|intros m []].
Qed.

Lemma add_wait_state h u b is_b amt h' : add_wait h u b is_b amt = Some h' -> h_state h' = h_state h.
Proof.
  unfold add_wait. destruct (wait_of h u b) as [x y]. intros H.
  bind_inv H as x' Hx. bind_inv H as y' Hy. inversion H; subst. reflexivity.
Qed.

(** what a pricing handler does to the books: run the check, then move the books by exactly the
    emitted staking messages *)
Definition books_after_sync (w : world) (self : addr) (h h' : hub) (out : list cmsg) : Prop :=
  exists h1, slashing w self h = Some h1 /\ booked h' + usum out = booked h1 + dsum out.

Lemma execute_unbond_books w h self amount user h' out :
  execute_unbond w h self amount user = Some (h', out) ->
  books_after_sync w self h h' out /\ DUFirstL out /\ dsum out = 0.
Proof.
  unfold execute_unbond. intros H.
  bind_inv H as h1 Hh1. bind_inv H as supply Hs. bind_inv H as awf Hawf. bind_inv H as reqb Hreqb.
  bind_inv H as h2 Hh2. apply add_wait_state in Hh2.
  bind_inv H as supply' Hs'. bind_inv H as ber Hber. bind_inv H as r Hr. destruct r as [h4 msgs].
  apply maybe_undelegate_books in Hr. destruct Hr as (R1 & R2 & R3 & _).
  bind_inv H as tok Htok. inversion H; subst h' out. clear H.
  assert (Hb3 : booked (set_h_batch (set_h_state h2 (set_ber (h_state h1) ber))
                         (mkBatch (cb_id (h_batch h1)) reqb (cb_reqst (h_batch h1)))) = booked h1) by reflexivity.
  assert (Hnd : NoDU [MWasm tok (WCw20 (CBurn amount)) []]) by (constructor; [reflexivity|constructor]).
  splits.
  - exists h1. split; [exact Hh1|]. rewrite usum_app, dsum_app.
    pose proof (NoDU_sums _ Hnd) as (T1 & T2). lia.
  - exists msgs, [MWasm tok (WCw20 (CBurn amount)) []]. auto.
  - rewrite dsum_app. pose proof (NoDU_sums _ Hnd) as (T1 & T2). lia.
Qed.

Lemma execute_unbond_stsei_books w h self amount user h' out :
  execute_unbond_stsei w h self amount user = Some (h', out) ->
  books_after_sync w self h h' out /\ DUFirstL out /\ dsum out = 0.
Proof.
  unfold execute_unbond_stsei. intros H.
  bind_inv H as h1 Hh1. bind_inv H as reqst Hreq. bind_inv H as h2 Hh2. apply add_wait_state in Hh2.
  bind_inv H as r Hr. destruct r as [h4 msgs].
  apply maybe_undelegate_books in Hr. destruct Hr as (R1 & R2 & R3 & _).
  bind_inv H as tok Htok. inversion H; subst h' out. clear H.
  assert (Hb3 : booked (set_h_batch h2 (mkBatch (cb_id (h_batch h1)) (cb_reqb (h_batch h1)) reqst)) = booked h1).
  { unfold booked. cbn [h_state set_h_batch]. rewrite Hh2. reflexivity. }
  assert (Hnd : NoDU [MWasm tok (WCw20 (CBurn amount)) []]) by (constructor; [reflexivity|constructor]).
  splits.
  - exists h1. split; [exact Hh1|]. rewrite usum_app, dsum_app.
    pose proof (NoDU_sums _ Hnd) as (T1 & T2). lia.
  - exists msgs, [MWasm tok (WCw20 (CBurn amount)) []]. auto.
  - rewrite dsum_app. pose proof (NoDU_sums _ Hnd) as (T1 & T2). lia.
Qed.

(** conversion moves the same amount between the two pools *)
Lemma convert_stsei_bsei_books w h self amount user h' out :
  convert_stsei_bsei w h self amount user = Some (h', out) ->
  exists h1 d, slashing w self h = Some h1 /\
    hs_bb (h_state h') = hs_bb (h_state h1) + d /\ hs_bst (h_state h') + d = hs_bst (h_state h1) /\
    booked h' = booked h1 /\ NoDU out.
Proof.
  unfold convert_stsei_bsei. intros H.
  bind_inv H as h1 Hh1. bind_inv H as stok E1. bind_inv H as btok E2. bind_inv H as de E3.
  bind_inv H as tm E4. bind_inv H as bs E5. bind_inv H as ss E6. bind_inv H as mint E7.
  bind_inv H as bb E8. bind_inv H as bst E9. bind_inv H as a10 E10. bind_inv H as a11 E11.
  bind_inv H as a12 E12. bind_inv H as a13 E13. inversion H; subst h' out. clear H.
  unfold add128, narrow128 in E8. destruct (fits128 _); [|discriminate]. inversion E8; subst bb.
  unfold sub128 in E9. destruct (de <=? hs_bst (h_state h1)) eqn:Ele; [|discriminate]. inversion E9; subst bst.
  exists h1, de. unfold booked. cbn [h_state set_h_state hs_bb hs_bst set_rates set_bonded].
  splits; auto; try lia. repeat (constructor; [reflexivity|]). constructor.
Qed.

Lemma convert_bsei_stsei_books w h self amount user h' out :
  convert_bsei_stsei w h self amount user = Some (h', out) ->
  exists h1 d, slashing w self h = Some h1 /\
    hs_bb (h_state h') + d = hs_bb (h_state h1) /\ hs_bst (h_state h') = hs_bst (h_state h1) + d /\
    booked h' = booked h1 /\ NoDU out.
Proof.
  unfold convert_bsei_stsei. intros H.
  bind_inv H as h1 Hh1. bind_inv H as stok E1. bind_inv H as btok E2.
  bind_inv H as bs E5. bind_inv H as ss E6. bind_inv H as awf E7. bind_inv H as de E3.
  bind_inv H as tm E4. bind_inv H as bb E8. bind_inv H as bst E9. bind_inv H as a10 E10.
  bind_inv H as a11 E11. bind_inv H as a12 E12. bind_inv H as a13 E13. inversion H; subst h' out. clear H.
  unfold add128, narrow128 in E9. destruct (fits128 _); [|discriminate]. inversion E9; subst bst.
  unfold sub128 in E8. destruct (de <=? hs_bb (h_state h1)) eqn:Ele; [|discriminate]. inversion E8; subst bb.
  exists h1, de. unfold booked. cbn [h_state set_h_state hs_bb hs_bst set_rates set_bonded].
  splits; auto; try lia. repeat (constructor; [reflexivity|]). constructor.
Qed.

Lemma NoDU_books_after_sync w self h h1 h' out :
  slashing w self h = Some h1 -> booked h' = booked h1 -> NoDU out -> books_after_sync w self h h' out.
Proof. intros Hs Hb Hn. exists h1. split; [exact Hs|]. destruct (NoDU_sums _ Hn). lia. Qed.

Lemma receive_cw20_books w h self sender user amount hk h' out :
  receive_cw20 w h self sender user amount hk = Some (h', out) ->
  books_after_sync w self h h' out /\ DUFirstL out /\ dsum out = 0.
Proof.
  unfold receive_cw20. intros H. bind_inv H as b Hb. bind_inv H as st Hst.
  destruct hk; [| |discriminate].
  - destruct (sender =? b); [eapply execute_unbond_books; eauto|].
    destruct (sender =? st); [eapply execute_unbond_stsei_books; eauto|discriminate].
  - destruct (sender =? b).
    + apply convert_bsei_stsei_books in H. destruct H as (h1 & d & A & _ & _ & B & C).
      splits; [eapply NoDU_books_after_sync; eauto | apply NoDU_DUFirst; exact C | apply NoDU_sums; exact C].
    + destruct (sender =? st); [|discriminate].
      apply convert_stsei_bsei_books in H. destruct H as (h1 & d & A & _ & _ & B & C).
      splits; [eapply NoDU_books_after_sync; eauto | apply NoDU_DUFirst; exact C | apply NoDU_sums; exact C].
Qed.

(** ** the remaining handlers leave both pools alone *)
Lemma process_withdraw_rate_pools h historical b h' :
  process_withdraw_rate h historical b = Some h' ->
  hs_bb (h_state h') = hs_bb (h_state h) /\ hs_bst (h_state h') = hs_bst (h_state h).
Proof.
  unfold process_withdraw_rate. intros H.
  destruct (release_group _ _ _ _) as [|g0 gr]; [inversion H; subst; auto|].
  bind_inv H as tot Htot. destruct tot as [st_total b_total].
  bind_inv H as change Hch. check_inv H as Hneg.
  bind_inv H as both Hboth. bind_inv H as b_ratio Hbr. bind_inv H as b_actual Hba.
  bind_inv H as b_sl Hbsl. bind_inv H as st_actual Hsta. bind_inv H as st_sl Hstsl.
  bind_inv H as hist' Hhist. inversion H; subst. cbn. auto.
Qed.

Lemma execute_withdraw_pools w h self sender h' out :
  execute_withdraw w h self sender = Some (h', out) ->
  hs_bb (h_state h') = hs_bb (h_state h) /\ hs_bst (h_state h') = hs_bst (h_state h) /\
  exists amount, 0 < amount /\ amount <= bal (w_env w) self (hp_underlying (h_params h)) /\
                 out = [MBank sender [(hp_underlying (h_params h), amount)]].
Proof.
  unfold execute_withdraw. intros H.
  bind_inv H as historical Hh. bind_inv H as h1 Hh1. apply process_withdraw_rate_pools in Hh1.
  bind_inv H as fa Hfa. destruct fa as [amount batches]. check_inv H as Hnz.
  bind_inv H as prev Hprev. inversion H; subst. cbn [h_state set_h_state set_h_wait hs_bb hs_bst].
  destruct Hh1 as [A B]. splits; auto.
  unfold sub128 in Hprev. destruct (amount <=? _) eqn:E; [|discriminate].
  exists amount. splits; [lia|lia|reflexivity].
Qed.

Lemma execute_update_global_pools w h self sender n h' out :
  execute_update_global w h self sender n = Some (h', out) ->
  hs_bb (h_state h') = hs_bb (h_state h) /\ hs_bst (h_state h') = hs_bst (h_state h) /\
  exists dispaddr hooks,
    hc_disp (h_cfg h) = Some dispaddr /\
    (forall m, In m hooks -> exists a, m = MWasm a WOpaque []) /\
    out = hooks ++ map (fun d => MWithdrawReward (fst d)) (all_delegations (w_env w) self) ++
          [MWasm dispaddr (WDisp (DSwap (hs_bb (h_state h)) (hs_bst (h_state h)))) [];
           MWasm dispaddr (WDisp DDispatch) []].
Proof.
  unfold execute_update_global. intros H. check_inv H as Hauth.
  bind_inv H as d Hd. bind_inv H as hooks Hhooks. inversion H; subst. cbn [h_state set_h_state hs_bb hs_bst].
  splits; auto. exists d, hooks. splits; auto.
  destruct (n =? 0); [inversion Hhooks; subst; intros m []|].
  bind_inv Hhooks as reg Hreg. inversion Hhooks; subst. intros m Hi. apply repeat_spec in Hi. eauto.
Qed.

Definition is_pricing (m : hub_msg) : bool :=
  match m with
  | HBond | HBondSt | HBondRewards | HCheckSlashing => true
  | HReceive _ _ HkUnbond | HReceive _ _ HkConvert => true
  | _ => false
  end.

Lemma NoDU_map {A} (f : A -> cmsg) l : (forall x, is_du (f x) = false) -> NoDU (map f l).
Proof. intros H. apply Forall_forall. intros m Hi. apply in_map_iff in Hi. destruct Hi as (x & <- & _). apply H. Qed.

(** C02, handler level, every hub message *)
Theorem hub_execute_books w h self sender funds m h' out :
  hub_execute w h self sender funds m = Some (h', out) ->
  (is_pricing m = true -> books_after_sync w self h h' out) /\
  (is_pricing m = false ->
     hs_bb (h_state h') = hs_bb (h_state h) /\ hs_bst (h_state h') = hs_bst (h_state h) /\ NoDU out) /\
  DUFirstL out.
Proof.
  unfold hub_execute. intros H.
  destruct m; cbn [is_pricing].
  - (* Bond *) check_inv H as Hp. apply bond_delegates_all in H.
    destruct H as (pay & h1 & g & _ & _ & _ & Hs & _ & D1 & D2 & D3 & D4 & _).
    splits; [intros _; exists h1; split; [exact Hs|lia] | discriminate | exact D3].
  - check_inv H as Hp. apply bond_delegates_all in H.
    destruct H as (pay & h1 & g & _ & _ & _ & Hs & _ & D1 & D2 & D3 & D4 & _).
    splits; [intros _; exists h1; split; [exact Hs|lia] | discriminate | exact D3].
  - check_inv H as Hp. apply bond_delegates_all in H.
    destruct H as (pay & h1 & g & _ & _ & _ & Hs & _ & D1 & D2 & D3 & D4 & _).
    splits; [intros _; exists h1; split; [exact Hs|lia] | discriminate | exact D3].
  - (* UpdateGlobal *) check_inv H as Hp. apply execute_update_global_pools in H.
    destruct H as (A & B & d & hooks & _ & Hh & ->).
    assert (Hn : NoDU (hooks ++ map (fun d0 => MWithdrawReward (fst d0)) (all_delegations (w_env w) self) ++
                       [MWasm d (WDisp (DSwap (hs_bb (h_state h)) (hs_bst (h_state h)))) [];
                        MWasm d (WDisp DDispatch) []])).
    { apply NoDU_app; [|apply NoDU_app].
      - apply Forall_forall. intros m Hi. destruct (Hh m Hi) as (a & ->). reflexivity.
      - apply NoDU_map. reflexivity.
      - repeat (constructor; [reflexivity|]). constructor. }
    splits; [discriminate | intros _; auto | apply NoDU_DUFirst; exact Hn].
  - (* Withdraw *) check_inv H as Hp. apply execute_withdraw_pools in H.
    destruct H as (A & B & amount & _ & _ & ->).
    assert (Hn : NoDU [MBank sender [(hp_underlying (h_params h), amount)]])
      by (constructor; [reflexivity|constructor]).
    splits; [discriminate | intros _; auto | apply NoDU_DUFirst; exact Hn].
  - (* CheckSlashing *) check_inv H as Hp. bind_inv H as h1 Hh1. inversion H; subst.
    splits; [intros _; eapply NoDU_books_after_sync; eauto; constructor | discriminate
            | apply NoDU_DUFirst; constructor].
  - (* Params *) apply update_params_spec in H. destruct H as (_ & _ & _ & -> & ->).
    splits; [discriminate | intros _; splits; auto; constructor | apply NoDU_DUFirst; constructor].
  - (* Config *) check_inv H as Hp. pose proof H as H0. apply update_config_spec in H0.
    destruct H0 as (_ & _ & _ & _ & _ & _ & Hst & _).
    assert (Hn : NoDU out).
    { unfold execute_update_config in H. check_inv H as C1. check_inv H as C2. check_inv H as C3.
      inversion H; subst. destruct disp; [constructor; [reflexivity|constructor]|constructor]. }
    rewrite Hst. splits; [discriminate | intros _; auto | apply NoDU_DUFirst; exact Hn].
  - check_inv H as Hp. check_inv H as Hs. inversion H; subst.
    splits; [discriminate | intros _; splits; auto; constructor | apply NoDU_DUFirst; constructor].
  - check_inv H as Hp. check_inv H as Hs. inversion H; subst.
    splits; [discriminate | intros _; splits; auto; constructor | apply NoDU_DUFirst; constructor].
  - (* RedelProxy *) check_inv H as Hp. bind_inv H as reg Hreg. check_inv H as Hs. inversion H; subst.
    assert (Hn : NoDU (map (fun p : val * coin => MRedelegate src (fst p) (snd p)) l))
      by (apply NoDU_map; reflexivity).
    splits; [discriminate | intros _; auto | apply NoDU_DUFirst; exact Hn].
  - (* SwapHook *) check_inv H as Hp. check_inv H as Hs. bind_inv H as t Ht. check_inv H as Hb.
    inversion H; subst.
    assert (Hn : NoDU [MWasm tok (WCw20 (CSend swapc (tbal t self) HkJunk)) []])
      by (constructor; [reflexivity|constructor]).
    splits; [discriminate | intros _; auto | apply NoDU_DUFirst; exact Hn].
  - (* ClaimAirdrop *) check_inv H as Hp. bind_inv H as reg Hreg. check_inv H as Hs. inversion H; subst.
    assert (Hn : NoDU [MWasm airdropc WOpaque []; MWasm self (WHub (HSwapHook tok swapc)) []])
      by (repeat (constructor; [reflexivity|]); constructor).
    splits; [discriminate | intros _; auto | apply NoDU_DUFirst; exact Hn].
  - (* Migrate *) destruct (paused h); [|discriminate]. inversion H; subst.
    pose proof (migrate_params h limit) as M. cbn zeta in M.
    destruct M as (_ & _ & _ & _ & _ & _ & _ & _ & M9 & _). rewrite M9.
    splits; [discriminate | intros _; splits; auto; constructor | apply NoDU_DUFirst; constructor].
  - (* Receive *) check_inv H as Hp. pose proof H as H0. apply receive_cw20_books in H0.
    destruct H0 as (A & B & _).
    destruct h0; [| |unfold receive_cw20 in H; bind_inv H as b Hb; bind_inv H as st Hst; discriminate];
      (splits; [intros _; exact A | discriminate | exact B]).
Qed.

(** in every case the books move by at most (Delegate sum - Undelegate sum) *)
Corollary hub_execute_books_le w h self sender funds m h' out :
  hub_execute w h self sender funds m = Some (h', out) ->
  booked h' + usum out <= booked h + dsum out.
Proof.
  intros H. apply hub_execute_books in H. destruct H as (P & Q & _).
  destruct (is_pricing m).
  - destruct (P eq_refl) as (h1 & Hs & E). apply slashing_le in Hs. lia.
  - destruct (Q eq_refl) as (A & B & C). destruct (NoDU_sums _ C). unfold booked. lia.
Qed.

(** ** which messages each hub handler can emit *)
Definition hub_emit_ok (hm : hub_msg) (m : cmsg) : Prop :=
  match m with
  | MWasm _ _ f => f = []
  | MBank _ _ => hm = HWithdraw
  | MDelegate _ _ => hm = HBond \/ hm = HBondSt \/ hm = HBondRewards
  | MUndelegate _ _ => exists u a, hm = HReceive u a HkUnbond
  | MRedelegate s _ _ => exists l, hm = HRedelProxy s l
  | MWithdrawReward _ => exists n, hm = HUpdateGlobal n
  | MSetWithdrawAddr a => exists b c d e f g, hm = HConfig (Some a) b c d e f g
  end.

Lemma execute_unbond_shape w h self amount user h' out :
  execute_unbond w h self amount user = Some (h', out) ->
  exists msgs tok, out = msgs ++ [MWasm tok (WCw20 (CBurn amount)) []] /\
                   forall m, In m msgs -> exists v c, m = MUndelegate v c.
Proof.
  unfold execute_unbond. intros H.
  bind_inv H as h1 Hh1. bind_inv H as supply Hs. bind_inv H as awf Hawf. bind_inv H as reqb Hreqb.
  bind_inv H as h2 Hh2. bind_inv H as supply' Hs'. bind_inv H as ber Hber.
  bind_inv H as r Hr. destruct r as [h4 msgs].
  apply maybe_undelegate_books in Hr. destruct Hr as (_ & _ & _ & R4).
  bind_inv H as tok Htok. inversion H; subst h' out. exists msgs, tok. split; [reflexivity|].
  intros m Hi. destruct (R4 m Hi) as (v & a & -> & _). eauto.
Qed.

Lemma execute_unbond_stsei_shape w h self amount user h' out :
  execute_unbond_stsei w h self amount user = Some (h', out) ->
  exists msgs tok, out = msgs ++ [MWasm tok (WCw20 (CBurn amount)) []] /\
                   forall m, In m msgs -> exists v c, m = MUndelegate v c.
Proof.
  unfold execute_unbond_stsei. intros H.
  bind_inv H as h1 Hh1. bind_inv H as reqst Hreq. bind_inv H as h2 Hh2.
  bind_inv H as r Hr. destruct r as [h4 msgs].
  apply maybe_undelegate_books in Hr. destruct Hr as (_ & _ & _ & R4).
  bind_inv H as tok Htok. inversion H; subst h' out. exists msgs, tok. split; [reflexivity|].
  intros m Hi. destruct (R4 m Hi) as (v & a & -> & _). eauto.
Qed.

Lemma convert_shape w h self amount user h' out :
  convert_stsei_bsei w h self amount user = Some (h', out) \/
  convert_bsei_stsei w h self amount user = Some (h', out) ->
  exists a b c d, out = [MWasm a (WCw20 b) []; MWasm c (WCw20 d) []].
Proof.
  intros [H|H].
  - unfold convert_stsei_bsei in H.
    bind_inv H as h1 Hh1. bind_inv H as stok E1. bind_inv H as btok E2. bind_inv H as de E3.
    bind_inv H as tm E4. bind_inv H as bs E5. bind_inv H as ss E6. bind_inv H as mint E7.
    bind_inv H as bb E8. bind_inv H as bst E9. bind_inv H as a10 E10. bind_inv H as a11 E11.
    bind_inv H as a12 E12. bind_inv H as a13 E13. inversion H; subst. eauto.
  - unfold convert_bsei_stsei in H.
    bind_inv H as h1 Hh1. bind_inv H as stok E1. bind_inv H as btok E2.
    bind_inv H as bs E5. bind_inv H as ss E6. bind_inv H as awf E7. bind_inv H as de E3.
    bind_inv H as tm E4. bind_inv H as bb E8. bind_inv H as bst E9. bind_inv H as a10 E10.
    bind_inv H as a11 E11. bind_inv H as a12 E12. bind_inv H as a13 E13. inversion H; subst. eauto.
Qed.

(** C02 (d), handler level: the hub sends coins out of its balance only in WithdrawUnbonded (bank
    send to the caller) and as Delegate messages of the three bond handlers; no message the hub
    emits to another contract carries funds *)
Theorem hub_execute_emits w h self sender funds hm h' out :
  hub_execute w h self sender funds hm = Some (h', out) -> Forall (hub_emit_ok hm) out.
Proof.
  unfold hub_execute. intros H. apply Forall_forall. intros m Hi.
  destruct hm.
  - check_inv H as Hp. apply bond_delegates_all in H.
    destruct H as (pay & h1 & g & _ & _ & _ & _ & _ & _ & _ & _ & _ & _ & Hall).
    destruct (Hall m Hi) as [(v & c & ->)|(tok & mint & ->)]; cbn; auto.
  - check_inv H as Hp. apply bond_delegates_all in H.
    destruct H as (pay & h1 & g & _ & _ & _ & _ & _ & _ & _ & _ & _ & _ & Hall).
    destruct (Hall m Hi) as [(v & c & ->)|(tok & mint & ->)]; cbn; auto.
  - check_inv H as Hp. apply bond_delegates_all in H.
    destruct H as (pay & h1 & g & _ & _ & _ & _ & _ & _ & _ & _ & _ & _ & Hall).
    destruct (Hall m Hi) as [(v & c & ->)|(tok & mint & ->)]; cbn; auto.
  - check_inv H as Hp. apply execute_update_global_pools in H.
    destruct H as (_ & _ & d & hooks & _ & Hh & ->).
    apply in_app_or in Hi. destruct Hi as [Hi|Hi]; [destruct (Hh m Hi) as (a & ->); reflexivity|].
    apply in_app_or in Hi. destruct Hi as [Hi|Hi].
    + apply in_map_iff in Hi. destruct Hi as (x & <- & _). cbn. eauto.
    + destruct Hi as [<-|[<-|[]]]; reflexivity.
  - check_inv H as Hp. apply execute_withdraw_pools in H. destruct H as (_ & _ & amount & _ & _ & ->).
    destruct Hi as [<-|[]]. reflexivity.
  - check_inv H as Hp. bind_inv H as h1 Hh1. inversion H; subst. destruct Hi.
  - apply update_params_spec in H. destruct H as (_ & _ & _ & -> & _). destruct Hi.
  - check_inv H as Hp. unfold execute_update_config in H.
    check_inv H as C1. check_inv H as C2. check_inv H as C3. inversion H; subst.
    destruct disp; [|destruct Hi]. destruct Hi as [<-|[]]. cbn. repeat eexists.
  - check_inv H as Hp. check_inv H as Hs. inversion H; subst. destruct Hi.
  - check_inv H as Hp. check_inv H as Hs. inversion H; subst. destruct Hi.
  - check_inv H as Hp. bind_inv H as reg Hreg. check_inv H as Hs. inversion H; subst.
    apply in_map_iff in Hi. destruct Hi as (x & <- & _). cbn. eauto.
  - check_inv H as Hp. check_inv H as Hs. bind_inv H as t Ht. check_inv H as Hb. inversion H; subst.
    destruct Hi as [<-|[]]. reflexivity.
  - check_inv H as Hp. bind_inv H as reg Hreg. check_inv H as Hs. inversion H; subst.
    destruct Hi as [<-|[<-|[]]]; reflexivity.
  - destruct (paused h); [|discriminate]. inversion H; subst. destruct Hi.
  - check_inv H as Hp. unfold receive_cw20 in H. bind_inv H as b Hb. bind_inv H as st Hst.
    destruct h0; [| |discriminate].
    + assert (S : exists msgs tok, out = msgs ++ [MWasm tok (WCw20 (CBurn amt)) []] /\
                                   forall m, In m msgs -> exists v c, m = MUndelegate v c).
      { destruct (sender =? b); [eapply execute_unbond_shape; eauto|].
        destruct (sender =? st); [eapply execute_unbond_stsei_shape; eauto|discriminate]. }
      destruct S as (msgs & tok & -> & Hm). apply in_app_or in Hi. destruct Hi as [Hi|[<-|[]]].
      * destruct (Hm m Hi) as (v & c & ->). cbn. eauto.
      * reflexivity.
    + assert (S : exists a b c d, out = [MWasm a (WCw20 b) []; MWasm c (WCw20 d) []]).
      { destruct (sender =? b); [eapply convert_shape; eauto|].
        destruct (sender =? st); [eapply convert_shape; eauto|discriminate]. }
      destruct S as (a1 & b1 & c1 & d1 & ->). destruct Hi as [<-|[<-|[]]]; reflexivity.
Qed.

(** the staking coins leaving the hub in one handler: the payment for the bond handlers, nothing
    for every other handler *)
Lemma hub_execute_dsum w h self sender funds hm h' out :
  hub_execute w h self sender funds hm = Some (h', out) ->
  (hm = HBond \/ hm = HBondSt \/ hm = HBondRewards ->
     exists pay, funds = [pay] /\ fst pay = hp_underlying (h_params h) /\ dsum out = snd pay) /\
  (~ (hm = HBond \/ hm = HBondSt \/ hm = HBondRewards) -> dsum out = 0).
Proof.
  intros H.
  assert (B : forall k, execute_bond w h self sender funds k = Some (h', out) ->
              exists pay, funds = [pay] /\ fst pay = hp_underlying (h_params h) /\ dsum out = snd pay).
  { intros k Hk. apply bond_delegates_all in Hk.
    destruct Hk as (pay & h1 & g & A & B & _ & _ & _ & C & _). eauto. }
  pose proof (hub_execute_books _ _ _ _ _ _ _ _ H) as (P & Q & _).
  unfold hub_execute in H.
  destruct hm; try (split; [intros [E|[E|E]]; discriminate E | intros _]);
    try (destruct (Q eq_refl) as (_ & _ & C); apply NoDU_sums; exact C).
  - check_inv H as Hp. split; [intros _; eapply B; eauto | intros N; exfalso; apply N; auto].
  - check_inv H as Hp. split; [intros _; eapply B; eauto | intros N; exfalso; apply N; auto].
  - check_inv H as Hp. split; [intros _; eapply B; eauto | intros N; exfalso; apply N; auto].
  - check_inv H as Hp. bind_inv H as h1 Hh1. inversion H; subst. reflexivity.
  - check_inv H as Hp. apply receive_cw20_books in H. tauto.
Qed.

Theorem convert_moves_between_pools w h self amount user h' out :
  (convert_stsei_bsei w h self amount user = Some (h', out) ->
   exists h1 d, slashing w self h = Some h1 /\
     hs_bb (h_state h') = hs_bb (h_state h1) + d /\ hs_bst (h_state h') + d = hs_bst (h_state h1) /\
     booked h' = booked h1 /\ NoDU out) /\
  (convert_bsei_stsei w h self amount user = Some (h', out) ->
   exists h1 d, slashing w self h = Some h1 /\
     hs_bb (h_state h') + d = hs_bb (h_state h1) /\ hs_bst (h_state h') = hs_bst (h_state h1) + d /\
     booked h' = booked h1 /\ NoDU out).
Proof.
  split; [exact (convert_stsei_bsei_books w h self amount user h' out)
         | exact (convert_bsei_stsei_books w h self amount user h' out)].
Qed.
