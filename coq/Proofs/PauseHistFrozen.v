(** * PauseHistFrozen (helper of PauseHist, C11 at world / history level, part 1):
    while the hub is paused NOTHING anywhere in the world can change the hub or make it emit a message.

    - [exempt_hub_msg] / [carries_exempt] / [exempt_msg]: the two hub messages the paused hub accepts
      (UpdateParams, MigrateUnbondWaitList), a cosmos message carrying one of them (to any address),
      a cosmos message carrying one of them TO THE HUB;
    - [hub_exempt_op]: the operations of the alphabet excluded from the freeze: the two root
      transactions above, and the operations that replace / edit the hub from outside the contracts
      ([OReset], [OInstHub], [OLegacyWait]);
    - [hub_execute_nx] ... [step_msg_emits_nx]: NO handler of ANY contract ever emits a message
      carrying UpdateParams / MigrateUnbondWaitList: these two can only be ROOT messages;
    - [paused_step_msg]: one message executed in a paused world, other than the two exempt ones,
      is not addressed to the hub and leaves the hub component untouched;
    - [run_inv_trace], [run_stack_in_trace]: generic facts about [Exec.run] (stack invariant + a
      predicate on every executed message; everything that is ever pending is executed);
    - [paused_tx_trace]: a successful transaction in a paused world whose root is not exempt leaves the
      hub unchanged, executes no message addressed to the hub and no message sent by the hub;
    - [exempt_tx_effect], [params_tx_effect], [migrate_tx_effect]: exact effect of a successful
      exempt root transaction (one message executed, nothing emitted);
    - [paused_frozen]: MAIN: every non-exempt operation of the alphabet leaves the hub unchanged;
    - [paused_frozen_history], [paused_frozen_always]: ... and so does every history of non-exempt
      operations (the hub is still paused, with the same state, at the end and in every
      intermediate world);
    - [paused_tx_hub_messages]: in ANY successful transaction in a paused world every executed message
      addressed to the hub is UpdateParams / MigrateUnbondWaitList and no executed message other
      than the root was sent by the hub;
    - [paused_tx_needing_hub_fails], [paused_bsei_send_fails], [paused_stsei_send_fails],
      [paused_bsei_sendfrom_fails], [paused_stsei_sendfrom_fails], [paused_bsei_burnfrom_fails],
      [paused_stsei_burnfrom_fails], [paused_reg_remove_fails]: a transaction whose root makes its contract call the hub fails as
      a whole and changes nothing. *)
From Krp Require Import Tactics Prelude Fixed FMap Types Env Registry Cw20 Reward Dispatcher Hub Exec
     ExecP Hist HubFrame HubAdmin Auth Pause MirrorWire.
Open Scope N_scope.

(** ** the exempt messages and operations *)
Definition HubPaused (w : world) : Prop := exists h, w_hub w = Some h /\ paused h = true.

Definition exempt_hub_msg (m : hub_msg) : bool :=
  match m with HParams _ _ _ _ _ _ | HMigrate _ => true | _ => false end.

Definition exempt_wasm (m : wasm_msg) : bool :=
  match m with WHub hm => exempt_hub_msg hm | _ => false end.

(** carries UpdateParams / MigrateUnbondWaitList, whatever the destination *)
Definition carries_exempt (m : cmsg) : bool :=
  match m with MWasm _ wm _ => exempt_wasm wm | _ => false end.

(** ... and is addressed to the hub *)
Definition exempt_msg (m : cmsg) : bool :=
  match m with MWasm to wm _ => (to =? A_hub) && exempt_wasm wm | _ => false end.

(** the operations that are NOT frozen by the pause *)
Definition hub_exempt_op (o : op) : bool :=
  match o with
  | OReset _ => true
  | OInstHub _ _ _ _ _ _ _ _ => true
  | OLegacyWait _ _ _ => true
  | OTx _ target m _ => (target =? A_hub) && exempt_wasm m
  | _ => false
  end.

Lemma exempt_hub_msg_false m :
  exempt_hub_msg m = false ->
  (forall a b c d e f, m <> HParams a b c d e f) /\ (forall l, m <> HMigrate l).
Proof. intros H. split; intros; intros ->; discriminate H. Qed.

Lemma exempt_msg_carries m : carries_exempt m = false -> exempt_msg m = false.
Proof. destruct m; try reflexivity. cbn. intros ->. apply andb_false_r. Qed.

(** ** no handler emits UpdateParams / MigrateUnbondWaitList *)
Definition nx (m : cmsg) : Prop := carries_exempt m = false.
Definition nx_s (sm : addr * cmsg) : Prop := nx (snd sm).

Ltac nx_list :=
  repeat first [ apply Forall_nil
               | apply Forall_cons; [reflexivity|]
               | apply Forall_app; split ].

Lemma delegate_msgs_nx vals xs d : Forall nx (delegate_msgs vals xs d).
Proof.
  unfold delegate_msgs. apply Forall_flat_map_all. intros p.
  destruct (snd p =? 0); nx_list.
Qed.

Lemma pick_validator_nx w self h claim out :
  pick_validator w self h claim = Some out -> Forall nx out.
Proof.
  unfold pick_validator. intros H. bind_inv H as ys Hys. inversion H; subst.
  apply Forall_flat_map_all. intros p. destruct (snd p =? 0); nx_list.
Qed.

Lemma maybe_undelegate_nx w self h h' out :
  maybe_undelegate w self h = Some (h', out) -> Forall nx out.
Proof.
  unfold maybe_undelegate. intros H. bind_inv H as p Hp.
  destruct (hp_epoch (h_params h) <? p); [|inversion H; subst; constructor].
  unfold process_undelegations in H.
  bind_inv H as a1 E1. bind_inv H as a2 E2. bind_inv H as a3 E3. bind_inv H as a4 E4.
  bind_inv H as a5 E5. bind_inv H as a6 E6. bind_inv H as a7 E7. inversion H; subst.
  eapply pick_validator_nx; eauto.
Qed.

Lemma execute_bond_nx w h self sender funds k h' out :
  execute_bond w h self sender funds k = Some (h', out) -> Forall nx out.
Proof.
  unfold execute_bond. intros H.
  bind_inv H as dispaddr Hd. check_inv H as Hauth. check_inv H as Hlen.
  bind_inv H as pay Hpay. bind_inv H as h1 Hh1.
  bind_inv H as mint Hmint. bind_inv H as supply Hsupply. bind_inv H as s' Hs'.
  bind_inv H as vals Hvals.
  destruct vals as [|v0 vr]; [discriminate|].
  bind_inv H as r Hr.
  destruct k.
  - bind_inv H as tok Htok. inversion H; subst. apply Forall_app. split; [apply delegate_msgs_nx|nx_list].
  - bind_inv H as tok Htok. inversion H; subst. apply Forall_app. split; [apply delegate_msgs_nx|nx_list].
  - inversion H; subst. apply delegate_msgs_nx.
Qed.

Lemma execute_unbond_nx w h self amount user h' out :
  execute_unbond w h self amount user = Some (h', out) -> Forall nx out.
Proof.
  unfold execute_unbond. intros H.
  bind_inv H as h1 Hh1. bind_inv H as supply Hs. bind_inv H as awf Hawf. bind_inv H as reqb Hreqb.
  bind_inv H as h2 Hh2. bind_inv H as supply' Hs'. bind_inv H as ber Hber.
  bind_inv H as r Hr. destruct r as [h4 msgs]. apply maybe_undelegate_nx in Hr.
  bind_inv H as tok Htok. inversion H; subst. apply Forall_app. split; [exact Hr|nx_list].
Qed.

Lemma execute_unbond_stsei_nx w h self amount user h' out :
  execute_unbond_stsei w h self amount user = Some (h', out) -> Forall nx out.
Proof.
  unfold execute_unbond_stsei. intros H.
  bind_inv H as h1 Hh1. bind_inv H as reqst Hreq. bind_inv H as h2 Hh2.
  bind_inv H as r Hr. destruct r as [h4 msgs]. apply maybe_undelegate_nx in Hr.
  bind_inv H as tok Htok. inversion H; subst. apply Forall_app. split; [exact Hr|nx_list].
Qed.

Lemma convert_stsei_bsei_nx w h self amount user h' out :
  convert_stsei_bsei w h self amount user = Some (h', out) -> Forall nx out.
Proof.
  unfold convert_stsei_bsei. intros H.
  bind_inv H as h1 Hh1.
  bind_inv H as a1 E1. bind_inv H as a2 E2. bind_inv H as a3 E3. bind_inv H as a4 E4.
  bind_inv H as a5 E5. bind_inv H as a6 E6. bind_inv H as a7 E7. bind_inv H as a8 E8.
  bind_inv H as a9 E9. bind_inv H as a10 E10. bind_inv H as a11 E11. bind_inv H as a12 E12.
  bind_inv H as a13 E13. inversion H; subst. nx_list.
Qed.

Lemma convert_bsei_stsei_nx w h self amount user h' out :
  convert_bsei_stsei w h self amount user = Some (h', out) -> Forall nx out.
Proof.
  unfold convert_bsei_stsei. intros H.
  bind_inv H as h1 Hh1.
  bind_inv H as a1 E1. bind_inv H as a2 E2. bind_inv H as a3 E3. bind_inv H as a4 E4.
  bind_inv H as a5 E5. bind_inv H as a6 E6. bind_inv H as a7 E7. bind_inv H as a8 E8.
  bind_inv H as a9 E9. bind_inv H as a10 E10. bind_inv H as a11 E11. bind_inv H as a12 E12.
  bind_inv H as a13 E13. inversion H; subst. nx_list.
Qed.

Lemma receive_cw20_nx w h self sender user amount hk h' out :
  receive_cw20 w h self sender user amount hk = Some (h', out) -> Forall nx out.
Proof.
  unfold receive_cw20. intros H. bind_inv H as b Hb. bind_inv H as st Hst.
  destruct hk; [| |discriminate].
  - destruct (sender =? b); [eapply execute_unbond_nx; eauto|].
    destruct (sender =? st); [eapply execute_unbond_stsei_nx; eauto|discriminate].
  - destruct (sender =? b); [eapply convert_bsei_stsei_nx; eauto|].
    destruct (sender =? st); [eapply convert_stsei_bsei_nx; eauto|discriminate].
Qed.

Lemma execute_update_global_nx w h self sender n h' out :
  execute_update_global w h self sender n = Some (h', out) -> Forall nx out.
Proof.
  unfold execute_update_global. intros H. check_inv H as Hauth.
  bind_inv H as d Hd. bind_inv H as hooks Hhooks. inversion H; subst.
  apply Forall_app. split; [|apply Forall_app; split].
  - destruct (n =? 0); [inversion Hhooks; subst; constructor|].
    bind_inv Hhooks as reg Hreg. inversion Hhooks; subst. apply Forall_repeat. reflexivity.
  - apply Forall_map_all. intros x. reflexivity.
  - nx_list.
Qed.

Lemma execute_withdraw_nx w h self sender h' out :
  execute_withdraw w h self sender = Some (h', out) -> Forall nx out.
Proof.
  unfold execute_withdraw. intros H.
  bind_inv H as historical Hh. bind_inv H as h1 Hh1.
  bind_inv H as fa Hfa. destruct fa as [amount batches]. check_inv H as Hnz.
  bind_inv H as prev Hprev. inversion H; subst. nx_list.
Qed.

Lemma hub_execute_nx w h self sender funds m h' out :
  hub_execute w h self sender funds m = Some (h', out) -> Forall nx out.
Proof.
  unfold hub_execute. intros H. destruct m.
  - check_inv H as Hp. eapply execute_bond_nx; eauto.
  - check_inv H as Hp. eapply execute_bond_nx; eauto.
  - check_inv H as Hp. eapply execute_bond_nx; eauto.
  - check_inv H as Hp. eapply execute_update_global_nx; eauto.
  - check_inv H as Hp. eapply execute_withdraw_nx; eauto.
  - check_inv H as Hp. bind_inv H as h1 Hh1. inversion H; subst. constructor.
  - apply update_params_spec in H. destruct H as (_ & _ & _ & -> & _). constructor.
  - check_inv H as Hp. pose proof (execute_update_config_out _ _ _ _ _ _ _ _ _ _ _ H) as ->.
    destruct disp; nx_list.
  - check_inv H as Hp. check_inv H as Hs. inversion H; subst. constructor.
  - check_inv H as Hp. check_inv H as Hs. inversion H; subst. constructor.
  - check_inv H as Hp. bind_inv H as reg Hreg. check_inv H as Hs. inversion H; subst.
    apply Forall_map_all. intros x. reflexivity.
  - check_inv H as Hp. check_inv H as Hs. bind_inv H as t Ht. check_inv H as Hb.
    inversion H; subst. nx_list.
  - check_inv H as Hp. bind_inv H as reg Hreg. check_inv H as Hs. inversion H; subst. nx_list.
  - destruct (paused h); [|discriminate]. inversion H; subst. constructor.
  - check_inv H as Hp. eapply receive_cw20_nx; eauto.
Qed.

Lemma reward_execute_nx w r self sender m r' out :
  reward_execute w r self sender m = Some (r', out) -> Forall nx out.
Proof.
  intros H. destruct m; cbn [reward_execute] in H.
  - bind_inv H as all Hall. bind_inv H as rewards Hrw. bind_inv H as whole Hwh.
    bind_inv H as decimals Hdec. check_inv H as Hnz. bind_inv H as prev Hprev.
    inversion H; subst. nx_list.
  - check_inv H as Hs. inversion H; subst. constructor.
  - check_inv H as Hs. inversion H; subst. constructor.
  - check_inv H as Hs. inversion H; subst. constructor.
  - bind_inv H as dp Hdp. check_inv H as Hs. inversion H; subst.
    apply Forall_flat_map_all. intros c.
    destruct (existsb (N.eqb (fst c)) (rw_denoms r') && negb (snd c =? 0)); nx_list.
  - bind_inv H as dp Hdp. check_inv H as Hs.
    destruct (rw_total r =? 0); [inversion H; subst; constructor|].
    bind_inv H as claimed Hc. bind_inv H as q Hq. bind_inv H as gi Hgi. inversion H; subst. constructor.
  - bind_inv H as tok Htok. check_inv H as Hs. bind_inv H as rewards Hrw. bind_inv H as pend Hpend.
    bind_inv H as b Hb. bind_inv H as tot Htot. inversion H; subst. constructor.
  - bind_inv H as tok Htok. check_inv H as Hs. check_inv H as Hle.
    bind_inv H as rewards Hrw. bind_inv H as pend Hpend.
    bind_inv H as b Hb. bind_inv H as tot Htot. inversion H; subst. constructor.
  - check_inv H as Hs. inversion H; subst. constructor.
Qed.

Lemma convert_loop_nx w dp : forall coins tsei tusd msgs r,
  Forall nx msgs -> convert_loop w dp coins tsei tusd msgs = Some r -> Forall nx (snd r).
Proof.
  induction coins as [|c cs IH]; intros tsei tusd msgs r Hm H; cbn [convert_loop] in H.
  - inversion H; subst. exact Hm.
  - destruct (negb (existsb (N.eqb (fst c)) (dp_denoms dp))); [eapply IH; eauto|].
    destruct (fst c =? dp_std dp); [bind_inv H as t Ht; eapply IH; eauto|].
    destruct (fst c =? dp_bd dp); [bind_inv H as t Ht; eapply IH; eauto|].
    destruct (negb (snd c =? 0)); [|eapply IH; eauto].
    check_inv H as Hsw. bind_inv H as ret Hret. bind_inv H as t Ht.
    eapply IH; [|exact H]. apply Forall_app. split; [exact Hm|]. unfold m_swap. nx_list.
Qed.

Lemma disp_execute_nx w dp self sender m dp' out :
  disp_execute w dp self sender m = Some (dp', out) -> Forall nx out.
Proof.
  intros H. destruct m; cbn [disp_execute] in H.
  - check_inv H as Hs. bind_inv H as r Hr. destruct r as [[tsei tusd] msgs].
    apply convert_loop_nx in Hr; [|constructor]. cbn [snd] in Hr.
    check_inv H as Hor. bind_inv H as s2u Hs2u. bind_inv H as u2s Hu2s. bind_inv H as info Hinfo.
    destruct info as [[od oa] ask]. inversion H; subst.
    destruct (oa =? 0); [exact Hr|]. apply Forall_app. split; [exact Hr|]. unfold m_swap. nx_list.
  - check_inv H as Hs. bind_inv H as m1 Hm1. bind_inv H as m2 Hm2. inversion H; subst.
    apply Forall_app. split; [|apply Forall_app; split].
    + destruct (bal (w_env w) self (dp_bd dp') =? 0); [inversion Hm1; subst; constructor|].
      bind_inv Hm1 as k Hk. bind_inv Hm1 as rest Hrest. inversion Hm1; subst. nx_list.
    + destruct (bal (w_env w) self (dp_std dp') =? 0); [inversion Hm2; subst; constructor|].
      bind_inv Hm2 as k Hk. bind_inv Hm2 as rebond Hre. inversion Hm2; subst.
      destruct (rebond =? 0); nx_list.
    + nx_list.
  - check_inv H as Hs. check_inv H as Hstd. check_inv H as Hrate. inversion H; subst. constructor.
  - check_inv H as Hs. inversion H; subst. constructor.
  - check_inv H as Hs. inversion H; subst. constructor.
  - check_inv H as Hs. inversion H; subst. constructor.
  - check_inv H as Hs. inversion H; subst. constructor.
  - check_inv H as Hs. inversion H; subst. constructor.
Qed.

Lemma reg_redelegate_msgs_nx w g v out : reg_redelegate_msgs w g v = Some out -> Forall nx out.
Proof.
  unfold reg_redelegate_msgs. intros H.
  destruct (delegation (w_env w) (rg_hub g) v) as [amount|]; [|inversion H; subst; constructor].
  destruct ((if can_redelegate (w_env w) v then amount else 0) <? amount);
    [inversion H; subst; constructor|].
  bind_inv H as r Hr. inversion H; subst. nx_list.
Qed.

Lemma reg_execute_nx w g sender m g' out :
  reg_execute w g sender m = Some (g', out) -> Forall nx out.
Proof.
  intros H. destruct m; cbn [reg_execute] in H.
  - check_inv H as Hs. inversion H; subst. constructor.
  - check_inv H as Hs. cbn [rg_vals set_rg_vals] in H.
    destruct (remove_val v (rg_vals g)) as [|x l]; [discriminate|].
    bind_inv H as msgs Hm. inversion H; subst. eapply reg_redelegate_msgs_nx; eauto.
  - check_inv H as Hs. inversion H; subst. constructor.
  - check_inv H as Hs. bind_inv H as msgs Hm. inversion H; subst. eapply reg_redelegate_msgs_nx; eauto.
  - check_inv H as Hs. inversion H; subst. constructor.
  - check_inv H as Hs. inversion H; subst. constructor.
Qed.

Lemma bsei_execute_nx w t sender m t' out :
  bsei_execute w t sender m = Some (t', out) -> Forall nx out.
Proof.
  intros H. apply bsei_execute_out in H.
  destruct m; try (subst out; constructor); try contradiction;
    destruct H as (rc & _ & ->); unfold m_dec, m_inc, m_receive, m_check_slashing; nx_list.
Qed.

Lemma stsei_execute_nx w t sender m t' out :
  stsei_execute w t sender m = Some (t', out) -> Forall nx out.
Proof.
  intros H. unfold stsei_execute in H. destruct m.
  - check_inv H as Hz. bind_inv H as t1 Hm. inversion H; subst. constructor.
  - check_inv H as Hs. check_inv H as Hz. bind_inv H as t1 Hb. inversion H; subst.
    unfold m_check_slashing. nx_list.
  - bind_inv H as t1 Hm. inversion H; subst. constructor.
  - check_inv H as Hz. bind_inv H as t1 Hm. inversion H; subst. unfold m_receive. nx_list.
  - bind_inv H as t1 Ha. inversion H; subst. constructor.
  - bind_inv H as t1 Ha. inversion H; subst. constructor.
  - bind_inv H as t1 Hd. bind_inv H as t2 Hm. inversion H; subst. constructor.
  - bind_inv H as t1 Hd. bind_inv H as t2 Hb. inversion H; subst. unfold m_check_slashing. nx_list.
  - bind_inv H as t1 Hd. bind_inv H as t2 Hm. inversion H; subst. unfold m_receive. nx_list.
  - destruct (tk_minter t) as [[mn cap]|]; [|discriminate]. check_inv H as Hs.
    inversion H; subst. constructor.
Qed.

Lemma call_effect_emits_nx w sender target m funds w' out :
  call_effect w sender target m funds w' out -> Forall nx out.
Proof.
  intros Hc.
  destruct Hc as [h hm h' _ _ _ He _ | r rm r' _ _ _ He _ | d dm d' _ _ _ He _
                 | g gm g' _ _ _ He _ | t cm t' _ _ _ He _ | t cm t' _ _ _ He _
                 | sm e' _ _ _ _ -> | _ _ ->]; try constructor.
  - eapply hub_execute_nx; eauto.
  - eapply reward_execute_nx; eauto.
  - eapply disp_execute_nx; eauto.
  - eapply reg_execute_nx; eauto.
  - eapply bsei_execute_nx; eauto.
  - eapply stsei_execute_nx; eauto.
Qed.

(** every message emitted while executing any message carries neither UpdateParams nor
    MigrateUnbondWaitList: these two are only ever ROOT messages of transactions *)
Lemma step_msg_emits_nx w s m w' out :
  step_msg w s m = Some (w', out) -> Forall nx_s out.
Proof.
  intros H. apply step_msg_inv in H.
  destruct H as [e' _ -> _ | to wm funds e1 o _ _ Hc ->]; [constructor|].
  apply Forall_map. eapply call_effect_emits_nx; eauto.
Qed.

(** ** one message in a paused world *)
Definition to_hub (m : cmsg) : Prop := exists wm f, m = MWasm A_hub wm f.

Lemma paused_step_msg w h s m w' out :
  w_hub w = Some h -> paused h = true -> exempt_msg m = false ->
  step_msg w s m = Some (w', out) ->
  w_hub w' = Some h /\ ~ to_hub m /\ Forall (fun sm => fst sm <> A_hub) out.
Proof.
  intros Hw Hp Hx H. apply step_msg_inv in H.
  destruct H as [e' -> -> Hn | to wm funds e1 o -> Hsend Hc ->].
  - split; [exact Hw|]. split; [|constructor]. intros (wm & f & E). eapply Hn. exact E.
  - assert (Hto : to <> A_hub).
    { intros ->. cbn [exempt_msg] in Hx. rewrite N.eqb_refl in Hx. cbn [andb] in Hx.
      destruct Hc as [h0 hm h' _ -> Hw0 He _ | r rm r' E | d dm d' E | g gm g' E | t cm t' E
                     | t cm t' E | sm e' E | E]; try discriminate E.
      cbn [w_hub set_env] in Hw0. rewrite Hw in Hw0. inversion Hw0; subst h0.
      cbn [exempt_wasm] in Hx. apply exempt_hub_msg_false in Hx. destruct Hx as [X1 X2].
      rewrite (paused_blocks _ _ _ _ _ _ Hp X1 X2) in He. discriminate He. }
    split; [|split].
    + destruct Hc as [h0 hm h' E | r rm r' _ _ _ _ -> | d dm d' _ _ _ _ -> | g gm g' _ _ _ _ ->
                     | t cm t' _ _ _ _ -> | t cm t' _ _ _ _ -> | sm e' _ _ _ -> _ | _ -> _];
        try exact Hw. contradiction.
    + intros (wm' & f' & E). inversion E; subst. apply Hto. reflexivity.
    + apply Forall_map. apply Forall_forall. intros x _. exact Hto.
Qed.

(** ** generic facts about [run] *)

(** a (world, stack) invariant together with a predicate established for every executed message *)
Lemma run_inv_trace (J : world -> list (addr * cmsg) -> Prop) (P : addr * cmsg -> Prop) :
  (forall w s m rest w' out,
      J w ((s, m) :: rest) -> step_msg w s m = Some (w', out) -> J w' (out ++ rest) /\ P (s, m)) ->
  forall fuel w stack tr w' tr',
    J w stack -> run fuel w stack tr = Some (w', tr') ->
    J w' [] /\ exists ex, tr' = tr ++ ex /\ Forall P ex.
Proof.
  intros Hstep. induction fuel as [|f IH]; intros w stack tr w' tr' HJ H.
  - destruct stack as [|[s m] rest]; cbn [run] in H; [|discriminate].
    inversion H; subst. split; [exact HJ|]. exists []. rewrite app_nil_r. split; [reflexivity|constructor].
  - destruct stack as [|[s m] rest]; cbn [run] in H.
    + inversion H; subst. split; [exact HJ|]. exists []. rewrite app_nil_r. split; [reflexivity|constructor].
    + bind_inv H as r Hr. destruct r as [w1 out]. cbn [fst snd] in H.
      destruct (Hstep _ _ _ _ _ _ HJ Hr) as [HJ1 HP].
      destruct (IH _ _ _ _ _ HJ1 H) as (HJ2 & ex & -> & HF).
      split; [exact HJ2|]. exists ((s, m) :: ex). rewrite <- app_assoc. split; [reflexivity|].
      constructor; assumption.
Qed.

(** a successful [run] has executed everything that was pending *)
Lemma run_stack_in_trace : forall fuel w stack tr w' tr',
  run fuel w stack tr = Some (w', tr') -> exists ex, tr' = tr ++ ex /\ incl stack ex.
Proof.
  induction fuel as [|f IH]; intros w stack tr w' tr' H.
  - destruct stack as [|[s m] rest]; cbn [run] in H; [|discriminate].
    inversion H; subst. exists []. rewrite app_nil_r. split; [reflexivity|apply incl_refl].
  - destruct stack as [|[s m] rest]; cbn [run] in H.
    + inversion H; subst. exists []. rewrite app_nil_r. split; [reflexivity|apply incl_refl].
    + bind_inv H as r Hr. destruct r as [w1 out]. cbn [fst snd] in H.
      destruct (IH _ _ _ _ _ H) as (ex & -> & Hi).
      exists ((s, m) :: ex). rewrite <- app_assoc. split; [reflexivity|].
      intros x [<-|Hx]; [left; reflexivity|]. right. apply Hi. apply in_or_app. right. exact Hx.
Qed.

(** one step of [run] on a singleton stack *)
Lemma run_root fuel w s m w' tr :
  run fuel w [(s, m)] [] = Some (w', tr) ->
  exists f w1 out, fuel = S f /\ step_msg w s m = Some (w1, out) /\
                   run f w1 out [(s, m)] = Some (w', tr).
Proof.
  destruct fuel as [|f]; cbn [run]; [discriminate|]. intros H.
  bind_inv H as r Hr. destruct r as [w1 out]. cbn [fst snd app] in H. rewrite app_nil_r in H.
  exists f, w1, out. auto.
Qed.

(** ** a whole transaction in a paused world *)

(** what an executed non-root message of a transaction in a paused world looks like *)
Definition off_hub (sm : addr * cmsg) : Prop := fst sm <> A_hub /\ ~ to_hub (snd sm).

Lemma paused_run_tail h : forall fuel w stack tr w' tr',
  w_hub w = Some h -> paused h = true ->
  Forall (fun sm => exempt_msg (snd sm) = false /\ fst sm <> A_hub) stack ->
  run fuel w stack tr = Some (w', tr') ->
  w_hub w' = Some h /\ exists ex, tr' = tr ++ ex /\ Forall off_hub ex.
Proof.
  intros fuel w stack tr w' tr' Hw Hp Hst H.
  pose (J := fun (w : world) (st : list (addr * cmsg)) =>
               w_hub w = Some h /\ Forall (fun sm => exempt_msg (snd sm) = false /\ fst sm <> A_hub) st).
  destruct (run_inv_trace J off_hub) with (fuel := fuel) (w := w) (stack := stack) (tr := tr)
    (w' := w') (tr' := tr') as ([HJ _] & ex & E & HF); [| split; assumption | exact H |].
  - clear Hw Hst H. intros w0 s0 m0 rest0 w1 out0 [Hw0 Hst0] Hs.
    inversion Hst0 as [|x l [Hx Hsnd] Hrest]; subst. cbn [fst snd] in Hx, Hsnd.
    destruct (paused_step_msg _ _ _ _ _ _ Hw0 Hp Hx Hs) as (Hw' & Hnt & Hout).
    split; [split; [exact Hw'|] | split; assumption].
    apply Forall_app. split; [|exact Hrest].
    pose proof (step_msg_emits_nx _ _ _ _ _ Hs) as Hnx.
    apply Forall_forall. intros sm Hin. split.
    + apply exempt_msg_carries. eapply Forall_forall in Hnx; [exact Hnx | exact Hin].
    + eapply Forall_forall in Hout; [exact Hout | exact Hin].
  - split; [exact HJ|]. eauto.
Qed.

(** a successful transaction in a paused world whose root is not one of the two exempt messages:
    the hub is unchanged, the root was not addressed to the hub, and no other executed message was
    addressed to the hub or sent by the hub *)
Theorem paused_tx_trace w h sender target m funds w' tr :
  w_hub w = Some h -> paused h = true ->
  exempt_msg (MWasm target m funds) = false ->
  run tx_fuel w [(sender, MWasm target m funds)] [] = Some (w', tr) ->
  w_hub w' = Some h /\ target <> A_hub /\
  exists rest, tr = (sender, MWasm target m funds) :: rest /\ Forall off_hub rest.
Proof.
  intros Hw Hp Hx H. apply run_root in H. destruct H as (f & w1 & out & _ & Hs & H).
  destruct (paused_step_msg _ _ _ _ _ _ Hw Hp Hx Hs) as (Hw1 & Hnt & Hout).
  pose proof (step_msg_emits_nx _ _ _ _ _ Hs) as Hnx.
  assert (Hst : Forall (fun sm => exempt_msg (snd sm) = false /\ fst sm <> A_hub) out).
  { apply Forall_forall. intros sm Hin. split.
    - apply exempt_msg_carries. eapply Forall_forall in Hnx; [exact Hnx | exact Hin].
    - eapply Forall_forall in Hout; [exact Hout | exact Hin]. }
  destruct (paused_run_tail h _ _ _ _ _ _ Hw1 Hp Hst H) as (Hw' & ex & -> & HF).
  split; [exact Hw'|]. split.
  - intros ->. apply Hnt. exists m, funds. reflexivity.
  - exists ex. split; [reflexivity | exact HF].
Qed.

(** exact effect of a successful root UpdateParams / MigrateUnbondWaitList transaction (paused or
    not): one message executed, the hub handler's new state stored, nothing emitted *)
Lemma exempt_hub_out w h self sender funds hm h' out :
  exempt_hub_msg hm = true -> hub_execute w h self sender funds hm = Some (h', out) -> out = [].
Proof.
  intros Hx H. destruct hm; try discriminate Hx; unfold hub_execute in H.
  - apply update_params_spec in H. tauto.
  - destruct (paused h); [|discriminate]. inversion H; reflexivity.
Qed.

Theorem exempt_tx_effect w h sender hm funds w' tr :
  w_hub w = Some h -> exempt_hub_msg hm = true ->
  run tx_fuel w [(sender, MWasm A_hub (WHub hm) funds)] [] = Some (w', tr) ->
  exists e1 h', send_coins (w_env w) sender A_hub funds = Some e1 /\
    hub_execute (set_env w e1) h A_hub sender funds hm = Some (h', []) /\
    w' = set_hub (set_env w e1) h' /\ tr = [(sender, MWasm A_hub (WHub hm) funds)].
Proof.
  intros Hw Hx H. apply run_root in H. destruct H as (f & w1 & out & _ & Hs & H).
  apply step_msg_inv in Hs.
  destruct Hs as [e' _ _ Hn | to wm fs e1 o E Hsend Hc ->]; [exfalso; eapply Hn; reflexivity|].
  inversion E; subst to wm fs.
  destruct Hc as [h0 hm0 h' _ Em Hw0 He -> | r rm r' T | d dm d' T | g gm g' T | t cm t' T
                 | t cm t' T | sm e' T | T]; try discriminate T.
  inversion Em; subst hm0. cbn [w_hub set_env] in Hw0. rewrite Hw in Hw0. inversion Hw0; subst h0.
  pose proof (exempt_hub_out _ _ _ _ _ _ _ _ Hx He) as ->. cbn [map] in H.
  exists e1, h'. split; [exact Hsend|]. split; [exact He|].
  destruct f; cbn [run] in H; inversion H; subst; auto.
Qed.

Theorem params_tx_effect w h sender a b c d pz f funds w' tr :
  w_hub w = Some h ->
  step w (OTx sender A_hub (WHub (HParams a b c d pz f)) funds) = (w', (true, tr)) ->
  sender = hc_creator (h_cfg h) /\ (pz <> Some true -> h_oldwait h = []) /\
  exists e1, send_coins (w_env w) sender A_hub funds = Some e1 /\
    w' = set_hub (set_env w e1) (set_h_params h (new_params (h_params h) a b c d pz f)) /\
    tr = [(sender, MWasm A_hub (WHub (HParams a b c d pz f)) funds)].
Proof.
  intros Hw H. cbn [step] in H.
  destruct (run tx_fuel w _ []) as [[w1 tr1]|] eqn:E; inversion H; subst.
  apply (exempt_tx_effect _ _ _ (HParams a b c d pz f) _ _ _ Hw eq_refl) in E.
  destruct E as (e1 & h' & Hsend & He & -> & ->).
  unfold hub_execute in He. apply update_params_spec in He.
  destruct He as (Hs & _ & Ho & _ & ->). cbn [h_cfg set_env w_hub] in Hs.
  split; [exact Hs|]. split; [exact Ho|]. exists e1. auto.
Qed.

Theorem migrate_tx_effect w h sender limit funds w' tr :
  w_hub w = Some h ->
  step w (OTx sender A_hub (WHub (HMigrate limit)) funds) = (w', (true, tr)) ->
  paused h = true /\
  exists e1, send_coins (w_env w) sender A_hub funds = Some e1 /\
    w' = set_hub (set_env w e1) (migrate_wait_lists h limit) /\
    tr = [(sender, MWasm A_hub (WHub (HMigrate limit)) funds)].
Proof.
  intros Hw H. cbn [step] in H.
  destruct (run tx_fuel w _ []) as [[w1 tr1]|] eqn:E; inversion H; subst.
  apply (exempt_tx_effect _ _ _ (HMigrate limit) _ _ _ Hw eq_refl) in E.
  destruct E as (e1 & h' & Hsend & He & -> & ->).
  unfold hub_execute in He. destruct (paused h); [|discriminate]. inversion He; subst.
  split; [reflexivity|]. exists e1. auto.
Qed.

(** ** MAIN: every non-exempt operation of the alphabet leaves the paused hub unchanged *)
Theorem paused_frozen w o :
  HubPaused w -> hub_exempt_op o = false -> w_hub (fst (step w o)) = w_hub w.
Proof.
  intros (h & Hw & Hp) Ho. destruct o; try discriminate Ho; cbn [step].
  - destruct (e_now (w_env w) + dt <=? 18446744073); reflexivity.
  - destruct (ev_slash _ _ _ _ _); reflexivity.
  - destruct (ev_accrue _ _ _ _ _); reflexivity.
  - reflexivity.
  - destruct (p =? 0); reflexivity.
  - reflexivity.
  - reflexivity.
  - reflexivity.
  - reflexivity.
  - reflexivity.
  - reflexivity.
  - reflexivity.
  - reflexivity.
  - destruct (run tx_fuel w _ []) as [[w1 tr1]|] eqn:E; cbn [fst]; [|reflexivity].
    cbn [hub_exempt_op] in Ho.
    destruct (paused_tx_trace _ _ _ _ _ _ _ _ Hw Hp Ho E) as (Hw1 & _). congruence.
Qed.

Lemma paused_frozen_paused w o :
  HubPaused w -> hub_exempt_op o = false -> HubPaused (fst (step w o)).
Proof.
  intros Hp Ho. pose proof (paused_frozen _ _ Hp Ho) as E.
  destruct Hp as (h & Hw & Hp). exists h. split; [congruence | exact Hp].
Qed.

Lemma run_ops_app ops1 ops2 w : run_ops (ops1 ++ ops2) w = run_ops ops2 (run_ops ops1 w).
Proof. unfold run_ops. apply fold_left_app. Qed.

(** along any history of non-exempt operations the hub stays exactly as it was *)
Theorem paused_frozen_history : forall ops w,
  HubPaused w -> Forall (fun o => hub_exempt_op o = false) ops ->
  w_hub (run_ops ops w) = w_hub w.
Proof.
  induction ops as [|o ops IH]; intros w Hp Hf; [reflexivity|].
  inversion Hf as [|x l Ho Hrest]; subst.
  change (run_ops (o :: ops) w) with (run_ops ops (fst (step w o))).
  rewrite IH; [apply paused_frozen; assumption | apply paused_frozen_paused; assumption | exact Hrest].
Qed.

(** ... also in every intermediate world *)
Theorem paused_frozen_always ops1 ops2 w :
  HubPaused w -> Forall (fun o => hub_exempt_op o = false) (ops1 ++ ops2) ->
  w_hub (run_ops ops1 w) = w_hub w.
Proof.
  intros Hp Hf. apply Forall_app in Hf. apply paused_frozen_history; tauto.
Qed.

(** ** what a successful transaction in a paused world can have executed *)
Definition hub_msg_ok (sm : addr * cmsg) : Prop :=
  forall wm f, snd sm = MWasm A_hub wm f -> exists hm, wm = WHub hm /\ exempt_hub_msg hm = true.

Theorem paused_tx_hub_messages w sender target m funds w' tr :
  HubPaused w -> step w (OTx sender target m funds) = (w', (true, tr)) ->
  Forall hub_msg_ok tr /\ Forall (fun sm => fst sm <> A_hub) (tl tr).
Proof.
  intros (h & Hw & Hp) H. cbn [step] in H.
  destruct (run tx_fuel w _ []) as [[w1 tr1]|] eqn:E; inversion H; subst.
  destruct (exempt_msg (MWasm target m funds)) eqn:Hx.
  - cbn [exempt_msg] in Hx. apply andb_true_iff in Hx. destruct Hx as [Ht Hm].
    apply N.eqb_eq in Ht. subst target. destruct m as [hm| | | | | |]; try discriminate Hm.
    cbn [exempt_wasm] in Hm.
    apply (exempt_tx_effect _ _ _ _ _ _ _ Hw Hm) in E.
    destruct E as (e1 & h' & _ & _ & _ & ->). cbn [tl]. split; [|constructor].
    constructor; [|constructor]. intros wm f E. cbn [snd] in E. inversion E; subst. eauto.
  - destruct (paused_tx_trace _ _ _ _ _ _ _ _ Hw Hp Hx E) as (_ & Hto & rest & -> & HF).
    cbn [tl]. split.
    + constructor.
      * intros wm f E0. cbn [snd] in E0. inversion E0; subst. contradiction.
      * eapply Forall_impl; [|exact HF]. intros sm [_ Hnt] wm f E0. exfalso. apply Hnt.
        exists wm, f. exact E0.
    + eapply Forall_impl; [|exact HF]. intros sm [Hs _]. exact Hs.
Qed.

(** ** corollary: a transaction that needs the hub fails as a whole and changes nothing *)
Theorem paused_tx_needing_hub_fails w sender target m funds :
  HubPaused w -> exempt_msg (MWasm target m funds) = false ->
  (forall e1 w1 out, send_coins (w_env w) sender target funds = Some e1 ->
      call (set_env w e1) sender target m funds = Some (w1, out) ->
      exists wm f, In (MWasm A_hub wm f) out) ->
  step w (OTx sender target m funds) = (w, (false, [])).
Proof.
  intros (h & Hw & Hp) Hx Hneed. cbn [step].
  destruct (run tx_fuel w _ []) as [[w1 tr1]|] eqn:E; [exfalso|reflexivity].
  destruct (paused_tx_trace _ _ _ _ _ _ _ _ Hw Hp Hx E) as (_ & _ & rest & -> & HF).
  apply run_root in E. destruct E as (f & w2 & out & _ & Hs & E).
  apply run_stack_in_trace in E. destruct E as (ex & E & Hincl).
  cbn [app] in E. inversion E; subst ex. clear E.
  unfold step_msg in Hs. bind_inv Hs as e1 He1. bind_inv Hs as r Hr. destruct r as [w3 o].
  inversion Hs; subst. cbn [fst snd] in *.
  destruct (Hneed _ _ _ eq_refl Hr) as (wm & fs & Hin).
  assert (Hin2 : In (target, MWasm A_hub wm fs) rest).
  { apply Hincl. apply in_map_iff. exists (MWasm A_hub wm fs). auto. }
  eapply Forall_forall in HF; [|exact Hin2]. destruct HF as [_ Hnt]. apply Hnt.
  exists wm, fs. reflexivity.
Qed.

(** the token hooks: Send / SendFrom to the hub (Unbond, Convert, anything) *)
Theorem paused_bsei_send_fails w u amt hk funds :
  HubPaused w -> step w (OTx u A_bsei (WCw20 (CSend A_hub amt hk)) funds) = (w, (false, [])).
Proof.
  intros Hp. apply paused_tx_needing_hub_fails; [exact Hp | reflexivity |].
  intros e1 w1 out _ Hc. apply call_inv in Hc.
  destruct Hc as [h0 hm0 h' T | r rm r' T | d dm d' T | g gm g' T | t cm t' _ Em _ He _
                 | t cm t' T | sm e' T | T]; try discriminate T.
  inversion Em; subst cm. apply bsei_execute_out in He. destruct He as (rc & _ & ->).
  exists (WHub (HReceive u amt hk)), []. unfold m_receive. cbn. auto.
Qed.

Theorem paused_bsei_sendfrom_fails w u o amt hk funds :
  HubPaused w -> step w (OTx u A_bsei (WCw20 (CSendFrom o A_hub amt hk)) funds) = (w, (false, [])).
Proof.
  intros Hp. apply paused_tx_needing_hub_fails; [exact Hp | reflexivity |].
  intros e1 w1 out _ Hc. apply call_inv in Hc.
  destruct Hc as [h0 hm0 h' T | r rm r' T | d dm d' T | g gm g' T | t cm t' _ Em _ He _
                 | t cm t' T | sm e' T | T]; try discriminate T.
  inversion Em; subst cm. apply bsei_execute_out in He. destruct He as (rc & _ & ->).
  exists (WHub (HReceive u amt hk)), []. unfold m_receive. cbn. auto.
Qed.

Theorem paused_stsei_send_fails w u amt hk funds :
  HubPaused w -> step w (OTx u A_stsei (WCw20 (CSend A_hub amt hk)) funds) = (w, (false, [])).
Proof.
  intros Hp. apply paused_tx_needing_hub_fails; [exact Hp | reflexivity |].
  intros e1 w1 out _ Hc. apply call_inv in Hc.
  destruct Hc as [h0 hm0 h' T | r rm r' T | d dm d' T | g gm g' T | t cm t' T
                 | t cm t' _ Em _ He _ | sm e' T | T]; try discriminate T.
  inversion Em; subst cm. unfold stsei_execute in He.
  check_inv He as Hz. bind_inv He as t1 Hm. inversion He; subst.
  exists (WHub (HReceive u amt hk)), []. unfold m_receive. cbn. auto.
Qed.

Theorem paused_stsei_sendfrom_fails w u o amt hk funds :
  HubPaused w -> step w (OTx u A_stsei (WCw20 (CSendFrom o A_hub amt hk)) funds) = (w, (false, [])).
Proof.
  intros Hp. apply paused_tx_needing_hub_fails; [exact Hp | reflexivity |].
  intros e1 w1 out _ Hc. apply call_inv in Hc.
  destruct Hc as [h0 hm0 h' T | r rm r' T | d dm d' T | g gm g' T | t cm t' T
                 | t cm t' _ Em _ He _ | sm e' T | T]; try discriminate T.
  inversion Em; subst cm. unfold stsei_execute in He.
  bind_inv He as t1 Hd. bind_inv He as t2 Hm. inversion He; subst.
  exists (WHub (HReceive u amt hk)), []. unfold m_receive. cbn. auto.
Qed.

(** BurnFrom on either token (whose hub is the hub) makes the token call CheckSlashing *)
Theorem paused_bsei_burnfrom_fails w t u o amt funds :
  HubPaused w -> w_bsei w = Some t -> tk_hub t = A_hub ->
  step w (OTx u A_bsei (WCw20 (CBurnFrom o amt)) funds) = (w, (false, [])).
Proof.
  intros Hp Ht Hh. apply paused_tx_needing_hub_fails; [exact Hp | reflexivity |].
  intros e1 w1 out _ Hc. apply call_inv in Hc.
  destruct Hc as [h0 hm0 h' T | r rm r' T | d dm d' T | g gm g' T | t0 cm t' _ Em Ht0 He _
                 | t0 cm t' T | sm e' T | T]; try discriminate T.
  inversion Em; subst cm. cbn [w_bsei set_env] in Ht0. rewrite Ht in Ht0. inversion Ht0; subst t0.
  apply bsei_execute_out in He. destruct He as (rc & _ & ->).
  exists (WHub HCheckSlashing), []. unfold m_check_slashing. rewrite Hh. cbn. auto.
Qed.

Theorem paused_stsei_burnfrom_fails w t u o amt funds :
  HubPaused w -> w_stsei w = Some t -> tk_hub t = A_hub ->
  step w (OTx u A_stsei (WCw20 (CBurnFrom o amt)) funds) = (w, (false, [])).
Proof.
  intros Hp Ht Hh. apply paused_tx_needing_hub_fails; [exact Hp | reflexivity |].
  intros e1 w1 out _ Hc. apply call_inv in Hc.
  destruct Hc as [h0 hm0 h' T | r rm r' T | d dm d' T | g gm g' T | t0 cm t' T
                 | t0 cm t' _ Em Ht0 He _ | sm e' T | T]; try discriminate T.
  inversion Em; subst cm. cbn [w_stsei set_env] in Ht0. rewrite Ht in Ht0. inversion Ht0; subst t0.
  unfold stsei_execute in He. bind_inv He as t1 Hd. bind_inv He as t2 Hb. inversion He; subst.
  exists (WHub HCheckSlashing), []. unfold m_check_slashing. rewrite Hh. cbn. auto.
Qed.

(** the registry: removing a validator that carries a (redelegatable) delegation of the hub makes the
    registry call the hub's RedelegateProxy and UpdateGlobalIndex *)
Theorem paused_reg_remove_fails w g s v amount :
  HubPaused w -> w_reg w = Some g -> rg_hub g = A_hub ->
  delegation (w_env w) A_hub v = Some amount -> can_redelegate (w_env w) v = true ->
  step w (OTx s A_reg (WReg (GRemove v)) []) = (w, (false, [])).
Proof.
  intros Hp Hg Hh Hd Hcr. apply paused_tx_needing_hub_fails; [exact Hp | reflexivity |].
  intros e1 w1 out Hsend Hc. cbn [send_coins foldM] in Hsend. inversion Hsend; subst e1.
  apply call_inv in Hc.
  destruct Hc as [h0 hm0 h' T | r rm r' T | d dm d' T | g0 gm g' _ Em Hg0 He _ | t0 cm t' T
                 | t0 cm t' T | sm e' T | T]; try discriminate T.
  inversion Em; subst gm. cbn [w_reg set_env] in Hg0. rewrite Hg in Hg0. inversion Hg0; subst g0.
  cbn [reg_execute] in He. check_inv He as Hs. cbn [rg_vals set_rg_vals] in He.
  destruct (remove_val v (rg_vals g)) as [|x l]; [discriminate|].
  bind_inv He as msgs Hm. inversion He; subst.
  unfold reg_redelegate_msgs in Hm. cbn [rg_hub set_rg_vals w_env set_env] in Hm.
  rewrite Hh, Hd, Hcr, N.ltb_irrefl in Hm. bind_inv Hm as r Hr. inversion Hm; subst.
  eexists _, _. left. reflexivity.
Qed.
