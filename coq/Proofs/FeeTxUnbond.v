(** * FeeTxUnbond: C05 at TRANSACTION level for the bSei Unbond transaction.

    Message tree (depth first):
      user -> bSei.Send{hub, a, Unbond}
                -> reward.DecreaseBalance user, reward.IncreaseBalance hub            (mirror)
                -> hub.Receive{Unbond} -> MUndelegate*   (only when the epoch period is over)
                                       -> bSei.Burn a -> reward.DecreaseBalance hub

    Proofs/ExitTx.v proves that this transaction SUCCEEDS under the C09 premises; here is the effect
    direction under [Wired] and [EntWf] only: whatever successful run is given, what the final world
    looks like.

    Vocabulary
    - [unbond_b_fee h s sb a] : the peg fee of a bSei unbond of [a] when the State query reports [s] and
      the bSei supply is [sb]:  if rate_b < threshold then min (a * peg_fee / 1e18) (claims - backing) else 0.
    - [epoch_over w h] (ExitTx.v) : hp_epoch < now - last undelegation time: the Receive hook closes the batch.

    Main theorems
    - [unbond_b_tx_effect] : the world after a successful bSei Unbond transaction: token balances and
      supply fell by [a]; the sender's bSei claim for the open batch grew by [a - fee]; the hub's batch
      and pools in both branches (request joins the open batch / the batch is closed and priced at the
      rate recomputed after the fee, its coins leave the bSei pool); what the State query reports.
    - [feetx_unbond_fee] : no fee at/above the threshold, fee <= floor(a * peg_fee), the recorded claim
      lies between (a - floor(a * peg_fee)) and a.
    - [feetx_unbond_peg] / [feetx_unbond_no_overshoot] : from backing <= claims (in particular from a
      reported rate below 1) the new world reports backing <= claims + 1, and backing <= claims exactly
      when the batch was not closed; the reported rate is exact whenever the reported pool is non-empty. *)
From Coq Require Import Permutation.
From Krp Require Import Tactics Prelude Fixed FMap Types Env Registry Cw20 Reward Dispatcher Hub Exec
     ExecP Hist Inv RegistryP HubFrame HubAdmin Cw20P MirrorWire MirrorP HubRates HubFee
     BooksEnv BooksHub BooksP BooksLiquid IndexRun IndexEnv IndexHandlers IndexPhases ExitWorld ExitP ExitTx
     RateTxLegs RateTx RateTxConvert FeeTx.
Open Scope N_scope.
Ltac Zify.zify_post_hook ::= Z.div_mod_to_equations.

Definition unbond_b_fee (h : hub) (s : hub_state) (sb a : N) : N :=
  if hs_ber s <? hp_thr (h_params h)
  then N.min (a * hp_pegfee (h_params h) / D) (sb + cb_reqb (h_batch h) - hs_bb s)
  else 0.

Lemma ftu_fee_eq h s sb a : unbond_fee (set_h_state h s) sb a = unbond_b_fee h s sb a.
Proof. reflexivity. Qed.

Lemma ftu_fee_bounds h s sb a :
  unbond_b_fee h s sb a <= a * hp_pegfee (h_params h) / D /\
  unbond_b_fee h s sb a <= sb + cb_reqb (h_batch h) - hs_bb s /\
  (hp_thr (h_params h) <= hs_ber s -> unbond_b_fee h s sb a = 0).
Proof.
  unfold unbond_b_fee. destruct (hs_ber s <? hp_thr (h_params h)) eqn:E; repeat split.
  - apply N.le_min_l.
  - apply N.le_min_r.
  - intros Ht. exfalso. lia.
  - apply N.le_0_l.
  - apply N.le_0_l.
Qed.

(** ** legs *)
Lemma ftu_receive_inv w tok user amt hk w1 out :
  step_msg w tok (m_receive A_hub user amt hk) = Some (w1, out) ->
  exists h h' o,
    w_hub w = Some h /\ paused h = false /\
    receive_cw20 w h A_hub tok user amt hk = Some (h', o) /\
    w1 = set_hub w h' /\ out = map (fun x => (A_hub, x)) o.
Proof.
  unfold m_receive. intros H. apply rt_root_inv in H.
  destruct H as (h & e1 & h' & o & Hh & Hsend & He & -> & ->).
  change (send_coins (w_env w) tok A_hub []) with (Some (w_env w)) in Hsend. inversion Hsend; subst e1.
  rewrite rt_set_env_same in *. cbn [hub_execute] in He.
  destruct (paused h) eqn:Hp; [discriminate He|]. cbn [negb] in He.
  exists h, h', o. repeat split; auto.
Qed.

(** the Undelegate legs change only the environment *)
Lemma ftu_undelegates_inv : forall (ms : list cmsg) w w' n,
  Forall (fun m => exists v c, m = MUndelegate v c) ms ->
  Exec w (map (fun m => (A_hub, m)) ms) w' n -> exists e', w' = set_env w e'.
Proof.
  induction ms as [|m ms IH]; intros w w' n Hall H.
  - cbn [map] in H. apply Exec_nil_inv in H. subst w'. exists (w_env w). rewrite rt_set_env_same. reflexivity.
  - cbn [map] in H. apply Exec_cons_inv in H.
    destruct H as (w1 & out & w2 & n1 & n2 & Hs & H1 & H2 & _).
    apply Forall_cons_iff in Hall. destruct Hall as [(v & c & ->) Hall].
    cbn [step_msg] in Hs. bind_inv Hs as e1 He1. inversion Hs; subst w1 out; clear Hs.
    apply Exec_nil_inv in H1. subst w2.
    destruct (IH _ _ _ Hall H2) as (e' & ->). exists e'. reflexivity.
Qed.

Lemma ftu_und_shape w h h' msgs :
  maybe_undelegate w A_hub h = Some (h', msgs) -> Forall (fun m => exists v c, m = MUndelegate v c) msgs.
Proof.
  intros H. apply HubRates.maybe_undelegate_cases in H. destruct H as [[_ ->]|[_ H]]; [constructor|].
  apply undelegation_value in H. cbv zeta in H. tauto.
Qed.

(** ** the world after a successful bSei Unbond transaction *)
Theorem unbond_b_tx_effect w user a funds w' tr h tb :
  Wired w -> EntWf w -> w_hub w = Some h -> w_bsei w = Some tb ->
  run tx_fuel w [(user, MWasm A_bsei (WCw20 (CSend A_hub a HkUnbond)) funds)] [] = Some (w', tr) ->
  exists s h' tb',
    hub_query_state w A_hub = Some s /\
    let id := cb_id (h_batch h) in
    let fee := unbond_b_fee h s (tk_supply tb) a in
    let q := cb_reqb (h_batch h) + (a - fee) in
    let r1 := rate_of (hs_bb s) (tk_supply tb - a + q) in
    fee <= a /\ a <= tbal tb user /\ a <= tk_supply tb /\
    w_hub w' = Some h' /\ w_bsei w' = Some tb' /\ w_stsei w' = w_stsei w /\
    tk_supply tb' + a = tk_supply tb /\ tbal tb' user + a = tbal tb user /\
    (forall x, x <> user -> tbal tb' x = tbal tb x) /\
    wait_of h' user id = (fst (wait_of h user id) + (a - fee), snd (wait_of h user id)) /\
    (forall u b, (u, b) <> (user, id) -> wait_of h' u b = wait_of h u b) /\
    h_cfg h' = h_cfg h /\ h_params h' = h_params h /\
    (epoch_over w h = false ->
       h_batch h' = mkBatch id q (cb_reqst (h_batch h)) /\
       hs_bb (h_state h') = hs_bb s /\ hs_bst (h_state h') = hs_bst s /\ hs_ber (h_state h') = r1) /\
    (epoch_over w h = true ->
       h_batch h' = mkBatch (id + 1) 0 0 /\
       q * r1 / D <= hs_bb s /\ hs_bb (h_state h') = hs_bb s - q * r1 / D /\
       hs_bst (h_state h') = hs_bst s - cb_reqst (h_batch h) * hs_ser s / D /\ hs_ber (h_state h') = r1) /\
    (forall s', hub_query_state w' A_hub = Some s' -> hs_bb s' <= hs_bb (h_state h')).
Proof.
  intros HW [Hwf Hent] Hh Hb H.
  destruct (Wired_inv _ HW) as (h0 & r & dp & g & tb0 & ts & Hh0 & Hr & _ & _ & Hb0 & Hs &
                                Wd & Wr & Wb & Ws & Wu & _).
  rewrite Hh in Hh0. inversion Hh0; subst h0; clear Hh0.
  rewrite Hb in Hb0. inversion Hb0; subst tb0; clear Hb0.
  apply run_Exec in H. destruct H as [n H].
  apply rt_cons_inv_wired in H; [|exact HW|reflexivity].
  destruct H as (wb & out & w2 & n1 & n2 & Hroot & HWb & H1 & _ & H2).
  apply Exec_nil_inv in H2. subst w2.
  (* the root: funds, then the token's Send *)
  cbn [step_msg] in Hroot. bind_inv Hroot as e1 Hsend. bind_inv Hroot as rr Hc.
  rewrite rt_call_bsei in Hc. cbn [w_bsei set_env] in Hc. rewrite Hb in Hc. cbn [bind] in Hc.
  bind_inv Hc as x Hx. destruct x as [tb1 o1]. inversion Hc; subst rr; clear Hc.
  cbn [fst snd] in Hroot. inversion Hroot; subst wb out; clear Hroot.
  pose proof (send_coins_static _ _ _ _ _ Hsend) as (Hnow1 & _ & Hdel1 & _).
  set (wa := set_env w e1) in *.
  assert (HWa : Wired wa) by (eapply Wired_wdata; [apply wdata_set_env|exact HW]).
  destruct (bsei_send_mirror _ _ _ _ _ _ _ _ Hx) as (rc & Hrc & -> & Hle & Hl1).
  rewrite (wired_query_reward wa wa tb HWa Hb eq_refl eq_refl) in Hrc. inversion Hrc; subst rc; clear Hrc.
  assert (Hsup1 : tk_supply tb1 = tk_supply tb) by (specialize (Hl1 None); cbn in Hl1; lia).
  cbn [map] in H1.
  (* DecreaseBalance user, IncreaseBalance hub *)
  apply rt_cons_inv_wired in H1; [|exact HWb|reflexivity].
  destruct H1 as (wc & out & w2 & m1 & m2 & Hst & HWc & Hch & _ & H1).
  apply rt_reward_step_inv in Hst; [|exact HWb|eauto]. destruct Hst as (-> & r0 & r1 & Hr0 & ->).
  apply Exec_nil_inv in Hch. subst w2.
  apply rt_cons_inv_wired in H1; [|exact HWc|reflexivity].
  destruct H1 as (wd & out & w2 & m3 & m4 & Hst & HWd & Hch & _ & H1).
  apply rt_reward_step_inv in Hst; [|exact HWc|eauto]. destruct Hst as (-> & r1' & r2 & Hr1 & ->).
  apply Exec_nil_inv in Hch. subst w2.
  (* the hub's Receive hook *)
  apply rt_cons_inv_wired in H1; [|exact HWd|reflexivity].
  destruct H1 as (we & out & w2 & m5 & m6 & Hst & HWe & Hch & _ & H1).
  apply Exec_nil_inv in H1. subst w2.
  apply ftu_receive_inv in Hst. destruct Hst as (h0 & h' & o & Hh0 & Hpz & Hrc & -> & ->).
  cbn [w_hub set_reward set_bsei set_env] in Hh0. unfold wa in Hh0. cbn [w_hub set_env] in Hh0.
  rewrite Hh in Hh0. inversion Hh0; subst h0; clear Hh0.
  unfold receive_cw20 in Hrc. rewrite Wb, Ws in Hrc. cbn [bind] in Hrc.
  change (A_bsei =? A_bsei) with true in Hrc. cbv iota in Hrc.
  match type of Hrc with execute_unbond ?W _ _ _ _ = _ => set (wd := W) in * end.
  destruct (rt_supplies' wd h (tk_supply tb) (tk_supply ts) tb1 ts Wb Ws eq_refl Hs Hsup1 eq_refl) as [Sb Ss].
  destruct (xt_unbond_bsei_inv _ _ _ _ _ _ Hrc) as (h1 & sup & ber & msgs & tok & Hsl & Hsup & Hfee & Hale & Hber & Hmu & Htok & Eo).
  pose proof (slashing_lut _ _ _ _ Hsl) as Flut.
  assert (Hdeld : e_del (w_env wd) = e_del (w_env w)) by exact Hdel1.
  unfold slashing in Hsl. bind_inv Hsl as s Hq. inversion Hsl; subst h1; clear Hsl.
  change (hub_bsei_supply wd (set_h_state h s)) with (hub_bsei_supply wd h) in Hsup.
  rewrite Sb in Hsup. inversion Hsup; subst sup; clear Hsup.
  rewrite ftu_fee_eq in *.
  assert (Hq0 : query_actual_state w A_hub h = Some s).
  { rewrite <- Hq. symmetry. apply rt_qas_supply.
    - apply all_delegations_same_del. exact Hdeld.
    - rewrite Sb. symmetry. apply (rt_supplies w h tb ts Wb Ws Hb Hs).
    - rewrite Ss. symmetry. apply (rt_supplies w h tb ts Wb Ws Hb Hs). }
  set (fee := unbond_b_fee h s (tk_supply tb) a) in *.
  apply HubFee.exchange_rate_some in Hber.
  cbn [h_state h_batch set_h_state] in Hber.
  set (q := cb_reqb (h_batch h) + (a - fee)) in *.
  set (hq := b_requested (set_h_state h s) user (tk_supply tb) a ber) in *.
  pose proof (ftu_und_shape _ _ _ _ Hmu) as Hshape.
  apply xt_maybe_undelegate_cases in Hmu.
  assert (Hcfgq : h_cfg hq = h_cfg h) by reflexivity.
  assert (Hparq : h_params hq = h_params h) by reflexivity.
  assert (Hcfg' : h_cfg h' = h_cfg h /\ h_params h' = h_params h /\ h_wait h' = h_wait hq).
  { destruct Hmu as [(_ & -> & _)|(_ & -> & _)]; repeat split. }
  destruct Hcfg' as (Hc' & Hp' & Hw').
  rewrite Hc', Wb in Htok. inversion Htok; subst tok; clear Htok.
  (* Undelegate legs, then Burn bSei + DecreaseBalance hub *)
  rewrite Eo, map_app in Hch. apply Exec_app_inv in Hch. destruct Hch as (w2 & k1 & k2 & Hund & Hburn).
  apply ftu_undelegates_inv in Hund; [|exact Hshape]. destruct Hund as (e3 & ->).
  assert (HWf : Wired (set_env (set_hub wd h') e3)) by (eapply Wired_wdata; [apply wdata_set_env|exact HWe]).
  cbn [map] in Hburn. unfold burn_msg in Hburn.
  apply rt_cons_inv_wired in Hburn; [|exact HWf|reflexivity].
  destruct Hburn as (wg & out & w2 & m9 & m10 & Hst & HWg & Hch & _ & H1).
  apply Exec_nil_inv in H1. subst w2.
  apply (rt_bsei_step_inv _ _ _ _ _ tb1) in Hst; [|reflexivity].
  destruct Hst as (tb2 & o3 & Hbn & -> & ->).
  destruct (bsei_burn_mirror _ _ _ _ _ _ Hbn) as (rc & Hrc2 & -> & _ & Hl2).
  match type of Hrc2 with query_reward_contract ?W _ = _ =>
    rewrite (wired_query_reward W W tb1 HWf eq_refl eq_refl eq_refl) in Hrc2 end.
  inversion Hrc2; subst rc; clear Hrc2.
  cbn [map] in Hch. apply rt_cons_inv_wired in Hch; [|exact HWg|reflexivity].
  destruct Hch as (wh & out & w2 & m11 & m12 & Hst & _ & Hch & _ & H1).
  apply Exec_nil_inv in H1. subst w2.
  apply rt_reward_step_inv in Hst; [|exact HWg|eauto]. destruct Hst as (-> & r3 & r4 & Hr3 & ->).
  apply Exec_nil_inv in Hch. subst w'.
  (* net effect on the bSei ledger *)
  assert (Hnet : forall o, lbal tb2 o + dl o user a = lbal tb o).
  { intros ix. specialize (Hl1 ix). specialize (Hl2 ix). lia. }
  (* the wait list *)
  assert (Hwq : forall u b, wait_of h' u b =
            if eqbAN (u, b) (user, cb_id (h_batch h))
            then (fst (wait_of h user (cb_id (h_batch h))) + (a - fee), snd (wait_of h user (cb_id (h_batch h))))
            else wait_of h u b).
  { intros u b. rewrite (xt_wait_of_ext hq h' u b Hw'). unfold hq, b_requested.
    rewrite ftu_fee_eq. fold fee.
    change (wait_of (set_h_batch (set_h_state ?x _) _) u b) with (wait_of x u b). rewrite xt_wait_of_set.
    reflexivity. }
  exists s, h', tb2.
  split; [unfold hub_query_state; rewrite Hh; exact Hq0|]. cbv zeta. fold fee. fold q.
  split; [exact Hfee|]. split; [exact Hle|]. split; [exact Hale|].
  cbn [w_hub w_bsei w_stsei w_env set_reward set_bsei set_hub set_env].
  split; [reflexivity|]. split; [reflexivity|]. split; [reflexivity|].
  split; [specialize (Hnet None); cbn [lbal] in Hnet; rewrite rt_dl_total in Hnet; exact Hnet|].
  split; [specialize (Hnet (Some user)); cbn [lbal] in Hnet; rewrite rt_dl_same in Hnet; exact Hnet|].
  split; [intros y Hy; specialize (Hnet (Some y)); cbn [lbal] in Hnet; rewrite rt_dl_other in Hnet by (intro; apply Hy; congruence); lia|].
  split; [rewrite Hwq; unfold eqbAN; rewrite (eqb_refl eqbNN eqbNN_eq); reflexivity|].
  split.
  { intros u b Hub. rewrite Hwq. destruct (eqbAN (u, b) (user, cb_id (h_batch h))) eqn:E; [|reflexivity].
    apply eqbNN_eq in E. contradiction. }
  split; [exact Hc'|]. split; [exact Hp'|].
  assert (Hep : epoch_over w h = (hp_epoch (h_params hq) <? e_now (w_env wd) - hs_lut (h_state hq))).
  { unfold epoch_over. rewrite Hparq. change (e_now (w_env wd)) with (e_now e1). rewrite Hnow1.
    change (hs_lut (h_state hq)) with (hs_lut s). cbn [h_state set_h_state] in Flut. rewrite Flut. reflexivity. }
  split; [|split].
  - intros Hno. rewrite Hep in Hno.
    destruct Hmu as [(_ & -> & _)|(Hyes & _)]; [|exfalso; lia].
    unfold hq, b_requested. rewrite ftu_fee_eq. fold fee. fold q.
    cbn [h_batch h_state set_h_batch set_h_state set_h_wait set_ber set_rates hs_bb hs_bst hs_ber].
    rewrite Hber. repeat split; reflexivity.
  - intros Hyes. rewrite Hep in Hyes.
    destruct Hmu as [(Hno & _)|(_ & -> & _ & L1 & L2)]; [exfalso; lia|].
    pose proof (xt_closed_hub_facts (e_now (w_env wd)) hq) as (_ & _ & _ & K4 & _ & _ & _ & K8 & K9).
    assert (K10 : hs_ber (h_state (closed_hub (e_now (w_env wd)) hq)) = hs_ber (h_state hq)) by reflexivity.
    cbn zeta in K4, K8, K9. rewrite K4, K8, K9, K10. unfold owed_b, owed_st in *.
    unfold hq, b_requested in *. rewrite ftu_fee_eq in *. fold fee in L1, L2 |- *. fold q in L1, L2 |- *.
    cbn [h_batch h_state set_h_batch set_h_state set_h_wait set_ber set_rates hs_bb hs_bst hs_ber hs_ser
         cb_id cb_reqb cb_reqst] in *.
    rewrite Hber in *. repeat split; try reflexivity. exact L1.
  - intros s' Hq'. unfold hub_query_state in Hq'.
    cbn [w_hub set_reward set_bsei set_hub set_env bind] in Hq'.
    apply ft_qas_bb_le in Hq'. exact Hq'.
Qed.

(** arithmetic of the two branches *)
Lemma ftu_open_arith B S Q a fee :
  fee <= a -> a <= S -> B <= S + Q -> fee <= S + Q - B -> B <= S - a + (Q + (a - fee)).
Proof. lia. Qed.

Lemma ftu_close_arith B S Q a fee bb' :
  fee <= a -> a <= S -> B <= S + Q -> fee <= S + Q - B -> S + Q <= D ->
  bb' <= B - (Q + (a - fee)) * rate_of B (S - a + (Q + (a - fee))) / D -> bb' <= S - a + 1.
Proof.
  intros H1 H2 H3 H4 H5 H6.
  pose proof (ftu_open_arith B S Q a fee H1 H2 H3 H4) as Hc.
  set (q := Q + (a - fee)) in *.
  assert (K : B - q * rate_of B (S - a + q) / D <= (S - a + q - q) + 1).
  { apply ft_close_dust; [exact Hc | lia | unfold q; lia]. }
  set (x := q * rate_of B (S - a + q) / D) in *. clearbody x. lia.
Qed.

(** ** C05 for the bSei Unbond transaction *)

(** what the sender is credited: the bSei claim recorded for the open batch *)
Theorem feetx_unbond_fee w user a funds w' tr h tb :
  Wired w -> EntWf w -> w_hub w = Some h -> w_bsei w = Some tb ->
  run tx_fuel w [(user, MWasm A_bsei (WCw20 (CSend A_hub a HkUnbond)) funds)] [] = Some (w', tr) ->
  exists s h' tb',
    hub_query_state w A_hub = Some s /\ w_hub w' = Some h' /\ w_bsei w' = Some tb' /\
    let id := cb_id (h_batch h) in
    let fee := unbond_b_fee h s (tk_supply tb) a in
    tbal tb' user + a = tbal tb user /\ tk_supply tb' + a = tk_supply tb /\
    fst (wait_of h' user id) = fst (wait_of h user id) + (a - fee) /\
    snd (wait_of h' user id) = snd (wait_of h user id) /\
    fee <= a /\ fee <= a * hp_pegfee (h_params h) / D /\
    (hp_thr (h_params h) <= hs_ber s -> fee = 0 /\ fst (wait_of h' user id) = fst (wait_of h user id) + a) /\
    fst (wait_of h user id) + (a - a * hp_pegfee (h_params h) / D) <= fst (wait_of h' user id) /\
    fst (wait_of h' user id) <= fst (wait_of h user id) + a.
Proof.
  intros HW HE Hh Hb H.
  destruct (unbond_b_tx_effect w user a funds w' tr h tb HW HE Hh Hb H) as (s & h' & tb' & Hq & E).
  cbv zeta in E. destruct E as (Hfee & _ & _ & Hh' & Hb' & _ & T1 & T2 & _ & Wt & _).
  exists s, h', tb'. split; [exact Hq|]. split; [exact Hh'|]. split; [exact Hb'|]. cbv zeta.
  destruct (ftu_fee_bounds h s (tk_supply tb) a) as (F1 & _ & F3).
  set (fee := unbond_b_fee h s (tk_supply tb) a) in *.
  rewrite Wt. cbn [fst snd].
  split; [exact T2|]. split; [exact T1|]. split; [reflexivity|]. split; [reflexivity|].
  split; [exact Hfee|]. split; [exact F1|].
  split; [intros Ht; specialize (F3 Ht); split; [exact F3|rewrite F3; lia]|]. split; lia.
Qed.

(** backing within claims before: at most one base unit above the claims after, none when the batch
    stays open; the reported rate is exact whenever the reported bSei pool is non-empty *)
Theorem feetx_unbond_peg w user a funds w' tr h s s' :
  Wired w -> EntWf w -> w_claims_b w <= LIM -> w_hub w = Some h ->
  run tx_fuel w [(user, MWasm A_bsei (WCw20 (CSend A_hub a HkUnbond)) funds)] [] = Some (w', tr) ->
  hub_query_state w A_hub = Some s -> hub_query_state w' A_hub = Some s' ->
  hs_bb s <= w_claims_b w ->
  hs_bb s' <= w_claims_b w' + 1 /\
  (epoch_over w h = false -> hs_bb s' <= w_claims_b w') /\
  (hs_ber s' = rate_of (hs_bb s') (w_claims_b w') \/ hs_bb s' = 0) /\
  (0 < hs_bb s' -> hs_ber s' <= D + D / w_claims_b w') /\
  (0 < hs_bb s' -> epoch_over w h = false -> hs_ber s' <= D).
Proof.
  intros HW HE HL Hh H Hq Hq' HB.
  destruct (Wired_inv _ HW) as (h0 & r & dp & g & tb & ts & Hh0 & _ & _ & _ & Hb & Hs & _).
  rewrite Hh in Hh0. inversion Hh0; subst h0; clear Hh0.
  assert (HW' : Wired w') by (eapply Wired_wdata; [|exact HW]; eapply tx_wdata; [|exact H]; reflexivity).
  assert (HE' : EntWf w') by (eapply tx_entwf; eauto).
  pose proof (ft_reported w' s' HW' HE' Hq') as Hrep'.
  destruct (unbond_b_tx_effect w user a funds w' tr h tb HW HE Hh Hb H) as (s0 & h' & tb' & Hq0 & E).
  rewrite Hq in Hq0. inversion Hq0; subst s0; clear Hq0.
  cbv zeta in E.
  destruct E as (Hfee & _ & HaS & Hh' & Hb' & _ & T1 & _ & _ & _ & _ & _ & _ & Hno & Hyes & Hrep).
  specialize (Hrep s' Hq').
  rewrite (rt_claims_b w h tb Hh Hb) in HB, HL. unfold LIM in HL.
  rewrite (rt_claims_b w' h' tb' Hh' Hb') in *.
  assert (T1' : tk_supply tb' = tk_supply tb - a) by (clear - T1; lia). rewrite T1' in *.
  destruct (ftu_fee_bounds h s (tk_supply tb) a) as (_ & F2 & _).
  set (fee := unbond_b_fee h s (tk_supply tb) a) in *.
  assert (Hopen : epoch_over w h = false -> hs_bb s' <= tk_supply tb - a + cb_reqb (h_batch h')).
  { intros Hep. destruct (Hno Hep) as (B1 & B2 & _). rewrite B1. cbn [cb_reqb].
    eapply N.le_trans; [exact Hrep|]. rewrite B2.
    apply ftu_open_arith; assumption. }
  assert (Hall : hs_bb s' <= tk_supply tb - a + cb_reqb (h_batch h') + 1).
  { destruct (epoch_over w h) eqn:Hep; [|specialize (Hopen eq_refl); clear - Hopen; lia].
    destruct (Hyes eq_refl) as (B1 & _ & B2 & _). rewrite B1. cbn [cb_reqb]. rewrite N.add_0_r.
    apply (ftu_close_arith (hs_bb s) (tk_supply tb) (cb_reqb (h_batch h)) a fee); try assumption.
    rewrite <- B2. exact Hrep. }
  split; [exact Hall|]. split; [exact Hopen|]. split; [exact Hrep'|]. split.
  - intros Hpos. destruct Hrep' as [Ex|Ez]; [|lia]. rewrite Ex.
    eapply N.le_trans; [apply (ft_rate_dust _ _ 1); exact Hall|]. rewrite N.mul_1_l. lia.
  - intros Hpos Hep. destruct Hrep' as [Ex|Ez]; [|lia]. rewrite Ex.
    apply ft_rate_le_one. apply Hopen. exact Hep.
Qed.

Theorem feetx_unbond_no_overshoot w user a funds w' tr h s s' :
  Wired w -> EntWf w -> w_claims_b w <= LIM -> w_hub w = Some h ->
  run tx_fuel w [(user, MWasm A_bsei (WCw20 (CSend A_hub a HkUnbond)) funds)] [] = Some (w', tr) ->
  hub_query_state w A_hub = Some s -> hub_query_state w' A_hub = Some s' ->
  hs_ber s < D ->
  hs_bb s' <= w_claims_b w' + 1 /\
  (epoch_over w h = false -> hs_bb s' <= w_claims_b w') /\
  (hs_ber s' = rate_of (hs_bb s') (w_claims_b w') \/ hs_bb s' = 0) /\
  (0 < hs_bb s' -> hs_ber s' <= D + D / w_claims_b w') /\
  (0 < hs_bb s' -> epoch_over w h = false -> hs_ber s' <= D).
Proof.
  intros HW HE HL Hh H Hq Hq' Hlt.
  apply (feetx_unbond_peg w user a funds w' tr h s s'); try assumption.
  apply ft_below_one; assumption.
Qed.

Lemma def_unbond_b_fee : forall h s sb a, unbond_b_fee h s sb a =
  if hs_ber s <? hp_thr (h_params h)
  then N.min (a * hp_pegfee (h_params h) / D) (sb + cb_reqb (h_batch h) - hs_bb s)
  else 0.
Proof. reflexivity. Qed.

Lemma def_epoch_over : forall w h,
  epoch_over w h = (hp_epoch (h_params h) <? e_now (w_env w) - hs_lut (h_state h)).
Proof. reflexivity. Qed.
