(** * FundWorldHub: helper facts for FundWorld.v (C01 at world level).

    - [FW_send_coins_credit]   : coins attached to a message arrive in full at the recipient;
    - [FW_okb], [FW_okd]       : syntactic classes of emitted messages: "plain" (carries no coins and is
                                 not a call of the hub's WithdrawUnbonded) and "plain or Delegate";
    - [FW_hub_out]             : every hub handler other than WithdrawUnbonded emits only plain
                                 messages and Delegates; what its Delegates carry away is at most the
                                 single payment coin attached to a bond (nothing for other messages);
    - [FW_call_nw]             : no contract of the protocol ever emits a call of the hub's
                                 WithdrawUnbonded — a withdrawal is always the root of a transaction;
    - [FW_claims_le], [FW_open_unreleased] : the C07 / C08 invariants imply the two hypotheses of
                                 the hub-level funding theorems of WithdrawP.v;
    - [FW_E1'_mono], [FW_E1'_from_expected] : E1' is monotone in the arriving coins, and follows
                                 from (k - 1) * (coins the group expects) <= 1e18. *)
From Krp Require Import Tactics Prelude Fixed FMap Types Env Registry Cw20 Reward Dispatcher Hub Exec
     ExecP Hist RegistryP HubFrame HubAdmin HubRates ClaimsStep ClaimsP LifeP GroupRelease WithdrawP
     RewardP RewardWorld.
Open Scope N_scope.

(** ** 1. bank: attached coins arrive *)
Lemma FW_send_coin_credit e from to c e' d :
  send_coin e from to c = Some e' -> from <> to ->
  bal e to d + coin_amt d c <= bal e' to d.
Proof.
  destruct c as [dc x]. unfold send_coin. intros H Hne. check_inv H as Hnz.
  bind_inv H as e1 He1. inversion H; subst. clear H. unfold coin_amt. cbn [fst snd].
  destruct (debit_spec _ _ _ _ _ He1) as (_ & _ & Ho).
  assert (E1 : bal e1 to d = bal e to d) by (apply Ho; congruence).
  destruct (dc =? d) eqn:Ed.
  - apply N.eqb_eq in Ed. subst dc. rewrite bal_credit_same. lia.
  - pose proof (bal_credit_ge e1 to dc x to d). lia.
Qed.

Lemma FW_send_coins_credit cs : forall e from to e' d,
  send_coins e from to cs = Some e' -> from <> to ->
  bal e to d + coin_sum d cs <= bal e' to d.
Proof.
  unfold send_coins, coin_sum. induction cs as [|c cs IH]; intros e from to e' d H Hne; cbn [foldM] in H.
  - inversion H; subst. cbn [map sumN]. lia.
  - bind_inv H as e1 He1. pose proof (FW_send_coin_credit _ _ _ _ _ d He1 Hne) as H1.
    pose proof (IH _ _ _ _ d H Hne) as H2. cbn [map sumN]. lia.
Qed.

Lemma FW_send_coins_nil e from to : send_coins e from to [] = Some e.
Proof. reflexivity. Qed.

(** ** 2. syntactic classes of emitted messages *)
(** not a call of WithdrawUnbonded *)
Definition FW_nwb (m : cmsg) : bool :=
  match m with MWasm _ (WHub HWithdraw) _ => false | _ => true end.

(** plain: no coins leave the sender with it, and it is not a call of WithdrawUnbonded *)
Definition FW_okb (m : cmsg) : bool :=
  match m with
  | MWasm _ (WHub HWithdraw) _ => false
  | MWasm _ _ [] => true
  | MWasm _ _ (_ :: _) => false
  | MBank _ _ => false
  | MDelegate _ _ => false
  | _ => true
  end.

Definition FW_is_delegate (m : cmsg) : bool := match m with MDelegate _ _ => true | _ => false end.

(** plain or a Delegate *)
Definition FW_okd (m : cmsg) : bool := FW_okb m || FW_is_delegate m.

Lemma FW_okb_okd m : FW_okb m = true -> FW_okd m = true.
Proof. unfold FW_okd. intros ->. reflexivity. Qed.

Lemma FW_okd_nwb m : FW_okd m = true -> FW_nwb m = true.
Proof. destruct m as [to wm f| | | | | |]; try reflexivity. destruct wm; try reflexivity. destruct m; try reflexivity.
       unfold FW_okd. cbn. discriminate. Qed.

Lemma FW_okd_nofunds m : FW_okd m = true -> match m with MWasm _ _ f => f = [] | MBank _ _ => False | _ => True end.
Proof.
  destruct m as [to wm f| | | | | |]; try exact (fun _ => I).
  - unfold FW_okd. cbn [FW_is_delegate]. rewrite orb_false_r. destruct f; [reflexivity|].
    destruct wm; try discriminate. destruct m; discriminate.
  - discriminate.
Qed.

Lemma FW_okb_outflow d m : FW_okb m = true -> outflow d m = 0.
Proof.
  destruct m as [to wm f| | | | | |]; try reflexivity; try discriminate.
  destruct f; [reflexivity|]. destruct wm; try discriminate. destruct m; discriminate.
Qed.

Lemma FW_okb_sum d out : forallb FW_okb out = true -> sumN (map (outflow d) out) = 0.
Proof.
  induction out as [|m out IH]; cbn [forallb map sumN]; [reflexivity|].
  intros H. apply andb_true_iff in H. destruct H as [H1 H2]. rewrite (FW_okb_outflow d m H1), (IH H2). reflexivity.
Qed.

Lemma FW_forallb_okb_okd out : forallb FW_okb out = true -> forallb FW_okd out = true.
Proof.
  rewrite !forallb_forall. intros H m Hi. apply FW_okb_okd. apply H. exact Hi.
Qed.

Lemma FW_forallb_app {A} (p : A -> bool) a b : forallb p (a ++ b) = forallb p a && forallb p b.
Proof. induction a as [|x a IH]; cbn [app forallb]; [reflexivity|]. rewrite IH, andb_assoc. reflexivity. Qed.

Lemma FW_forallb_map {A B} (p : B -> bool) (f : A -> B) l :
  (forall x, p (f x) = true) -> forallb p (map f l) = true.
Proof. intros H. induction l as [|x l IH]; cbn [map forallb]; [reflexivity|]. rewrite H, IH. reflexivity. Qed.

Lemma FW_forallb_flat_map {A B} (p : B -> bool) (f : A -> list B) l :
  (forall x, forallb p (f x) = true) -> forallb p (flat_map f l) = true.
Proof.
  intros H. induction l as [|x l IH]; cbn [flat_map forallb]; [reflexivity|].
  rewrite FW_forallb_app, H, IH. reflexivity.
Qed.

Lemma FW_forallb_repeat {A} (p : A -> bool) x n : p x = true -> forallb p (repeat x n) = true.
Proof. intros H. induction n as [|n IH]; cbn [repeat forallb]; [reflexivity|]. rewrite H, IH. reflexivity. Qed.

(** ** 3. the Delegate messages of a bond carry at most the payment *)
Lemma FW_deleg_sum_le A ds r : deleg A ds = Some r -> sumN (snd r) <= A.
Proof.
  intros H. assert (Hne : ds <> []) by (intros ->; discriminate H).
  rewrite (deleg_nonempty A ds Hne) in H.
  bind_inv H as tot Htot. bind_inv H as total Htotal.
  pose proof (deleg_loop_spec (total / len ds) (total mod len ds) ds 0 A) as Hs.
  cbv zeta in Hs. destruct Hs as (_ & Hs & _).
  assert (E : r = deleg_loop (total / len ds) (total mod len ds) 0 ds A) by congruence.
  rewrite E, Hs. apply N.le_min_l.
Qed.

Lemma FW_delegate_msgs_out d0 dn : forall (vals : list (val * N)) xs,
  forallb FW_okd (delegate_msgs vals xs dn) = true /\
  sumN (map (outflow d0) (delegate_msgs vals xs dn)) <= sumN xs.
Proof.
  unfold delegate_msgs. induction vals as [|v vals IH]; intros xs; cbn [combine flat_map].
  - split; [reflexivity|]. cbn [map sumN]. lia.
  - destruct xs as [|x xs]; cbn [combine flat_map]; [split; [reflexivity|cbn [map sumN]; lia]|].
    destruct (IH xs) as [I1 I2]. cbn [snd fst]. destruct (x =? 0) eqn:Ex; cbn [app].
    + split; [exact I1|]. cbn [sumN]. lia.
    + split; [cbn [forallb]; rewrite I1; reflexivity|].
      cbn [map sumN outflow snd]. destruct (d0 =? usei); lia.
Qed.

Lemma FW_bond_out w h self sender funds k h' out :
  execute_bond w h self sender funds k = Some (h', out) ->
  forallb FW_okd out = true /\
  exists p, funds = [(hp_underlying (h_params h), p)] /\ sumN (map (outflow usei) out) <= p.
Proof.
  unfold execute_bond. intros H.
  bind_inv H as dispaddr Hd. cbv beta iota zeta in H.
  check_inv H as Hauth. check_inv H as Hlen. bind_inv H as pay Hpay. bind_inv H as h1 Hh1.
  destruct (find_payment_single _ _ _ Hlen Hpay) as (Hfunds & Hden & Hpos).
  bind_inv H as mint Hmint. bind_inv H as supply Hsupply. bind_inv H as s' Hs'.
  bind_inv H as vals Hvals. destruct vals as [|v0 vr]; [discriminate|].
  bind_inv H as rr Hr. apply FW_deleg_sum_le in Hr.
  destruct (FW_delegate_msgs_out usei (fst pay) (v0 :: vr) (snd rr)) as [Q1 Q2].
  assert (Hf : funds = [(hp_underlying (h_params h), snd pay)]).
  { rewrite Hfunds. destruct pay as [dn p]. cbn [fst snd] in *. subst dn. reflexivity. }
  assert (Hq : forall tok, forallb FW_okd (delegate_msgs (v0 :: vr) (snd rr) (fst pay) ++
                                           [MWasm tok (WCw20 (CMint sender mint)) []]) = true /\
                            sumN (map (outflow usei) (delegate_msgs (v0 :: vr) (snd rr) (fst pay) ++
                                           [MWasm tok (WCw20 (CMint sender mint)) []])) <= snd pay).
  { intros tok. rewrite FW_forallb_app, Q1, map_app, sumN_app. split; [reflexivity|].
    cbn [map sumN outflow]. unfold coin_sum. cbn [map sumN]. lia. }
  destruct k.
  - bind_inv H as tok Htok. inversion H; subst h' out. destruct (Hq tok) as [A B].
    split; [exact A|]. exists (snd pay). split; [exact Hf | exact B].
  - bind_inv H as tok Htok. inversion H; subst h' out. destruct (Hq tok) as [A B].
    split; [exact A|]. exists (snd pay). split; [exact Hf | exact B].
  - inversion H; subst h' out. split; [exact Q1|]. exists (snd pay). split; [exact Hf | lia].
Qed.

(** ** 4. every other hub handler emits plain messages only *)
Lemma FW_pick_validator_out w self h claim msgs :
  pick_validator w self h claim = Some msgs -> forallb FW_okb msgs = true.
Proof.
  unfold pick_validator. intros H. bind_inv H as ys Hys. inversion H; subst msgs.
  apply FW_forallb_flat_map. intros p. destruct (snd p =? 0); reflexivity.
Qed.

Lemma FW_maybe_undelegate_out w self h h' msgs :
  maybe_undelegate w self h = Some (h', msgs) -> forallb FW_okb msgs = true.
Proof.
  intros H. apply maybe_undelegate_cases in H. destruct H as [[_ ->] | [_ H]]; [reflexivity|].
  unfold process_undelegations in H.
  bind_inv H as st_und E1. bind_inv H as b_und E2. bind_inv H as claim E3. bind_inv H as ms E4.
  bind_inv H as bst E5. bind_inv H as bb E6. bind_inv H as id' E7. inversion H; subst.
  eapply FW_pick_validator_out; eauto.
Qed.

Lemma FW_unbond_out w h self amount user h' out :
  execute_unbond w h self amount user = Some (h', out) -> forallb FW_okb out = true.
Proof.
  unfold execute_unbond. intros H.
  bind_inv H as h1 Hh1. bind_inv H as supply Hs. bind_inv H as awf Hawf. bind_inv H as reqb Hreqb.
  bind_inv H as h2 Hh2. bind_inv H as supply' Hs'. bind_inv H as ber Hber.
  bind_inv H as r Hr. destruct r as [h4 msgs]. bind_inv H as tok Htok. inversion H; subst h' out.
  rewrite FW_forallb_app, (FW_maybe_undelegate_out _ _ _ _ _ Hr). reflexivity.
Qed.

Lemma FW_unbond_stsei_out w h self amount user h' out :
  execute_unbond_stsei w h self amount user = Some (h', out) -> forallb FW_okb out = true.
Proof.
  unfold execute_unbond_stsei. intros H.
  bind_inv H as h1 Hh1. bind_inv H as reqst Hreq. bind_inv H as h2 Hh2.
  bind_inv H as r Hr. destruct r as [h4 msgs]. bind_inv H as tok Htok. inversion H; subst h' out.
  rewrite FW_forallb_app, (FW_maybe_undelegate_out _ _ _ _ _ Hr). reflexivity.
Qed.

Lemma FW_convert_sb_out w h self amount user h' out :
  convert_stsei_bsei w h self amount user = Some (h', out) -> forallb FW_okb out = true.
Proof.
  unfold convert_stsei_bsei. intros H.
  bind_inv H as h1 Hh1. bind_inv H as a1 E1. bind_inv H as a2 E2. bind_inv H as a3 E3. bind_inv H as a4 E4.
  bind_inv H as a5 E5. bind_inv H as a6 E6. bind_inv H as a7 E7. bind_inv H as a8 E8.
  bind_inv H as a9 E9. bind_inv H as a10 E10. bind_inv H as a11 E11. bind_inv H as a12 E12.
  bind_inv H as a13 E13. inversion H; subst. reflexivity.
Qed.

Lemma FW_convert_bs_out w h self amount user h' out :
  convert_bsei_stsei w h self amount user = Some (h', out) -> forallb FW_okb out = true.
Proof.
  unfold convert_bsei_stsei. intros H.
  bind_inv H as h1 Hh1. bind_inv H as a1 E1. bind_inv H as a2 E2. bind_inv H as a3 E3. bind_inv H as a4 E4.
  bind_inv H as a5 E5. bind_inv H as a6 E6. bind_inv H as a7 E7. bind_inv H as a8 E8.
  bind_inv H as a9 E9. bind_inv H as a10 E10. bind_inv H as a11 E11. bind_inv H as a12 E12.
  bind_inv H as a13 E13. inversion H; subst. reflexivity.
Qed.

Lemma FW_update_global_out w h self sender n h' out :
  execute_update_global w h self sender n = Some (h', out) -> forallb FW_okb out = true.
Proof.
  unfold execute_update_global. intros H. check_inv H as Hauth.
  bind_inv H as d Hd. bind_inv H as hooks Hhooks. inversion H; subst.
  rewrite !FW_forallb_app. apply andb_true_iff. split; [|apply andb_true_iff; split].
  - destruct (n =? 0); [inversion Hhooks; subst; reflexivity|].
    bind_inv Hhooks as reg Hreg. inversion Hhooks; subst. apply FW_forallb_repeat. reflexivity.
  - apply FW_forallb_map. reflexivity.
  - reflexivity.
Qed.

Lemma FW_receive_out w h self sender user amount hk h' out :
  receive_cw20 w h self sender user amount hk = Some (h', out) -> forallb FW_okb out = true.
Proof.
  unfold receive_cw20. intros H. bind_inv H as b Hb. bind_inv H as st Hst.
  destruct hk; [| |discriminate].
  - destruct (sender =? b); [eapply FW_unbond_out; eauto|].
    destruct (sender =? st); [eapply FW_unbond_stsei_out; eauto|discriminate].
  - destruct (sender =? b); [eapply FW_convert_bs_out; eauto|].
    destruct (sender =? st); [eapply FW_convert_sb_out; eauto|discriminate].
Qed.

(** C01 world level, handler part: a hub message other than WithdrawUnbonded emits plain messages
    and Delegates only; the Delegates carry at most [p], where either [p = 0] or the message
    arrived with exactly the one coin [(underlying, p)] attached (the three bond messages) *)
Theorem FW_hub_out w h self sender funds hm h' out :
  hub_execute w h self sender funds hm = Some (h', out) -> hm <> HWithdraw ->
  forallb FW_okd out = true /\
  exists p, sumN (map (outflow usei) out) <= p /\
            (p = 0 \/ funds = [(hp_underlying (h_params h), p)]).
Proof.
  intros H Hnw.
  assert (Plain : forallb FW_okb out = true ->
            forallb FW_okd out = true /\
            exists p, sumN (map (outflow usei) out) <= p /\
                      (p = 0 \/ funds = [(hp_underlying (h_params h), p)])).
  { intros Hp. split; [apply FW_forallb_okb_okd; exact Hp|]. exists 0.
    rewrite (FW_okb_sum usei out Hp). split; [lia | left; reflexivity]. }
  assert (Bond : forall k, execute_bond w h self sender funds k = Some (h', out) ->
            forallb FW_okd out = true /\
            exists p, sumN (map (outflow usei) out) <= p /\
                      (p = 0 \/ funds = [(hp_underlying (h_params h), p)])).
  { intros k Hk. apply FW_bond_out in Hk. destruct Hk as (A & p & B & C).
    split; [exact A|]. exists p. split; [exact C | right; exact B]. }
  unfold hub_execute in H. destruct hm.
  - check_inv H as Hp. eapply Bond; eauto.
  - check_inv H as Hp. eapply Bond; eauto.
  - check_inv H as Hp. eapply Bond; eauto.
  - check_inv H as Hp. apply Plain. eapply FW_update_global_out; eauto.
  - contradiction.
  - check_inv H as Hp. bind_inv H as h1 Hh1. inversion H; subst. apply Plain. reflexivity.
  - unfold execute_update_params in H. check_inv H as Hs. check_inv H as Hf. check_inv H as Hz.
    inversion H; subst. apply Plain. reflexivity.
  - check_inv H as Hp. unfold execute_update_config in H.
    check_inv H as C1. check_inv H as C2. check_inv H as C3. inversion H; subst.
    apply Plain. destruct disp; reflexivity.
  - check_inv H as Hp. check_inv H as Hs. inversion H; subst. apply Plain. reflexivity.
  - check_inv H as Hp. check_inv H as Hs. inversion H; subst. apply Plain. reflexivity.
  - check_inv H as Hp. bind_inv H as reg Hreg. check_inv H as Hs. inversion H; subst.
    apply Plain. apply FW_forallb_map. reflexivity.
  - check_inv H as Hp. check_inv H as Hs. bind_inv H as t Ht. check_inv H as Hb. inversion H; subst.
    apply Plain. reflexivity.
  - check_inv H as Hp. bind_inv H as reg Hreg. check_inv H as Hs. inversion H; subst.
    apply Plain. reflexivity.
  - destruct (paused h); [|discriminate]. inversion H; subst. apply Plain. reflexivity.
  - check_inv H as Hp. apply Plain. eapply FW_receive_out; eauto.
Qed.

(** ** 5. no contract emits a call of WithdrawUnbonded *)
Lemma FW_leaf_nwb m : leaf m -> FW_nwb m = true.
Proof. destruct m as [to wm f| | | | | |]; cbn [leaf]; try contradiction; [|reflexivity]. destruct wm; try contradiction. reflexivity. Qed.

Lemma FW_reward_nw w r self s m r' out :
  reward_execute w r self s m = Some (r', out) -> forallb FW_nwb out = true.
Proof.
  intros H. apply reward_out_spec in H. destruct H as [HL _].
  apply forallb_forall. intros x Hx. apply FW_leaf_nwb. exact (proj1 (Forall_forall _ _) HL x Hx).
Qed.

Lemma FW_convert_loop_nw w dp : forall coins tsei tusd msgs r,
  forallb FW_nwb msgs = true -> convert_loop w dp coins tsei tusd msgs = Some r ->
  forallb FW_nwb (snd r) = true.
Proof.
  induction coins as [|c cs IH]; intros tsei tusd msgs r Hm H; cbn [convert_loop] in H.
  - inversion H; subst. exact Hm.
  - destruct (negb (existsb (N.eqb (fst c)) (dp_denoms dp))); [eapply IH; eauto|].
    destruct (fst c =? dp_std dp); [bind_inv H as t Ht; eapply IH; eauto|].
    destruct (fst c =? dp_bd dp); [bind_inv H as t Ht; eapply IH; eauto|].
    destruct (negb (snd c =? 0)); [|eapply IH; eauto].
    check_inv H as Hsw. bind_inv H as ret Hret. bind_inv H as t Ht.
    eapply IH; [|exact H]. rewrite FW_forallb_app, Hm. reflexivity.
Qed.

Lemma FW_disp_nw w dp self s m dp' out :
  disp_execute w dp self s m = Some (dp', out) -> forallb FW_nwb out = true.
Proof.
  intros H. destruct m; cbn [disp_execute] in H.
  - check_inv H as Hs. bind_inv H as r Hr. destruct r as [[tsei tusd] msgs].
    apply FW_convert_loop_nw in Hr; [|reflexivity]. cbn [snd] in Hr.
    check_inv H as Ho. bind_inv H as p Hp. bind_inv H as q Hq. bind_inv H as info Hi.
    destruct info as [[od oa] ask]. inversion H; subst.
    destruct (oa =? 0); [exact Hr|]. rewrite FW_forallb_app, Hr. reflexivity.
  - check_inv H as Hs. bind_inv H as m1 H1. bind_inv H as m2 H2. inversion H; subst.
    rewrite !FW_forallb_app. apply andb_true_iff. split; [|apply andb_true_iff; split; [|reflexivity]].
    + match type of H1 with (if ?b then _ else _) = _ => destruct b end; [inversion H1; reflexivity|].
      bind_inv H1 as k Hk. bind_inv H1 as rest Hrest. inversion H1; reflexivity.
    + match type of H2 with (if ?b then _ else _) = _ => destruct b end; [inversion H2; reflexivity|].
      bind_inv H2 as k Hk. bind_inv H2 as rebond Hre. inversion H2; subst.
      destruct (rebond =? 0); reflexivity.
  - check_inv H as A1. check_inv H as A2. check_inv H as A3. inversion H; reflexivity.
  - check_inv H as A1. inversion H; reflexivity.
  - check_inv H as A1. inversion H; reflexivity.
  - check_inv H as A1. inversion H; reflexivity.
  - check_inv H as A1. inversion H; reflexivity.
  - check_inv H as A1. inversion H; reflexivity.
Qed.

Lemma FW_reg_redel_nw w g v msgs : reg_redelegate_msgs w g v = Some msgs -> forallb FW_nwb msgs = true.
Proof.
  unfold reg_redelegate_msgs. intros H. cbv zeta in H.
  destruct (delegation (w_env w) (rg_hub g) v) as [amount|]; [|inversion H; reflexivity].
  match type of H with (if ?b then _ else _) = _ => destruct b end; [inversion H; reflexivity|].
  bind_inv H as r Hr. inversion H; reflexivity.
Qed.

Lemma FW_reg_nw w g s m g' out :
  reg_execute w g s m = Some (g', out) -> forallb FW_nwb out = true.
Proof.
  intros H. destruct m; cbn [reg_execute] in H.
  - check_inv H as A1. inversion H; reflexivity.
  - check_inv H as A1. cbv zeta in H.
    destruct (rg_vals (set_rg_vals g (remove_val v (rg_vals g)))); [discriminate|].
    bind_inv H as msgs Hm. inversion H; subst. eapply FW_reg_redel_nw; eauto.
  - check_inv H as A1. inversion H; reflexivity.
  - check_inv H as A1. bind_inv H as msgs Hm. inversion H; subst. eapply FW_reg_redel_nw; eauto.
  - check_inv H as A1. inversion H; reflexivity.
  - check_inv H as A1. inversion H; reflexivity.
Qed.

Lemma FW_bsei_nw w t s m t' out :
  bsei_execute w t s m = Some (t', out) -> forallb FW_nwb out = true.
Proof.
  intros H. unfold bsei_execute in H. cbv zeta in H. destruct m; inv_all H; reflexivity.
Qed.

Lemma FW_stsei_nw w t s m t' out :
  stsei_execute w t s m = Some (t', out) -> forallb FW_nwb out = true.
Proof.
  intros H. unfold stsei_execute in H. cbv zeta in H. destruct m; inv_all H; reflexivity.
Qed.

Ltac FW_neq_addr := let X := fresh "X" in intro X; vm_compute in X; discriminate X.

(** a call into any contract other than the hub: the hub state is untouched and no emitted
    message is a call of WithdrawUnbonded *)
Theorem FW_call_other w s to wm funds w' o :
  call_effect w s to wm funds w' o -> to <> A_hub ->
  w_hub w' = w_hub w /\ forallb FW_nwb o = true.
Proof.
  intros Hc Hne.
  destruct Hc as [h hm h' -> _ _ _ _ | r rm r' _ _ _ He -> | d dm d' _ _ _ He ->
                 | g gm g' _ _ _ He -> | t cm t' _ _ _ He -> | t cm t' _ _ _ He ->
                 | sm e' _ _ _ -> -> | _ -> ->]; try (split; [reflexivity|]).
  - contradiction.
  - eapply FW_reward_nw; eauto.
  - eapply FW_disp_nw; eauto.
  - eapply FW_reg_nw; eauto.
  - eapply FW_bsei_nw; eauto.
  - eapply FW_stsei_nw; eauto.
  - reflexivity.
  - reflexivity.
Qed.

(** ** 6. the C07 / C08 invariants give the hypotheses of the hub-level funding theorems *)
Lemma FW_claims_le h t : ClaimsInv h -> WD_claims_le h (GR_group h t).
Proof.
  intros (_ & _ & _ & _ & _ & _ & Hh) i e Hin. unfold GR_group in Hin.
  apply WD_rg_in in Hin. destruct Hin as (Hg & _).
  destruct (Hh i e Hg) as (Hb & Hs & _).
  unfold wsum in Hb, Hs. rewrite WD_sum_batch in Hb, Hs. split; assumption.
Qed.

Lemma FW_open_unreleased h : HistShape h -> WD_open_unreleased h.
Proof.
  intros Hs. unfold WD_open_unreleased, WD_rel.
  destruct (get N.eqb (h_hist h) (cb_id (h_batch h))) as [e|] eqn:E; [|reflexivity].
  exfalso. assert (X : get N.eqb (h_hist h) (cb_id (h_batch h)) <> None) by congruence.
  apply (shape_get h _ Hs) in X. lia.
Qed.

(** E1' holds for every amount of arriving coins once (k - 1) * (coins the group expects) <= 1e18
    per token type: the loss never exceeds what was expected *)
Lemma FW_E1'_from_expected g A :
  (N.of_nat (length g) - 1) * GR_tot_s g <= D -> (N.of_nat (length g) - 1) * GR_tot_b g <= D ->
  GR_E1' g A.
Proof.
  intros Hs Hb. unfold GR_E1'. cbv zeta. split.
  - eapply N.le_trans; [apply N.mul_le_mono_l, N.le_sub_l | exact Hs].
  - eapply N.le_trans; [apply N.mul_le_mono_l, N.le_sub_l | exact Hb].
Qed.

(** E1' is monotone in the arriving coins: more coins, less loss *)
Lemma FW_split_mono Us Ub A A' : A <= A' ->
  fst (GR_split Us Ub A) <= fst (GR_split Us Ub A') /\ snd (GR_split Us Ub A) <= snd (GR_split Us Ub A').
Proof.
  intros Hle. unfold GR_split. cbv zeta. cbn [fst snd].
  set (br := if 0 <? Us + Ub then D - Us * D / (Us + Ub) else 0).
  assert (Hbr : br <= D) by (unfold br; destruct (0 <? Us + Ub); [apply N.le_sub_l | apply N.le_0_l]).
  assert (Hq : A * br / D <= A).
  { apply N.div_le_upper_bound; [exact D_nz|]. rewrite (N.mul_comm D A). apply N.mul_le_mono_l. exact Hbr. }
  assert (Hq' : A' * br / D <= A * br / D + (A' - A)).
  { replace A' with (A + (A' - A)) at 1 by lia. rewrite N.mul_add_distr_r.
    eapply N.le_trans; [apply N.div_le_mono; [exact D_nz|]; apply N.add_le_mono_l;
                        apply N.mul_le_mono_l; exact Hbr|].
    rewrite N.div_add by exact D_nz. apply N.le_refl. }
  assert (Hm : A * br / D <= A' * br / D).
  { apply N.div_le_mono; [exact D_nz|]. apply N.mul_le_mono_r. exact Hle. }
  generalize dependent (A * br / D). generalize dependent (A' * br / D). intros. split; lia.
Qed.

Lemma FW_E1'_mono g A A' : A <= A' -> GR_E1' g A -> GR_E1' g A'.
Proof.
  intros Hle [H1 H2]. destruct (FW_split_mono (GR_tot_s g) (GR_tot_b g) A A' Hle) as [M1 M2].
  unfold GR_E1'. cbv zeta. split.
  - eapply N.le_trans; [apply N.mul_le_mono_l|exact H1]. lia.
  - eapply N.le_trans; [apply N.mul_le_mono_l|exact H2]. lia.
Qed.
