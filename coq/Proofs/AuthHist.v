(** * AuthHist: transaction / history level capstone of C10 (authorisation).
    Helper files: Proofs/AuthHistEmit.v (the closed class of emitted messages) and
    Proofs/AuthHistOwn.v (proofs of PART 2 and of the generic theorems of PART 3).

    PART 0 (where a message executed).
    - [Reach w st ex w1 st1]: fuel-free reading of a PREFIX of [Exec.run]: from world [w] with pending
      stack [st], executing (depth first, every one successfully) exactly the messages [ex] leads to
      world [w1] with pending stack [st1]; [Reach_det] / [Reach_unique]: [w1], [st1] are determined by [w], [st], [ex];
    - [run_executed]: for every successful [run] and every position of its returned trace
      [tr = pre ++ (s, m) :: post], the prefix [pre] reaches a world [wa] whose stack top is [(s, m)],
      and [step_msg wa s m] succeeded: [wa] is THE world in which that message executed.

    PART 1 (every executed privileged message was sent by its principal).
    - [hub_table], [reward_table], [disp_table], [reg_table], [bsei_table], [stsei_table]: the
      authorisation table of Props/C10.v;
    - [step_hub_auth] ... [step_stsei_auth]: a message delivered to one of the six contract addresses
      that executes successfully in world [wa] satisfies the table read from [wa];
    - [hub_executed] ... [stsei_executed]: hence so does every message of the trace of every
      successful [run] (any fuel, any start world, any start stack: NO reachability hypothesis),
      in the world determined by [Reach]; [*_executed_history]: the same for a successful [OTx] after
      any history from the empty world;
    - [hub_root_unauthorised] ... : a root transaction whose privileged message is signed by someone
      else is rejected and leaves the world unchanged.

    PART 2 (token addresses are immutable along histories).
    - [hub_bsei w], [hub_stsei w]: the token addresses stored in the hub's config ([None] if there is
      no hub or the address is not set); [keeps_hub o]: [o] is neither [OReset] nor [OInstHub];
    - [step_tokaddr], [history_tokaddr], [reachable_tokaddr]: once [Some x], always [Some x] along
      every sequence of [keeps_hub] operations;
    - [tokaddr_reinst_witness], [tokaddr_failed_inst_witness]: the exclusion is necessary.

    PART 3 (two-step ownership along histories) for the hub, reward, dispatcher and registry.
    - [hub_owner], [hub_nominee], ... : owner / nominee of each contract in a world;
    - [closed_class], [step_msg_emits_noadmin]: everything a contract emits is white-listed
      ([emit_wasm_ok]), in particular never an owner-only message ([admin_msg]);
    - [ownership_step], [ownership_changes], [outsider_tx], [outsider_history]: generic in the
      contract [c : ownable]; below their instances:
    - [hub_ownership_step], [reward_ownership_step], [disp_ownership_step], [reg_ownership_step]:
      for every world and every operation, the owner changes only by reset / instantiate of that
      contract or by an Accept ROOT transaction signed by the nominee (who becomes owner); the nominee
      changes only by reset / instantiate or by a SetOwner ROOT transaction signed by the owner;
    - [*_ownership_changes], [*_ownership_changes_history]: the same read as "if the field changed
      then ...", for every world and along every history from the empty world;
    - [*_outsider_tx], [*_outsider_history]: transactions signed by addresses that are neither owner
      nor nominee (to ANY target, with ANY message), interleaved with every environment operation,
      never change owner or nominee.
    Non-vacuity: section "examples" at the end. *)
From Krp Require Import Tactics Prelude Fixed FMap Types Env Registry Cw20 Reward Dispatcher Hub Exec
     ExecP Hist HubFrame HubAdmin Auth MirrorWire TokenTxNoUpd TokenTx AuthHistEmit AuthHistOwn ExitWorld.
Open Scope N_scope.

(** * PART 0 — the world in which a message executed *)

Inductive Reach : world -> list (addr * cmsg) -> list (addr * cmsg) ->
                  world -> list (addr * cmsg) -> Prop :=
| Reach_nil w st : Reach w st [] w st
| Reach_cons w s m rest w1 out ex w2 st2 :
    step_msg w s m = Some (w1, out) -> Reach w1 (out ++ rest) ex w2 st2 ->
    Reach w ((s, m) :: rest) ((s, m) :: ex) w2 st2.

Lemma Reach_det w st ex w1 st1 : Reach w st ex w1 st1 ->
  forall w2 st2, Reach w st ex w2 st2 -> w1 = w2 /\ st1 = st2.
Proof.
  induction 1 as [w st | w s m rest w1 out ex w2 st2 Hs HR IH]; intros wb stb H2.
  - inversion H2; subst. auto.
  - inversion H2 as [|? ? ? ? w1' out' ? ? ? Hs' HR']; subst.
    rewrite Hs in Hs'. inversion Hs'; subst. apply IH. exact HR'.
Qed.

Lemma Reach_unique w st ex w1 st1 w2 st2 :
  Reach w st ex w1 st1 -> Reach w st ex w2 st2 -> w1 = w2 /\ st1 = st2.
Proof. intros H1 H2. exact (Reach_det w st ex w1 st1 H1 w2 st2 H2). Qed.

Lemma Trace_reach w stack ex w' : Trace w stack ex w' ->
  forall pre s m post, ex = pre ++ (s, m) :: post ->
  exists wa rest wb out,
    Reach w stack pre wa ((s, m) :: rest) /\ step_msg wa s m = Some (wb, out) /\
    Trace wb (out ++ rest) post w'.
Proof.
  induction 1 as [w | w s0 m0 rest w1 out ex w' Hs HT IH]; intros pre s m post E.
  - destruct pre; discriminate.
  - destruct pre as [|p pre]; cbn [app] in E.
    + inversion E; subst. exists w, rest, w1, out. split; [constructor|auto].
    + inversion E; subst. destruct (IH _ _ _ _ eq_refl) as (wa & rest' & wb & out' & HR & Hs' & HT').
      exists wa, rest', wb, out'. split; [econstructor; eauto|auto].
Qed.

Theorem run_executed fuel w0 stack w' tr pre s m post :
  run fuel w0 stack [] = Some (w', tr) -> tr = pre ++ (s, m) :: post ->
  exists wa rest wb out,
    Reach w0 stack pre wa ((s, m) :: rest) /\ step_msg wa s m = Some (wb, out).
Proof.
  intros H E. apply run_Trace in H. destruct H as (ex & -> & HT). cbn [app] in E.
  destruct (Trace_reach _ _ _ _ HT _ _ _ _ E) as (wa & rest & wb & out & HR & Hs & _).
  eauto 6.
Qed.

Lemma step_tx_success w s tgt m f w' tr :
  step w (OTx s tgt m f) = (w', (true, tr)) ->
  run tx_fuel w [(s, MWasm tgt m f)] [] = Some (w', tr).
Proof.
  cbn [step]. destruct (run tx_fuel w _ []) as [[w1 tr1]|]; intros H; inversion H; reflexivity.
Qed.

(** * PART 1 — the authorisation table holds for every executed message *)

Definition hub_table (h : hub) (x : addr) (hm : hub_msg) : Prop :=
  match hm with
  | HConfig _ _ _ _ _ _ _ | HParams _ _ _ _ _ _ | HSetOwner _ => x = hc_creator (h_cfg h)
  | HAccept => x = h_newowner h
  | HBondRewards => hc_disp (h_cfg h) = Some x
  | HRedelProxy _ _ => hc_reg (h_cfg h) = Some x
  | HUpdateGlobal _ => x = hc_updater (h_cfg h) \/ hc_reg (h_cfg h) = Some x
  | HSwapHook _ _ => x = A_hub
  | HClaimAirdrop _ _ _ => hc_airdrop (h_cfg h) = Some x
  | HReceive _ _ _ => hc_bsei (h_cfg h) = Some x \/ hc_stsei (h_cfg h) = Some x
  | _ => True
  end.

Definition disp_table (dp : disp) (x : addr) (m : disp_msg) : Prop :=
  match m with
  | DSwap _ _ | DDispatch => x = dp_hub dp
  | DAccept => x = dp_newowner dp
  | _ => x = dp_owner dp
  end.

Definition reward_table (w : world) (r : reward) (x : addr) (m : reward_msg) : Prop :=
  match m with
  | RConfig _ _ _ | RSetOwner _ | RSwapDenom _ _ => x = rw_owner r
  | RAccept => x = rw_newowner r
  | RSwap | RUpdateIndex => query_dispatcher_addr w (rw_hub r) = Some x
  | RInc _ _ | RDec _ _ => query_bsei_addr w (rw_hub r) = Some x
  | RClaim _ => True
  end.

Definition reg_table (g : registry) (x : addr) (m : reg_msg) : Prop :=
  match m with
  | GAdd _ => x = rg_owner g \/ x = rg_hub g
  | GRemove _ | GConfig _ | GSetOwner _ => x = rg_owner g
  | GAccept => x = rg_newowner g
  | GRedelegations _ => True
  end.

Definition bsei_table (t : token) (x : addr) (m : cw20_msg) : Prop :=
  match m with
  | CMint _ _ => exists cap, tk_minter t = Some (x, cap)
  | CBurn _ => x = tk_hub t
  | _ => True
  end.

Definition stsei_table (t : token) (x : addr) (m : cw20_msg) : Prop :=
  match m with
  | CMint _ _ => exists cap, tk_minter t = Some (x, cap)
  | CBurn _ => x = tk_hub t
  | CUpdMinter _ => exists cap, tk_minter t = Some (x, cap)
  | _ => True
  end.

(** the reward contract also understands the hub-shaped UpdateGlobalIndex (as UpdateGlobalIndex) *)
Definition reward_payload (wm : wasm_msg) (rm : reward_msg) : Prop :=
  wm = WReward rm \/ exists n, wm = WHub (HUpdateGlobal n) /\ rm = RUpdateIndex.

Lemma step_hub_auth wa x hm f wb out :
  step_msg wa x (MWasm A_hub (WHub hm) f) = Some (wb, out) ->
  exists h, w_hub wa = Some h /\ hub_table h x hm.
Proof.
  intros H. apply step_msg_wasm_inv in H. destruct H as (e1 & o & _ & Hc & _).
  call_cases Hc; try discriminate Et.
  inversion Em; subst hm0. cbn [w_hub set_env] in Hw. exists h0. split; [exact Hw|].
  exact (auth_hub _ _ _ _ _ _ _ _ He).
Qed.

Lemma step_reward_auth wa x wm rm f wb out :
  step_msg wa x (MWasm A_reward wm f) = Some (wb, out) -> reward_payload wm rm ->
  exists r, w_reward wa = Some r /\ reward_table wa r x rm.
Proof.
  intros H Hp. apply step_msg_wasm_inv in H. destruct H as (e1 & o & _ & Hc & _).
  call_cases Hc; try discriminate Et.
  assert (rm0 = rm) as ->.
  { destruct Em as [E1 | (n & E1 & E2)]; destruct Hp as [E3 | (n' & E3 & E4)]; subst; congruence. }
  cbn [w_reward set_env] in Hw. exists r0. split; [exact Hw|].
  exact (auth_reward _ _ _ _ _ _ _ He).
Qed.

Lemma step_disp_auth wa x dm f wb out :
  step_msg wa x (MWasm A_disp (WDisp dm) f) = Some (wb, out) ->
  exists dp, w_disp wa = Some dp /\ disp_table dp x dm.
Proof.
  intros H. apply step_msg_wasm_inv in H. destruct H as (e1 & o & _ & Hc & _).
  call_cases Hc; try discriminate Et.
  inversion Em; subst dm0. cbn [w_disp set_env] in Hw. exists d0. split; [exact Hw|].
  exact (auth_disp _ _ _ _ _ _ _ He).
Qed.

Lemma step_reg_auth wa x gm f wb out :
  step_msg wa x (MWasm A_reg (WReg gm) f) = Some (wb, out) ->
  exists g, w_reg wa = Some g /\ reg_table g x gm.
Proof.
  intros H. apply step_msg_wasm_inv in H. destruct H as (e1 & o & _ & Hc & _).
  call_cases Hc; try discriminate Et.
  inversion Em; subst gm0. cbn [w_reg set_env] in Hw. exists g0. split; [exact Hw|].
  exact (auth_reg _ _ _ _ _ _ He).
Qed.

Lemma step_bsei_auth wa x cm f wb out :
  step_msg wa x (MWasm A_bsei (WCw20 cm) f) = Some (wb, out) ->
  exists t, w_bsei wa = Some t /\ bsei_table t x cm.
Proof.
  intros H. apply step_msg_wasm_inv in H. destruct H as (e1 & o & _ & Hc & _).
  call_cases Hc; try discriminate Et.
  inversion Em; subst cm0. cbn [w_bsei set_env] in Hw. exists t0. split; [exact Hw|].
  exact (auth_bsei _ _ _ _ _ _ He).
Qed.

Lemma step_stsei_auth wa x cm f wb out :
  step_msg wa x (MWasm A_stsei (WCw20 cm) f) = Some (wb, out) ->
  exists t, w_stsei wa = Some t /\ stsei_table t x cm.
Proof.
  intros H. apply step_msg_wasm_inv in H. destruct H as (e1 & o & _ & Hc & _).
  call_cases Hc; try discriminate Et.
  inversion Em; subst cm0. cbn [w_stsei set_env] in Hw. exists t0. split; [exact Hw|].
  exact (auth_stsei _ _ _ _ _ _ He).
Qed.

(** ** every message of the trace of every successful run *)
Theorem hub_executed fuel w0 stack w' tr pre x hm f post :
  run fuel w0 stack [] = Some (w', tr) ->
  tr = pre ++ (x, MWasm A_hub (WHub hm) f) :: post ->
  exists wa rest h,
    Reach w0 stack pre wa ((x, MWasm A_hub (WHub hm) f) :: rest) /\
    w_hub wa = Some h /\ hub_table h x hm.
Proof.
  intros H E. destruct (run_executed _ _ _ _ _ _ _ _ _ H E) as (wa & rest & wb & out & HR & Hs).
  destruct (step_hub_auth _ _ _ _ _ _ Hs) as (h & Hw & Ht). eauto 6.
Qed.

Theorem reward_executed fuel w0 stack w' tr pre x wm rm f post :
  run fuel w0 stack [] = Some (w', tr) ->
  tr = pre ++ (x, MWasm A_reward wm f) :: post -> reward_payload wm rm ->
  exists wa rest r,
    Reach w0 stack pre wa ((x, MWasm A_reward wm f) :: rest) /\
    w_reward wa = Some r /\ reward_table wa r x rm.
Proof.
  intros H E Hp. destruct (run_executed _ _ _ _ _ _ _ _ _ H E) as (wa & rest & wb & out & HR & Hs).
  destruct (step_reward_auth _ _ _ _ _ _ _ Hs Hp) as (r & Hw & Ht). eauto 6.
Qed.

Theorem disp_executed fuel w0 stack w' tr pre x dm f post :
  run fuel w0 stack [] = Some (w', tr) ->
  tr = pre ++ (x, MWasm A_disp (WDisp dm) f) :: post ->
  exists wa rest dp,
    Reach w0 stack pre wa ((x, MWasm A_disp (WDisp dm) f) :: rest) /\
    w_disp wa = Some dp /\ disp_table dp x dm.
Proof.
  intros H E. destruct (run_executed _ _ _ _ _ _ _ _ _ H E) as (wa & rest & wb & out & HR & Hs).
  destruct (step_disp_auth _ _ _ _ _ _ Hs) as (h & Hw & Ht). eauto 6.
Qed.

Theorem reg_executed fuel w0 stack w' tr pre x gm f post :
  run fuel w0 stack [] = Some (w', tr) ->
  tr = pre ++ (x, MWasm A_reg (WReg gm) f) :: post ->
  exists wa rest g,
    Reach w0 stack pre wa ((x, MWasm A_reg (WReg gm) f) :: rest) /\
    w_reg wa = Some g /\ reg_table g x gm.
Proof.
  intros H E. destruct (run_executed _ _ _ _ _ _ _ _ _ H E) as (wa & rest & wb & out & HR & Hs).
  destruct (step_reg_auth _ _ _ _ _ _ Hs) as (h & Hw & Ht). eauto 6.
Qed.

Theorem bsei_executed fuel w0 stack w' tr pre x cm f post :
  run fuel w0 stack [] = Some (w', tr) ->
  tr = pre ++ (x, MWasm A_bsei (WCw20 cm) f) :: post ->
  exists wa rest t,
    Reach w0 stack pre wa ((x, MWasm A_bsei (WCw20 cm) f) :: rest) /\
    w_bsei wa = Some t /\ bsei_table t x cm.
Proof.
  intros H E. destruct (run_executed _ _ _ _ _ _ _ _ _ H E) as (wa & rest & wb & out & HR & Hs).
  destruct (step_bsei_auth _ _ _ _ _ _ Hs) as (h & Hw & Ht). eauto 6.
Qed.

Theorem stsei_executed fuel w0 stack w' tr pre x cm f post :
  run fuel w0 stack [] = Some (w', tr) ->
  tr = pre ++ (x, MWasm A_stsei (WCw20 cm) f) :: post ->
  exists wa rest t,
    Reach w0 stack pre wa ((x, MWasm A_stsei (WCw20 cm) f) :: rest) /\
    w_stsei wa = Some t /\ stsei_table t x cm.
Proof.
  intros H E. destruct (run_executed _ _ _ _ _ _ _ _ _ H E) as (wa & rest & wb & out & HR & Hs).
  destruct (step_stsei_auth _ _ _ _ _ _ Hs) as (h & Hw & Ht). eauto 6.
Qed.

(** ** the same for a successful transaction after any history from the empty world *)
Theorem hub_executed_history ut ops s tgt m0 f0 w' tr pre x hm f post :
  step (run_ops ops (empty_world ut)) (OTx s tgt m0 f0) = (w', (true, tr)) ->
  tr = pre ++ (x, MWasm A_hub (WHub hm) f) :: post ->
  exists wa rest h,
    Reach (run_ops ops (empty_world ut)) [(s, MWasm tgt m0 f0)] pre wa
          ((x, MWasm A_hub (WHub hm) f) :: rest) /\
    w_hub wa = Some h /\ hub_table h x hm.
Proof. intros H. apply step_tx_success in H. eapply hub_executed; eauto. Qed.

Theorem reward_executed_history ut ops s tgt m0 f0 w' tr pre x wm rm f post :
  step (run_ops ops (empty_world ut)) (OTx s tgt m0 f0) = (w', (true, tr)) ->
  tr = pre ++ (x, MWasm A_reward wm f) :: post -> reward_payload wm rm ->
  exists wa rest r,
    Reach (run_ops ops (empty_world ut)) [(s, MWasm tgt m0 f0)] pre wa
          ((x, MWasm A_reward wm f) :: rest) /\
    w_reward wa = Some r /\ reward_table wa r x rm.
Proof. intros H. apply step_tx_success in H. eapply reward_executed; eauto. Qed.

Theorem disp_executed_history ut ops s tgt m0 f0 w' tr pre x dm f post :
  step (run_ops ops (empty_world ut)) (OTx s tgt m0 f0) = (w', (true, tr)) ->
  tr = pre ++ (x, MWasm A_disp (WDisp dm) f) :: post ->
  exists wa rest dp,
    Reach (run_ops ops (empty_world ut)) [(s, MWasm tgt m0 f0)] pre wa
          ((x, MWasm A_disp (WDisp dm) f) :: rest) /\
    w_disp wa = Some dp /\ disp_table dp x dm.
Proof. intros H. apply step_tx_success in H. eapply disp_executed; eauto. Qed.

Theorem reg_executed_history ut ops s tgt m0 f0 w' tr pre x gm f post :
  step (run_ops ops (empty_world ut)) (OTx s tgt m0 f0) = (w', (true, tr)) ->
  tr = pre ++ (x, MWasm A_reg (WReg gm) f) :: post ->
  exists wa rest g,
    Reach (run_ops ops (empty_world ut)) [(s, MWasm tgt m0 f0)] pre wa
          ((x, MWasm A_reg (WReg gm) f) :: rest) /\
    w_reg wa = Some g /\ reg_table g x gm.
Proof. intros H. apply step_tx_success in H. eapply reg_executed; eauto. Qed.

Theorem bsei_executed_history ut ops s tgt m0 f0 w' tr pre x cm f post :
  step (run_ops ops (empty_world ut)) (OTx s tgt m0 f0) = (w', (true, tr)) ->
  tr = pre ++ (x, MWasm A_bsei (WCw20 cm) f) :: post ->
  exists wa rest t,
    Reach (run_ops ops (empty_world ut)) [(s, MWasm tgt m0 f0)] pre wa
          ((x, MWasm A_bsei (WCw20 cm) f) :: rest) /\
    w_bsei wa = Some t /\ bsei_table t x cm.
Proof. intros H. apply step_tx_success in H. eapply bsei_executed; eauto. Qed.

Theorem stsei_executed_history ut ops s tgt m0 f0 w' tr pre x cm f post :
  step (run_ops ops (empty_world ut)) (OTx s tgt m0 f0) = (w', (true, tr)) ->
  tr = pre ++ (x, MWasm A_stsei (WCw20 cm) f) :: post ->
  exists wa rest t,
    Reach (run_ops ops (empty_world ut)) [(s, MWasm tgt m0 f0)] pre wa
          ((x, MWasm A_stsei (WCw20 cm) f) :: rest) /\
    w_stsei wa = Some t /\ stsei_table t x cm.
Proof. intros H. apply step_tx_success in H. eapply stsei_executed; eauto. Qed.

(** ** an unauthorised root is rejected and nothing changes *)
Lemma root_rejected w s tgt m f :
  (forall wb out, step_msg w s (MWasm tgt m f) = Some (wb, out) -> False) ->
  step w (OTx s tgt m f) = (w, (false, [])).
Proof.
  intros Hno. cbn [step].
  destruct (run tx_fuel w [(s, MWasm tgt m f)] []) as [[w' tr]|] eqn:E; [|reflexivity].
  exfalso. apply run_Trace in E. destruct E as (ex & _ & HT).
  inversion HT; subst. eapply Hno. eassumption.
Qed.

Theorem hub_root_unauthorised w s hm f h :
  w_hub w = Some h -> ~ hub_table h s hm ->
  step w (OTx s A_hub (WHub hm) f) = (w, (false, [])).
Proof.
  intros Hw Hn. apply root_rejected. intros wb out Hs.
  destruct (step_hub_auth _ _ _ _ _ _ Hs) as (h1 & Hw1 & Ht). congruence.
Qed.

Theorem reward_root_unauthorised w s wm rm f r :
  w_reward w = Some r -> reward_payload wm rm -> ~ reward_table w r s rm ->
  step w (OTx s A_reward wm f) = (w, (false, [])).
Proof.
  intros Hw Hp Hn. apply root_rejected. intros wb out Hs.
  destruct (step_reward_auth _ _ _ _ _ _ _ Hs Hp) as (h1 & Hw1 & Ht). congruence.
Qed.

Theorem disp_root_unauthorised w s dm f dp :
  w_disp w = Some dp -> ~ disp_table dp s dm ->
  step w (OTx s A_disp (WDisp dm) f) = (w, (false, [])).
Proof.
  intros Hw Hn. apply root_rejected. intros wb out Hs.
  destruct (step_disp_auth _ _ _ _ _ _ Hs) as (h1 & Hw1 & Ht). congruence.
Qed.

Theorem reg_root_unauthorised w s gm f g :
  w_reg w = Some g -> ~ reg_table g s gm ->
  step w (OTx s A_reg (WReg gm) f) = (w, (false, [])).
Proof.
  intros Hw Hn. apply root_rejected. intros wb out Hs.
  destruct (step_reg_auth _ _ _ _ _ _ Hs) as (h1 & Hw1 & Ht). congruence.
Qed.

Theorem bsei_root_unauthorised w s cm f t :
  w_bsei w = Some t -> ~ bsei_table t s cm ->
  step w (OTx s A_bsei (WCw20 cm) f) = (w, (false, [])).
Proof.
  intros Hw Hn. apply root_rejected. intros wb out Hs.
  destruct (step_bsei_auth _ _ _ _ _ _ Hs) as (h1 & Hw1 & Ht). congruence.
Qed.

Theorem stsei_root_unauthorised w s cm f t :
  w_stsei w = Some t -> ~ stsei_table t s cm ->
  step w (OTx s A_stsei (WCw20 cm) f) = (w, (false, [])).
Proof.
  intros Hw Hn. apply root_rejected. intros wb out Hs.
  destruct (step_stsei_auth _ _ _ _ _ _ Hs) as (h1 & Hw1 & Ht). congruence.
Qed.

(** * PART 2 — token addresses: proofs in Proofs/AuthHistOwn.v ([step_tokaddr], [history_tokaddr],
      [reachable_tokaddr]); witnesses in the examples below. *)

(** * PART 3 — two-step ownership, spelled out for each of the four ownable contracts
      (instances of the generic theorems of Proofs/AuthHistOwn.v) *)

(** ** hub *)
Theorem hub_ownership_step w o :
  (hub_owner (fst (step w o)) = hub_owner w /\ hub_nominee (fst (step w o)) = hub_nominee w) \/
  reinst CHub o \/
  (exists x f, o = OTx x A_hub (WHub HAccept) f /\ hub_nominee w = Some x /\
     hub_owner (fst (step w o)) = Some x /\ hub_nominee (fst (step w o)) = Some x /\
     snd (step w o) = (true, [(x, MWasm A_hub (WHub HAccept) f)])) \/
  (exists x a f, o = OTx x A_hub (WHub (HSetOwner a)) f /\ hub_owner w = Some x /\
     hub_owner (fst (step w o)) = Some x /\ hub_nominee (fst (step w o)) = Some a /\
     snd (step w o) = (true, [(x, MWasm A_hub (WHub (HSetOwner a)) f)])).
Proof. exact (ownership_step CHub w o). Qed.

Theorem hub_ownership_changes w o :
  (hub_owner (fst (step w o)) <> hub_owner w ->
   reinst CHub o \/
   exists x f, o = OTx x A_hub (WHub HAccept) f /\ hub_nominee w = Some x /\
     hub_owner (fst (step w o)) = Some x /\
     snd (step w o) = (true, [(x, MWasm A_hub (WHub HAccept) f)])) /\
  (hub_nominee (fst (step w o)) <> hub_nominee w ->
   reinst CHub o \/
   exists x a f, o = OTx x A_hub (WHub (HSetOwner a)) f /\ hub_owner w = Some x /\
     hub_nominee (fst (step w o)) = Some a /\ hub_owner (fst (step w o)) = Some x /\
     snd (step w o) = (true, [(x, MWasm A_hub (WHub (HSetOwner a)) f)])).
Proof. exact (ownership_changes CHub w o). Qed.

Theorem hub_ownership_changes_history ut ops o :
  (hub_owner (run_ops (ops ++ [o]) (empty_world ut)) <> hub_owner (run_ops ops (empty_world ut)) ->
   reinst CHub o \/
   exists x f, o = OTx x A_hub (WHub HAccept) f /\
     hub_nominee (run_ops ops (empty_world ut)) = Some x /\
     hub_owner (run_ops (ops ++ [o]) (empty_world ut)) = Some x /\
     snd (step (run_ops ops (empty_world ut)) o) = (true, [(x, MWasm A_hub (WHub HAccept) f)])) /\
  (hub_nominee (run_ops (ops ++ [o]) (empty_world ut)) <> hub_nominee (run_ops ops (empty_world ut)) ->
   reinst CHub o \/
   exists x a f, o = OTx x A_hub (WHub (HSetOwner a)) f /\
     hub_owner (run_ops ops (empty_world ut)) = Some x /\
     hub_nominee (run_ops (ops ++ [o]) (empty_world ut)) = Some a /\
     hub_owner (run_ops (ops ++ [o]) (empty_world ut)) = Some x /\
     snd (step (run_ops ops (empty_world ut)) o) = (true, [(x, MWasm A_hub (WHub (HSetOwner a)) f)])).
Proof. exact (ownership_changes_history CHub ut ops o). Qed.

Theorem hub_outsider_tx w x tgt m f own nom :
  hub_owner w = Some own -> hub_nominee w = Some nom -> x <> own -> x <> nom ->
  hub_owner (fst (step w (OTx x tgt m f))) = Some own /\
  hub_nominee (fst (step w (OTx x tgt m f))) = Some nom.
Proof. exact (outsider_tx CHub w x tgt m f own nom). Qed.

Theorem hub_outsider_history own nom ops w :
  Forall (outsider_op CHub own nom) ops -> hub_owner w = Some own -> hub_nominee w = Some nom ->
  hub_owner (run_ops ops w) = Some own /\ hub_nominee (run_ops ops w) = Some nom.
Proof. exact (outsider_history CHub own nom ops w). Qed.

(** ** reward *)
Theorem reward_ownership_step w o :
  (reward_owner (fst (step w o)) = reward_owner w /\ reward_nominee (fst (step w o)) = reward_nominee w) \/
  reinst CReward o \/
  (exists x f, o = OTx x A_reward (WReward RAccept) f /\ reward_nominee w = Some x /\
     reward_owner (fst (step w o)) = Some x /\ reward_nominee (fst (step w o)) = Some x /\
     snd (step w o) = (true, [(x, MWasm A_reward (WReward RAccept) f)])) \/
  (exists x a f, o = OTx x A_reward (WReward (RSetOwner a)) f /\ reward_owner w = Some x /\
     reward_owner (fst (step w o)) = Some x /\ reward_nominee (fst (step w o)) = Some a /\
     snd (step w o) = (true, [(x, MWasm A_reward (WReward (RSetOwner a)) f)])).
Proof. exact (ownership_step CReward w o). Qed.

Theorem reward_ownership_changes w o :
  (reward_owner (fst (step w o)) <> reward_owner w ->
   reinst CReward o \/
   exists x f, o = OTx x A_reward (WReward RAccept) f /\ reward_nominee w = Some x /\
     reward_owner (fst (step w o)) = Some x /\
     snd (step w o) = (true, [(x, MWasm A_reward (WReward RAccept) f)])) /\
  (reward_nominee (fst (step w o)) <> reward_nominee w ->
   reinst CReward o \/
   exists x a f, o = OTx x A_reward (WReward (RSetOwner a)) f /\ reward_owner w = Some x /\
     reward_nominee (fst (step w o)) = Some a /\ reward_owner (fst (step w o)) = Some x /\
     snd (step w o) = (true, [(x, MWasm A_reward (WReward (RSetOwner a)) f)])).
Proof. exact (ownership_changes CReward w o). Qed.

Theorem reward_ownership_changes_history ut ops o :
  (reward_owner (run_ops (ops ++ [o]) (empty_world ut)) <> reward_owner (run_ops ops (empty_world ut)) ->
   reinst CReward o \/
   exists x f, o = OTx x A_reward (WReward RAccept) f /\
     reward_nominee (run_ops ops (empty_world ut)) = Some x /\
     reward_owner (run_ops (ops ++ [o]) (empty_world ut)) = Some x /\
     snd (step (run_ops ops (empty_world ut)) o) = (true, [(x, MWasm A_reward (WReward RAccept) f)])) /\
  (reward_nominee (run_ops (ops ++ [o]) (empty_world ut)) <> reward_nominee (run_ops ops (empty_world ut)) ->
   reinst CReward o \/
   exists x a f, o = OTx x A_reward (WReward (RSetOwner a)) f /\
     reward_owner (run_ops ops (empty_world ut)) = Some x /\
     reward_nominee (run_ops (ops ++ [o]) (empty_world ut)) = Some a /\
     reward_owner (run_ops (ops ++ [o]) (empty_world ut)) = Some x /\
     snd (step (run_ops ops (empty_world ut)) o) = (true, [(x, MWasm A_reward (WReward (RSetOwner a)) f)])).
Proof. exact (ownership_changes_history CReward ut ops o). Qed.

Theorem reward_outsider_tx w x tgt m f own nom :
  reward_owner w = Some own -> reward_nominee w = Some nom -> x <> own -> x <> nom ->
  reward_owner (fst (step w (OTx x tgt m f))) = Some own /\
  reward_nominee (fst (step w (OTx x tgt m f))) = Some nom.
Proof. exact (outsider_tx CReward w x tgt m f own nom). Qed.

Theorem reward_outsider_history own nom ops w :
  Forall (outsider_op CReward own nom) ops -> reward_owner w = Some own -> reward_nominee w = Some nom ->
  reward_owner (run_ops ops w) = Some own /\ reward_nominee (run_ops ops w) = Some nom.
Proof. exact (outsider_history CReward own nom ops w). Qed.

(** ** disp *)
Theorem disp_ownership_step w o :
  (disp_owner (fst (step w o)) = disp_owner w /\ disp_nominee (fst (step w o)) = disp_nominee w) \/
  reinst CDisp o \/
  (exists x f, o = OTx x A_disp (WDisp DAccept) f /\ disp_nominee w = Some x /\
     disp_owner (fst (step w o)) = Some x /\ disp_nominee (fst (step w o)) = Some x /\
     snd (step w o) = (true, [(x, MWasm A_disp (WDisp DAccept) f)])) \/
  (exists x a f, o = OTx x A_disp (WDisp (DSetOwner a)) f /\ disp_owner w = Some x /\
     disp_owner (fst (step w o)) = Some x /\ disp_nominee (fst (step w o)) = Some a /\
     snd (step w o) = (true, [(x, MWasm A_disp (WDisp (DSetOwner a)) f)])).
Proof. exact (ownership_step CDisp w o). Qed.

Theorem disp_ownership_changes w o :
  (disp_owner (fst (step w o)) <> disp_owner w ->
   reinst CDisp o \/
   exists x f, o = OTx x A_disp (WDisp DAccept) f /\ disp_nominee w = Some x /\
     disp_owner (fst (step w o)) = Some x /\
     snd (step w o) = (true, [(x, MWasm A_disp (WDisp DAccept) f)])) /\
  (disp_nominee (fst (step w o)) <> disp_nominee w ->
   reinst CDisp o \/
   exists x a f, o = OTx x A_disp (WDisp (DSetOwner a)) f /\ disp_owner w = Some x /\
     disp_nominee (fst (step w o)) = Some a /\ disp_owner (fst (step w o)) = Some x /\
     snd (step w o) = (true, [(x, MWasm A_disp (WDisp (DSetOwner a)) f)])).
Proof. exact (ownership_changes CDisp w o). Qed.

Theorem disp_ownership_changes_history ut ops o :
  (disp_owner (run_ops (ops ++ [o]) (empty_world ut)) <> disp_owner (run_ops ops (empty_world ut)) ->
   reinst CDisp o \/
   exists x f, o = OTx x A_disp (WDisp DAccept) f /\
     disp_nominee (run_ops ops (empty_world ut)) = Some x /\
     disp_owner (run_ops (ops ++ [o]) (empty_world ut)) = Some x /\
     snd (step (run_ops ops (empty_world ut)) o) = (true, [(x, MWasm A_disp (WDisp DAccept) f)])) /\
  (disp_nominee (run_ops (ops ++ [o]) (empty_world ut)) <> disp_nominee (run_ops ops (empty_world ut)) ->
   reinst CDisp o \/
   exists x a f, o = OTx x A_disp (WDisp (DSetOwner a)) f /\
     disp_owner (run_ops ops (empty_world ut)) = Some x /\
     disp_nominee (run_ops (ops ++ [o]) (empty_world ut)) = Some a /\
     disp_owner (run_ops (ops ++ [o]) (empty_world ut)) = Some x /\
     snd (step (run_ops ops (empty_world ut)) o) = (true, [(x, MWasm A_disp (WDisp (DSetOwner a)) f)])).
Proof. exact (ownership_changes_history CDisp ut ops o). Qed.

Theorem disp_outsider_tx w x tgt m f own nom :
  disp_owner w = Some own -> disp_nominee w = Some nom -> x <> own -> x <> nom ->
  disp_owner (fst (step w (OTx x tgt m f))) = Some own /\
  disp_nominee (fst (step w (OTx x tgt m f))) = Some nom.
Proof. exact (outsider_tx CDisp w x tgt m f own nom). Qed.

Theorem disp_outsider_history own nom ops w :
  Forall (outsider_op CDisp own nom) ops -> disp_owner w = Some own -> disp_nominee w = Some nom ->
  disp_owner (run_ops ops w) = Some own /\ disp_nominee (run_ops ops w) = Some nom.
Proof. exact (outsider_history CDisp own nom ops w). Qed.

(** ** reg *)
Theorem reg_ownership_step w o :
  (reg_owner (fst (step w o)) = reg_owner w /\ reg_nominee (fst (step w o)) = reg_nominee w) \/
  reinst CReg o \/
  (exists x f, o = OTx x A_reg (WReg GAccept) f /\ reg_nominee w = Some x /\
     reg_owner (fst (step w o)) = Some x /\ reg_nominee (fst (step w o)) = Some x /\
     snd (step w o) = (true, [(x, MWasm A_reg (WReg GAccept) f)])) \/
  (exists x a f, o = OTx x A_reg (WReg (GSetOwner a)) f /\ reg_owner w = Some x /\
     reg_owner (fst (step w o)) = Some x /\ reg_nominee (fst (step w o)) = Some a /\
     snd (step w o) = (true, [(x, MWasm A_reg (WReg (GSetOwner a)) f)])).
Proof. exact (ownership_step CReg w o). Qed.

Theorem reg_ownership_changes w o :
  (reg_owner (fst (step w o)) <> reg_owner w ->
   reinst CReg o \/
   exists x f, o = OTx x A_reg (WReg GAccept) f /\ reg_nominee w = Some x /\
     reg_owner (fst (step w o)) = Some x /\
     snd (step w o) = (true, [(x, MWasm A_reg (WReg GAccept) f)])) /\
  (reg_nominee (fst (step w o)) <> reg_nominee w ->
   reinst CReg o \/
   exists x a f, o = OTx x A_reg (WReg (GSetOwner a)) f /\ reg_owner w = Some x /\
     reg_nominee (fst (step w o)) = Some a /\ reg_owner (fst (step w o)) = Some x /\
     snd (step w o) = (true, [(x, MWasm A_reg (WReg (GSetOwner a)) f)])).
Proof. exact (ownership_changes CReg w o). Qed.

Theorem reg_ownership_changes_history ut ops o :
  (reg_owner (run_ops (ops ++ [o]) (empty_world ut)) <> reg_owner (run_ops ops (empty_world ut)) ->
   reinst CReg o \/
   exists x f, o = OTx x A_reg (WReg GAccept) f /\
     reg_nominee (run_ops ops (empty_world ut)) = Some x /\
     reg_owner (run_ops (ops ++ [o]) (empty_world ut)) = Some x /\
     snd (step (run_ops ops (empty_world ut)) o) = (true, [(x, MWasm A_reg (WReg GAccept) f)])) /\
  (reg_nominee (run_ops (ops ++ [o]) (empty_world ut)) <> reg_nominee (run_ops ops (empty_world ut)) ->
   reinst CReg o \/
   exists x a f, o = OTx x A_reg (WReg (GSetOwner a)) f /\
     reg_owner (run_ops ops (empty_world ut)) = Some x /\
     reg_nominee (run_ops (ops ++ [o]) (empty_world ut)) = Some a /\
     reg_owner (run_ops (ops ++ [o]) (empty_world ut)) = Some x /\
     snd (step (run_ops ops (empty_world ut)) o) = (true, [(x, MWasm A_reg (WReg (GSetOwner a)) f)])).
Proof. exact (ownership_changes_history CReg ut ops o). Qed.

Theorem reg_outsider_tx w x tgt m f own nom :
  reg_owner w = Some own -> reg_nominee w = Some nom -> x <> own -> x <> nom ->
  reg_owner (fst (step w (OTx x tgt m f))) = Some own /\
  reg_nominee (fst (step w (OTx x tgt m f))) = Some nom.
Proof. exact (outsider_tx CReg w x tgt m f own nom). Qed.

Theorem reg_outsider_history own nom ops w :
  Forall (outsider_op CReg own nom) ops -> reg_owner w = Some own -> reg_nominee w = Some nom ->
  reg_owner (run_ops ops w) = Some own /\ reg_nominee (run_ops ops w) = Some nom.
Proof. exact (outsider_history CReg own nom ops w). Qed.

(** * Examples: non-vacuity and witnesses (concrete deployment [genesis_ops] / [world0] of
      Proofs/ExitWorld.v: six wired contracts, owner [A_owner] = 10, alice = 11 holds bSei) *)

(** ** PART 1 *)

(** rewards accrued, then the updater calls UpdateGlobalIndex: the message tree contains four nested
    privileged messages (hub -> dispatcher Swap and Dispatch, dispatcher -> hub BondRewards,
    dispatcher -> reward UpdateGlobalIndex), each sent by its principal *)
Definition ah_world : world :=
  run_ops (genesis_ops ++ [OAccrue 0 usei 90000; OAccrue 1 uusd 5000; OAdvance 10]) (empty_world 100).

Definition ah_trace : list (addr * cmsg) :=
  [(updater, MWasm A_hub (WHub (HUpdateGlobal 0)) []);
   (A_hub, MWithdrawReward 0); (A_hub, MWithdrawReward 1); (A_hub, MWithdrawReward 2);
   (A_hub, MWasm A_disp (WDisp (DSwap 1000000 2000000)) []);
   (A_disp, MWasm A_swap (WSwap (SSwapDenom (usei, 26667) uusd None)) [(usei, 26667)]);
   (A_hub, MWasm A_disp (WDisp DDispatch) []);
   (A_disp, MBank keeper [(uusd, 1583)]); (A_disp, MBank A_reward [(uusd, 30084)]);
   (A_disp, MBank keeper [(usei, 3166)]);
   (A_disp, MWasm A_hub (WHub HBondRewards) [(usei, 60167)]);
   (A_hub, MDelegate 0 (usei, 20056)); (A_hub, MDelegate 1 (usei, 20056));
   (A_hub, MDelegate 2 (usei, 20055));
   (A_disp, MWasm A_reward (WHub (HUpdateGlobal 0)) [])].

Example executed_nonvacuous :
  exists w',
    step (run_ops (genesis_ops ++ [OAccrue 0 usei 90000; OAccrue 1 uusd 5000; OAdvance 10])
                  (empty_world 100))
         (OTx updater A_hub (WHub (HUpdateGlobal 0)) []) = (w', (true, ah_trace)) /\
    ah_trace = firstn 10 ah_trace ++
               (A_disp, MWasm A_hub (WHub HBondRewards) [(usei, 60167)]) :: skipn 11 ah_trace /\
    ah_trace = firstn 14 ah_trace ++ (A_disp, MWasm A_reward (WHub (HUpdateGlobal 0)) []) :: [] /\
    reward_payload (WHub (HUpdateGlobal 0)) RUpdateIndex.
Proof.
  eexists. split; [vm_compute; reflexivity|]. split; [reflexivity|]. split; [reflexivity|].
  right. exists 0. split; reflexivity.
Qed.

(** an unauthorised root is rejected and the world is unchanged: alice tries the hub's owner-only
    UpdateConfig and SetOwner, the dispatcher-only BondRewards, the hub-only cw20 Mint and the
    dispatcher's hub-only DispatchRewards *)
Example unauthorised_nonvacuous :
  (exists h, w_hub world0 = Some h /\
             ~ hub_table h alice (HSetOwner alice) /\ ~ hub_table h alice HBondRewards) /\
  step world0 (OTx alice A_hub (WHub (HSetOwner alice)) []) = (world0, (false, [])) /\
  step world0 (OTx alice A_hub (WHub (HConfig None None None None None None (Some alice))) [])
    = (world0, (false, [])) /\
  step world0 (OTx alice A_hub (WHub HBondRewards) [(usei, 1000)]) = (world0, (false, [])) /\
  step world0 (OTx alice A_bsei (WCw20 (CMint alice 1000)) []) = (world0, (false, [])) /\
  step world0 (OTx alice A_disp (WDisp DDispatch) []) = (world0, (false, [])).
Proof.
  split.
  - destruct (w_hub world0) as [h|] eqn:E; [|vm_compute in E; discriminate].
    exists h. split; [reflexivity|].
    assert (Ec : hc_creator (h_cfg h) = A_owner /\ hc_disp (h_cfg h) = Some A_disp).
    { vm_compute in E. inversion E; subst. split; reflexivity. }
    destruct Ec as [Ec Ed]. cbn [hub_table]. rewrite Ec, Ed. split; intros C; discriminate C.
  - repeat split; vm_compute; reflexivity.
Qed.

(** ** PART 2 *)
Example tokaddr_nonvacuous :
  hub_bsei world0 = Some A_bsei /\ hub_stsei world0 = Some A_stsei /\
  Forall keeps_hub [OTx A_owner A_hub (WHub (HConfig (Some 77) None None None None None None)) [];
                    OAdvance 50; OInstBsei A_owner A_hub []] /\
  (* the owner's attempt to overwrite a set token address is rejected, world unchanged *)
  step world0 (OTx A_owner A_hub (WHub (HConfig None None (Some 77) None None None None)) [])
    = (world0, (false, [])) /\
  (* before the addresses are set they can be set, once *)
  hub_bsei (run_ops (firstn 6 genesis_ops) (empty_world 100)) = None.
Proof.
  split; [vm_compute; reflexivity|]. split; [vm_compute; reflexivity|].
  split; [repeat constructor|]. split; vm_compute; reflexivity.
Qed.

(** the exclusion [keeps_hub] is necessary: re-instantiating the hub forgets the token addresses ... *)
Lemma tokaddr_reinst_witness :
  hub_bsei world0 = Some A_bsei /\
  hub_bsei (fst (step world0 (OInstHub A_owner 30 100 0 D updater usei uusd))) = None.
Proof. split; vm_compute; reflexivity. Qed.

(** ... and in the model even a FAILED [OInstHub] (peg fee above 1) removes the hub (a modelling
    artefact of [Exec.step]: the harness deploys a fresh instance; not a behaviour of the Rust code) *)
Lemma tokaddr_failed_inst_witness :
  step world0 (OInstHub A_owner 30 100 (2 * D) D updater usei uusd)
  = (set_w_hub world0 None, (false, [])).
Proof. vm_compute. reflexivity. Qed.

(** ** PART 3 *)

(** a nomination followed by the nominee's Accept changes the owner of the hub; the ex-owner is
    then an outsider; a nomination that is replaced is abandoned: the first nominee cannot accept *)
Example hub_transfer_nonvacuous :
  let w1 := fst (step world0 (OTx A_owner A_hub (WHub (HSetOwner 42)) [])) in
  let w2 := fst (step w1 (OTx 42 A_hub (WHub HAccept) [])) in
  let w3 := fst (step w1 (OTx A_owner A_hub (WHub (HSetOwner 43)) [])) in
  hub_owner world0 = Some A_owner /\ hub_nominee world0 = Some A_owner /\
  hub_owner w1 = Some A_owner /\ hub_nominee w1 = Some 42 /\
  hub_owner w2 = Some 42 /\ hub_nominee w2 = Some 42 /\
  snd (step w1 (OTx 42 A_hub (WHub HAccept) [])) = (true, [(42, MWasm A_hub (WHub HAccept) [])]) /\
  step w2 (OTx A_owner A_hub (WHub (HSetOwner A_owner)) []) = (w2, (false, [])) /\
  step w2 (OTx A_owner A_hub (WHub HAccept) []) = (w2, (false, [])) /\
  hub_nominee w3 = Some 43 /\
  step w3 (OTx 42 A_hub (WHub HAccept) []) = (w3, (false, [])).
Proof. vm_compute. repeat split; reflexivity. Qed.

Example others_transfer_nonvacuous :
  reward_owner (run_ops [OTx A_owner A_reward (WReward (RSetOwner 42)) [];
                         OTx 42 A_reward (WReward RAccept) []] world0) = Some 42 /\
  disp_owner (run_ops [OTx A_owner A_disp (WDisp (DSetOwner 42)) [];
                       OTx 42 A_disp (WDisp DAccept) []] world0) = Some 42 /\
  reg_owner (run_ops [OTx A_owner A_reg (WReg (GSetOwner 42)) [];
                      OTx 42 A_reg (WReg GAccept) []] world0) = Some 42 /\
  reward_owner world0 = Some A_owner /\ disp_owner world0 = Some A_owner /\
  reg_owner world0 = Some A_owner.
Proof. vm_compute. repeat split; reflexivity. Qed.

(** a non-owner's attempts fail and the world is unchanged, whatever the target *)
Example outsider_nonvacuous :
  hub_owner world0 = Some A_owner /\ hub_nominee world0 = Some A_owner /\
  alice <> A_owner /\
  step world0 (OTx alice A_hub (WHub (HSetOwner alice)) []) = (world0, (false, [])) /\
  step world0 (OTx alice A_hub (WHub HAccept) []) = (world0, (false, [])) /\
  step world0 (OTx alice A_reg (WReg (GSetOwner alice)) []) = (world0, (false, [])) /\
  (* an outsider history that does change the world (alice bonds, time passes, rewards are
     distributed) but not owner / nominee *)
  Forall (outsider_op CHub A_owner A_owner)
         [OTx alice A_hub (WHub HBond) [(usei, 5000)]; OAdvance 10; OAccrue 0 usei 90000;
          OTx updater A_hub (WHub (HUpdateGlobal 0)) []; OInstReward alice A_hub uusd A_swap []] /\
  run_ops [OTx alice A_hub (WHub HBond) [(usei, 5000)]] world0 <> world0.
Proof.
  split; [vm_compute; reflexivity|]. split; [vm_compute; reflexivity|].
  split; [discriminate|].
  split; [vm_compute; reflexivity|]. split; [vm_compute; reflexivity|]. split; [vm_compute; reflexivity|].
  split.
  - repeat constructor; cbn; try discriminate; auto.
  - intros C. apply (f_equal (fun w => option_map tk_supply (w_bsei w))) in C. vm_compute in C. discriminate C.
Qed.
