(** * SyncHist: C06 / C02 (first sentence) at HISTORY level — slashing is recognised exactly by the
    next slashing check, booked stake versus delegated stake along every history.

    Main results (no envelope hypothesis unless stated; [EntWf] holds in every reachable world):
    - [SyncHist_step_P1], [SyncHist_run_split] : until the first pricing hub message of a transaction
        executes, neither pool, nor the hub's coin, nor the hub's delegated total changes; the
        transaction splits at its first pricing message;
    - [SyncHist_first_check]       : in every successful transaction that executes a pricing hub message,
        the FIRST such message runs [slashing] on a hub that still has the pools of the root world, in an
        environment with the delegated total of the root world, and the handler continues from that hub;
    - [SyncHist_synced_of_slashing]: what that check does to the pools ([SyncHist_synced]): loss pending ->
        sum = surviving delegated amount exactly, bSei pool = floor(A * floor(bb*D/T) / D), each pool within
        two base units of its pro-rata share, bSei pool not raised, stSei pool raised by at most one unit;
        no loss pending -> both pools unchanged;
    - [SyncHist_first_check_pools], [SyncHist_check_slashing_tx_pools], [SyncHist_root_check] : the two
        combined, for any transaction / for the explicit CheckSlashing transaction (final world) / for a
        pricing message sent directly to the hub;
    - [SyncHist_tx_no_pricing_frame] : a transaction that executes no pricing hub message changes neither
        pool nor the delegated total;
    - [SyncHist_tx_gap]            : (hub's coin = usei) one successful transaction: the signed gap
        booked - delegated becomes min(gap, 0) if a pricing message executed, and is unchanged otherwise;
    - [SyncHist_gap_exact]         : along EVERY history from the empty world the signed gap is the ghost
        [SyncHist_gfold] (slashing events add the removed stake, pricing transactions cut it to min(g,0),
        a hub (re-)instantiation sets it to -delegated);
    - [SyncHist_unrecognised_exact]: histories in which the hub is instantiated only while nothing is
        delegated ([SyncHist_fresh]): booked = delegated + unrecognised, unrecognised = stake removed by
        slashing events since the last successful pricing transaction ([SyncHist_ufold]);
    - [SyncHist_pricing_tx_exact], [SyncHist_pricing_tx_le], [SyncHist_pricing_tx_eq_iff] : after a
        successful pricing transaction booked = delegated (fresh histories) / booked <= delegated with
        equality iff delegated <= booked held before (all histories);
    - [SyncHist_msg_raise], [SyncHist_run_raise], [SyncHist_step_raise], [SyncHist_history_raise] : the
        booked total rises only by the payments of executed Bond / BondForStSei / BondRewards messages,
        for every operation of the alphabet; [SyncHist_step_no_bond] : no bond message -> never raised;
    - [SyncHist_first_check_op], [SyncHist_pricing_op_exact], [SyncHist_check_writes_off_unrecognised],
      [SyncHist_slash_then_check], [SyncHist_unrecognised_exact_prefix] : the same per operation of a
        history; the explicit CheckSlashing writes off exactly the ghost; the shape "history in sync, one
        slashing event, CheckSlashing"; every visited world (prefixes);
    - in Proofs/SyncHistEx.v: [SyncHist_st_rise_reachable] (the one-unit rise of the stSei pool in a check
        occurs in a reachable world), [SyncHist_reinst_surplus_witness], and the examples [SyncHist_ex_*]
        (a slash recognised by each kind of pricing transaction). *)
From Krp Require Import Tactics Prelude Fixed FMap Types Env Registry Cw20 Reward Dispatcher Hub Exec
     ExecP Hist Inv RegistryP HubFrame HubAdmin BooksEnv BooksHub BooksP SlashP ExitWorld.
From Coq Require Import ZArith.
Open Scope N_scope.

(** ** 1. before the first pricing message of a transaction nothing moves *)

(** [bb], [bst] the pools, [d] the hub's delegated total, [u] the hub's coin — all as in the root world *)
Definition SyncHist_P1 (bb bst d : N) (u : denom) (w : world) (stk : list (addr * cmsg)) : Prop :=
  Phase1 w stk /\ delegated (w_env w) A_hub = d /\
  forall h, w_hub w = Some h ->
    hs_bb (h_state h) = bb /\ hs_bst (h_state h) = bst /\ hp_underlying (h_params h) = u.

Lemma SyncHist_step_P1 bb bst d u w s m rest w' out :
  SyncHist_P1 bb bst d u w ((s, m) :: rest) -> step_msg w s m = Some (w', out) ->
  is_pricing_msg (s, m) = false -> SyncHist_P1 bb bst d u w' (out ++ rest).
Proof.
  intros (HP & Hd & Hh) H Hnp.
  destruct (step_msg_phase1 _ _ _ _ _ _ HP H) as [_ S2]. split; [apply S2; exact Hnp|].
  destruct HP as [[Hwf HE] Hstk]. pose proof (Forall_inv Hstk) as Hhead. cbv beta in Hhead.
  apply step_msg_cases in H.
  destruct H as [funds hm e1 h h' o -> Hsend Hw He -> -> | Hh' Hd' Hout Hst Hnh
                | v c e' -> He -> -> | v c e' -> He -> -> | a b c e' -> He -> ->].
  - apply send_coins_static in Hsend. destruct Hsend as (_ & _ & Hdel & _).
    unfold is_pricing_msg in Hnp. cbn [snd] in Hnp. rewrite N.eqb_refl in Hnp. cbn [andb] in Hnp.
    pose proof (hub_execute_underlying _ _ _ _ _ _ _ _ He) as Hu'.
    pose proof (hub_execute_books _ _ _ _ _ _ _ _ He) as (_ & Q & _).
    destruct (Q Hnp) as (A & B & _). cbn [w_env w_hub set_hub set_env].
    split; [rewrite (delegated_same_del _ _ A_hub Hdel); exact Hd|].
    intros h0 E. inversion E; subst h0. destruct (Hh h Hw) as (X & Y & Z). repeat split; congruence.
  - split; [rewrite (delegated_same_del _ _ A_hub Hd'); exact Hd|]. intros h E. rewrite Hh' in E. auto.
  - cbn [w_env w_hub set_env]. split; [|exact Hh].
    unfold hub_du in Hhead. cbn [fst snd is_du] in Hhead. rewrite andb_true_r in Hhead.
    apply N.eqb_neq in Hhead. apply delegate_effect in He.
    destruct He as (_ & _ & _ & _ & _ & _ & _ & Hoth & _). rewrite Hoth by congruence. exact Hd.
  - cbn [w_env w_hub set_env]. split; [|exact Hh].
    unfold hub_du in Hhead. cbn [fst snd is_du] in Hhead. rewrite andb_true_r in Hhead.
    apply N.eqb_neq in Hhead. apply undelegate_effect in He; [|exact Hwf].
    destruct He as (_ & _ & _ & _ & _ & _ & Hoth & _). rewrite Hoth by congruence. exact Hd.
  - cbn [w_env w_hub set_env]. split; [|exact Hh].
    apply redelegate_effect in He; [|exact Hwf].
    destruct He as (_ & _ & _ & _ & _ & Hsame & _ & _ & _ & Hoth & _).
    destruct (N.eq_dec s A_hub) as [->|Hne]; [rewrite Hsame; exact Hd|].
    rewrite Hoth by congruence. exact Hd.
Qed.

(** a successful [run] from a [SyncHist_P1] state either executes no pricing message (and ends in
    [SyncHist_P1]) or splits at the first one *)
Lemma SyncHist_run_split bb bst d u : forall fuel w stk tr w' tr',
  run fuel w stk tr = Some (w', tr') -> SyncHist_P1 bb bst d u w stk ->
  exists ex, tr' = tr ++ ex /\
    ((existsb is_pricing_msg ex = false /\ SyncHist_P1 bb bst d u w' []) \/
     (exists pre s m post w2 rest2 w3 out f2 trx,
        ex = pre ++ (s, m) :: post /\ existsb is_pricing_msg pre = false /\
        is_pricing_msg (s, m) = true /\
        SyncHist_P1 bb bst d u w2 ((s, m) :: rest2) /\ step_msg w2 s m = Some (w3, out) /\
        run f2 w3 (out ++ rest2) trx = Some (w', tr'))).
Proof.
  induction fuel as [|f IH]; intros w stk tr w' tr' H HP.
  - destruct stk as [|[s m] rest]; cbn [run] in H; [|discriminate]. inversion H; subst.
    exists []. rewrite app_nil_r. split; [reflexivity|]. left. split; [reflexivity|exact HP].
  - destruct stk as [|[s m] rest]; cbn [run] in H.
    + inversion H; subst. exists []. rewrite app_nil_r. split; [reflexivity|]. left. split; [reflexivity|exact HP].
    + bind_inv H as r Hr. destruct r as [w1 out]. cbn [fst snd] in H.
      destruct (is_pricing_msg (s, m)) eqn:Ep.
      * destruct (run_trace_app _ _ _ _ _ _ H) as (ex1 & ->). exists ((s, m) :: ex1).
        split; [rewrite <- app_assoc; reflexivity|]. right.
        exists [], s, m, ex1, w, rest, w1, out, f, (tr ++ [(s, m)]).
        split; [reflexivity|]. split; [reflexivity|]. split; [exact Ep|]. split; [exact HP|].
        split; [exact Hr|exact H].
      * pose proof (SyncHist_step_P1 _ _ _ _ _ _ _ _ _ _ HP Hr Ep) as HP1.
        destruct (IH _ _ _ _ _ H HP1) as (ex1 & -> & Hcase). exists ((s, m) :: ex1).
        split; [rewrite <- app_assoc; reflexivity|].
        destruct Hcase as [(E1 & P1)|(pre & s0 & m0 & post & w2 & rest2 & w3 & out3 & f2 & trx & E1 & E2 & E3 & E4 & E5 & E6)].
        -- left. cbn [existsb]. rewrite Ep, E1. split; [reflexivity|exact P1].
        -- right. exists ((s, m) :: pre), s0, m0, post, w2, rest2, w3, out3, f2, trx.
           split; [rewrite E1; reflexivity|]. split; [cbn [existsb]; rewrite Ep, E2; reflexivity|].
           split; [exact E3|]. split; [exact E4|]. split; [exact E5|exact E6].
Qed.

Lemma SyncHist_root_P1 w sender target m funds h :
  EntWf w -> w_hub w = Some h ->
  SyncHist_P1 (hs_bb (h_state h)) (hs_bst (h_state h)) (delegated (w_env w) A_hub)
              (hp_underlying (h_params h)) w [(sender, MWasm target m funds)].
Proof.
  intros HE Hh. split; [apply root_phase1; exact HE|]. split; [reflexivity|].
  intros h0 E. rewrite Hh in E. inversion E; subst h0. auto.
Qed.

Lemma SyncHist_pricing_is m : pricing_msg m = is_pricing m.
Proof. destruct m; try reflexivity. Qed.

Lemma SyncHist_pricing_msg_inv s m :
  is_pricing_msg (s, m) = true -> exists hm f, m = MWasm A_hub (WHub hm) f /\ is_pricing hm = true.
Proof.
  unfold is_pricing_msg. cbn [snd]. destruct m as [to [hm| | | | | |] f| | | | | |]; try discriminate.
  intros H. apply andb_true_iff in H. destruct H as [H1 H2]. apply N.eqb_eq in H1. subst to. eauto.
Qed.

(** a transaction that executes no pricing hub message changes neither pool nor the delegated total *)
Theorem SyncHist_tx_no_pricing_frame w sender target m funds w' tr h :
  EntWf w -> w_hub w = Some h ->
  run tx_fuel w [(sender, MWasm target m funds)] [] = Some (w', tr) ->
  existsb is_pricing_msg tr = false ->
  delegated (w_env w') A_hub = delegated (w_env w) A_hub /\
  forall h', w_hub w' = Some h' ->
    hs_bb (h_state h') = hs_bb (h_state h) /\ hs_bst (h_state h') = hs_bst (h_state h) /\
    hp_underlying (h_params h') = hp_underlying (h_params h).
Proof.
  intros HE Hh H Hnp.
  destruct (SyncHist_run_split _ _ _ _ _ _ _ _ _ _ H (SyncHist_root_P1 w sender target m funds h HE Hh))
    as (ex & E & Hcase). cbn [app] in E. subst ex.
  destruct Hcase as [(_ & (_ & Hd & Hp))|(pre & s0 & m0 & post & w2 & rest2 & w3 & out3 & f2 & trx & E1 & E2 & E3 & _)].
  - split; [exact Hd|exact Hp].
  - exfalso. rewrite E1, existsb_app in Hnp. cbn [existsb] in Hnp. rewrite E3 in Hnp.
    rewrite orb_true_r in Hnp. cbn [orb] in Hnp. discriminate.
Qed.

(** ** 2. the first slashing check of a transaction works on the root world's pools and delegations *)
Theorem SyncHist_first_check w sender target m funds w' tr h :
  EntWf w -> w_hub w = Some h ->
  run tx_fuel w [(sender, MWasm target m funds)] [] = Some (w', tr) ->
  existsb is_pricing_msg tr = true ->
  exists pre s hm f post w2 h2 e1 h1 r,
    tr = pre ++ (s, MWasm A_hub (WHub hm) f) :: post /\
    existsb is_pricing_msg pre = false /\ is_pricing hm = true /\
    EntWf w2 /\ w_hub w2 = Some h2 /\
    hs_bb (h_state h2) = hs_bb (h_state h) /\ hs_bst (h_state h2) = hs_bst (h_state h) /\
    hp_underlying (h_params h2) = hp_underlying (h_params h) /\
    send_coins (w_env w2) s A_hub f = Some e1 /\
    delegated e1 A_hub = delegated (w_env w) A_hub /\
    slashing (set_env w2 e1) A_hub h2 = Some h1 /\
    hub_execute (set_env w2 e1) h2 A_hub s f hm = Some r /\
    hub_execute (set_env w2 e1) h1 A_hub s f hm = Some r.
Proof.
  intros HE Hh H Hp.
  destruct (SyncHist_run_split _ _ _ _ _ _ _ _ _ _ H (SyncHist_root_P1 w sender target m funds h HE Hh))
    as (ex & E & Hcase). cbn [app] in E. subst ex.
  destruct Hcase as [(Hnp & _)|(pre & s0 & m0 & post & w2 & rest2 & w3 & out3 & f2 & trx & E1 & E2 & E3 & E4 & E5 & _)];
    [rewrite Hp in Hnp; discriminate|].
  destruct (SyncHist_pricing_msg_inv _ _ E3) as (hm & f & -> & Hpr).
  destruct E4 as ((HE2 & _) & Hd2 & Hp2).
  apply step_msg_cases in E5.
  destruct E5 as [funds0 hm0 e1 h2 h' o Em Hsend Hw He -> -> | _ _ _ _ Hnh
                 | v c e' Em _ _ _ | v c e' Em _ _ _ | a b c e' Em _ _ _]; try discriminate Em.
  2:{ exfalso. eapply Hnh. reflexivity. }
  inversion Em; subst hm0 funds0. clear Em.
  destruct (Hp2 h2 Hw) as (X & Y & Z).
  pose proof (send_coins_static _ _ _ _ _ Hsend) as (_ & _ & Hdel & _).
  destruct (sync_in_every_pricing_msg (set_env w2 e1) A_hub s0 f hm h2) as [S1 _];
    [rewrite SyncHist_pricing_is; exact Hpr|].
  destruct (S1 _ He) as (h1 & Hs1 & He1).
  exists pre, s0, hm, f, post, w2, h2, e1, h1, (h', o).
  split; [exact E1|]. split; [exact E2|]. split; [exact Hpr|]. split; [exact HE2|]. split; [exact Hw|].
  split; [exact X|]. split; [exact Y|]. split; [exact Z|]. split; [exact Hsend|].
  split; [rewrite (delegated_same_del _ _ A_hub Hdel); exact Hd2|].
  split; [exact Hs1|]. split; [exact He|exact He1].
Qed.

(** ** 3. what the check does to the pools *)

(** [A] the hub's delegated total, [bb] / [bst] the pools before the check, [s1] the hub state the
    check produces.  Loss pending (A < bb + bst): the new pools sum to A exactly; the bSei pool is
    floor(A * floor(bb * 1e18 / (bb + bst)) / 1e18), the stSei pool the rest; the bSei pool is not
    raised; within E1 (A <= LIM) each pool is within two base units of its exact pro-rata share
    (integer form: x*T <= A*b < (x+2)*T) and the stSei pool rises by at most one base unit.
    No loss pending: both pools unchanged. *)
Definition SyncHist_synced (A bb bst : N) (s1 : hub_state) : Prop :=
  (A < bb + bst ->
     hs_bb s1 + hs_bst s1 = A /\
     hs_bb s1 = A * (bb * D / (bb + bst)) / D /\ hs_bst s1 = A - hs_bb s1 /\
     hs_bb s1 <= bb /\
     (A <= LIM ->
        (hs_bb s1 * (bb + bst) <= A * bb /\ A * bb < (hs_bb s1 + 2) * (bb + bst)) /\
        (A * bst <= hs_bst s1 * (bb + bst) /\ hs_bst s1 * (bb + bst) < A * bst + 2 * (bb + bst)) /\
        hs_bst s1 <= bst + 1)) /\
  (bb + bst <= A -> hs_bb s1 = bb /\ hs_bst s1 = bst).

Lemma SyncHist_synced_of_slashing w self h h1 :
  slashing w self h = Some h1 -> hp_underlying (h_params h) = usei ->
  (booked h = 0 \/ all_delegations (w_env w) self <> []) ->
  SyncHist_synced (delegated (w_env w) self) (hs_bb (h_state h)) (hs_bst (h_state h)) (h_state h1).
Proof.
  unfold slashing. intros H Hu He. bind_inv H as s1 Hq. inversion H; subst h1. clear H.
  cbn [h_state set_h_state]. split.
  - intros Hlt. fold (booked h) in Hlt.
    assert (Had : all_delegations (w_env w) self <> []) by (destruct He as [He|He]; [lia|exact He]).
    pose proof (sync_exact _ _ _ _ Hq Hu Had Hlt) as X. cbv zeta in X.
    destruct X as (X1 & X2 & X3 & _).
    pose proof (sync_never_raises _ _ _ _ Hq Hu) as (_ & R2 & R3 & _).
    split; [exact X1|]. split; [exact X2|]. split; [exact X3|]. split; [exact R2|].
    intros HL. pose proof (sync_prorata _ _ _ _ Hq Hu Had Hlt HL) as P. cbv zeta in P.
    destruct P as (P1 & P2 & _). split; [exact P1|]. split; [exact P2|]. apply R3. exact HL.
  - intros Hle. fold (booked h) in Hle.
    pose proof (sync_noop _ _ _ _ Hq Hu Hle) as (N1 & N2 & _). split; assumption.
Qed.

(** ... hence: the first check of ANY successful transaction that executes one *)
Theorem SyncHist_first_check_pools w sender target m funds w' tr h :
  EntWf w -> w_hub w = Some h -> hp_underlying (h_params h) = usei ->
  run tx_fuel w [(sender, MWasm target m funds)] [] = Some (w', tr) ->
  existsb is_pricing_msg tr = true ->
  exists pre s hm f post w2 h2 e1 h1 r,
    tr = pre ++ (s, MWasm A_hub (WHub hm) f) :: post /\
    existsb is_pricing_msg pre = false /\ is_pricing hm = true /\
    w_hub w2 = Some h2 /\ send_coins (w_env w2) s A_hub f = Some e1 /\
    slashing (set_env w2 e1) A_hub h2 = Some h1 /\
    hub_execute (set_env w2 e1) h2 A_hub s f hm = Some r /\
    hub_execute (set_env w2 e1) h1 A_hub s f hm = Some r /\
    SyncHist_synced (delegated (w_env w) A_hub) (hs_bb (h_state h)) (hs_bst (h_state h)) (h_state h1).
Proof.
  intros HE Hh Hu H Hp.
  destruct (SyncHist_first_check _ _ _ _ _ _ _ _ HE Hh H Hp)
    as (pre & s & hm & f & post & w2 & h2 & e1 & h1 & r & T1 & T2 & T3 & T4 & T5 & T6 & T7 & T8 & T9 & T10 & T11 & T12 & T13).
  exists pre, s, hm, f, post, w2, h2, e1, h1, r.
  split; [exact T1|]. split; [exact T2|]. split; [exact T3|]. split; [exact T5|]. split; [exact T9|].
  split; [exact T11|]. split; [exact T12|]. split; [exact T13|].
  pose proof (send_coins_static _ _ _ _ _ T9) as (_ & _ & Hdel & _).
  assert (Hsy := SyncHist_synced_of_slashing (set_env w2 e1) A_hub h2 h1 T11).
  cbn [w_env set_env] in Hsy. rewrite T10, T6, T7 in Hsy. apply Hsy; [congruence|].
  rewrite (all_delegations_same_del _ _ A_hub Hdel). destruct T4 as [_ HEnt]. apply HEnt. exact T5.
Qed.

(** a pricing message sent directly to the hub (Bond, BondForStSei, BondRewards, CheckSlashing): the
    check runs in the root world itself, after the funds have been moved *)
Theorem SyncHist_root_check w sender hm funds w' tr h :
  EntWf w -> w_hub w = Some h -> hp_underlying (h_params h) = usei -> is_pricing hm = true ->
  run tx_fuel w [(sender, MWasm A_hub (WHub hm) funds)] [] = Some (w', tr) ->
  exists e1 h1 r,
    send_coins (w_env w) sender A_hub funds = Some e1 /\
    slashing (set_env w e1) A_hub h = Some h1 /\
    hub_execute (set_env w e1) h A_hub sender funds hm = Some r /\
    hub_execute (set_env w e1) h1 A_hub sender funds hm = Some r /\
    SyncHist_synced (delegated (w_env w) A_hub) (hs_bb (h_state h)) (hs_bst (h_state h)) (h_state h1).
Proof.
  intros [Hwf HEnt] Hh Hu Hpr H.
  destruct tx_fuel_S as [f Ef]. rewrite Ef, run_S in H. bind_inv H as r0 Hr. destruct r0 as [w1 out].
  apply step_msg_cases in Hr.
  destruct Hr as [funds0 hm0 e1 h2 h' o Em Hsend Hw He -> -> | _ _ _ _ Hnh
                 | v c e' Em _ _ _ | v c e' Em _ _ _ | a b c e' Em _ _ _]; try discriminate Em.
  2:{ exfalso. eapply Hnh. reflexivity. }
  inversion Em; subst hm0 funds0. clear Em. rewrite Hh in Hw. inversion Hw; subst h2. clear Hw.
  pose proof (send_coins_static _ _ _ _ _ Hsend) as (_ & _ & Hdel & _).
  destruct (sync_in_every_pricing_msg (set_env w e1) A_hub sender funds hm h) as [S1 _];
    [rewrite SyncHist_pricing_is; exact Hpr|].
  destruct (S1 _ He) as (h1 & Hs1 & He1).
  exists e1, h1, (h', o). split; [exact Hsend|]. split; [exact Hs1|]. split; [exact He|]. split; [exact He1|].
  assert (Hsy := SyncHist_synced_of_slashing (set_env w e1) A_hub h h1 Hs1 Hu).
  cbn [w_env set_env] in Hsy. rewrite (delegated_same_del _ _ A_hub Hdel) in Hsy. apply Hsy.
  rewrite (all_delegations_same_del _ _ A_hub Hdel). apply HEnt. exact Hh.
Qed.

(** the explicit CheckSlashing transaction: the FINAL world has the synchronised pools, nothing else
    of the hub's pools or of the environment changes *)
Theorem SyncHist_check_slashing_tx_pools w sender w' tr h :
  EntWf w -> w_hub w = Some h -> hp_underlying (h_params h) = usei ->
  step w (OTx sender A_hub (WHub HCheckSlashing) []) = (w', (true, tr)) ->
  exists h', w_hub w' = Some h' /\ w_env w' = w_env w /\ slashing w A_hub h = Some h' /\
    SyncHist_synced (delegated (w_env w) A_hub) (hs_bb (h_state h)) (hs_bst (h_state h)) (h_state h') /\
    (delegated (w_env w) A_hub < booked h -> booked h' = delegated (w_env w') A_hub) /\
    (booked h <= delegated (w_env w) A_hub -> booked h' = booked h).
Proof.
  intros [Hwf HEnt] Hh Hu H. apply check_slashing_tx_inv in H.
  destruct H as (h0 & h1 & Hh0 & _ & Hs & -> & Henv). rewrite Hh in Hh0. inversion Hh0; subst h0. clear Hh0.
  exists h1. split; [reflexivity|]. split; [exact Henv|]. split; [exact Hs|].
  pose proof (SyncHist_synced_of_slashing w A_hub h h1 Hs Hu (HEnt h Hh)) as Hsy.
  split; [exact Hsy|]. destruct Hsy as [S1 S2]. cbn [w_env set_hub]. unfold booked in *. split.
  - intros Hlt. destruct (S1 Hlt) as (X & _). exact X.
  - intros Hle. destruct (S2 Hle) as (X & Y). lia.
Qed.

(** ** 4. the signed gap booked - delegated: one transaction *)

(** the hub, once it exists, keeps existing and keeps its coin through every executed message *)
Definition SyncHist_coin (w : world) : option denom :=
  option_map (fun h => hp_underlying (h_params h)) (w_hub w).

Lemma SyncHist_step_coin w s m w' out :
  step_msg w s m = Some (w', out) -> SyncHist_coin w' = SyncHist_coin w.
Proof.
  intros H. apply step_msg_cases in H. unfold SyncHist_coin.
  destruct H as [funds hm e1 h h' o -> Hsend Hw He -> -> | Hh' _ _ _ _
                | v c e' -> He -> -> | v c e' -> He -> -> | a b c e' -> He -> ->];
    try reflexivity.
  - cbn [w_hub set_hub]. rewrite Hw. cbn [option_map].
    rewrite (hub_execute_underlying _ _ _ _ _ _ _ _ He). reflexivity.
  - rewrite Hh'. reflexivity.
Qed.

Lemma SyncHist_run_coin fuel w stk tr w' tr' :
  run fuel w stk tr = Some (w', tr') -> SyncHist_coin w' = SyncHist_coin w.
Proof.
  intros H. apply (run_preserves (fun x => SyncHist_coin x = SyncHist_coin w)) with (1 := fun w0 s m w1 out HI Hs =>
    eq_trans (SyncHist_step_coin _ _ _ _ _ Hs) HI) (3 := H). reflexivity.
Qed.

Lemma SyncHist_coin_some w h : w_hub w = Some h -> SyncHist_coin w = Some (hp_underlying (h_params h)).
Proof. unfold SyncHist_coin. intros ->. reflexivity. Qed.

Lemma SyncHist_coin_inv w u : SyncHist_coin w = Some u -> exists h, w_hub w = Some h /\ hp_underlying (h_params h) = u.
Proof.
  unfold SyncHist_coin. destruct (w_hub w) as [h|]; cbn [option_map]; [|discriminate].
  intros E. inversion E. eauto.
Qed.

Definition SyncHist_gapZ (w : world) (h : hub) : Z :=
  (Z.of_N (booked h) - Z.of_N (delegated (w_env w) A_hub))%Z.

(** (hub's coin = usei) a successful transaction that executes a pricing hub message cuts the gap to
    min(gap, 0): a pending loss (gap > 0) is recognised in full, a surplus (gap < 0) stays; a
    transaction that executes none leaves the gap as it is *)
Theorem SyncHist_tx_gap w sender target m funds w' tr h h' :
  EntWf w -> w_hub w = Some h -> hp_underlying (h_params h) = usei ->
  run tx_fuel w [(sender, MWasm target m funds)] [] = Some (w', tr) -> w_hub w' = Some h' ->
  hp_underlying (h_params h') = usei /\
  SyncHist_gapZ w' h' =
    if existsb is_pricing_msg tr then Z.min (SyncHist_gapZ w h) 0 else SyncHist_gapZ w h.
Proof.
  intros HE Hh Hu H Hh'.
  assert (Hu' : hp_underlying (h_params h') = usei).
  { pose proof (SyncHist_run_coin _ _ _ _ _ _ H) as Hc.
    rewrite (SyncHist_coin_some _ _ Hh), (SyncHist_coin_some _ _ Hh') in Hc. congruence. }
  split; [exact Hu'|]. unfold SyncHist_gapZ.
  destruct (N.le_gt_cases (booked h) (delegated (w_env w) A_hub)) as [Hle|Hgt].
  - (* within Books: the gap is kept, and it is <= 0 *)
    destruct HE as [Hwf _].
    destruct (tx_gap_preserved _ _ _ _ _ _ _ _ _ Hwf Hh Hu Hle H Hh') as [G1 G2].
    destruct (existsb is_pricing_msg tr); lia.
  - (* a loss is pending *)
    assert (HN : NoSurplus w).
    { destruct HE as [Hwf _]. split; [exact Hwf|]. intros h0 E. rewrite Hh in E. inversion E; subst h0.
      split; [exact Hu|lia]. }
    destruct (existsb is_pricing_msg tr) eqn:Ep.
    + pose proof (tx_books_exact_after_pricing _ _ _ _ _ _ _ _ HE HN H Ep Hh') as Heq. lia.
    + destruct (SyncHist_tx_no_pricing_frame _ _ _ _ _ _ _ _ HE Hh H Ep) as [Fd Fp].
      destruct (Fp h' Hh') as (F1 & F2 & _). unfold booked. rewrite Fd, F1, F2. reflexivity.
Qed.

(** ** 5. the ghost along histories *)

(** the hub's coin is the staking coin whenever a hub is instantiated (E4) *)
Definition SyncHist_usei_op (o : op) : Prop :=
  match o with OInstHub _ _ _ _ _ _ und _ => und = usei | _ => True end.

(** did the operation execute a pricing hub message (always false for failed transactions and for
    operations that are not transactions: their trace is empty) *)
Definition SyncHist_priced (w : world) (o : op) : bool :=
  existsb is_pricing_msg (snd (snd (step w o))).

(** stake removed from the hub's delegations by the operation (non-zero only for slashing events) *)
Definition SyncHist_removed (w : world) (o : op) : N :=
  delegated (w_env w) A_hub - delegated (w_env (fst (step w o))) A_hub.

Definition SyncHist_gstep (w : world) (o : op) (g : Z) : Z :=
  match o with
  | OReset _ => 0%Z
  | OInstHub _ _ _ _ _ _ _ _ => (- Z.of_N (delegated (w_env w) A_hub))%Z
  | OSlash _ _ _ _ => (g + Z.of_N (SyncHist_removed w o))%Z
  | OTx _ _ _ _ => if SyncHist_priced w o then Z.min g 0 else g
  | _ => g
  end.

Fixpoint SyncHist_gfold (ops : list op) (w : world) (g : Z) : Z :=
  match ops with
  | [] => g
  | o :: r => SyncHist_gfold r (fst (step w o)) (SyncHist_gstep w o g)
  end.

Definition SyncHist_GI (w : world) (g : Z) : Prop :=
  EntWf w /\ forall h, w_hub w = Some h -> hp_underlying (h_params h) = usei /\ SyncHist_gapZ w h = g.

Lemma SyncHist_GI_env w e g :
  EntWf (set_env w e) -> e_del e = e_del (w_env w) -> SyncHist_GI w g -> SyncHist_GI (set_env w e) g.
Proof.
  intros HE Hd [_ HG]. split; [exact HE|]. cbn [w_hub set_env]. intros h Hh.
  destruct (HG h Hh) as [A B]. split; [exact A|]. unfold SyncHist_gapZ in *. cbn [w_env set_env].
  rewrite (delegated_same_del _ _ A_hub Hd). exact B.
Qed.

Lemma SyncHist_gstep_inv w o g :
  SyncHist_usei_op o -> SyncHist_GI w g -> SyncHist_GI (fst (step w o)) (SyncHist_gstep w o g).
Proof.
  intros Hop HG. pose proof HG as [HE HGh]. pose proof (step_entwf w o HE) as HE'.
  destruct o; cbn [SyncHist_gstep].
  - (* reset *) split; [exact HE'|]. cbn [step fst]. intros h Hh. discriminate Hh.
  - (* advance *) cbn [step] in *. destruct (e_now (w_env w) + dt <=? 18446744073); cbn [fst] in *; [|exact HG].
    apply SyncHist_GI_env; [exact HE'|apply ev_advance_del|exact HG].
  - (* slash *) unfold SyncHist_removed. cbn [step] in *.
    destruct (ev_slash (w_env w) v num den unb) as [e'|] eqn:Es; cbn [fst] in *.
    + split; [exact HE'|]. cbn [w_hub w_env set_env]. intros h Hh. destruct (HGh h Hh) as [A B].
      split; [exact A|]. apply slash_effect in Es. destruct Es as (_ & _ & Hle & _). specialize (Hle A_hub).
      unfold SyncHist_gapZ in *. cbn [w_env set_env]. lia.
    + split; [exact HE|]. intros h Hh. destruct (HGh h Hh) as [A B]. split; [exact A|]. lia.
  - (* accrue *) cbn [step] in *. destruct (ev_accrue (w_env w) A_hub v d a) as [e'|] eqn:Ea; cbn [fst] in *; [|exact HG].
    apply SyncHist_GI_env; [exact HE'|eapply ev_accrue_del; exact Ea|exact HG].
  - (* gift *) cbn [step fst] in *. apply SyncHist_GI_env; [exact HE'|reflexivity|exact HG].
  - (* price *) cbn [step] in *. destruct (p =? 0); cbn [fst] in *; [exact HG|].
    apply SyncHist_GI_env; [exact HE'|reflexivity|exact HG].
  - cbn [step fst] in *. apply SyncHist_GI_env; [exact HE'|reflexivity|exact HG].
  - cbn [step fst] in *. apply SyncHist_GI_env; [exact HE'|reflexivity|exact HG].
  - cbn [step fst] in *. apply SyncHist_GI_env; [exact HE'|reflexivity|exact HG].
  - (* legacy wait *) cbn [step] in *. destruct (w_hub w) as [h|] eqn:Hh; cbn [fst] in *; [|exact HG].
    split; [exact HE'|]. cbn [w_hub set_hub]. intros h0 E. inversion E; subst h0. destruct (HGh h eq_refl) as [A B].
    split; [exact A|exact B].
  - (* instantiate hub *) cbn [step fst] in *. split; [exact HE'|]. cbn [w_hub set_w_hub]. intros h Hh.
    cbn [SyncHist_usei_op] in Hop. unfold hub_instantiate in Hh. check_inv Hh as Hf. inversion Hh; subst h.
    split; [exact Hop|]. unfold SyncHist_gapZ, booked. cbn. lia.
  - cbn [step fst] in *. split; [exact HE'|exact HGh].
  - cbn [step fst] in *. split; [exact HE'|exact HGh].
  - cbn [step fst] in *. split; [exact HE'|exact HGh].
  - cbn [step fst] in *. split; [exact HE'|exact HGh].
  - cbn [step fst] in *. split; [exact HE'|exact HGh].
  - (* transaction *) unfold SyncHist_priced. cbn [step] in *.
    destruct (run tx_fuel w [(sender, MWasm target m funds)] []) as [[w1 tr1]|] eqn:E; cbn [fst snd] in *;
      [|exact HG].
    split; [exact HE'|]. intros h' Hh'.
    pose proof (SyncHist_run_coin _ _ _ _ _ _ E) as Hc. rewrite (SyncHist_coin_some _ _ Hh') in Hc.
    symmetry in Hc. apply SyncHist_coin_inv in Hc. destruct Hc as (h & Hh & _).
    destruct (HGh h Hh) as [A B].
    destruct (SyncHist_tx_gap _ _ _ _ _ _ _ _ _ HE Hh A E Hh') as [A' B']. split; [exact A'|].
    rewrite B', B. reflexivity.
Qed.

Lemma SyncHist_gfold_inv : forall ops w g,
  Forall SyncHist_usei_op ops -> SyncHist_GI w g ->
  SyncHist_GI (run_ops ops w) (SyncHist_gfold ops w g).
Proof.
  unfold run_ops. induction ops as [|o ops IH]; intros w g Hops HG; cbn [fold_left SyncHist_gfold]; [exact HG|].
  inversion Hops as [|? ? Ho Hr]; subst. apply IH; [exact Hr|]. apply SyncHist_gstep_inv; assumption.
Qed.

Lemma SyncHist_GI_empty ut g : SyncHist_GI (empty_world ut) g.
Proof.
  split; [|intros h Hh; discriminate Hh]. split; [apply DelWf_empty|]. intros h Hh. discriminate Hh.
Qed.

(** EQUALITY INVARIANT, general form: in every world reached by a history (whose hub instantiations use
    the staking coin) the signed gap booked - delegated is exactly the ghost *)
Theorem SyncHist_gap_exact ut ops :
  Forall SyncHist_usei_op ops ->
  let w := run_ops ops (empty_world ut) in
  forall h, w_hub w = Some h ->
    hp_underlying (h_params h) = usei /\
    (Z.of_N (booked h) - Z.of_N (delegated (w_env w) A_hub))%Z = SyncHist_gfold ops (empty_world ut) 0.
Proof.
  intros Hops w h Hh.
  destruct (SyncHist_gfold_inv ops (empty_world ut) 0%Z Hops (SyncHist_GI_empty ut 0%Z)) as [_ HG].
  exact (HG h Hh).
Qed.

(** ** 6. histories in which the hub is instantiated only while nothing is delegated: the gap is the
    unrecognised slashing loss *)
Definition SyncHist_fresh_op (w : world) (o : op) : Prop :=
  match o with
  | OInstHub _ _ _ _ _ _ und _ => und = usei /\ delegated (w_env w) A_hub = 0
  | _ => True
  end.

Fixpoint SyncHist_fresh (ops : list op) (w : world) : Prop :=
  match ops with
  | [] => True
  | o :: r => SyncHist_fresh_op w o /\ SyncHist_fresh r (fst (step w o))
  end.

(** [unrecognised]: every slashing event adds the stake it removes from the hub's delegations; every
    successful transaction that executed a pricing hub message, OReset and OInstHub restart it at 0 *)
Definition SyncHist_ustep (w : world) (o : op) (u : N) : N :=
  match o with
  | OReset _ => 0
  | OInstHub _ _ _ _ _ _ _ _ => 0
  | OSlash _ _ _ _ => u + SyncHist_removed w o
  | OTx _ _ _ _ => if SyncHist_priced w o then 0 else u
  | _ => u
  end.

Fixpoint SyncHist_ufold (ops : list op) (w : world) (u : N) : N :=
  match ops with
  | [] => u
  | o :: r => SyncHist_ufold r (fst (step w o)) (SyncHist_ustep w o u)
  end.

Lemma SyncHist_fresh_usei ops : forall w, SyncHist_fresh ops w -> Forall SyncHist_usei_op ops.
Proof.
  induction ops as [|o ops IH]; intros w H; [constructor|]. cbn [SyncHist_fresh] in H. destruct H as [Ho Hr].
  constructor; [|eapply IH; exact Hr]. destruct o; cbn [SyncHist_fresh_op SyncHist_usei_op] in *; tauto.
Qed.

Lemma SyncHist_gfold_ufold ops : forall w u,
  SyncHist_fresh ops w -> SyncHist_gfold ops w (Z.of_N u) = Z.of_N (SyncHist_ufold ops w u).
Proof.
  induction ops as [|o ops IH]; intros w u H; cbn [SyncHist_gfold SyncHist_ufold]; [reflexivity|].
  cbn [SyncHist_fresh] in H. destruct H as [Ho Hr].
  assert (E : SyncHist_gstep w o (Z.of_N u) = Z.of_N (SyncHist_ustep w o u)).
  { destruct o; cbn [SyncHist_gstep SyncHist_ustep]; try reflexivity.
    - lia.
    - cbn [SyncHist_fresh_op] in Ho. destruct Ho as [_ ->]. reflexivity.
    - destruct (SyncHist_priced w (OTx sender target m funds)); lia. }
  rewrite E. apply IH. exact Hr.
Qed.

(** EQUALITY INVARIANT: booked = delegated + unrecognised in every visited world; in particular
    delegated <= booked, with equality exactly when no slashing loss is waiting for a check *)
Theorem SyncHist_unrecognised_exact ut ops :
  SyncHist_fresh ops (empty_world ut) ->
  let w := run_ops ops (empty_world ut) in
  forall h, w_hub w = Some h ->
    hp_underlying (h_params h) = usei /\
    booked h = delegated (w_env w) A_hub + SyncHist_ufold ops (empty_world ut) 0.
Proof.
  intros Hf w h Hh.
  destruct (SyncHist_gap_exact ut ops (SyncHist_fresh_usei _ _ Hf) h Hh) as [A B].
  split; [exact A|]. change 0%Z with (Z.of_N 0) in B. rewrite (SyncHist_gfold_ufold ops _ 0 Hf) in B. fold w in B. lia.
Qed.

Lemma SyncHist_fresh_nosurplus ut ops :
  SyncHist_fresh ops (empty_world ut) -> NoSurplus (run_ops ops (empty_world ut)).
Proof.
  intros Hf. split; [apply (EntWf_reachable ut ops)|]. intros h Hh.
  destruct (SyncHist_unrecognised_exact ut ops Hf h Hh) as [A B]. split; [exact A|lia].
Qed.

(** MAIN COROLLARY (fresh histories): after every successful transaction that executed the slashing
    check, booked = delegated exactly *)
Theorem SyncHist_pricing_tx_exact ut ops sender target m funds w' tr h' :
  SyncHist_fresh ops (empty_world ut) ->
  run tx_fuel (run_ops ops (empty_world ut)) [(sender, MWasm target m funds)] [] = Some (w', tr) ->
  existsb is_pricing_msg tr = true -> w_hub w' = Some h' ->
  booked h' = delegated (w_env w') A_hub.
Proof.
  intros Hf H Hp Hh'.
  exact (tx_books_exact_after_pricing _ _ _ _ _ _ _ _ (EntWf_reachable ut ops) (SyncHist_fresh_nosurplus ut ops Hf) H Hp Hh').
Qed.

(** ALL histories (hub's coin = usei): after such a transaction booked <= delegated, with equality
    exactly when delegated <= booked held before it; a pending loss (delegated < booked) is therefore
    always recognised in full *)
Theorem SyncHist_pricing_tx_eq_iff ut ops sender target m funds w' tr h' :
  Forall SyncHist_usei_op ops ->
  let w := run_ops ops (empty_world ut) in
  run tx_fuel w [(sender, MWasm target m funds)] [] = Some (w', tr) ->
  existsb is_pricing_msg tr = true -> w_hub w' = Some h' ->
  exists h, w_hub w = Some h /\
    booked h' <= delegated (w_env w') A_hub /\
    (booked h' = delegated (w_env w') A_hub <-> delegated (w_env w) A_hub <= booked h) /\
    (delegated (w_env w) A_hub < booked h -> booked h' = delegated (w_env w') A_hub).
Proof.
  intros Hops w H Hp Hh'.
  pose proof (SyncHist_run_coin _ _ _ _ _ _ H) as Hc. rewrite (SyncHist_coin_some _ _ Hh') in Hc.
  symmetry in Hc. apply SyncHist_coin_inv in Hc. destruct Hc as (h & Hh & _).
  exists h. split; [exact Hh|].
  destruct (SyncHist_gap_exact ut ops Hops h Hh) as [A _].
  destruct (SyncHist_tx_gap _ _ _ _ _ _ _ _ _ (EntWf_reachable ut ops) Hh A H Hh') as [_ B].
  rewrite Hp in B. unfold SyncHist_gapZ in B. fold w in B. lia.
Qed.

(** ** 7. the booked total rises only by bond payments — whole operation alphabet *)
Definition SyncHist_is_bond (hm : hub_msg) : bool :=
  match hm with HBond | HBondSt | HBondRewards => true | _ => false end.

(** the coins attached to an executed Bond / BondForStSei / BondRewards message to the hub (a successful
    one carries exactly one coin, the payment: C02_bond_delegates_all); 0 for every other message *)
Definition SyncHist_pay (sm : addr * cmsg) : N :=
  match snd sm with
  | MWasm to (WHub hm) funds =>
      if (to =? A_hub) && SyncHist_is_bond hm then sumN (map snd funds) else 0
  | _ => 0
  end.

Lemma SyncHist_msg_raise w s m w' out h h' :
  step_msg w s m = Some (w', out) -> w_hub w = Some h -> w_hub w' = Some h' ->
  booked h' <= booked h + SyncHist_pay (s, m).
Proof.
  intros H Hh Hh'. apply step_msg_cases in H.
  destruct H as [funds hm e1 h0 h1 o -> Hsend Hw He -> -> | Hsame _ _ _ _
                | v c e' -> He -> -> | v c e' -> He -> -> | a b c e' -> He -> ->];
    try (cbn [w_hub set_env] in Hh'; rewrite Hh in Hh'; inversion Hh'; subst h'; lia).
  - cbn [w_hub set_hub] in Hh'. inversion Hh'; subst h1. rewrite Hh in Hw. inversion Hw; subst h0.
    pose proof (hub_execute_books_le _ _ _ _ _ _ _ _ He) as Hle.
    pose proof (hub_execute_dsum _ _ _ _ _ _ _ _ He) as [DB DN].
    unfold SyncHist_pay. cbn [snd]. rewrite N.eqb_refl. cbn [andb].
    destruct (SyncHist_is_bond hm) eqn:Eb.
    + assert (Hb : hm = HBond \/ hm = HBondSt \/ hm = HBondRewards)
        by (destruct hm; try discriminate Eb; auto).
      destruct (DB Hb) as (pay & -> & _ & Hd). cbn [map sumN]. lia.
    + assert (Hd : dsum o = 0).
      { apply DN. intros [E|[E|E]]; subst hm; discriminate Eb. }
      lia.
  - rewrite Hsame, Hh in Hh'. inversion Hh'; subst h'. lia.
Qed.

Lemma SyncHist_step_hub_some w s m w' out h :
  step_msg w s m = Some (w', out) -> w_hub w = Some h -> exists h', w_hub w' = Some h'.
Proof.
  intros H Hh. pose proof (SyncHist_step_coin _ _ _ _ _ H) as Hc.
  rewrite (SyncHist_coin_some _ _ Hh) in Hc. apply SyncHist_coin_inv in Hc. destruct Hc as (h' & Hh' & _). eauto.
Qed.

Lemma SyncHist_run_raise : forall fuel w stk tr w' tr',
  run fuel w stk tr = Some (w', tr') ->
  exists ex, tr' = tr ++ ex /\
    forall h h', w_hub w = Some h -> w_hub w' = Some h' ->
      booked h' <= booked h + sumN (map SyncHist_pay ex).
Proof.
  induction fuel as [|f IH]; intros w stk tr w' tr' H.
  - destruct stk as [|[s m] rest]; cbn [run] in H; [|discriminate]. inversion H; subst.
    exists []. rewrite app_nil_r. split; [reflexivity|]. intros h h' Hh Hh'. rewrite Hh in Hh'. inversion Hh'. cbn [map sumN]. lia.
  - destruct stk as [|[s m] rest]; cbn [run] in H.
    + inversion H; subst. exists []. rewrite app_nil_r. split; [reflexivity|].
      intros h h' Hh Hh'. rewrite Hh in Hh'. inversion Hh'. cbn [map sumN]. lia.
    + bind_inv H as r Hr. destruct r as [w1 out]. cbn [fst snd] in H.
      destruct (IH _ _ _ _ _ H) as (ex1 & -> & Hb). exists ((s, m) :: ex1).
      split; [rewrite <- app_assoc; reflexivity|]. intros h h' Hh Hh'.
      destruct (SyncHist_step_hub_some _ _ _ _ _ _ Hr Hh) as (h1 & Hh1).
      pose proof (SyncHist_msg_raise _ _ _ _ _ _ _ Hr Hh Hh1) as R1.
      pose proof (Hb h1 h' Hh1 Hh') as R2. cbn [map sumN]. lia.
Qed.

(** ONE operation of a history, any operation: the booked total is raised by at most the payments of
    the bond messages it executed *)
Theorem SyncHist_step_raise w o h h' :
  w_hub w = Some h -> w_hub (fst (step w o)) = Some h' ->
  booked h' <= booked h + sumN (map SyncHist_pay (snd (snd (step w o)))).
Proof.
  intros Hh Hh'.
  assert (Same : forall w1 : world, w_hub w1 = w_hub w -> w_hub w1 = Some h' -> booked h' <= booked h + 0).
  { intros w1 E E'. rewrite E, Hh in E'. inversion E'. lia. }
  destruct o; cbn [step] in *.
  - discriminate Hh'.
  - destruct (e_now (w_env w) + dt <=? 18446744073); cbn [fst snd map sumN] in *; eapply Same; eauto.
  - destruct (ev_slash (w_env w) v num den unb); cbn [fst snd map sumN] in *; eapply Same; eauto.
  - destruct (ev_accrue (w_env w) A_hub v d a); cbn [fst snd map sumN] in *; eapply Same; eauto.
  - cbn [fst snd map sumN] in *; eapply Same; eauto.
  - destruct (p =? 0); cbn [fst snd map sumN] in *; eapply Same; eauto.
  - cbn [fst snd map sumN] in *; eapply Same; eauto.
  - cbn [fst snd map sumN] in *; eapply Same; eauto.
  - cbn [fst snd map sumN] in *; eapply Same; eauto.
  - rewrite Hh in *. cbn [fst snd map sumN w_hub set_hub] in *. inversion Hh'; subst h'.
    change (booked (set_h_oldwait h (oldwait_put (h_oldwait h) (a, batch) amt))) with (booked h). lia.
  - cbn [fst snd map sumN w_hub set_w_hub] in *. unfold hub_instantiate in Hh'. check_inv Hh' as Hf.
    inversion Hh'; subst h'. unfold booked. cbn [h_state hs_bb hs_bst]. lia.
  - cbn [fst snd map sumN] in *; eapply Same; eauto.
  - cbn [fst snd map sumN] in *; eapply Same; eauto.
  - cbn [fst snd map sumN] in *; eapply Same; eauto.
  - cbn [fst snd map sumN] in *; eapply Same; eauto.
  - cbn [fst snd map sumN] in *; eapply Same; eauto.
  - destruct (run tx_fuel w [(sender, MWasm target m funds)] []) as [[w1 tr1]|] eqn:E; cbn [fst snd] in *.
    + destruct (SyncHist_run_raise _ _ _ _ _ _ E) as (ex & Eex & Hb). cbn [app] in Eex. subst ex.
      apply Hb; assumption.
    + cbn [map sumN]. eapply Same; eauto.
Qed.

Lemma SyncHist_sum_zero {A} (f : A -> N) l : Forall (fun x => f x = 0) l -> sumN (map f l) = 0.
Proof. induction 1 as [|x l Hx Hl IH]; cbn [map sumN]; [reflexivity|]. rewrite Hx, IH. reflexivity. Qed.

(** no bond message executed -> the booked total is not raised: slashing checks, unbonds, conversions,
    withdrawals, index updates, redelegations, registry changes, token transfers, every environment
    event and every instantiation never raise hs_bb + hs_bst *)
Corollary SyncHist_step_no_bond w o h h' :
  w_hub w = Some h -> w_hub (fst (step w o)) = Some h' ->
  Forall (fun sm => SyncHist_pay sm = 0) (snd (snd (step w o))) ->
  booked h' <= booked h.
Proof.
  intros Hh Hh' Hz. pose proof (SyncHist_step_raise w o h h' Hh Hh') as R.
  rewrite (SyncHist_sum_zero _ _ Hz) in R. lia.
Qed.

(** along a whole history: the hub never has more booked than was paid in with bond messages since
    the empty world *)
Fixpoint SyncHist_pfold (ops : list op) (w : world) (p : N) : N :=
  match ops with
  | [] => p
  | o :: r => SyncHist_pfold r (fst (step w o)) (p + sumN (map SyncHist_pay (snd (snd (step w o)))))
  end.

Lemma SyncHist_tx_no_hub w sender target m funds w' tr :
  run tx_fuel w [(sender, MWasm target m funds)] [] = Some (w', tr) -> w_hub w = None -> w_hub w' = None.
Proof.
  intros H Hn. pose proof (SyncHist_run_coin _ _ _ _ _ _ H) as Hc. unfold SyncHist_coin in Hc.
  rewrite Hn in Hc. destruct (w_hub w'); [discriminate Hc|reflexivity].
Qed.

Lemma SyncHist_step_no_hub w o h' :
  w_hub w = None -> w_hub (fst (step w o)) = Some h' -> booked h' = 0.
Proof.
  intros Hn Hh'. destruct o; cbn [step] in Hh'.
  - discriminate Hh'.
  - destruct (e_now (w_env w) + dt <=? 18446744073); cbn [fst w_hub set_env] in Hh'; congruence.
  - destruct (ev_slash (w_env w) v num den unb); cbn [fst w_hub set_env] in Hh'; congruence.
  - destruct (ev_accrue (w_env w) A_hub v d a); cbn [fst w_hub set_env] in Hh'; congruence.
  - cbn [fst w_hub set_env] in Hh'; congruence.
  - destruct (p =? 0); cbn [fst w_hub set_env] in Hh'; congruence.
  - cbn [fst w_hub set_env] in Hh'; congruence.
  - cbn [fst w_hub set_env] in Hh'; congruence.
  - cbn [fst w_hub set_env] in Hh'; congruence.
  - rewrite Hn in Hh'. cbn [fst] in Hh'. congruence.
  - cbn [fst w_hub set_w_hub] in Hh'. unfold hub_instantiate in Hh'. check_inv Hh' as Hf.
    inversion Hh'; subst h'. reflexivity.
  - cbn [fst w_hub set_w_reward] in Hh'; congruence.
  - cbn [fst w_hub set_w_disp] in Hh'; congruence.
  - cbn [fst w_hub set_w_reg] in Hh'; congruence.
  - cbn [fst w_hub set_w_bsei] in Hh'; congruence.
  - cbn [fst w_hub set_w_stsei] in Hh'; congruence.
  - destruct (run tx_fuel w [(sender, MWasm target m funds)] []) as [[w1 tr1]|] eqn:E; cbn [fst] in Hh'.
    + rewrite (SyncHist_tx_no_hub _ _ _ _ _ _ _ E Hn) in Hh'. discriminate Hh'.
    + congruence.
Qed.

Lemma SyncHist_pfold_inv : forall ops w p,
  (forall h, w_hub w = Some h -> booked h <= p) ->
  forall h, w_hub (run_ops ops w) = Some h -> booked h <= SyncHist_pfold ops w p.
Proof.
  unfold run_ops. induction ops as [|o ops IH]; intros w p HI; cbn [fold_left SyncHist_pfold]; [exact HI|].
  apply IH. intros h' Hh'. destruct (w_hub w) as [h|] eqn:Hh.
  - pose proof (SyncHist_step_raise w o h h' Hh Hh') as R. specialize (HI h eq_refl). lia.
  - rewrite (SyncHist_step_no_hub w o h' Hh Hh'). lia.
Qed.

Theorem SyncHist_history_raise ut ops h :
  w_hub (run_ops ops (empty_world ut)) = Some h ->
  booked h <= SyncHist_pfold ops (empty_world ut) 0.
Proof. apply SyncHist_pfold_inv. intros h0 Hh0. discriminate Hh0. Qed.

(** ** 8. the same at the level of one operation of a history *)
Lemma SyncHist_priced_inv w o :
  SyncHist_priced w o = true ->
  exists s t m f w' tr, o = OTx s t m f /\
    run tx_fuel w [(s, MWasm t m f)] [] = Some (w', tr) /\
    fst (step w o) = w' /\ snd (step w o) = (true, tr) /\ existsb is_pricing_msg tr = true.
Proof.
  unfold SyncHist_priced. destruct o; cbn [step];
    try (cbn [snd existsb]; discriminate);
    try (match goal with |- context [if ?b then _ else _] => destruct b end; cbn [snd existsb]; discriminate);
    try (match goal with |- context [match ?b with Some _ => _ | None => _ end] => destruct b end; cbn [snd existsb]; discriminate).
  destruct (run tx_fuel w [(sender, MWasm target m funds)] []) as [[w1 tr1]|] eqn:E; cbn [fst snd existsb]; [|discriminate].
  intros Hp. exists sender, target, m, funds, w1, tr1. repeat split; assumption.
Qed.

Theorem SyncHist_first_check_op w o h :
  EntWf w -> w_hub w = Some h -> hp_underlying (h_params h) = usei -> SyncHist_priced w o = true ->
  exists pre s hm f post w2 h2 e1 h1 r,
    snd (step w o) = (true, pre ++ (s, MWasm A_hub (WHub hm) f) :: post) /\
    existsb is_pricing_msg pre = false /\ is_pricing hm = true /\
    w_hub w2 = Some h2 /\ send_coins (w_env w2) s A_hub f = Some e1 /\
    slashing (set_env w2 e1) A_hub h2 = Some h1 /\
    hub_execute (set_env w2 e1) h2 A_hub s f hm = Some r /\
    hub_execute (set_env w2 e1) h1 A_hub s f hm = Some r /\
    SyncHist_synced (delegated (w_env w) A_hub) (hs_bb (h_state h)) (hs_bst (h_state h)) (h_state h1).
Proof.
  intros HE Hh Hu Hp. destruct (SyncHist_priced_inv _ _ Hp) as (s0 & t & m & f0 & w' & tr & -> & Hrun & _ & Hsnd & Hex).
  destruct (SyncHist_first_check_pools _ _ _ _ _ _ _ _ HE Hh Hu Hrun Hex)
    as (pre & s & hm & f & post & w2 & h2 & e1 & h1 & r & T1 & T).
  exists pre, s, hm, f, post, w2, h2, e1, h1, r. split; [rewrite Hsnd, T1; reflexivity|exact T].
Qed.

(** fresh histories: the operation after the history, if it executed a slashing check, ends with
    booked = delegated *)
Theorem SyncHist_pricing_op_exact ut ops o h' :
  SyncHist_fresh ops (empty_world ut) ->
  let w := run_ops ops (empty_world ut) in
  SyncHist_priced w o = true -> w_hub (fst (step w o)) = Some h' ->
  booked h' = delegated (w_env (fst (step w o))) A_hub.
Proof.
  intros Hf w Hp Hh'. destruct (SyncHist_priced_inv _ _ Hp) as (s0 & t & m & f0 & w' & tr & -> & Hrun & Hfst & _ & Hex).
  rewrite Hfst in *. eapply SyncHist_pricing_tx_exact; eauto.
Qed.

(** the explicit CheckSlashing transaction after a fresh history writes off exactly the ghost
    [unrecognised]: the booked total falls by precisely the stake removed by the slashing events since
    the last successful pricing transaction *)
Theorem SyncHist_check_writes_off_unrecognised ut ops sender w' tr h :
  SyncHist_fresh ops (empty_world ut) ->
  let w := run_ops ops (empty_world ut) in
  w_hub w = Some h ->
  step w (OTx sender A_hub (WHub HCheckSlashing) []) = (w', (true, tr)) ->
  exists h', w_hub w' = Some h' /\ w_env w' = w_env w /\
    booked h' + SyncHist_ufold ops (empty_world ut) 0 = booked h /\
    booked h' = delegated (w_env w') A_hub /\
    SyncHist_synced (delegated (w_env w) A_hub) (hs_bb (h_state h)) (hs_bst (h_state h)) (h_state h').
Proof.
  intros Hf w Hh H. destruct (SyncHist_unrecognised_exact ut ops Hf h Hh) as [Hu Heq]. fold w in Heq.
  destruct (SyncHist_check_slashing_tx_pools w sender w' tr h (EntWf_reachable ut ops) Hh Hu H)
    as (h' & A & B & _ & C & D1 & D2).
  exists h'. split; [exact A|]. split; [exact B|]. rewrite B.
  destruct (N.eq_dec (SyncHist_ufold ops (empty_world ut) 0) 0) as [Z|NZ].
  - rewrite Z in *. rewrite D2 by lia. split; [lia|]. split; [lia|exact C].
  - rewrite B in D1. rewrite D1 by lia. split; [lia|]. split; [reflexivity|exact C].
Qed.


(** ** 9. prefixes, and the shape "history in sync, one slashing event, CheckSlashing" *)
Lemma SyncHist_run_ops_app a b w : run_ops (a ++ b) w = run_ops b (run_ops a w).
Proof. unfold run_ops. apply fold_left_app. Qed.

Lemma SyncHist_fresh_app a b : forall w,
  SyncHist_fresh (a ++ b) w <-> SyncHist_fresh a w /\ SyncHist_fresh b (run_ops a w).
Proof.
  induction a as [|o a IH]; intros w; cbn [app SyncHist_fresh].
  - unfold run_ops. cbn [fold_left]. tauto.
  - rewrite IH. unfold run_ops. cbn [fold_left]. tauto.
Qed.

Lemma SyncHist_ufold_app a b : forall w u,
  SyncHist_ufold (a ++ b) w u = SyncHist_ufold b (run_ops a w) (SyncHist_ufold a w u).
Proof.
  induction a as [|o a IH]; intros w u; cbn [app SyncHist_ufold]; [reflexivity|].
  rewrite IH. unfold run_ops. cbn [fold_left]. reflexivity.
Qed.

(** every visited world is the end of a prefix history, and a prefix of a fresh history is fresh *)
Corollary SyncHist_unrecognised_exact_prefix ut a b :
  SyncHist_fresh (a ++ b) (empty_world ut) ->
  let w := run_ops a (empty_world ut) in
  forall h, w_hub w = Some h ->
    hp_underlying (h_params h) = usei /\
    booked h = delegated (w_env w) A_hub + SyncHist_ufold a (empty_world ut) 0.
Proof. intros Hf. apply SyncHist_unrecognised_exact. apply SyncHist_fresh_app in Hf. tauto. Qed.

(** books in sync, then ONE slashing event, then CheckSlashing: the check writes off exactly the
    stake the event removed and books exactly what survived, shared pro rata *)
Theorem SyncHist_slash_then_check ut ops v num den unb sender w' tr h :
  SyncHist_fresh ops (empty_world ut) ->
  SyncHist_ufold ops (empty_world ut) 0 = 0 ->
  let w0 := run_ops ops (empty_world ut) in
  let w := fst (step w0 (OSlash v num den unb)) in
  w_hub w = Some h ->
  step w (OTx sender A_hub (WHub HCheckSlashing) []) = (w', (true, tr)) ->
  exists h', w_hub w' = Some h' /\ w_env w' = w_env w /\
    w_hub w0 = Some h /\ booked h = delegated (w_env w0) A_hub /\
    booked h' + (delegated (w_env w0) A_hub - delegated (w_env w) A_hub) = booked h /\
    booked h' = delegated (w_env w) A_hub /\
    SyncHist_synced (delegated (w_env w) A_hub) (hs_bb (h_state h)) (hs_bst (h_state h)) (h_state h').
Proof.
  intros Hf Hz w0 w Hh H.
  assert (Hf' : SyncHist_fresh (ops ++ [OSlash v num den unb]) (empty_world ut)).
  { apply SyncHist_fresh_app. split; [exact Hf|]. cbn [SyncHist_fresh SyncHist_fresh_op]. tauto. }
  assert (Ew : run_ops (ops ++ [OSlash v num den unb]) (empty_world ut) = w).
  { rewrite SyncHist_run_ops_app. reflexivity. }
  assert (Eu : SyncHist_ufold (ops ++ [OSlash v num den unb]) (empty_world ut) 0
               = delegated (w_env w0) A_hub - delegated (w_env w) A_hub).
  { rewrite SyncHist_ufold_app, Hz. cbn [SyncHist_ufold SyncHist_ustep]. unfold SyncHist_removed. reflexivity. }
  assert (Hh0 : w_hub w0 = Some h).
  { subst w. cbn [step] in Hh. destruct (ev_slash (w_env w0) v num den unb); cbn [fst w_hub set_env] in Hh; exact Hh. }
  destruct (SyncHist_unrecognised_exact ut ops Hf h Hh0) as [_ Hb0]. fold w0 in Hb0. rewrite Hz in Hb0.
  pose proof (SyncHist_check_writes_off_unrecognised ut (ops ++ [OSlash v num den unb]) sender w' tr h Hf') as K.
  cbv zeta in K. rewrite Ew, Eu in K. destruct (K Hh H) as (h' & A & B & C & D1 & D2).
  exists h'. split; [exact A|]. split; [exact B|]. split; [exact Hh0|]. split; [lia|]. split; [exact C|].
  split; [rewrite <- B; exact D1|exact D2].
Qed.

(** ** 10. the definitions, restated for the property file *)
Lemma SyncHist_def_quantities :
  (forall e x, delegated e x = sumN (map snd (all_delegations e x))) /\
  (forall h, booked h = hs_bb (h_state h) + hs_bst (h_state h)) /\
  (forall w, EntWf w <-> DelWf (w_env w) /\
     forall h, w_hub w = Some h -> booked h = 0 \/ all_delegations (w_env w) A_hub <> []).
Proof.
  split; [reflexivity|]. split; [reflexivity|]. intros w. unfold EntWf, Ent. tauto.
Qed.

Lemma SyncHist_def_pricing :
  (forall hm, is_pricing hm =
     match hm with
     | HBond | HBondSt | HBondRewards | HCheckSlashing => true
     | HReceive _ _ HkUnbond | HReceive _ _ HkConvert => true
     | _ => false
     end) /\
  (forall s m, is_pricing_msg (s, m) =
     match m with MWasm to (WHub hm) _ => (to =? A_hub) && is_pricing hm | _ => false end) /\
  (forall w o, SyncHist_priced w o = existsb is_pricing_msg (snd (snd (step w o)))).
Proof. repeat split. Qed.

Lemma SyncHist_def_synced A bb bst s1 : SyncHist_synced A bb bst s1 <->
  (A < bb + bst ->
     hs_bb s1 + hs_bst s1 = A /\
     hs_bb s1 = A * (bb * D / (bb + bst)) / D /\ hs_bst s1 = A - hs_bb s1 /\
     hs_bb s1 <= bb /\
     (A <= LIM ->
        (hs_bb s1 * (bb + bst) <= A * bb /\ A * bb < (hs_bb s1 + 2) * (bb + bst)) /\
        (A * bst <= hs_bst s1 * (bb + bst) /\ hs_bst s1 * (bb + bst) < A * bst + 2 * (bb + bst)) /\
        hs_bst s1 <= bst + 1)) /\
  (bb + bst <= A -> hs_bb s1 = bb /\ hs_bst s1 = bst).
Proof. reflexivity. Qed.

Lemma SyncHist_def_ghosts :
  (forall w o, SyncHist_removed w o =
     delegated (w_env w) A_hub - delegated (w_env (fst (step w o))) A_hub) /\
  (forall w o g, SyncHist_gstep w o g =
     match o with
     | OReset _ => 0%Z
     | OInstHub _ _ _ _ _ _ _ _ => (- Z.of_N (delegated (w_env w) A_hub))%Z
     | OSlash _ _ _ _ => (g + Z.of_N (SyncHist_removed w o))%Z
     | OTx _ _ _ _ => if SyncHist_priced w o then Z.min g 0 else g
     | _ => g
     end) /\
  (forall w o u, SyncHist_ustep w o u =
     match o with
     | OReset _ => 0
     | OInstHub _ _ _ _ _ _ _ _ => 0
     | OSlash _ _ _ _ => u + SyncHist_removed w o
     | OTx _ _ _ _ => if SyncHist_priced w o then 0 else u
     | _ => u
     end) /\
  (forall ops w g, SyncHist_gfold ops w g =
     match ops with [] => g | o :: r => SyncHist_gfold r (fst (step w o)) (SyncHist_gstep w o g) end) /\
  (forall ops w u, SyncHist_ufold ops w u =
     match ops with [] => u | o :: r => SyncHist_ufold r (fst (step w o)) (SyncHist_ustep w o u) end).
Proof. repeat split; intros; try reflexivity; destruct ops; reflexivity. Qed.

Lemma SyncHist_def_envelope :
  (forall o, SyncHist_usei_op o <->
     match o with OInstHub _ _ _ _ _ _ und _ => und = usei | _ => True end) /\
  (forall w o, SyncHist_fresh_op w o <->
     match o with
     | OInstHub _ _ _ _ _ _ und _ => und = usei /\ delegated (w_env w) A_hub = 0
     | _ => True
     end) /\
  (forall ops w, SyncHist_fresh ops w <->
     match ops with [] => True | o :: r => SyncHist_fresh_op w o /\ SyncHist_fresh r (fst (step w o)) end).
Proof. repeat split; try tauto; destruct ops; cbn [SyncHist_fresh]; tauto. Qed.

Lemma SyncHist_def_pay :
  (forall hm, SyncHist_is_bond hm = match hm with HBond | HBondSt | HBondRewards => true | _ => false end) /\
  (forall s m, SyncHist_pay (s, m) =
     match m with
     | MWasm to (WHub hm) funds => if (to =? A_hub) && SyncHist_is_bond hm then sumN (map snd funds) else 0
     | _ => 0
     end) /\
  (forall ops w p, SyncHist_pfold ops w p =
     match ops with
     | [] => p
     | o :: r => SyncHist_pfold r (fst (step w o)) (p + sumN (map SyncHist_pay (snd (snd (step w o)))))
     end).
Proof. repeat split; intros; try reflexivity; destruct ops; reflexivity. Qed.
