(** * PauseHistFree (helper of PauseHist, C11 at world / history level, part 3c):
    operations that do not use the hub behave the same whether the hub is paused or not.

    - [to_hubb m]: [m] is a wasm message addressed to the hub;
    - [paused_hub_msg_fails]: in a paused world every non-exempt message addressed to the hub fails;
    - [step_msg_off_hub]: a message not addressed to the hub leaves the hub component untouched;
    - [step_msg_nonhub_flag]: ... and behaves identically in worlds that differ only in the flag;
    - [run_flag]: for [w] and [wp] equal up to the flag, [wp] paused: if the run from [w] fails so
      does the run from [wp]; if it succeeds, then EITHER it executed a message addressed to the hub
      and the run from [wp] fails, OR it executed none, its hub is unchanged, and the run from [wp]
      succeeds with the SAME trace in a world again equal up to the flag;
    - [hub_free w o]: the operation [o], run in [w], executes no message addressed to the hub
      (a rejected transaction and every non-transaction operation count as hub-free);
    - [step_flag], [run_ops_flag]: hub-free non-exempt operations / histories have the same outcomes
      and equal-up-to-the-flag results in [w] and in its paused twin [wp]; the hub is unchanged on
      both sides. *)
From Krp Require Import Tactics Prelude Fixed FMap Types Env Registry Cw20 Reward Dispatcher Hub Exec
     ExecP Hist HubFrame HubAdmin Auth Pause MirrorWire PauseHistFrozen PauseHistLegacy PauseHistFlag
     PauseHistSim.
Open Scope N_scope.

Definition to_hubb (m : cmsg) : bool :=
  match m with MWasm to _ _ => to =? A_hub | _ => false end.

Lemma paused_hub_msg_fails wp s m :
  HubPaused wp -> to_hubb m = true -> exempt_msg m = false -> step_msg wp s m = None.
Proof.
  intros (h & Hw & Hp) Ht Hx. destruct m as [to wm f| | | | | |]; try discriminate Ht.
  cbn [to_hubb] in Ht. cbn [exempt_msg] in Hx. rewrite Ht in Hx. cbn [andb] in Hx.
  unfold step_msg. destruct (send_coins (w_env wp) s to f) as [e1|]; cbn [bind]; [|reflexivity].
  unfold call. rewrite Ht. destruct wm as [hm| | | | | |]; try reflexivity.
  cbn [w_hub set_env]. rewrite Hw. cbn [bind].
  cbn [exempt_wasm] in Hx. apply exempt_hub_msg_false in Hx. destruct Hx as [X1 X2].
  rewrite (paused_blocks _ _ _ _ _ _ Hp X1 X2). reflexivity.
Qed.

Lemma step_msg_off_hub w s m w1 out :
  to_hubb m = false -> step_msg w s m = Some (w1, out) -> w_hub w1 = w_hub w.
Proof.
  intros Ht H. apply step_msg_inv in H.
  destruct H as [e' -> _ _ | to wm funds e1 o -> _ Hc _]; [reflexivity|].
  cbn [to_hubb] in Ht.
  destruct Hc as [h hm h' E | r rm r' _ _ _ _ -> | d dm d' _ _ _ _ -> | g gm g' _ _ _ _ ->
                 | t cm t' _ _ _ _ -> | t cm t' _ _ _ _ -> | sm e' _ _ _ -> _ | _ -> _];
    try reflexivity.
  subst to. rewrite N.eqb_refl in Ht. discriminate Ht.
Qed.

Lemma step_msg_nonhub_flag w w' s m :
  wflag w w' -> to_hubb m = false -> agree wflag (step_msg w s m) (step_msg w' s m).
Proof.
  intros Hw Ht. apply step_msg_rel; [exact Hw|].
  intros to wm f e1 ->. cbn [to_hubb] in Ht.
  apply call_nonhub; [intros h h' E; exact E | apply wrel_set_env; exact Hw | exact Ht].
Qed.

Lemma run_cons_trace f w s m rest tr w1 tr1 :
  run (S f) w ((s, m) :: rest) tr = Some (w1, tr1) -> exists ex, tr1 = tr ++ (s, m) :: ex.
Proof.
  cbn [run]. intros H. bind_inv H as r Hr. apply run_trace_app in H. destruct H as [ex ->].
  exists ex. rewrite <- app_assoc. reflexivity.
Qed.

Definition nonexempt_stack (st : list (addr * cmsg)) : Prop :=
  Forall (fun sm => exempt_msg (snd sm) = false) st.

Definition hits_hub (ex : list (addr * cmsg)) : bool := existsb (fun sm => to_hubb (snd sm)) ex.

Lemma hits_hub_cons s m ex : hits_hub ((s, m) :: ex) = to_hubb m || hits_hub ex.
Proof. reflexivity. Qed.

Theorem run_flag : forall fuel w wp stack tr,
  wflag w wp -> HubPaused wp -> nonexempt_stack stack ->
  (run fuel w stack tr = None -> run fuel wp stack tr = None) /\
  (forall w1 tr1, run fuel w stack tr = Some (w1, tr1) ->
     exists ex, tr1 = tr ++ ex /\
       ((hits_hub ex = true /\ run fuel wp stack tr = None) \/
        (hits_hub ex = false /\ w_hub w1 = w_hub w /\
         exists wp1, run fuel wp stack tr = Some (wp1, tr1) /\ wflag w1 wp1 /\ w_hub wp1 = w_hub wp))).
Proof.
  induction fuel as [|f IH]; intros w wp stack tr Hw Hp Hst.
  - destruct stack as [|[s m] rest]; cbn [run].
    + split; [discriminate|]. intros w1 tr1 E. inversion E; subst. exists []. rewrite app_nil_r.
      split; [reflexivity|]. right. split; [reflexivity|]. split; [reflexivity|]. exists wp. auto.
    + split; [reflexivity | discriminate].
  - destruct stack as [|[s m] rest].
    + cbn [run]. split; [discriminate|]. intros w1 tr1 E. inversion E; subst. exists [].
      rewrite app_nil_r. split; [reflexivity|]. right. split; [reflexivity|]. split; [reflexivity|].
      exists wp. auto.
    + inversion Hst as [|x l Hx Hrest]; subst. cbn [snd] in Hx.
      destruct (to_hubb m) eqn:Ht.
      * (* addressed to the hub: the paused side fails *)
        assert (Hf : run (S f) wp ((s, m) :: rest) tr = None).
        { cbn [run]. rewrite (paused_hub_msg_fails wp s m Hp Ht Hx). reflexivity. }
        split; [intros _; exact Hf|]. intros w1 tr1 E.
        destruct (run_cons_trace _ _ _ _ _ _ _ _ E) as [ex ->].
        exists ((s, m) :: ex). split; [reflexivity|]. left.
        rewrite hits_hub_cons, Ht. auto.
      * pose proof (step_msg_nonhub_flag w wp s m Hw Ht) as Ha. cbn [run].
        destruct (step_msg w s m) as [[w2 o1]|] eqn:E1, (step_msg wp s m) as [[wp2 o2]|] eqn:E2;
          cbn [agree bind fst snd] in *; try contradiction.
        2:{ split; [reflexivity | discriminate]. }
        destruct Ha as [Hw2 ->].
        pose proof (step_msg_off_hub _ _ _ _ _ Ht E1) as Hh1.
        pose proof (step_msg_off_hub _ _ _ _ _ Ht E2) as Hh2.
        assert (Hp2 : HubPaused wp2).
        { destruct Hp as (h & Hwh & Hph). exists h. split; [congruence | exact Hph]. }
        assert (Hst2 : nonexempt_stack (o2 ++ rest)).
        { apply Forall_app. split; [|exact Hrest].
          pose proof (step_msg_emits_nx _ _ _ _ _ E2) as Hnx.
          eapply Forall_impl; [|exact Hnx]. intros sm Hn. apply exempt_msg_carries. exact Hn. }
        destruct (IH w2 wp2 (o2 ++ rest) (tr ++ [(s, m)]) Hw2 Hp2 Hst2) as [IHn IHs].
        split; [exact IHn|]. intros w1 tr1 E.
        destruct (IHs _ _ E) as (ex & -> & Hcase).
        exists ((s, m) :: ex). rewrite <- app_assoc. split; [reflexivity|].
        rewrite hits_hub_cons, Ht. cbn [orb].
        destruct Hcase as [[Hh Hn] | (Hh & Hk & wp1 & Hr & Hw1 & Hk2)].
        -- left. split; [exact Hh | exact Hn].
        -- right. split; [exact Hh|]. split; [congruence|].
           exists wp1. rewrite <- app_assoc in Hr. split; [exact Hr|]. split; [exact Hw1 | congruence].
Qed.

(** ** operations *)
Definition hub_free (w : world) (o : op) : Prop := hits_hub (snd (snd (step w o))) = false.

Lemma nontx_nonexempt_hub w o :
  hub_exempt_op o = false -> (forall s t m f, o <> OTx s t m f) -> w_hub (fst (step w o)) = w_hub w.
Proof.
  intros Ho Hn. destruct o; try discriminate Ho; cbn [step].
  - destruct (e_now (w_env w) + dt <=? 18446744073); reflexivity.
  - destruct (ev_slash _ _ _ _ _); reflexivity.
  - destruct (ev_accrue _ _ _ _ _); reflexivity.
  - reflexivity.
  - destruct (p =? 0); reflexivity.
  - reflexivity.
  - reflexivity.
  - reflexivity.
  - reflexivity.
  - reflexivity.
  - reflexivity.
  - reflexivity.
  - reflexivity.
  - exfalso. eapply Hn. reflexivity.
Qed.

Lemma hub_flag_eq_set_oldwait h h' x :
  hub_flag_eq h h' -> hub_flag_eq (set_h_oldwait h x) (set_h_oldwait h' x).
Proof.
  unfold hub_flag_eq. intros E.
  change (set_h_oldwait (with_paused h None) x = set_h_oldwait (with_paused h' None) x).
  rewrite E. reflexivity.
Qed.

Lemma step_flag_nontx w wp o :
  wflag w wp -> (forall s t m f, o <> OTx s t m f) ->
  snd (step w o) = snd (step wp o) /\ wflag (fst (step w o)) (fst (step wp o)).
Proof.
  intros Hw Hn.
  apply (step_rel_nontx hub_flag_eq);
    [intros h h' E; exact E | apply hub_flag_eq_refl | apply hub_flag_eq_set_oldwait | exact Hw | exact Hn].
Qed.

Theorem step_flag w wp o :
  wflag w wp -> HubPaused wp -> hub_exempt_op o = false -> hub_free w o ->
  snd (step w o) = snd (step wp o) /\ wflag (fst (step w o)) (fst (step wp o)) /\
  w_hub (fst (step w o)) = w_hub w.
Proof.
  intros Hw Hp Ho Hf.
  destruct o as [| | | | | | | | | | | | | | | |sender target m funds];
    try discriminate Ho;
    try (match goal with |- snd (step _ ?o) = _ /\ _ =>
           destruct (step_flag_nontx w wp o Hw) as [X1 X2]; [congruence|] end;
         split; [exact X1|]; split; [exact X2|];
         apply nontx_nonexempt_hub; [exact Ho | congruence]).
  unfold hub_free in Hf. cbn [step] in *. cbn [hub_exempt_op] in Ho.
  assert (Hst : nonexempt_stack [(sender, MWasm target m funds)]).
  { constructor; [exact Ho | constructor]. }
  destruct (run_flag tx_fuel w wp _ [] Hw Hp Hst) as [Hn Hs].
  destruct (run tx_fuel w _ []) as [[w1 tr1]|] eqn:E.
  - cbn [fst snd] in Hf. destruct (Hs _ _ eq_refl) as (ex & Etr & Hcase). cbn [app] in Etr. subst ex.
    destruct Hcase as [[Hh _] | (_ & Hk & wp1 & Hr & Hw1 & _)]; [congruence|].
    rewrite Hr. cbn [fst snd]. auto.
  - rewrite (Hn eq_refl). cbn [fst snd]. auto.
Qed.

Lemma step_flag_paused w wp o :
  wflag w wp -> HubPaused wp -> hub_exempt_op o = false -> HubPaused (fst (step wp o)).
Proof. intros _ Hp Ho. apply paused_frozen_paused; assumption. Qed.

Theorem run_ops_flag : forall ops w wp,
  wflag w wp -> HubPaused wp -> Forall (fun o => hub_exempt_op o = false) ops ->
  guarded hub_free ops w ->
  outcomes ops w = outcomes ops wp /\ wflag (run_ops ops w) (run_ops ops wp) /\
  w_hub (run_ops ops w) = w_hub w /\ w_hub (run_ops ops wp) = w_hub wp.
Proof.
  induction ops as [|o ops IH]; intros w wp Hw Hp Hx Hg.
  - cbn. auto.
  - inversion Hx as [|x l Ho Hrest]; subst. cbn [guarded] in Hg. destruct Hg as [Hf Hg].
    destruct (step_flag w wp o Hw Hp Ho Hf) as (E1 & Hw1 & Hk).
    pose proof (paused_frozen_paused _ _ Hp Ho) as Hp1.
    pose proof (paused_frozen _ _ Hp Ho) as Hk2.
    destruct (IH _ _ Hw1 Hp1 Hrest Hg) as (E2 & Hw2 & Hk3 & Hk4).
    cbn [outcomes]. change (run_ops (o :: ops) w) with (run_ops ops (fst (step w o))).
    change (run_ops (o :: ops) wp) with (run_ops ops (fst (step wp o))).
    split; [rewrite E1, E2; reflexivity|]. split; [exact Hw2|]. split; congruence.
Qed.
