(** * IndexHandlers: handler-level facts for C19 (one UpdateGlobalIndex transaction).
    - [update_global_exact] / [update_global_ok] / [update_global_unauthorized]:
      hub UpdateGlobalIndex emits exactly hooks ++ withdrawals ++ [Swap; Dispatch], only for the
      updater or the registry, and only touches [hs_lim];
    - [qas_ok], [qas_ext], [qas_touch]: the slashing synchronisation [query_actual_state] succeeds
      under E1, depends only on delegations and token supplies, ignores [hs_lim];
    - [bond_rewards_exact] / [bond_rewards_ok]: BondRewards (dispatcher only) adds the payment to the
      stSei pool, mints nothing, delegates the whole payment, recomputes the stSei rate;
    - [reward_update_index_exact] / [reward_update_index_ok]: the reward contract's index update;
    - [disp_swap_ok]: SwapToRewardDenom succeeds under E1/E7 and offers no more than is held. *)
From Coq Require Import Permutation.
From Krp Require Import Tactics Prelude Fixed FMap Types Env Registry Cw20 Reward Dispatcher Hub Exec
     RegistryP DispatcherP Inv IndexEnv.
Open Scope N_scope.
Ltac Zify.zify_post_hook ::= Z.div_mod_to_equations.

(** ** arithmetic helpers *)
Lemma muldiv_le a r A R : a <= A -> r <= R -> a * r / D <= A * R / D.
Proof. intros Ha Hr. apply N.div_le_mono; [exact D_nz|]. apply N.mul_le_mono; assumption. Qed.

Lemma mulU_ok a r A R : a <= A -> r <= R -> A * R / D <= U128MAX -> mulU a r = Some (a * r / D).
Proof.
  intros Ha Hr Hb. pose proof (muldiv_le a r A R Ha Hr) as Hle.
  unfold mulU, narrow128, fits128.
  destruct ((a =? 0) || (r =? 0)) eqn:E.
  - f_equal. apply orb_true_iff in E. destruct E as [E|E]; apply N.eqb_eq in E; subst.
    + rewrite N.mul_0_l, N.div_0_l; [reflexivity | exact D_nz].
    + rewrite N.mul_0_r, N.div_0_l; [reflexivity | exact D_nz].
  - assert (E2 : (a * r / D <=? U128MAX) = true) by lia. rewrite E2. reflexivity.
Qed.

Lemma add128_ok a b : a + b <= U128MAX -> add128 a b = Some (a + b).
Proof. intros H. unfold add128, narrow128, fits128. assert (E : (a + b <=? U128MAX) = true) by lia. rewrite E. reflexivity. Qed.

Lemma sub128_ok a b : b <= a -> sub128 a b = Some (a - b).
Proof. intros H. unfold sub128. assert (E : (b <=? a) = true) by lia. rewrite E. reflexivity. Qed.

Lemma ratio_ok a b A : b <> 0 -> a <= A -> A * D <= U128MAX -> ratio a b = Some (a * D / b).
Proof.
  intros Hb Ha HA. unfold ratio, narrow128, fits128.
  assert (E : (b =? 0) = false) by lia. rewrite E.
  assert (H1 : a * D / b <= a * D) by (apply N.div_le_upper_bound; [exact Hb|]; nia).
  assert (H2 : a * D <= A * D) by (apply N.mul_le_mono_r; exact Ha).
  assert (E2 : (a * D / b <=? U128MAX) = true) by lia. rewrite E2. reflexivity.
Qed.

Lemma LIM_D_fits : 8 * LIM * D <= U128MAX.
Proof. apply N.leb_le. vm_compute. reflexivity. Qed.

Lemma LIM_fits : 16 * LIM <= U128MAX.
Proof. apply N.leb_le. vm_compute. reflexivity. Qed.

(** ** 1. hub UpdateGlobalIndex *)
Definition touch_lim (s : hub_state) (now : N) : hub_state :=
  mkHubState (hs_ber s) (hs_ser s) (hs_bb s) (hs_bst s) now (hs_phb s) (hs_lut s) (hs_lpb s).

Definition ugi_tail (dispaddr : addr) (s : hub_state) : list cmsg :=
  [MWasm dispaddr (WDisp (DSwap (hs_bb s) (hs_bst s))) []; MWasm dispaddr (WDisp DDispatch) []].

Definition withdraw_msgs (e : env) (self : addr) : list cmsg :=
  map (fun d => MWithdrawReward (fst d)) (all_delegations e self).

Theorem update_global_exact w h self sender n h' msgs :
  execute_update_global w h self sender n = Some (h', msgs) ->
  (sender = hc_updater (h_cfg h) \/ hc_reg (h_cfg h) = Some sender) /\
  exists dispaddr hooks,
    hc_disp (h_cfg h) = Some dispaddr /\
    (n = 0 -> hooks = []) /\
    (n <> 0 -> exists reg, hc_airdrop (h_cfg h) = Some reg /\
                           hooks = repeat (MWasm reg WOpaque []) (N.to_nat n)) /\
    msgs = hooks ++ withdraw_msgs (w_env w) self ++ ugi_tail dispaddr (h_state h) /\
    h' = set_h_state h (touch_lim (h_state h) (e_now (w_env w))).
Proof.
  unfold execute_update_global. intros H.
  check_inv H as Hauth. bind_inv H as da Hda. bind_inv H as hooks Hhooks.
  inversion H; subst h' msgs; clear H. split.
  - apply orb_true_iff in Hauth. destruct Hauth as [E|E].
    + left. apply N.eqb_eq. exact E.
    + right. unfold opt_eqb in E. destruct (hc_reg (h_cfg h)) as [g|]; [|discriminate].
      apply N.eqb_eq in E. subst. reflexivity.
  - exists da, hooks. split; [reflexivity|]. split; [|split; [|split; reflexivity]].
    + intros ->. cbn in Hhooks. inversion Hhooks. reflexivity.
    + intros Hn. assert (E : (n =? 0) = false) by lia. rewrite E in Hhooks.
      bind_inv Hhooks as reg Hreg. inversion Hhooks. exists reg. split; reflexivity.
Qed.

Lemma update_global_ok w h self sender da :
  (sender = hc_updater (h_cfg h) \/ hc_reg (h_cfg h) = Some sender) ->
  hc_disp (h_cfg h) = Some da ->
  execute_update_global w h self sender 0 =
  Some (set_h_state h (touch_lim (h_state h) (e_now (w_env w))),
        withdraw_msgs (w_env w) self ++ ugi_tail da (h_state h)).
Proof.
  intros Hauth Hda. unfold execute_update_global.
  assert (E : (sender =? hc_updater (h_cfg h)) || opt_eqb (hc_reg (h_cfg h)) sender = true).
  { apply orb_true_iff. destruct Hauth as [->|Hr]; [left; apply N.eqb_refl|].
    right. rewrite Hr. cbn. apply N.eqb_refl. }
  rewrite E, Hda. reflexivity.
Qed.

Theorem update_global_unauthorized w h self sender n :
  sender <> hc_updater (h_cfg h) -> hc_reg (h_cfg h) <> Some sender ->
  execute_update_global w h self sender n = None.
Proof.
  intros H1 H2. unfold execute_update_global.
  assert (E : (sender =? hc_updater (h_cfg h)) || opt_eqb (hc_reg (h_cfg h)) sender = false).
  { apply orb_false_iff. split; [apply N.eqb_neq; exact H1|].
    unfold opt_eqb. destruct (hc_reg (h_cfg h)) as [g|]; [|reflexivity].
    apply N.eqb_neq. intros ->. apply H2. reflexivity. }
  rewrite E. reflexivity.
Qed.

(** ** the slashing synchronisation *)
Lemma foldM_add128 (l : list (val * N)) : forall acc,
  acc + sumN (map snd l) <= U128MAX ->
  foldM (fun acc d => add128 acc (snd d)) l acc = Some (acc + sumN (map snd l)).
Proof.
  induction l as [|x r IH]; intros acc H; cbn [foldM map sumN] in *.
  - f_equal. lia.
  - rewrite add128_ok by lia. cbn [bind]. rewrite IH by lia. f_equal. lia.
Qed.

Lemma exchange_rate_ok bonded issued requested :
  bonded <= 2 * LIM -> issued + requested <= LIM ->
  exchange_rate bonded issued requested = Some (rate_of bonded (issued + requested)).
Proof.
  intros Hb Hc. unfold exchange_rate, rate_of. pose proof LIM_fits.
  rewrite add128_ok by lia. cbn [bind].
  destruct ((bonded =? 0) || (issued + requested =? 0)) eqn:E; [reflexivity|].
  apply orb_false_iff in E. destruct E as [E1 E2].
  apply (ratio_ok _ _ (2 * LIM)); [lia | exact Hb |]. pose proof LIM_D_fits. lia.
Qed.

(** the result depends on the world only through the hub's delegations and the token supplies *)
Lemma qas_ext w w' self h :
  all_delegations (w_env w') self = all_delegations (w_env w) self ->
  w_bsei w' = w_bsei w -> w_stsei w' = w_stsei w ->
  query_actual_state w' self h = query_actual_state w self h.
Proof.
  intros H1 H2 H3.
  unfold query_actual_state, actual_bonded, hub_bsei_supply, hub_stsei_supply, query_total_supply, token_at.
  rewrite H1, H2, H3. reflexivity.
Qed.

(** ... and commutes with the index-modification timestamp *)
Lemma qas_touch w self h t :
  query_actual_state w self (set_h_state h (touch_lim (h_state h) t)) =
  match query_actual_state w self h with Some s => Some (touch_lim s t) | None => None end.
Proof.
  unfold query_actual_state, actual_bonded, hub_bsei_supply, hub_stsei_supply.
  cbn [h_state h_cfg h_params h_batch set_h_state touch_lim hs_bb hs_bst].
  destruct (all_delegations (w_env w) self) as [|d0 dr]; [reflexivity|].
  destruct (foldM _ _ 0) as [actual|]; cbn [bind]; [|reflexivity].
  destruct (add128 (hs_bb (h_state h)) (hs_bst (h_state h))) as [tot|]; cbn [bind]; [|reflexivity].
  destruct (tot =? 0); [reflexivity|].
  destruct (bind (hc_bsei (h_cfg h)) _) as [bi|]; cbn [bind]; [|reflexivity].
  destruct (bind (hc_stsei (h_cfg h)) _) as [si|]; cbn [bind]; [|reflexivity].
  destruct (actual <? tot).
  - destruct (ratio (hs_bb (h_state h)) tot) as [r|]; cbn [bind]; [|reflexivity].
    destruct (mulU actual r) as [bb|]; cbn [bind]; [|reflexivity].
    destruct (sub128 actual bb) as [bst|]; cbn [bind]; [|reflexivity].
    cbn [set_bonded hs_bb hs_bst].
    destruct (exchange_rate bb bi _) as [ber|]; cbn [bind]; [|reflexivity].
    destruct (exchange_rate bst si _) as [ser|]; cbn [bind]; reflexivity.
  - cbn [bind hs_bb hs_bst touch_lim].
    destruct (exchange_rate (hs_bb (h_state h)) bi _) as [ber|]; cbn [bind]; [|reflexivity].
    destruct (exchange_rate (hs_bst (h_state h)) si _) as [ser|]; cbn [bind]; reflexivity.
Qed.

(** under E1 the synchronisation succeeds; it never increases a pool and only rewrites the four
    pool/rate fields *)
Lemma qas_ok w self h tb ts :
  hp_underlying (h_params h) = usei ->
  hc_bsei (h_cfg h) = Some A_bsei -> hc_stsei (h_cfg h) = Some A_stsei ->
  w_bsei w = Some tb -> w_stsei w = Some ts ->
  delegated (w_env w) self <= LIM ->
  hs_bb (h_state h) + hs_bst (h_state h) <= LIM ->
  claims_b h tb <= LIM -> claims_st h ts <= LIM ->
  exists s1, query_actual_state w self h = Some s1 /\
    hs_bb s1 <= hs_bb (h_state h) + hs_bst (h_state h) /\
    hs_bst s1 <= hs_bb (h_state h) + hs_bst (h_state h) /\
    hs_lim s1 = hs_lim (h_state h) /\ hs_phb s1 = hs_phb (h_state h) /\
    hs_lut s1 = hs_lut (h_state h) /\ hs_lpb s1 = hs_lpb (h_state h).
Proof.
  intros Hu Hb Hs Htb Hts Hdel Hbook Hcb Hcs. pose proof LIM_fits as HL. pose proof LIM_D_fits as HLD.
  unfold claims_b, claims_st in *. unfold delegated in Hdel.
  unfold query_actual_state, actual_bonded, hub_bsei_supply, hub_stsei_supply, query_total_supply, token_at.
  rewrite Hu, Hb, Hs. cbn [bind].
  change (A_bsei =? A_bsei) with true. change (A_stsei =? A_bsei) with false.
  change (A_stsei =? A_stsei) with true. cbn match. rewrite Htb, Hts. cbn [bind].
  change (usei =? usei) with true. cbn match.
  set (s := h_state h) in *.
  destruct (all_delegations (w_env w) self) as [|d0 dr] eqn:Ead.
  { exists s. repeat split; lia. }
  remember (d0 :: dr) as dl eqn:Edl in *. rewrite foldM_add128 by lia. cbn [bind]. rewrite N.add_0_l.
  set (actual := sumN (map snd dl)) in *.
  rewrite add128_ok by lia. cbn [bind].
  destruct (hs_bb s + hs_bst s =? 0) eqn:Ez; [exists s; repeat split; lia|].
  destruct (actual <? hs_bb s + hs_bst s) eqn:Elt.
  - rewrite (ratio_ok _ _ LIM) by lia. cbn [bind].
    set (r := hs_bb s * D / (hs_bb s + hs_bst s)).
    assert (Hr : r <= D).
    { unfold r. apply N.div_le_upper_bound; [lia|]. nia. }
    assert (Hbb : actual * r / D <= actual).
    { apply N.div_le_upper_bound; [exact D_nz|]. nia. }
    assert (HLDD : LIM * D / D <= U128MAX) by (rewrite N.div_mul by exact D_nz; lia).
    assert (Hact : actual <= LIM) by lia.
    rewrite (mulU_ok actual r LIM D Hact Hr HLDD). cbn [bind].
    rewrite sub128_ok by exact Hbb. cbn [bind set_bonded hs_bb hs_bst].
    set (bb1 := actual * r / D) in *. clearbody bb1 r.
    rewrite exchange_rate_ok by lia. rewrite exchange_rate_ok by lia. cbn [bind].
    eexists. split; [reflexivity|]. cbn. repeat split; lia.
  - cbn [bind]. rewrite exchange_rate_ok by lia. rewrite exchange_rate_ok by lia. cbn [bind].
    eexists. split; [reflexivity|]. cbn. repeat split; lia.
Qed.

(** ** 4. BondRewards *)
Definition deleg_pairs (vals : list (val * N)) (xs : list N) : list (val * N) :=
  filter (fun p => negb (snd p =? 0)) (map (fun p => (fst (fst p), snd p)) (combine vals xs)).

Lemma delegate_msgs_pairs vals xs d :
  delegate_msgs vals xs d = map (fun p => MDelegate (fst p) (d, snd p)) (deleg_pairs vals xs).
Proof.
  unfold delegate_msgs, deleg_pairs. induction (combine vals xs) as [|p r IH]; [reflexivity|].
  cbn [flat_map map filter fst snd]. destruct (snd p =? 0); cbn [negb app map fst snd]; rewrite IH; reflexivity.
Qed.

Lemma deleg_pairs_sum : forall vals xs, length xs = length vals ->
  sumN (map snd (deleg_pairs vals xs)) = sumN xs.
Proof.
  unfold deleg_pairs. induction vals as [|v vr IH]; intros xs Hl; destruct xs as [|x xr]; cbn [length] in Hl;
    try discriminate; [reflexivity|].
  cbn [combine map filter fst snd].
  destruct (x =? 0) eqn:E; cbn [negb map sumN snd]; rewrite IH by lia; lia.
Qed.

Lemma deleg_pairs_fst_incl vals xs v : In v (map fst (deleg_pairs vals xs)) -> In v (map fst vals).
Proof.
  unfold deleg_pairs. revert xs. induction vals as [|u vr IH]; intros [|x xr]; cbn [combine map filter In]; try tauto.
  cbn [fst snd]. destruct (negb (x =? 0)); cbn [map fst In]; intros H.
  - destruct H as [H|H]; [left; exact H | right; eapply IH; exact H].
  - right. eapply IH. exact H.
Qed.

Lemma deleg_pairs_NoDup vals : NoDup (map fst vals) -> forall xs, NoDup (map fst (deleg_pairs vals xs)).
Proof.
  unfold deleg_pairs. induction vals as [|u vr IH]; intros Hnd [|x xr]; cbn [combine map filter]; try constructor.
  cbn [map] in Hnd. inversion Hnd as [|? ? Hnin Hnd']; subst.
  cbn [fst snd]. destruct (negb (x =? 0)); cbn [map fst]; [|apply IH; exact Hnd'].
  constructor; [|apply IH; exact Hnd'].
  intros H. apply Hnin. eapply deleg_pairs_fst_incl. exact H.
Qed.

Lemma deleg_pairs_nz vals xs p : In p (deleg_pairs vals xs) -> snd p <> 0.
Proof. unfold deleg_pairs. intros H. apply filter_In in H. destruct H as [_ H]. destruct (snd p =? 0) eqn:E; [discriminate|lia]. Qed.

(** sum of the coins carried by the Delegate messages of a list *)
Definition delegate_amounts (msgs : list cmsg) : N :=
  sumN (map (fun m => match m with MDelegate _ c => snd c | _ => 0 end) msgs).

Lemma delegate_amounts_pairs d ps :
  delegate_amounts (map (fun p => MDelegate (fst p) (d, snd p)) ps) = sumN (map snd ps).
Proof. unfold delegate_amounts. rewrite map_map. reflexivity. Qed.

Lemma find_payment_spec d funds pay :
  find_payment d funds = Some pay -> In pay funds /\ fst pay = d /\ snd pay <> 0.
Proof.
  unfold find_payment.
  match goal with |- context [filter ?f funds] => destruct (filter f funds) as [|c cr] eqn:Ef end;
    intros H; [discriminate|].
  inversion H; subst c.
  assert (Hin : In pay (filter (fun c => (fst c =? d) && negb (snd c =? 0)) funds))
    by (rewrite Ef; left; reflexivity).
  apply filter_In in Hin. destruct Hin as [Hin Hc]. cbn beta in Hc.
  apply andb_true_iff in Hc. destruct Hc as [Hc1 Hc2].
  apply N.eqb_eq in Hc1. repeat split; [exact Hin | exact Hc1 |].
  intros E0. change (negb (snd pay =? 0) = true) in Hc2. rewrite E0 in Hc2. discriminate Hc2.
Qed.

Definition bonded_rewards (s1 : hub_state) (amt ser : N) : hub_state :=
  set_ser (set_bonded s1 (hs_bb s1) (hs_bst s1 + amt)) ser.

Theorem bond_rewards_exact w h self sender funds h' msgs :
  execute_bond w h self sender funds BkRw = Some (h', msgs) ->
  exists pay s1 supply ser vals xs,
    hc_disp (h_cfg h) = Some sender /\
    find_payment (hp_underlying (h_params h)) funds = Some pay /\ snd pay <> 0 /\
    query_actual_state w self h = Some s1 /\
    supply = (match hub_stsei_supply w h with Some x => x | None => 0 end) /\
    exchange_rate (hs_bst s1 + snd pay) supply (cb_reqst (h_batch h)) = Some ser /\
    h' = set_h_state h (bonded_rewards s1 (snd pay) ser) /\
    validators_for_delegation w h = Some vals /\ length xs = length vals /\
    msgs = delegate_msgs vals xs (fst pay) /\
    (forall m, In m msgs -> exists v c, m = MDelegate v c) /\
    delegate_amounts msgs = snd pay.
Proof.
  unfold execute_bond. intros H.
  bind_inv H as da Hda. check_inv H as Hauth. apply N.eqb_eq in Hauth. subst da.
  check_inv H as Hlen. bind_inv H as pay Hpay.
  bind_inv H as h1 Hh1. unfold slashing in Hh1. bind_inv Hh1 as s1 Hs1. inversion Hh1; subst h1; clear Hh1.
  cbn [bind] in H.
  change (hub_stsei_supply w (set_h_state h s1)) with (hub_stsei_supply w h) in H.
  set (supply := match hub_stsei_supply w h with Some x => x | None => 0 end) in *.
  bind_inv H as sup2 Hsup2. unfold add128, narrow128 in Hsup2. rewrite N.add_0_r in Hsup2.
  destruct (fits128 supply); [|discriminate]. inversion Hsup2; subst sup2; clear Hsup2.
  bind_inv H as s' Hs'. cbn [h_state set_h_state] in Hs'.
  bind_inv Hs' as bst Hbst. bind_inv Hs' as ser Hser. inversion Hs'; subst s'; clear Hs'.
  unfold add128, narrow128 in Hbst. destruct (fits128 (hs_bst s1 + snd pay)); [|discriminate].
  inversion Hbst; subst bst; clear Hbst.
  change (validators_for_delegation w (set_h_state (set_h_state h s1) _)) with (validators_for_delegation w h) in H.
  bind_inv H as vals Hvals. destruct vals as [|v0 vr] eqn:Evals; [discriminate|]. rewrite <- Evals in *.
  bind_inv H as r Hr. inversion H; subst h' msgs; clear H.
  assert (Hne : map snd vals <> []) by (rewrite Evals; discriminate).
  assert (Hfit : sumN (map snd vals) + snd pay <= U128MAX).
  { destruct (N.leb_spec (sumN (map snd vals) + snd pay) U128MAX) as [Hle|Hgt]; [exact Hle|].
    assert (Hn : deleg (snd pay) (map snd vals) = None) by (apply deleg_err_iff; right; exact Hgt).
    congruence. }
  destruct (deleg_total (snd pay) (map snd vals) Hne Hfit) as (xs & Hxs & Hlenxs & Hsumxs).
  rewrite Hxs in Hr. inversion Hr; subst r; clear Hr. cbn [snd fst].
  rewrite map_length in Hlenxs.
  assert (Hpnz : snd pay <> 0) by (apply find_payment_spec in Hpay; tauto).
  exists pay, s1, supply, ser, vals, xs.
  repeat split; try assumption; try reflexivity.
  - intros m Hm. rewrite delegate_msgs_pairs in Hm. apply in_map_iff in Hm. destruct Hm as [p [<- _]]. eauto.
  - rewrite delegate_msgs_pairs, delegate_amounts_pairs, deleg_pairs_sum by exact Hlenxs. exact Hsumxs.
Qed.

Lemma find_payment_one d amt : amt <> 0 -> find_payment d [(d, amt)] = Some (d, amt).
Proof.
  intros H. unfold find_payment. cbn [filter fst snd]. rewrite N.eqb_refl.
  assert (E : (amt =? 0) = false) by lia. rewrite E. reflexivity.
Qed.

Lemma bond_rewards_ok w h self sender amt s1 supply ser vals xs :
  hc_disp (h_cfg h) = Some sender -> amt <> 0 ->
  query_actual_state w self h = Some s1 ->
  hub_stsei_supply w h = Some supply -> supply <= U128MAX -> hs_bst s1 + amt <= U128MAX ->
  exchange_rate (hs_bst s1 + amt) supply (cb_reqst (h_batch h)) = Some ser ->
  validators_for_delegation w h = Some vals -> vals <> [] ->
  deleg amt (map snd vals) = Some (0, xs) ->
  execute_bond w h self sender [(hp_underlying (h_params h), amt)] BkRw =
  Some (set_h_state h (bonded_rewards s1 amt ser), delegate_msgs vals xs (hp_underlying (h_params h))).
Proof.
  intros Hda Hamt Hq Hsup Hsupfit Hbst Hser Hvals Hne Hdeleg.
  unfold execute_bond. rewrite Hda. cbn [bind]. rewrite N.eqb_refl.
  cbn [length]. change (N.of_nat 1 <=? 1) with true. cbn match.
  rewrite find_payment_one by exact Hamt. cbn [bind snd fst].
  unfold slashing. rewrite Hq. cbn [bind].
  change (hub_stsei_supply w (set_h_state h s1)) with (hub_stsei_supply w h). rewrite Hsup.
  rewrite add128_ok by lia. cbn [bind]. rewrite N.add_0_r.
  cbn [h_state set_h_state]. rewrite add128_ok by exact Hbst. cbn [bind]. rewrite Hser. cbn [bind].
  change (validators_for_delegation w (set_h_state (set_h_state h s1) _)) with (validators_for_delegation w h).
  rewrite Hvals. cbn [bind]. destruct vals as [|v0 vr]; [congruence|].
  rewrite Hdeleg. cbn [bind snd]. reflexivity.
Qed.

(** ** 5. the reward contract's UpdateGlobalIndex *)
Theorem reward_update_index_exact w r self sender r' msgs :
  reward_execute w r self sender RUpdateIndex = Some (r', msgs) ->
  msgs = [] /\ query_dispatcher_addr w (rw_hub r) = Some sender /\
  (rw_total r = 0 -> r' = r) /\
  (rw_total r <> 0 ->
     let balance := bal (w_env w) self (rw_denom r) in
     rw_prev r <= balance /\
     r' = set_rw_state r (rw_gi r + (balance - rw_prev r) * D / rw_total r) (rw_total r) balance).
Proof.
  cbn [reward_execute]. intros H. bind_inv H as dp Hdp. check_inv H as Hs. apply N.eqb_eq in Hs. subst dp.
  destruct (rw_total r =? 0) eqn:Et.
  - inversion H; subst. split; [reflexivity|]. split; [reflexivity|].
    split; [intros _; reflexivity | intros Hn; lia].
  - bind_inv H as claimed Hc. bind_inv H as q Hq. bind_inv H as gi Hgi. inversion H; subst r' msgs; clear H.
    unfold sub128 in Hc. check_inv Hc as Hle. inversion Hc; subst claimed; clear Hc.
    unfold ratio, narrow128 in Hq. rewrite Et in Hq.
    destruct (fits128 _); [|discriminate]. inversion Hq; subst q; clear Hq.
    unfold dec_add_256, narrow128 in Hgi. destruct (fits128 _); [|discriminate]. inversion Hgi; subst gi.
    split; [reflexivity|]. split; [reflexivity|]. split; [intros Hz; lia|]. intros _. cbn zeta.
    split; [lia | reflexivity].
Qed.

Definition index_updated (r : reward) (balance : N) : reward :=
  if rw_total r =? 0 then r
  else set_rw_state r (rw_gi r + (balance - rw_prev r) * D / rw_total r) (rw_total r) balance.

Lemma reward_update_index_ok w r self sender :
  query_dispatcher_addr w (rw_hub r) = Some sender ->
  rw_prev r <= bal (w_env w) self (rw_denom r) ->
  bal (w_env w) self (rw_denom r) <= 2 * LIM -> rw_gi r <= D * D ->
  reward_execute w r self sender RUpdateIndex =
  Some (index_updated r (bal (w_env w) self (rw_denom r)), []).
Proof.
  intros Hq Hprev Hbal Hgi. cbn [reward_execute]. rewrite Hq. cbn [bind]. rewrite N.eqb_refl.
  unfold index_updated. destruct (rw_total r =? 0) eqn:Et; [reflexivity|].
  set (balance := bal (w_env w) self (rw_denom r)) in *.
  rewrite sub128_ok by exact Hprev. cbn [bind].
  pose proof LIM_D_fits as HLD.
  rewrite (ratio_ok _ _ (2 * LIM)) by lia. cbn [bind].
  assert (Hq2 : (balance - rw_prev r) * D / rw_total r <= 2 * LIM * D).
  { apply N.div_le_upper_bound; [lia|].
    assert ((balance - rw_prev r) * D <= 2 * LIM * D) by (apply N.mul_le_mono_r; lia). nia. }
  unfold dec_add_256, narrow128, fits128.
  assert (HDD : D * D = LIM * D) by reflexivity.
  assert (E : (rw_gi r + (balance - rw_prev r) * D / rw_total r <=? U128MAX) = true) by lia.
  rewrite E. reflexivity.
Qed.
