(** * ExecP: generic facts about the executor — frame properties (a handler changes only the state
    of its own contract), and lifting of step-invariants to [run], [step] and [run_ops]. *)
From Krp Require Import Tactics Prelude Fixed FMap Types Env Registry Cw20 Reward Dispatcher Hub Exec.
Open Scope N_scope.

(** what one [call] can do to each contract component *)
Inductive call_effect (w : world) (sender target : addr) (m : wasm_msg) (funds : list coin)
          (w' : world) (out : list cmsg) : Prop :=
| CE_hub h hm h' : target = A_hub -> m = WHub hm -> w_hub w = Some h ->
    hub_execute w h target sender funds hm = Some (h', out) -> w' = set_hub w h' ->
    call_effect w sender target m funds w' out
| CE_reward r rm r' : target = A_reward ->
    (m = WReward rm \/ exists n, m = WHub (HUpdateGlobal n) /\ rm = RUpdateIndex) ->
    w_reward w = Some r -> reward_execute w r target sender rm = Some (r', out) -> w' = set_reward w r' ->
    call_effect w sender target m funds w' out
| CE_disp d dm d' : target = A_disp -> m = WDisp dm -> w_disp w = Some d ->
    disp_execute w d target sender dm = Some (d', out) -> w' = set_disp w d' ->
    call_effect w sender target m funds w' out
| CE_reg g gm g' : target = A_reg -> m = WReg gm -> w_reg w = Some g ->
    reg_execute w g sender gm = Some (g', out) -> w' = set_reg w g' ->
    call_effect w sender target m funds w' out
| CE_bsei t cm t' : target = A_bsei -> m = WCw20 cm -> w_bsei w = Some t ->
    bsei_execute w t sender cm = Some (t', out) -> w' = set_bsei w t' ->
    call_effect w sender target m funds w' out
| CE_stsei t cm t' : target = A_stsei -> m = WCw20 cm -> w_stsei w = Some t ->
    stsei_execute w t sender cm = Some (t', out) -> w' = set_stsei w t' ->
    call_effect w sender target m funds w' out
| CE_swap sm e' : target = A_swap -> m = WSwap sm ->
    swap_execute (w_env w) sender sm = Some e' -> w' = set_env w e' -> out = [] ->
    call_effect w sender target m funds w' out
| CE_airdrop : target = A_airdrop -> w' = w -> out = [] ->
    call_effect w sender target m funds w' out.

Lemma call_inv w sender target m funds w' out :
  call w sender target m funds = Some (w', out) -> call_effect w sender target m funds w' out.
Proof.
  unfold call. intros H.
  destruct (target =? A_hub) eqn:E1.
  { apply N.eqb_eq in E1. destruct m; try discriminate.
    bind_inv H as h Hh. bind_inv H as r Hr. destruct r as [h' o]. inversion H; subst.
    eapply CE_hub; eauto. }
  destruct (target =? A_reward) eqn:E2.
  { apply N.eqb_eq in E2.
    bind_inv H as rm Hrm. bind_inv H as r Hr. bind_inv H as x Hx. destruct x as [r' o]. inversion H; subst.
    eapply CE_reward with (rm := rm); eauto.
    destruct m; try discriminate.
    - destruct m; try discriminate. inversion Hrm; subst. right. eauto.
    - inversion Hrm; subst. left. reflexivity. }
  destruct (target =? A_disp) eqn:E3.
  { apply N.eqb_eq in E3. destruct m; try discriminate.
    bind_inv H as d Hd. bind_inv H as r Hr. destruct r as [d' o]. inversion H; subst.
    eapply CE_disp; eauto. }
  destruct (target =? A_reg) eqn:E4.
  { apply N.eqb_eq in E4. destruct m; try discriminate.
    bind_inv H as g Hg. bind_inv H as r Hr. destruct r as [g' o]. inversion H; subst.
    eapply CE_reg; eauto. }
  destruct (target =? A_bsei) eqn:E5.
  { apply N.eqb_eq in E5. destruct m; try discriminate.
    bind_inv H as t Ht. bind_inv H as r Hr. destruct r as [t' o]. inversion H; subst.
    eapply CE_bsei; eauto. }
  destruct (target =? A_stsei) eqn:E6.
  { apply N.eqb_eq in E6. destruct m; try discriminate.
    bind_inv H as t Ht. bind_inv H as r Hr. destruct r as [t' o]. inversion H; subst.
    eapply CE_stsei; eauto. }
  destruct (target =? A_swap) eqn:E7.
  { apply N.eqb_eq in E7. destruct m; try discriminate.
    bind_inv H as e' He. inversion H; subst. eapply CE_swap; eauto. }
  destruct (target =? A_airdrop) eqn:E8; [|discriminate].
  apply N.eqb_eq in E8. inversion H; subst. eapply CE_airdrop; eauto.
Qed.

(** effect of one message on the world: either only the environment changed, or it was a call *)
Inductive step_effect (w : world) (sender : addr) (m : cmsg) (w' : world)
          (out : list (addr * cmsg)) : Prop :=
| SE_env e' : w' = set_env w e' -> out = [] -> (forall to wm f, m <> MWasm to wm f) ->
    step_effect w sender m w' out
| SE_call to wm funds e1 o : m = MWasm to wm funds ->
    send_coins (w_env w) sender to funds = Some e1 ->
    call_effect (set_env w e1) sender to wm funds w' o -> out = map (fun x => (to, x)) o ->
    step_effect w sender m w' out.

Lemma step_msg_inv w sender m w' out :
  step_msg w sender m = Some (w', out) -> step_effect w sender m w' out.
Proof.
  unfold step_msg. intros H. destruct m.
  - bind_inv H as e1 He1. bind_inv H as r Hr. destruct r as [w2 o]. inversion H; subst.
    eapply SE_call; eauto. apply call_inv. exact Hr.
  - bind_inv H as e1 He1. inversion H; subst. eapply SE_env; eauto. congruence.
  - bind_inv H as e1 He1. inversion H; subst. eapply SE_env; eauto. congruence.
  - bind_inv H as e1 He1. inversion H; subst. eapply SE_env; eauto. congruence.
  - bind_inv H as e1 He1. inversion H; subst. eapply SE_env; eauto. congruence.
  - bind_inv H as e1 He1. inversion H; subst. eapply SE_env; eauto. congruence.
  - inversion H; subst. eapply SE_env; eauto. congruence.
Qed.

(** lifting a one-message invariant to [run] *)
Lemma run_preserves (I : world -> Prop) :
  (forall w s m w' out, I w -> step_msg w s m = Some (w', out) -> I w') ->
  forall fuel w stack tr w' tr', I w -> run fuel w stack tr = Some (w', tr') -> I w'.
Proof.
  intros Hstep. induction fuel as [|f IH]; intros w stack tr w' tr' HI H.
  - destruct stack as [|[s m] rest]; cbn [run] in H; [inversion H; subst; exact HI | discriminate].
  - destruct stack as [|[s m] rest]; cbn [run] in H; [inversion H; subst; exact HI|].
    bind_inv H as r Hr. destruct r as [w1 out]. cbn [fst snd] in H.
    eapply IH; [|exact H]. eapply Hstep; eauto.
Qed.

(** invariants of the whole world are lifted to [step] once the environment events and the
    instantiate operations preserve them *)
Lemma run_ops_preserves (I : world -> Prop) w0 :
  I w0 -> (forall w o, I w -> I (fst (step w o))) -> forall ops, I (run_ops ops w0).
Proof.
  intros H0 Hs ops. unfold run_ops. revert w0 H0.
  induction ops as [|o ops IH]; intros w0 H0; cbn [fold_left]; [exact H0|].
  apply IH. apply Hs. exact H0.
Qed.
