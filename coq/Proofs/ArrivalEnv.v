(** * ArrivalEnv: environment-level facts for the arrival identity of C01 (helper of Arrival.v).

    - [Arr_usum P e]        : sum of the amounts of the hub's unbonding entries still held by the
                              staking module whose completion time satisfies [P];
      [Arr_fle e T]         : ... completion time <= T;   [Arr_fint e T1 T2] : ... T1 < completion <= T2;
      [Arr_inflight e]      : all of them;
    - [Arr_advance_spec]    : a time advance delivers to the hub exactly [Arr_fle e now'] (the current,
                              i.e. post-slashing, amounts of its matured entries), removes exactly the
                              matured entries and touches nothing else;
    - [Arr_slash_spec]      : slashing never raises an in-flight amount, leaves all of them alone when
                              it does not touch unbonding entries, and never touches the bank;
    - [Arr_step_env]        : one executed message appends exactly one unbonding entry
                              (sender, validator, amount, now + chain unbonding time) if it is an
                              Undelegate, none otherwise, and keeps the chain's unbonding time;
    - [Arr_NR e]            : staking rewards in the staking coin never accrue to an account whose
                              withdraw address is the hub;
    - [Arr_tx_liquid_eq]    : a transaction that executes no WithdrawUnbonded and hands no usei to the
                              hub except as the payment of a bond leaves the hub's usei balance exactly
                              unchanged (variant of BooksLiquid.tx_liquid_eq under [Arr_NR], which — unlike
                              [NoRewardsToHub] — also holds before the withdraw address is configured);
    - [Arr_advance_usum]    : after an advance, for every window [P], what remains in flight is what
                              was in flight with completion later than the new block time;
    - [Arr_step_usum]       : one executed message leaves clock and chain unbonding time alone and adds
                              to the hub's in-flight coins exactly its amount if it is an Undelegate sent
                              by the hub ([Arr_und_amt]), completing at now + chain unbonding time. *)
From Krp Require Import Tactics Prelude Fixed FMap Types Env Registry Cw20 Reward Dispatcher Hub Exec
     ExecP Hist Inv RegistryP HubFrame HubAdmin RewardWorld BooksEnv BooksHub BooksP BooksLiquid IndexEnv LifeP.
Open Scope N_scope.

(** ** 1. sums over the hub's unbonding entries *)
Definition Arr_hubamt (P : N -> bool) (u : addr * val * N * N) : N :=
  let '(x, v, a, t) := u in if (x =? A_hub) && P t then a else 0.

Definition Arr_lsumU (P : N -> bool) (l : list (addr * val * N * N)) : N := sumN (map (Arr_hubamt P) l).
Definition Arr_usum (P : N -> bool) (e : env) : N := Arr_lsumU P (e_unb e).

Definition Arr_fle (e : env) (T : N) : N := Arr_usum (fun t => t <=? T) e.
Definition Arr_fint (e : env) (T1 T2 : N) : N := Arr_usum (fun t => (T1 <? t) && (t <=? T2)) e.
Definition Arr_inflight (e : env) : N := Arr_usum (fun _ => true) e.

Lemma Arr_lsumU_cons P x v a t l :
  Arr_lsumU P ((x, v, a, t) :: l) = (if (x =? A_hub) && P t then a else 0) + Arr_lsumU P l.
Proof. reflexivity. Qed.

Lemma Arr_lsumU_nil P : Arr_lsumU P [] = 0.
Proof. reflexivity. Qed.

Lemma Arr_lsumU_app P a b : Arr_lsumU P (a ++ b) = Arr_lsumU P a + Arr_lsumU P b.
Proof. unfold Arr_lsumU. rewrite map_app, sumN_app. reflexivity. Qed.

Lemma Arr_lsumU_mono (P Q : N -> bool) l :
  (forall t, Q t = true -> P t = true) -> Arr_lsumU Q l <= Arr_lsumU P l.
Proof.
  intros H. unfold Arr_lsumU. induction l as [|[[[x v] a] t] l IH]; cbn [map sumN]; [lia|].
  unfold Arr_hubamt at 1 3. destruct (x =? A_hub); cbn [andb]; [|lia].
  destruct (Q t) eqn:EQ; [rewrite (H t EQ); lia | destruct (P t); lia].
Qed.

Lemma Arr_lsumU_ext (P Q : N -> bool) l : (forall t, Q t = P t) -> Arr_lsumU Q l = Arr_lsumU P l.
Proof.
  intros H. apply N.le_antisymm; apply Arr_lsumU_mono; intros t Ht; [rewrite <- H | rewrite H]; exact Ht.
Qed.

Lemma Arr_lsumU_split (P Q R : N -> bool) l :
  (forall t, P t = Q t || R t) -> (forall t, Q t && R t = false) ->
  Arr_lsumU P l = Arr_lsumU Q l + Arr_lsumU R l.
Proof.
  intros H1 H2. unfold Arr_lsumU. induction l as [|[[[x v] a] t] l IH]; cbn [map sumN]; [reflexivity|].
  rewrite IH. unfold Arr_hubamt. specialize (H1 t). specialize (H2 t).
  destruct (x =? A_hub); cbn [andb]; [|lia].
  rewrite H1. destruct (Q t), (R t); cbn [orb andb] in *; try discriminate; lia.
Qed.

Lemma Arr_lsumU_filter (P : N -> bool) (keep : addr * val * N * N -> bool) l :
  (forall u, Arr_hubamt P u <> 0 -> keep u = true) ->
  Arr_lsumU P (filter keep l) = Arr_lsumU P l.
Proof.
  intros H. unfold Arr_lsumU. induction l as [|u l IH]; cbn [filter map sumN]; [reflexivity|].
  destruct (keep u) eqn:Ek; cbn [map sumN]; [rewrite IH; reflexivity|].
  destruct (N.eq_dec (Arr_hubamt P u) 0) as [E|E]; [rewrite E, IH; reflexivity|].
  rewrite (H u E) in Ek. discriminate.
Qed.

Lemma Arr_lsumU_filter_zero (P : N -> bool) (keep : addr * val * N * N -> bool) l :
  (forall u, keep u = true -> Arr_hubamt P u = 0) -> Arr_lsumU P (filter keep l) = 0.
Proof.
  intros H. unfold Arr_lsumU. induction l as [|u l IH]; cbn [filter map sumN]; [reflexivity|].
  destruct (keep u) eqn:Ek; cbn [map sumN]; [rewrite (H u Ek), IH; reflexivity | exact IH].
Qed.

Lemma Arr_lsumU_filter_time P (K : N -> bool) l :
  Arr_lsumU P (filter (fun u => K (snd u)) l) = Arr_lsumU (fun t => P t && K t) l.
Proof.
  induction l as [|[[[x v] a] t] l IH]; cbn [filter snd]; [reflexivity|].
  destruct (K t) eqn:Ek.
  - rewrite !Arr_lsumU_cons, IH. cbv beta. rewrite Ek, andb_true_r. reflexivity.
  - rewrite Arr_lsumU_cons, IH. cbv beta. rewrite Ek, !andb_false_r. lia.
Qed.

Lemma Arr_fle_split e T1 T2 : T1 <= T2 -> Arr_fle e T2 = Arr_fle e T1 + Arr_fint e T1 T2.
Proof.
  intros Hle. unfold Arr_fle, Arr_fint, Arr_usum. apply Arr_lsumU_split; intros t.
  - destruct (t <=? T2) eqn:E2, (t <=? T1) eqn:E1, (T1 <? t) eqn:E3; cbn [orb andb]; try reflexivity; lia.
  - destruct (t <=? T1) eqn:E1, (T1 <? t) eqn:E3; cbn [andb]; try reflexivity; lia.
Qed.

Lemma Arr_fint_le_inflight e T1 T2 : Arr_fint e T1 T2 <= Arr_inflight e.
Proof. apply Arr_lsumU_mono. reflexivity. Qed.

(** all entries complete by [T]: the in-flight total is the total up to [T] *)
Lemma Arr_inflight_fle e T :
  (forall u, In u (e_unb e) -> snd u <= T) -> Arr_inflight e = Arr_fle e T.
Proof.
  unfold Arr_inflight, Arr_fle, Arr_usum, Arr_lsumU. intros H. f_equal. apply map_ext_in.
  intros [[[x v] a] t] Hin. specialize (H _ Hin). cbn [snd] in H. unfold Arr_hubamt.
  assert (E : (t <=? T) = true) by lia. rewrite E. reflexivity.
Qed.

(** ** 2. time advance: delivery of matured entries *)
Lemma Arr_deliver_gen now : forall l e0,
  let r := fold_left (fun e (u : addr * val * N * N) =>
                        let '(x, v, amt, t) := u in
                        if t <=? now then credit e x usei amt else set_unb e (e_unb e ++ [u])) l e0 in
  e_unb r = e_unb e0 ++ filter (fun u => negb (snd u <=? now)) l /\
  bal r A_hub usei = bal e0 A_hub usei + Arr_lsumU (fun t => t <=? now) l /\
  e_ut r = e_ut e0 /\ e_pend r = e_pend e0 /\ e_wdaddr r = e_wdaddr e0.
Proof.
  induction l as [|[[[x v] a] t] l IH]; intros e0; cbn [fold_left filter].
  - cbn zeta. rewrite app_nil_r, Arr_lsumU_nil. repeat split. lia.
  - cbn zeta in *. cbn [snd]. rewrite Arr_lsumU_cons. destruct (t <=? now) eqn:Et; cbn [negb].
    + destruct (IH (credit e0 x usei a)) as (I1 & I2 & I3 & I4 & I5).
      split; [exact I1|]. split; [|repeat split; assumption].
      rewrite I2, bal_credit. rewrite (N.eqb_sym A_hub x), N.eqb_refl.
      destruct (x =? A_hub) eqn:Ex; cbn [andb]; [apply N.eqb_eq in Ex; subst x|]; lia.
    + destruct (IH (set_unb e0 (e_unb e0 ++ [(x, v, a, t)]))) as (I1 & I2 & I3 & I4 & I5).
      split; [rewrite I1; cbn [e_unb set_unb]; rewrite <- app_assoc; reflexivity|].
      split; [|repeat split; assumption].
      rewrite I2, andb_false_r.
      change (bal (set_unb e0 (e_unb e0 ++ [(x, v, a, t)])) A_hub usei) with (bal e0 A_hub usei). lia.
Qed.

Lemma Arr_deliver_spec e :
  let e' := deliver_matured e in
  e_unb e' = filter (fun u => negb (snd u <=? e_now e)) (e_unb e) /\
  bal e' A_hub usei = bal e A_hub usei + Arr_fle e (e_now e) /\
  e_ut e' = e_ut e /\ e_pend e' = e_pend e /\ e_wdaddr e' = e_wdaddr e.
Proof.
  pose proof (Arr_deliver_gen (e_now e) (e_unb e) (set_unb e [])) as H. cbn zeta in *.
  exact H.
Qed.

(** OAdvance: the hub receives exactly the current amounts of its matured entries *)
Theorem Arr_advance_spec e dt :
  let now' := e_now e + dt in
  let e' := ev_advance e dt in
  e_now e' = now' /\ e_ut e' = e_ut e /\ e_pend e' = e_pend e /\ e_wdaddr e' = e_wdaddr e /\
  bal e' A_hub usei = bal e A_hub usei + Arr_fle e now' /\
  Arr_fle e' now' = 0 /\
  (forall T1 T2, now' <= T1 -> Arr_fint e' T1 T2 = Arr_fint e T1 T2) /\
  Arr_inflight e' + Arr_fle e now' = Arr_inflight e.
Proof.
  cbn zeta. unfold ev_advance.
  pose proof (Arr_deliver_spec (set_now e (e_now e + dt))) as H. cbn zeta in H.
  cbn [e_now e_ut e_pend e_wdaddr e_unb set_now] in H.
  change (bal (set_now e (e_now e + dt)) A_hub usei) with (bal e A_hub usei) in H.
  change (Arr_fle (set_now e (e_now e + dt))) with (Arr_fle e) in H.
  destruct H as (H1 & H2 & H3 & H4 & H5).
  split; [rewrite deliver_matured_now; reflexivity|].
  split; [exact H3|]. split; [exact H4|]. split; [exact H5|]. split; [exact H2|].
  split; [|split].
  - unfold Arr_fle, Arr_usum. rewrite H1. apply Arr_lsumU_filter_zero.
    intros [[[x v] a] t] Hk. cbn [snd] in Hk. unfold Arr_hubamt.
    destruct (t <=? e_now e + dt); [discriminate Hk | rewrite andb_false_r; reflexivity].
  - intros T1 T2 HT. unfold Arr_fint, Arr_usum. rewrite H1. apply Arr_lsumU_filter.
    intros [[[x v] a] t] Hnz. cbn [snd]. unfold Arr_hubamt in Hnz.
    destruct (x =? A_hub); cbn [andb] in Hnz; [|congruence].
    destruct (T1 <? t) eqn:E1; cbn [andb] in Hnz; [|congruence].
    assert (E : (t <=? e_now e + dt) = false) by lia. rewrite E. reflexivity.
  - unfold Arr_inflight, Arr_fle, Arr_usum. rewrite H1.
    rewrite (Arr_lsumU_split (fun _ => true) (fun t => negb (t <=? e_now e + dt)) (fun t => t <=? e_now e + dt)
               (e_unb e)).
    + f_equal. rewrite (Arr_lsumU_filter_time (fun _ => true) (fun t => negb (t <=? e_now e + dt))).
      apply Arr_lsumU_ext. intros t. reflexivity.
    + intros t. destruct (t <=? e_now e + dt); reflexivity.
    + intros t. destruct (t <=? e_now e + dt); reflexivity.
Qed.

(** ** 3. slashing *)
Theorem Arr_slash_spec e v num den unb e' :
  ev_slash e v num den unb = Some e' ->
  (forall P, Arr_usum P e' <= Arr_usum P e) /\
  (unb = false -> e_unb e' = e_unb e) /\
  e_bank e' = e_bank e /\ e_now e' = e_now e /\ e_ut e' = e_ut e /\
  e_pend e' = e_pend e /\ e_wdaddr e' = e_wdaddr e.
Proof.
  unfold ev_slash. intros H. check_inv H as H1. check_inv H as H2. inversion H; subst e'. clear H.
  assert (Hle : num <= den) by lia. assert (Hnz : den <> 0) by lia.
  cbn [e_unb e_bank e_now e_ut e_pend e_wdaddr set_unb set_del].
  split; [|split; [intros ->; reflexivity | repeat split]].
  intros P. unfold Arr_usum. cbn [e_unb set_unb]. destruct unb; [|lia].
  unfold Arr_lsumU. induction (e_unb e) as [|[[[x v'] a] t] l IH]; cbn [map sumN]; [lia|].
  assert (Hh : Arr_hubamt P (if v' =? v then (x, v', slash_amt a num den, t) else (x, v', a, t))
               <= Arr_hubamt P (x, v', a, t)).
  { destruct (v' =? v); [|lia]. unfold Arr_hubamt. destruct ((x =? A_hub) && P t); [|lia].
    apply slash_amt_le; assumption. }
  apply N.add_le_mono; [exact Hh | exact IH].
Qed.

(** ** 4. one executed message: unbonding entries and the chain's unbonding time *)
Lemma Arr_payout_if_entry_static e x v : env_static e (payout_if_entry e x v).
Proof. destruct (payout_if_entry_spec e x v) as (S & _). exact S. Qed.

Theorem Arr_step_env w s m w' out :
  step_msg w s m = Some (w', out) ->
  e_ut (w_env w') = e_ut (w_env w) /\
  e_unb (w_env w') = e_unb (w_env w) ++
    match m with
    | MUndelegate v c => [(s, v, snd c, e_now (w_env w) + e_ut (w_env w))]
    | _ => []
    end.
Proof.
  intros H. pose proof H as H0. apply step_msg_inv in H0.
  destruct m; cbn [step_msg] in H; rewrite ?app_nil_r.
  - destruct H0 as [e' -> _ Hn | to' wm funds' e1 o Hm Hsend Hc _]; [exfalso; eapply Hn; reflexivity|].
    inversion Hm; subst. apply send_coins_static in Hsend. destruct Hsend as (_ & S2 & _ & S4 & _).
    destruct Hc as [h hm h' -> -> Hw He -> | r rm r' -> _ Hw He -> | d dm d' -> -> Hw He ->
                   | g gm g' -> -> Hw He -> | t cm t' -> -> Hw He -> | t cm t' -> -> Hw He ->
                   | sm e' -> -> He -> -> | -> -> ->];
      cbn [w_env set_hub set_reward set_disp set_reg set_bsei set_stsei set_env] in *; try (split; assumption).
    apply swap_execute_static in He. destruct He as (_ & A2 & _ & A4 & _). split; congruence.
  - bind_inv H as e1 He1. inversion H; subst. cbn [w_env set_env].
    apply bank_send_static in He1. destruct He1 as (_ & A2 & _ & A4 & _). split; assumption.
  - bind_inv H as e1 He1. inversion H; subst. cbn [w_env set_env]. clear H H0.
    unfold do_delegate in He1. check_inv He1 as C1. check_inv He1 as C2. check_inv He1 as C3.
    bind_inv He1 as e2 He2. inversion He1; subst e1. cbn [e_ut e_unb set_del].
    apply debit_static in He2. destruct He2 as (_ & B2 & _ & B4 & _).
    destruct (Arr_payout_if_entry_static (w_env w) s v) as (_ & A2 & _ & A4 & _). split; congruence.
  - bind_inv H as e1 He1. inversion H; subst. cbn [w_env set_env]. clear H H0.
    unfold do_undelegate in He1. check_inv He1 as C1.
    destruct (delegation (w_env w) s v) as [cur|]; [|discriminate]. check_inv He1 as C2.
    inversion He1; subst e1. cbn [e_ut e_unb set_del set_unb].
    destruct (payout_spec (w_env w) s v) as ((_ & A2 & _ & A4 & _) & _). rewrite A2, A4. split; reflexivity.
  - bind_inv H as e1 He1. inversion H; subst. cbn [w_env set_env]. clear H H0.
    unfold do_redelegate in He1. check_inv He1 as C1. check_inv He1 as C2.
    destruct (delegation (w_env w) s src) as [cur|]; [|discriminate]. check_inv He1 as C3.
    check_inv He1 as C4. inversion He1; subst e1. cbn [e_ut e_unb set_del].
    destruct (payout_spec (w_env w) s src) as ((_ & A2 & _ & A4 & _) & _).
    destruct (Arr_payout_if_entry_static (payout (w_env w) s src) s dst) as (_ & B2 & _ & B4 & _).
    split; congruence.
  - bind_inv H as e1 He1. inversion H; subst. cbn [w_env set_env].
    apply do_withdraw_reward_static in He1. destruct He1 as (_ & A2 & _ & A4 & _). split; assumption.
  - inversion H; subst. split; reflexivity.
Qed.

(** ** 5. staking rewards in usei never reach the hub *)
Definition Arr_NR (e : env) : Prop :=
  forall x v, withdraw_addr e x = A_hub -> pending e x v usei = 0.

Lemma Arr_NR_same e e' : e_pend e' = e_pend e -> e_wdaddr e' = e_wdaddr e -> Arr_NR e -> Arr_NR e'.
Proof. intros Hp Hw H x v. unfold withdraw_addr, pending. rewrite Hp, Hw. apply H. Qed.

Lemma Arr_payout_nr e x v :
  Arr_NR e -> Arr_NR (payout e x v) /\ bal (payout e x v) A_hub usei = bal e A_hub usei.
Proof.
  intros H. split.
  - intros y v' Hy. rewrite payout_wd in Hy. rewrite payout_pending.
    destruct ((y =? x) && ((v' =? v) && in_denoms usei)); [reflexivity | apply H; exact Hy].
  - rewrite payout_bal. destruct (A_hub =? withdraw_addr e x) eqn:E; cbn [andb]; [|lia].
    apply N.eqb_eq in E. rewrite (H x v (eq_sym E)). destruct (in_denoms usei); lia.
Qed.

Lemma Arr_payout_if_entry_nr e x v :
  Arr_NR e -> Arr_NR (payout_if_entry e x v) /\ bal (payout_if_entry e x v) A_hub usei = bal e A_hub usei.
Proof. intros H. unfold payout_if_entry. destruct (delegation e x v); [apply Arr_payout_nr; exact H | auto]. Qed.

Lemma Arr_debit_pw e a d x e' : debit e a d x = Some e' -> e_pend e' = e_pend e /\ e_wdaddr e' = e_wdaddr e.
Proof. unfold debit. intros H. check_inv H as Hle. inversion H; subst. split; reflexivity. Qed.

Lemma Arr_send_coins_pw cs : forall e from to e',
  send_coins e from to cs = Some e' -> e_pend e' = e_pend e /\ e_wdaddr e' = e_wdaddr e.
Proof.
  unfold send_coins. induction cs as [|[d x] cs IH]; intros e from to e' H; cbn [foldM] in H.
  - inversion H; subst. split; reflexivity.
  - bind_inv H as e1 He1. destruct (IH _ _ _ _ H) as [I1 I2]. unfold send_coin in He1.
    check_inv He1 as Hz. bind_inv He1 as e2 He2. inversion He1; subst e1.
    destruct (Arr_debit_pw _ _ _ _ _ He2) as [D1 D2]. cbn [e_pend e_wdaddr credit set_bank] in *.
    split; congruence.
Qed.

Lemma Arr_swap_pw e sender m e' :
  swap_execute e sender m = Some e' -> e_pend e' = e_pend e /\ e_wdaddr e' = e_wdaddr e.
Proof.
  unfold swap_execute. destruct m as [from target to]. intros H.
  destruct (e_swapmode e); [|discriminate|].
  - bind_inv H as out Ho. destruct (out =? 0); inversion H; subst; split; reflexivity.
  - inversion H; subst. split; reflexivity.
Qed.

Lemma Arr_do_delegate_nr e x v c e' :
  do_delegate e x v c = Some e' -> Arr_NR e ->
  Arr_NR e' /\ bal e' A_hub usei + (if x =? A_hub then snd c else 0) = bal e A_hub usei.
Proof.
  unfold do_delegate. intros H Hnr. check_inv H as C1. check_inv H as C2. check_inv H as C3.
  destruct (Arr_payout_if_entry_nr e x v Hnr) as [N1 B1].
  bind_inv H as e2 He2. inversion H; subst e'. clear H.
  destruct (Arr_debit_pw _ _ _ _ _ He2) as [D1 D2].
  apply debit_spec in He2. destruct He2 as (Hle & Hs & Ho & _).
  split; [eapply (Arr_NR_same (payout_if_entry e x v)); [exact D1 | exact D2 | exact N1]|].
  change (bal (set_del e2 _) A_hub usei) with (bal e2 A_hub usei).
  destruct (x =? A_hub) eqn:Ex.
  - apply N.eqb_eq in Ex. subst x. rewrite Hs. lia.
  - rewrite Ho; [lia|]. intros E. inversion E. subst x. rewrite N.eqb_refl in Ex. discriminate.
Qed.

Lemma Arr_do_undelegate_nr e x v c e' :
  do_undelegate e x v c = Some e' -> Arr_NR e -> Arr_NR e' /\ bal e' A_hub usei = bal e A_hub usei.
Proof.
  unfold do_undelegate. intros H Hnr. check_inv H as C1.
  destruct (delegation e x v) as [cur|]; [|discriminate]. check_inv H as C2. inversion H; subst e'. clear H.
  destruct (Arr_payout_nr e x v Hnr) as [N1 B1]. split; [|exact B1].
  eapply (Arr_NR_same (payout e x v)); [reflexivity | reflexivity | exact N1].
Qed.

Lemma Arr_do_redelegate_nr e x src dst c e' :
  do_redelegate e x src dst c = Some e' -> Arr_NR e -> Arr_NR e' /\ bal e' A_hub usei = bal e A_hub usei.
Proof.
  unfold do_redelegate. intros H Hnr. check_inv H as C1. check_inv H as C2.
  destruct (delegation e x src) as [cur|]; [|discriminate]. check_inv H as C3. check_inv H as C4.
  inversion H; subst e'. clear H.
  destruct (Arr_payout_nr e x src Hnr) as [N1 B1].
  destruct (Arr_payout_if_entry_nr (payout e x src) x dst N1) as [N2 B2].
  split; [eapply (Arr_NR_same (payout_if_entry (payout e x src) x dst)); [reflexivity | reflexivity | exact N2]|].
  change (bal (set_del ?e0 _) A_hub usei) with (bal e0 A_hub usei). lia.
Qed.

(** ** 6. exact conservation of the hub's liquid balance across one message / one transaction *)
Definition Arr_LiqEq (B0 : N) (w : world) (stk : list (addr * cmsg)) : Prop :=
  Forall hub_plain stk /\
  (forall h, w_hub w = Some h -> hp_underlying (h_params h) = usei) /\
  Arr_NR (w_env w) /\
  bal (w_env w) A_hub usei = B0 + pD stk.

Lemma Arr_step_liq_eq B0 w s m rest w' out :
  not_withdraw (s, m) /\ no_gift (s, m) ->
  Arr_LiqEq B0 w ((s, m) :: rest) -> step_msg w s m = Some (w', out) -> Arr_LiqEq B0 w' (out ++ rest).
Proof.
  intros [Hnw Hng] (Hpl & Hu & Hnr & Hb) H. inversion Hpl as [|? ? Hhead Hrest]; subst.
  destruct (pDU_cons s m rest) as [ED _]. rewrite ED in Hb. clear ED.
  unfold Arr_LiqEq. rewrite pD_app. unfold hub_plain in Hhead. cbn [fst snd] in Hhead.
  unfold no_gift in Hng. cbn [fst snd] in Hng.
  destruct m; cbn [step_msg] in H.
  - (* MWasm *)
    rewrite hub_d_nondelegate in Hb by (intros; discriminate).
    destruct Hng as [Hg1 Hg2].
    bind_inv H as e1 Hsend. bind_inv H as r Hc. destruct r as [w2 o]. inversion H; subst w' out. clear H.
    pose proof (send_coins_hub_eq _ _ _ _ _ Hsend Hhead) as Heq1.
    destruct (Arr_send_coins_pw _ _ _ _ _ Hsend) as [Hp1 Hw1].
    assert (Hnr1 : Arr_NR e1) by (eapply Arr_NR_same; eauto).
    apply call_inv in Hc.
    destruct Hc as [h hm h' -> -> Hw He -> | r rm r' -> _ Hw He -> | d dm d' -> -> Hw He ->
                   | g gm g' -> -> Hw He -> | t cm t' -> -> Hw He -> | t cm t' -> -> Hw He ->
                   | sm e' -> -> He -> -> | -> -> ->];
      cbn [w_env w_hub set_hub set_reward set_disp set_reg set_bsei set_stsei set_env] in *.
    + (* the hub *)
      assert (Hnw' : hm <> HWithdraw) by (intros ->; eapply Hnw; reflexivity).
      pose proof (hub_execute_emits _ _ _ _ _ _ _ _ He) as Hem.
      pose proof (hub_execute_underlying _ _ _ _ _ _ _ _ He) as Hu'.
      pose proof (hub_execute_dsum _ _ _ _ _ _ _ _ He) as (Db & Dn).
      split; [apply Forall_app; split; [apply (hub_plain_emits hm); assumption|exact Hrest]|].
      split; [intros h0 E; inversion E; subst h0; rewrite Hu'; apply Hu; exact Hw|].
      split; [exact Hnr1|].
      rewrite pD_hub. rewrite N.eqb_refl in Heq1. destruct (is_bond_dec hm) as [Hbd|Hbd].
      * destruct (Db Hbd) as (pay & Hf & Hden & Hd). rewrite (Hu h Hw) in Hden.
        rewrite Hf in Heq1. unfold BooksEnv.coin_amt in Heq1. cbn [map sumN] in Heq1.
        rewrite Hden, N.eqb_refl in Heq1. lia.
      * rewrite (Dn Hbd). destruct (Hg1 eq_refl) as [Z|(hm0 & E & Hb0)]; [lia|].
        inversion E; subst hm0. contradiction.
    + assert (E : (A_hub =? A_reward) = false) by reflexivity. rewrite E in Heq1.
      split; [apply Forall_app; split; [apply hub_plain_nonhub, Forall_map_fst_ne; neq_addr|exact Hrest]|].
      split; [exact Hu|]. split; [exact Hnr1|].
      destruct (pDU_nonhub _ (Forall_map_fst_ne A_reward o ltac:(neq_addr))) as [-> _]. lia.
    + assert (E : (A_hub =? A_disp) = false) by reflexivity. rewrite E in Heq1.
      split; [apply Forall_app; split; [apply hub_plain_nonhub, Forall_map_fst_ne; neq_addr|exact Hrest]|].
      split; [exact Hu|]. split; [exact Hnr1|].
      destruct (pDU_nonhub _ (Forall_map_fst_ne A_disp o ltac:(neq_addr))) as [-> _]. lia.
    + assert (E : (A_hub =? A_reg) = false) by reflexivity. rewrite E in Heq1.
      split; [apply Forall_app; split; [apply hub_plain_nonhub, Forall_map_fst_ne; neq_addr|exact Hrest]|].
      split; [exact Hu|]. split; [exact Hnr1|].
      destruct (pDU_nonhub _ (Forall_map_fst_ne A_reg o ltac:(neq_addr))) as [-> _]. lia.
    + assert (E : (A_hub =? A_bsei) = false) by reflexivity. rewrite E in Heq1.
      split; [apply Forall_app; split; [apply hub_plain_nonhub, Forall_map_fst_ne; neq_addr|exact Hrest]|].
      split; [exact Hu|]. split; [exact Hnr1|].
      destruct (pDU_nonhub _ (Forall_map_fst_ne A_bsei o ltac:(neq_addr))) as [-> _]. lia.
    + assert (E : (A_hub =? A_stsei) = false) by reflexivity. rewrite E in Heq1.
      split; [apply Forall_app; split; [apply hub_plain_nonhub, Forall_map_fst_ne; neq_addr|exact Hrest]|].
      split; [exact Hu|]. split; [exact Hnr1|].
      destruct (pDU_nonhub _ (Forall_map_fst_ne A_stsei o ltac:(neq_addr))) as [-> _]. lia.
    + (* swap stub *)
      assert (E : (A_hub =? A_swap) = false) by reflexivity. rewrite E in Heq1.
      destruct sm as [from target rc]. specialize (Hg2 eq_refl). cbn iota in Hg2.
      destruct (Arr_swap_pw _ _ _ _ He) as [Hp2 Hw2].
      cbn [map app]. split; [exact Hrest|]. split; [exact Hu|].
      split; [eapply Arr_NR_same; eauto|].
      rewrite (swap_execute_bal_other _ _ _ _ _ _ A_hub usei He) by (intros X; apply Hg2; congruence).
      cbn [pD map sumN]. lia.
    + assert (E : (A_hub =? A_airdrop) = false) by reflexivity. rewrite E in Heq1.
      cbn [map app]. split; [exact Hrest|]. split; [exact Hu|]. split; [exact Hnr1|].
      cbn [pD map sumN]. lia.
  - (* MBank *)
    rewrite hub_d_nondelegate in Hb by (intros; discriminate).
    bind_inv H as e1 He1. inversion H; subst w' out. clear H. cbn [app w_env w_hub set_env].
    assert (Hs : s <> A_hub) by (intros E; apply (Hhead E)).
    unfold bank_send in He1. destruct coins as [|c0 cr]; [discriminate|].
    destruct (Arr_send_coins_pw _ _ _ _ _ He1) as [Hp1 Hw1].
    pose proof (send_coins_hub_eq _ _ _ _ _ He1 ltac:(intros; contradiction)) as Heq1.
    split; [exact Hrest|]. split; [exact Hu|]. split; [eapply Arr_NR_same; eauto|].
    cbn [pD map sumN]. destruct (A_hub =? to) eqn:Et; [|lia].
    apply N.eqb_eq in Et. rewrite (Hng (eq_sym Et)) in Heq1. lia.
  - (* MDelegate *)
    bind_inv H as e1 He1. inversion H; subst w' out. clear H. cbn [app w_env w_hub set_env].
    destruct (Arr_do_delegate_nr _ _ _ _ _ He1 Hnr) as [N1 B1].
    split; [exact Hrest|]. split; [exact Hu|]. split; [exact N1|].
    cbn [pD map sumN]. unfold hub_d in Hb. cbn [fst snd dmsg_amt] in Hb.
    destruct (s =? A_hub); lia.
  - rewrite hub_d_nondelegate in Hb by (intros; discriminate).
    bind_inv H as e1 He1. inversion H; subst w' out. clear H. cbn [app w_env w_hub set_env].
    destruct (Arr_do_undelegate_nr _ _ _ _ _ He1 Hnr) as [N1 B1].
    split; [exact Hrest|]. split; [exact Hu|]. split; [exact N1|]. cbn [pD map sumN]. lia.
  - rewrite hub_d_nondelegate in Hb by (intros; discriminate).
    bind_inv H as e1 He1. inversion H; subst w' out. clear H. cbn [app w_env w_hub set_env].
    destruct (Arr_do_redelegate_nr _ _ _ _ _ _ He1 Hnr) as [N1 B1].
    split; [exact Hrest|]. split; [exact Hu|]. split; [exact N1|]. cbn [pD map sumN]. lia.
  - rewrite hub_d_nondelegate in Hb by (intros; discriminate).
    bind_inv H as e1 He1. inversion H; subst w' out. clear H. cbn [app w_env w_hub set_env].
    unfold do_withdraw_reward in He1. destruct (delegation (w_env w) s v); [|discriminate].
    inversion He1; subst e1. destruct (Arr_payout_nr (w_env w) s v Hnr) as [N1 B1].
    split; [exact Hrest|]. split; [exact Hu|]. split; [exact N1|]. cbn [pD map sumN]. lia.
  - rewrite hub_d_nondelegate in Hb by (intros; discriminate).
    inversion H; subst w' out. clear H. cbn [app w_env w_hub set_env].
    split; [exact Hrest|]. split; [exact Hu|]. split.
    + intros x v Hx. unfold withdraw_addr, do_set_withdraw_addr in Hx. cbn [e_wdaddr set_wdaddr] in Hx.
      change (pending (do_set_withdraw_addr (w_env w) s a) x v usei) with (pending (w_env w) x v usei).
      destruct (N.eq_dec x s) as [->|Hne].
      * rewrite (get_set_same eqbA N.eqb_eq) in Hx. contradiction.
      * rewrite (get_set_other eqbA N.eqb_eq) in Hx by exact Hne. apply Hnr. exact Hx.
    + cbn [pD map sumN]. unfold bal, do_set_withdraw_addr in *. cbn [e_bank set_wdaddr]. lia.
Qed.

(** absent gifts and WithdrawUnbonded the hub's liquid balance is unchanged by a transaction *)
Theorem Arr_tx_liquid_eq w sender target m funds w' tr :
  (forall h, w_hub w = Some h -> hp_underlying (h_params h) = usei) ->
  Arr_NR (w_env w) ->
  (sender = A_hub -> funds = []) ->
  run tx_fuel w [(sender, MWasm target m funds)] [] = Some (w', tr) ->
  Forall (fun sm => not_withdraw sm /\ no_gift sm) tr ->
  bal (w_env w') A_hub usei = bal (w_env w) A_hub usei /\ Arr_NR (w_env w').
Proof.
  intros Hu Hnr Hs H Hq.
  destruct (run_preserves_stack_if (Arr_LiqEq (bal (w_env w) A_hub usei))
              (fun sm => not_withdraw sm /\ no_gift sm)
              (fun w s m rest w' out Q J S => Arr_step_liq_eq _ w s m rest w' out Q J S)
              _ _ _ _ _ _ H) as (ex & E & I1).
  cbn [app] in E. subst ex.
  assert (L : Arr_LiqEq (bal (w_env w) A_hub usei) w' []).
  { apply I1; [exact Hq|]. split; [|split; [exact Hu|split; [exact Hnr|]]].
    - constructor; [|constructor]. intros E. cbn [fst snd] in *. apply Hs. exact E.
    - unfold pD, hub_d. cbn [map sumN fst snd dmsg_amt]. destruct (sender =? A_hub); lia. }
  destruct L as (_ & _ & L1 & L). unfold pD in L. cbn [map sumN] in L. split; [lia | exact L1].
Qed.

(** ** 7. the forms used by Arrival.v *)

(** after an advance the entries that remain are exactly those completing later than the new block
    time, with unchanged amounts: for every window [P] *)
Lemma Arr_advance_usum e dt P :
  Arr_usum P (ev_advance e dt) = Arr_usum (fun t => P t && negb (t <=? e_now e + dt)) e.
Proof.
  unfold ev_advance, Arr_usum.
  pose proof (Arr_deliver_spec (set_now e (e_now e + dt))) as H. cbn zeta in H.
  destruct H as (H1 & _). cbn [e_now e_unb set_now] in H1. rewrite H1.
  apply (Arr_lsumU_filter_time P (fun t => negb (t <=? e_now e + dt))).
Qed.

Lemma Arr_advance_frame e dt :
  e_now (ev_advance e dt) = e_now e + dt /\ e_ut (ev_advance e dt) = e_ut e /\
  e_pend (ev_advance e dt) = e_pend e /\ e_wdaddr (ev_advance e dt) = e_wdaddr e /\
  bal (ev_advance e dt) A_hub usei = bal e A_hub usei + Arr_fle e (e_now e + dt).
Proof.
  pose proof (Arr_advance_spec e dt) as H. cbn zeta in H.
  destruct H as (A1 & A2 & A3 & A4 & A5 & _). auto.
Qed.

(** amount of an Undelegate message whose sender is the hub *)
Definition Arr_und_amt (sm : addr * cmsg) : N :=
  if fst sm =? A_hub then match snd sm with MUndelegate _ c => snd c | _ => 0 end else 0.

(** one executed message: block time and chain unbonding time are unchanged; the hub's in-flight
    coins grow by exactly the amount of the message if it is an Undelegate of the hub *)
Theorem Arr_step_usum w s m w' out P :
  step_msg w s m = Some (w', out) ->
  e_now (w_env w') = e_now (w_env w) /\ e_ut (w_env w') = e_ut (w_env w) /\
  Arr_usum P (w_env w') =
  Arr_usum P (w_env w) + (if P (e_now (w_env w) + e_ut (w_env w)) then Arr_und_amt (s, m) else 0).
Proof.
  intros H. pose proof (step_msg_now _ _ _ _ _ H) as Hn.
  destruct (Arr_step_env _ _ _ _ _ H) as [Hu He]. split; [exact Hn|]. split; [exact Hu|].
  unfold Arr_usum. rewrite He, Arr_lsumU_app. f_equal.
  unfold Arr_und_amt. cbn [fst snd].
  destruct m; try (rewrite Arr_lsumU_nil; destruct (s =? A_hub), (P _); reflexivity).
  rewrite Arr_lsumU_cons, Arr_lsumU_nil.
  destruct (s =? A_hub), (P (e_now (w_env w) + e_ut (w_env w))); cbn [andb]; lia.
Qed.
