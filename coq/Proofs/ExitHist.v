(** * ExitHist: C09 capstone — the state premises of the whole-transaction exit theorems
    (Proofs/ExitTx.v, Props/C09w.v) and of the withdrawal theorem (Proofs/FundWorld.v, Props/C01w.v)
    are discharged from reachability, so that "holders can always exit" reads over HISTORIES.

    Main theorems ([w] is always [run_ops ops (empty_world ut)], the world reached by history [ops]):
    - [user_roots_no_reward] / [user_roots_no_hub] / [user_roots_not_bsei] / [user_roots_ops_ok] :
        the ONE signer predicate [user_roots] (no transaction is signed by one of the nine contract
        addresses) implies the signer clauses of C14 ([NoRewardRoot]), C01w ([FW_no_hub_root]) and
        C16 (the signer part of [ops_ok]).
    - [ClockInv_reachable] : E2_clock is an invariant of EVERY history: the hub's last-undelegation time
        is never in the future (set to the block time at instantiate / batch close; time is monotone).
    - [E1_holder_from_rcore] : the C14 invariant [RCore] and "recorded reward balance <= 1e18" give the
        accrual bound [E1_holder] of every holder record (index part AND magnitude part).
    - [exit_premises_reachable] : in [w], under the history envelope, EVERY premise of
        [C09w_unbond_stsei_tx] / [C09w_unbond_bsei_tx] holds (for every user).
    - [exit_stsei_reachable] : any holder's stSei unbond transaction succeeds in [w]; the only hypothesis
        is [ExitEnv w] (no hypothesis on the history at all).
    - [exit_bsei_reachable]  : any holder's bSei unbond transaction succeeds in [w]; history envelope of
        C16 and C14, [ExitEnv w], [RewardE1 w].
    - [exit_reachable]       : both together (the statement of the property).
    - [withdraw_reachable]   : in [w], the release succeeds and every claimant whose released claims
        are worth >= 1 unit gets a successful WithdrawUnbonded transaction paying exactly that value.
    - [exit_withdraw_reachable] : all three conclusions under the union of the envelopes.
    - non-vacuity: [xh_nonvacuous_world1] (history behind world1 of ExitP.v: every hypothesis of
        [exit_reachable] holds, alice / bob exit by the theorem), [xh_ops1_ok_by_theorem] ([ops_ok] from
        [user_roots] and [insts_fresh]), [xh_holders_world1_by_theorem] (the holder bound of
        [exit_premises_reachable] for every address), [xh_nonvacuous_cx] (history
        [FW_ex_pre] of FundWorld.v — bonds, a slash, unbonds, batch close, unbonding period over:
        every hypothesis of [exit_withdraw_reachable] holds; alice and bob can unbond again and bob's
        withdrawal of 14906 succeeds, all by the theorem).

    Engineering note: the concrete worlds of section 7 are exchanged with the histories behind them only
    by [unfold] in the GOAL or by rewriting with a proved equation ([xh_ops1_world], [xh_w2_eq]); a
    [fold] / [change] / [unfold .. in H] / [repeat split] on an equation between them makes Coq compare
    the two sides with the lazy machine, i.e. evaluate the whole history symbolically (does not
    terminate in reasonable time); all evaluation is done by [vm_compute] on closed terms. *)
From Krp Require Import Tactics Prelude Fixed FMap Types Env Registry Cw20 Reward Dispatcher Hub Exec
     ExecP Hist Inv HubFrame HubAdmin Params Cw20P TokenWorld ClaimsStep ClaimsP LifeP GroupRelease
     WithdrawP RewardP RewardWorld BooksEnv BooksHub BooksP MirrorWire MirrorP ExitWorld ExitP ExitTx
     FundWorldHub FundWorld.
Open Scope N_scope.

(** ** 1. one signer predicate for the whole envelope: contracts hold no keys *)
Definition contract_addrs : list addr :=
  [A_hub; A_reward; A_disp; A_reg; A_bsei; A_stsei; A_swap; A_oracle; A_airdrop].

Definition user_root (o : op) : bool :=
  match o with OTx s _ _ _ => negb (existsb (N.eqb s) contract_addrs) | _ => true end.

(** no transaction of the history is signed by one of the nine contract addresses *)
Definition user_roots (ops : list op) : Prop := forallb user_root ops = true.

Lemma user_root_tx s t m f : user_root (OTx s t m f) = true ->
  s <> A_hub /\ s <> A_reward /\ s <> A_disp /\ s <> A_reg /\ s <> A_bsei /\ s <> A_stsei /\
  s <> A_swap /\ s <> A_oracle /\ s <> A_airdrop.
Proof.
  cbn [user_root]. intros H. apply negb_true_iff in H.
  repeat split; intros ->; vm_compute in H; discriminate H.
Qed.

Lemma user_roots_cons o ops : user_roots (o :: ops) -> user_root o = true /\ user_roots ops.
Proof. unfold user_roots. cbn [forallb]. intros H. apply andb_true_iff in H. exact H. Qed.

Lemma user_roots_no_reward ops : user_roots ops -> NoRewardRoot ops.
Proof.
  unfold NoRewardRoot. induction ops as [|o ops IH]; intros H; [constructor|].
  apply user_roots_cons in H. destruct H as [Ho H]. constructor; [|apply IH; exact H].
  destruct o; try exact I. apply user_root_tx in Ho. tauto.
Qed.

Lemma user_roots_no_hub ops : user_roots ops -> forallb FW_no_hub_root ops = true.
Proof.
  induction ops as [|o ops IH]; intros H; [reflexivity|].
  apply user_roots_cons in H. destruct H as [Ho H]. cbn [forallb]. rewrite (IH H), andb_true_r.
  destruct o; try reflexivity. apply user_root_tx in Ho. destruct Ho as [Ho _].
  cbn [FW_no_hub_root]. apply negb_true_iff. apply N.eqb_neq. exact Ho.
Qed.

Lemma user_roots_not_bsei ops : user_roots ops ->
  Forall (fun o => match o with OTx s _ _ _ => s <> A_bsei | _ => True end) ops.
Proof.
  induction ops as [|o ops IH]; intros H; [constructor|].
  apply user_roots_cons in H. destruct H as [Ho H]. constructor; [|apply IH; exact H].
  destruct o; try exact I. apply user_root_tx in Ho. tauto.
Qed.

(** the instantiation part of C16's [ops_ok]: every (re-)instantiation of the bSei token or of the
    reward contract leaves both ledgers empty *)
Fixpoint insts_fresh (ops : list op) (w : world) : Prop :=
  match ops with
  | [] => True
  | o :: r =>
      match o with
      | OInstBsei _ _ _ | OInstReward _ _ _ _ _ => FreshLedgers (fst (step w o))
      | _ => True
      end /\ insts_fresh r (fst (step w o))
  end.

Lemma user_roots_ops_ok ops : forall w, user_roots ops -> insts_fresh ops w -> ops_ok ops w.
Proof.
  induction ops as [|o ops IH]; intros w H HF; cbn [ops_ok]; [exact I|].
  apply user_roots_cons in H. destruct H as [Ho H]. cbn [insts_fresh] in HF. destruct HF as [Hf HF].
  split; [|apply IH; assumption].
  destruct o; cbn [inst_ok]; try exact I; try exact Hf.
  apply user_root_tx in Ho. tauto.
Qed.

(** ** 2. E2_clock is an invariant: the last undelegation time is never in the future *)
Definition ClockInv (w : world) : Prop :=
  forall h, w_hub w = Some h -> hs_lut (h_state h) <= e_now (w_env w).

Lemma step_msg_clock w s m w' out : ClockInv w -> step_msg w s m = Some (w', out) -> ClockInv w'.
Proof.
  intros HI H. pose proof (step_msg_now _ _ _ _ _ H) as Hn.
  apply step_msg_inv in H. destruct H as [e' E _ _ | to wm funds e1 o _ Hsend Hc _].
  - subst w'. intros h Hh. cbn [w_hub set_env] in Hh. rewrite Hn. apply HI. exact Hh.
  - pose proof (send_coins_now _ _ _ _ _ Hsend) as Hn1.
    destruct Hc as [h hm h' _ _ Hw He E | r rm r' _ _ Hw He E | d dm d' _ _ Hw He E
                   | g gm g' _ _ Hw He E | t cm t' _ _ Hw He E | t cm t' _ _ Hw He E
                   | sm e' _ _ He E _ | _ E _]; subst w';
      try (intros h0 Hh0; cbn [w_hub set_hub set_reward set_disp set_reg set_bsei set_stsei set_env] in Hh0;
           rewrite Hn; apply HI; exact Hh0).
    intros h0 Hh0. cbn [w_hub set_hub] in Hh0. inversion Hh0; subst h0. rewrite Hn.
    cbn [w_hub set_env] in Hw. specialize (HI h Hw).
    destruct (exec_close_or_not _ _ _ _ _ _ _ _ He)
      as [(_ & Hl & _) | (user & amount & rb & rs & msgs & _ & _ & Hcl)].
    + rewrite Hl. exact HI.
    + apply closes_closed in Hcl. destruct Hcl as (_ & _ & _ & Hlut & _).
      rewrite Hlut. cbn [w_env set_env]. lia.
Qed.

(** operations that neither replace the hub's state record nor reset the chain keep the invariant *)
Lemma step_clock_same_state w o :
  (forall ut, o <> OReset ut) ->
  (forall h', w_hub (fst (step w o)) = Some h' ->
              exists h, w_hub w = Some h /\ hs_lut (h_state h') = hs_lut (h_state h)) ->
  ClockInv w -> ClockInv (fst (step w o)).
Proof.
  intros Hnr Hsame HI h' Hh'. destruct (Hsame h' Hh') as (h & Hh & E).
  pose proof (step_now_monotone w o Hnr) as Hm. specialize (HI h Hh). lia.
Qed.

Lemma step_clock w o : ClockInv w -> ClockInv (fst (step w o)).
Proof.
  intros HI.
  destruct o;
    try (apply step_clock_same_state; [intros ut0; discriminate | | exact HI];
         cbn [step];
         try match goal with |- context [if ?c then _ else _] => destruct c end;
         try match goal with |- context [match ?c with Some _ => _ | None => _ end] => destruct c eqn:Ec end;
         cbn [fst w_hub set_env set_hub set_w_reward set_w_disp set_w_reg set_w_bsei set_w_stsei];
         intros h' Hh'; first [ exists h'; split; [exact Hh' | reflexivity]
                              | inversion Hh'; subst h'; eexists; split; [reflexivity | reflexivity]
                              | congruence ]).
  - (* reset *) intros h Hh. discriminate Hh.
  - (* instantiate hub: lut := now *)
    unfold ClockInv. cbn [step fst w_hub set_w_hub w_env]. intros h Hh.
    unfold hub_instantiate in Hh. check_inv Hh as Hf. inversion Hh; subst h. cbn [h_state hs_lut]. lia.
  - (* transaction *)
    cbn [step]. destruct (run tx_fuel w _ []) as [[w1 tr1]|] eqn:E; cbn [fst]; [|exact HI].
    eapply (run_preserves ClockInv); [|exact HI|exact E].
    intros. eapply step_msg_clock; eauto.
Qed.

Theorem ClockInv_reachable ut ops : ClockInv (run_ops ops (empty_world ut)).
Proof.
  apply run_ops_preserves.
  - intros h Hh. discriminate Hh.
  - intros w o. apply step_clock.
Qed.

(** ** 3. the reward-holder bound of the bSei exit: index part from the C14 invariant, magnitude part
    from the C14 invariant and the E1 bound on the recorded reward balance *)
Lemma E1_holder_from_rcore r a : RCore r -> rw_prev r <= LIM -> E1_holder r a.
Proof.
  intros (Hs & _ & Hi & _) Hp. split; [apply idx_ok_holder; exact Hi|].
  assert (HN : NoDup [a]) by (constructor; [intros []|constructor]).
  pose proof (holders_sum_le r [a] HN) as H. cbn [map sumN] in H. unfold acc, hacc in H.
  pose proof ExitP.LIM_D_fits as HF.
  assert (HM : rw_prev r * D <= LIM * D) by (apply N.mul_le_mono_r; exact Hp).
  eapply N.le_trans; [|exact HF]. eapply N.le_trans; [|exact HM]. eapply N.le_trans; [|exact Hs].
  rewrite N.add_0_r in H. exact H.
Qed.

(** ** 4. what is NOT an invariant: the envelope at the reached world *)

(** E4 (wiring), hub not paused, E1 magnitudes of the exit path (delegated, booked, claims of both
    tokens, batch id, open-batch wait entries <= 1e18), and "not in the known class F5" after the
    pool synchronisation *)
Definition ExitEnv (w : world) : Prop :=
  Wired w /\
  forall h tb ts, w_hub w = Some h -> w_bsei w = Some tb -> w_stsei w = Some ts ->
    paused h = false /\ E1_exit w h tb ts /\ BackedSynced w h tb ts.

(** E1 for the reward contract: the recorded balance of the reward coin is at most 1e18 *)
Definition RewardE1 (w : world) : Prop := forall r, w_reward w = Some r -> rw_prev r <= LIM.

(** premises of the exit theorems that hold in a world satisfying the history-independent invariants *)
Lemma exit_premises_inv w :
  TokInv w -> PInv w -> ClockInv w -> EntWf w -> ExitEnv w ->
  exists h tb ts r,
    w_hub w = Some h /\ w_bsei w = Some tb /\ w_stsei w = Some ts /\ w_reward w = Some r /\
    Wired w /\ TInv tb /\ TInv ts /\ paused h = false /\ HPInv h /\ E1_exit w h tb ts /\
    E2_clock w h /\ BooksSynced w h /\ BackedSynced w h tb ts /\ DelWf (w_env w).
Proof.
  intros [HTb HTs] [HP _] HC [Hwf HEnt] [HW HX].
  destruct (Wired_inv w HW) as (h & r & d & g & tb & ts & Eh & Er & Ed & Eg & Eb & Es & _).
  destruct (HX h tb ts Eh Eb Es) as (Hpz & HE1 & HBa).
  exists h, tb, ts, r. do 4 (split; [assumption|]). split; [exact HW|].
  split; [apply HTb; exact Eb|]. split; [apply HTs; exact Es|]. split; [exact Hpz|].
  split; [apply HP; exact Eh|]. split; [exact HE1|]. split; [apply HC; exact Eh|].
  split; [|split; [exact HBa|exact Hwf]].
  apply (BooksSynced_intro w h tb ts); [apply Wired_hub; assumption|].
  intros Hnil. destruct (HEnt h Eh) as [Z|NZ]; [exact Z|contradiction].
Qed.

(** every premise of [unbond_tx_stsei] / [unbond_tx_bsei], in every world reached inside the envelope *)
Theorem exit_premises_reachable d0 ut ops :
  always MirrorEnv ops (empty_world ut) -> ops_ok ops (empty_world ut) ->
  user_roots ops -> always (REnv d0) ops (empty_world ut) ->
  let w := run_ops ops (empty_world ut) in
  ExitEnv w -> RewardE1 w ->
  exists h tb ts r,
    w_hub w = Some h /\ w_bsei w = Some tb /\ w_stsei w = Some ts /\ w_reward w = Some r /\
    Wired w /\ Mirror w /\ TInv tb /\ TInv ts /\ paused h = false /\ HPInv h /\ E1_exit w h tb ts /\
    E2_clock w h /\ BooksSynced w h /\ BackedSynced w h tb ts /\ DelWf (w_env w) /\
    forall u, E1_holder r u.
Proof.
  intros HME Hok Hur HRE w HE HR1.
  destruct (exit_premises_inv w (TokInv_reachable ut ops) (PInv_reachable ut ops)
              (ClockInv_reachable ut ops) (EntWf_reachable ut ops) HE)
    as (h & tb & ts & r & Eh & Eb & Es & Er & P1 & P2 & P3 & P4 & P5 & P6 & P7 & P8 & P9 & P10).
  exists h, tb, ts, r. do 5 (split; [assumption|]).
  split; [apply always_final; apply mirror_genesis; assumption|].
  do 9 (split; [assumption|]).
  intros u.
  pose proof (rwinv_from_empty d0 ut ops (user_roots_no_reward ops Hur) HRE r Er) as [HRC _].
  apply E1_holder_from_rcore; [exact HRC | apply HR1; exact Er].
Qed.

(** ** 5. holders can always exit *)

(** stSei: NO hypothesis on the history — every state premise other than [ExitEnv] is an
    unconditional invariant (C18 ledger, C20 parameter ranges, clock, C02 delegation table) *)
Theorem exit_stsei_reachable ut ops :
  let w := run_ops ops (empty_world ut) in
  ExitEnv w ->
  forall user a ts, w_stsei w = Some ts -> user <> A_hub -> 0 < a <= tbal ts user ->
    fst (snd (step w (OTx user A_stsei (WCw20 (CSend A_hub a HkUnbond)) []))) = true.
Proof.
  intros w HE user a ts0 Es0 Hne Ha.
  destruct (exit_premises_inv w (TokInv_reachable ut ops) (PInv_reachable ut ops)
              (ClockInv_reachable ut ops) (EntWf_reachable ut ops) HE)
    as (h & tb & ts & r & Eh & Eb & Es & Er & P1 & P2 & P3 & P4 & P5 & P6 & P7 & P8 & P9 & P10).
  assert (ts0 = ts) by congruence. subst ts0.
  eapply unbond_tx_stsei_step; eassumption.
Qed.

Theorem exit_bsei_reachable d0 ut ops :
  always MirrorEnv ops (empty_world ut) -> ops_ok ops (empty_world ut) ->
  user_roots ops -> always (REnv d0) ops (empty_world ut) ->
  let w := run_ops ops (empty_world ut) in
  ExitEnv w -> RewardE1 w ->
  forall user a tb, w_bsei w = Some tb -> user <> A_hub -> 0 < a <= tbal tb user ->
    fst (snd (step w (OTx user A_bsei (WCw20 (CSend A_hub a HkUnbond)) []))) = true.
Proof.
  intros HME Hok Hur HRE w HE HR1 user a tb0 Eb0 Hne Ha.
  destruct (exit_premises_reachable d0 ut ops HME Hok Hur HRE HE HR1)
    as (h & tb & ts & r & Eh & Eb & Es & Er & P1 & PM & P2 & P3 & P4 & P5 & P6 & P7 & P8 & P9 & P10 & PH).
  fold w in Eh, Eb, Es, Er, P1, PM, P6, P7, P8, P9, P10.
  assert (tb0 = tb) by congruence. subst tb0.
  eapply (unbond_tx_bsei_step w h tb ts r user a); try eassumption; apply PH.
Qed.

(** the property: in every world reached inside the envelope, any holder can unbond any positive
    part of its stSei or bSei balance *)
Theorem exit_reachable d0 ut ops :
  always MirrorEnv ops (empty_world ut) -> ops_ok ops (empty_world ut) ->
  user_roots ops -> always (REnv d0) ops (empty_world ut) ->
  let w := run_ops ops (empty_world ut) in
  ExitEnv w -> RewardE1 w ->
  forall user a, user <> A_hub -> 0 < a ->
    (forall ts, w_stsei w = Some ts -> a <= tbal ts user ->
       fst (snd (step w (OTx user A_stsei (WCw20 (CSend A_hub a HkUnbond)) []))) = true) /\
    (forall tb, w_bsei w = Some tb -> a <= tbal tb user ->
       fst (snd (step w (OTx user A_bsei (WCw20 (CSend A_hub a HkUnbond)) []))) = true).
Proof.
  intros HME Hok Hur HRE w HE HR1 user a Hne Ha. split.
  - intros ts Es Hle. apply (exit_stsei_reachable ut ops HE user a ts Es Hne). lia.
  - intros tb Eb Hle. apply (exit_bsei_reachable d0 ut ops HME Hok Hur HRE HE HR1 user a tb Eb Hne). lia.
Qed.

(** ** 6. ... and withdraw once released *)

(** envelope of the withdrawal at the reached world: not paused, the block time is at least the
    unbonding period (otherwise `now - unbonding_period` underflows), and the E1 magnitudes of the
    group of batches this withdrawal releases *)
Definition WithdrawEnv (w : world) : Prop :=
  forall h, w_hub w = Some h ->
    paused h = false /\ hp_unbonding (h_params h) <= e_now (w_env w) /\
    WD_E1 (GR_group h (e_now (w_env w) - hp_unbonding (h_params h))) (bal (w_env w) A_hub usei).

Theorem withdraw_reachable ut ops :
  legacy_free ops = true -> user_roots ops -> forallb FW_hub_usei ops = true ->
  always FW_RelEnv ops (empty_world ut) ->
  let w := run_ops ops (empty_world ut) in
  WithdrawEnv w ->
  forall h, w_hub w = Some h ->
  let balance := bal (w_env w) A_hub usei in
  let t := e_now (w_env w) - hp_unbonding (h_params h) in
  exists h1,
    process_withdraw_rate h t balance = Some h1 /\
    forall u, 1 <= WD_user_val h1 u ->
      let v := WD_user_val h1 u in
      exists w',
        step w (OTx u A_hub (WHub HWithdraw) []) =
        (w', (true, [(u, MWasm A_hub (WHub HWithdraw) []); (A_hub, MBank u [(usei, v)])])) /\
        w_hub w' = Some (WD_paid h1 u balance) /\
        (u <> A_hub -> bal (w_env w') u usei = bal (w_env w) u usei + v /\
                       bal (w_env w') A_hub usei = balance - v).
Proof.
  intros HL Hur HU HRel w HWE h Eh balance t.
  destruct (HWE h Eh) as (Hpz & Hub & HE1).
  pose proof (user_roots_no_hub ops Hur) as HNH.
  destruct (FW_withdraw_tx_succeeds ut ops h A_hub HL HNH HU HRel Eh Hpz Hub HE1) as (h1 & Hp & _).
  exists h1. split; [exact Hp|]. intros u Hv.
  destruct (FW_withdraw_tx_succeeds ut ops h u HL HNH HU HRel Eh Hpz Hub HE1) as (h1' & Hp' & Hw).
  fold w in Hp, Hp', Hw. fold balance in Hp, Hp', Hw. fold t in Hp, Hp'.
  assert (h1' = h1) by congruence. subst h1'. exact (Hw Hv).
Qed.

(** everything together: one history envelope, three conclusions *)
Theorem exit_withdraw_reachable d0 ut ops :
  always MirrorEnv ops (empty_world ut) -> ops_ok ops (empty_world ut) ->
  user_roots ops -> always (REnv d0) ops (empty_world ut) ->
  legacy_free ops = true -> forallb FW_hub_usei ops = true -> always FW_RelEnv ops (empty_world ut) ->
  let w := run_ops ops (empty_world ut) in
  (ExitEnv w -> RewardE1 w ->
   forall user a, user <> A_hub -> 0 < a ->
     (forall ts, w_stsei w = Some ts -> a <= tbal ts user ->
        fst (snd (step w (OTx user A_stsei (WCw20 (CSend A_hub a HkUnbond)) []))) = true) /\
     (forall tb, w_bsei w = Some tb -> a <= tbal tb user ->
        fst (snd (step w (OTx user A_bsei (WCw20 (CSend A_hub a HkUnbond)) []))) = true)) /\
  (WithdrawEnv w ->
   forall h, w_hub w = Some h ->
   exists h1,
     process_withdraw_rate h (e_now (w_env w) - hp_unbonding (h_params h)) (bal (w_env w) A_hub usei)
       = Some h1 /\
     forall u, 1 <= WD_user_val h1 u ->
       fst (snd (step w (OTx u A_hub (WHub HWithdraw) []))) = true /\
       (u <> A_hub ->
        bal (w_env (fst (step w (OTx u A_hub (WHub HWithdraw) [])))) u usei
          = bal (w_env w) u usei + WD_user_val h1 u)).
Proof.
  intros HME Hok Hur HRE HL HU HRel w. split.
  - intros HE HR1. exact (exit_reachable d0 ut ops HME Hok Hur HRE HE HR1).
  - intros HWE h Eh.
    destruct (withdraw_reachable ut ops HL Hur HU HRel HWE h Eh) as (h1 & Hp & Hw).
    exists h1. split; [exact Hp|]. intros u Hv. destruct (Hw u Hv) as (w' & Hs & _ & Hb).
    fold w in Hs. rewrite Hs. cbn [fst snd]. split; [reflexivity|]. intros Hne. apply Hb. exact Hne.
Qed.

(** ** 7. non-vacuity *)

(** *** 7a. the history behind [world1] (Proofs/ExitWorld.v, Proofs/ExitP.v): deploy, wire, alice bonds
    for bSei, bob for stSei, 31 s pass (the epoch is over) *)
Definition xh_ops1 : list op := genesis_ops ++ [OAdvance 31].

Lemma xh_ops1_world : run_ops xh_ops1 (empty_world 100) = world1.
Proof. unfold xh_ops1, world1, world0. rewrite xt_run_ops_app. reflexivity. Qed.

Ltac xh_mirror_env :=
  vm_compute;
  repeat match goal with
         | |- _ /\ _ => split
         | |- True => exact I
         | |- _ \/ _ =>
             first [ solve [ left; split; intros x E; first [discriminate E | inversion E; subst; split; reflexivity] ]
                   | solve [ right; repeat split ] ]
         end.

Ltac xh_ops_ok :=
  vm_compute;
  repeat match goal with
         | |- _ /\ _ => split
         | |- True => exact I
         | |- _ <> _ => discriminate
         | |- _ = _ -> False => discriminate
         | |- forall x, _ = Some x -> _ =>
             intros x E; first [discriminate E | inversion E; subst; split; reflexivity]
         end.

Ltac xh_renv :=
  cbn [always app];
  repeat (split; [apply renv_check; vm_compute; try exact I;
                  repeat split; try reflexivity; intros [X|[]]; discriminate X|]);
  exact I.

Lemma xh_ops1_mirror_env : always MirrorEnv xh_ops1 (empty_world 100).
Proof. xh_mirror_env. Qed.

Lemma xh_ops1_ok : ops_ok xh_ops1 (empty_world 100).
Proof. xh_ops_ok. Qed.

Lemma xh_ops1_roots : user_roots xh_ops1.
Proof. vm_compute. reflexivity. Qed.

(** the instantiation clause [insts_fresh] of [user_roots_ops_ok] holds along this history, so C16's
    [ops_ok] is also obtained from the two named predicates by that theorem *)
Lemma xh_ops1_insts_fresh : insts_fresh xh_ops1 (empty_world 100).
Proof. xh_ops_ok. Qed.

Example xh_ops1_ok_by_theorem : ops_ok xh_ops1 (empty_world 100).
Proof. exact (user_roots_ops_ok xh_ops1 (empty_world 100) xh_ops1_roots xh_ops1_insts_fresh). Qed.

Lemma xh_ops1_renv : always (REnv uusd) xh_ops1 (empty_world 100).
Proof. unfold xh_ops1, genesis_ops. xh_renv. Qed.

Lemma xh_world1_env : ExitEnv world1 /\ RewardE1 world1.
Proof.
  destruct xt_premises_world1 as (P1 & _ & Eh & Eb & Es & Er & _ & _ & P5 & _ & P7 & _ & _ & _ & _ & P10 & _).
  split.
  - split; [exact P1|]. intros h tb ts Eh' Eb' Es'.
    assert (h = hub1) by congruence. assert (tb = tb1) by congruence. assert (ts = ts1) by congruence.
    subst. tauto.
  - intros r Er'. assert (r = reward_of world1) by congruence. subst r. vm_compute. discriminate.
Qed.

(** every hypothesis of [exit_reachable] holds for this history, and the theorem lets alice unbond any
    part of her 1 000 000 bSei and bob any part of his 2 000 000 stSei *)
Example xh_nonvacuous_world1 :
  always MirrorEnv xh_ops1 (empty_world 100) /\ ops_ok xh_ops1 (empty_world 100) /\
  user_roots xh_ops1 /\ always (REnv uusd) xh_ops1 (empty_world 100) /\
  let w := run_ops xh_ops1 (empty_world 100) in
  ExitEnv w /\ RewardE1 w /\
  (forall a, 0 < a <= 1000000 ->
     fst (snd (step w (OTx alice A_bsei (WCw20 (CSend A_hub a HkUnbond)) []))) = true) /\
  (forall a, 0 < a <= 2000000 ->
     fst (snd (step w (OTx bob A_stsei (WCw20 (CSend A_hub a HkUnbond)) []))) = true).
Proof.
  split; [exact xh_ops1_mirror_env|]. split; [exact xh_ops1_ok|]. split; [exact xh_ops1_roots|].
  split; [exact xh_ops1_renv|]. cbv zeta.
  pose proof (exit_reachable uusd 100 xh_ops1 xh_ops1_mirror_env xh_ops1_ok xh_ops1_roots xh_ops1_renv) as T.
  cbv zeta in T. rewrite xh_ops1_world in *. destruct xh_world1_env as [HE HR].
  split; [exact HE|]. split; [exact HR|]. specialize (T HE HR).
  destruct xt_premises_world1 as (_ & _ & _ & Eb & Es & _ & _ & _ & _ & _ & _ & _ & _ & _ & _ & _ & _ & _ & Ba & Bb & Na & Nb).
  split; intros a Ha.
  - destruct (T alice a Na (proj1 Ha)) as [_ T2]. apply (T2 tb1 Eb). rewrite Ba. lia.
  - destruct (T bob a Nb (proj1 Ha)) as [T1 _]. apply (T1 ts1 Es). rewrite Bb. lia.
Qed.

(** [exit_premises_reachable] (hence [E1_holder_from_rcore]) applied to the same history: the accrual
    bound of EVERY holder record of the reward contract of [world1] *)
Example xh_holders_world1_by_theorem : forall u, E1_holder (reward_of world1) u.
Proof.
  pose proof (exit_premises_reachable uusd 100 xh_ops1 xh_ops1_mirror_env xh_ops1_ok xh_ops1_roots
                xh_ops1_renv) as T.
  cbv zeta in T. rewrite xh_ops1_world in T. destruct xh_world1_env as [HE HR].
  destruct (T HE HR) as (h & tb & ts & r & _ & _ & _ & Er & T').
  do 11 (destruct T' as [_ T']).
  destruct xt_premises_world1 as (_ & _ & _ & _ & _ & Er1 & _).
  rewrite Er1 in Er. apply some_inj in Er. subst r. exact T'.
Qed.

(** *** 7b. the history [FW_ex_pre] (Proofs/ClaimsP.v, Proofs/FundWorld.v): deploy, wire, alice bonds
    100 000 for bSei, bob 50 000 for stSei, validator 0 is slashed by 1 %, alice and bob unbond (directly
    and by allowance), 31 s later alice's next unbond closes the batch, the unbonding period passes *)
Definition xh_w2 : world := run_ops FW_ex_pre (empty_world 100).
Definition xh_h2 : hub := hub_of xh_w2.
Definition xh_tb2 : token := tok_of (w_bsei xh_w2).
Definition xh_ts2 : token := tok_of (w_stsei xh_w2).

Lemma xh_w2_parts :
  w_hub xh_w2 = Some xh_h2 /\ w_bsei xh_w2 = Some xh_tb2 /\ w_stsei xh_w2 = Some xh_ts2 /\
  w_reward xh_w2 = Some (reward_of xh_w2).
Proof. split; [|split; [|split]]; vm_compute; reflexivity. Qed.

Lemma xh_synced_2 : slashing xh_w2 A_hub xh_h2 = Some (synced_of xh_w2 xh_h2).
Proof. vm_compute. reflexivity. Qed.

Lemma xh_w2_env : ExitEnv xh_w2 /\ RewardE1 xh_w2.
Proof.
  destruct xh_w2_parts as (Eh & Eb & Es & Er). split.
  - split; [vm_compute; repeat split|]. intros h tb ts Eh' Eb' Es'.
    assert (h = xh_h2) by congruence. assert (tb = xh_tb2) by congruence. assert (ts = xh_ts2) by congruence.
    subst. split; [vm_compute; reflexivity|]. split.
    + unfold E1_exit. do 5 (split; [vm_compute; discriminate|]).
      intros u. apply (wait_bounded_of_forallb xh_h2). vm_compute. reflexivity.
    + intros h1 H. rewrite xh_synced_2 in H. apply some_inj in H. subst h1.
      split; intros _; vm_compute; reflexivity.
  - intros r Er'. assert (r = reward_of xh_w2) by congruence. subst r. vm_compute. discriminate.
Qed.

Lemma xh_ops2_mirror_env : always MirrorEnv FW_ex_pre (empty_world 100).
Proof. xh_mirror_env. Qed.

Lemma xh_ops2_ok : ops_ok FW_ex_pre (empty_world 100).
Proof. xh_ops_ok. Qed.

Lemma xh_ops2_roots : user_roots FW_ex_pre.
Proof. vm_compute. reflexivity. Qed.

Lemma xh_ops2_renv : always (REnv uusd) FW_ex_pre (empty_world 100).
Proof. unfold FW_ex_pre, cx_setup, cx_acts1, cx_acts2. xh_renv. Qed.


(** [xh_w2] and the history behind it are exchanged by REWRITING with this equation only (never by
    [fold]/[change]/[unfold .. in H]: a conversion check in the wrong direction makes Coq evaluate the
    whole history with the lazy kernel machine, which does not terminate in reasonable time) *)
Lemma xh_w2_eq : xh_w2 = run_ops FW_ex_pre (empty_world 100).
Proof. unfold xh_w2. reflexivity. Qed.

Lemma xh_w2_withdraw_env : WithdrawEnv xh_w2.
Proof.
  destruct FW_withdraw_nonvacuous as (_ & _ & _ & _ & T). cbv zeta in T. rewrite xh_w2_eq.
  destruct T as (h & h1 & Eh & Hp & Hu & HE & _).
  intros h' Eh'. rewrite Eh in Eh'. apply some_inj in Eh'. subst h'.
  exact (conj Hp (conj Hu HE)).
Qed.

(** the value of bob's released claims in the reached world, read off [FW_withdraw_nonvacuous] *)
Lemma xh_w2_bob_val h1 :
  process_withdraw_rate xh_h2 (e_now (w_env xh_w2) - hp_unbonding (h_params xh_h2))
    (bal (w_env xh_w2) A_hub usei) = Some h1 ->
  WD_user_val h1 cx_bob = 14906.
Proof.
  destruct FW_withdraw_nonvacuous as (_ & _ & _ & _ & T). cbv zeta in T.
  destruct T as (h & h1' & Eh & _ & _ & _ & Hp & _ & V & _).
  destruct xh_w2_parts as (Eh2 & _). rewrite xh_w2_eq in Eh2 |- *.
  rewrite Eh2 in Eh. apply some_inj in Eh. subst h.
  intros Hp1. rewrite Hp in Hp1. apply some_inj in Hp1. subst h1'. exact V.
Qed.

(** every hypothesis of [exit_withdraw_reachable] holds for this history; in the reached world (pools
    slashed, a closed batch waiting, alice still holds 74 000 bSei and bob 40 000 stSei) both can unbond
    any part of their balances, and bob's matured claim of 14906 is paid — all by the theorem *)
Example xh_nonvacuous_cx :
  always MirrorEnv FW_ex_pre (empty_world 100) /\ ops_ok FW_ex_pre (empty_world 100) /\
  user_roots FW_ex_pre /\ always (REnv uusd) FW_ex_pre (empty_world 100) /\
  legacy_free FW_ex_pre = true /\ forallb FW_hub_usei FW_ex_pre = true /\
  always FW_RelEnv FW_ex_pre (empty_world 100) /\
  let w := run_ops FW_ex_pre (empty_world 100) in
  ExitEnv w /\ RewardE1 w /\ WithdrawEnv w /\
  (forall a, 0 < a <= 74000 ->
     fst (snd (step w (OTx cx_alice A_bsei (WCw20 (CSend A_hub a HkUnbond)) []))) = true) /\
  (forall a, 0 < a <= 40000 ->
     fst (snd (step w (OTx cx_bob A_stsei (WCw20 (CSend A_hub a HkUnbond)) []))) = true) /\
  fst (snd (step w (OTx cx_bob A_hub (WHub HWithdraw) []))) = true /\
  bal (w_env (fst (step w (OTx cx_bob A_hub (WHub HWithdraw) [])))) cx_bob usei
    = bal (w_env w) cx_bob usei + 14906.
Proof.
  destruct (FW_ex_envelope FW_ex_pre (or_introl eq_refl)) as (HL & _ & HU & HRel).
  split; [exact xh_ops2_mirror_env|]. split; [exact xh_ops2_ok|]. split; [exact xh_ops2_roots|].
  split; [exact xh_ops2_renv|]. split; [exact HL|]. split; [exact HU|]. split; [exact HRel|]. cbv zeta.
  pose proof (exit_withdraw_reachable uusd 100 FW_ex_pre xh_ops2_mirror_env xh_ops2_ok xh_ops2_roots
                xh_ops2_renv HL HU HRel) as T.
  cbv zeta in T. destruct xh_w2_env as [HE HR]. pose proof xh_w2_withdraw_env as HWE.
  destruct xh_w2_parts as (Eh & Eb & Es & _).
  pose proof (xh_w2_bob_val) as HV.
  rewrite xh_w2_eq in HE, HR, HWE, Eh, Eb, Es, HV.
  split; [exact HE|]. split; [exact HR|]. split; [exact HWE|].
  destruct T as [T1 T2]. specialize (T1 HE HR).
  split; [|split].
  - intros a Ha. assert (Na : cx_alice <> A_hub) by discriminate.
    destruct (T1 cx_alice a Na (proj1 Ha)) as [_ T1b]. apply (T1b xh_tb2 Eb).
    assert (B : tbal xh_tb2 cx_alice = 74000) by (vm_compute; reflexivity). rewrite B. lia.
  - intros a Ha. assert (Nb : cx_bob <> A_hub) by discriminate.
    destruct (T1 cx_bob a Nb (proj1 Ha)) as [T1s _]. apply (T1s xh_ts2 Es).
    assert (B : tbal xh_ts2 cx_bob = 40000) by (vm_compute; reflexivity). rewrite B. lia.
  - destruct (T2 HWE xh_h2 Eh) as (h1 & Hp & Hw).
    pose proof (HV h1 Hp) as V.
    assert (V1 : 1 <= WD_user_val h1 cx_bob) by (rewrite V; lia).
    destruct (Hw cx_bob V1) as [W1 W2]. split; [exact W1|]. rewrite <- V. apply W2. discriminate.
Qed.
