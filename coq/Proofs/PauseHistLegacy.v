(** * PauseHistLegacy (helper of PauseHist, C11 at world / history level, part 2):
    legacy wait-list entries keep the hub paused along histories.

    - [LegacyLocked w]: if the hub of [w] has legacy wait-list entries then it is paused;
    - [legacy_guard w o]: the only operation of the alphabet that can break it: [OLegacyWait]
      (the model's device for "the old storage contained entries") applied to an UN-paused hub;
      [legacy_inject_witness]: it does break it;
    - [hub_execute_legacy], [step_msg_legacy], [step_legacy]: every hub message, every message of
      any contract, every guarded operation preserves [LegacyLocked];
    - [guarded G ops w]: [G w_i o_i] holds at every step of the history;
    - [legacy_locked_history], [legacy_locked_always], [legacy_locked_reachable]: hence in every
      world of every guarded history (in particular of every history from the empty world) the hub
      is never un-paused while legacy entries remain;
    - [hub_execute_oldwait] ... [oldwait_only_migrate]: the legacy wait list of the hub is changed by
      NO operation of the alphabet other than a root MigrateUnbondWaitList to the hub (and the
      external [OReset] / [OInstHub] / [OLegacyWait]);
    - [migrate_oldwait_sub], [migrate_tx_oldwait]: and the migration only removes entries. *)
From Krp Require Import Tactics Prelude Fixed FMap Types Env Registry Cw20 Reward Dispatcher Hub Exec
     ExecP Hist HubFrame HubAdmin Auth Pause MirrorWire PauseHistFrozen.
Open Scope N_scope.

Definition LegacyLocked (w : world) : Prop :=
  forall h, w_hub w = Some h -> h_oldwait h <> [] -> paused h = true.

(** injecting legacy entries from outside is only allowed into a paused hub *)
Definition legacy_guard (w : world) (o : op) : Prop :=
  match o with
  | OLegacyWait _ _ _ => forall h, w_hub w = Some h -> paused h = true
  | _ => True
  end.

(** ** the hub handlers *)
Lemma paused_params_eq h h' : h_params h' = h_params h -> paused h' = paused h.
Proof. unfold paused. intros ->. reflexivity. Qed.

Lemma migrate_legacy h limit :
  paused h = true -> h_oldwait (migrate_wait_lists h limit) <> [] ->
  paused (migrate_wait_lists h limit) = true.
Proof.
  unfold migrate_wait_lists. intros Hp.
  destruct (firstn _ (h_oldwait h)) as [|e0 er]; [intros _; exact Hp|].
  destruct (fold_left _ (e0 :: er) (h_oldwait h)) as [|x l] eqn:Eo.
  - cbn. intros H. exfalso. apply H. reflexivity.
  - intros _. cbn. exact Hp.
Qed.

Lemma hub_execute_legacy w h self sender funds m h' out :
  hub_execute w h self sender funds m = Some (h', out) ->
  (h_oldwait h <> [] -> paused h = true) -> (h_oldwait h' <> [] -> paused h' = true).
Proof.
  intros H Hl. destruct (is_admin_msg m) eqn:Ha.
  - unfold hub_execute in H. destruct m; try discriminate Ha.
    + (* HParams *) apply update_params_spec in H. destruct H as (_ & _ & Ho & _ & ->).
      cbn [h_oldwait set_h_params]. intros Hne. unfold Hub.paused. cbn [h_params set_h_params new_params hp_paused].
      destruct paused as [[|]|]; [reflexivity | |]; exfalso; apply Hne; apply Ho; congruence.
    + (* HConfig *) check_inv H as Hp. apply update_config_spec in H.
      destruct H as (_ & _ & _ & Hpar & _ & How & _). rewrite How, (paused_params_eq _ _ Hpar). exact Hl.
    + check_inv H as Hp. check_inv H as Hs. inversion H; subst. exact Hl.
    + check_inv H as Hp. check_inv H as Hs. inversion H; subst. exact Hl.
    + (* HMigrate *) destruct (Hub.paused h) eqn:Hp; [|discriminate]. inversion H; subst.
      apply migrate_legacy. exact Hp.
  - apply hub_execute_static in H; [|exact Ha]. destruct H as (_ & Hpar & _ & How).
    rewrite How, (paused_params_eq _ _ Hpar). exact Hl.
Qed.

(** ** messages, transactions, operations *)
Lemma step_msg_legacy w s m w' out :
  LegacyLocked w -> step_msg w s m = Some (w', out) -> LegacyLocked w'.
Proof.
  intros HL H. apply step_msg_inv in H.
  destruct H as [e' -> _ _ | to wm funds e1 o _ _ Hc _]; [exact HL|].
  destruct Hc as [h hm h' _ _ Hw He -> | r rm r' _ _ _ _ -> | d dm d' _ _ _ _ -> | g gm g' _ _ _ _ ->
                 | t cm t' _ _ _ _ -> | t cm t' _ _ _ _ -> | sm e' _ _ _ -> _ | _ -> _];
    try exact HL.
  intros h0 E. cbn [w_hub set_hub] in E. inversion E; subst h0.
  eapply hub_execute_legacy; [exact He|]. apply HL. exact Hw.
Qed.

Lemma step_legacy w o : LegacyLocked w -> legacy_guard w o -> LegacyLocked (fst (step w o)).
Proof.
  intros HL Hg. destruct o; cbn [step]; try exact HL.
  - intros h E. discriminate E.
  - destruct (e_now (w_env w) + dt <=? 18446744073); exact HL.
  - destruct (ev_slash _ _ _ _ _); exact HL.
  - destruct (ev_accrue _ _ _ _ _); exact HL.
  - destruct (p =? 0); exact HL.
  - (* legacy wait: guarded *) destruct (w_hub w) as [h|] eqn:Hw; [|exact HL]. cbn [fst].
    intros h0 E _. cbn [w_hub set_hub] in E. inversion E; subst h0.
    cbn [legacy_guard] in Hg. unfold paused. cbn [h_params set_h_oldwait]. apply (Hg h Hw).
  - (* inst hub *) cbn [fst]. intros h E. cbn [w_hub set_w_hub] in E.
    unfold hub_instantiate in E. check_inv E as Hf. inversion E; subst. cbn [h_oldwait].
    intros Hne. exfalso. apply Hne. reflexivity.
  - (* tx *) destruct (run tx_fuel w _ []) as [[w1 tr1]|] eqn:E; cbn [fst]; [|exact HL].
    eapply (run_preserves LegacyLocked); [|exact HL|exact E].
    intros w0 s0 m0 w2 out0 H0 Hs. eapply step_msg_legacy; eauto.
Qed.

(** ** histories *)
Fixpoint guarded (G : world -> op -> Prop) (ops : list op) (w : world) : Prop :=
  match ops with
  | [] => True
  | o :: r => G w o /\ guarded G r (fst (step w o))
  end.

Lemma guarded_app G ops1 : forall ops2 w,
  guarded G (ops1 ++ ops2) w -> guarded G ops1 w /\ guarded G ops2 (run_ops ops1 w).
Proof.
  induction ops1 as [|o ops1 IH]; intros ops2 w H; cbn [app guarded] in *; [auto|].
  destruct H as [H1 H2]. apply IH in H2. tauto.
Qed.

Theorem legacy_locked_history : forall ops w,
  LegacyLocked w -> guarded legacy_guard ops w -> LegacyLocked (run_ops ops w).
Proof.
  induction ops as [|o ops IH]; intros w HL Hg; [exact HL|].
  cbn [guarded] in Hg. destruct Hg as [Hg1 Hg2].
  change (run_ops (o :: ops) w) with (run_ops ops (fst (step w o))).
  apply IH; [apply step_legacy; assumption | exact Hg2].
Qed.

(** ... in every intermediate world of the history *)
Theorem legacy_locked_always ops1 ops2 w :
  LegacyLocked w -> guarded legacy_guard (ops1 ++ ops2) w -> LegacyLocked (run_ops ops1 w).
Proof. intros HL Hg. apply guarded_app in Hg. apply legacy_locked_history; tauto. Qed.

Theorem legacy_locked_reachable ut ops1 ops2 :
  guarded legacy_guard (ops1 ++ ops2) (empty_world ut) ->
  LegacyLocked (run_ops ops1 (empty_world ut)).
Proof. apply legacy_locked_always. intros h E. discriminate E. Qed.

(** read as "no un-pause": in every world of a guarded history, an accepted UpdateParams that does
    not keep the hub paused finds the legacy list empty (so with entries it is refused) *)
Theorem no_unpause_along_history ops1 ops2 w0 h sender a b c d pz f funds w' tr :
  LegacyLocked w0 -> guarded legacy_guard (ops1 ++ ops2) w0 ->
  w_hub (run_ops ops1 w0) = Some h -> h_oldwait h <> [] ->
  paused h = true /\
  (pz <> Some true ->
   step (run_ops ops1 w0) (OTx sender A_hub (WHub (HParams a b c d pz f)) funds)
     <> (w', (true, tr))).
Proof.
  intros HL Hg Hw Hne. split.
  - eapply legacy_locked_always; eauto.
  - intros Hz H. apply (params_tx_effect _ _ _ _ _ _ _ _ _ _ _ _ Hw) in H.
    destruct H as (_ & Ho & _). apply Hne. apply Ho. exact Hz.
Qed.

(** ** the legacy list is edited by nothing but the migration *)
Lemma hub_execute_oldwait w h self sender funds m h' out :
  hub_execute w h self sender funds m = Some (h', out) -> (forall l, m <> HMigrate l) ->
  h_oldwait h' = h_oldwait h.
Proof.
  intros H Hm. destruct (is_admin_msg m) eqn:Ha.
  - unfold hub_execute in H. destruct m; try discriminate Ha.
    + apply update_params_spec in H. destruct H as (_ & _ & _ & _ & ->). reflexivity.
    + check_inv H as Hp. apply update_config_spec in H. tauto.
    + check_inv H as Hp. check_inv H as Hs. inversion H; subst. reflexivity.
    + check_inv H as Hp. check_inv H as Hs. inversion H; subst. reflexivity.
    + exfalso. eapply Hm. reflexivity.
  - apply hub_execute_static in H; [|exact Ha]. unfold static_eq in H. tauto.
Qed.

Definition oldwait_of (w : world) : option (fmap (addr * N) N) := option_map h_oldwait (w_hub w).

Definition migrate_msg (m : cmsg) : bool :=
  match m with MWasm to (WHub (HMigrate _)) _ => to =? A_hub | _ => false end.

Definition legacy_edit_op (o : op) : bool :=
  match o with
  | OReset _ => true
  | OInstHub _ _ _ _ _ _ _ _ => true
  | OLegacyWait _ _ _ => true
  | OTx _ target m funds => migrate_msg (MWasm target m funds)
  | _ => false
  end.

Lemma nx_not_migrate m : nx m -> migrate_msg m = false.
Proof.
  unfold nx. destruct m as [to wm f| | | | | |]; try reflexivity.
  destruct wm as [hm| | | | | |]; try reflexivity. destruct hm; try reflexivity. discriminate.
Qed.

Lemma step_msg_oldwait w s m w' out :
  migrate_msg m = false -> step_msg w s m = Some (w', out) -> oldwait_of w' = oldwait_of w.
Proof.
  intros Hm H. apply step_msg_inv in H.
  destruct H as [e' -> _ _ | to wm funds e1 o -> _ Hc _]; [reflexivity|].
  destruct Hc as [h hm h' -> -> Hw He -> | r rm r' _ _ _ _ -> | d dm d' _ _ _ _ -> | g gm g' _ _ _ _ ->
                 | t cm t' _ _ _ _ -> | t cm t' _ _ _ _ -> | sm e' _ _ _ -> _ | _ -> _];
    try reflexivity.
  unfold oldwait_of. cbn [w_hub set_hub set_env option_map] in *. rewrite Hw. cbn [option_map].
  f_equal. eapply hub_execute_oldwait; [exact He|].
  intros l ->. cbn [migrate_msg] in Hm. rewrite N.eqb_refl in Hm. discriminate Hm.
Qed.

Lemma run_oldwait fuel w stack tr w' tr' :
  Forall (fun sm => migrate_msg (snd sm) = false) stack ->
  run fuel w stack tr = Some (w', tr') -> oldwait_of w' = oldwait_of w.
Proof.
  intros Hst H.
  pose (J := fun (x : world) (st : list (addr * cmsg)) =>
               oldwait_of x = oldwait_of w /\ Forall (fun sm => migrate_msg (snd sm) = false) st).
  destruct (run_preserves_stack J) with (fuel := fuel) (w := w) (stack := stack) (tr := tr)
    (w' := w') (tr' := tr') as [HJ _]; [| split; [reflexivity | exact Hst] | exact H | exact HJ].
  clear. intros w0 s0 m0 rest0 w1 out0 [Ho Hst0] Hs.
  inversion Hst0 as [|x l Hx Hrest]; subst. cbn [snd] in Hx.
  split.
  - rewrite (step_msg_oldwait _ _ _ _ _ Hx Hs). exact Ho.
  - apply Forall_app. split; [|exact Hrest].
    pose proof (step_msg_emits_nx _ _ _ _ _ Hs) as Hnx.
    eapply Forall_impl; [|exact Hnx]. intros sm Hn. apply nx_not_migrate. exact Hn.
Qed.

Theorem oldwait_only_migrate w o :
  legacy_edit_op o = false -> oldwait_of (fst (step w o)) = oldwait_of w.
Proof.
  intros Ho. destruct o; try discriminate Ho; cbn [step].
  - destruct (e_now (w_env w) + dt <=? 18446744073); reflexivity.
  - destruct (ev_slash _ _ _ _ _); reflexivity.
  - destruct (ev_accrue _ _ _ _ _); reflexivity.
  - reflexivity.
  - destruct (p =? 0); reflexivity.
  - reflexivity.
  - reflexivity.
  - reflexivity.
  - reflexivity.
  - reflexivity.
  - reflexivity.
  - reflexivity.
  - reflexivity.
  - destruct (run tx_fuel w _ []) as [[w1 tr1]|] eqn:E; cbn [fst]; [|reflexivity].
    eapply run_oldwait; [|exact E]. constructor; [exact Ho | constructor].
Qed.

Theorem oldwait_only_migrate_history : forall ops w,
  Forall (fun o => legacy_edit_op o = false) ops -> oldwait_of (run_ops ops w) = oldwait_of w.
Proof.
  induction ops as [|o ops IH]; intros w Hf; [reflexivity|].
  inversion Hf as [|x l Ho Hrest]; subst.
  change (run_ops (o :: ops) w) with (run_ops ops (fst (step w o))).
  rewrite IH; [apply oldwait_only_migrate; exact Ho | exact Hrest].
Qed.

(** the migration only removes entries *)
Lemma del_incl {K V} (eqb : K -> K -> bool) (m : fmap K V) k : incl (del eqb m k) m.
Proof.
  induction m as [|[k' v'] r IH]; cbn [del]; [apply incl_refl|].
  destruct (eqb k k').
  - apply incl_tl. apply incl_refl.
  - intros x [<-|Hx]; [left; reflexivity | right; apply IH; exact Hx].
Qed.

Lemma fold_del_incl {K V} (eqb : K -> K -> bool) (es : list (K * V)) : forall (m : fmap K V),
  incl (fold_left (fun m kv => del eqb m (fst kv)) es m) m.
Proof.
  induction es as [|e es IH]; intros m; cbn [fold_left]; [apply incl_refl|].
  eapply incl_tran; [apply IH | apply del_incl].
Qed.

Theorem migrate_oldwait_sub h limit : incl (h_oldwait (migrate_wait_lists h limit)) (h_oldwait h).
Proof.
  unfold migrate_wait_lists.
  destruct (firstn _ (h_oldwait h)) as [|e0 er] eqn:Ef; [apply incl_refl|].
  destruct (fold_left _ (e0 :: er) (h_oldwait h)) as [|x l] eqn:Eo; cbn [h_oldwait set_h_params set_h_oldwait set_h_wait].
  - intros y [].
  - rewrite <- Eo. apply fold_del_incl.
Qed.

Theorem migrate_tx_oldwait w h sender limit funds w' tr :
  w_hub w = Some h ->
  step w (OTx sender A_hub (WHub (HMigrate limit)) funds) = (w', (true, tr)) ->
  paused h = true /\ exists h', w_hub w' = Some h' /\ h' = migrate_wait_lists h limit /\
    incl (h_oldwait h') (h_oldwait h).
Proof.
  intros Hw H. apply (migrate_tx_effect _ _ _ _ _ _ _ Hw) in H.
  destruct H as (Hp & e1 & _ & -> & _). split; [exact Hp|].
  eexists. split; [reflexivity|]. split; [reflexivity | apply migrate_oldwait_sub].
Qed.

(** ** the guard is needed: legacy entries put into an un-paused hub stay un-paused *)
Definition legacy_w0 : world :=
  run_ops [OInstHub A_owner 30 100 0 D A_owner usei uusd] (empty_world 100).

Lemma legacy_inject_witness :
  LegacyLocked legacy_w0 /\ ~ LegacyLocked (fst (step legacy_w0 (OLegacyWait 11 1 5))).
Proof.
  split.
  - intros h E Hne. vm_compute in E. inversion E; subst. exfalso. apply Hne. reflexivity.
  - intros HL.
    assert (E : exists h, w_hub (fst (step legacy_w0 (OLegacyWait 11 1 5))) = Some h /\
                          h_oldwait h = [((11, 1), 5)] /\ paused h = false).
    { eexists. split; [vm_compute; reflexivity|]. split; reflexivity. }
    destruct E as (h & Hw & Ho & Hp). specialize (HL h Hw). rewrite Ho, Hp in HL.
    assert (X : false = true) by (apply HL; discriminate). discriminate X.
Qed.
