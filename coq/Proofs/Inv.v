(** * Inv: shared vocabulary of the chain-level proofs — the trusted wiring of the six contracts
    (operating envelope E4 of DESIGN.md), pool / claim quantities, and the named invariants that
    several property files refer to.  Definitions and projection lemmas only. *)
From Krp Require Import Tactics Prelude Fixed FMap Types Env Registry Cw20 Reward Dispatcher Hub Exec.
Open Scope N_scope.

(** ** E4: the six contracts exist at their addresses and point at each other *)
Definition Wired (w : world) : Prop :=
  match w_hub w, w_reward w, w_disp w, w_reg w, w_bsei w, w_stsei w with
  | Some h, Some r, Some d, Some g, Some tb, Some ts =>
      hc_disp (h_cfg h) = Some A_disp /\ hc_reg (h_cfg h) = Some A_reg /\
      hc_bsei (h_cfg h) = Some A_bsei /\ hc_stsei (h_cfg h) = Some A_stsei /\
      hp_underlying (h_params h) = usei /\
      rw_hub r = A_hub /\
      dp_hub d = A_hub /\ dp_reward d = A_reward /\ dp_std d = usei /\
      rg_hub g = A_hub /\
      tk_hub tb = A_hub /\ tk_hub ts = A_hub
  | _, _, _, _, _, _ => False
  end.

Lemma Wired_inv w : Wired w ->
  exists h r d g tb ts,
    w_hub w = Some h /\ w_reward w = Some r /\ w_disp w = Some d /\ w_reg w = Some g /\
    w_bsei w = Some tb /\ w_stsei w = Some ts /\
    hc_disp (h_cfg h) = Some A_disp /\ hc_reg (h_cfg h) = Some A_reg /\
    hc_bsei (h_cfg h) = Some A_bsei /\ hc_stsei (h_cfg h) = Some A_stsei /\
    hp_underlying (h_params h) = usei /\
    rw_hub r = A_hub /\
    dp_hub d = A_hub /\ dp_reward d = A_reward /\ dp_std d = usei /\
    rg_hub g = A_hub /\ tk_hub tb = A_hub /\ tk_hub ts = A_hub.
Proof.
  unfold Wired. intros H.
  destruct (w_hub w) as [h|]; [|contradiction]. destruct (w_reward w) as [r|]; [|contradiction].
  destruct (w_disp w) as [d|]; [|contradiction]. destruct (w_reg w) as [g|]; [|contradiction].
  destruct (w_bsei w) as [tb|]; [|contradiction]. destruct (w_stsei w) as [ts|]; [|contradiction].
  exists h, r, d, g, tb, ts. repeat split; tauto.
Qed.

(** the reward contract's own configuration keeps the reward coin out of its swap list and its
    reward denom equal to the dispatcher's bSei-side denom (owner discipline, E4) *)
Definition RewardWired (w : world) : Prop :=
  match w_reward w, w_disp w with
  | Some r, Some d => rw_denom r = dp_bd d /\ dp_bd d <> usei /\ ~ In (rw_denom r) (rw_denoms r)
  | _, _ => False
  end.

(** the hub's staking rewards are paid to the dispatcher (the hub sets this itself when the
    dispatcher is registered through UpdateConfig) *)
Definition RewardsToDispatcher (w : world) : Prop := withdraw_addr (w_env w) A_hub = A_disp.

(** ** quantities *)
Definition delegated (e : env) (x : addr) : N := sumN (map snd (all_delegations e x)).

Definition booked (h : hub) : N := hs_bb (h_state h) + hs_bst (h_state h).

(** claims on a pool: circulating supply plus the requests of the open batch *)
Definition claims_b (h : hub) (tb : token) : N := tk_supply tb + cb_reqb (h_batch h).
Definition claims_st (h : hub) (ts : token) : N := tk_supply ts + cb_reqst (h_batch h).

(** the rate "backing over claims" as an 18-decimal value, 1 when either is zero (what the
    State query reports) *)
Definition rate_of (bonded claims : N) : N :=
  if (bonded =? 0) || (claims =? 0) then D else bonded * D / claims.

(** ** named invariants *)

(** C16: the reward contract mirrors the bSei ledger *)
Definition Mirror (w : world) : Prop :=
  forall tb r, w_bsei w = Some tb -> w_reward w = Some r ->
    (forall a, ho_bal (holder_of r a) = tbal tb a) /\ rw_total r = tk_supply tb.

(** C02: booked stake never exceeds what is delegated *)
Definition Books (w : world) : Prop :=
  forall h, w_hub w = Some h -> booked h <= delegated (w_env w) A_hub.

(** E1 magnitudes on a world: every amount-like quantity is at most [bound] *)
Definition LIM : N := D.      (* 10^18 base units *)
