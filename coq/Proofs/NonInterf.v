(** * NonInterf: the exit / bond / token / claim paths do not depend on the swap and oracle stubs
    (property C09, second sentence).  A two-execution (relational) property.

    The environment has three stub fields [e_price], [e_swapmode], [e_oraclemode]; they are read
    only by [swap_execute] (a [WSwap] message delivered to [A_swap]) and by the dispatcher's
    [DSwap] handler ([swap_simulate], [oracle_rate]).

    Main results
    - [stub_eq w1 w2]           : the two worlds agree on everything except the three stub fields.
    - [step_msg_agree]          : one message that is neither a [WSwap] delivered to the swap contract
                                  nor a [DSwap] delivered to the dispatcher behaves identically in
                                  [stub_eq] worlds (both fail, or same emitted messages and [stub_eq] results).
    - [exit_class_closed]       : the class [exit_class] of messages (everything except the messages
                                  that can lead to a stub read: WSwap, DSwap, DDispatch, HUpdateGlobal,
                                  RSwap, GRemove, GRedelegations) is closed under "emitted by a handler
                                  executing a message of the class".
    - [run_agree]               : executing a stack of [exit_class] messages from [stub_eq] worlds gives
                                  the same success flag, the same trace and [stub_eq] worlds.
    - [stub_independence]       : for every transaction whose root is in the class — hub Bond / BondSt /
                                  WithdrawUnbonded / Receive, EVERY cw20 message of both tokens (hence
                                  Send{Unbond}, Send{Convert}, transfers, allowances, burns), reward
                                  ClaimRewards, and more — [step w1 (OTx ..)] and [step w2 (OTx ..)] have
                                  equal outcomes and [stub_eq] resulting worlds, whatever the stubs do.
    - [stub_independence_roots] : the same, with the roots named in the property listed explicitly.
    - [history_stub_independence]: two histories that differ only by arbitrarily interleaved
                                  stub-control operations (OSetPrice / OSwapMode / OOracleMode) and whose
                                  transactions are all in the class give the same outcomes for every
                                  other operation and [stub_eq] final worlds.
    - [stub_dependence_witness] : non-triviality — UpdateGlobalIndex (outside the class) does depend on
                                  the stubs: it succeeds with a working oracle and fails with a failing one. *)
From Krp Require Import Tactics Prelude Fixed FMap Types Env Registry Cw20 Reward Dispatcher Hub Exec ExecP Hist ExitWorld.
Open Scope N_scope.

(** ** Worlds equal up to the stub fields *)
Definition env_stub_eq (e1 e2 : env) : Prop :=
  e_now e1 = e_now e2 /\ e_ut e1 = e_ut e2 /\ e_bank e1 = e_bank e2 /\ e_del e1 = e_del e2 /\
  e_unb e1 = e_unb e2 /\ e_pend e1 = e_pend e2 /\ e_wdaddr e1 = e_wdaddr e2 /\
  e_noredel e1 = e_noredel e2.

Definition stub_eq (w1 w2 : world) : Prop :=
  w_hub w1 = w_hub w2 /\ w_reward w1 = w_reward w2 /\ w_disp w1 = w_disp w2 /\
  w_reg w1 = w_reg w2 /\ w_bsei w1 = w_bsei w2 /\ w_stsei w1 = w_stsei w2 /\
  env_stub_eq (w_env w1) (w_env w2).

(** canonical representative: the stub fields overwritten with fixed values *)
Definition erase_env (e : env) : env :=
  mkEnv (e_now e) (e_ut e) (e_bank e) (e_del e) (e_unb e) (e_pend e) (e_wdaddr e) (e_noredel e)
        D SwOk OrOk.
Definition erase (w : world) : world := set_env w (erase_env (w_env w)).

Lemma env_stub_eq_iff e1 e2 : env_stub_eq e1 e2 <-> erase_env e1 = erase_env e2.
Proof.
  destruct e1, e2. unfold env_stub_eq, erase_env. cbn. split.
  - intros (A1 & A2 & A3 & A4 & A5 & A6 & A7 & A8). subst. reflexivity.
  - intros H. inversion H. repeat split; reflexivity.
Qed.

Lemma stub_eq_iff w1 w2 : stub_eq w1 w2 <-> erase w1 = erase w2.
Proof.
  unfold stub_eq. rewrite env_stub_eq_iff.
  destruct w1 as [a1 a2 a3 a4 a5 a6 ea], w2 as [b1 b2 b3 b4 b5 b6 eb]. unfold erase, set_env. cbn. split.
  - intros (A1 & A2 & A3 & A4 & A5 & A6 & A7). subst. rewrite A7. reflexivity.
  - intros H.
    pose proof (f_equal w_hub H). pose proof (f_equal w_reward H). pose proof (f_equal w_disp H).
    pose proof (f_equal w_reg H). pose proof (f_equal w_bsei H). pose proof (f_equal w_stsei H).
    pose proof (f_equal w_env H). cbn [w_hub w_reward w_disp w_reg w_bsei w_stsei w_env] in *.
    repeat split; assumption.
Qed.

Lemma stub_eq_refl w : stub_eq w w.
Proof. apply stub_eq_iff. reflexivity. Qed.
Lemma stub_eq_sym w1 w2 : stub_eq w1 w2 -> stub_eq w2 w1.
Proof. rewrite !stub_eq_iff. congruence. Qed.
Lemma stub_eq_trans w1 w2 w3 : stub_eq w1 w2 -> stub_eq w2 w3 -> stub_eq w1 w3.
Proof. rewrite !stub_eq_iff. congruence. Qed.

Lemma erase_env_idem e : erase_env (erase_env e) = erase_env e.
Proof. reflexivity. Qed.
Lemma erase_idem w : erase (erase w) = erase w.
Proof. reflexivity. Qed.
Lemma stub_eq_erase w : stub_eq w (erase w).
Proof. apply stub_eq_iff. reflexivity. Qed.

Lemma stub_eq_set_env w1 w2 e1 e2 :
  stub_eq w1 w2 -> erase_env e1 = erase_env e2 -> stub_eq (set_env w1 e1) (set_env w2 e2).
Proof.
  intros (A1 & A2 & A3 & A4 & A5 & A6 & _) He. apply env_stub_eq_iff in He.
  unfold stub_eq, set_env. cbn. tauto.
Qed.

(** ** The chain modules commute with erasure *)
Ltac destr_goal :=
  match goal with
  | |- context[match ?x with _ => _ end] =>
      lazymatch x with
      | context[match _ with _ => _ end] => fail
      | _ => destruct x eqn:?
      end
  end.

Lemma debit_erase e a d x : debit (erase_env e) a d x = option_map erase_env (debit e a d x).
Proof. destruct e. unfold debit, bal. cbn. destr_goal; reflexivity. Qed.

Lemma credit_erase e a d x : credit (erase_env e) a d x = erase_env (credit e a d x).
Proof. destruct e. reflexivity. Qed.

Lemma send_coin_erase e from to c :
  send_coin (erase_env e) from to c = option_map erase_env (send_coin e from to c).
Proof.
  unfold send_coin. destruct c as [d x]. destruct (negb (x =? 0)); [|reflexivity].
  rewrite debit_erase. destruct (debit e from d x) as [e1|]; cbn [option_map bind]; [|reflexivity].
  rewrite credit_erase. reflexivity.
Qed.

Lemma send_coins_erase cs : forall e from to,
  send_coins (erase_env e) from to cs = option_map erase_env (send_coins e from to cs).
Proof.
  unfold send_coins. induction cs as [|c cs IH]; intros e from to; cbn [foldM]; [reflexivity|].
  rewrite send_coin_erase. destruct (send_coin e from to c) as [e1|]; cbn [option_map bind]; [|reflexivity].
  apply IH.
Qed.

Lemma bank_send_erase e from to cs :
  bank_send (erase_env e) from to cs = option_map erase_env (bank_send e from to cs).
Proof. unfold bank_send. destruct cs; [reflexivity | apply send_coins_erase]. Qed.

Lemma payout_erase e x v : payout (erase_env e) x v = erase_env (payout e x v).
Proof.
  unfold payout. generalize DENOMS as l. intros l. revert e.
  induction l as [|d l IH]; intros e; cbn [fold_left]; [reflexivity|].
  rewrite <- IH. f_equal. destruct e. unfold pending. cbn. destr_goal; reflexivity.
Qed.

Lemma payout_if_entry_erase e x v : payout_if_entry (erase_env e) x v = erase_env (payout_if_entry e x v).
Proof.
  unfold payout_if_entry. replace (delegation (erase_env e) x v) with (delegation e x v) by (destruct e; reflexivity).
  destruct (delegation e x v); [apply payout_erase | reflexivity].
Qed.

Lemma do_delegate_erase e x v c :
  do_delegate (erase_env e) x v c = option_map erase_env (do_delegate e x v c).
Proof.
  unfold do_delegate. destruct (staking_coin_ok c); [|reflexivity]. destruct (is_val v); [|reflexivity].
  replace (bal (erase_env e) x usei) with (bal e x usei) by (destruct e; reflexivity).
  destruct (snd c <=? bal e x usei); [|reflexivity].
  rewrite payout_if_entry_erase, debit_erase.
  destruct (debit (payout_if_entry e x v) x usei (snd c)) as [e2|]; cbn [option_map bind]; [|reflexivity].
  destruct e2. reflexivity.
Qed.

Lemma do_undelegate_erase e x v c :
  do_undelegate (erase_env e) x v c = option_map erase_env (do_undelegate e x v c).
Proof.
  unfold do_undelegate. destruct (staking_coin_ok c); [|reflexivity].
  replace (delegation (erase_env e) x v) with (delegation e x v) by (destruct e; reflexivity).
  destruct (delegation e x v) as [cur|]; [|reflexivity].
  destruct (snd c <=? cur); [|reflexivity].
  rewrite payout_erase.
  replace (e_now (erase_env e)) with (e_now e) by (destruct e; reflexivity).
  replace (e_ut (erase_env e)) with (e_ut e) by (destruct e; reflexivity).
  destruct (payout e x v). reflexivity.
Qed.

Lemma do_redelegate_erase e x s d c :
  do_redelegate (erase_env e) x s d c = option_map erase_env (do_redelegate e x s d c).
Proof.
  unfold do_redelegate. destruct (staking_coin_ok c); [|reflexivity].
  replace (can_redelegate (erase_env e) s) with (can_redelegate e s) by (destruct e; reflexivity).
  destruct (can_redelegate e s); [|reflexivity].
  replace (delegation (erase_env e) x s) with (delegation e x s) by (destruct e; reflexivity).
  destruct (delegation e x s) as [cur|]; [|reflexivity].
  destruct (snd c <=? cur); [|reflexivity]. destruct (is_val d); [|reflexivity].
  rewrite payout_erase, payout_if_entry_erase.
  destruct (payout_if_entry (payout e x s) x d). reflexivity.
Qed.

Lemma do_withdraw_reward_erase e x v :
  do_withdraw_reward (erase_env e) x v = option_map erase_env (do_withdraw_reward e x v).
Proof.
  unfold do_withdraw_reward.
  replace (delegation (erase_env e) x v) with (delegation e x v) by (destruct e; reflexivity).
  destruct (delegation e x v); [|reflexivity]. cbn [option_map]. rewrite payout_erase. reflexivity.
Qed.

Lemma do_set_withdraw_addr_erase e x a :
  do_set_withdraw_addr (erase_env e) x a = erase_env (do_set_withdraw_addr e x a).
Proof. destruct e. reflexivity. Qed.

(** ** The handlers do not read the stub fields *)
Ltac destr_world w :=
  destruct w as [hu rw dp rg bs st [now ut bank dl unb pend wd nr pr sm om]].

Lemma hub_execute_erase w h self sender funds m :
  hub_execute w h self sender funds m = hub_execute (erase w) h self sender funds m.
Proof. destr_world w. reflexivity. Qed.

Lemma reward_execute_erase w r self sender m :
  reward_execute w r self sender m = reward_execute (erase w) r self sender m.
Proof. destr_world w. reflexivity. Qed.

Lemma reg_execute_erase w g sender m :
  reg_execute w g sender m = reg_execute (erase w) g sender m.
Proof. destr_world w. reflexivity. Qed.

Lemma bsei_execute_erase w t sender m :
  bsei_execute w t sender m = bsei_execute (erase w) t sender m.
Proof. destr_world w. reflexivity. Qed.

Lemma stsei_execute_erase w t sender m :
  stsei_execute w t sender m = stsei_execute (erase w) t sender m.
Proof. destr_world w. reflexivity. Qed.

Definition is_dswap (m : disp_msg) : bool := match m with DSwap _ _ => true | _ => false end.

Lemma disp_execute_erase w d self sender m :
  is_dswap m = false ->
  disp_execute w d self sender m = disp_execute (erase w) d self sender m.
Proof. destr_world w. intros Hm. destruct m; try reflexivity. discriminate Hm. Qed.

(** ** One message *)

(** the messages whose execution reads a stub field *)
Definition touches_stub (m : cmsg) : bool :=
  match m with
  | MWasm to (WSwap _) _ => to =? A_swap
  | MWasm to (WDisp (DSwap _ _)) _ => to =? A_disp
  | _ => false
  end.

(** agreement of two results: both fail, or both succeed with related values *)
Definition agree {A B} (R : A -> A -> Prop) (r1 r2 : result (A * B)) : Prop :=
  match r1, r2 with
  | Some (a1, b1), Some (a2, b2) => R a1 a2 /\ b1 = b2
  | None, None => True
  | _, _ => False
  end.

Lemma agree_env_op (f : env -> result env) w1 w2 e1 e2 :
  (forall e, f (erase_env e) = option_map erase_env (f e)) ->
  stub_eq w1 w2 -> erase_env e1 = erase_env e2 ->
  agree stub_eq (do e' <- f e1; Some (set_env w1 e', @nil (addr * cmsg)))
                (do e' <- f e2; Some (set_env w2 e', @nil (addr * cmsg))).
Proof.
  intros Hf Hw He. pose proof (Hf e1) as H1. pose proof (Hf e2) as H2. rewrite He in H1. rewrite H1 in H2.
  destruct (f e1) as [a|], (f e2) as [b|]; cbn [option_map bind agree] in *; try discriminate; [|exact I].
  assert (Hab : erase_env a = erase_env b) by congruence.
  split; [|reflexivity]. apply stub_eq_set_env; assumption.
Qed.

Lemma stub_eq_contracts w1 w2 : stub_eq w1 w2 ->
  w_hub w1 = w_hub w2 /\ w_reward w1 = w_reward w2 /\ w_disp w1 = w_disp w2 /\
  w_reg w1 = w_reg w2 /\ w_bsei w1 = w_bsei w2 /\ w_stsei w1 = w_stsei w2.
Proof. unfold stub_eq. tauto. Qed.

Lemma handler_eq {S} (f : world -> result (S * list cmsg)) w1 w2 :
  (forall w, f w = f (erase w)) -> stub_eq w1 w2 -> f w1 = f w2.
Proof. intros Hf Hw. apply stub_eq_iff in Hw. rewrite (Hf w1), (Hf w2), Hw. reflexivity. Qed.

Lemma stub_eq_set_hub w1 w2 h : stub_eq w1 w2 -> stub_eq (set_hub w1 h) (set_hub w2 h).
Proof. unfold stub_eq, set_hub. cbn. tauto. Qed.
Lemma stub_eq_set_reward w1 w2 h : stub_eq w1 w2 -> stub_eq (set_reward w1 h) (set_reward w2 h).
Proof. unfold stub_eq, set_reward. cbn. tauto. Qed.
Lemma stub_eq_set_disp w1 w2 h : stub_eq w1 w2 -> stub_eq (set_disp w1 h) (set_disp w2 h).
Proof. unfold stub_eq, set_disp. cbn. tauto. Qed.
Lemma stub_eq_set_reg w1 w2 h : stub_eq w1 w2 -> stub_eq (set_reg w1 h) (set_reg w2 h).
Proof. unfold stub_eq, set_reg. cbn. tauto. Qed.
Lemma stub_eq_set_bsei w1 w2 h : stub_eq w1 w2 -> stub_eq (set_bsei w1 h) (set_bsei w2 h).
Proof. unfold stub_eq, set_bsei. cbn. tauto. Qed.
Lemma stub_eq_set_stsei w1 w2 h : stub_eq w1 w2 -> stub_eq (set_stsei w1 h) (set_stsei w2 h).
Proof. unfold stub_eq, set_stsei. cbn. tauto. Qed.

Lemma agree_handler {S} (c1 c2 : option S) (r1 r2 : S -> result (S * list cmsg))
      (upd1 upd2 : S -> world) :
  c1 = c2 -> (forall x, r1 x = r2 x) -> (forall x, stub_eq (upd1 x) (upd2 x)) ->
  agree stub_eq (do x <- c1; do r <- r1 x; Some (upd1 (fst r), snd r))
                (do x <- c2; do r <- r2 x; Some (upd2 (fst r), snd r)).
Proof.
  intros -> Hr Hu. destruct c2 as [x|]; cbn [bind agree]; [|exact I].
  rewrite Hr. destruct (r2 x) as [[s o]|]; cbn [bind agree fst snd]; [|exact I].
  split; [apply Hu | reflexivity].
Qed.

Lemma call_agree w1 w2 sender target m funds :
  stub_eq w1 w2 -> touches_stub (MWasm target m funds) = false ->
  agree stub_eq (call w1 sender target m funds) (call w2 sender target m funds).
Proof.
  intros Hw Hm. pose proof (stub_eq_contracts _ _ Hw) as (C1 & C2 & C3 & C4 & C5 & C6).
  unfold call.
  destruct (target =? A_hub) eqn:E1.
  { destruct m; try exact I.
    apply agree_handler; [exact C1 | | intros; apply stub_eq_set_hub; exact Hw].
    intros x. apply (handler_eq (fun w => hub_execute w x target sender funds m)); [|exact Hw].
    intros w. apply hub_execute_erase. }
  destruct (target =? A_reward) eqn:E2.
  { match goal with |- agree _ (bind ?a _) _ => destruct a as [rm|] end; cbn [bind]; [|exact I].
    apply agree_handler; [exact C2 | | intros; apply stub_eq_set_reward; exact Hw].
    intros x. apply (handler_eq (fun w => reward_execute w x target sender rm)); [|exact Hw].
    intros w. apply reward_execute_erase. }
  destruct (target =? A_disp) eqn:E3.
  { destruct m as [| |dm| | | |]; try exact I.
    apply agree_handler; [exact C3 | | intros; apply stub_eq_set_disp; exact Hw].
    intros x. apply (handler_eq (fun w => disp_execute w x target sender dm)); [|exact Hw].
    intros w. apply disp_execute_erase. cbn [touches_stub] in Hm. destruct dm; try reflexivity.
    rewrite E3 in Hm. discriminate Hm. }
  destruct (target =? A_reg) eqn:E4.
  { destruct m; try exact I.
    apply agree_handler; [exact C4 | | intros; apply stub_eq_set_reg; exact Hw].
    intros x. apply (handler_eq (fun w => reg_execute w x sender m)); [|exact Hw].
    intros w. apply reg_execute_erase. }
  destruct (target =? A_bsei) eqn:E5.
  { destruct m; try exact I.
    apply agree_handler; [exact C5 | | intros; apply stub_eq_set_bsei; exact Hw].
    intros x. apply (handler_eq (fun w => bsei_execute w x sender m)); [|exact Hw].
    intros w. apply bsei_execute_erase. }
  destruct (target =? A_stsei) eqn:E6.
  { destruct m; try exact I.
    apply agree_handler; [exact C6 | | intros; apply stub_eq_set_stsei; exact Hw].
    intros x. apply (handler_eq (fun w => stsei_execute w x sender m)); [|exact Hw].
    intros w. apply stsei_execute_erase. }
  destruct (target =? A_swap) eqn:E7.
  { destruct m; try exact I. cbn [touches_stub] in Hm. rewrite E7 in Hm. discriminate Hm. }
  destruct (target =? A_airdrop) eqn:E8; [|exact I].
  cbn [agree]. split; [exact Hw | reflexivity].
Qed.

Lemma stub_eq_env w1 w2 : stub_eq w1 w2 -> erase_env (w_env w1) = erase_env (w_env w2).
Proof. intros H. apply env_stub_eq_iff. unfold stub_eq in H. tauto. Qed.

(** a message that does not read a stub behaves identically in worlds that differ only in the stubs *)
Theorem step_msg_agree w1 w2 s m :
  stub_eq w1 w2 -> touches_stub m = false ->
  agree stub_eq (step_msg w1 s m) (step_msg w2 s m).
Proof.
  intros Hw Hm. pose proof (stub_eq_env _ _ Hw) as He. unfold step_msg. destruct m.
  - pose proof (send_coins_erase funds (w_env w1) s to) as H1.
    pose proof (send_coins_erase funds (w_env w2) s to) as H2. rewrite He, H2 in H1.
    destruct (send_coins (w_env w1) s to funds) as [a|], (send_coins (w_env w2) s to funds) as [b|];
      cbn [option_map bind agree] in *; try discriminate; [|exact I].
    assert (Hab : erase_env a = erase_env b) by congruence.
    assert (Hw' : stub_eq (set_env w1 a) (set_env w2 b)) by (apply stub_eq_set_env; auto).
    pose proof (call_agree _ _ s to m funds Hw' Hm) as Hc.
    destruct (call (set_env w1 a) s to m funds) as [[x1 o1]|], (call (set_env w2 b) s to m funds) as [[x2 o2]|];
      cbn [agree bind fst snd] in *; try contradiction; [|exact I].
    destruct Hc as [Hx ->]. split; [exact Hx | reflexivity].
  - apply (agree_env_op (fun e => bank_send e s to coins)); auto. intros; apply bank_send_erase.
  - apply (agree_env_op (fun e => do_delegate e s v c)); auto. intros; apply do_delegate_erase.
  - apply (agree_env_op (fun e => do_undelegate e s v c)); auto. intros; apply do_undelegate_erase.
  - apply (agree_env_op (fun e => do_redelegate e s src dst c)); auto. intros; apply do_redelegate_erase.
  - apply (agree_env_op (fun e => do_withdraw_reward e s v)); auto. intros; apply do_withdraw_reward_erase.
  - cbn [agree]. split; [|reflexivity]. apply stub_eq_set_env; [exact Hw|].
    rewrite <- !do_set_withdraw_addr_erase, He. reflexivity.
Qed.

(** ** The closed class of messages that never lead to a stub read *)
Definition exit_wasm (m : wasm_msg) : bool :=
  match m with
  | WSwap _ => false
  | WDisp (DSwap _ _) => false
  | WDisp DDispatch => false
  | WHub (HUpdateGlobal _) => false
  | WReward RSwap => false
  | WReg (GRemove _) => false
  | WReg (GRedelegations _) => false
  | _ => true
  end.

Definition exit_class (m : cmsg) : bool :=
  match m with MWasm _ wm _ => exit_wasm wm | _ => true end.

Lemma exit_class_no_stub m : exit_class m = true -> touches_stub m = false.
Proof.
  destruct m as [to wm f| | | | | |]; try reflexivity. cbn [exit_class touches_stub].
  destruct wm as [hm|rm|dm|gm|cm|sm|]; try reflexivity; cbn [exit_wasm]; try discriminate.
  destruct dm; try reflexivity; discriminate.
Qed.

Lemma exit_flat_map {A} (f : A -> list cmsg) l :
  (forall x, forallb exit_class (f x) = true) -> forallb exit_class (flat_map f l) = true.
Proof.
  intros Hf. induction l as [|x l IH]; cbn [flat_map forallb]; [reflexivity|].
  rewrite forallb_app, Hf, IH. reflexivity.
Qed.

Lemma exit_map {A} (f : A -> cmsg) l :
  (forall x, exit_class (f x) = true) -> forallb exit_class (map f l) = true.
Proof.
  intros Hf. induction l as [|x l IH]; cbn [map forallb]; [reflexivity|]. rewrite Hf, IH. reflexivity.
Qed.

Lemma pick_validator_exit w self h c ms :
  pick_validator w self h c = Some ms -> forallb exit_class ms = true.
Proof.
  unfold pick_validator. intros H. bind_inv H as ys Hys. inversion H; subst.
  apply exit_flat_map. intros p. destruct (snd p =? 0); reflexivity.
Qed.

Lemma maybe_undelegate_exit w self h h' ms :
  maybe_undelegate w self h = Some (h', ms) -> forallb exit_class ms = true.
Proof.
  unfold maybe_undelegate. intros H. bind_inv H as p Hp.
  destruct (hp_epoch (h_params h) <? p); [|inversion H; reflexivity].
  unfold process_undelegations in H.
  bind_inv H as a1 E1. bind_inv H as a2 E2. bind_inv H as a3 E3. bind_inv H as a4 E4.
  bind_inv H as a5 E5. bind_inv H as a6 E6. bind_inv H as a7 E7. inversion H; subst.
  eapply pick_validator_exit; eauto.
Qed.

Lemma delegate_msgs_exit vals xs d : forallb exit_class (delegate_msgs vals xs d) = true.
Proof. unfold delegate_msgs. apply exit_flat_map. intros p. destruct (snd p =? 0); reflexivity. Qed.

Lemma execute_bond_exit w h self sender funds k h' ms :
  execute_bond w h self sender funds k = Some (h', ms) -> forallb exit_class ms = true.
Proof.
  unfold execute_bond. intros H.
  bind_inv H as dispaddr Hd. check_inv H as Hauth. check_inv H as Hlen.
  bind_inv H as pay Hpay. bind_inv H as h1 Hh1.
  bind_inv H as mint Hmint. bind_inv H as supply Hsupply. bind_inv H as s' Hs'.
  bind_inv H as vals Hvals.
  destruct vals as [|v0 vr]; [discriminate|].
  bind_inv H as r Hr.
  destruct k.
  - bind_inv H as tok Htok. inversion H; subst. rewrite forallb_app, delegate_msgs_exit. reflexivity.
  - bind_inv H as tok Htok. inversion H; subst. rewrite forallb_app, delegate_msgs_exit. reflexivity.
  - inversion H; subst. apply delegate_msgs_exit.
Qed.

Lemma receive_cw20_exit w h self sender user amount hk h' ms :
  receive_cw20 w h self sender user amount hk = Some (h', ms) -> forallb exit_class ms = true.
Proof.
  unfold receive_cw20. intros H. bind_inv H as b Hb. bind_inv H as st Hst.
  destruct hk; [| |discriminate].
  - destruct (sender =? b).
    + unfold execute_unbond in H.
      bind_inv H as h1 Hh1. bind_inv H as supply Hs. bind_inv H as awf Hawf. bind_inv H as reqb Hreqb.
      bind_inv H as h2 Hh2. bind_inv H as supply' Hs'. bind_inv H as ber Hber.
      bind_inv H as r Hr. destruct r as [h4 msgs]. bind_inv H as tok Htok. inversion H; subst.
      rewrite forallb_app, (maybe_undelegate_exit _ _ _ _ _ Hr). reflexivity.
    + destruct (sender =? st); [|discriminate]. unfold execute_unbond_stsei in H.
      bind_inv H as h1 Hh1. bind_inv H as reqst Hreqst. bind_inv H as h2 Hh2.
      bind_inv H as r Hr. destruct r as [h4 msgs]. bind_inv H as tok Htok. inversion H; subst.
      rewrite forallb_app, (maybe_undelegate_exit _ _ _ _ _ Hr). reflexivity.
  - destruct (sender =? b).
    + unfold convert_bsei_stsei in H. inv_all H. reflexivity.
    + destruct (sender =? st); [|discriminate]. unfold convert_stsei_bsei in H. inv_all H. reflexivity.
Qed.

Lemma hub_execute_exit w h self sender funds m h' ms :
  hub_execute w h self sender funds m = Some (h', ms) -> exit_wasm (WHub m) = true ->
  forallb exit_class ms = true.
Proof.
  intros H Hm. unfold hub_execute in H.
  destruct m; cbn [exit_wasm] in Hm; try discriminate Hm;
    try (check_inv H as Hp);
    try (eapply execute_bond_exit; eassumption);
    try (eapply receive_cw20_exit; eassumption).
  - unfold execute_withdraw in H. inv_all H. reflexivity.
  - bind_inv H as h1 Hh1. inversion H; reflexivity.
  - unfold execute_update_params in H. inv_all H; reflexivity.
  - unfold execute_update_config in H. inv_all H; destruct disp; reflexivity.
  - inv_all H. reflexivity.
  - inv_all H. reflexivity.
  - inv_all H. apply exit_map. reflexivity.
  - inv_all H. reflexivity.
  - inv_all H. reflexivity.
  - destruct (paused h); [|discriminate]. inversion H; reflexivity.
Qed.

Lemma reward_execute_exit w r self sender m r' ms :
  reward_execute w r self sender m = Some (r', ms) -> m <> RSwap -> forallb exit_class ms = true.
Proof.
  intros H Hm. unfold reward_execute in H. destruct m; try congruence; inv_all H; reflexivity.
Qed.

Lemma disp_execute_exit w d self sender m d' ms :
  disp_execute w d self sender m = Some (d', ms) -> exit_wasm (WDisp m) = true ->
  forallb exit_class ms = true.
Proof.
  intros H Hm. unfold disp_execute in H. destruct m; cbn [exit_wasm] in Hm; try discriminate Hm;
    inv_all H; reflexivity.
Qed.

Lemma reg_execute_exit w g sender m g' ms :
  reg_execute w g sender m = Some (g', ms) -> exit_wasm (WReg m) = true ->
  forallb exit_class ms = true.
Proof.
  intros H Hm. unfold reg_execute in H. destruct m; cbn [exit_wasm] in Hm; try discriminate Hm;
    inv_all H; reflexivity.
Qed.

Lemma bsei_execute_exit w t sender m t' ms :
  bsei_execute w t sender m = Some (t', ms) -> forallb exit_class ms = true.
Proof.
  intros H. unfold bsei_execute in H. destruct m; inv_all H; reflexivity.
Qed.

Lemma stsei_execute_exit w t sender m t' ms :
  stsei_execute w t sender m = Some (t', ms) -> forallb exit_class ms = true.
Proof.
  intros H. unfold stsei_execute in H. destruct m; inv_all H; reflexivity.
Qed.

(** the class is closed: a handler executing a message of the class emits only messages of the class *)
Theorem exit_class_closed w s m w' out :
  step_msg w s m = Some (w', out) -> exit_class m = true ->
  forallb (fun sm => exit_class (snd sm)) out = true.
Proof.
  intros H Hm. apply step_msg_inv in H. destruct H as [e' -> -> _ | to wm funds e1 o -> He1 Hc ->].
  - reflexivity.
  - cbn [exit_class] in Hm.
    assert (Ho : forallb exit_class o = true).
    { destruct Hc as [h hm h' -> -> Hh Hx _ | r rm r' -> Hrm Hr Hx _ | d dm d' -> -> Hd Hx _
                     | g gm g' -> -> Hg Hx _ | t cm t' -> -> Ht Hx _ | t cm t' -> -> Ht Hx _
                     | sm e' -> -> _ _ -> | -> _ ->].
      - eapply hub_execute_exit; eauto.
      - eapply reward_execute_exit; eauto.
        destruct Hrm as [-> | (n & -> & ->)]; [|discriminate]. intros ->. discriminate Hm.
      - eapply disp_execute_exit; eauto.
      - eapply reg_execute_exit; eauto.
      - eapply bsei_execute_exit; eauto.
      - eapply stsei_execute_exit; eauto.
      - reflexivity.
      - reflexivity. }
    rewrite forallb_forall in *. intros [a c] Hin. apply in_map_iff in Hin.
    destruct Hin as (x & Hx & Hin). inversion Hx; subst. cbn [snd]. apply Ho. exact Hin.
Qed.

(** ** Whole message trees *)
Definition exit_stack (st : list (addr * cmsg)) : bool := forallb (fun sm => exit_class (snd sm)) st.

Theorem run_agree : forall fuel w1 w2 stack tr,
  stub_eq w1 w2 -> exit_stack stack = true ->
  agree stub_eq (run fuel w1 stack tr) (run fuel w2 stack tr).
Proof.
  induction fuel as [|f IH]; intros w1 w2 stack tr Hw Hs.
  - destruct stack as [|[s m] rest]; cbn [run agree]; [split; [exact Hw | reflexivity] | exact I].
  - destruct stack as [|[s m] rest]; cbn [run]; [cbn [agree]; split; [exact Hw | reflexivity]|].
    unfold exit_stack in Hs. cbn [forallb snd] in Hs. apply andb_true_iff in Hs. destruct Hs as [Hm Hrest].
    pose proof (step_msg_agree w1 w2 s m Hw (exit_class_no_stub m Hm)) as Ha.
    destruct (step_msg w1 s m) as [[a o1]|] eqn:E1, (step_msg w2 s m) as [[b o2]|] eqn:E2;
      cbn [agree bind fst snd] in *; try contradiction; [|exact I].
    destruct Ha as [Hab ->]. apply IH; [exact Hab|].
    unfold exit_stack. rewrite forallb_app. fold (exit_stack rest).
    rewrite (exit_class_closed _ _ _ _ _ E2 Hm). exact Hrest.
Qed.

(** ** Transactions *)
Theorem stub_independence w1 w2 sender target m funds :
  stub_eq w1 w2 -> exit_wasm m = true ->
  snd (step w1 (OTx sender target m funds)) = snd (step w2 (OTx sender target m funds)) /\
  stub_eq (fst (step w1 (OTx sender target m funds))) (fst (step w2 (OTx sender target m funds))).
Proof.
  intros Hw Hm. cbn [step].
  pose proof (run_agree tx_fuel w1 w2 [(sender, MWasm target m funds)] [] Hw) as Ha.
  unfold exit_stack in Ha. cbn [forallb snd exit_class] in Ha. rewrite Hm in Ha. specialize (Ha eq_refl).
  destruct (run tx_fuel w1 _ []) as [[a t1]|], (run tx_fuel w2 _ []) as [[b t2]|];
    cbn [agree fst snd] in *; try contradiction.
  - destruct Ha as [Hab ->]. split; [reflexivity | exact Hab].
  - split; [reflexivity | exact Hw].
Qed.

(** the roots named by property C09, listed explicitly *)
Definition c09_root (m : wasm_msg) : Prop :=
  m = WHub HBond \/ m = WHub HBondSt \/ m = WHub HWithdraw \/
  (exists cm, m = WCw20 cm) \/          (* every token message: Send{Unbond}, Send{Convert}, transfers ... *)
  (exists r, m = WReward (RClaim r)).

Lemma c09_root_exit m : c09_root m -> exit_wasm m = true.
Proof.
  intros [-> | [-> | [-> | [(cm & ->) | (r & ->)]]]]; reflexivity.
Qed.

Theorem stub_independence_roots w1 w2 sender target m funds :
  stub_eq w1 w2 -> c09_root m ->
  snd (step w1 (OTx sender target m funds)) = snd (step w2 (OTx sender target m funds)) /\
  stub_eq (fst (step w1 (OTx sender target m funds))) (fst (step w2 (OTx sender target m funds))).
Proof. intros Hw Hm. apply stub_independence; [exact Hw | apply c09_root_exit; exact Hm]. Qed.

(** ** Histories: any failure pattern of the stubs *)
Definition is_stub_op (o : op) : bool :=
  match o with OSetPrice _ | OSwapMode _ | OOracleMode _ => true | _ => false end.
Definition exit_op (o : op) : bool :=
  match o with OTx _ _ m _ => exit_wasm m | _ => true end.
Definition drop_stub_ops (ops : list op) : list op := filter (fun o => negb (is_stub_op o)) ops.

(** the outcomes (success flag, trace) of the operations other than stub control *)
Fixpoint observed (ops : list op) (w : world) : list outcome :=
  match ops with
  | [] => []
  | o :: r => (if is_stub_op o then [] else [snd (step w o)]) ++ observed r (fst (step w o))
  end.

Lemma deliver_matured_erase e : deliver_matured (erase_env e) = erase_env (deliver_matured e).
Proof.
  unfold deliver_matured.
  replace (e_unb (erase_env e)) with (e_unb e) by (destruct e; reflexivity).
  replace (e_now (erase_env e)) with (e_now e) by (destruct e; reflexivity).
  replace (set_unb (erase_env e) []) with (erase_env (set_unb e [])) by (destruct e; reflexivity).
  generalize (set_unb e []) as e0. generalize (e_unb e) as l. generalize (e_now e) as now.
  intros now l. induction l as [|u l IH]; intros e0; cbn [fold_left]; [reflexivity|].
  rewrite <- IH. f_equal. destruct u as [[[x v] amt] t]. destruct (t <=? now); destruct e0; reflexivity.
Qed.

Lemma ev_slash_erase e v num den unb :
  ev_slash (erase_env e) v num den unb = option_map erase_env (ev_slash e v num den unb).
Proof.
  unfold ev_slash. destruct (num <=? den); [|reflexivity]. destruct (negb (den =? 0)); [|reflexivity].
  destruct e. reflexivity.
Qed.

Lemma ev_accrue_erase e x v d a :
  ev_accrue (erase_env e) x v d a = option_map erase_env (ev_accrue e x v d a).
Proof.
  unfold ev_accrue.
  replace (delegation (erase_env e) x v) with (delegation e x v) by (destruct e; reflexivity).
  destruct (delegation e x v); [|reflexivity]. destruct e. reflexivity.
Qed.

Lemma stub_eq_set_w w1 w2 (f : world -> world) :
  (forall w, erase (f w) = f (erase w)) -> stub_eq w1 w2 -> stub_eq (f w1) (f w2).
Proof. intros Hf Hw. apply stub_eq_iff. apply stub_eq_iff in Hw. rewrite !Hf, Hw. reflexivity. Qed.

Lemma step_agree_env_op (f : env -> result env) w1 w2 :
  (forall e, f (erase_env e) = option_map erase_env (f e)) -> stub_eq w1 w2 ->
  let r1 := match f (w_env w1) with Some e' => (set_env w1 e', (true, @nil (addr * cmsg))) | None => (w1, (false, [])) end in
  let r2 := match f (w_env w2) with Some e' => (set_env w2 e', (true, @nil (addr * cmsg))) | None => (w2, (false, [])) end in
  snd r1 = snd r2 /\ stub_eq (fst r1) (fst r2).
Proof.
  intros Hf Hw. pose proof (stub_eq_env _ _ Hw) as He.
  pose proof (Hf (w_env w1)) as H1. pose proof (Hf (w_env w2)) as H2. rewrite He, H2 in H1.
  destruct (f (w_env w1)) as [a|], (f (w_env w2)) as [b|]; cbn [option_map fst snd] in *; try discriminate.
  - assert (Hab : erase_env a = erase_env b) by congruence.
    split; [reflexivity | apply stub_eq_set_env; assumption].
  - split; [reflexivity | exact Hw].
Qed.

(** every operation other than a transaction outside the class agrees on [stub_eq] worlds *)
Lemma step_agree_op w1 w2 o :
  stub_eq w1 w2 -> exit_op o = true ->
  snd (step w1 o) = snd (step w2 o) /\ stub_eq (fst (step w1 o)) (fst (step w2 o)).
Proof.
  intros Hw Ho. pose proof (stub_eq_env _ _ Hw) as He.
  pose proof (stub_eq_contracts _ _ Hw) as (C1 & C2 & C3 & C4 & C5 & C6).
  assert (Hnow : e_now (w_env w1) = e_now (w_env w2)) by (unfold stub_eq, env_stub_eq in Hw; tauto).
  assert (Hnr : e_noredel (w_env w1) = e_noredel (w_env w2)) by (unfold stub_eq, env_stub_eq in Hw; tauto).
  destruct o; cbn [step exit_op] in *.
  - split; [reflexivity | apply stub_eq_refl].
  - rewrite Hnow. destruct (e_now (w_env w2) + dt <=? 18446744073); cbn [fst snd]; (split; [reflexivity|]); [|exact Hw].
    apply stub_eq_set_env; [exact Hw|]. unfold ev_advance. rewrite <- !deliver_matured_erase. f_equal.
    rewrite Hnow. destruct (w_env w1), (w_env w2). unfold erase_env in *. cbn in *. inversion He; subst. reflexivity.
  - apply (step_agree_env_op (fun e => ev_slash e v num den unb)); [intros; apply ev_slash_erase | exact Hw].
  - apply (step_agree_env_op (fun e => ev_accrue e A_hub v d a)); [intros; apply ev_accrue_erase | exact Hw].
  - cbn [fst snd]. split; [reflexivity|]. apply stub_eq_set_env; [exact Hw|].
    rewrite <- !credit_erase, He. reflexivity.
  - destruct (p =? 0); cbn [fst snd]; (split; [reflexivity|]); [exact Hw|].
    apply stub_eq_set_env; [exact Hw|]. destruct (w_env w1), (w_env w2). exact He.
  - cbn [fst snd]. split; [reflexivity|]. apply stub_eq_set_env; [exact Hw|]. destruct (w_env w1), (w_env w2). exact He.
  - cbn [fst snd]. split; [reflexivity|]. apply stub_eq_set_env; [exact Hw|]. destruct (w_env w1), (w_env w2). exact He.
  - cbn [fst snd]. split; [reflexivity|]. apply stub_eq_set_env; [exact Hw|]. rewrite Hnr.
    destruct (w_env w1), (w_env w2). unfold erase_env in *. cbn in *. inversion He; subst. reflexivity.
  - rewrite C1. destruct (w_hub w2); cbn [fst snd]; (split; [reflexivity|]); [|exact Hw].
    apply stub_eq_set_hub. exact Hw.
  - rewrite Hnow. cbn [fst snd]. split; [reflexivity|].
    unfold stub_eq, set_w_hub in *. cbn. tauto.
  - cbn [fst snd]. split; [reflexivity|]. unfold stub_eq, set_w_reward in *. cbn. tauto.
  - cbn [fst snd]. split; [reflexivity|]. unfold stub_eq, set_w_disp in *. cbn. tauto.
  - cbn [fst snd]. split; [reflexivity|]. unfold stub_eq, set_w_reg in *. cbn. tauto.
  - cbn [fst snd]. split; [reflexivity|]. unfold stub_eq, set_w_bsei in *. cbn. tauto.
  - cbn [fst snd]. split; [reflexivity|]. unfold stub_eq, set_w_stsei in *. cbn. tauto.
  - apply stub_independence; assumption.
Qed.

(** a stub-control operation changes nothing but the stubs *)
Lemma step_stub_op w o : is_stub_op o = true -> stub_eq w (fst (step w o)).
Proof.
  intros Ho. destruct o; try discriminate Ho; cbn [step].
  - destruct (p =? 0); cbn [fst]; [apply stub_eq_refl|].
    apply stub_eq_iff. unfold erase, set_env. cbn. destruct (w_env w). reflexivity.
  - cbn [fst]. apply stub_eq_iff. unfold erase, set_env. cbn. destruct (w_env w). reflexivity.
  - cbn [fst]. apply stub_eq_iff. unfold erase, set_env. cbn. destruct (w_env w). reflexivity.
Qed.

Lemma stub_op_exit o : is_stub_op o = true -> exit_op o = true.
Proof. destruct o; try discriminate; reflexivity. Qed.

Lemma run_ops_cons o ops w : run_ops (o :: ops) w = run_ops ops (fst (step w o)).
Proof. reflexivity. Qed.

Lemma history_drop_stub_ops : forall ops w1 w2,
  stub_eq w1 w2 -> forallb exit_op ops = true ->
  stub_eq (run_ops ops w1) (run_ops (drop_stub_ops ops) w2) /\
  observed ops w1 = observed (drop_stub_ops ops) w2.
Proof.
  induction ops as [|o ops IH]; intros w1 w2 Hw Hex.
  - split; [exact Hw | reflexivity].
  - cbn [forallb] in Hex. apply andb_true_iff in Hex. destruct Hex as [Ho Hex].
    rewrite run_ops_cons. cbn [observed]. unfold drop_stub_ops. cbn [filter]. fold (drop_stub_ops ops).
    destruct (is_stub_op o) eqn:Es; cbn [negb app].
    + apply IH; [|exact Hex]. eapply stub_eq_trans; [|exact Hw].
      apply stub_eq_sym. apply step_stub_op. exact Es.
    + rewrite run_ops_cons. cbn [observed]. rewrite Es. cbn [app].
      destruct (step_agree_op w1 w2 o Hw Ho) as [Hout Hw'].
      destruct (IH _ _ Hw' Hex) as [H1 H2]. split; [exact H1|]. rewrite Hout, H2. reflexivity.
Qed.

Lemma exit_ops_drop ops : forallb exit_op ops = forallb exit_op (drop_stub_ops ops).
Proof.
  induction ops as [|o ops IH]; [reflexivity|]. unfold drop_stub_ops. cbn [forallb filter].
  fold (drop_stub_ops ops). destruct (is_stub_op o) eqn:Es; cbn [negb forallb].
  - rewrite (stub_op_exit o Es). exact IH.
  - rewrite IH. reflexivity.
Qed.

(** two histories that differ only in stub-control operations (price changes, swap / oracle set to
    work, fail, or answer garbage, inserted anywhere) *)
Theorem history_stub_independence ops1 ops2 w1 w2 :
  stub_eq w1 w2 -> drop_stub_ops ops1 = drop_stub_ops ops2 -> forallb exit_op ops1 = true ->
  observed ops1 w1 = observed ops2 w2 /\ stub_eq (run_ops ops1 w1) (run_ops ops2 w2).
Proof.
  intros Hw Hd Hex.
  assert (Hex2 : forallb exit_op ops2 = true) by (rewrite exit_ops_drop, <- Hd, <- exit_ops_drop; exact Hex).
  destruct (history_drop_stub_ops ops1 w1 w2 Hw Hex) as [A1 A2].
  destruct (history_drop_stub_ops ops2 w2 w2 (stub_eq_refl w2) Hex2) as [B1 B2].
  rewrite Hd in A1, A2. split; [congruence|].
  eapply stub_eq_trans; [exact A1 | apply stub_eq_sym; exact B1].
Qed.

(** ** Non-vacuity and non-triviality (concrete world of Proofs/ExitWorld.v) *)

(** the same world with the swap contract failing, the oracle failing and a different price *)
Definition world0_broken : world :=
  run_ops [OSwapMode SwFail; OOracleMode OrFail; OSetPrice 7] world0.

Example stub_independence_nonvacuous :
  stub_eq world0 world0_broken /\ world0 <> world0_broken /\
  c09_root (WCw20 (CSend A_hub 1000 HkUnbond)) /\
  fst (snd (step world0 (OTx alice A_bsei (WCw20 (CSend A_hub 1000 HkUnbond)) []))) = true /\
  fst (snd (step world0_broken (OTx alice A_bsei (WCw20 (CSend A_hub 1000 HkUnbond)) []))) = true.
Proof.
  split; [vm_compute; repeat split|]. split; [intros H; vm_compute in H; discriminate H|].
  split; [right; right; right; left; eexists; reflexivity|]. split; vm_compute; reflexivity.
Qed.

(** outside the class the stubs DO matter: with staking rewards pending, UpdateGlobalIndex succeeds
    when swap and oracle work and fails when the oracle (or the swap contract) fails — so the
    exclusion of [HUpdateGlobal] from [exit_wasm] is necessary, and [stub_eq] is not a trivial relation *)
Definition world0_rewards : world := fst (step world0 (OAccrue 0 usei 1000)).

Lemma stub_dependence_witness :
  let tx := OTx updater A_hub (WHub (HUpdateGlobal 0)) [] in
  fst (snd (step world0_rewards tx)) = true /\
  fst (snd (step (fst (step world0_rewards (OOracleMode OrFail))) tx)) = false /\
  fst (snd (step (fst (step world0_rewards (OSwapMode SwFail))) tx)) = false /\
  stub_eq world0_rewards (fst (step world0_rewards (OOracleMode OrFail))).
Proof. vm_compute. repeat split. Qed.

(** a history with stub failures injected between the exit transactions *)
Example history_stub_independence_nonvacuous :
  let txs := [ OTx alice A_bsei (WCw20 (CSend A_hub 1000 HkUnbond)) [];
               OAdvance 31;
               OTx bob A_stsei (WCw20 (CSend A_hub 500 HkUnbond)) [];
               OAdvance 100;
               OTx alice A_hub (WHub HWithdraw) [] ] in
  let txs' := [ OSwapMode SwGarbage;
                OTx alice A_bsei (WCw20 (CSend A_hub 1000 HkUnbond)) [];
                OAdvance 31; OOracleMode OrZero;
                OTx bob A_stsei (WCw20 (CSend A_hub 500 HkUnbond)) [];
                OAdvance 100; OSetPrice 3;
                OTx alice A_hub (WHub HWithdraw) [] ] in
  drop_stub_ops txs = drop_stub_ops txs' /\ forallb exit_op txs = true /\
  map fst (observed txs world0) = [true; true; true; true; true].
Proof. vm_compute. repeat split. Qed.
